/-
  C05b — the `merge` strategy over a WHOLE import (continuation of C05, §5b).

  `Props/C05.lean` proves the one-arrival statement `merge_exact` and leaves the whole-import reading of the
  property text as the unproved `def merge_exact_seq_full : Prop`.  Here it is proved, for arbitrary
  `force_merge_fields`, over feature lists keyed by a single-valued `ID`:

      populateGff (mergeCfg d fmf) db0 [] fs   =   the specification by GROUPING  (`merge_exact_seq`)

  Layout
  * §0  specification (written from the property text): `groupKey`, `groupReps`, `groupOf`, `groupText`,
        `groupAttrs`, `groupRow`, `mergeRows`, `mergeDups`, `groupId`, `mergeLinks`, the domain `MergeDomain`
  * §1  sanity of the specification (what the groups, the exempt text and the merged attributes ARE)
  * §2  one arrival: the invariant `MergeInv` is preserved (`merge_step`)
  * §3  whole import: `merge_seq_from`, `merge_exact_seq`, `merge_exact_seq_rows`
  * §4  non-vacuity
  * §5  `merge_exact_seq_full_false`: without the side conditions the statement of C05 §5b is false
-/
import GffProofs.Lemmas.C05bAux

namespace GffProofs.C05
open GffModel GffModel.Create GffModel.Interface
open GffProofs.C04 (autoId incr_spec IdsNodup)
open GffProofs.C02 (idOf parentsOf gffCfg)

/-! ## §0 Specification -/

/-- the importer configuration: default GFF3 `id_spec` (`ID`), `merge_strategy="merge"`, arbitrary dialect and
`force_merge_fields` -/
def mergeCfg (d : Dialect) (fmf : List Str) : Cfg := { gffCfg .merge d with forceMergeFields := fmf }

/-- the compared columns: those of `seqid … frame` not listed in `force_merge_fields` -/
def checkCols (fmf : List Str) : List Str := gffCols.filter (fun k => !fmf.contains k)

/-- **what arrivals are grouped by**: the key and the text of every compared column -/
def groupKey (fmf : List Str) (f : Feature) : Str × List Str := (keyOf f, (checkCols fmf).map (colText f))

/-- **the first arrival of every group, in order of arrival** -/
def groupReps (fmf : List Str) (fs : List Feature) : List Feature := firstsBy (groupKey fmf) [] fs

/-- **the arrivals of the group of `r`, in order of arrival** -/
def groupOf (fmf : List Str) (fs : List Feature) (r : Feature) : List Feature :=
  fs.filter (fun g => groupKey fmf g = groupKey fmf r)

/-- **an exempt column of a group**: the value of its only arrival, or — for two or more arrivals — the
comma-joined, sorted, duplicate-free set of the arrivals' values, each split on commas -/
def groupText (G : List Feature) (k : Str) : Str :=
  match G with
  | [g] => colText g k
  | _ => Str.join [','] (sortStrs (dedup (G.flatMap (fun g => Str.split [','] (colText g k)))))

/-- **the attribute dictionary of a group**, in the order the code produces: the first arrival's dictionary;
every later arrival puts its own keys first and, per key, its own values first, then removes repeats.
(Characterised by `groupAttrs_values`, `groupAttrs_nodup`, `groupAttrs_keys`, `groupAttrs_keys_nodup`.) -/
def groupAttrs : List Feature → Attrs
  | [] => []
  | g :: rest => rest.foldl (fun acc f => mergedAttrs f [{ attrs := acc }]) g.attrs

/-- **the stored row of a group** with first arrival `r`, arrivals `G`, filed under `id`: id, start, end,
extra fields, bin and every compared column are those of the FIRST arrival; each exempt text column
(`seqid, source, featuretype, score, strand, frame` when listed in `force_merge_fields`) is `groupText`;
the attributes are `groupAttrs`. -/
def groupRow (fmf : List Str) (G : List Feature) (r : Feature) (id : Str) : Row :=
  let pick (k : String) (old : Str) : Str := if k.toList ∈ fmf then groupText G k.toList else old
  { storedRow r id with
    attrs := groupAttrs G
    seqid := pick "seqid" r.seqid
    source := pick "source" r.source
    ftype := pick "featuretype" r.ftype
    score := pick "score" r.score
    strand := pick "strand" r.strand
    frame := pick "frame" r.frame }

/-- **every group (its first arrival) with the id it is stored under**: the first group of a key under the
key, its `j`-th later group under `key_j` (`uniqueId [] []`, C05), in order of first arrival -/
def groupPlaces (fmf : List Str) (fs : List Feature) : List (Feature × Str) :=
  placements [] [] [] (groupReps fmf fs)

/-- **the `features` table after the import**: one row per group, in order of the groups' first arrivals -/
def mergeRows (fmf : List Str) (fs : List Feature) : List Row :=
  (groupPlaces fmf fs).map (fun p => groupRow fmf (groupOf fmf fs p.1) p.1 p.2)

/-- **the `duplicates` record**: `(key, key_j)` for every later group, in order -/
def mergeDups (fmf : List Str) (fs : List Feature) : List (Str × Str) :=
  ((groupPlaces fmf fs).filter (fun p => p.2 ≠ keyOf p.1)).map (fun p => (keyOf p.1, p.2))

/-- the id the group of arrival `f` is stored under -/
def groupId (fmf : List Str) (fs : List Feature) (f : Feature) : Str :=
  (((groupPlaces fmf fs).find? (fun p => groupKey fmf p.1 = groupKey fmf f)).map (·.2)).getD []

/-- **the relation rows added**: every arrival's `Parent` links, attached to the id of its group -/
def mergeLinks (fmf : List Str) (fs : List Feature) : List Rel :=
  fs.flatMap (fun f => linksOf f (groupId fmf fs f))

/-- **domain**: every arrival carries one `ID`; no key has the shape `<key'>_<n>` of a generated id (`Fresh`,
C05); no column text contains a tab (true of anything read from a tab-separated line) — so that two groups of
one key, which differ in a compared column, never print alike and `_candidate_merges` keeps both. -/
structure MergeDomain (fs : List Feature) : Prop where
  keyed : Keyed fs
  fresh : Fresh [] [] fs
  noTab : ∀ f ∈ fs, ∀ k ∈ gffCols, '\t' ∉ colText f k

theorem MergeDomain.sub {fs fs' : List Feature} (h : MergeDomain fs) (hs : ∀ x ∈ fs', x ∈ fs) : MergeDomain fs' where
  keyed := fun f hf => h.keyed f (hs f hf)
  fresh := fun f hf n hn => ⟨by simp, fun g hg => (h.fresh f (hs f hf) n hn).2 g (hs g hg)⟩
  noTab := fun f hf => h.noTab f (hs f hf)

/-- a simple sufficient condition: no key contains an underscore -/
theorem mergeDomain_of (fs : List Feature) (hK : Keyed fs) (hU : ∀ f ∈ fs, '_' ∉ keyOf f)
    (hT : ∀ f ∈ fs, ∀ k ∈ gffCols, '\t' ∉ colText f k) : MergeDomain fs :=
  ⟨hK, fresh_of_no_underscore [] [] fs (by simp) hU, hT⟩

/-! ## §1 Sanity of the specification -/

/-- two arrivals are grouped together iff they have the same key and agree on every compared column
(`SameGroup` of C05) -/
theorem groupKey_eq_iff (d : Dialect) (fmf : List Str) (f g : Feature) :
    groupKey fmf f = groupKey fmf g ↔ SameGroup (mergeCfg d fmf) f g := by
  unfold groupKey SameGroup Agrees checkCols
  simp only [Prod.mk.injEq, List.map_inj_left, List.mem_filter, Bool.not_eq_eq_eq_not, Bool.not_true,
    List.contains_eq_mem, decide_eq_false_iff_not, and_imp]
  constructor
  · rintro ⟨h1, h2⟩; exact ⟨h1, fun k hk hn => (h2 k hk hn).symm⟩
  · rintro ⟨h1, h2⟩; exact ⟨h1, fun k hk hn => (h2 k hk hn).symm⟩

theorem groupReps_sublist (fmf : List Str) (fs : List Feature) : (groupReps fmf fs).Sublist fs :=
  firstsBy_sublist _ _ _

/-- the listed first arrivals belong to pairwise different groups -/
theorem groupReps_nodup (fmf : List Str) (fs : List Feature) : ((groupReps fmf fs).map (groupKey fmf)).Nodup :=
  (firstsBy_keys _ _ _).1

/-- every arrival's group is listed -/
theorem groupReps_cover (fmf : List Str) (fs : List Feature) (f : Feature) (hf : f ∈ fs) :
    ∃ r ∈ groupReps fmf fs, groupKey fmf r = groupKey fmf f :=
  (mem_firstsBy_key _ [] fs _).mpr ⟨by simp, f, hf, rfl⟩

/-- the listed arrival of a group is the FIRST arrival of that group -/
theorem groupReps_first (fmf : List Str) (fs : List Feature) (f : Feature) :
    (groupReps fmf fs).find? (fun r => groupKey fmf r = groupKey fmf f) =
      fs.find? (fun r => groupKey fmf r = groupKey fmf f) :=
  firstsBy_find _ [] fs _ (by simp)

/-- the exempt text of a group of two or more arrivals is the comma-joined, sorted, duplicate-free list of
exactly the values seen (each arrival's value split on commas) -/
theorem groupText_spec (G : List Feature) (k : Str) (h2 : 2 ≤ G.length) :
    ∃ vs : List Str, groupText G k = Str.join [','] vs ∧ vs.Nodup ∧ vs.Pairwise (fun a b => a ≤ b) ∧
      ∀ v, v ∈ vs ↔ ∃ g ∈ G, v ∈ Str.split [','] (colText g k) := by
  refine ⟨sortStrs (dedup (G.flatMap (fun g => Str.split [','] (colText g k)))), ?_, ?_, sortStrs_sorted _, ?_⟩
  · match G, h2 with
    | _ :: _ :: _, _ => rfl
  · exact (sortStrs_perm _).nodup_iff.mpr (C11.dedup_exact _).1
  · intro v
    rw [mem_sortDedup]
    simp only [List.mem_flatMap]

theorem groupText_single (g : Feature) (k : Str) : groupText [g] k = colText g k := rfl

theorem groupText_two (G : List Feature) (k : Str) (h2 : 2 ≤ G.length) :
    groupText G k = Str.join [','] (sortStrs (dedup (G.flatMap (fun g => Str.split [','] (colText g k))))) := by
  match G, h2 with
  | _ :: _ :: _, _ => rfl

/-- a value without comma is its own exempt text: for comma-free columns the case distinction disappears -/
theorem groupText_single_nocomma (g : Feature) (k : Str) (h : ',' ∉ colText g k) :
    groupText [g] k = Str.join [','] (sortStrs (dedup ([g].flatMap (fun g => Str.split [','] (colText g k))))) := by
  have hs : Str.split [','] (colText g k) = [colText g k] := C08bAux.split_char_none ',' _ h
  simp only [groupText, List.flatMap_cons, List.flatMap_nil, List.append_nil, hs]
  have h1 : dedup [colText g k] = [colText g k] := by simp [dedup]
  rw [h1]
  simp [sortStrs, Str.join]

/-! ### the merged attributes -/

theorem mergedAttrs_congr (f : Feature) (a b : Feature) (h : a.attrs = b.attrs) :
    mergedAttrs f [a] = mergedAttrs f [b] := by
  unfold mergedAttrs
  simp only [List.foldl_cons, List.foldl_nil, h]

theorem groupAttrs_snoc (G : List Feature) (f : Feature) (hne : G ≠ []) :
    groupAttrs (G ++ [f]) = mergedAttrs f [{ attrs := groupAttrs G }] := by
  cases G with
  | nil => exact absurd rfl hne
  | cons g G' =>
    simp only [List.cons_append, groupAttrs, List.foldl_append, List.foldl_cons, List.foldl_nil]

theorem groupAttrs_single (g : Feature) : groupAttrs [g] = g.attrs := rfl

theorem mem_of_get? {α : Type} (d : Dict α) (k : Str) (v : α) (hnd : (Dict.keys d).Nodup) (h : (k, v) ∈ d) :
    Dict.get? d k = some v := by
  induction d with
  | nil => cases h
  | cons p rest ih =>
    obtain ⟨k', v'⟩ := p
    have hk : Dict.keys ((k', v') :: rest) = k' :: Dict.keys rest := rfl
    rw [hk, List.nodup_cons] at hnd
    rcases List.mem_cons.mp h with h | h
    · cases h; simp [Dict.get?]
    · have hne : k' ≠ k := by
        intro e; subst e
        exact hnd.1 (List.mem_map.mpr ⟨(k', v), h, rfl⟩)
      simp only [Dict.get?, hne, if_false]
      exact ih hnd.2 h

/-- the attribute keys of a group's row are pairwise different when those of its arrivals are -/
theorem groupAttrs_keys_nodup (G : List Feature) (h : ∀ g ∈ G, (Dict.keys g.attrs).Nodup) :
    (Dict.keys (groupAttrs G)).Nodup := by
  induction G using snoc_induction with
  | h0 => simp [groupAttrs, Dict.keys]
  | hs G f ih =>
    by_cases hne : G = []
    · subst hne; exact h f (by simp)
    · rw [groupAttrs_snoc G f hne]
      exact mergedAttrs_keys_nodup f _ (h f (by simp))

/-- **merged attribute values: per key exactly the values of the group's arrivals** -/
theorem groupAttrs_values (G : List Feature) (h : ∀ g ∈ G, (Dict.keys g.attrs).Nodup) (k v : Str) :
    v ∈ ((groupAttrs G).get? k).getD [] ↔ ∃ g ∈ G, v ∈ (g.attrs.get? k).getD [] := by
  induction G using snoc_induction with
  | h0 => simp [groupAttrs, Dict.get?]
  | hs G f ih =>
    by_cases hne : G = []
    · subst hne; simp [groupAttrs]
    · have hG : ∀ g ∈ G, (Dict.keys g.attrs).Nodup := fun g hg => h g (List.mem_append_left _ hg)
      rw [groupAttrs_snoc G f hne, mergedAttrs_values]
      simp only [List.mem_singleton, exists_eq_left, List.mem_append, List.mem_singleton]
      have hnd := groupAttrs_keys_nodup G hG
      constructor
      · rintro (h1 | ⟨vs, hvs, hv⟩)
        · exact ⟨f, Or.inr rfl, h1⟩
        · have := mem_of_get? _ _ _ hnd hvs
          obtain ⟨g, hg, hgv⟩ := (ih hG).mp (by rw [this]; exact hv)
          exact ⟨g, Or.inl hg, hgv⟩
      · rintro ⟨g, hg | rfl, hgv⟩
        · have := (ih hG).mpr ⟨g, hg, hgv⟩
          cases hget : Dict.get? (groupAttrs G) k with
          | none => rw [hget] at this; cases this
          | some vs =>
            rw [hget] at this
            exact Or.inr ⟨vs, get?_mem _ _ _ hget, this⟩
        · exact Or.inl hgv

/-- … without repeats, as soon as something was merged (a group of one arrival is stored unchanged) -/
theorem groupAttrs_nodup (G : List Feature) (h2 : 2 ≤ G.length) (k : Str) :
    (((groupAttrs G).get? k).getD []).Nodup := by
  induction G using snoc_induction with
  | h0 => simp at h2
  | hs G f _ =>
    have hne : G ≠ [] := by rintro rfl; simp at h2
    rw [groupAttrs_snoc G f hne]
    cases hg : (mergedAttrs f [{ attrs := groupAttrs G }]).get? k with
    | none => simp
    | some vs => exact mergedAttrs_nodup f _ k vs hg

/-- … no key beyond those of the arrivals -/
theorem groupAttrs_keys (G : List Feature) (k : Str) :
    k ∈ Dict.keys (groupAttrs G) ↔ ∃ g ∈ G, k ∈ Dict.keys g.attrs := by
  induction G using snoc_induction with
  | h0 => simp [groupAttrs, Dict.keys]
  | hs G f ih =>
    by_cases hne : G = []
    · subst hne; simp [groupAttrs]
    · rw [groupAttrs_snoc G f hne, mergedAttrs_mem_keys]
      simp only [List.mem_singleton, exists_eq_left, List.mem_append]
      rw [ih]
      constructor
      · rintro (h1 | ⟨g, hg, hk⟩)
        · exact ⟨f, Or.inr rfl, h1⟩
        · exact ⟨g, Or.inl hg, hk⟩
      · rintro ⟨g, hg | rfl, hk⟩
        · exact Or.inr ⟨g, hg, hk⟩
        · exact Or.inl hk

/-! ## §2 One arrival -/

/-! ### the columns of a stored group row -/

/-- the printed / compared text of a column of a group row: an exempt TEXT column (`start` / `end` are never
rewritten) holds `groupText`, every other column the first arrival's text -/
theorem colText_seqid (f : Feature) : colText f "seqid".toList = f.seqid := rfl
theorem colText_source (f : Feature) : colText f "source".toList = f.source := rfl
theorem colText_ftype (f : Feature) : colText f "featuretype".toList = f.ftype := rfl
theorem colText_start (f : Feature) : colText f "start".toList = Feature.coordStr f.start := rfl
theorem colText_end (f : Feature) : colText f "end".toList = Feature.coordStr f.stop := rfl
theorem colText_score (f : Feature) : colText f "score".toList = f.score := rfl
theorem colText_strand (f : Feature) : colText f "strand".toList = f.strand := rfl
theorem colText_frame (f : Feature) : colText f "frame".toList = f.frame := rfl

theorem colText_groupRow (d : Dialect) (fmf : List Str) (G : List Feature) (r : Feature) (id : Str) (k : Str)
    (hk : k ∈ gffCols) :
    colText ((groupRow fmf G r id).toFeature d) k =
      if k ∈ fmf ∧ k ≠ "start".toList ∧ k ≠ "end".toList then groupText G k else colText r k := by
  simp only [gffCols, List.map_cons, List.map_nil, List.mem_cons, List.not_mem_nil, or_false] at hk
  rcases hk with rfl | rfl | rfl | rfl | rfl | rfl | rfl | rfl
  · rw [colText_seqid, colText_seqid]
    show (if "seqid".toList ∈ fmf then groupText G "seqid".toList else r.seqid) = _
    by_cases h : "seqid".toList ∈ fmf
    · rw [if_pos h, if_pos ⟨h, by decide, by decide⟩]
    · rw [if_neg h, if_neg (fun hh => h hh.1)]
  · rw [colText_source, colText_source]
    show (if "source".toList ∈ fmf then groupText G "source".toList else r.source) = _
    by_cases h : "source".toList ∈ fmf
    · rw [if_pos h, if_pos ⟨h, by decide, by decide⟩]
    · rw [if_neg h, if_neg (fun hh => h hh.1)]
  · rw [colText_ftype, colText_ftype]
    show (if "featuretype".toList ∈ fmf then groupText G "featuretype".toList else r.ftype) = _
    by_cases h : "featuretype".toList ∈ fmf
    · rw [if_pos h, if_pos ⟨h, by decide, by decide⟩]
    · rw [if_neg h, if_neg (fun hh => h hh.1)]
  · rw [colText_start, colText_start, if_neg (fun hh => hh.2.1 rfl)]; rfl
  · rw [colText_end, colText_end, if_neg (fun hh => hh.2.2 rfl)]; rfl
  · rw [colText_score, colText_score]
    show (if "score".toList ∈ fmf then groupText G "score".toList else r.score) = _
    by_cases h : "score".toList ∈ fmf
    · rw [if_pos h, if_pos ⟨h, by decide, by decide⟩]
    · rw [if_neg h, if_neg (fun hh => h hh.1)]
  · rw [colText_strand, colText_strand]
    show (if "strand".toList ∈ fmf then groupText G "strand".toList else r.strand) = _
    by_cases h : "strand".toList ∈ fmf
    · rw [if_pos h, if_pos ⟨h, by decide, by decide⟩]
    · rw [if_neg h, if_neg (fun hh => h hh.1)]
  · rw [colText_frame, colText_frame]
    show (if "frame".toList ∈ fmf then groupText G "frame".toList else r.frame) = _
    by_cases h : "frame".toList ∈ fmf
    · rw [if_pos h, if_pos ⟨h, by decide, by decide⟩]
    · rw [if_neg h, if_neg (fun hh => h hh.1)]

/-- a compared column of a group row is the first arrival's -/
theorem colText_groupRow_check (d : Dialect) (fmf : List Str) (G : List Feature) (r : Feature) (id : Str) (k : Str)
    (hk : k ∈ checkCols fmf) : colText ((groupRow fmf G r id).toFeature d) k = colText r k := by
  unfold checkCols at hk
  simp only [List.mem_filter, Bool.not_eq_eq_eq_not, Bool.not_true, List.contains_eq_mem,
    decide_eq_false_iff_not] at hk
  rw [colText_groupRow d fmf G r id k hk.1, if_neg (fun h => hk.2 h.1)]

theorem groupText_join (G : List Feature) (k : Str) (h : ∀ g, G ≠ [g]) :
    groupText G k = Str.join [','] (sortStrs (dedup (G.flatMap (fun g => Str.split [','] (colText g k))))) := by
  match G, h with
  | [], _ => rfl
  | [g], h => exact absurd rfl (h g)
  | _ :: _ :: _, _ => rfl

theorem groupText_noTab (G : List Feature) (k : Str) (h : ∀ g ∈ G, '\t' ∉ colText g k) : '\t' ∉ groupText G k := by
  by_cases hs : ∃ g, G = [g]
  · obtain ⟨g, rfl⟩ := hs
    exact h g (by simp)
  · rw [groupText_join G k (fun g e => hs ⟨g, e⟩)]
    intro hm
    rcases mem_join _ _ _ hm with hc | ⟨x, hx, hxc⟩
    · simp at hc
    · rw [mem_sortDedup, List.mem_flatMap] at hx
      obtain ⟨g, hg, hxs⟩ := hx
      exact h g hg ((split_piece _ _ hxs).1 _ hxc)

theorem groupRow_noTab (d : Dialect) (fmf : List Str) (G : List Feature) (r : Feature) (id : Str)
    (hr : ∀ k ∈ gffCols, '\t' ∉ colText r k) (hG : ∀ g ∈ G, ∀ k ∈ gffCols, '\t' ∉ colText g k) :
    ∀ k ∈ gffCols, '\t' ∉ colText ((groupRow fmf G r id).toFeature d) k := by
  intro k hk
  rw [colText_groupRow d fmf G r id k hk]
  split
  · exact groupText_noTab G k (fun g hg => hG g hg k hk)
  · exact hr k hk

/-! ### merging one more arrival into a group row -/

theorem mem_split_groupText (G : List Feature) (k : Str) (hne : G ≠ []) (x : Str) :
    x ∈ Str.split [','] (groupText G k) ↔ ∃ g ∈ G, x ∈ Str.split [','] (colText g k) := by
  by_cases hs : ∃ g, G = [g]
  · obtain ⟨g, rfl⟩ := hs
    simp [groupText]
  · rw [groupText_join G k (fun g e => hs ⟨g, e⟩)]
    have hmem : ∀ y, y ∈ sortStrs (dedup (G.flatMap (fun g => Str.split [','] (colText g k)))) ↔
        ∃ g ∈ G, y ∈ Str.split [','] (colText g k) := by
      intro y; rw [mem_sortDedup, List.mem_flatMap]
    rw [split_join_comma]
    · exact hmem x
    · obtain ⟨g, G', rfl⟩ := List.exists_cons_of_ne_nil hne
      obtain ⟨y, ys, hy⟩ := List.exists_cons_of_ne_nil (split_ne_nil (colText g k))
      intro he
      have : y ∈ sortStrs (dedup ((g :: G').flatMap (fun g => Str.split [','] (colText g k)))) :=
        (hmem y).mpr ⟨g, by simp, by rw [hy]; simp⟩
      rw [he] at this; cases this
    · intro v hv
      obtain ⟨g, _, hg⟩ := (hmem v).mp hv
      exact (split_piece _ _ hg).2

/-- the text `_do_merge` writes into an exempt column when arrival `f` is merged into the row of the group `G`
is the exempt text of the group `G ++ [f]` -/
theorem exemptText_step (f : Feature) (G : List Feature) (hne : G ≠ []) (mF : Feature) (k : Str)
    (h : colText mF k = groupText G k) : exemptText f [mF] k = groupText (G ++ [f]) k := by
  have h2 : ∀ g, G ++ [f] ≠ [g] := by
    intro g e
    have := congrArg List.length e
    simp only [List.length_append, List.length_cons, List.length_nil] at this
    have hl : 0 < G.length := List.length_pos_iff.mpr hne
    omega
  rw [groupText_join _ k h2]
  unfold exemptText
  congr 1
  apply sortDedup_congr
  intro x
  simp only [List.map_cons, List.map_nil, List.flatMap_cons, List.flatMap_nil, List.append_nil, List.mem_append,
    List.mem_flatMap, h, mem_split_groupText G k hne, List.mem_singleton]
  constructor
  · rintro (h1 | ⟨g, hg, hx⟩)
    · exact ⟨f, Or.inr rfl, h1⟩
    · exact ⟨g, Or.inl hg, hx⟩
  · rintro ⟨g, hg | rfl, hx⟩
    · exact Or.inr ⟨g, hg, hx⟩
    · exact Or.inl hx

/-- **merging arrival `f` into the stored row of the group `G` gives the row of the group `G ++ [f]`** -/
theorem mergeInto_groupRow (d : Dialect) (fmf : List Str) (f : Feature) (G : List Feature) (r : Feature) (id : Str)
    (hne : G ≠ []) :
    mergeInto (mergeCfg d fmf) f [(groupRow fmf G r id).toFeature d] (groupRow fmf G r id) =
      groupRow fmf (G ++ [f]) r id := by
  have hattr : mergedAttrs f [(groupRow fmf G r id).toFeature d] = groupAttrs (G ++ [f]) := by
    rw [groupAttrs_snoc G f hne]
    exact mergedAttrs_congr f _ _ rfl
  have hcol : ∀ k : String, k.toList ∈ gffCols → k.toList ∈ fmf → k.toList ≠ "start".toList →
      k.toList ≠ "end".toList →
      exemptText f [(groupRow fmf G r id).toFeature d] k.toList = groupText (G ++ [f]) k.toList := by
    intro k hk hin h1 h2
    apply exemptText_step f G hne
    rw [colText_groupRow d fmf G r id _ hk, if_pos ⟨hin, h1, h2⟩]
  have hfm : (mergeCfg d fmf).forceMergeFields = fmf := rfl
  simp only [mergeInto, hfm, hattr]
  generalize [(groupRow fmf G r id).toFeature d] = M at hcol ⊢
  simp only [groupRow, storedRow]
  congr 1
  · by_cases h : "seqid".toList ∈ fmf
    · simp only [h, if_true]; exact hcol "seqid" (by decide) h (by decide) (by decide)
    · simp only [h, if_false]
  · by_cases h : "source".toList ∈ fmf
    · simp only [h, if_true]; exact hcol "source" (by decide) h (by decide) (by decide)
    · simp only [h, if_false]
  · by_cases h : "featuretype".toList ∈ fmf
    · simp only [h, if_true]; exact hcol "featuretype" (by decide) h (by decide) (by decide)
    · simp only [h, if_false]
  · by_cases h : "score".toList ∈ fmf
    · simp only [h, if_true]; exact hcol "score" (by decide) h (by decide) (by decide)
    · simp only [h, if_false]
  · by_cases h : "strand".toList ∈ fmf
    · simp only [h, if_true]; exact hcol "strand" (by decide) h (by decide) (by decide)
    · simp only [h, if_false]
  · by_cases h : "frame".toList ∈ fmf
    · simp only [h, if_true]; exact hcol "frame" (by decide) h (by decide) (by decide)
    · simp only [h, if_false]

/-! ### the candidates of a key in a database that holds one row per group -/

/-- the row stored for the placed group `p` when the arrivals so far are `pre` -/
def placeRow (fmf : List Str) (pre : List Feature) (p : Feature × Str) : Row :=
  groupRow fmf (groupOf fmf pre p.1) p.1 p.2

theorem placeRow_id (fmf : List Str) (pre : List Feature) (p : Feature × Str) : (placeRow fmf pre p).id = p.2 := rfl

theorem mergeRows_eq (fmf : List Str) (pre : List Feature) :
    mergeRows fmf pre = (groupPlaces fmf pre).map (placeRow fmf pre) := rfl

section places
variable (db : Db) (P : List (Feature × Str)) (R : Feature × Str → Row)

theorem getRow_places (hid : ∀ p, (R p).id = p.2) (hf : db.features = P.map R) (k : Str) :
    db.getRow? k = (P.find? (fun p => p.2 = k)).map R := by
  unfold Db.getRow?
  rw [hf, List.find?_map]
  congr 2
  funext q
  simp [hid]

theorem getRow_place (hid : ∀ p, (R p).id = p.2) (hf : db.features = P.map R) (hnd : (P.map (·.2)).Nodup)
    (p : Feature × Str) (hp : p ∈ P) : db.getRow? p.2 = some (R p) := by
  rw [getRow_places db P R hid hf, find?_of_nodup_key (·.2) P hnd p hp]; rfl

theorem filterMap_ite_some {α β : Type} (l : List α) (c : α → Bool) (g : α → β) :
    l.filterMap (fun a => if c a = true then some (g a) else none) = (l.filter c).map g := by
  induction l with
  | nil => rfl
  | cons a l ih =>
    by_cases h : c a = true
    · simp [h, ih]
    · simp [h, ih]

theorem filterMap_congr' {α β : Type} (l : List α) (f g : α → Option β) (h : ∀ a ∈ l, f a = g a) :
    l.filterMap f = l.filterMap g := by
  induction l with
  | nil => rfl
  | cons a l ih =>
    rw [List.filterMap_cons, List.filterMap_cons, h a (by simp), ih (fun x hx => h x (List.mem_cons_of_mem _ hx))]

/-- `_candidate_merges`' rows for key `k`: the row stored under `k`, then the recorded later groups of `k` -/
theorem candRows_places (hid : ∀ p, (R p).id = p.2) (hf : db.features = P.map R)
    (hd : db.duplicates = (P.filter (fun p => p.2 ≠ keyOf p.1)).map (fun p => (keyOf p.1, p.2)))
    (hnd : (P.map (·.2)).Nodup) (k : Str) :
    candRows db k = ((P.filter (fun p => p.2 = k)) ++
      ((P.filter (fun p => p.2 ≠ keyOf p.1)).filter (fun p => keyOf p.1 = k))).map R := by
  unfold candRows
  rw [List.map_append]
  congr 1
  · rw [getRow_places db P R hid hf, ← find?_toList_eq_filter (·.2) P hnd k]
    cases P.find? (fun p => p.2 = k) <;> rfl
  · rw [hd, List.filterMap_map, ← filterMap_ite_some]
    apply filterMap_congr'
    intro p hp
    have hp' : p ∈ P := (List.mem_filter.mp hp).1
    simp only [Function.comp, getRow_place db P R hid hf hnd p hp', decide_eq_true_eq]

theorem cand_perm (k : Str) (hk : ∀ p ∈ P, (p.2 = k ↔ keyOf p.1 = k ∧ p.2 = keyOf p.1)) :
    ((P.filter (fun p => p.2 = k)) ++
      ((P.filter (fun p => p.2 ≠ keyOf p.1)).filter (fun p => keyOf p.1 = k))).Perm
    (P.filter (fun p => keyOf p.1 = k)) := by
  have hA : P.filter (fun p => p.2 = k) =
      (P.filter (fun p => keyOf p.1 = k)).filter (fun p => decide (p.2 = keyOf p.1)) := by
    rw [List.filter_filter]
    apply List.filter_congr
    intro p hp
    have := hk p hp
    by_cases h1 : p.2 = k <;> by_cases h2 : keyOf p.1 = k <;> by_cases h3 : p.2 = keyOf p.1 <;> simp_all
  have hB : (P.filter (fun p => p.2 ≠ keyOf p.1)).filter (fun p => keyOf p.1 = k) =
      (P.filter (fun p => keyOf p.1 = k)).filter (fun p => !decide (p.2 = keyOf p.1)) := by
    rw [List.filter_filter, List.filter_filter]
    apply List.filter_congr
    intro p _
    by_cases h2 : keyOf p.1 = k <;> by_cases h3 : p.2 = keyOf p.1 <;> simp_all
  rw [hA, hB]
  exact List.filter_append_perm _ _

end places

theorem agreesB_sig (d : Dialect) (fmf : List Str) (f ex : Feature) :
    agreesB (mergeCfg d fmf) f ex = true ↔ (checkCols fmf).map (colText ex) = (checkCols fmf).map (colText f) := by
  unfold agreesB checkCols
  simp only [List.all_eq_true, beq_iff_eq, List.map_inj_left]
  rfl

theorem groupPlaces_fst (fmf : List Str) (pre : List Feature) :
    (groupPlaces fmf pre).map (·.1) = groupReps fmf pre := placements_map_fst _ _ _ _

theorem groupPlaces_mem (fmf : List Str) (pre : List Feature) (p : Feature × Str) (hp : p ∈ groupPlaces fmf pre) :
    p.1 ∈ groupReps fmf pre ∧ p.1 ∈ pre := by
  have : p.1 ∈ (groupPlaces fmf pre).map (·.1) := List.mem_map.mpr ⟨p, hp, rfl⟩
  rw [groupPlaces_fst] at this
  exact ⟨this, (groupReps_sublist fmf pre).subset this⟩

theorem groupPlaces_keys_nodup (fmf : List Str) (pre : List Feature) :
    ((groupPlaces fmf pre).map (fun p => groupKey fmf p.1)).Nodup := by
  have := groupReps_nodup fmf pre
  rw [← groupPlaces_fst, List.map_map] at this
  exact this

theorem groupOf_sub (fmf : List Str) (pre : List Feature) (r : Feature) : ∀ g ∈ groupOf fmf pre r, g ∈ pre :=
  fun _ hg => (List.mem_filter.mp hg).1

theorem freshKeys_reps (fmf : List Str) (fs : List Feature) (h : MergeDomain fs) : FreshKeys (groupReps fmf fs) :=
  (freshKeys_of_fresh fs h.fresh).sub (fun _ hx => (groupReps_sublist fmf fs).subset hx)

theorem groupPlaces_ids_nodup (fmf : List Str) (fs : List Feature) (h : MergeDomain fs) :
    ((groupPlaces fmf fs).map (·.2)).Nodup := places_ids_nodup _ (freshKeys_reps fmf fs h)

/-- **the matched candidates**: in a database that holds one row per group of `pre` (and the `duplicates`
record of the later groups), the candidates for arrival `f` that agree on the compared columns are exactly the
row of `f`'s group — or none, when no earlier arrival belongs to that group -/
theorem matched_places (d : Dialect) (fmf : List Str) (pre : List Feature) (f : Feature) (db : Db)
    (hdom : MergeDomain (pre ++ [f]))
    (hf : db.features = mergeRows fmf pre) (hd : db.duplicates = mergeDups fmf pre) :
    matched (mergeCfg d fmf) db (keyOf f) f =
      ((groupPlaces fmf pre).filter (fun p => groupKey fmf p.1 = groupKey fmf f)).map
        (fun p => (placeRow fmf pre p).toFeature d) := by
  have hdomP : MergeDomain pre := hdom.sub (fun x hx => List.mem_append_left _ hx)
  have hFK := freshKeys_of_fresh _ hdom.fresh
  have hnd := groupPlaces_ids_nodup fmf pre hdomP
  have hcr := candRows_places db (groupPlaces fmf pre) (placeRow fmf pre) (placeRow_id fmf pre) hf hd hnd (keyOf f)
  -- the key of `f` is no generated id
  have hkf : ∀ r ∈ groupReps fmf pre, ∀ n, 0 < n → keyOf f ≠ autoId (keyOf r) n := by
    intro r hr n hn
    exact hFK r (List.mem_append_left _ ((groupReps_sublist fmf pre).subset hr)) f (by simp) n hn
  have hperm := cand_perm (groupPlaces fmf pre) (keyOf f)
    (fun p hp => places_id_eq_key (groupReps fmf pre) p hp (keyOf f) hkf)
  generalize hL : (groupPlaces fmf pre).filter (fun p => p.2 = keyOf f) ++
    ((groupPlaces fmf pre).filter (fun p => p.2 ≠ keyOf p.1)).filter (fun p => keyOf p.1 = keyOf f) = L at hcr hperm
  have hLmem : ∀ p ∈ L, p ∈ groupPlaces fmf pre ∧ keyOf p.1 = keyOf f := by
    intro p hp
    have := hperm.subset hp
    simp only [List.mem_filter, decide_eq_true_eq] at this
    exact this
  have hT : ∀ p ∈ groupPlaces fmf pre, ∀ k ∈ gffCols, '\t' ∉ colText ((placeRow fmf pre p).toFeature d) k := by
    intro p hp
    apply groupRow_noTab
    · exact hdomP.noTab _ (groupPlaces_mem fmf pre p hp).2
    · intro g hg; exact hdomP.noTab _ (groupOf_sub fmf pre p.1 g hg)
  -- the candidate rows print pairwise differently, so none is dropped
  have hpw : ((candRows db (keyOf f)).map (fun r => r.toFeature (mergeCfg d fmf).dialect)).Pairwise
      (fun a b => (a.print).toOption ≠ (b.print).toOption) := by
    rw [hcr, List.map_map, List.pairwise_map]
    have h0 : L.Pairwise (fun p q => groupKey fmf p.1 ≠ groupKey fmf q.1) := by
      have h1 : (groupPlaces fmf pre).Pairwise (fun p q => groupKey fmf p.1 ≠ groupKey fmf q.1) :=
        List.pairwise_map.mp (groupPlaces_keys_nodup fmf pre)
      have h2 := h1.sublist (List.filter_sublist (p := fun p => decide (keyOf p.1 = keyOf f)))
      exact (hperm.pairwise_iff (fun h e => h e.symm)).mpr h2
    refine h0.imp_of_mem ?_
    intro p q hp hq hne hprint
    obtain ⟨hpP, hpk⟩ := hLmem p hp
    obtain ⟨hqP, hqk⟩ := hLmem q hq
    apply hne
    have hcols : ∀ k ∈ gffCols, colText ((placeRow fmf pre p).toFeature d) k =
        colText ((placeRow fmf pre q).toFeature d) k :=
      print_separates _ _ (hT p hpP) (hT q hqP) hprint
    unfold groupKey
    rw [hpk, hqk]
    congr 1
    apply List.map_inj_left.mpr
    intro c hc
    have hc' : c ∈ gffCols := (List.mem_filter.mp hc).1
    have := hcols c hc'
    unfold placeRow at this
    rwa [colText_groupRow_check d fmf _ _ _ c hc, colText_groupRow_check d fmf _ _ _ c hc] at this
  unfold matched
  rw [candidates_exact _ _ _ hpw, hcr, List.map_map, List.filter_map]
  have hfilt : L.filter ((agreesB (mergeCfg d fmf) f) ∘ ((fun r => r.toFeature (mergeCfg d fmf).dialect) ∘ placeRow fmf pre)) =
      L.filter (fun p => groupKey fmf p.1 = groupKey fmf f) := by
    apply List.filter_congr
    intro p hp
    obtain ⟨_, hpk⟩ := hLmem p hp
    rw [Bool.eq_iff_iff]
    simp only [Function.comp, decide_eq_true_eq]
    rw [agreesB_sig, show (mergeCfg d fmf).dialect = d from rfl]
    have hcols : (checkCols fmf).map (colText ((placeRow fmf pre p).toFeature d)) = (checkCols fmf).map (colText p.1) := by
      apply List.map_inj_left.mpr
      intro c hc
      exact colText_groupRow_check d fmf _ _ _ c hc
    rw [hcols]
    unfold groupKey
    rw [hpk]
    simp
  rw [hfilt]
  have hperm2 : (L.filter (fun p => groupKey fmf p.1 = groupKey fmf f)).Perm
      ((groupPlaces fmf pre).filter (fun p => groupKey fmf p.1 = groupKey fmf f)) := by
    refine (hperm.filter _).trans ?_
    rw [List.filter_filter]
    apply List.Perm.of_eq
    apply List.filter_congr
    intro p _
    by_cases h : groupKey fmf p.1 = groupKey fmf f
    · have : keyOf p.1 = keyOf f := congrArg Prod.fst h
      simp [h, this]
    · simp [h]
  have : L.filter (fun p => groupKey fmf p.1 = groupKey fmf f) =
      (groupPlaces fmf pre).filter (fun p => groupKey fmf p.1 = groupKey fmf f) := by
    rcases filter_key_eq (fun p : Feature × Str => groupKey fmf p.1) (groupPlaces fmf pre)
      (groupPlaces_keys_nodup fmf pre) (groupKey fmf f) with ⟨_, a, _, _, _, _, _, h⟩ | ⟨_, h⟩
    · rw [h] at hperm2 ⊢; exact List.perm_singleton.mp hperm2
    · rw [h] at hperm2 ⊢; exact List.perm_nil.mp hperm2
  rw [this]
  rfl

/-! ### how the specification grows with one more arrival -/

theorem groupReps_snoc (fmf : List Str) (pre : List Feature) (f : Feature) :
    groupReps fmf (pre ++ [f]) =
      groupReps fmf pre ++ (if groupKey fmf f ∈ pre.map (groupKey fmf) then [] else [f]) := by
  unfold groupReps
  rw [firstsBy_snoc]
  simp

theorem groupOf_snoc (fmf : List Str) (pre : List Feature) (f r : Feature) :
    groupOf fmf (pre ++ [f]) r = groupOf fmf pre r ++ (if groupKey fmf f = groupKey fmf r then [f] else []) := by
  unfold groupOf
  rw [List.filter_append]
  congr 1
  by_cases h : groupKey fmf f = groupKey fmf r <;> simp [h]

theorem groupOf_ne_nil (fmf : List Str) (pre : List Feature) (r : Feature) (hr : r ∈ pre) : groupOf fmf pre r ≠ [] := by
  intro h
  have : r ∈ groupOf fmf pre r := List.mem_filter.mpr ⟨hr, by simp⟩
  rw [h] at this; cases this

theorem groupOf_new (fmf : List Str) (pre : List Feature) (f : Feature)
    (h : groupKey fmf f ∉ pre.map (groupKey fmf)) : groupOf fmf (pre ++ [f]) f = [f] := by
  rw [groupOf_snoc, if_pos rfl]
  have : groupOf fmf pre f = [] := by
    unfold groupOf
    rw [List.filter_eq_nil_iff]
    intro g hg hgk
    exact h (List.mem_map.mpr ⟨g, hg, of_decide_eq_true hgk⟩)
  rw [this]; rfl

theorem groupRow_single (fmf : List Str) (f : Feature) (id : Str) : groupRow fmf [f] f id = storedRow f id := by
  unfold groupRow storedRow
  simp only [groupText_single, groupAttrs_single, colText_seqid, colText_source, colText_ftype, colText_score,
    colText_strand, colText_frame, ite_self]

theorem placeRow_snoc_ne (fmf : List Str) (pre : List Feature) (f : Feature) (p : Feature × Str)
    (h : groupKey fmf f ≠ groupKey fmf p.1) : placeRow fmf (pre ++ [f]) p = placeRow fmf pre p := by
  unfold placeRow
  rw [groupOf_snoc, if_neg h, List.append_nil]

theorem placeRow_snoc_eq (fmf : List Str) (pre : List Feature) (f : Feature) (p : Feature × Str)
    (h : groupKey fmf f = groupKey fmf p.1) :
    placeRow fmf (pre ++ [f]) p = groupRow fmf (groupOf fmf pre p.1 ++ [f]) p.1 p.2 := by
  unfold placeRow
  rw [groupOf_snoc, if_pos h]

/-- a new group: the places gain `(f, uid)` -/
theorem groupPlaces_snoc_new (fmf : List Str) (pre : List Feature) (f : Feature)
    (h : groupKey fmf f ∉ pre.map (groupKey fmf)) :
    groupPlaces fmf (pre ++ [f]) =
      groupPlaces fmf pre ++ [(f, uniqueId [] [] (groupReps fmf pre) (keyOf f))] := by
  unfold groupPlaces
  rw [groupReps_snoc, if_neg h, placements_snoc, List.nil_append]

/-- an old group: the places do not change -/
theorem groupPlaces_snoc_old (fmf : List Str) (pre : List Feature) (f : Feature)
    (h : groupKey fmf f ∈ pre.map (groupKey fmf)) : groupPlaces fmf (pre ++ [f]) = groupPlaces fmf pre := by
  unfold groupPlaces
  rw [groupReps_snoc, if_pos h, List.append_nil]

theorem groupPlaces_cover (fmf : List Str) (pre : List Feature) (x : Feature) (hx : x ∈ pre) :
    ∃ p ∈ groupPlaces fmf pre, groupKey fmf p.1 = groupKey fmf x := by
  obtain ⟨r, hr, hrk⟩ := groupReps_cover fmf pre x hx
  rw [← groupPlaces_fst] at hr
  obtain ⟨p, hp, rfl⟩ := List.mem_map.mp hr
  exact ⟨p, hp, hrk⟩

theorem groupPlaces_prefix (fmf : List Str) (pre : List Feature) (f : Feature) :
    groupPlaces fmf pre <+: groupPlaces fmf (pre ++ [f]) := by
  by_cases h : groupKey fmf f ∈ pre.map (groupKey fmf)
  · rw [groupPlaces_snoc_old fmf pre f h]; exact List.prefix_refl _
  · rw [groupPlaces_snoc_new fmf pre f h]; exact List.prefix_append _ _

/-- the id of the group of an earlier arrival does not change -/
theorem groupId_snoc_old (fmf : List Str) (pre : List Feature) (f x : Feature) (hx : x ∈ pre) :
    groupId fmf (pre ++ [f]) x = groupId fmf pre x := by
  obtain ⟨t, ht⟩ := groupPlaces_prefix fmf pre f
  obtain ⟨p, hp, hpk⟩ := groupPlaces_cover fmf pre x hx
  unfold groupId
  rw [← ht, List.find?_append]
  cases hfind : (groupPlaces fmf pre).find? (fun p => groupKey fmf p.1 = groupKey fmf x) with
  | some q => rfl
  | none =>
    have := List.find?_eq_none.mp hfind p hp
    exact absurd hpk (by simpa using this)

theorem groupId_of_place (fmf : List Str) (fs : List Feature) (f : Feature) (p : Feature × Str)
    (hp : p ∈ groupPlaces fmf fs) (hk : groupKey fmf p.1 = groupKey fmf f) : groupId fmf fs f = p.2 := by
  unfold groupId
  have := find?_of_nodup_key (fun p : Feature × Str => groupKey fmf p.1) (groupPlaces fmf fs)
    (groupPlaces_keys_nodup fmf fs) p hp
  simp only [hk] at this
  rw [this]; rfl

theorem mem_mergeLinks_snoc (fmf : List Str) (pre : List Feature) (f : Feature) (r : Rel) :
    r ∈ mergeLinks fmf (pre ++ [f]) ↔ r ∈ mergeLinks fmf pre ∨ r ∈ linksOf f (groupId fmf (pre ++ [f]) f) := by
  unfold mergeLinks
  simp only [List.mem_flatMap, List.mem_append, List.mem_singleton]
  constructor
  · rintro ⟨x, hx | rfl, hr⟩
    · rw [groupId_snoc_old fmf pre f x hx] at hr; exact Or.inl ⟨x, hx, hr⟩
    · exact Or.inr hr
  · rintro (⟨x, hx, hr⟩ | hr)
    · exact ⟨x, Or.inl hx, by rw [groupId_snoc_old fmf pre f x hx]; exact hr⟩
    · exact ⟨f, Or.inr rfl, hr⟩

/-! ### the invariant of the import loop -/

/-- **the state of `_populate_from_lines` (GFF3, `merge`) after the arrivals `pre`**, started on `db0`:
the tables hold exactly the specification for `pre`; the counter of key `k` is the number of later groups of `k` -/
structure MergeInv (fmf : List Str) (db0 : Db) (pre : List Feature) (db : Db) (auto : Dict Nat) : Prop where
  feats : db.features = mergeRows fmf pre
  dups : db.duplicates = mergeDups fmf pre
  rels : ∀ r, r ∈ db.relations ↔ r ∈ db0.relations ∨ r ∈ mergeLinks fmf pre
  cnt : ∀ k, (auto.get? k).getD 0 = cntKey k (groupReps fmf pre) - 1
  other : db.metaRows = db0.metaRows ∧ db.directives = db0.directives ∧ db.autoinc = db0.autoinc

theorem mergeInv_nil (fmf : List Str) (db0 : Db) (h1 : db0.features = []) (h2 : db0.duplicates = []) :
    MergeInv fmf db0 [] db0 [] where
  feats := h1
  dups := h2
  rels := fun r => by simp [mergeLinks]
  cnt := fun k => by simp [Dict.get?, groupReps, firstsBy, cntKey]
  other := ⟨rfl, rfl, rfl⟩

theorem mstep (d : Dialect) (fmf : List Str) (db : Db) (auto : Dict Nat) (f : Feature) (hk : idOf f = some (keyOf f)) :
    gffStep (mergeCfg d fmf) (db, auto) f =
      match fileFeature (mergeCfg d fmf) db auto f (keyOf f) with
      | .error e => .error e
      | .ok (db1, auto2, filed) => .ok (attachParents db1 filed f, auto2) :=
  gffStep_eq (mergeCfg d fmf) db auto auto f (keyOf f) (C02.idHandler_default auto f _ hk)

theorem ids_of_inv {fmf : List Str} {db0 : Db} {pre : List Feature} {db : Db} {auto : Dict Nat}
    (inv : MergeInv fmf db0 pre db auto) : idsOf db = (groupPlaces fmf pre).map (·.2) := by
  unfold idsOf
  rw [inv.feats, mergeRows_eq, List.map_map]
  rfl

/-- the key of the arrival is stored iff some group already has that key -/
theorem hasId_key_iff {fmf : List Str} {db0 : Db} {pre : List Feature} {db : Db} {auto : Dict Nat}
    (inv : MergeInv fmf db0 pre db auto) (f : Feature) (hdom : MergeDomain (pre ++ [f])) :
    keyOf f ∈ idsOf db ↔ 0 < cntKey (keyOf f) (groupReps fmf pre) := by
  rw [ids_of_inv inv]
  have hFK := freshKeys_of_fresh _ hdom.fresh
  have hkf : ∀ r ∈ groupReps fmf pre, ∀ n, 0 < n → keyOf f ≠ autoId (keyOf r) n := by
    intro r hr n hn
    exact hFK r (List.mem_append_left _ ((groupReps_sublist fmf pre).subset hr)) f (by simp) n hn
  constructor
  · intro h
    obtain ⟨p, hp, he⟩ := List.mem_map.mp h
    have := (places_id_eq_key _ p hp (keyOf f) hkf).mp he
    exact cntKey_pos_of_mem _ _ p.1 (groupPlaces_mem fmf pre p hp).1 this.1
  · intro h
    obtain ⟨p, hp, _, h2⟩ := places_has_key [] (groupReps fmf pre) (keyOf f) (by simp [cntKey]) h
    exact List.mem_map.mpr ⟨p, hp, h2⟩

/-- **one arrival that opens a new group** (no earlier arrival has its key and compared columns) -/
theorem merge_step_new (d : Dialect) (fmf : List Str) (db0 : Db) (pre : List Feature) (f : Feature) (db : Db)
    (auto : Dict Nat) (hdom : MergeDomain (pre ++ [f])) (inv : MergeInv fmf db0 pre db auto)
    (hnew : groupKey fmf f ∉ pre.map (groupKey fmf)) :
    ∃ db' auto', gffStep (mergeCfg d fmf) (db, auto) f = .ok (db', auto') ∧
      MergeInv fmf db0 (pre ++ [f]) db' auto' := by
  have hk : idOf f = some (keyOf f) := by
    obtain ⟨k, hk⟩ := hdom.keyed f (by simp)
    rw [keyOf_eq hk]; exact hk
  have hdomP : MergeDomain pre := hdom.sub (fun x hx => List.mem_append_left _ hx)
  have hP' := groupPlaces_snoc_new fmf pre f hnew
  have hreps' : groupReps fmf (pre ++ [f]) = groupReps fmf pre ++ [f] := by rw [groupReps_snoc, if_neg hnew]
  have hnone : ∀ p ∈ groupPlaces fmf pre, groupKey fmf f ≠ groupKey fmf p.1 := by
    intro p hp e
    exact hnew (List.mem_map.mpr ⟨p.1, (groupPlaces_mem fmf pre p hp).2, e.symm⟩)
  have hrows_old : (groupPlaces fmf pre).map (placeRow fmf (pre ++ [f])) = mergeRows fmf pre := by
    rw [mergeRows_eq]
    apply List.map_congr_left
    intro p hp
    exact placeRow_snoc_ne fmf pre f p (hnone p hp)
  -- common conclusion for both ways of storing the new row
  have finish : ∀ (nid : Str) (dbX : Db) (auto' : Dict Nat),
      uniqueId [] [] (groupReps fmf pre) (keyOf f) = nid →
      dbX.relations = db.relations → dbX.metaRows = db.metaRows → dbX.directives = db.directives →
      dbX.autoinc = db.autoinc →
      dbX.duplicates = mergeDups fmf (pre ++ [f]) →
      (∀ k, (auto'.get? k).getD 0 = cntKey k (groupReps fmf pre ++ [f]) - 1) →
      MergeInv fmf db0 (pre ++ [f])
        (attachParents { dbX with features := db.features ++ [storedRow f nid] } (some nid) f) auto' := by
    intro nid dbX auto' hnid hr hm hdi ha hdup hcnt
    obtain ⟨hf1, hr1, ho1⟩ := attach_facts dbX (db.features ++ [storedRow f nid]) nid f
    have hgid : groupId fmf (pre ++ [f]) f = nid :=
      groupId_of_place fmf (pre ++ [f]) f (f, nid) (by rw [hP', hnid]; simp) rfl
    refine ⟨?_, ?_, ?_, ?_, ?_⟩
    · rw [hf1, mergeRows_eq, hP', hnid, List.map_append, hrows_old, inv.feats]
      congr 1
      show [storedRow f nid] = [groupRow fmf (groupOf fmf (pre ++ [f]) f) f nid]
      rw [groupOf_new fmf pre f hnew, groupRow_single]
    · rw [ho1.2.2.2]; exact hdup
    · intro r
      rw [hr1, hr, inv.rels, mem_mergeLinks_snoc, hgid, or_assoc]
    · rw [hreps']; exact hcnt
    · exact ⟨ho1.1.trans (hm.trans inv.other.1), ho1.2.1.trans (hdi.trans inv.other.2.1),
        ho1.2.2.1.trans (ha.trans inv.other.2.2)⟩
  by_cases hc : 0 < cntKey (keyOf f) (groupReps fmf pre)
  · -- the key is taken by another group: stored under `key_<n>`, recorded in `duplicates`
    have hmem : keyOf f ∈ idsOf db := (hasId_key_iff inv f hdom).mpr hc
    have hhas : db.hasId (keyOf f) = true := (hasId_iff db _).mpr hmem
    have hM : matched (mergeCfg d fmf) db (keyOf f) f = [] := by
      rw [matched_places d fmf pre f db hdom inv.feats inv.dups]
      have : (groupPlaces fmf pre).filter (fun p => groupKey fmf p.1 = groupKey fmf f) = [] := by
        rw [List.filter_eq_nil_iff]
        intro p hp hpk
        exact hnone p hp (of_decide_eq_true hpk).symm
      rw [this]; rfl
    have hnid : uniqueId [] [] (groupReps fmf pre) (keyOf f) = nextId auto (keyOf f) := by
      rw [uid_eq, if_neg (by omega)]
      unfold nextId
      rw [inv.cnt]
      congr 1; omega
    have hfree : db.hasId (nextId auto (keyOf f)) = false := by
      rw [hasId_false_iff]
      show nextId auto (keyOf f) ∉ idsOf db
      rw [ids_of_inv inv, ← hnid]
      apply newId_not_mem
      rw [← hreps']
      exact freshKeys_reps fmf _ hdom
    have hfile := (merge_miss_eq (mergeCfg d fmf) db auto f (keyOf f) rfl hhas hM).1 hfree
    refine ⟨_, _, ?_, finish (nextId auto (keyOf f))
      { db with duplicates := db.duplicates ++ [(keyOf f, nextId auto (keyOf f))] } (bump auto (keyOf f))
      hnid rfl rfl rfl rfl ?_ ?_⟩
    · rw [mstep d fmf db auto f hk, hfile]
      rfl
    · show db.duplicates ++ [(keyOf f, nextId auto (keyOf f))] = _
      unfold mergeDups
      rw [hP', hnid, List.filter_append, List.map_append, inv.dups]
      congr 1
      have : nextId auto (keyOf f) ≠ keyOf f := by rw [← hnid, uid_eq, if_neg (by omega)]; exact autoId_ne_self _ _
      simp [this]
    · intro k
      rw [cntKey_append]
      by_cases hkk : k = keyOf f
      · subst hkk
        have : ((bump auto (keyOf f)).get? (keyOf f)).getD 0 = (auto.get? (keyOf f)).getD 0 + 1 := by
          simp [bump, C04.Dict.get?_set_self]
        rw [this, inv.cnt, cntKey_cons, if_pos rfl, show cntKey (keyOf f) ([] : List Feature) = 0 from rfl]
        omega
      · have : (bump auto (keyOf f)).get? k = auto.get? k := C04.Dict.get?_set_ne _ _ _ _ hkk
        rw [this, inv.cnt, cntKey_cons, if_neg (fun e => hkk e.symm)]
        simp [cntKey]
  · -- the key is new: stored unchanged under the key
    have hc0 : cntKey (keyOf f) (groupReps fmf pre) = 0 := by omega
    have hmem : keyOf f ∉ idsOf db := fun h => hc ((hasId_key_iff inv f hdom).mp h)
    have hfile := fresh_stored (mergeCfg d fmf) db auto f (keyOf f) ((hasId_false_iff db _).mpr hmem)
    have hnid : uniqueId [] [] (groupReps fmf pre) (keyOf f) = keyOf f := by rw [uid_eq, if_pos hc0]
    refine ⟨_, _, ?_, finish (keyOf f) db auto hnid rfl rfl rfl rfl ?_ ?_⟩
    · rw [mstep d fmf db auto f hk, hfile]
      rfl
    · unfold mergeDups
      rw [hP', hnid, List.filter_append, List.map_append, inv.dups]
      simp [mergeDups]
    · intro k
      rw [inv.cnt, cntKey_append, cntKey_cons]
      by_cases hkk : keyOf f = k
      · subst hkk; rw [hc0]; simp [cntKey]
      · rw [if_neg hkk]; simp [cntKey]

/-- **one arrival that belongs to an existing group**: merged into that group's row, in place -/
theorem merge_step_old (d : Dialect) (fmf : List Str) (db0 : Db) (pre : List Feature) (f : Feature) (db : Db)
    (auto : Dict Nat) (hdom : MergeDomain (pre ++ [f])) (inv : MergeInv fmf db0 pre db auto)
    (hold : groupKey fmf f ∈ pre.map (groupKey fmf)) :
    ∃ db', gffStep (mergeCfg d fmf) (db, auto) f = .ok (db', auto) ∧
      MergeInv fmf db0 (pre ++ [f]) db' auto := by
  have hk : idOf f = some (keyOf f) := by
    obtain ⟨k, hk⟩ := hdom.keyed f (by simp)
    rw [keyOf_eq hk]; exact hk
  have hdomP : MergeDomain pre := hdom.sub (fun x hx => List.mem_append_left _ hx)
  have hP' := groupPlaces_snoc_old fmf pre f hold
  have hreps' : groupReps fmf (pre ++ [f]) = groupReps fmf pre := by rw [groupReps_snoc, if_pos hold, List.append_nil]
  obtain ⟨x, hx, hxk⟩ := List.mem_map.mp hold
  obtain ⟨p0, hp0, hp0k⟩ := groupPlaces_cover fmf pre x hx
  have hex : ∃ P1 p P2, groupPlaces fmf pre = P1 ++ p :: P2 ∧ groupKey fmf p.1 = groupKey fmf f ∧
      (∀ x ∈ P1, groupKey fmf x.1 ≠ groupKey fmf f) ∧ (∀ x ∈ P2, groupKey fmf x.1 ≠ groupKey fmf f) ∧
      (groupPlaces fmf pre).filter (fun x => groupKey fmf x.1 = groupKey fmf f) = [p] := by
    rcases filter_key_eq (fun p : Feature × Str => groupKey fmf p.1) (groupPlaces fmf pre)
      (groupPlaces_keys_nodup fmf pre) (groupKey fmf f) with h | ⟨hno, _⟩
    · exact h
    · exact absurd (hp0k.trans hxk) (hno p0 hp0)
  obtain ⟨P1, p, P2, hP, hpk, hP1, hP2, hfilt⟩ := hex
  have hpP : p ∈ groupPlaces fmf pre := by rw [hP]; simp
  have hkey : keyOf p.1 = keyOf f := congrArg Prod.fst hpk
  have hc : 0 < cntKey (keyOf f) (groupReps fmf pre) :=
    cntKey_pos_of_mem _ _ p.1 (groupPlaces_mem fmf pre p hpP).1 hkey
  have hmem : keyOf f ∈ idsOf db := (hasId_key_iff inv f hdom).mpr hc
  have hhas : db.hasId (keyOf f) = true := (hasId_iff db _).mpr hmem
  have hM : matched (mergeCfg d fmf) db (keyOf f) f = [(placeRow fmf pre p).toFeature (mergeCfg d fmf).dialect] := by
    rw [matched_places d fmf pre f db hdom inv.feats inv.dups, hfilt]; rfl
  have hnd : IdsNodup db := by
    unfold IdsNodup
    have := ids_of_inv inv
    unfold idsOf at this
    rw [this]; exact groupPlaces_ids_nodup fmf pre hdomP
  have hdb : db.features = P1.map (placeRow fmf pre) ++ placeRow fmf pre p :: P2.map (placeRow fmf pre) := by
    rw [inv.feats, mergeRows_eq, hP]; simp
  have hfile := (merge_exact_single (mergeCfg d fmf) db auto f (keyOf f) rfl hhas hnd _ _ _ hdb hM).1
  have hG : groupOf fmf pre p.1 ≠ [] := groupOf_ne_nil fmf pre p.1 (groupPlaces_mem fmf pre p hpP).2
  have hrow : mergeInto (mergeCfg d fmf) f [(placeRow fmf pre p).toFeature (mergeCfg d fmf).dialect] (placeRow fmf pre p) =
      placeRow fmf (pre ++ [f]) p := by
    rw [placeRow_snoc_eq fmf pre f p hpk.symm]
    exact mergeInto_groupRow d fmf f _ p.1 p.2 hG
  rw [hrow] at hfile
  obtain ⟨hf1, hr1, ho1⟩ := attach_facts db
    (P1.map (placeRow fmf pre) ++ placeRow fmf (pre ++ [f]) p :: P2.map (placeRow fmf pre)) (placeRow fmf pre p).id f
  refine ⟨attachParents { db with features :=
      (List.map (placeRow fmf pre) P1 ++ placeRow fmf (pre ++ [f]) p :: List.map (placeRow fmf pre) P2) }
      (some (placeRow fmf pre p).id) f, ?_, ⟨?_, ?_, ?_, ?_, ?_⟩⟩
  · rw [mstep d fmf db auto f hk, hfile]
  · rw [hf1, mergeRows_eq, hP', hP, List.map_append, List.map_cons]
    congr 1
    · apply List.map_congr_left
      intro q hq
      exact (placeRow_snoc_ne fmf pre f q (fun e => hP1 q hq e.symm)).symm
    · congr 1
      apply List.map_congr_left
      intro q hq
      exact (placeRow_snoc_ne fmf pre f q (fun e => hP2 q hq e.symm)).symm
  · rw [ho1.2.2.2, inv.dups]
    unfold mergeDups
    rw [hP']
  · intro r
    have hgid : groupId fmf (pre ++ [f]) f = (placeRow fmf pre p).id :=
      groupId_of_place fmf (pre ++ [f]) f p (by rw [hP']; exact hpP) hpk
    rw [hr1, inv.rels, mem_mergeLinks_snoc, hgid, or_assoc]
  · rw [hreps']; exact inv.cnt
  · exact ⟨ho1.1.trans inv.other.1, ho1.2.1.trans inv.other.2.1, ho1.2.2.1.trans inv.other.2.2⟩

/-- **one arrival preserves the invariant** -/
theorem merge_step (d : Dialect) (fmf : List Str) (db0 : Db) (pre : List Feature) (f : Feature) (db : Db)
    (auto : Dict Nat) (hdom : MergeDomain (pre ++ [f])) (inv : MergeInv fmf db0 pre db auto) :
    ∃ db' auto', gffStep (mergeCfg d fmf) (db, auto) f = .ok (db', auto') ∧
      MergeInv fmf db0 (pre ++ [f]) db' auto' := by
  by_cases h : groupKey fmf f ∈ pre.map (groupKey fmf)
  · obtain ⟨db', h1, h2⟩ := merge_step_old d fmf db0 pre f db auto hdom inv h
    exact ⟨db', auto, h1, h2⟩
  · exact merge_step_new d fmf db0 pre f db auto hdom inv h

/-! ## §3 Whole imports -/

theorem merge_fold (d : Dialect) (fmf : List Str) (db0 : Db) (post : List Feature) :
    ∀ (pre : List Feature) (db : Db) (auto : Dict Nat), MergeDomain (pre ++ post) → MergeInv fmf db0 pre db auto →
      ∃ db' auto', post.foldlM (gffStep (mergeCfg d fmf)) (db, auto) = .ok (db', auto') ∧
        MergeInv fmf db0 (pre ++ post) db' auto' := by
  induction post with
  | nil => intro pre db auto _ inv; exact ⟨db, auto, rfl, by simpa using inv⟩
  | cons f post ih =>
    intro pre db auto hdom inv
    have hdom1 : MergeDomain (pre ++ [f]) := hdom.sub (fun x hx => by
      rcases List.mem_append.mp hx with h | h
      · exact List.mem_append_left _ h
      · simp only [List.mem_singleton] at h; subst h; simp)
    obtain ⟨db1, auto1, h1, inv1⟩ := merge_step d fmf db0 pre f db auto hdom1 inv
    obtain ⟨db2, auto2, h2, inv2⟩ := ih (pre ++ [f]) db1 auto1 (by simpa using hdom) inv1
    refine ⟨db2, auto2, ?_, by simpa using inv2⟩
    rw [foldlM_cons_ok _ _ _ _ _ h1]; exact h2

/-- **`merge`, continued import** (`update` on a database that an earlier `merge` import of `pre` left —
`MergeInv` — with the same configuration): the result is the specification for `pre ++ post` -/
theorem merge_seq_from (d : Dialect) (fmf : List Str) (db0 : Db) (pre post : List Feature) (db : Db) (auto : Dict Nat)
    (hne : post ≠ []) (hdom : MergeDomain (pre ++ post)) (inv : MergeInv fmf db0 pre db auto) :
    ∃ db' auto', populateGff (mergeCfg d fmf) db auto post = .ok (db', auto') ∧
      MergeInv fmf db0 (pre ++ post) db' auto' := by
  rw [populateGff_ne _ _ _ _ hne]
  exact merge_fold d fmf db0 post pre db auto hdom inv

/-- **5. `merge`, whole import = the specification by grouping.**  For every dialect, every
`force_merge_fields`, every start database without rows (`create_db`: the empty one) and every non-empty input
in `MergeDomain`, `_populate_from_lines` succeeds and
* `features` = `mergeRows`: one row per group (key + compared columns), in order of the groups' first
  arrivals; the first group of a key under the key, its `j`-th later group under `key_j`; each row as `groupRow`;
* `duplicates` = `mergeDups`: `(key, key_j)` for the later groups, in order;
* relations = the old ones plus every arrival's `Parent` links attached to the id of ITS group;
* the counter of a key = the number of its later groups;
* the other tables are untouched. -/
theorem merge_exact_seq (d : Dialect) (fmf : List Str) (db0 : Db) (fs : List Feature) (hne : fs ≠ [])
    (hdom : MergeDomain fs) (h0 : db0.features = [] ∧ db0.duplicates = []) :
    ∃ db auto, populateGff (mergeCfg d fmf) db0 [] fs = .ok (db, auto) ∧
      db.features = mergeRows fmf fs ∧
      db.duplicates = mergeDups fmf fs ∧
      (∀ r, r ∈ db.relations ↔ r ∈ db0.relations ∨ r ∈ mergeLinks fmf fs) ∧
      (∀ k, (auto.get? k).getD 0 = cntKey k (groupReps fmf fs) - 1) ∧
      db.metaRows = db0.metaRows ∧ db.directives = db0.directives ∧ db.autoinc = db0.autoinc := by
  obtain ⟨db, auto, h1, inv⟩ := merge_seq_from d fmf db0 [] fs db0 [] hne (by simpa using hdom)
    (mergeInv_nil fmf db0 h0.1 h0.2)
  rw [List.nil_append] at inv
  exact ⟨db, auto, h1, inv.feats, inv.dups, inv.rels, inv.cnt, inv.other.1, inv.other.2.1, inv.other.2.2⟩

/-- the `i`-th stored row, spelled out: the row of the `i`-th group (first arrival `r`, arrivals `G`) -/
theorem mergeRows_getElem (fmf : List Str) (fs : List Feature) (i : Nat) (hi : i < (groupReps fmf fs).length) :
    (mergeRows fmf fs)[i]? =
      some (groupRow fmf (groupOf fmf fs (groupReps fmf fs)[i]) (groupReps fmf fs)[i]
        (uniqueId [] [] ((groupReps fmf fs).take i) (keyOf (groupReps fmf fs)[i]))) := by
  rw [mergeRows_eq, List.getElem?_map]
  unfold groupPlaces
  rw [placements_getElem?, List.getElem?_eq_getElem hi]
  simp [placeRow]

theorem mergeRows_length (fmf : List Str) (fs : List Feature) :
    (mergeRows fmf fs).length = (groupReps fmf fs).length := by
  rw [mergeRows_eq, List.length_map]; unfold groupPlaces; exact placements_length _ _ _ _

theorem mem_groupOf (fmf : List Str) (fs : List Feature) (r g : Feature) :
    g ∈ groupOf fmf fs r ↔ g ∈ fs ∧ groupKey fmf g = groupKey fmf r := by
  unfold groupOf; simp

/-- **5. `merge`, whole import, row by row** (no reference to the helper definitions `groupRow` / `groupAttrs`):
with `reps` the first arrival of every group in order, `create_db` stores exactly one row per group, in that
order; the row of `reps[i]`
* sits under `uniqueId [] [] (reps.take i) key` (`key` for the first group of a key, `key_j` for its `j`-th later one);
* has start, end, extra fields and every column of the FIRST arrival, except the exempt text columns, which hold
  `groupText` (`groupText_spec`: the comma-joined sorted duplicate-free set of the group's values);
* per attribute key holds exactly the values of the group's arrivals (attribute keys pairwise different in every
  arrival: `hattr`), without repeats as soon as two arrivals were merged, under pairwise different keys. -/
theorem merge_exact_seq_rows (d : Dialect) (fmf : List Str) (db0 : Db) (fs : List Feature) (hne : fs ≠ [])
    (hdom : MergeDomain fs) (h0 : db0.features = [] ∧ db0.duplicates = [])
    (hattr : ∀ f ∈ fs, (Dict.keys f.attrs).Nodup) :
    ∃ db auto, populateGff (mergeCfg d fmf) db0 [] fs = .ok (db, auto) ∧
      db.features.length = (groupReps fmf fs).length ∧
      ∀ i (hi : i < (groupReps fmf fs).length), ∃ row, db.features[i]? = some row ∧
        row.id = uniqueId [] [] ((groupReps fmf fs).take i) (keyOf (groupReps fmf fs)[i]) ∧
        row.start = (groupReps fmf fs)[i].start ∧ row.stop = (groupReps fmf fs)[i].stop ∧
        row.extra = (groupReps fmf fs)[i].extra ∧
        (∀ k ∈ gffCols, colText (row.toFeature d) k =
          if k ∈ fmf ∧ k ≠ "start".toList ∧ k ≠ "end".toList then groupText (groupOf fmf fs (groupReps fmf fs)[i]) k
          else colText (groupReps fmf fs)[i] k) ∧
        (∀ k v, v ∈ (row.attrs.get? k).getD [] ↔
          ∃ g ∈ fs, groupKey fmf g = groupKey fmf (groupReps fmf fs)[i] ∧ v ∈ (g.attrs.get? k).getD []) ∧
        (2 ≤ (groupOf fmf fs (groupReps fmf fs)[i]).length → ∀ k, ((row.attrs.get? k).getD []).Nodup) ∧
        (Dict.keys row.attrs).Nodup := by
  obtain ⟨db, auto, h1, h2, _⟩ := merge_exact_seq d fmf db0 fs hne hdom h0
  refine ⟨db, auto, h1, by rw [h2, mergeRows_length], fun i hi => ?_⟩
  have hG : ∀ g ∈ groupOf fmf fs (groupReps fmf fs)[i], (Dict.keys g.attrs).Nodup :=
    fun g hg => hattr g (groupOf_sub fmf fs _ g hg)
  refine ⟨groupRow fmf (groupOf fmf fs (groupReps fmf fs)[i]) (groupReps fmf fs)[i]
      (uniqueId [] [] ((groupReps fmf fs).take i) (keyOf (groupReps fmf fs)[i])),
    by rw [h2, mergeRows_getElem fmf fs i hi], rfl, rfl, rfl, rfl,
    fun k hk => colText_groupRow d fmf _ _ _ k hk, fun k v => ?_, fun h2 k => groupAttrs_nodup _ h2 k,
    groupAttrs_keys_nodup _ hG⟩
  show v ∈ ((groupAttrs _).get? k).getD [] ↔ _
  rw [groupAttrs_values _ hG]
  simp only [mem_groupOf]
  constructor
  · rintro ⟨g, ⟨h1, h2⟩, h3⟩; exact ⟨g, h1, h2, h3⟩
  · rintro ⟨g, h1, h2, h3⟩; exact ⟨g, ⟨h1, h2⟩, h3⟩

/-! ## §4 Non-vacuity -/

section Examples

private def s (x : String) : Str := x.toList

private def mk (ft id src : String) (st en : Int) (extra : List (String × List String)) : Feature :=
  { seqid := s "chr1", source := s src, ftype := s ft, start := some st, stop := some en,
    attrs := (("ID", [id]) :: extra).map (fun p => (s p.1, p.2.map s)) }

/-- six arrivals, five of them with key `g1`; `source` is exempt (`force_merge_fields=["source"]`):
`b2` differs from `b1` only in `source` → same group; `b3` has another start → second group `g1_1`;
`b4` agrees with `b3` up to `source` → merged into `g1_1`; `b5` has a third start and a `source` with a comma →
third group `g1_2`, stored unchanged -/
private def b1 : Feature := mk "gene" "g1" "A" 1 100 [("Name", ["x"])]
private def c1 : Feature := mk "exon" "e1" "A" 1 50 [("Parent", ["g1"])]
private def b2 : Feature := mk "gene" "g1" "B" 1 100 [("Name", ["y", "x"]), ("Parent", ["p2"])]
private def b3 : Feature := mk "gene" "g1" "A" 5 100 [("Name", ["z"]), ("Parent", ["p3"])]
private def b4 : Feature := mk "gene" "g1" "C" 5 100 [("Note", ["n"]), ("Parent", ["p4"])]
private def b5 : Feature := mk "gene" "g1" "B,A" 9 100 []

private def input : List Feature := [b1, c1, b2, b3, b4, b5]
private def fmf0 : List Str := [s "source"]

/-- the hypotheses of `merge_exact_seq` / `merge_exact_seq_rows` hold for `input` -/
private theorem input_dom : MergeDomain input :=
  mergeDomain_of input
    (fun f hf => Option.isSome_iff_exists.mp
      (List.all_eq_true.mp (by decide : input.all (fun f => (idOf f).isSome) = true) f hf))
    (by decide +kernel) (by decide +kernel)

private theorem input_attr : ∀ f ∈ input, (Dict.keys f.attrs).Nodup := by decide +kernel

/-- the groups: first arrivals `b1, c1, b3, b5`; their ids; who belongs where -/
example : groupReps fmf0 input = [b1, c1, b3, b5] := rfl
example : (groupPlaces fmf0 input).map (·.2) = [s "g1", s "e1", s "g1_1", s "g1_2"] := by decide +kernel
example : groupOf fmf0 input b1 = [b1, b2] ∧ groupOf fmf0 input b3 = [b3, b4] ∧ groupOf fmf0 input b5 = [b5] :=
  ⟨rfl, rfl, rfl⟩
example : mergeDups fmf0 input = [(s "g1", s "g1_1"), (s "g1", s "g1_2")] := by decide +kernel
example : mergeLinks fmf0 input =
    [⟨s "g1", s "e1", 1⟩, ⟨s "p2", s "g1", 1⟩, ⟨s "p3", s "g1_1", 1⟩, ⟨s "p4", s "g1_1", 1⟩] := by decide +kernel

/-- `merge_exact_seq` applied: the import succeeds and the tables are the specification -/
example : ∃ db auto, populateGff (mergeCfg Dialect.default fmf0) {} [] input = .ok (db, auto) ∧
    db.features = mergeRows fmf0 input ∧ db.features.map (·.id) = [s "g1", s "e1", s "g1_1", s "g1_2"] ∧
    db.duplicates = [(s "g1", s "g1_1"), (s "g1", s "g1_2")] ∧ (auto.get? (s "g1")).getD 0 = 2 := by
  obtain ⟨db, auto, h1, h2, h3, _, h5, _⟩ :=
    merge_exact_seq Dialect.default fmf0 {} input (by simp [input]) input_dom ⟨rfl, rfl⟩
  refine ⟨db, auto, h1, h2, ?_, ?_, ?_⟩
  · rw [h2]; decide +kernel
  · rw [h3]; decide +kernel
  · rw [h5]; decide +kernel

/-- … and the model computes the same (ids and start per row; relations; `duplicates`; counters) -/
private structure View where
  rows : List (Str × Option Int)
  rels : Nat
  dups : List (Str × Str)
  counters : List (Str × Nat)
  deriving DecidableEq

/- (kernel evaluation of the model stops at `List.mergeSort` — well-founded recursion — so the run is
evaluated on a shorter input in which the merge into an exempt column is the last event of its key) -/
example : (populateGff (mergeCfg Dialect.default fmf0) {} [] [b1, c1, b3, b2]).toOption.map
      (fun r => (⟨r.1.features.map (fun x => (x.id, x.start)), r.1.relations.length, r.1.duplicates, r.2⟩ : View)) =
    some ⟨[(s "g1", some 1), (s "e1", some 1), (s "g1_1", some 5)], 3,
          [(s "g1", s "g1_1")], [(s "g1", 1)]⟩ := by decide +kernel

/-- the exempt column of the group `[b1, b2]` is the sorted set `A,B`; that of the one-arrival group `[b5]`
is stored unchanged (`B,A`) -/
example : groupText [b5] (s "source") = s "B,A" := rfl

example : ∃ vs, groupText (groupOf fmf0 input b1) (s "source") = Str.join [','] vs ∧ vs.Nodup ∧
    vs.Pairwise (fun a b => a ≤ b) ∧ ∀ v, v ∈ vs ↔ (v = s "A" ∨ v = s "B") := by
  have hg : groupOf fmf0 input b1 = [b1, b2] := rfl
  obtain ⟨vs, h1, h2, h3, h4⟩ := groupText_spec (groupOf fmf0 input b1) (s "source") (by rw [hg]; decide)
  refine ⟨vs, h1, h2, h3, fun v => ?_⟩
  rw [h4, hg]
  have hA : Str.split [','] (s "A") = [s "A"] := by simp [Str.split, splitAux_cons, splitAux_nil, s]
  have hB : Str.split [','] (s "B") = [s "B"] := by simp [Str.split, splitAux_cons, splitAux_nil, s]
  have c1 : colText b1 (s "source") = s "A" := by decide +kernel
  have c2 : colText b2 (s "source") = s "B" := by decide +kernel
  simp [c1, c2, hA, hB]

/-- the merged attributes of the group `[b1, b2]`: `Name` holds exactly `x, y` -/
example : ∀ v, v ∈ ((groupAttrs (groupOf fmf0 input b1)).get? (s "Name")).getD [] ↔ (v = s "x" ∨ v = s "y") := by
  have hg : groupOf fmf0 input b1 = [b1, b2] := rfl
  intro v
  rw [groupAttrs_values _ (fun g hg' => input_attr g (groupOf_sub fmf0 input b1 g hg')), hg]
  have e1 : (b1.attrs.get? (s "Name")).getD [] = [s "x"] := by decide +kernel
  have e2 : (b2.attrs.get? (s "Name")).getD [] = [s "y", s "x"] := by decide +kernel
  simp [e1, e2]
  constructor
  · rintro (h | h | h) <;> simp [h]
  · rintro (h | h) <;> simp [h]

/-- `merge_seq_from`: a second import (`update`) of `[b4, b5]` into the state the import of
`[b1, c1, b2, b3]` left gives the state for the whole list -/
example : ∃ db auto db' auto', populateGff (mergeCfg Dialect.default fmf0) {} [] [b1, c1, b2, b3] = .ok (db, auto) ∧
    populateGff (mergeCfg Dialect.default fmf0) db auto [b4, b5] = .ok (db', auto') ∧
    db'.features = mergeRows fmf0 input := by
  have hd : MergeDomain ([] ++ [b1, c1, b2, b3]) :=
    input_dom.sub (fun x hx => by simp [input] at hx ⊢; rcases hx with h | h | h | h <;> simp [h])
  obtain ⟨db, auto, h1, inv⟩ := merge_seq_from Dialect.default fmf0 {} [] [b1, c1, b2, b3] {} [] (by simp) hd
    (mergeInv_nil fmf0 {} rfl rfl)
  rw [List.nil_append] at inv
  have hd2 : MergeDomain ([b1, c1, b2, b3] ++ [b4, b5]) := input_dom
  obtain ⟨db', auto', h2, inv'⟩ := merge_seq_from Dialect.default fmf0 {} [b1, c1, b2, b3] [b4, b5] db auto
    (by simp) hd2 inv
  exact ⟨db, auto, db', auto', h1, h2, inv'.feats⟩

end Examples

/-! ## §5 The side conditions are needed: `merge_exact_seq_full` of C05 (which has none) is FALSE

`merge_exact_seq_full` (C05 §5b) states the grouping property without the side condition `noTab`.  Witness:
three arrivals with key `g`; `t1` and `t2` differ in the compared columns `source` / `featuretype` but print alike
(`A<tab>B`, `C`  vs  `A`, `B<tab>C`), `t3` belongs to the group of `t2`.  `_candidate_merges` keeps only one of
the two candidates that print alike (`list(set(...))`), so `t3` does not find the row of `t2` and is filed
under `g_2`: three rows for two groups.  (Column text read from a tab-separated line never contains a tab, so
this is outside the real domain; it shows that `MergeDomain.noTab` cannot be dropped from `merge_exact_seq`.) -/

section Negation

private def t1 : Feature := { source := "A\tB".toList, ftype := "C".toList, attrs := [("ID".toList, ["g".toList])] }
private def t2 : Feature := { source := "A".toList, ftype := "B\tC".toList, attrs := [("ID".toList, ["g".toList])] }
private def t3 : Feature :=
  { source := "A".toList, ftype := "B\tC".toList, attrs := [("ID".toList, ["g".toList]), ("Note".toList, ["n".toList])] }

private theorem not_same_12 (d : Dialect) : ¬ SameGroup { gffCfg .merge d with forceMergeFields := [] } t1 t2 := by
  intro h
  have := h.2 "source".toList (by decide) (by simp)
  revert this; decide

private theorem same_23 (d : Dialect) : SameGroup { gffCfg .merge d with forceMergeFields := [] } t2 t3 := by
  refine ⟨by decide, ?_⟩
  intro k hk _
  simp only [gffCols, List.map_cons, List.map_nil, List.mem_cons, List.not_mem_nil, or_false] at hk
  rcases hk with rfl | rfl | rfl | rfl | rfl | rfl | rfl | rfl <;> rfl

theorem merge_exact_seq_full_false : ¬ merge_exact_seq_full := by
  intro h
  have h3 : t3 ∉ [t1, t2] := by
    intro hm
    simp only [List.mem_cons, List.not_mem_nil, or_false] at hm
    rcases hm with e | e <;> (have := congrArg Feature.attrs e; revert this; decide)
  obtain ⟨db, auto, hrun, hlen, _⟩ := h Dialect.default [] [t1, t2, t3] [t1, t2] (by simp)
    (fun f hf => Option.isSome_iff_exists.mp
      (List.all_eq_true.mp (by decide : [t1, t2, t3].all (fun f => (idOf f).isSome) = true) f hf))
    (fresh_of_no_underscore [] [] _ (by simp) (by decide))
    (List.Sublist.cons_cons t1 (List.Sublist.cons_cons t2 (List.Sublist.cons t3 List.Sublist.slnil)))
    (by
      simp only [List.pairwise_cons, List.mem_singleton, List.not_mem_nil, forall_eq, false_imp_iff, implies_true,
        List.Pairwise.nil, and_true]
      exact not_same_12 _)
    (by
      intro pre f post hfs
      match pre, hfs with
      | [], hfs =>
        simp only [List.nil_append, List.cons.injEq] at hfs
        obtain ⟨rfl, _⟩ := hfs
        simp
      | [a], hfs =>
        simp only [List.cons_append, List.nil_append, List.cons.injEq] at hfs
        obtain ⟨rfl, rfl, _⟩ := hfs
        simp only [List.mem_cons, or_true, List.not_mem_nil, or_false, forall_eq, true_iff]
        exact not_same_12 _
      | [a, b], hfs =>
        simp only [List.cons_append, List.nil_append, List.cons.injEq] at hfs
        obtain ⟨rfl, rfl, rfl, _⟩ := hfs
        constructor
        · intro hm; exact absurd hm h3
        · intro hall; exact absurd (same_23 _) (hall t2 (by simp))
      | a :: b :: c :: rest, hfs =>
        have := congrArg List.length hfs
        simp at this)
  have hmodel : (populateGff { gffCfg .merge Dialect.default with forceMergeFields := [] } {} [] [t1, t2, t3]).toOption.map
      (fun r => r.1.features.length) = some 3 := by decide +kernel
  rw [hrun] at hmodel
  simp only [Except.toOption, Option.map_some, Option.some.injEq] at hmodel
  simp at hlen
  omega

end Negation

end GffProofs.C05
