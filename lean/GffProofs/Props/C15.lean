/-
  C15 — `FeatureDB.interfeatures` has exact gap geometry (feature-list part; the database-backed
  clauses `create_introns` / `create_splice_sites` are stated elsewhere on top of this model).

  Main results, for EVERY feature list whose coordinates are integers:
  * `interfeatures_exact`  — the output is `filterMap gap3` over the consecutive triples
    `(run head, previous, next)`;
  * `interfeatures_pairs`  — up to the three columns inherited from the run head (`id`, `score`,
    `frame`), the output is `filterMap gapCore (zip l l.tail)`: one feature per same-seqid pair with at
    least one base between, none for touching / overlapping / nested pairs or across a seqid change;
  * `n_minus_one`          — N features on one seqid with positive gaps give N − 1 outputs;
  * `interfeature_fields`  — type, strand, attributes, `ID` joining, recomputed bin, and the columns
    `id`, `score`, `frame` taken from the first feature of the seqid run (a quirk of the in-place
    dict: not mentioned by the property, followed by the model);
  * `mergeAttributes_keys`, `mergeAttributes_get`, `mergeAttributes_mem`, `sortedSet_mem/nodup/sorted` —
    "per-key sorted union".
  * `nfeatures_one` — `nfeatures` is 1 at the head of every iteration: the "yield the last
    interfeature" branch at a seqid change is dead code.
  Core Lean only.
-/
import GffModel.Inter
import GffProofs.Props.C09

namespace GffProofs.C15
open GffModel GffModel.Inter

/-! ### specification -/

/-- integer coordinates -/
def HasCoords (f : Feature) : Prop := f.start.isSome ∧ f.stop.isSome

/-- the attributes of the gap between `p` and `n` -/
def gapAttrs (o : Opts) (p n : Feature) : Attrs :=
  joinIds (Dict.update (if o.mergeAttrs then mergeAttributes p.attrs n.attrs o.numericSort else []) o.update)

def gapType (o : Opts) (p n : Feature) : Str :=
  match o.newFtype with
  | none => "inter_".toList ++ p.ftype ++ ['_'] ++ n.ftype
  | some t => t

/-- the feature between previous `p` and next `n`; `h` is the first feature of the seqid run -/
def gap3 (cfg : DbCfg) (o : Opts) (t : Feature × Feature × Feature) : Option Feature :=
  match t.2.1.stop, t.2.2.start with
  | some pe, some ns =>
    if t.2.2.seqid = t.2.1.seqid ∧ pe + 2 ≤ ns then
      some { seqid := t.2.2.seqid, source := "gffutils_derived".toList, ftype := gapType o t.2.1 t.2.2,
             start := some (pe + 1), stop := some (ns - 1), score := t.1.score,
             strand := if t.2.1.strand = t.2.2.strand then t.2.2.strand else ['.'],
             frame := t.1.frame, attrs := gapAttrs o t.2.1 t.2.2, extra := [],
             bin := some (Bins.bins (pe + 1) (ns - 1) .gff true), id := t.1.id, dialect := cfg.dialect,
             fileOrder := none, keepOrder := cfg.keepOrder, sortVals := cfg.sortVals }
    else none
  | _, _ => none

/-- consecutive pairs `(p, n)` of `p :: l`, each with the head of the seqid run `p` belongs to -/
def triples (h p : Feature) : List Feature → List (Feature × Feature × Feature)
  | [] => []
  | n :: rest => (h, p, n) :: triples (if n.seqid = p.seqid then h else n) n rest

/-- forget the columns inherited from the run head -/
def core (f : Feature) : Feature := { f with id := none, score := ['.'], frame := ['.'] }

/-- DESIGN.md's `gap p n` -/
def gapCore (cfg : DbCfg) (o : Opts) (pn : Feature × Feature) : Option Feature :=
  (gap3 cfg o (pn.1, pn.1, pn.2)).map core

/-! ### the loop -/

/-- loop invariant: `nfeatures = 1`, and the dict carries the head's `id/score/frame`, the current
seqid and the fixed source -/
structure Inv (st : St) (h : Feature) : Prop where
  n : st.n = 1
  id : st.d.id = h.id
  score : st.d.score = h.score
  frame : st.d.frame = h.frame
  seqid : st.d.seqid = st.last.seqid
  source : st.d.source = "gffutils_derived".toList

theorem inv_init (f : Feature) : Inv { d := initInter f, last := f, n := 1 } f :=
  ⟨rfl, rfl, rfl, rfl, rfl, rfl⟩

theorem update_nil (a : Attrs) : Dict.update a [] = a := rfl

theorem prep_fields (cfg : DbCfg) (d d' : IDict) (y : Option Feature)
    (h : prepForYield cfg d = .ok (d', y)) :
    d'.id = d.id ∧ d'.score = d.score ∧ d'.frame = d.frame ∧ d'.seqid = d.seqid ∧ d'.source = d.source := by
  unfold prepForYield at h
  split at h
  · simp only at h
    split at h <;>
      (injection h with h; injection h with h _; subst h; exact ⟨rfl, rfl, rfl, rfl, rfl⟩)
  · cases h

/-- the state after one iteration -/
theorem step_inv (cfg : DbCfg) (o : Opts) (st st' : St) (h f : Feature) (ys : List Feature)
    (hinv : Inv st h) (hstep : step cfg o st f = .ok (st', ys)) :
    Inv st' (if f.seqid = st.last.seqid then h else f) ∧ st'.last = f := by
  unfold step at hstep
  by_cases hs : f.seqid = st.last.seqid
  · have hs' : ¬ (f.seqid ≠ st.last.seqid) := fun c => c hs
    rw [if_neg hs'] at hstep
    rw [if_pos hs]
    simp only at hstep
    split at hstep
    · cases hstep
    · rename_i d' y hprep
      injection hstep with hstep; injection hstep with hstep _; subst hstep
      obtain ⟨h1, h2, h3, h4, h5⟩ := prep_fields cfg _ _ _ hprep
      refine ⟨⟨rfl, ?_, ?_, ?_, ?_, ?_⟩, rfl⟩
      · rw [h1]; exact hinv.id
      · rw [h2]; exact hinv.score
      · rw [h3]; exact hinv.frame
      · show d'.seqid = f.seqid
        rw [h4]; show st.d.seqid = f.seqid; rw [hinv.seqid, hs]
      · rw [h5]; exact hinv.source
  · have hs' : f.seqid ≠ st.last.seqid := hs
    rw [if_pos hs'] at hstep
    rw [if_neg hs]
    have hn : ¬ (st.n > 1) := by rw [hinv.n]; omega
    rw [if_neg hn] at hstep
    injection hstep with hstep; injection hstep with hstep _; subst hstep
    exact ⟨inv_init f, rfl⟩

/-- what one iteration yields -/
theorem step_out (cfg : DbCfg) (o : Opts) (st : St) (h f : Feature) (hinv : Inv st h)
    (hl : HasCoords st.last) (hf : HasCoords f) :
    (step cfg o st f).map Prod.snd = .ok (optToList (gap3 cfg o (h, st.last, f))) := by
  obtain ⟨pe, hpe⟩ := Option.isSome_iff_exists.1 hl.2
  obtain ⟨ns, hns⟩ := Option.isSome_iff_exists.1 hf.1
  unfold step
  by_cases hs : f.seqid = st.last.seqid
  · have hs' : ¬ (f.seqid ≠ st.last.seqid) := fun c => c hs
    rw [if_neg hs']
    have hupd : (if o.update.isEmpty = true
          then (if o.mergeAttrs = true then mergeAttributes st.last.attrs f.attrs o.numericSort else [])
          else Dict.update (if o.mergeAttrs = true then mergeAttributes st.last.attrs f.attrs o.numericSort else [])
            o.update) =
        Dict.update (if o.mergeAttrs = true then mergeAttributes st.last.attrs f.attrs o.numericSort else [])
            o.update := by
      cases hu : o.update with
      | nil => simp [update_nil]
      | cons a b => simp
    have hstrand : (if st.last.strand ≠ f.strand then ['.'] else f.strand) =
        (if st.last.strand = f.strand then f.strand else ['.']) := by
      by_cases hx : st.last.strand = f.strand <;> simp [hx]
    simp only [hupd, hstrand]
    unfold prepForYield
    simp only [hpe, hns]
    by_cases hg : pe + 2 ≤ ns
    · have hng : ¬ (pe + 1 > ns - 1) := by omega
      rw [if_neg hng]
      simp only [Except.map, gap3, hpe, hns, hs, hg, and_self, if_true, optToList, gapType, gapAttrs,
        hinv.seqid, hinv.source, hinv.score, hinv.frame, hinv.id]
      rfl
    · have hng : pe + 1 > ns - 1 := by omega
      rw [if_pos hng]
      have : ¬ (f.seqid = st.last.seqid ∧ pe + 2 ≤ ns) := fun c => hg c.2
      simp only [Except.map, gap3, hpe, hns, this, if_false, optToList]
  · have hs' : f.seqid ≠ st.last.seqid := hs
    rw [if_pos hs']
    have hn : ¬ (st.n > 1) := by rw [hinv.n]; omega
    rw [if_neg hn]
    have : ¬ (f.seqid = st.last.seqid ∧ pe + 2 ≤ ns) := fun c => hs c.1
    simp only [Except.map, gap3, hpe, hns, this, if_false, optToList]

theorem step_spec (cfg : DbCfg) (o : Opts) (st : St) (h f : Feature) (hinv : Inv st h)
    (hl : HasCoords st.last) (hf : HasCoords f) :
    ∃ st', step cfg o st f = .ok (st', optToList (gap3 cfg o (h, st.last, f))) ∧
      Inv st' (if f.seqid = st.last.seqid then h else f) ∧ st'.last = f := by
  have hout := step_out cfg o st h f hinv hl hf
  cases hstep : step cfg o st f with
  | error e => rw [hstep] at hout; cases hout
  | ok r =>
    obtain ⟨st', ys⟩ := r
    rw [hstep] at hout
    simp only [Except.map] at hout
    injection hout with hout
    subst hout
    exact ⟨st', rfl, step_inv cfg o st st' h f _ hinv hstep⟩

theorem filterMap_cons_optToList {α β : Type} (g : α → Option β) (a : α) (l : List α) :
    (a :: l).filterMap g = optToList (g a) ++ l.filterMap g := by
  rw [List.filterMap_cons]
  cases g a <;> rfl

theorem loop_spec (cfg : DbCfg) (o : Opts) (fs : List Feature) :
    ∀ (st : St) (h : Feature), Inv st h → HasCoords st.last → (∀ f ∈ fs, HasCoords f) →
      loop cfg o st fs = .ok ((triples h st.last fs).filterMap (gap3 cfg o)) := by
  induction fs with
  | nil => intro st h _ _ _; rfl
  | cons f fs ih =>
    intro st h hinv hl hfs
    obtain ⟨st', hstep, hinv', hlast⟩ :=
      step_spec cfg o st h f hinv hl (hfs f List.mem_cons_self)
    have hrec := ih st' _ hinv' (by rw [hlast]; exact hfs f List.mem_cons_self)
      (fun g hg => hfs g (List.mem_cons_of_mem _ hg))
    rw [hlast] at hrec
    simp only [loop, hstep, hrec, triples]
    rw [filterMap_cons_optToList]

/-- **Exact output of `interfeatures`**, for every list with integer coordinates. -/
theorem interfeatures_exact (cfg : DbCfg) (o : Opts) (f : Feature) (fs : List Feature)
    (hc : ∀ g ∈ f :: fs, HasCoords g) :
    interfeatures cfg o (f :: fs) = .ok ((triples f f fs).filterMap (gap3 cfg o)) := by
  unfold interfeatures
  exact loop_spec cfg o fs _ f (inv_init f) (hc f List.mem_cons_self)
    (fun g hg => hc g (List.mem_cons_of_mem _ hg))

theorem interfeatures_nil (cfg : DbCfg) (o : Opts) : interfeatures cfg o [] = .ok [] := rfl

/-! ### the pair form -/

theorem triples_pairs (h p : Feature) (l : List Feature) :
    (triples h p l).map (fun t => (t.2.1, t.2.2)) = (p :: l).zip l := by
  induction l generalizing h p with
  | nil => rfl
  | cons n rest ih => simp only [triples, List.map_cons, List.zip_cons_cons, ih]

theorem gap3_core (cfg : DbCfg) (o : Opts) (t : Feature × Feature × Feature) :
    (gap3 cfg o t).map core = gapCore cfg o (t.2.1, t.2.2) := by
  unfold gapCore gap3
  cases t.2.1.stop <;> cases t.2.2.start <;> try rfl
  simp only
  split <;> rfl

theorem filterMap_map_core (cfg : DbCfg) (o : Opts) (ts : List (Feature × Feature × Feature)) :
    (ts.filterMap (gap3 cfg o)).map core =
      (ts.map (fun t => (t.2.1, t.2.2))).filterMap (gapCore cfg o) := by
  induction ts with
  | nil => rfl
  | cons t ts ih =>
    rw [List.map_cons, List.filterMap_cons, List.filterMap_cons, ← gap3_core]
    cases gap3 cfg o t with
    | none => simpa using ih
    | some g => simp [ih]

/-- **`interfeatures_pairs`** (DESIGN.md §3 C15): for every list `l` with integer coordinates the call
succeeds, and — forgetting the columns `id/score/frame` that the in-place dict inherits from the first
feature of the seqid run — its output is `filterMap gap (zip l l.tail)`. -/
theorem interfeatures_pairs (cfg : DbCfg) (o : Opts) (l : List Feature) (hc : ∀ g ∈ l, HasCoords g) :
    ∃ outs, interfeatures cfg o l = .ok outs ∧
      outs.map core = (l.zip l.tail).filterMap (gapCore cfg o) := by
  cases l with
  | nil => exact ⟨[], rfl, rfl⟩
  | cons f fs =>
    refine ⟨_, interfeatures_exact cfg o f fs hc, ?_⟩
    rw [filterMap_map_core, triples_pairs]
    rfl

/-- what `gapCore` is: exactly one feature for a same-seqid pair with at least one base between … -/
theorem gapCore_some (cfg : DbCfg) (o : Opts) (p n : Feature) (pe ns : Int)
    (hp : p.stop = some pe) (hn : n.start = some ns) (hs : n.seqid = p.seqid) (hg : pe + 2 ≤ ns) :
    ∃ g, gapCore cfg o (p, n) = some g ∧ g.start = some (pe + 1) ∧ g.stop = some (ns - 1) ∧
      g.seqid = p.seqid := by
  simp only [gapCore, gap3, hp, hn, hs, hg, and_self, if_true, Option.map_some]
  exact ⟨_, rfl, rfl, rfl, rfl⟩

/-- … none for touching, overlapping or nested pairs … -/
theorem gapCore_none_of_touch (cfg : DbCfg) (o : Opts) (p n : Feature) (pe ns : Int)
    (hp : p.stop = some pe) (hn : n.start = some ns) (hg : ns ≤ pe + 1) :
    gapCore cfg o (p, n) = none := by
  have : ¬ (n.seqid = p.seqid ∧ pe + 2 ≤ ns) := fun c => by omega
  simp only [gapCore, gap3, hp, hn, this, if_false, Option.map_none]

/-- … and none across a change of seqid. -/
theorem gapCore_none_of_seqid (cfg : DbCfg) (o : Opts) (p n : Feature) (hs : n.seqid ≠ p.seqid) :
    gapCore cfg o (p, n) = none := by
  unfold gapCore gap3
  simp only
  cases p.stop <;> cases n.start <;> simp [hs]

/-! ### N − 1 -/

/-- consecutive features are on one seqid with at least one base between them -/
def PositiveGaps : List Feature → Prop
  | [] => True
  | [_] => True
  | p :: n :: rest =>
    (n.seqid = p.seqid ∧ ∃ pe ns, p.stop = some pe ∧ n.start = some ns ∧ pe + 2 ≤ ns) ∧
      PositiveGaps (n :: rest)

theorem filterMap_length_of_all_some {α β : Type} (g : α → Option β) (l : List α)
    (h : ∀ a ∈ l, (g a).isSome) : (l.filterMap g).length = l.length := by
  induction l with
  | nil => rfl
  | cons a l ih =>
    obtain ⟨b, hb⟩ := Option.isSome_iff_exists.1 (h a List.mem_cons_self)
    rw [List.filterMap_cons, hb]
    simp only [List.length_cons]
    rw [ih (fun x hx => h x (List.mem_cons_of_mem _ hx))]

theorem positive_all_some (cfg : DbCfg) (o : Opts) (p : Feature) (l : List Feature)
    (hg : PositiveGaps (p :: l)) : ∀ a ∈ (p :: l).zip l, (gapCore cfg o a).isSome := by
  induction l generalizing p with
  | nil => intro a ha; simp at ha
  | cons n rest ih =>
    intro a ha
    rw [List.zip_cons_cons, List.mem_cons] at ha
    obtain ⟨⟨hs, pe, ns, hp, hn, hle⟩, hrest⟩ := hg
    rcases ha with rfl | ha
    · obtain ⟨g, hgc, _⟩ := gapCore_some cfg o p n pe ns hp hn hs hle
      rw [hgc]; rfl
    · exact ih n hrest a ha

/-- **`n_minus_one`**: N features with positive gaps on one seqid give N − 1 interfeatures. -/
theorem n_minus_one (cfg : DbCfg) (o : Opts) (l : List Feature) (hc : ∀ g ∈ l, HasCoords g)
    (hg : PositiveGaps l) :
    ∃ outs, interfeatures cfg o l = .ok outs ∧ outs.length = l.length - 1 := by
  obtain ⟨outs, hok, hmap⟩ := interfeatures_pairs cfg o l hc
  refine ⟨outs, hok, ?_⟩
  have hlen : outs.length = ((l.zip l.tail).filterMap (gapCore cfg o)).length := by
    rw [← hmap, List.length_map]
  rw [hlen]
  cases l with
  | nil => rfl
  | cons p rest =>
    rw [List.tail_cons, filterMap_length_of_all_some _ _ (positive_all_some cfg o p rest hg)]
    simp [List.length_zip]

/-! ### fields -/

/-- **`interfeature_fields`**: every column of the feature produced for the triple
`(run head h, previous p, next n)`. -/
theorem interfeature_fields (cfg : DbCfg) (o : Opts) (h p n g : Feature)
    (hg : gap3 cfg o (h, p, n) = some g) :
    ∃ pe ns, p.stop = some pe ∧ n.start = some ns ∧ n.seqid = p.seqid ∧ pe + 2 ≤ ns ∧
      g.seqid = p.seqid ∧ g.start = some (pe + 1) ∧ g.stop = some (ns - 1) ∧
      g.source = "gffutils_derived".toList ∧
      g.ftype = (match o.newFtype with
        | none => "inter_".toList ++ p.ftype ++ ['_'] ++ n.ftype
        | some t => t) ∧
      g.strand = (if p.strand = n.strand then n.strand else ['.']) ∧
      g.attrs = joinIds (Dict.update
        (if o.mergeAttrs then mergeAttributes p.attrs n.attrs o.numericSort else []) o.update) ∧
      g.bin = some (Bins.bins (pe + 1) (ns - 1) .gff true) ∧
      g.extra = [] ∧ g.dialect = cfg.dialect ∧ g.keepOrder = cfg.keepOrder ∧ g.sortVals = cfg.sortVals ∧
      g.fileOrder = none ∧
      -- inherited from the first feature of the seqid run
      g.id = h.id ∧ g.score = h.score ∧ g.frame = h.frame := by
  unfold gap3 at hg
  simp only at hg
  cases hp : p.stop with
  | none => rw [hp] at hg; simp at hg
  | some pe =>
    cases hn : n.start with
    | none => rw [hp, hn] at hg; simp at hg
    | some ns =>
      rw [hp, hn] at hg
      simp only at hg
      split at hg
      · rename_i hc
        injection hg with hg
        subst hg
        exact ⟨pe, ns, rfl, rfl, hc.1, hc.2, hc.1, rfl, rfl, rfl, rfl, rfl, rfl, rfl, rfl, rfl, rfl, rfl, rfl,
          rfl, rfl, rfl⟩
      · cases hg

/-- several `ID` values are joined by `-` into one; one or none are left alone -/
theorem joinIds_ID (a : Attrs) :
    Dict.get? (joinIds a) "ID".toList =
      (match Dict.get? a "ID".toList with
       | some v => if v.length > 1 then some [Str.join ['-'] v] else some v
       | none => none) := by
  have hset : ∀ (d : Attrs) (k : Str) (v w : List Str), Dict.get? d k = some w →
      Dict.get? (Dict.set d k v) k = some v := by
    intro d k v w
    induction d with
    | nil => intro h; cases h
    | cons kv rest ih =>
      intro h
      unfold Dict.get? at h
      unfold Dict.set
      by_cases hk : kv.1 = k
      · rw [if_pos hk]; unfold Dict.get?; simp
      · rw [if_neg hk] at h; rw [if_neg hk]; unfold Dict.get?; rw [if_neg hk]; exact ih h
  unfold joinIds
  cases hg : Dict.get? a "ID".toList with
  | none => simp only; exact hg
  | some v =>
    simp only
    by_cases hl : v.length > 1
    · rw [if_pos hl, if_pos hl]; exact hset a _ _ v hg
    · rw [if_neg hl, if_neg hl]; exact hg

/-! ### `merge_attributes`: per-key sorted union -/

theorem strLe_total (a b : Str) : (strLe a b || strLe b a) = true := by
  unfold strLe
  rcases List.le_total a b with h | h <;> simp [h]

theorem strLe_trans (a b c : Str) : strLe a b = true → strLe b c = true → strLe a c = true := by
  unfold strLe
  simp only [decide_eq_true_eq]
  exact fun h1 h2 => List.le_trans h1 h2

theorem sortedSet_mem (v : List Str) (x : Str) : x ∈ sortedSet v ↔ x ∈ v := by
  unfold sortedSet sortStrs
  rw [List.mem_mergeSort, GffProofs.C09.mem_dedup]

theorem sortedSet_nodup (v : List Str) : (sortedSet v).Nodup := by
  unfold sortedSet sortStrs
  exact (List.mergeSort_perm _ _).nodup_iff.2 (GffProofs.C09.dedup_nodup v)

theorem sortedSet_sorted (v : List Str) : (sortedSet v).Pairwise (fun a b => a ≤ b) := by
  unfold sortedSet sortStrs
  have := List.pairwise_mergeSort (le := strLe) strLe_trans strLe_total (dedup v)
  exact this.imp (fun h => by simpa [strLe] using h)

theorem set_keys_of_mem (d : Attrs) (k : Str) (v : List Str) (h : k ∈ Dict.keys d) :
    Dict.keys (Dict.set d k v) = Dict.keys d := by
  induction d with
  | nil => simp [Dict.keys] at h
  | cons kv rest ih =>
    unfold Dict.set
    by_cases hk : kv.1 = k
    · rw [if_pos hk]; simp [Dict.keys, hk]
    · rw [if_neg hk]
      have : k ∈ Dict.keys rest := by
        simp only [Dict.keys, List.map_cons, List.mem_cons] at h
        rcases h with h | h
        · exact absurd h.symm hk
        · exact h
      simp only [Dict.keys, List.map_cons] at ih ⊢
      rw [ih this]

theorem set_keys_of_not_mem (d : Attrs) (k : Str) (v : List Str) (h : k ∉ Dict.keys d) :
    Dict.keys (Dict.set d k v) = Dict.keys d ++ [k] := by
  induction d with
  | nil => rfl
  | cons kv rest ih =>
    unfold Dict.set
    have hk : ¬ kv.1 = k := by
      intro c; apply h; simp [Dict.keys, c]
    rw [if_neg hk]
    have : k ∉ Dict.keys rest := by
      intro c; apply h; simp only [Dict.keys, List.map_cons, List.mem_cons]; exact Or.inr c
    simp only [Dict.keys, List.map_cons, List.cons_append] at ih ⊢
    rw [ih this]

theorem keys_cons (kv : Str × List Str) (rest : Attrs) :
    Dict.keys (kv :: rest) = kv.1 :: Dict.keys rest := rfl

theorem update_keys (a b : Attrs) (hb : (Dict.keys b).Nodup) :
    Dict.keys (Dict.update a b) = Dict.keys a ++ (Dict.keys b).filter (fun k => k ∉ Dict.keys a) := by
  unfold Dict.update
  induction b generalizing a with
  | nil => simp [Dict.keys]
  | cons kv rest ih =>
    rw [List.foldl_cons]
    rw [keys_cons, List.nodup_cons] at hb
    rw [ih _ hb.2, keys_cons, List.filter_cons]
    by_cases hk : kv.1 ∈ Dict.keys a
    · rw [set_keys_of_mem a kv.1 kv.2 hk]
      have : ¬ (decide (kv.1 ∉ Dict.keys a) = true) := by simpa using hk
      rw [if_neg this]
    · rw [set_keys_of_not_mem a kv.1 kv.2 hk]
      have : decide (kv.1 ∉ Dict.keys a) = true := by simpa using hk
      rw [if_pos this, List.append_assoc, List.singleton_append]
      congr 2
      apply List.filter_congr
      intro x hx
      have hne : x ≠ kv.1 := by
        intro c; subst c; exact hb.1 hx
      simp [hne]

/-- the keys of the merged mapping: those of the first, then the new keys of the second -/
theorem mergeAttributes_keys (a1 a2 : Attrs) (ns : Bool) (h2 : (Dict.keys a2).Nodup) :
    Dict.keys (mergeAttributes a1 a2 ns) =
      Dict.keys a1 ++ (Dict.keys a2).filter (fun k => k ∉ Dict.keys a1) := by
  unfold mergeAttributes
  simp only [Dict.keys, List.map_map]
  have := update_keys a1 a2 h2
  simp only [Dict.keys] at this
  rw [← this]
  apply List.map_congr_left
  intro kv _
  simp only [Function.comp]
  split <;> (try split) <;> rfl

/-- every value list of the merged mapping (without `numeric_sort`) is duplicate-free and sorted -/
theorem mergeAttributes_sorted (a1 a2 : Attrs) (k : Str) (v : List Str)
    (h : (k, v) ∈ mergeAttributes a1 a2 false) :
    v.Nodup ∧ v.Pairwise (fun a b => a ≤ b) := by
  unfold mergeAttributes at h
  simp only [List.mem_map] at h
  obtain ⟨kv, _, hkv⟩ := h
  simp only [Bool.false_eq_true, if_false] at hkv
  injection hkv with _ hv
  subst hv
  exact ⟨sortedSet_nodup _, sortedSet_sorted _⟩

/-! ### values of the merged mapping -/

theorem get_cons (kv : Str × List Str) (rest : Attrs) (k : Str) :
    Dict.get? (kv :: rest) k = if kv.1 = k then some kv.2 else Dict.get? rest k := by
  cases kv; rfl

theorem get_map_keys (d : Attrs) (f : Str × List Str → Str × List Str) (hf : ∀ kv, (f kv).1 = kv.1) (k : Str) :
    Dict.get? (d.map f) k = (Dict.get? d k).map (fun v => (f (k, v)).2) := by
  induction d with
  | nil => rfl
  | cons kv rest ih =>
    rw [List.map_cons, get_cons, get_cons, hf kv]
    by_cases hk : kv.1 = k
    · rw [if_pos hk, if_pos hk]
      obtain ⟨k', v⟩ := kv
      simp only at hk; subst hk; rfl
    · rw [if_neg hk, if_neg hk]; exact ih

theorem get_set_eq' (d : Attrs) (k : Str) (v : List Str) : Dict.get? (Dict.set d k v) k = some v := by
  induction d with
  | nil => simp [Dict.set, Dict.get?]
  | cons kv rest ih =>
    unfold Dict.set
    by_cases hk : kv.1 = k
    · rw [if_pos hk]; simp [Dict.get?]
    · rw [if_neg hk]; unfold Dict.get?; rw [if_neg hk]; exact ih

theorem get_set_ne' (d : Attrs) (k k' : Str) (v : List Str) (h : k' ≠ k) :
    Dict.get? (Dict.set d k v) k' = Dict.get? d k' := by
  induction d with
  | nil => simp [Dict.set, Dict.get?, Ne.symm h]
  | cons kv rest ih =>
    unfold Dict.set
    by_cases hk : kv.1 = k
    · rw [if_pos hk]
      have : ¬ kv.1 = k' := fun c => h (c.symm.trans hk)
      simp [Dict.get?, this, Ne.symm h]
    · rw [if_neg hk]
      unfold Dict.get?
      by_cases hk' : kv.1 = k'
      · simp [hk']
      · simp only [hk', if_false]; exact ih

theorem get_none_of_not_mem (b : Attrs) (k : Str) (h : k ∉ Dict.keys b) : Dict.get? b k = none := by
  induction b with
  | nil => rfl
  | cons kv rest ih =>
    rw [keys_cons, List.mem_cons, not_or] at h
    unfold Dict.get?
    rw [if_neg (fun c => h.1 c.symm)]
    exact ih h.2

/-- `d.update(e)` read back (keys of `e` distinct, as in a Python dict) -/
theorem get_update (a b : Attrs) (hb : (Dict.keys b).Nodup) (k : Str) :
    Dict.get? (Dict.update a b) k = (match Dict.get? b k with
      | some v => some v
      | none => Dict.get? a k) := by
  unfold Dict.update
  induction b generalizing a with
  | nil => rfl
  | cons kv rest ih =>
    rw [keys_cons, List.nodup_cons] at hb
    rw [List.foldl_cons, ih _ hb.2]
    by_cases hk : kv.1 = k
    · subst hk
      rw [get_none_of_not_mem rest kv.1 hb.1]
      rw [get_cons, if_pos rfl]
      simp [get_set_eq']
    · have hne : k ≠ kv.1 := fun c => hk c.symm
      rw [get_cons, if_neg hk, get_set_ne' a kv.1 k kv.2 hne]

/-- **per-key sorted union**: the value of every key of the merged mapping -/
theorem mergeAttributes_get (a1 a2 : Attrs) (ns : Bool) (h2 : (Dict.keys a2).Nodup) (k : Str) :
    Dict.get? (mergeAttributes a1 a2 ns) k =
      (match Dict.get? a1 k, Dict.get? a2 k with
       | some v1, some v2 => some (if ns then numericSorted (v2 ++ v1) else sortedSet (v2 ++ v1))
       | some v1, none => some (if ns then numericSorted v1 else sortedSet v1)
       | none, some v2 => some (if ns then numericSorted v2 else sortedSet v2)
       | none, none => none) := by
  unfold mergeAttributes
  simp only
  rw [get_map_keys _ _ (fun kv => by cases kv; rfl), get_map_keys _ _ (fun kv => by
    obtain ⟨k', v⟩ := kv
    simp only
    split
    · split <;> rfl
    · rfl), get_update a1 a2 h2]
  unfold Dict.contains
  cases h1 : Dict.get? a1 k <;> cases h2' : Dict.get? a2 k <;> simp [h1, h2']

/-- membership form, without `numeric_sort`: a value is listed under `k` iff one of the neighbours lists it -/
theorem mergeAttributes_mem (a1 a2 : Attrs) (h2 : (Dict.keys a2).Nodup) (k x : Str) :
    (∃ v, Dict.get? (mergeAttributes a1 a2 false) k = some v ∧ x ∈ v) ↔
      (∃ v1, Dict.get? a1 k = some v1 ∧ x ∈ v1) ∨ (∃ v2, Dict.get? a2 k = some v2 ∧ x ∈ v2) := by
  rw [mergeAttributes_get a1 a2 false h2 k]
  cases h1 : Dict.get? a1 k <;> cases h2' : Dict.get? a2 k <;>
    simp [sortedSet_mem, or_comm]

/-! ### dead branch -/

/-- `nfeatures` is 1 whenever the loop head is reached: the test `nfeatures > 1` at a seqid change
never succeeds (interface.py L933-936 is dead code). -/
theorem nfeatures_one (cfg : DbCfg) (o : Opts) (st st' : St) (f : Feature) (ys : List Feature)
    (h : step cfg o st f = .ok (st', ys)) : st'.n = 1 := by
  unfold step at h
  split at h
  · split at h
    · split at h
      · cases h
      · injection h with h; injection h with h _; subst h; rfl
    · injection h with h; injection h with h _; subst h; rfl
  · simp only at h
    split at h
    · cases h
    · injection h with h; injection h with h _; subst h; rfl

/-! ### non-vacuity -/

section Examples
def ex (seqid : String) (s e : Int) (strand : String := "+") (id : String := "x") : Feature :=
  { seqid := seqid.toList, ftype := "exon".toList, start := some s, stop := some e, strand := strand.toList,
    attrs := [("ID".toList, [id.toList]), ("Parent".toList, ["t".toList])] }

def exList : List Feature :=
  [ex "c1" 1 3 "+" "a", ex "c1" 6 8 "+" "b", ex "c1" 9 12 "-" "c", ex "c2" 20 22 "+" "d", ex "c2" 30 31 "+" "e"]

example : ∀ g ∈ exList, HasCoords g := by
  intro g hg
  simp only [exList, List.mem_cons, List.not_mem_nil, or_false] at hg
  rcases hg with rfl | rfl | rfl | rfl | rfl <;> exact ⟨rfl, rfl⟩

/-- gaps 4..5 (c1), none for the touching pair, none across c1→c2, 23..29 (c2) -/
example : (interfeatures {} {} exList).toOption.map (List.map (fun g => (g.seqid, g.start, g.stop, g.strand))) =
    some [("c1".toList, some 4, some 5, "+".toList), ("c2".toList, some 23, some 29, "+".toList)] := by
  decide +kernel

/-- `merge_attributes=False`, `update_attributes={"ID": ["u", "v"]}`: the two values are joined -/
example : (interfeatures {} { mergeAttrs := false, update := [("ID".toList, ["u".toList, "v".toList])] }
      exList).toOption.map (List.map (fun g => g.attrs)) =
    some [[("ID".toList, ["u-v".toList])], [("ID".toList, ["u-v".toList])]] := by
  decide +kernel

example : PositiveGaps [ex "c1" 1 3, ex "c1" 6 8, ex "c1" 10 12] :=
  ⟨⟨rfl, 3, 6, rfl, rfl, by omega⟩, ⟨rfl, 8, 10, rfl, rfl, by omega⟩, trivial⟩

/-- a `None` coordinate on a same-seqid pair is Python's `TypeError` -/
example : (interfeatures {} {} [ex "c1" 1 3, { ex "c1" 6 8 with start := none }]).toOption.isNone = true := by
  decide +kernel
end Examples

end GffProofs.C15
