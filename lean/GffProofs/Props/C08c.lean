/-
  C08 (part c) — the Feature level: `str(feature)` is one line of exactly nine tab-separated columns
  (plus the extra columns) and `feature_from_line` of that line, with the same dialect, returns the
  same columns, coordinates, attribute mapping, extra columns and dialect.

  Lifts `reparse_print_gff3`, `print_gff3_no_breaks`, `reparse_print_gtf` (C08b) from the attribute
  column to `Feature.print` / `featureFromLine`.
-/
import GffModel.Feature
import GffProofs.Props.C08b
import GffProofs.Lemmas.C08cAux
import GffProofs.Lemmas.C07LineStr

namespace GffProofs.C08
open GffModel GffModel.Parser GffModel.Str GffProofs.C08bAux GffProofs.C08cAux

/-! ### Specification -/

/-- a string without tab, carriage return or line feed -/
def Clean (s : Str) : Prop := ∀ c ∈ s, c ≠ '\t' ∧ c ≠ '\n' ∧ c ≠ '\r'

instance (s : Str) : Decidable (Clean s) :=
  inferInstanceAs (Decidable (∀ c ∈ s, c ≠ '\t' ∧ c ≠ '\n' ∧ c ≠ '\r'))

/-- the nine standard columns of a printed Feature, `attrCol` being the printed attribute column:
coordinates are `str(int)` or `"."` for `None` -/
def SpecCols (f : Feature) (attrCol : Str) : List Str :=
  [f.seqid, f.source, f.ftype, Feature.coordStr f.start, Feature.coordStr f.stop,
   f.score, f.strand, f.frame, attrCol]

/-- what `feature_from_line(str(f))` is expected to be: `f` itself, with the bin recomputed from the
coordinates and the two database-side fields (`id`, `file_order`) unset -/
def SpecReparsed (f : Feature) : Feature :=
  { f with bin := Feature.calcBin f.start f.stop, id := none, fileOrder := none }

/-- Features the property quantifies over: default printing options, text columns / extra columns /
attribute keys without tab, CR, LF (`start`/`stop` are arbitrary `Option Int`) -/
structure FeatureOk (f : Feature) : Prop where
  keepOrder : f.keepOrder = false
  sortVals : f.sortVals = false
  seqid : Clean f.seqid
  source : Clean f.source
  ftype : Clean f.ftype
  score : Clean f.score
  strand : Clean f.strand
  frame : Clean f.frame
  extra : ∀ x ∈ f.extra, Clean x
  keys : ∀ kv ∈ f.attrs, Clean kv.1

/-! ### string facts -/

theorem count_join_char (c : Char) (fields : List Str) (hne : fields ≠ [])
    (hf : ∀ f ∈ fields, c ∉ f) : (join [c] fields).count c = fields.length - 1 := by
  induction fields with
  | nil => exact absurd rfl hne
  | cons p rest ih =>
    cases rest with
    | nil => simpa [join] using List.count_eq_zero.mpr (hf p (by simp))
    | cons q rest =>
      rw [C07.join_cons_cons, List.count_append, List.count_append, ih (by simp) (fun f h => hf f (by simp [h])),
        List.count_eq_zero.mpr (hf p (by simp))]
      simp; omega

theorem coordStr_clean (o : Option Int) : Clean (Feature.coordStr o) := by
  cases o with
  | none => intro c hc; simp only [Feature.coordStr, List.mem_cons, List.not_mem_nil, or_false] at hc; subst hc; decide
  | some i => exact intToStr_clean i

/-- `int(str(i)) == i`, `"."` ↦ `None`: the coordinate column round trip of `Feature.__init__` -/
theorem parseCoord_coordStr (o : Option Int) : Feature.parseCoord (Feature.coordStr o) = .ok o := by
  cases o with
  | none => simp [Feature.parseCoord, Feature.coordStr]
  | some i =>
    simp only [Feature.parseCoord, Feature.coordStr, intToStr_ne_dot i, intToStr_ne_nil i, or_self,
      if_false, parseInt_intToStr]

theorem specCols_clean (f : Feature) (hf : FeatureOk f) (s : Str) (hs : Clean s) :
    ∀ x ∈ SpecCols f s ++ f.extra, Clean x := by
  intro x hx
  rcases List.mem_append.mp hx with h | h
  · simp only [SpecCols, List.mem_cons, List.not_mem_nil, or_false] at h
    rcases h with h | h | h | h | h | h | h | h | h <;> subst h
    · exact hf.seqid
    · exact hf.source
    · exact hf.ftype
    · exact coordStr_clean _
    · exact coordStr_clean _
    · exact hf.score
    · exact hf.strand
    · exact hf.frame
    · exact hs
  · exact hf.extra x h

/-- the printed line is the tab-join of the nine columns followed by the extra columns -/
theorem print_eq (f : Feature) (hf : FeatureOk f) (s : Str)
    (hs : reconstruct f.attrs (some f.dialect) false false = .ok s) :
    f.print = .ok (join ['\t'] (SpecCols f s ++ f.extra)) := by
  unfold Feature.print
  rw [hf.keepOrder, hf.sortVals, hs]
  simp only [bind, Except.bind, pure, Except.pure]
  cases he : f.extra with
  | nil => simp [SpecCols]
  | cons e es =>
    simp only [List.isEmpty_cons, Bool.false_eq_true, if_false]
    exact congrArg Except.ok (C07.join_append_join ['\t'] (SpecCols f s) (e :: es) (by simp [SpecCols]) (by simp))

theorem mk_eq_specReparsed (f : Feature) (hk : f.keepOrder = false) (hv : f.sortVals = false) :
    ({ seqid := f.seqid, source := f.source, ftype := f.ftype, start := f.start, stop := f.stop,
       score := f.score, strand := f.strand, frame := f.frame, attrs := f.attrs, extra := f.extra,
       bin := Feature.calcBin f.start f.stop, dialect := f.dialect, keepOrder := false } : Feature)
      = SpecReparsed f := by
  cases f
  simp only [SpecReparsed] at *
  simp [hk, hv]

/-! ### the generic lifting theorem -/

/-- **Lifting.**  Whenever the attribute column of `f` prints to a `Clean` string that re-parses (with
`f`'s dialect) to `f.attrs`, the printed Feature is ONE line (no CR/LF) whose tab-split is exactly the
nine columns followed by the extra columns (so `8 + |extra|` tabs), and `feature_from_line` on it with
the same dialect returns `f` with the bin recomputed. -/
theorem feature_roundtrip_of_attrs (f : Feature) (hf : FeatureOk f) (s : Str)
    (hs : reconstruct f.attrs (some f.dialect) false false = .ok s) (hc : Clean s)
    (hp : splitKeyvals s (some f.dialect) = .ok (f.attrs, f.dialect)) :
    ∃ line, f.print = .ok line ∧
      (∀ c ∈ line, c ≠ '\n' ∧ c ≠ '\r') ∧
      splitChar '\t' line = SpecCols f s ++ f.extra ∧
      line.count '\t' = 8 + f.extra.length ∧
      featureFromLine line (some f.dialect) true false = .ok (SpecReparsed f) := by
  have hcl := specCols_clean f hf s hc
  have hne : SpecCols f s ++ f.extra ≠ [] := by simp [SpecCols]
  have htab : ∀ x ∈ SpecCols f s ++ f.extra, '\t' ∉ x := fun x hx h => (hcl x hx _ h).1 rfl
  have hline : ∀ c ∈ join ['\t'] (SpecCols f s ++ f.extra), c ≠ '\n' ∧ c ≠ '\r' := by
    intro c hcm
    rcases mem_join _ _ _ hcm with h | ⟨p, hp, hcp⟩
    · simp only [List.mem_cons, List.not_mem_nil, or_false] at h; subst h; decide
    · exact (hcl p hp c hcp).2
  have hsplit := C07.splitChar_join '\t' _ hne htab
  refine ⟨_, print_eq f hf s hs, hline, hsplit, ?_, ?_⟩
  · rw [count_join_char '\t' _ hne htab]
    simp [SpecCols]; omega
  · have hstrip : rstripChars ['\n', '\r'] (join ['\t'] (SpecCols f s ++ f.extra))
        = join ['\t'] (SpecCols f s ++ f.extra) := by
      apply C07.rstripChars_id
      intro c hcm
      have := hline c hcm
      simp [this.1, this.2]
    unfold featureFromLine
    simp only [if_true, pure, Except.pure, bind, Except.bind, hstrip, hsplit]
    have h8 : (SpecCols f s ++ f.extra)[8]?.getD [] = s := by simp [SpecCols]
    rw [h8, hp]
    simp only [Option.getD_some]
    have hd9 : (SpecCols f s ++ f.extra).drop 9 = f.extra := by simp [SpecCols]
    have ht8 : (SpecCols f s ++ f.extra).take 8 =
        [f.seqid, f.source, f.ftype, Feature.coordStr f.start, Feature.coordStr f.stop,
         f.score, f.strand, f.frame] := by simp [SpecCols]
    rw [hd9, ht8]
    unfold Feature.mk'
    simp only [List.getElem?_cons_zero, List.getElem?_cons_succ, Option.getD_some,
      parseCoord_coordStr, bind, Except.bind, pure, Except.pure]
    exact congrArg Except.ok (mk_eq_specReparsed f hf.keepOrder hf.sortVals)

/-- the fields of `SpecReparsed f`, spelled out: the eight columns, the attribute mapping, the extra
columns and the dialect are `f`'s, the bin is `calc_bin` of `f`'s coordinates -/
theorem specReparsed_fields (f g : Feature) (h : g = SpecReparsed f) :
    g.seqid = f.seqid ∧ g.source = f.source ∧ g.ftype = f.ftype ∧ g.start = f.start ∧ g.stop = f.stop ∧
    g.score = f.score ∧ g.strand = f.strand ∧ g.frame = f.frame ∧ g.attrs = f.attrs ∧ g.extra = f.extra ∧
    g.dialect = f.dialect ∧ g.bin = Feature.calcBin f.start f.stop := by
  subst h; exact ⟨rfl, rfl, rfl, rfl, rfl, rfl, rfl, rfl, rfl, rfl, rfl, rfl⟩

/-! ### no tab / CR / LF in the printed attribute column, any dialect with clean separators -/

theorem reconstruct_clean (d : Dialect) (a : Attrs) (hkv : Clean d.kvSep) (hm : Clean d.multiSep)
    (hfs : Clean d.fieldSep) (hattrs : ∀ kv ∈ attrsOf d a, Clean kv.1 ∧ ∀ x ∈ kv.2, Clean x) (s : Str)
    (hs : reconstruct a (some d) false false = .ok s) : Clean s := by
  by_cases hne : a = []
  · subst hne
    have : s = [] := by
      have : reconstruct [] (some d) false false = .ok [] := rfl
      rw [this] at hs; injection hs with hs; exact hs.symm
    subst this; intro c hc; cases hc
  · rw [reconstruct_eq d a hne] at hs
    injection hs with hs
    have hits := items_forall' d (attrsOf d a) Clean Clean hattrs
    have hbody : Clean (Str.join d.fieldSep ((items d (attrsOf d a)).map (mkPart d))) := by
      intro c hc
      rcases mem_join _ _ _ hc with h | ⟨p, hp, hcp⟩
      · exact hfs c h
      · obtain ⟨it, hit, rfl⟩ := List.mem_map.mp hp
        rcases mem_mkPart d it c hcp with h | h | h | h | ⟨x, hx, hcx⟩
        · exact (hits it hit).1 c h
        · exact hkv c h
        · subst h; decide
        · exact hm c h
        · exact (hits it hit).2 x hx c hcx
    intro c hc
    rw [← hs] at hc
    split at hc
    · simp only [List.mem_append, List.mem_cons, List.not_mem_nil, or_false] at hc
      rcases hc with hc | hc
      · exact hbody c hc
      · subst hc; decide
    · exact hbody c hc

theorem fieldSep_clean (fs : Str) (h : IsFieldSep fs) : Clean fs := by
  intro c hc
  rcases h with h | h | h <;> rw [h] at hc <;>
    simp only [List.mem_cons, List.not_mem_nil, or_false] at hc
  · subst hc; decide
  · rcases hc with hc | hc <;> subst hc <;> decide
  · rcases hc with hc | hc | hc <;> subst hc <;> decide

/-- GTF-style dialects print keys and values verbatim: the attribute column has no tab, CR or LF when
keys and values have none -/
theorem print_gtf_no_breaks (d : Dialect) (a : Attrs) (hd : GtfDialect d)
    (hk : ∀ kv ∈ a, Clean kv.1) (hv : ∀ kv ∈ a, ∀ v ∈ kv.2, Clean v) (s : Str)
    (hs : reconstruct a (some d) false false = .ok s) : Clean s := by
  have hne' : gtf ≠ gff3 := by decide
  have hattrs : attrsOf d a = a := by simp [attrsOf, hd.fmt, hne']
  refine reconstruct_clean d a ?_ ?_ (fieldSep_clean _ hd.sep) ?_ s hs
  · rw [hd.kv]; intro c hc; simp only [List.mem_cons, List.not_mem_nil, or_false] at hc; subst hc; decide
  · rw [hd.multi]; intro c hc; simp only [List.mem_cons, List.not_mem_nil, or_false] at hc; subst hc; decide
  · rw [hattrs]; exact fun kv hkv => ⟨hk kv hkv, hv kv hkv⟩

/-! ### The property, Feature level -/

/-- what the property says of a Feature `f` whose attribute column prints as `attrCol` -/
def PrintReparse (f : Feature) : Prop :=
  ∃ line attrCol,
    f.print = .ok line ∧
    reconstruct f.attrs (some f.dialect) false false = .ok attrCol ∧
    -- a single line
    (∀ c ∈ line, c ≠ '\n' ∧ c ≠ '\r') ∧
    -- of exactly nine tab-separated columns plus the extra columns
    splitChar '\t' line = SpecCols f attrCol ++ f.extra ∧
    (splitChar '\t' line).length = 9 + f.extra.length ∧
    line.count '\t' = 8 + f.extra.length ∧
    -- re-parsing with the same dialect returns the same columns and the same mapping
    featureFromLine line (some f.dialect) true false = .ok (SpecReparsed f)

theorem printReparse_of_attrs (f : Feature) (hf : FeatureOk f) (s : Str)
    (hs : reconstruct f.attrs (some f.dialect) false false = .ok s) (hc : Clean s)
    (hp : splitKeyvals s (some f.dialect) = .ok (f.attrs, f.dialect)) : PrintReparse f := by
  obtain ⟨line, h1, h2, h3, h4, h5⟩ := feature_roundtrip_of_attrs f hf s hs hc hp
  refine ⟨line, s, h1, hs, h2, h3, ?_, h4, h5⟩
  rw [h3]; simp [SpecCols]; omega

/-- **C08, Feature level, GFF3-style dialects.**  For any Feature with clean text columns and keys,
ANY attribute values (tabs, newlines, `;`, `=`, `%`, `,`, control characters, any Unicode) and any
GFF3-style dialect, `str(f)` is a single line of exactly nine tab-separated columns plus the extra
columns, and `feature_from_line(str(f), dialect)` has the same columns, coordinates, mapping, extra
columns and dialect (and the bin of its coordinates). -/
theorem feature_print_reparse_gff3 (f : Feature) (hf : FeatureOk f) (hd : Gff3Dialect f.dialect)
    (ha : MapOk f.attrs) : PrintReparse f := by
  obtain ⟨s, hs, hp⟩ := reparse_print_gff3 f.dialect f.attrs hd ha
  exact printReparse_of_attrs f hf s hs (print_gff3_no_breaks f.dialect f.attrs hd hf.keys s hs) hp

/-- **C08, Feature level, GTF-style dialects**: the same for values free of `;`, `,` (`GtfMapOk`) and
of tab, CR, LF. -/
theorem feature_print_reparse_gtf (f : Feature) (hf : FeatureOk f) (hd : GtfDialect f.dialect)
    (ha : GtfMapOk f.attrs) (hv : ∀ kv ∈ f.attrs, ∀ v ∈ kv.2, Clean v) : PrintReparse f := by
  obtain ⟨s, hs, hp⟩ := reparse_print_gtf f.dialect f.attrs hd ha
  exact printReparse_of_attrs f hf s hs (print_gtf_no_breaks f.dialect f.attrs hd hf.keys hv s hs) hp

/-- **The empty-attributes corner, ANY dialect**: an empty mapping prints an empty ninth column (the
line ends with a tab when there are no extra columns) and re-parses to the empty mapping with the
supplied dialect unchanged. -/
theorem feature_print_reparse_no_attrs (f : Feature) (hf : FeatureOk f) (he : f.attrs = []) :
    PrintReparse f ∧ ∃ line, f.print = .ok line ∧ splitChar '\t' line = SpecCols f [] ++ f.extra := by
  have hs : reconstruct f.attrs (some f.dialect) false false = .ok [] := by rw [he]; rfl
  have hp : splitKeyvals [] (some f.dialect) = .ok (f.attrs, f.dialect) := by rw [he]; rfl
  have hc : Clean [] := fun c hc => by cases hc
  refine ⟨printReparse_of_attrs f hf [] hs hc hp, ?_⟩
  obtain ⟨line, h1, _, h3, _⟩ := feature_roundtrip_of_attrs f hf [] hs hc hp
  exact ⟨line, h1, h3⟩

/-- the columns of the re-parsed Feature, spelled out -/
theorem printReparse_columns (f : Feature) (h : PrintReparse f) :
    ∃ line g, f.print = .ok line ∧ featureFromLine line (some f.dialect) true false = .ok g ∧
      g.seqid = f.seqid ∧ g.source = f.source ∧ g.ftype = f.ftype ∧ g.start = f.start ∧ g.stop = f.stop ∧
      g.score = f.score ∧ g.strand = f.strand ∧ g.frame = f.frame ∧ g.attrs = f.attrs ∧ g.extra = f.extra ∧
      g.dialect = f.dialect ∧ g.bin = Feature.calcBin f.start f.stop := by
  obtain ⟨line, _, h1, _, _, _, _, _, h5⟩ := h
  exact ⟨line, _, h1, h5, specReparsed_fields f _ rfl⟩

/-! ### Non-vacuity -/

section NonVacuity

/-- GFF3: values with `;`, `,`, tab and `%`; two extra columns; a negative coordinate -/
def exF3 : Feature :=
  { seqid := "chr 1".toList, source := "src".toList, ftype := "gene".toList, start := some (-5),
    stop := some 1200, score := ".".toList, strand := "+".toList, frame := "0".toList,
    attrs := exA3, extra := ["x".toList, [], "y z".toList], dialect := exD3,
    bin := some (.int 77), id := some "old".toList, fileOrder := some 3 }

/-- GTF: missing `start`, no extra column -/
def exFg : Feature :=
  { seqid := "chr2".toList, source := ".".toList, ftype := "exon".toList, start := none,
    stop := some 7, score := "1e-3".toList, strand := "-".toList, frame := ".".toList,
    attrs := exAg, dialect := exDg }

theorem exF3_ok : FeatureOk exF3 :=
  ⟨rfl, rfl, by decide, by decide, by decide, by decide, by decide, by decide, by decide, by decide⟩
theorem exFg_ok : FeatureOk exFg :=
  ⟨rfl, rfl, by decide, by decide, by decide, by decide, by decide, by decide, by decide, by decide⟩

example : PrintReparse exF3 := feature_print_reparse_gff3 exF3 exF3_ok exD3_ok exA3_ok
example : PrintReparse exFg := feature_print_reparse_gtf exFg exFg_ok exDg_ok exAg_ok (by decide)
example : PrintReparse { exF3 with attrs := [], dialect := d14Dialect } :=
  (feature_print_reparse_no_attrs _ ⟨rfl, rfl, by decide, by decide, by decide, by decide, by decide,
    by decide, by decide, by decide⟩ rfl).1

/-! the conclusions, evaluated on the executable model for the two witnesses -/

example : exF3.print.toOption =
    some "chr 1\tsrc\tgene\t-5\t1200\t.\t+\t0\tID=a%3Bb; ID=c%2Cd; Note=x y%09%25;\tx\t\ty z".toList := by
  decide +kernel
example : exFg.print.toOption =
    some "chr2\t.\texon\t.\t7\t1e-3\t-\t.\tgene_id \"g 1\"; tag \"a\"b\"; tag \"c=d %41\";".toList := by
  decide +kernel
/-- empty mapping, no extra column: nine columns, the ninth empty (the line ends with a tab) -/
example : ({ exF3 with attrs := [], extra := [], dialect := d14Dialect } : Feature).print.toOption =
    some "chr 1\tsrc\tgene\t-5\t1200\t.\t+\t0\t".toList := by
  decide +kernel

def okView (r : Py Feature) (cols : List Str) (start stop : Option Int) (attrs : Attrs) (extra : List Str)
    (d : Dialect) (bin : Option Bins.BinResult) : Bool :=
  match r with
  | .ok g => decide ([g.seqid, g.source, g.ftype, g.score, g.strand, g.frame] = cols) && decide (g.start = start) &&
      decide (g.stop = stop) && decide (g.attrs = attrs) && decide (g.extra = extra) && decide (g.dialect = d) &&
      decide (g.bin = bin)
  | .error _ => false

example : okView (featureFromLine
      "chr 1\tsrc\tgene\t-5\t1200\t.\t+\t0\tID=a%3Bb; ID=c%2Cd; Note=x y%09%25;\tx\t\ty z".toList (some exD3) true false)
    ["chr 1".toList, "src".toList, "gene".toList, ".".toList, "+".toList, "0".toList] (some (-5)) (some 1200)
    exA3 ["x".toList, [], "y z".toList] exD3 (some (.int 1)) = true := by decide +kernel
example : okView (featureFromLine
      "chr2\t.\texon\t.\t7\t1e-3\t-\t.\tgene_id \"g 1\"; tag \"a\"b\"; tag \"c=d %41\";".toList (some exDg) true false)
    ["chr2".toList, ".".toList, "exon".toList, "1e-3".toList, "-".toList, ".".toList] none (some 7)
    exAg [] exDg none = true := by decide +kernel

end NonVacuity

end GffProofs.C08
