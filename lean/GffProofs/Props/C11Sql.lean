/-
  C11Sql — the SQL text layer of C11 / C06 / C02 (`GffModel/Sql.lean`).

  The meaning-level model (`GffModel/Interface.lean`: `runQuery`, `runRelation`, `region`, `countFeatures`,
  `featuretypes`, `seqids`) says what a query returns; gffutils EXECUTES a text with positional arguments.  This
  file proves, for all arguments and all databases,

  1. lock-step:   the number of `?` of the text equals the number of arguments (`lockstep_count`, for arbitrary
                  `other` / `extra` strings), and sqlite's positional binding gives every condition of the statement
                  exactly the value the caller supplied for it (`lockstep`, `lockstep_relation`, `lockstep_region`);
  2. text = AST:  the exact text of `make_query` / `_relation` / `region` is the rendering of the AST
                  (`makeQuery_text`, `relation_text`, `region_text`);
  3. semantics:   the textbook evaluation of that statement returns exactly what the meaning-level model returns — the
                  same rows in the same order (`eval_makeQuery_eq_runQuery`, `eval_relation_eq_runRelation`,
                  `eval_region_eq_region`, counts and distinct lists).

  so the theorems of C11 / C06 / C02 about `runQuery` / `runRelation` / `region` are theorems about the generated SQL
  under the semantics `Sql.eval`.  Section 4 states where text and meaning differ (hypotheses that cannot be dropped),
  each with a checked witness.
-/
import GffProofs.Lemmas.C11SqlCount

namespace GffProofs.C11Sql
open GffModel GffModel.Sql GffModel.Interface

/-! ## 1. lock-step -/

/-- **lock-step, counting form** — for ALL arguments (arbitrary `other` / `extra` texts, every form of `limit`,
`featuretype`, `order_by`) on which `make_query` succeeds, its text contains exactly as many `?` as it returns
arguments.  The only hypothesis: an unvalidated bare-string `order_by` does not itself contain a `?`. -/
theorem lockstep_count (a : MqArgs) (t : Str) (args : List SqlArg) (hn : OrderBy.noQ a.orderBy)
    (h : makeQuery a = .ok (t, args)) : qcount t = args.length :=
  makeQueryCore_qcount _ _ _ _ _ _ _ _ _ t args hn h

/-- **lock-step, binding form** — for all arguments (with the `other` / `extra` texts the callers use) on which
`make_query` succeeds, sqlite's positional binding (the i-th `?` of the TEXT gets the i-th argument) yields
exactly the specification `spec a`: every condition paired with the value the caller gave for it. -/
theorem lockstep (a : SArgs) (q : SqlQuery) (args : List SqlArg) (h : makeQueryAst a = .ok (q, args)) :
    bind q args = some (spec a) :=
  bind_makeQueryAst a q args h

/-- … stated on the TEXT that `make_query` returns -/
theorem lockstep_text (a : SArgs) (t : Str) (args : List SqlArg) (h : makeQuery a.toMq = .ok (t, args)) :
    ∃ q, render q = t ∧ bind q args = some (spec a) := by
  rw [makeQuery_eq_render] at h
  cases hq : makeQueryAst a with
  | error e => rw [hq] at h; cases h
  | ok p =>
    rw [hq] at h
    simp only [Except.map, Except.ok.injEq, Prod.mk.injEq] at h
    obtain ⟨rfl, rfl⟩ := h
    exact ⟨p.1, rfl, lockstep a p.1 p.2 hq⟩

/-- `children` / `parents`: the first `?` is the id, the second (if any) the level, then featuretype, then limit -/
theorem lockstep_relation (r : RelArgs) (q : SqlQuery) (args : List SqlArg) (h : relationAst r = .ok (q, args)) :
    bind q args = some { spec r.toSArgs with distinct := true } ∧
    (spec r.toSArgs).join = some r.on ∧
    (spec r.toSArgs).conds =
      [.eq (.rel r.to) (.text r.id)] ++ (match r.level with | some l => [BCond.eq (.rel .level) (.int l)] | none => []) ++
      ftSpec r.featuretype ++ limitSpecOf r.limit r.within := by
  unfold relationAst at h
  cases hm : makeSelect r.toSArgs with
  | error e => rw [hm] at h; cases h
  | ok p =>
    rw [hm] at h
    simp only [Except.map, Except.ok.injEq, Prod.mk.injEq] at h
    obtain ⟨rfl, rfl⟩ := h
    have hb : bind (.select p.1) p.2 = some (spec r.toSArgs) :=
      bind_makeQueryAst r.toSArgs (.select p.1) p.2 (by unfold makeQueryAst; rw [hm]; rfl)
    refine ⟨by rw [bind_distinct, hb]; rfl, rfl, ?_⟩
    cases hl : r.level <;>
      simp [spec, RelArgs.toSArgs, RelArgs.initArgs, relSpec, strandSpec, hl]

/-- `region`: the arguments bind, in text order, to conditions whose conjunction is the meaning-level predicate -/
theorem lockstep_region (a : RegionArgs) :
    ∃ b, bind (regionAst a).1 (regionAst a).2 = some b ∧ b.join = none ∧ b.distinct = false ∧ b.order = none ∧
      ∀ j : JRow, b.conds.all (evalB j) = regionMatches a j.row :=
  region_bind a

/-- **general lock-step** — for EVERY statement of the AST (no unvalidated ORDER BY text) and every argument list:
sqlite's binding succeeds exactly when the number of arguments is the number of `?` of the rendered text.  So the
`ProgrammingError` of `eval` is sqlite's "Incorrect number of bindings supplied". -/
theorem lockstep_general (q : SqlQuery) (args : List SqlArg) (h : NoRaw q) :
    (bind q args).isSome = true ↔ qcount (render q) = args.length :=
  bind_isSome_iff q args h

/-- the text `_relation` executes has as many `?` as arguments -/
theorem lockstep_count_relation (r : RelArgs) (t : Str) (args : List SqlArg) (hk : OrderBy.known r.orderBy)
    (h : relationText r = .ok (t, args)) : qcount t = args.length := by
  rw [relationText_eq_render r hk] at h
  cases hq : relationAst r with
  | error e => rw [hq] at h; cases h
  | ok p =>
    rw [hq] at h
    simp only [Except.map, Except.ok.injEq, Prod.mk.injEq] at h
    obtain ⟨rfl, rfl⟩ := h
    have hb := (lockstep_relation r p.1 p.2 hq).1
    refine (bind_isSome_iff p.1 p.2 ?_).mp (by rw [hb]; rfl)
    -- no unvalidated ORDER BY text: `order_by` is known
    unfold relationAst at hq
    cases hm : makeSelect r.toSArgs with
    | error e => rw [hm] at hq; cases hq
    | ok sp =>
      rw [hm] at hq
      simp only [Except.map, Except.ok.injEq] at hq
      obtain ⟨_, ho⟩ := makeSelect_distinct _ sp.1 sp.2 hm
      intro ts d hs
      rw [← hq] at hs
      simp only [SqlQuery.core] at hs
      rw [hs] at ho
      exact (orderAst_allKeys _ _ ts d hk ho).1

/-- the text `region` executes has as many `?` as arguments -/
theorem lockstep_count_region (a : RegionArgs) : qcount (regionText a).1 = (regionText a).2.length := by
  rw [regionText_eq_render]
  obtain ⟨b, hb, _⟩ := region_bind a
  refine (bind_isSome_iff _ _ ?_).mp (by rw [hb]; rfl)
  intro ts d hs
  simp [regionAst, SqlQuery.core] at hs

/-! ## 2. the executed text is the rendering of the AST -/

theorem makeQuery_text (a : SArgs) : makeQuery a.toMq = (makeQueryAst a).map (fun p => (render p.1, p.2)) :=
  makeQuery_eq_render a

theorem relation_text (r : RelArgs) (hk : OrderBy.known r.orderBy) :
    relationText r = (relationAst r).map (fun p => (render p.1, p.2)) :=
  relationText_eq_render r hk

theorem region_text (a : RegionArgs) : regionText a = (render (regionAst a).1, (regionAst a).2) :=
  regionText_eq_render a

theorem count_text (ft : Option Str) : render (countQuery ft).1 = countText ft.isSome := by
  cases ft <;> rfl

/-! ## 3. the generated SQL computes the meaning-level model -/

/-- `all_features` / `features_of_type`, with the rowids -/
theorem eval_makeQuery_rows (db : Db) (limit : Limit) (strand : Option Str) (ft : Ft) (ob : OrderBy) (rev within : Bool)
    (q : SqlQuery) (args : List SqlArg) (mq : Query)
    (h : featuresAst limit strand ft ob rev within = .ok (q, args))
    (hq : toQuery limit strand ft ob rev within = some mq) (hp : Limit.plain limit) :
    eval q args db = .ok (order mq ((indexed db.features).filter (fun p => rowMatches mq p.2))) :=
  eval_features db limit strand ft ob rev within q args mq h hq hp

/-- **`eval` of the statement generated for `all_features` / `features_of_type` returns exactly
`Interface.runQuery`** — the same rows in the same order, for all databases and all arguments on which
`make_query` succeeds (`order_by` names among the ten sort keys of the meaning-level model; coordinates given as
text are plain integer literals) -/
theorem eval_makeQuery_eq_runQuery (s : Session) (limit : Limit) (strand : Option Str) (ft : Ft) (ob : OrderBy)
    (rev within : Bool) (q : SqlQuery) (args : List SqlArg) (mq : Query)
    (h : featuresAst limit strand ft ob rev within = .ok (q, args))
    (hq : toQuery limit strand ft ob rev within = some mq) (hp : Limit.plain limit) :
    (eval q args s.db).map (fun rows => rows.map (·.2)) = .ok (runQuery s mq) := by
  rw [eval_makeQuery_rows s.db limit strand ft ob rev within q args mq h hq hp]
  rfl

/-- **`eval` of the statement `children` / `parents` execute returns exactly `Interface.runRelation`** (level
`None` or any integer; featuretype, limit, order_by, reverse, completely_within) -/
theorem eval_relation_eq_runRelation (s : Session) (r : RelArgs) (q : SqlQuery) (args : List SqlArg) (mq : Query)
    (h : relationAst r = .ok (q, args))
    (hq : toQuery r.limit none r.featuretype r.orderBy r.reverse r.within = some mq) (hp : Limit.plain r.limit) :
    (eval q args s.db).map (fun rows => rows.map (·.2)) = .ok (runRelation s r.isChildren r.id r.level mq) := by
  rw [eval_relation s.db r q args mq h hq hp]
  rfl

/-- **`eval` of the statement `region` executes returns exactly `Interface.region`**, whenever sqlite accepts the
statement (some position restriction, no empty featuretype collection) -/
theorem eval_region_eq_region (s : Session) (a : RegionArgs) (hx : RegionArgs.executable a) :
    (eval (regionAst a).1 (regionAst a).2 s.db).map (fun rows => rows.map (·.2)) = .ok (region s a) := by
  rw [eval_region s.db a hx]
  simp only [Except.map, region]
  rw [GffProofs.C11.filter_indexed]

/-- `count_features_of_type` -/
theorem eval_count_eq_countFeatures (s : Session) (ft : Option Str) :
    evalCount ft.isSome (countQuery ft).2 s.db = .ok (countFeatures s ft) := by
  cases ft with
  | none => exact eval_count_all s.db
  | some t => exact eval_count_type s.db t

/-- `featuretypes()` / `seqids()`: the same values in the same order -/
theorem eval_featuretypes (s : Session) :
    evalDistinctCol .featuretype s.db = .ok ((featuretypes s).map SqlVal.text) :=
  eval_distinctCol_text s.db .featuretype (·.ftype) (fun _ _ => rfl)

theorem eval_seqids (s : Session) :
    evalDistinctCol .seqid s.db = .ok ((seqids s).map SqlVal.text) :=
  eval_distinctCol_text s.db .seqid (·.seqid) (fun _ _ => rfl)

/-- the domain of section 3 is what `make_query` accepts: whenever the statement is generated and the `order_by`
names are sort keys of the meaning-level model, the meaning-level query exists -/
theorem toQuery_defined (limit : Limit) (strand : Option Str) (ft : Ft) (ob : OrderBy) (rev within : Bool)
    (q : SqlQuery) (args : List SqlArg) (h : featuresAst limit strand ft ob rev within = .ok (q, args))
    (hk : (orderKeysOf ob).isSome = true) : (toQuery limit strand ft ob rev within).isSome = true := by
  unfold featuresAst makeQueryAst at h
  cases hm : makeSelect { limit := limit, strand := strand, featuretype := ft, orderBy := ob, reverse := rev, within := within } with
  | error e => rw [hm] at h; cases h
  | ok p =>
    obtain ⟨lc, la, o, hl, _⟩ := makeSelect_ok _ p.1 p.2 hm
    simp only at hl
    unfold toQuery
    have hlim : (limitOf limit).isSome = true := by
      unfold limitConds at hl
      unfold limitOf
      simp only [Bind.bind, Except.bind, pure, Except.pure] at hl
      cases hp : limitParts limit with
      | error e => rw [hp] at hl; cases hl
      | ok parts =>
        rw [hp] at hl
        cases parts with
        | none => rfl
        | some t =>
          obtain ⟨sq, a, b⟩ := t
          simp only at hl ⊢
          cases a <;> cases b <;> simp only [pyInt, intOf] at hl ⊢
          · rfl
          · rename_i i t2
            cases h2 : Str.parseInt? t2 with
            | none => rw [h2] at hl; cases hl
            | some _ => rfl
          · rename_i t1 i
            cases h1 : Str.parseInt? t1 with
            | none => rw [h1] at hl; cases hl
            | some _ => rfl
          · rename_i t1 t2
            cases h1 : Str.parseInt? t1 with
            | none => rw [h1] at hl; cases hl
            | some _ =>
              cases h2 : Str.parseInt? t2 with
              | none => rw [h1, h2] at hl; cases hl
              | some _ => rfl
    cases hL : limitOf limit with
    | none => rw [hL] at hlim; cases hlim
    | some L =>
      cases hK : orderKeysOf ob with
      | none => rw [hK] at hk; cases hk
      | some ks => rfl


/-! ## 4. where the text computes something else than the meaning — the hypotheses cannot be dropped -/

deriving instance DecidableEq for Except
deriving instance DecidableEq for Query

private def mkRow (id seqid ftype : String) (start stop : Option Int) (strand : String) (bin : Option Int) : Row :=
  { id := id.toList, seqid := seqid.toList, source := ['.'], ftype := ftype.toList, start := start, stop := stop,
    score := ['.'], strand := strand.toList, frame := ['.'], attrs := [], extra := [], bin := bin }

private def r1 := mkRow "g1" "chr1" "gene" (some 100) (some 500) "+" (some 4681)
private def r2 := mkRow "e1" "chr1" "exon" none (some 200) "-" none
private def r3 := mkRow "e2" "chr1" "exon" (some 100) (some 150) "+" (some 4681)
private def r4 := mkRow "g2" "chr2" "gene" (some 50) (some 80) "-" (some 4681)

private def db0 : Db :=
  { features := [r1, r2, r3, r4],
    relations := [⟨"g1".toList, "e1".toList, 1⟩, ⟨"g1".toList, "e2".toList, 1⟩, ⟨"g1".toList, "e2".toList, 2⟩,
                  ⟨"g2".toList, "e2".toList, 1⟩] }

private def sess0 : Session := { db := db0, auto := [], dialect := Dialect.default, directives := [] }

/-- generate a statement, then evaluate it -/
def evalOf (r : Py (SqlQuery × List SqlArg)) (db : Db) : Py (List (Nat × Row)) :=
  match r with
  | .ok (q, args) => eval q args db
  | .error e => .error e

/-- (a) `OrderBy.noQ`: a bare-string `order_by` is not validated; `order_by="?"` yields a text with one `?` and no
argument (sqlite3 then raises ProgrammingError) -/
example : (makeQuery { orderBy := .str ['?'] }).map (fun p => (qcount p.1, p.2)) = .ok (1, []) := by decide +kernel

/-- (b) `Limit.plain`: Python's `int()` reads `'1_0'` as 10 and `'6_00'` as 600 — the meaning-level query (and the
bin list) is about 10..600 — but sqlite compares the TEXT `'6_00'`, `'1_0'` with the INTEGER columns: every integer
is smaller than every text, so `end >= '1_0'` is never true and the statement returns nothing.
Replayed on the real code: `db.all_features(limit=("chr1", "1_0", "6_00"))` returns `[]` where
`limit=("chr1", 10, 600)` returns the overlapping features. -/
example :
    toQuery (.tuple [.text "chr1".toList, .text "1_0".toList, .text "6_00".toList]) none .none .none false false =
      some { limit := some ("chr1".toList, 10, 600) } ∧
    evalOf (featuresAst (.tuple [.text "chr1".toList, .text "1_0".toList, .text "6_00".toList]) none .none .none false false) db0
      = .ok [] ∧
    runQuery sess0 { limit := some ("chr1".toList, 10, 600) } = [r1, r3] := by
  refine ⟨by decide +kernel, by decide +kernel, by decide +kernel⟩

/-- (c) `RegionArgs.executable`: `region()` without seqid / start / end executes `… WHERE   ` — sqlite rejects it
(the real code raises `OperationalError: incomplete input`; with only a featuretype or strand, a syntax error),
whereas the meaning-level `Interface.region` answers with every feature.  This is a gap of `Interface.region`
(its docstring row "None None None = all_features()" is not what the code does); likewise `featuretype=[]`. -/
example : evalOf (.ok (regionAst {})) db0 = .error .operational ∧ region sess0 {} = [r1, r2, r3, r4] := by
  refine ⟨by decide +kernel, by decide +kernel⟩
example : evalOf (.ok (regionAst { seqid := some "chr1".toList, featuretype := some [] })) db0 = .error .operational ∧
    region sess0 { seqid := some "chr1".toList, featuretype := some [] } = [] := by
  refine ⟨by decide +kernel, by decide +kernel⟩

/-- (d) a wrong number of arguments is an error of `eval` (what makes lock-step meaningful) -/
example :
    evalOf ((featuresAst .none none (.str "exon".toList) .none false false).map (fun p => (p.1, p.2 ++ [.int 1]))) db0
      = .error .other ∧
    evalOf ((featuresAst .none none (.str "exon".toList) .none false false).map (fun p => (p.1, []))) db0
      = .error .other := by
  refine ⟨by decide +kernel, by decide +kernel⟩

/-! ## non-vacuity -/

private theorem plain_tuple_ints (sq : SqlArg) (a b : Int) : Limit.plain (.tuple [sq, .int a, .int b]) := by
  intro seqid start stop h
  simp only [limitParts, Except.ok.injEq, Option.some.injEq, Prod.mk.injEq] at h
  obtain ⟨_, rfl, rfl⟩ := h
  exact ⟨trivial, trivial⟩

private theorem plain_none : Limit.plain .none := by
  intro a b c h; simp [limitParts] at h

-- lock-step: arguments, `?` count and binding of a query with every clause
example :
    (makeQuery { featuretype := .coll ["exon".toList, "gene".toList], strand := some ['+'],
                 limit := .str "chr1:90-600".toList, orderBy := .tuple ["seqid".toList, "length".toList],
                 reverse := true }).map (fun p => (qcount p.1, p.2)) =
      .ok (6, [.text "exon".toList, .text "gene".toList, .text "chr1".toList, .text "600".toList, .text "90".toList,
               .text ['+']]) := by decide +kernel

example :
    (spec { featuretype := .coll ["exon".toList, "gene".toList], strand := some ['+'],
            limit := .str "chr1:90-600".toList }).conds =
      [.isIn (.feat true .featuretype) [.text "exon".toList, .text "gene".toList],
       .eq (.feat true .seqid) (.text "chr1".toList), .cmp (.feat true .start) .le (.text "600".toList),
       .cmp (.feat true .stop) .ge (.text "90".toList), .inLits (.feat true .bin) [1, 4681, 9, 585, 73],
       .eq (.feat true .strand) (.text ['+'])] := by decide +kernel

-- all_features(featuretype=["exon","gene"], strand="+", limit="chr1:90-600") on db0 (no ORDER BY: `eval` runs in the kernel)
example :
    evalOf (featuresAst (.str "chr1:90-600".toList) (some ['+']) (.coll ["exon".toList, "gene".toList]) .none false false) db0
      = .ok [(1, r1), (3, r3)] ∧
    runQuery sess0 { featuretype := ["exon".toList, "gene".toList], strand := some ['+'],
                     limit := some ("chr1".toList, 90, 600) } = [r1, r3] := by
  refine ⟨by decide +kernel, by decide +kernel⟩

-- the theorem applied with ORDER BY (mergeSort does not reduce in the kernel; the theorem does the work)
example :
    (featuresAst (.tuple [.text "chr1".toList, .int 90, .int 600]) none (.str "exon".toList)
        (.tuple ["start".toList, "length".toList]) true false).isOk = true ∧
    ∀ q args, featuresAst (.tuple [.text "chr1".toList, .int 90, .int 600]) none (.str "exon".toList)
        (.tuple ["start".toList, "length".toList]) true false = .ok (q, args) →
      (eval q args sess0.db).map (fun rows => rows.map (·.2)) =
        .ok (runQuery sess0 { featuretype := ["exon".toList], limit := some ("chr1".toList, 90, 600),
                              orderBy := [.start, .length], reverse := true }) := by
  refine ⟨by decide +kernel, fun q args h => ?_⟩
  exact eval_makeQuery_eq_runQuery sess0 _ _ _ _ _ _ q args _ h (by decide +kernel) (plain_tuple_ints _ _ _)

-- a limit given as text: plain integer literals satisfy `Limit.plain`
example : Limit.plain (.str "chr1:90-600".toList) := by
  intro a b c h
  have : limitParts (.str "chr1:90-600".toList) = .ok (some (.text "chr1".toList, .text "90".toList, .text "600".toList)) := by
    decide +kernel
  rw [this] at h
  simp only [Except.ok.injEq, Option.some.injEq, Prod.mk.injEq] at h
  obtain ⟨_, rfl, rfl⟩ := h
  exact ⟨show sqliteInt? "90".toList = Str.parseInt? "90".toList by decide +kernel,
    show sqliteInt? "600".toList = Str.parseInt? "600".toList by decide +kernel⟩

-- children("g1"), children("g1", level=2, featuretype="exon"), parents("e2"): DISTINCT removes the double link g1-e2
example :
    evalOf (relationAst { isChildren := true, id := "g1".toList }) db0 = .ok [(2, r2), (3, r3)] ∧
    runRelation sess0 true "g1".toList none {} = [r2, r3] := by
  refine ⟨by decide +kernel, by decide +kernel⟩
example :
    (relationAst { isChildren := true, id := "g1".toList, level := some 2, featuretype := .str "exon".toList }).map (·.2)
      = .ok [.text "g1".toList, .int 2, .text "exon".toList] ∧
    evalOf (relationAst { isChildren := true, id := "g1".toList, level := some 2, featuretype := .str "exon".toList }) db0
      = .ok [(3, r3)] := by
  refine ⟨by decide +kernel, by decide +kernel⟩
example :
    evalOf (relationAst { isChildren := false, id := "e2".toList }) db0 = .ok [(1, r1), (4, r4)] ∧
    runRelation sess0 false "e2".toList none {} = [r1, r4] := by
  refine ⟨by decide +kernel, by decide +kernel⟩
example :
    (relationAst { isChildren := true, id := "g1".toList, orderBy := .str "end".toList, reverse := true }).isOk = true ∧
    ∀ q args, relationAst { isChildren := true, id := "g1".toList, orderBy := .str "end".toList, reverse := true }
        = .ok (q, args) →
      (eval q args sess0.db).map (fun rows => rows.map (·.2)) =
        .ok (runRelation sess0 true "g1".toList none { orderBy := [.stop], reverse := true }) := by
  refine ⟨by decide +kernel, fun q args h => ?_⟩
  exact eval_relation_eq_runRelation sess0 _ q args _ h (by decide +kernel) plain_none

-- region(seqid="chr1", start=120, end=300), overlap and completely_within (with the bin clause)
example : RegionArgs.executable { seqid := some "chr1".toList, start := some 120, stop := some 300 } ∧
    evalOf (.ok (regionAst { seqid := some "chr1".toList, start := some 120, stop := some 300 })) db0 =
      .ok [(1, r1), (3, r3)] := by
  refine ⟨⟨Or.inl (by simp), by simp⟩, by decide +kernel⟩
private def regW : RegionArgs :=
  { seqid := some "chr1".toList, start := some 90, stop := some 300, within := true,
    featuretype := some ["exon".toList], strand := some ['+'] }
example :
    (regionAst regW).2 =
      [.text "chr1".toList, .int 90, .int 300, .int 1, .int 4681, .int 9, .int 585, .int 73, .text "exon".toList,
       .text ['+']] ∧
    evalOf (.ok (regionAst regW)) db0 = .ok [(3, r3)] := by
  refine ⟨by decide +kernel, by decide +kernel⟩

-- counts and distinct lists
example : evalCount true [.text "exon".toList] db0 = .ok 2 ∧ evalCount false [] db0 = .ok 4 ∧
    evalDistinctCol .seqid db0 = .ok [.text "chr1".toList, .text "chr2".toList] := by
  refine ⟨by decide +kernel, by decide +kernel, by decide +kernel⟩

end GffProofs.C11Sql
