/-
  C12 (part b) — the bin a Feature carries and the bin the database stores.

  `Feature.__init__` computes `self.bin = self.calc_bin()`; `Feature.astuple()` (the row written to the
  `features` table) calls `calc_bin()` again, so the stored bin always follows the CURRENT coordinates,
  whatever `feature.bin` holds.  `calc_bin` is `bins.bins(start, end, one=True)`, the single-bin form
  whose soundness is C12 (`GffProofs/Props/C12.lean`).
-/
import GffModel.Db
import GffProofs.Props.C12

namespace GffProofs.C12
open GffModel GffModel.Bins

/-! ### `calc_bin` -/

/-- with both coordinates present `calc_bin` is the single-bin form of `bins` in GFF convention … -/
theorem calcBin_some_some (s e : Int) : Feature.calcBin (some s) (some e) = some (binOne s e .gff) := rfl

/-- … which is an integer, never the fall-through `set` -/
theorem calcBin_some_some_isInt (s e : Int) : ∃ b, Feature.calcBin (some s) (some e) = some (.int b) := by
  obtain ⟨b, hb⟩ := binOne_isInt s e .gff
  exact ⟨b, by rw [calcBin_some_some, hb]⟩

theorem calcBin_some_none (s : Int) :
    Feature.calcBin (some s) none = if 2 ^ 29 ≤ s then some (.int 1) else none := by
  have hm : maxChrom = 2 ^ 29 := by decide
  by_cases h : s ≥ maxChrom
  · have h' : (2 : Int) ^ 29 ≤ s := by rw [← hm]; exact h
    simp [Feature.calcBin, h]; omega
  · have h' : ¬ (2 : Int) ^ 29 ≤ s := by rw [← hm]; exact h
    simp [Feature.calcBin, h]; omega

/-- **`calc_bin` never yields a `set`** (so sqlite can always bind it) -/
theorem calcBin_isInt (start stop : Option Int) (r : BinResult) (h : Feature.calcBin start stop = some r) :
    ∃ b, r = .int b := by
  cases start with
  | none => simp [Feature.calcBin] at h
  | some s =>
    cases stop with
    | some e =>
      obtain ⟨b, hb⟩ := calcBin_some_some_isInt s e
      rw [hb] at h; injection h with h; exact ⟨b, h.symm⟩
    | none =>
      rw [calcBin_some_none] at h
      split at h
      · injection h with h; exact ⟨1, h.symm⟩
      · cases h

/-- **`calc_bin` is `None` exactly when `start` is `None`, or `end` is `None` and `start < 2^29`**
(Python evaluates `start >= MAX or end >= MAX` left to right: a `start` at or beyond the limit answers
bin 1 before `end` is looked at; otherwise the comparison with `None` is the swallowed `TypeError`). -/
theorem calcBin_eq_none_iff (start stop : Option Int) :
    Feature.calcBin start stop = none ↔
      start = none ∨ (stop = none ∧ ∃ s, start = some s ∧ s < 2 ^ 29) := by
  cases start with
  | none => simp [Feature.calcBin]
  | some s =>
    cases stop with
    | some e => simp [Feature.calcBin]
    | none =>
      rw [calcBin_some_none]
      by_cases h : (2 : Int) ^ 29 ≤ s
      · rw [if_pos h]
        constructor
        · intro h'; cases h'
        · rintro (h' | ⟨_, s', hs', hlt⟩)
          · cases h'
          · injection hs' with hs'; subst hs'; omega
      · rw [if_neg h]
        exact ⟨fun _ => Or.inr ⟨rfl, s, rfl, by omega⟩, fun _ => rfl⟩

/-- the remaining corner: `end` missing and `start ≥ 2^29` answers the whole-chromosome bin -/
theorem calcBin_start_beyond (s : Int) (h : 2 ^ 29 ≤ s) : Feature.calcBin (some s) none = some (.int 1) := by
  rw [calcBin_some_none, if_pos h]

/-- in-range coordinates: the bin is the smallest bin (level `k`, index `idx k (s-1)`) containing the
1-based closed interval `s … e` plus the following base (C12 `binOne_level`) -/
theorem calcBin_level (s e : Int) (h : InRange s e .gff) :
    ∃ k : Fin 5, Feature.calcBin (some s) (some e) = some (.int (lvlOff k + idx k (s - 1)))
      ∧ idx k (s - 1) = idx k e ∧ ∀ j : Fin 5, j < k → idx j (s - 1) ≠ idx j e := by
  obtain ⟨k, hk, h2, h3⟩ := binOne_level s e .gff h
  exact ⟨k, by rw [calcBin_some_some, hk]; rfl, h2, h3⟩

/-! ### every constructed Feature carries the bin of its coordinates -/

theorem bind_ok {α β : Type} (x : Py α) (g : α → Py β) (b : β) (h : (x >>= g) = .ok b) :
    ∃ a, x = .ok a ∧ g a = .ok b := by
  cases x with
  | error e => cases h
  | ok a => exact ⟨a, rfl, h⟩

/-- `Feature(...)`: whenever the constructor succeeds, `bin = calc_bin()` of the parsed coordinates -/
theorem mk'_bin (cols : List Str) (attrs : Attrs) (extra : List Str) (d : Dialect) (ko : Bool)
    (f : Feature) (h : Feature.mk' cols attrs extra d ko = .ok f) :
    f.bin = Feature.calcBin f.start f.stop := by
  unfold Feature.mk' at h
  simp only [bind, Except.bind, pure, Except.pure] at h
  split at h
  · cases h
  · split at h
    · cases h
    · injection h with h; subst h; rfl

/-- **`feature_bin`**: every Feature built by `feature_from_line` (any line, supplied or inferred
dialect, strict or not, any `keep_order`) has `bin = calc_bin(start, end)` -/
theorem feature_bin (line : Str) (d : Option Dialect) (strict ko ie : Bool) (f : Feature)
    (h : featureFromLine line d strict ko ie = .ok f) : f.bin = Feature.calcBin f.start f.stop := by
  unfold featureFromLine at h
  dsimp only at h
  repeat' split at h
  all_goals
    obtain ⟨fields, hf, h⟩ := bind_ok _ _ _ h
    first
    | (obtain ⟨p, _, h⟩ := bind_ok _ _ _ h
       exact mk'_bin _ _ _ _ _ f h)
    | cases hf

/-- consequently it is `None` or an integer -/
theorem feature_bin_isInt (line : Str) (d : Option Dialect) (strict ko ie : Bool) (f : Feature)
    (h : featureFromLine line d strict ko ie = .ok f) : f.bin = none ∨ ∃ b, f.bin = some (.int b) := by
  rw [feature_bin line d strict ko ie f h]
  cases hc : Feature.calcBin f.start f.stop with
  | none => exact Or.inl rfl
  | some r => obtain ⟨b, hb⟩ := calcBin_isInt _ _ r hc; exact Or.inr ⟨b, by rw [hb]⟩

/-! ### the stored bin follows the coordinates -/

/-- **`Row.ofFeature` (`Feature.astuple()`) succeeds for every Feature with an id and stores
`calc_bin` of the CURRENT coordinates** — `f.bin` is not read.  (`BinResult.int` is injective, so the
equation pins `r.bin`.) -/
theorem row_bin (f : Feature) (id : Str) (hid : f.id = some id) :
    ∃ r, Row.ofFeature f = .ok r ∧ r.id = id ∧ r.start = f.start ∧ r.stop = f.stop ∧
      r.bin.map BinResult.int = Feature.calcBin f.start f.stop := by
  unfold Row.ofFeature
  rw [hid]
  cases hc : Feature.calcBin f.start f.stop with
  | none => exact ⟨_, rfl, rfl, rfl, rfl, rfl⟩
  | some r =>
    obtain ⟨b, rfl⟩ := calcBin_isInt _ _ r hc
    exact ⟨_, rfl, rfl, rfl, rfl, rfl⟩

/-- the row does not depend on the `bin` field at all -/
theorem row_ignores_bin (f : Feature) (b : Option BinResult) :
    Row.ofFeature { f with bin := b } = Row.ofFeature f := rfl

/-- after the coordinates are changed (`feature.start = s'; feature.end = e'`) — with `f.bin` left
stale — the stored bin is the bin of the NEW coordinates -/
theorem row_bin_follows_coords (f : Feature) (id : Str) (hid : f.id = some id) (s' e' : Option Int) :
    ∃ r, Row.ofFeature { f with start := s', stop := e' } = .ok r ∧ r.start = s' ∧ r.stop = e' ∧
      r.bin.map BinResult.int = Feature.calcBin s' e' := by
  obtain ⟨r, h1, _, h3, h4, h5⟩ := row_bin { f with start := s', stop := e' } id hid
  exact ⟨r, h1, h3, h4, h5⟩

/-- both coordinates present: the stored bin is the integer of `binOne` -/
theorem row_bin_some (f : Feature) (id : Str) (hid : f.id = some id) (s e : Int)
    (hs : f.start = some s) (he : f.stop = some e) :
    ∃ r b, Row.ofFeature f = .ok r ∧ binOne s e .gff = .int b ∧ r.bin = some b := by
  obtain ⟨r, h1, _, _, _, h5⟩ := row_bin f id hid
  obtain ⟨b, hb⟩ := binOne_isInt s e .gff
  refine ⟨r, b, h1, hb, ?_⟩
  rw [hs, he, calcBin_some_some, hb] at h5
  cases hr : r.bin with
  | none => rw [hr] at h5; cases h5
  | some x => rw [hr] at h5; simp only [Option.map_some, Option.some.injEq, BinResult.int.injEq] at h5; rw [h5]

/-! ### Non-vacuity -/

section NonVacuity

def exLine : Str := "chr1\t.\tgene\t1000\t2000\t.\t+\t.\tID=g1".toList

/-- a parsed Feature whose `bin` went stale: coordinates moved by 10 Mb, `bin` still 4681 -/
def exMoved : Feature :=
  { seqid := "chr1".toList, ftype := "gene".toList, start := some 10001000, stop := some 10002000,
    bin := some (.int 4681), id := some "g1".toList }

example : (featureFromLine exLine none true false).toOption.map (fun f => (f.start, f.stop, f.bin))
    = some (some 1000, some 2000, some (.int 4681)) := by decide +kernel
example : ∀ f, featureFromLine exLine none true false = .ok f → f.bin = Feature.calcBin f.start f.stop :=
  fun f h => feature_bin _ _ _ _ _ f h
example : Feature.calcBin (some 1000) (some 2000) = some (.int 4681) := by decide +kernel
example : Feature.calcBin (some 1000) none = none := (calcBin_eq_none_iff _ _).mpr (Or.inr ⟨rfl, 1000, rfl, by decide⟩)
example : Feature.calcBin (some 536870912) none = some (.int 1) := calcBin_start_beyond _ (by decide)
example : Feature.calcBin none (some 5) = none := (calcBin_eq_none_iff _ _).mpr (Or.inl rfl)
example : InRange 1000 2000 .gff := by unfold InRange; decide
/-- the stored bin is that of the moved coordinates (4757), not the stale 4681 -/
example : (Row.ofFeature exMoved).toOption.map (·.bin) = some (some 4757) := by decide +kernel
example : ∃ r, Row.ofFeature exMoved = .ok r ∧ r.id = "g1".toList ∧ r.start = some 10001000 ∧ r.stop = some 10002000 ∧
    r.bin.map BinResult.int = Feature.calcBin (some 10001000) (some 10002000) := row_bin exMoved _ rfl

end NonVacuity

end GffProofs.C12
