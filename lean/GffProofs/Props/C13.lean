/-
  C13 — All input forms are equivalent and dialect peeking never consumes data.

  Model: `GffModel.Iter` (`featPeek`, `filePeek`, `fileDialect`, `featDialect`, `applyTransform`, `runFile`,
  `runFeatures`) and `GffModel.IterMore` (`Input` = the seven input forms, `Input.run`, `applyTransformLog`,
  `inspectFeatures`).

  * `peek_preserves`, `peek_items`, `file_peek_window` — the look-ahead;
  * `iterate_eq` — every form, every `checklines`, with and without transform, iterates to the
    specification `Input.spec`: the data, the chosen dialect set on each item, the transform `filterMap`ped;
  * `forms_equivalent` — all text forms of some lines and all feature forms of the features parsed from
    those lines yield the *same* `(dialect, features)`, under the explicit hypothesis `SameMapping`;
  * `transform_once` — output = `filterMap` of the transform over the data, the transform's argument log
    is the data (each item once, in order), exactly the falsy results are dropped;
  * `inspect_counts` — the counters of `inspect` are the multiset counts over the items looked at.
-/
import GffModel.IterMore
import GffProofs.Lemmas.IterAux

namespace GffProofs.C13
open GffModel GffModel.Iter GffProofs.IterAux

/-! ### peeking -/

/-- **peek_preserves**: after the look-ahead a one-shot source (re-chained) still delivers exactly the
original items, in order — nothing dropped, duplicated or reordered; for every `n`, also `0` and
`n ≥ length`. -/
theorem peek_preserves (src : List Feature) (n : Nat) : (featPeek src n).2 = src :=
  List.take_append_drop (n + 1) src

/-- the peeked items are the first `min (n+1) len` items -/
theorem peek_items (src : List Feature) (n : Nat) :
    (featPeek src n).1 = src.take (n + 1) ∧ (featPeek src n).1.length = min (n + 1) src.length :=
  ⟨rfl, List.length_take⟩

/-- what the harness counts on an instrumented generator right after construction -/
theorem pulled_by_peek (src : List Feature) (cl : Nat) : pulledByPeek src cl = min (cl + 1) src.length :=
  (peek_items src cl).2

/-- the file look-ahead inspects the first `min (n+1) len` feature lines (and consumes nothing: the file
is re-opened — `runFile` reads the same `lines` again) -/
theorem file_peek_window (lines : List Str) (n : Nat) (fs : List Feature) (h : filePeek lines n = .ok fs) :
    fs.length = min (n + 1) (featureLines lines).length := by
  unfold filePeek at h
  rw [mapM_length _ _ _ h, List.length_take]

/-! ### iteration of every form -/

/-- the dialect an iterator over feature data ends up with -/
def featChosen (src : List Feature) (cfg : Config) : Dialect :=
  match cfg.supplied with
  | some d => d
  | none => Helpers.chooseDialect ((src.take (cfg.checklines + 1)).map view)

/-- the dialect an iterator over text ends up with -/
def fileChosen (lines : List Str) (cfg : Config) : Py Dialect :=
  match cfg.supplied with
  | some d => .ok d
  | none => fileDialect lines cfg.checklines

/-- the property's description of an iteration: every item of the data, in order, with the chosen
dialect set; with a transform, its results, falsy ones left out -/
def specIterate (d : Dialect) (tr : Option (Feature → Option Feature)) (data : List Feature) : List Feature :=
  match tr with
  | none => data.map (withDialect d)
  | some t => (data.map (withDialect d)).filterMap t

/-- specification of `(iterator.dialect, list(iterator))` per input form -/
def spec (cfg : Config) : Input → Py (Dialect × List Feature)
  | .path ls | .gzPath ls | .string ls =>
    match fileChosen ls cfg with
    | .error e => .error e
    | .ok d =>
      match (featureLines ls).mapM (fun l => featureFromLine l (some d) true false) with
      | .error e => .error e
      | .ok data => .ok (d, specIterate d cfg.transform data)
  | .list fs | .generator fs | .featureDB fs => .ok (featChosen fs cfg, specIterate (featChosen fs cfg) cfg.transform fs)
  | .dataIterator inner => spec cfg inner

theorem applyTransform_eq_spec (d : Dialect) (tr : Option (Feature → Option Feature)) (fs : List Feature) :
    applyTransform d tr fs = specIterate d tr fs := by
  cases tr with
  | none => exact applyTransform_none d fs
  | some t =>
    rw [applyTransform_some]
    unfold specIterate
    simp only [List.filterMap_map]
    rfl

theorem runFile_eq_spec (ls : List Str) (cfg : Config) :
    (runFile ls cfg.checklines cfg.supplied cfg.transform).map (fun r => (r.1, r.2.1)) = spec cfg (.path ls) := by
  unfold spec fileChosen runFile fileIterate
  cases hs : cfg.supplied with
  | some d =>
    simp only [bind, Except.bind, pure, Except.pure]
    cases hm : (featureLines ls).mapM (fun l => featureFromLine l (some d) true false) with
    | error e => simp [Except.map]
    | ok data => simp [Except.map, applyTransform_eq_spec]
  | none =>
    simp only [bind, Except.bind, pure, Except.pure]
    cases hd : fileDialect ls cfg.checklines with
    | error e => simp [Except.map]
    | ok d =>
      simp only
      cases hm : (featureLines ls).mapM (fun l => featureFromLine l (some d) true false) with
      | error e => simp [Except.map]
      | ok data => simp [Except.map, applyTransform_eq_spec]

/-- **iterate_eq**: for every input form (path, gzip path, string; list, generator, FeatureDB; an
already built DataIterator over any of them), every `checklines` (no bound: `0` and values beyond the
input included), supplied or inferred dialect, with or without transform, the iterated sequence is the
data with the chosen dialect set on each item (and the transform applied as `specIterate` says). -/
theorem iterate_eq (form : Input) (cfg : Config) : form.run cfg = spec cfg form := by
  induction form with
  | path ls => exact runFile_eq_spec ls cfg
  | gzPath ls => exact runFile_eq_spec ls cfg
  | string ls => exact runFile_eq_spec ls cfg
  | list fs =>
    simp only [Input.run, runList, spec, featChosen, pure, Except.pure, applyTransform_eq_spec]
    rfl
  | generator fs =>
    simp only [Input.run, runFeatures, spec, featChosen, featDialect, pure, Except.pure,
      applyTransform_eq_spec]
    cases cfg.supplied with
    | some d => rfl
    | none => simp only [peek_preserves]; rfl
  | featureDB fs =>
    simp only [Input.run, runFeatures, spec, featChosen, featDialect, pure, Except.pure,
      applyTransform_eq_spec]
    cases cfg.supplied with
    | some d => rfl
    | none => simp only [peek_preserves]; rfl
  | dataIterator inner ih => simpa [Input.run, spec] using ih

/-- without a transform nothing is dropped or added: as many items as the data has -/
theorem iterate_length_features (fs : List Feature) (cfg : Config) (h : cfg.transform = none)
    (form : Input) (hform : form = .list fs ∨ form = .generator fs ∨ form = .featureDB fs) :
    ∃ d out, form.run cfg = .ok (d, out) ∧ out = fs.map (withDialect d) ∧ out.length = fs.length := by
  refine ⟨featChosen fs cfg, fs.map (withDialect (featChosen fs cfg)), ?_, rfl, List.length_map _⟩
  rw [iterate_eq]
  rcases hform with rfl | rfl | rfl <;> simp [spec, specIterate, h]

/-! ### all forms of one annotation agree -/

/-- the attribute column of a line, as `feature_from_line(strict=True)` cuts it out -/
def attrField (l : Str) : Str := ((Str.splitChar '\t' (Str.rstripChars ['\n', '\r'] l))[8]?).getD []

/-- **the explicit hypothesis of `forms_equivalent`**: the line's attribute column parses to the same
mapping with the inferring parser (how the elements of a feature list were made, and how the peek reads)
and with dialect `d` supplied (how a file iterator reads after the vote). -/
def SameMapping (d : Dialect) (l : Str) : Prop :=
  ∀ a dl, Parser.splitKeyvals (attrField l) none = .ok (a, dl) →
    ∃ d2, Parser.splitKeyvals (attrField l) (some d) = .ok (a, d2)

theorem mk'_dialect_irrelevant (cols : List Str) (a : Attrs) (extra : List Str) (d1 d2 d : Dialect) (k : Bool)
    (f : Feature) (h : Feature.mk' cols a extra d1 k = .ok f) :
    ∃ g, Feature.mk' cols a extra d2 k = .ok g ∧ withDialect d g = withDialect d f := by
  unfold Feature.mk' at h ⊢
  simp only [bind, Except.bind, pure, Except.pure] at h ⊢
  cases h3 : Feature.parseCoord ((cols[3]?).getD ['.']) with
  | error e => rw [h3] at h; simp at h
  | ok start =>
    rw [h3] at h
    simp only at h ⊢
    cases h4 : Feature.parseCoord ((cols[4]?).getD ['.']) with
    | error e => rw [h4] at h; simp at h
    | ok stop =>
      rw [h4] at h
      simp only [Except.ok.injEq] at h ⊢
      exact ⟨_, rfl, by rw [← h]; rfl⟩

theorem featureFromLine_same (l : Str) (d : Dialect) (f : Feature)
    (hf : featureFromLine l none true false = .ok f) (hs : SameMapping d l) :
    ∃ g, featureFromLine l (some d) true false = .ok g ∧ withDialect d g = withDialect d f := by
  unfold featureFromLine at hf ⊢
  simp only [if_true, bind, Except.bind, pure, Except.pure] at hf ⊢
  cases hk : Parser.splitKeyvals
      (((Str.splitChar '\t' (Str.rstripChars ['\n', '\r'] l))[8]?).getD []) none false with
  | error e => rw [hk] at hf; simp at hf
  | ok r =>
    obtain ⟨a, dl⟩ := r
    rw [hk] at hf
    obtain ⟨d2, h2⟩ := hs a dl hk
    unfold attrField at h2
    rw [h2]
    simp only [Option.getD_none, Option.getD_some] at hf ⊢
    exact mk'_dialect_irrelevant _ _ _ _ _ d _ f hf

/-- a text form of the lines -/
inductive IsTextOf (lines : List Str) : Input → Prop
  | path : IsTextOf lines (.path lines)
  | gzPath : IsTextOf lines (.gzPath lines)
  | string : IsTextOf lines (.string lines)
  | dataIterator {i : Input} : IsTextOf lines i → IsTextOf lines (.dataIterator i)

/-- a feature form of the features -/
inductive IsFeatOf (src : List Feature) : Input → Prop
  | list : IsFeatOf src (.list src)
  | generator : IsFeatOf src (.generator src)
  | featureDB : IsFeatOf src (.featureDB src)
  | dataIterator {i : Input} : IsFeatOf src i → IsFeatOf src (.dataIterator i)

theorem spec_feat (src : List Feature) (cfg : Config) (i : Input) (h : IsFeatOf src i) :
    spec cfg i = .ok (featChosen src cfg, specIterate (featChosen src cfg) cfg.transform src) := by
  induction h with
  | list => rfl
  | generator => rfl
  | featureDB => rfl
  | dataIterator _ ih => simpa [spec] using ih

theorem spec_text (lines : List Str) (cfg : Config) (i : Input) (h : IsTextOf lines i) :
    spec cfg i = spec cfg (.path lines) := by
  induction h with
  | path => rfl
  | gzPath => rfl
  | string => rfl
  | dataIterator _ ih => simpa [spec] using ih

theorem specIterate_congr (d : Dialect) (tr : Option (Feature → Option Feature)) (xs ys : List Feature)
    (h : xs.map (withDialect d) = ys.map (withDialect d)) : specIterate d tr xs = specIterate d tr ys := by
  unfold specIterate
  cases tr <;> simp only [h]

/-- the file iterator's vote sees the same window as the feature iterator's -/
theorem fileChosen_eq (lines : List Str) (cfg : Config) (src : List Feature)
    (hsrc : (featureLines lines).mapM (fun l => featureFromLine l none true false) = .ok src) :
    fileChosen lines cfg = .ok (featChosen src cfg) := by
  unfold fileChosen featChosen
  cases cfg.supplied with
  | some d => rfl
  | none =>
    simp only
    unfold fileDialect filePeek
    rw [mapM_take _ _ _ _ hsrc]
    rfl

/-- **forms_equivalent**: let `src` be the features parsed (by `feature_from_line`, dialect inferred per
line) from the feature lines of `lines`.  Under the hypothesis that every feature line's attribute column
parses to the same mapping with the inferring parser and with the voted (or supplied) dialect, EVERY text
form of `lines` (path, gzip path, string, a DataIterator over one of them) and EVERY feature form of
`src` (list, one-shot generator, FeatureDB stream, a DataIterator over one of them) give the same result
under the same configuration (any `checklines`, supplied dialect or not, any transform):
* the same dialect — `featChosen src cfg`, the vote over the first `checklines+1` items, and
* the same feature sequence — same order, same columns, attributes, extra fields, bin, everything. -/
theorem forms_equivalent (lines : List Str) (cfg : Config) (src : List Feature)
    (hsrc : (featureLines lines).mapM (fun l => featureFromLine l none true false) = .ok src)
    (hsame : ∀ l ∈ featureLines lines, SameMapping (featChosen src cfg) l)
    (textForm featForm : Input) (ht : IsTextOf lines textForm) (hf : IsFeatOf src featForm) :
    textForm.run cfg = featForm.run cfg ∧
    featForm.run cfg = .ok (featChosen src cfg, specIterate (featChosen src cfg) cfg.transform src) := by
  rw [iterate_eq, iterate_eq, spec_feat src cfg featForm hf, spec_text lines cfg textForm ht]
  refine ⟨?_, rfl⟩
  obtain ⟨ys, hys, hmap⟩ := mapM_congr_map (fun l => featureFromLine l none true false)
    (fun l => featureFromLine l (some (featChosen src cfg)) true false) (withDialect (featChosen src cfg))
    (featureLines lines) src
    (fun l hl f hfl => featureFromLine_same l _ f hfl (hsame l hl)) hsrc
  simp only [spec, fileChosen_eq lines cfg src hsrc, hys]
  rw [specIterate_congr _ _ _ _ hmap]

/-! ### the transform -/

theorem log_fst (d : Dialect) (t : Feature → Option Feature) (fs : List Feature) :
    (applyTransformLog d t fs).1 = (fs.map (withDialect d)).filterMap t := by
  induction fs with
  | nil => rfl
  | cons f fs ih =>
    simp only [applyTransformLog, List.map_cons, List.filterMap_cons]
    cases t (withDialect d f) <;> simp [ih]

theorem log_snd (d : Dialect) (t : Feature → Option Feature) (fs : List Feature) :
    (applyTransformLog d t fs).2 = fs.map (withDialect d) := by
  induction fs with
  | nil => rfl
  | cons f fs ih => simp only [applyTransformLog, List.map_cons, ih]

theorem filterMap_length (d : Dialect) (t : Feature → Option Feature) (fs : List Feature) :
    ((fs.map (withDialect d)).filterMap t).length = (fs.filter (fun f => (t (withDialect d f)).isSome)).length := by
  induction fs with
  | nil => rfl
  | cons f fs ih =>
    simp only [List.map_cons, List.filterMap_cons, List.filter_cons]
    cases h : t (withDialect d f) with
    | none => simp only [Option.isSome_none, Bool.false_eq_true, if_false, ih]
    | some g => simp only [Option.isSome_some, if_true, List.length_cons, ih]

/-- **transform_once**: with a transform `t`
1. the output is `filterMap t` over the data (dialect set), in order;
2. the instrumented iteration yields the same output, and
3. its log of the transform's arguments is exactly the data: each item passed once, in order
   (so output = `filterMap t` of the log);
4. an item is yielded iff it is a truthy result of `t` on some item; and
5. exactly the falsy results are dropped: #output = #items with a truthy result. -/
theorem transform_once (d : Dialect) (t : Feature → Option Feature) (fs : List Feature) :
    applyTransform d (some t) fs = (fs.map (withDialect d)).filterMap t ∧
    (applyTransformLog d t fs).1 = applyTransform d (some t) fs ∧
    (applyTransformLog d t fs).2 = fs.map (withDialect d) ∧
    (∀ g, g ∈ applyTransform d (some t) fs ↔ ∃ f ∈ fs, t (withDialect d f) = some g) ∧
    (applyTransform d (some t) fs).length = (fs.filter (fun f => (t (withDialect d f)).isSome)).length := by
  have h1 : applyTransform d (some t) fs = (fs.map (withDialect d)).filterMap t := by
    rw [applyTransform_eq_spec]; rfl
  refine ⟨h1, by rw [log_fst, h1], log_snd d t fs, ?_, ?_⟩
  · intro g
    rw [h1]
    simp only [List.mem_filterMap, List.mem_map]
    constructor
    · rintro ⟨f', ⟨f, hf, rfl⟩, hg⟩; exact ⟨f, hf, hg⟩
    · rintro ⟨f, hf, hg⟩; exact ⟨_, ⟨f, hf, rfl⟩, hg⟩
  · rw [h1]
    exact filterMap_length d t fs

/-- the same, for every input form: the run of a form with transform `t` is `filterMap t` of its run
without transform -/
theorem transform_once_run (form : Input) (cfg : Config) (t : Feature → Option Feature) (d : Dialect)
    (out : List Feature) (h : form.run { cfg with transform := none } = .ok (d, out)) :
    form.run { cfg with transform := some t } = .ok (d, out.filterMap t) := by
  rw [iterate_eq] at h ⊢
  induction form with
  | path ls | gzPath ls | string ls =>
    simp only [spec, fileChosen] at h ⊢
    split at h
    · exact absurd h (by simp)
    · rename_i d' hd
      split at h
      · exact absurd h (by simp)
      · rename_i data hdata
        simp only [Except.ok.injEq, Prod.mk.injEq, specIterate] at h
        obtain ⟨rfl, rfl⟩ := h
        simp [specIterate]
  | list fs | generator fs | featureDB fs =>
    simp only [spec, featChosen, Except.ok.injEq, Prod.mk.injEq, specIterate] at h ⊢
    obtain ⟨rfl, rfl⟩ := h
    exact ⟨rfl, rfl⟩
  | dataIterator inner ih => exact ih h

/-! ### `inspect` -/

/-- the items `inspect` looks at: the first `limit` when `limit` is a positive number, else all -/
def looked (limit : Option Int) (fs : List Feature) : List Feature :=
  match limit with
  | some l => if l > 0 then fs.take l.toNat else fs
  | none => fs

/-- what one feature contributes to the counter of a `look_for` item -/
def obs (k : LookFor) (f : Feature) : List Str :=
  match k with
  | .field a => [a.get f]
  | .attributeKeys => f.attrs.keys
  | .featureCount => []

theorem any_key_iff (c : Counter) (v : Str) : c.any (fun p => p.1 = v) = true ↔ v ∈ c.map (·.1) := by
  simp only [List.any_eq_true, decide_eq_true_eq, List.mem_map]

theorem counter_get_bump (c : Counter) (v u : Str) :
    Counter.get (Counter.bump c v) u = Counter.get c u + (if u = v then 1 else 0) := by
  unfold Counter.get Counter.bump
  cases hany : c.any (fun p => p.1 = v) with
  | true =>
    simp only [if_true]
    rw [lookup_map_modify c v u (· + 1)]
    by_cases hu : u = v
    · subst hu
      obtain ⟨n, hn⟩ := lookup_of_mem_keys c u ((any_key_iff c u).mp hany)
      simp [hn]
    · simp [hu]
  | false =>
    simp only [Bool.false_eq_true, if_false]
    rw [lookup_append_single]
    by_cases hu : u = v
    · subst hu
      have : u ∉ c.map (·.1) := fun h => by rw [(any_key_iff c u).mpr h] at hany; exact absurd hany (by simp)
      simp [lookup_none_of_not_mem_keys c u this]
    · cases List.lookup u c <;> simp [hu]

theorem counter_get_update (c : Counter) (vs : List Str) (u : Str) :
    Counter.get (Counter.update c vs) u = Counter.get c u + vs.count u := by
  unfold Counter.update
  induction vs generalizing c with
  | nil => simp
  | cons v vs ih =>
    simp only [List.foldl_cons, ih, counter_get_bump, List.count_cons]
    by_cases h : u = v
    · subst h; simp; omega
    · have : (v == u) = false := by simpa using fun h' => h h'.symm
      simp [h, this]

/-- count of value `v` under key `k` in the `results` dict -/
def cnt (r : Results) (k : LookFor) (v : Str) : Nat := Counter.get (Results.get r k) v

def keysOf (r : Results) : List LookFor := r.map (·.1)

theorem keys_updateAt (r : Results) (k : LookFor) (vs : List Str) : keysOf (Results.updateAt r k vs) = keysOf r := by
  unfold keysOf Results.updateAt
  induction r with
  | nil => rfl
  | cons p r ih =>
    simp only [List.map_cons, ih]
    split <;> rfl

theorem cnt_updateAt (r : Results) (k k' : LookFor) (vs : List Str) (v : Str) (hk : k ∈ keysOf r) :
    cnt (Results.updateAt r k vs) k' v = cnt r k' v + (if k' = k then vs.count v else 0) := by
  unfold cnt Results.get Results.updateAt
  rw [lookup_map_modify r k k' (fun c => Counter.update c vs)]
  by_cases hkk : k' = k
  · subst hkk
    obtain ⟨c, hc⟩ := lookup_of_mem_keys r k' hk
    simp [hc, counter_get_update]
  · simp [hkk]

/-- multiplicity with which the loop body updates the counter of `k` -/
def mult (oa : List Field) (ak : Bool) (k : LookFor) : Nat :=
  match k with
  | .field a => oa.count a
  | .attributeKeys => if ak then 1 else 0
  | .featureCount => 0

theorem keys_fold_fields (oa : List Field) (f : Feature) (r : Results) :
    keysOf (oa.foldl (fun r a => Results.updateAt r (.field a) [a.get f]) r) = keysOf r := by
  induction oa generalizing r with
  | nil => rfl
  | cons a oa ih => simp only [List.foldl_cons, ih, keys_updateAt]

theorem keys_inspectStep (oa : List Field) (ak : Bool) (r : Results) (f : Feature) :
    keysOf (inspectStep oa ak r f) = keysOf r := by
  unfold inspectStep
  simp only
  split
  · rw [keys_updateAt, keys_fold_fields]
  · rw [keys_fold_fields]

theorem cnt_fold_fields (oa : List Field) (f : Feature) (r : Results) (k : LookFor) (v : Str)
    (hpres : ∀ a ∈ oa, LookFor.field a ∈ keysOf r) :
    cnt (oa.foldl (fun r a => Results.updateAt r (.field a) [a.get f]) r) k v =
      cnt r k v + (match k with | .field a => oa.count a * (obs k f).count v | _ => 0) := by
  induction oa generalizing r with
  | nil => cases k <;> simp
  | cons a oa ih =>
    simp only [List.foldl_cons]
    rw [ih _ (fun b hb => by rw [keys_updateAt]; exact hpres b (by simp [hb])),
      cnt_updateAt _ _ _ _ _ (hpres a (by simp))]
    cases k with
    | field b =>
      simp only [obs, List.count_cons, LookFor.field.injEq]
      by_cases hab : b = a
      · subst hab; simp [Nat.add_mul]; omega
      · have : (a == b) = false := by simpa using fun h => hab h.symm
        simp [hab, this]
    | attributeKeys => simp
    | featureCount => simp

theorem cnt_inspectStep (oa : List Field) (ak : Bool) (r : Results) (f : Feature) (k : LookFor) (v : Str)
    (hpres : ∀ a ∈ oa, LookFor.field a ∈ keysOf r) (hak : ak = true → LookFor.attributeKeys ∈ keysOf r) :
    cnt (inspectStep oa ak r f) k v = cnt r k v + mult oa ak k * (obs k f).count v := by
  unfold inspectStep
  simp only
  cases ak with
  | false =>
    simp only [Bool.false_eq_true, if_false]
    rw [cnt_fold_fields oa f r k v hpres]
    cases k <;> simp [mult]
  | true =>
    simp only [if_true]
    rw [cnt_updateAt _ _ _ _ _ (by rw [keys_fold_fields]; exact hak rfl), cnt_fold_fields oa f r k v hpres]
    cases k <;> simp [mult, obs]

theorem cnt_foldl_step (oa : List Field) (ak : Bool) (fs : List Feature) (r : Results) (k : LookFor) (v : Str)
    (hpres : ∀ a ∈ oa, LookFor.field a ∈ keysOf r) (hak : ak = true → LookFor.attributeKeys ∈ keysOf r) :
    cnt (fs.foldl (inspectStep oa ak) r) k v = cnt r k v + mult oa ak k * (fs.flatMap (obs k)).count v := by
  induction fs generalizing r with
  | nil => simp
  | cons f fs ih =>
    simp only [List.foldl_cons, List.flatMap_cons, List.count_append]
    rw [ih _ (by rw [keys_inspectStep]; exact hpres) (by rw [keys_inspectStep]; exact hak),
      cnt_inspectStep oa ak r f k v hpres hak, Nat.mul_add]
    omega

/-- the loop with its `break` looks at a prefix -/
theorem inspectLoop_eq (oa : List Field) (ak : Bool) (limit : Option Int) (fs : List Feature) (r : Results)
    (n : Nat) :
    ∃ m, m ≤ fs.length ∧ inspectLoop oa ak limit fs r n = ((fs.take m).foldl (inspectStep oa ak) r, n + m) ∧
      (match limit with
       | some l => if l > (n : Int) then m = min (l.toNat - n) fs.length else m = fs.length
       | none => m = fs.length) := by
  induction fs generalizing r n with
  | nil => exact ⟨0, by simp, by simp [inspectLoop], by cases limit <;> simp⟩
  | cons f fs ih =>
    unfold inspectLoop
    simp only
    by_cases hh : limitHit limit (n + 1) = true
    · refine ⟨1, by simp, by simp [hh], ?_⟩
      unfold limitHit at hh
      cases limit with
      | none => simp at hh
      | some l =>
        simp only [Bool.and_eq_true, decide_eq_true_eq, ne_eq] at hh
        have : l > (n : Int) := by omega
        simp only [this, if_true, List.length_cons]
        omega
    · obtain ⟨m, hm, he, hl⟩ := ih (inspectStep oa ak r f) (n + 1)
      refine ⟨m + 1, by simp; omega, ?_, ?_⟩
      · simp only [hh, Bool.false_eq_true, if_false, he, List.take_succ_cons, List.foldl_cons]
        congr 1; omega
      · unfold limitHit at hh
        cases limit with
        | none => simp only at hl ⊢; simp [hl]
        | some l =>
          simp only [Bool.and_eq_true, decide_eq_true_eq, ne_eq, not_and] at hh
          simp only at hl ⊢
          by_cases h1 : l > (n : Int)
          · have hne : l ≠ 0 := by omega
            have hne2 : ¬ ((n : Int) + 1 = l) := by
              intro h'; exact hh hne (by simpa using h')
            have h2 : l > ((n + 1 : Nat) : Int) := by omega
            simp only [h1, h2, if_true, List.length_cons] at hl ⊢
            omega
          · have h2 : ¬ l > ((n + 1 : Nat) : Int) := by omega
            simp only [h1, h2, if_false, List.length_cons] at hl ⊢
            omega

theorem inspectLoop_looked (oa : List Field) (ak : Bool) (limit : Option Int) (fs : List Feature) (r : Results) :
    inspectLoop oa ak limit fs r 0 = ((looked limit fs).foldl (inspectStep oa ak) r, (looked limit fs).length) := by
  obtain ⟨m, hm, he, hl⟩ := inspectLoop_eq oa ak limit fs r 0
  rw [he]
  have : fs.take m = looked limit fs := by
    unfold looked
    cases limit with
    | none => simp only at hl; subst hl; simp
    | some l =>
      simp only at hl ⊢
      by_cases h1 : l > 0
      · simp only [Int.natCast_zero, h1, if_true, Nat.sub_zero] at hl ⊢
        subst hl
        simp [List.take_eq_take_iff]
      · simp only [Int.natCast_zero, h1, if_false] at hl ⊢
        subst hl; simp
  rw [this, Nat.zero_add]
  congr 1
  rw [← this, List.length_take]
  omega

theorem set_all_empty (r : Results) (k : LookFor) (h : ∀ p ∈ r, p.2 = []) : ∀ p ∈ Results.set r k [], p.2 = [] := by
  induction r with
  | nil => simp [Results.set]
  | cons q r ih =>
    obtain ⟨k', c'⟩ := q
    unfold Results.set
    split
    · intro p hp
      rcases List.mem_cons.mp hp with rfl | hp
      · rfl
      · exact h p (by simp [hp])
    · intro p hp
      rcases List.mem_cons.mp hp with rfl | hp
      · exact h _ (by simp)
      · exact ih (fun p hp => h p (by simp [hp])) p hp

theorem keys_set (r : Results) (k : LookFor) (c : Counter) :
    k ∈ keysOf (Results.set r k c) ∧ ∀ k' ∈ keysOf r, k' ∈ keysOf (Results.set r k c) := by
  unfold keysOf
  induction r with
  | nil => simp [Results.set]
  | cons q r ih =>
    obtain ⟨k', c'⟩ := q
    unfold Results.set
    split
    · rename_i h; subst h; simp
    · simp only [List.map_cons, List.mem_cons]
      refine ⟨Or.inr ih.1, ?_⟩
      intro k'' hk''
      rcases hk'' with rfl | hk''
      · exact Or.inl rfl
      · exact Or.inr (ih.2 k'' hk'')

theorem inspectInit_spec (lookFor : List LookFor) :
    (∀ p ∈ inspectInit lookFor, p.2 = []) ∧ ∀ k ∈ lookFor, k ∈ keysOf (inspectInit lookFor) := by
  unfold inspectInit
  have gen : ∀ (l : List LookFor) (r : Results), (∀ p ∈ r, p.2 = []) →
      (∀ p ∈ l.foldl (fun r k => Results.set r k []) r, p.2 = []) ∧
      (∀ k, (k ∈ l ∨ k ∈ keysOf r) → k ∈ keysOf (l.foldl (fun r k => Results.set r k []) r)) := by
    intro l
    induction l with
    | nil => intro r h; exact ⟨h, fun k hk => by simpa using hk⟩
    | cons a l ih =>
      intro r h
      simp only [List.foldl_cons]
      obtain ⟨h1, h2⟩ := ih (Results.set r a []) (set_all_empty r a h)
      refine ⟨h1, ?_⟩
      intro k hk
      apply h2
      rcases hk with hk | hk
      · rcases List.mem_cons.mp hk with rfl | hk
        · exact Or.inr (keys_set r k []).1
        · exact Or.inl hk
      · exact Or.inr ((keys_set r a []).2 k hk)
  obtain ⟨h1, h2⟩ := gen lookFor [] (by simp)
  exact ⟨h1, fun k hk => h2 k (Or.inl hk)⟩

theorem cnt_init (lookFor : List LookFor) (k : LookFor) (v : Str) : cnt (inspectInit lookFor) k v = 0 := by
  have h := (inspectInit_spec lookFor).1
  unfold cnt Results.get Counter.get
  generalize inspectInit lookFor = r at h
  induction r with
  | nil => rfl
  | cons p r ih =>
    obtain ⟨q, c⟩ := p
    have hc : c = [] := h (q, c) (by simp)
    subst hc
    simp only [List.lookup]
    cases (k == q)
    · exact ih (fun p hp => h p (by simp [hp]))
    · rfl

theorem mem_objAttrs (lookFor : List LookFor) (a : Field) : a ∈ objAttrs lookFor ↔ LookFor.field a ∈ lookFor := by
  unfold objAttrs
  simp only [List.mem_filterMap]
  constructor
  · rintro ⟨k, hk, h⟩
    cases k <;> simp at h
    subst h; exact hk
  · intro h; exact ⟨_, h, rfl⟩

theorem count_objAttrs (lookFor : List LookFor) (a : Field) :
    (objAttrs lookFor).count a = lookFor.count (.field a) := by
  unfold objAttrs
  induction lookFor with
  | nil => rfl
  | cons k l ih =>
    cases k with
    | field b =>
      simp only [List.filterMap_cons, List.count_cons, ih, beq_iff_eq, LookFor.field.injEq]
    | attributeKeys => simp [ih]
    | featureCount => simp [ih]

theorem cnt_filter (r : Results) (k : LookFor) (v : Str) (hk : k ≠ .featureCount) :
    cnt (r.filter (fun p => p.1 ≠ .featureCount)) k v = cnt r k v := by
  unfold cnt Results.get
  have : List.lookup k (r.filter (fun p => p.1 ≠ .featureCount)) = List.lookup k r := by
    induction r with
    | nil => rfl
    | cons p r ih =>
      obtain ⟨q, c⟩ := p
      by_cases hq : q = .featureCount
      · subst hq
        have hb : (k == LookFor.featureCount) = false := by simpa using hk
        rw [List.filter_cons]
        simp only [ne_eq, not_true_eq_false, decide_false, Bool.false_eq_true, if_false, List.lookup_cons, hb]
        exact ih
      · rw [List.filter_cons]
        simp only [ne_eq, hq, not_false_eq_true, decide_true, if_true, List.lookup_cons]
        rw [ih]
  rw [this]

/-- **inspect_counts**: for every `look_for` list, every `limit` (`None`, `0`, negative, positive, beyond
the input) and every feature sequence:
1. `feature_count` is the number of items looked at (`looked`: the first `limit` when `limit > 0`, else all);
2. for every item `k` of `look_for` other than `feature_count` and every value `v`, the counter of `k`
   holds for `v` its number of occurrences among what the looked-at items contribute (`obs`: the attribute's
   value, or the attribute keys), times the number of times `k` is listed (1 for a duplicate-free
   `look_for`; `attribute_keys` always counts once). -/
theorem inspect_counts (lookFor : List LookFor) (limit : Option Int) (fs : List Feature) :
    (inspectFeatures lookFor limit fs).featureCount = (looked limit fs).length ∧
    ∀ k ∈ lookFor, k ≠ .featureCount → ∀ v,
      cnt (inspectFeatures lookFor limit fs).counters k v =
        (match k with | .field _ => lookFor.count k | _ => 1) * ((looked limit fs).flatMap (obs k)).count v := by
  unfold inspectFeatures
  rw [inspectLoop_looked]
  refine ⟨rfl, ?_⟩
  intro k hk hne v
  simp only
  rw [cnt_filter _ _ _ hne]
  obtain ⟨_, hkeys⟩ := inspectInit_spec lookFor
  rw [cnt_foldl_step _ _ _ _ _ _
    (fun a ha => hkeys _ ((mem_objAttrs lookFor a).mp ha))
    (fun h => hkeys _ (by simpa using h)), cnt_init, Nat.zero_add]
  cases k with
  | field a => simp only [mult, count_objAttrs]
  | attributeKeys =>
    have : lookFor.contains LookFor.attributeKeys = true := by simpa using hk
    simp only [mult, this, if_true]
  | featureCount => exact absurd rfl hne

/-- for a duplicate-free `look_for` (the property's "subsets"): exact multiset counts -/
theorem inspect_counts_nodup (lookFor : List LookFor) (hnd : lookFor.Nodup) (limit : Option Int) (fs : List Feature)
    (k : LookFor) (hk : k ∈ lookFor) (hne : k ≠ .featureCount) (v : Str) :
    cnt (inspectFeatures lookFor limit fs).counters k v = ((looked limit fs).flatMap (obs k)).count v := by
  rw [(inspect_counts lookFor limit fs).2 k hk hne v]
  cases k with
  | field a => rw [hnd.count, if_pos hk, Nat.one_mul]
  | attributeKeys => rw [Nat.one_mul]
  | featureCount => exact absurd rfl hne

/-- `inspect` on an input form counts over that form's iterated features (default `checklines = 10`) -/
theorem inspect_input (data : Input) (lookFor : List LookFor) (limit : Option Int) (d : Dialect) (fs : List Feature)
    (h : data.run { checklines := 10 } = .ok (d, fs)) :
    Iter.inspect data lookFor limit = .ok (inspectFeatures lookFor limit fs) := by
  unfold Iter.inspect
  rw [h]; rfl

/-! ### non-vacuity -/

def fA : Feature := { seqid := "c1".toList, ftype := "gene".toList, attrs := [("ID".toList, ["g".toList])] }
def fB : Feature := { seqid := "c1".toList, ftype := "exon".toList, attrs := [("ID".toList, ["e".toList]), ("Parent".toList, ["g".toList])] }
def fC : Feature := { seqid := "c2".toList, ftype := "exon".toList, attrs := [("Parent".toList, ["g".toList])] }

-- the peek takes checklines+1 items and gives them back; also beyond the end
example : ((featPeek [fA, fB, fC] 1).1.length, (featPeek [fA, fB, fC] 1).2.length) = (2, 3) := by decide
example : ((featPeek [fA, fB, fC] 0).1.length, (featPeek [fA, fB, fC] 7).1.length) = (1, 3) := by decide
example : (featPeek [fA, fB, fC] 7).2 = [fA, fB, fC] := peek_preserves _ _

def dropExon : Feature → Option Feature := fun f => if f.ftype = "exon".toList then none else some f

-- a transform that really drops: 3 items in, 1 out, 3 calls
example : ((applyTransformLog Dialect.default dropExon [fA, fB, fC]).1.length,
    (applyTransformLog Dialect.default dropExon [fA, fB, fC]).2.length) = (1, 3) := by decide

-- all feature forms of a three-item source, checklines 1 (inside), 0, 5 (beyond): three items out
example : ∃ d out, (Input.generator [fA, fB, fC]).run { checklines := 5 } = .ok (d, out) ∧
    out = [fA, fB, fC].map (withDialect d) ∧ out.length = 3 :=
  iterate_length_features _ _ rfl _ (Or.inr (Or.inl rfl))
example : ∃ d out, (Input.list [fA, fB, fC]).run { checklines := 0 } = .ok (d, out) ∧
    out = [fA, fB, fC].map (withDialect d) ∧ out.length = 3 :=
  iterate_length_features _ _ rfl _ (Or.inl rfl)

-- inspect: limit 2 of 3, counts of featuretype and attribute keys
example : (inspectFeatures [.field .featuretype, .attributeKeys, .featureCount] (some 2) [fA, fB, fC]).featureCount = 2 := by
  decide
example : cnt (inspectFeatures [.field .featuretype, .attributeKeys] none [fA, fB, fC]).counters
    (.field .featuretype) "exon".toList = 2 := by decide
example : cnt (inspectFeatures [.field .featuretype, .attributeKeys] none [fA, fB, fC]).counters
    .attributeKeys "Parent".toList = 2 := by decide
-- a duplicated `look_for` item counts twice (hence `Nodup` in `inspect_counts_nodup`)
example : cnt (inspectFeatures [.field .chrom, .field .chrom] none [fA, fB, fC]).counters
    (.field .chrom) "c1".toList = 4 := by decide
example : [LookFor.field .featuretype, .attributeKeys, .featureCount].Nodup := by decide

/-- feature lines without an attribute column: `SameMapping` holds for every dialect (both parsers
return the empty mapping for an empty column) -/
def demoLines : List Str :=
  ["##gff-version 3".toList, "c\ts\tgene\t1\t9\t.\t+\t.".toList, "#c".toList,
   "c\ts\texon\t2\t5\t.\t+\t.".toList]

theorem sameMapping_of_empty (d : Dialect) (l : Str) (h : attrField l = []) : SameMapping d l := by
  intro a dl h0
  rw [h] at h0 ⊢
  simp only [Parser.splitKeyvals, List.isEmpty_nil, if_true, Except.ok.injEq, Prod.mk.injEq] at h0 ⊢
  exact ⟨d, h0.1, rfl⟩

example : featureLines demoLines = ["c\ts\tgene\t1\t9\t.\t+\t.".toList, "c\ts\texon\t2\t5\t.\t+\t.".toList] := by
  decide
example : ∀ l ∈ featureLines demoLines, ∀ d, SameMapping d l := by
  intro l hl d
  apply sameMapping_of_empty
  have : featureLines demoLines = ["c\ts\tgene\t1\t9\t.\t+\t.".toList, "c\ts\texon\t2\t5\t.\t+\t.".toList] := by
    decide
  rw [this] at hl
  simp only [List.mem_cons, List.not_mem_nil, or_false] at hl
  rcases hl with rfl | rfl <;> decide

end GffProofs.C13
