/-
  C11 — feature-type / strand filters, ordering and counts agree with a full scan.
-/
import GffModel.Interface

namespace GffProofs.C11
open GffModel GffModel.Interface

theorem indexed_map_snd (l : List Row) : (indexed l).map (·.2) = l := by
  simp [indexed, List.map_map, Function.comp_def]

theorem filter_indexed (l : List Row) (p : Row → Bool) :
    ((indexed l).filter (fun x => p x.2)).map (·.2) = l.filter p := by
  have := List.filter_map (f := fun x : Nat × Row => x.2) (p := p) (l := indexed l)
  rw [indexed_map_snd] at this
  rw [this]; rfl

theorem order_perm (q : Query) (l : List (Nat × Row)) : (order q l).Perm l := by
  unfold order
  split
  · exact List.Perm.refl _
  · exact List.mergeSort_perm _ _

/-- **Exactly the matching features, each once**: the result is a permutation of the stored rows that
satisfy the filter (featuretype string or collection, strand), for every `order_by` / `reverse`. -/
theorem query_perm_filter (s : Session) (q : Query) :
    (runQuery s q).Perm (s.db.features.filter (rowMatches q)) := by
  unfold runQuery
  rw [← filter_indexed]
  exact (order_perm q _).map _

/-- without `order_by` the rows come in input (file) order; in particular a full iteration -/
theorem query_unordered_in_input_order (s : Session) (q : Query) (h : q.orderBy = []) :
    runQuery s q = s.db.features.filter (rowMatches q) := by
  unfold runQuery order
  simp only [h, List.isEmpty_nil, if_true]
  exact filter_indexed _ _

theorem rowMatches_default (r : Row) : rowMatches {} r = true := by
  simp [rowMatches]

theorem full_iteration_in_input_order (s : Session) : runQuery s {} = s.db.features := by
  rw [query_unordered_in_input_order s {} rfl]
  simp [rowMatches_default]

theorem strLe_total (a b : Str) : strLe a b = true ∨ strLe b a = true := by
  simp only [strLe, decide_eq_true_eq]; exact List.le_total a b
theorem strLe_trans (a b c : Str) (h1 : strLe a b = true) (h2 : strLe b c = true) : strLe a c = true := by
  simp only [strLe, decide_eq_true_eq] at *; exact List.le_trans h1 h2
theorem strLe_antisymm (a b : Str) (h1 : strLe a b = true) (h2 : strLe b a = true) : a = b := by
  simp only [strLe, decide_eq_true_eq] at *; exact List.le_antisymm h1 h2

/-- sqlite's order is a total preorder -/
theorem sqlLe_total (a b : SqlVal) : a.le b = true ∨ b.le a = true := by
  cases a <;> cases b <;> simp [SqlVal.le]
  · omega
  · exact strLe_total _ _
theorem sqlLe_trans (a b c : SqlVal) (h1 : a.le b = true) (h2 : b.le c = true) : a.le c = true := by
  cases a <;> cases b <;> cases c <;> simp [SqlVal.le] at *
  · omega
  · exact strLe_trans _ _ _ h1 h2
/-- … and antisymmetric (so a linear order on `SqlVal`) -/
theorem sqlLe_antisymm (a b : SqlVal) (h1 : a.le b = true) (h2 : b.le a = true) : a = b := by
  cases a <;> cases b <;> simp [SqlVal.le] at *
  · omega
  · exact strLe_antisymm _ _ h1 h2

theorem rowLe_cons_cons (k k2 : SortKey) (rest : List SortKey) (rev : Bool) (a b : Nat × Row) :
    rowLe (k :: k2 :: rest) rev a b =
      if sortVal a.1 a.2 k = sortVal b.1 b.2 k then rowLe (k2 :: rest) rev a b
      else (sortVal a.1 a.2 k).le (sortVal b.1 b.2 k) := by
  simp [rowLe]

theorem rowLe_single (k : SortKey) (rev : Bool) (a b : Nat × Row) :
    rowLe [k] rev a b =
      if rev then (sortVal b.1 b.2 k).le (sortVal a.1 a.2 k) else (sortVal a.1 a.2 k).le (sortVal b.1 b.2 k) := by
  simp [rowLe]

/-- the ORDER BY comparator is total and transitive for every key list and direction -/
theorem rowLe_total (keys : List SortKey) (rev : Bool) (a b : Nat × Row) :
    rowLe keys rev a b = true ∨ rowLe keys rev b a = true := by
  induction keys with
  | nil => simp [rowLe]
  | cons k rest ih =>
    cases rest with
    | nil =>
      rw [rowLe_single, rowLe_single]
      cases rev
      · simpa using sqlLe_total _ _
      · simpa using sqlLe_total _ _
    | cons k2 rest =>
      rw [rowLe_cons_cons, rowLe_cons_cons]
      by_cases h : sortVal a.1 a.2 k = sortVal b.1 b.2 k
      · rw [if_pos h, if_pos h.symm]; exact ih
      · rw [if_neg h, if_neg (Ne.symm h)]; exact sqlLe_total _ _

theorem rowLe_trans (keys : List SortKey) (rev : Bool) (a b c : Nat × Row)
    (h1 : rowLe keys rev a b = true) (h2 : rowLe keys rev b c = true) : rowLe keys rev a c = true := by
  induction keys with
  | nil => simp [rowLe]
  | cons k rest ih =>
    cases rest with
    | nil =>
      rw [rowLe_single] at *
      cases rev
      · simp at *; exact sqlLe_trans _ _ _ h1 h2
      · simp at *; exact sqlLe_trans _ _ _ h2 h1
    | cons k2 rest =>
      rw [rowLe_cons_cons] at *
      by_cases hab : sortVal a.1 a.2 k = sortVal b.1 b.2 k
      · rw [if_pos hab] at h1
        by_cases hbc : sortVal b.1 b.2 k = sortVal c.1 c.2 k
        · rw [if_pos hbc] at h2
          rw [if_pos (hab.trans hbc)]; exact ih h1 h2
        · rw [if_neg hbc] at h2
          rw [hab, if_neg hbc]; exact h2
      · rw [if_neg hab] at h1
        by_cases hbc : sortVal b.1 b.2 k = sortVal c.1 c.2 k
        · rw [if_pos hbc] at h2
          rw [← hbc, if_neg hab]; exact h1
        · rw [if_neg hbc] at h2
          have hac : sortVal a.1 a.2 k ≠ sortVal c.1 c.2 k := by
            intro e
            rw [← e] at h2
            exact hab (sqlLe_antisymm _ _ h1 h2)
          rw [if_neg hac]; exact sqlLe_trans _ _ _ h1 h2

theorem order_sorted (q : Query) (l : List (Nat × Row)) (h : q.orderBy ≠ []) :
    (order q l).Pairwise (fun a b => rowLe q.orderBy q.reverse a b = true) := by
  unfold order
  have : q.orderBy.isEmpty = false := by
    cases h' : q.orderBy with
    | nil => exact absurd h' h
    | cons _ _ => rfl
  simp only [this, Bool.false_eq_true, if_false]
  exact List.pairwise_mergeSort (rowLe_trans _ _) (fun a b => by
    have := rowLe_total q.orderBy q.reverse a b
    simpa using this) l

/-- **Sortedness**: the result, paired with rowids, is pairwise ordered by the ORDER BY relation
(`rowLe`: lexicographic over the requested keys; `reverse` turns the LAST key descending) -/
theorem query_sorted (s : Session) (q : Query) :
    ∃ l : List (Nat × Row), l.map (·.2) = runQuery s q ∧
      l.Pairwise (fun a b => rowLe q.orderBy q.reverse a b = true) := by
  refine ⟨order q ((indexed s.db.features).filter (fun p => rowMatches q p.2)), rfl, ?_⟩
  by_cases h : q.orderBy = []
  · rw [h]; exact List.pairwise_of_forall_sublist (fun _ => by simp [rowLe])
  · exact order_sorted q _ h

/-- single column: ascending, or descending with `reverse` — stated on the key values themselves -/
theorem query_sorted_single (s : Session) (q : Query) (k : SortKey) (h : q.orderBy = [k]) :
    ∃ l : List (Nat × Row), l.map (·.2) = runQuery s q ∧
      l.Pairwise (fun a b =>
        if q.reverse then (sortVal b.1 b.2 k).le (sortVal a.1 a.2 k) = true
        else (sortVal a.1 a.2 k).le (sortVal b.1 b.2 k) = true) := by
  obtain ⟨l, hl, hp⟩ := query_sorted s q
  refine ⟨l, hl, hp.imp ?_⟩
  intro a b hab
  rw [h, rowLe_single] at hab
  cases hr : q.reverse <;> simpa [hr] using hab

/-- `order_by` given as a string and as a 1-tuple are the same query (one `SortKey` list) — by
construction of `Query`; `'length'` is `end - start` and `'file_order'` the rowid -/
theorem length_key (i : Nat) (r : Row) (a b : Int) (h1 : r.start = some a) (h2 : r.stop = some b) :
    sortVal i r .length = .int (b - a) := by
  simp [sortVal, h1, h2]

/-- **count_features_of_type equals the number iterated** -/
theorem count_eq_length (s : Session) (t : Str) :
    countFeatures s (some t) = (runQuery s { featuretype := [t] }).length := by
  rw [(query_perm_filter s _).length_eq]
  simp only [countFeatures]
  congr 1
  apply List.filter_congr
  intro r _
  simp [rowMatches, eq_comm]

theorem count_all_eq_length (s : Session) : countFeatures s none = (runQuery s {}).length := by
  rw [(query_perm_filter s _).length_eq]
  simp only [countFeatures]
  congr 1
  symm
  apply List.filter_eq_self.2
  intro r _
  simp [rowMatches]

theorem dedup_aux (l acc : List Str) (h : acc.Nodup) :
    (l.foldl (fun acc x => if acc.contains x then acc else acc ++ [x]) acc).Nodup ∧
    ∀ t, t ∈ l.foldl (fun acc x => if acc.contains x then acc else acc ++ [x]) acc ↔ t ∈ acc ∨ t ∈ l := by
  induction l generalizing acc with
  | nil => simp [h]
  | cons x xs ih =>
    simp only [List.foldl_cons]
    by_cases hx : acc.contains x = true
    · rw [if_pos hx]
      obtain ⟨h1, h2⟩ := ih acc h
      refine ⟨h1, fun t => ?_⟩
      rw [h2]
      have : x ∈ acc := by simpa using hx
      constructor
      · rintro (h | h)
        · exact Or.inl h
        · exact Or.inr (List.mem_cons_of_mem _ h)
      · rintro (h | h)
        · exact Or.inl h
        · rcases List.mem_cons.1 h with rfl | h
          · exact Or.inl this
          · exact Or.inr h
    · rw [if_neg hx]
      have hx' : x ∉ acc := by simpa using hx
      have hn : (acc ++ [x]).Nodup := by
        rw [List.nodup_append]
        refine ⟨h, by simp, ?_⟩
        intro a ha b hb
        simp at hb
        subst hb
        intro e; subst e; exact hx' ha
      obtain ⟨h1, h2⟩ := ih (acc ++ [x]) hn
      refine ⟨h1, fun t => ?_⟩
      rw [h2]
      simp only [List.mem_append, List.mem_cons, List.not_mem_nil, or_false]
      exact or_assoc

theorem dedup_exact (l : List Str) : (dedup l).Nodup ∧ ∀ t, t ∈ dedup l ↔ t ∈ l := by
  obtain ⟨h1, h2⟩ := dedup_aux l [] List.nodup_nil
  exact ⟨h1, fun t => by rw [dedup, h2]; simp⟩

/-- **featuretypes() / seqids() list exactly the distinct values present** -/
theorem featuretypes_exact (s : Session) :
    (featuretypes s).Nodup ∧ ∀ t, t ∈ featuretypes s ↔ ∃ r ∈ s.db.features, r.ftype = t := by
  obtain ⟨h1, h2⟩ := dedup_exact (s.db.features.map (·.ftype))
  exact ⟨h1, fun t => by rw [featuretypes, h2]; simp⟩
theorem seqids_exact (s : Session) :
    (seqids s).Nodup ∧ ∀ t, t ∈ seqids s ↔ ∃ r ∈ s.db.features, r.seqid = t := by
  obtain ⟨h1, h2⟩ := dedup_exact (s.db.features.map (·.seqid))
  exact ⟨h1, fun t => by rw [seqids, h2]; simp⟩

/-! ### non-vacuity: a concrete database with a `none` start, ties and mixed-case seqids -/

private def mkRow (id seqid ftype : String) (start stop : Option Int) (strand : String) : Row :=
  { id := id.toList, seqid := seqid.toList, source := ['.'], ftype := ftype.toList, start := start, stop := stop,
    score := ['.'], strand := strand.toList, frame := ['.'], attrs := [], extra := [], bin := none }

private def r1 := mkRow "g1" "chr1" "gene" (some 100) (some 500) "+"
private def r2 := mkRow "e1" "Chr1" "exon" none (some 200) "-"
private def r3 := mkRow "e2" "chr1" "exon" (some 100) (some 150) "+"
private def r4 := mkRow "g2" "chr2" "gene" (some 50) (some 80) "-"

private def sess : Session :=
  { db := { features := [r1, r2, r3, r4] }, auto := [], dialect := Dialect.default, directives := [] }

open List.MergeSort.Internal in
private theorem mergeSort_two {α} (le : α → α → Bool) (a b : α) :
    [a, b].mergeSort le = List.merge [a] [b] le := by
  rw [List.mergeSort]; simp [splitInTwo]

open List.MergeSort.Internal in
private theorem mergeSort_four {α} (le : α → α → Bool) (a b c d : α) :
    [a, b, c, d].mergeSort le = List.merge (List.merge [a] [b] le) (List.merge [c] [d] le) le := by
  rw [List.mergeSort]; simp [splitInTwo, mergeSort_two]

/-- `mergeSort` is defined by well-founded recursion, so `decide` cannot run it; evaluate by rewriting -/
local macro "eval_query" : tactic =>
  `(tactic| simp (decide := true) only [runQuery, order, mergeSort_four, mergeSort_two, List.cons_merge_cons,
      List.nil_merge, List.merge_right, if_false, if_true, List.map])

private theorem filter_all (q : Query) (h : (sess.db.features.map (rowMatches q)) = [true, true, true, true]) :
    (indexed sess.db.features).filter (fun p => rowMatches q p.2) = [(1, r1), (2, r2), (3, r3), (4, r4)] := by
  simp only [sess, List.map, List.cons.injEq, and_true] at h
  simp [indexed, sess, List.zipIdx, List.filter, h]

-- ORDER BY start DESC: NULL last, the tie 100/100 keeps file order (stable)
example : runQuery sess { orderBy := [.start], reverse := true } = [r1, r3, r4, r2] := by
  rw [runQuery, filter_all _ (by decide +kernel)]; eval_query
-- ORDER BY start ASC: NULL first
example : runQuery sess { orderBy := [.start] } = [r2, r4, r1, r3] := by
  rw [runQuery, filter_all _ (by decide +kernel)]; eval_query
-- ORDER BY seqid, start DESC: BINARY collation puts "Chr1" before "chr1"; direction binds to the last key
example : runQuery sess { orderBy := [.seqid, .start], reverse := true } = [r2, r1, r3, r4] := by
  rw [runQuery, filter_all _ (by decide +kernel)]; eval_query
-- ORDER BY length: NULL (missing start) first
example : runQuery sess { orderBy := [.length] } = [r2, r4, r3, r1] := by
  rw [runQuery, filter_all _ (by decide +kernel)]; eval_query
-- filters: featuretype collection + strand
example : runQuery sess { featuretype := ["exon".toList, "gene".toList], strand := some ['-'], orderBy := [.stop] }
    = [r4, r2] := by
  have h : (indexed sess.db.features).filter (fun p => rowMatches
      { featuretype := ["exon".toList, "gene".toList], strand := some ['-'], orderBy := [.stop] } p.2)
      = [(2, r2), (4, r4)] := by decide +kernel
  rw [runQuery, h]; eval_query
example : (runQuery sess { featuretype := ["exon".toList], orderBy := [.start], reverse := true }).Perm [r2, r3] :=
  query_perm_filter sess { featuretype := ["exon".toList], orderBy := [.start], reverse := true }
example : countFeatures sess (some "exon".toList) = 2 ∧
    (runQuery sess { featuretype := ["exon".toList] }).length = 2 := by decide +kernel
example : featuretypes sess = ["gene".toList, "exon".toList] ∧
    seqids sess = ["chr1".toList, "Chr1".toList, "chr2".toList] := by decide +kernel
-- the sortedness witness of `query_sorted` is not the trivial relation: the reversed list is NOT sorted
example : ¬ (List.Pairwise (fun a b => rowLe [.start] true a b = true) [(2, r2), (1, r1)]) := by decide +kernel
example : sortVal 1 r1 .length = .int 400 := length_key 1 r1 100 500 rfl rfl

end GffProofs.C11
