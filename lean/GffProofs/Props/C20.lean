/-
  C20 — Concurrent imports are independent and leave no temp files.
  Property theorems over the abstract concurrency model `GffModel.Conc`.  Core Lean only.

  Model recap: `N = datas.length` processes each run `mkstemp ; write ; read ; unlink ; writeOutput`
  against ONE shared temp directory with arbitrary initial content `dir0`.  A schedule is an
  arbitrary list of `(process index, adversary's pick)`; `mkstemp` accepts the pick only when it is
  not present in the directory (O_EXCL).  `run` is `none` when some scheduled step is not enabled or
  crashes, so `run (init datas dir0) sched = some s` says: `sched` is an admissible interleaving and
  `s` is the state it reaches.  All theorems are for EVERY `datas` (any number of processes, any
  payloads, equal or different), EVERY `dir0`, EVERY schedule and EVERY choice of picks.

  Level (DESIGN.md §C20): the theorems cover every interleaving of the abstract operations; OS
  scheduling and sqlite's own locking are outside the model and only sampled at run time.
-/
import GffProofs.Lemmas.C20Aux

namespace GffProofs.C20
open GffModel GffModel.Conc

/-! ## Specification vocabulary

* `p.holding = some n` (`GffModel.Conc.Proc.holding`): process `p` is between its `mkstemp` and its
  `unlink` (`1 ≤ pc ≤ 3`) and `n` is the name `mkstemp` gave it.
* "has executed `read`" is `3 ≤ p.pc`; "has executed `writeOutput`" is `p.pc = 5`; `s.finished`
  says every process has `pc = 5 = program.length`.
* `heldFiles procs`: the list of `(name, expected content)` of the files currently held, in process
  order; the expected content is empty right after `mkstemp` and the payload after `write`.
-/

/-- `s` is reachable: some admissible schedule leads from the initial system to `s`. -/
def Reachable (datas : List Str) (dir0 : Dict Str) (s : Sys) : Prop :=
  ∃ sched : Schedule, run (init datas dir0) sched = some s

/-- The solitary run of a process with payload `d`: the one-process system in the same initial
directory. -/
def solo (d : Str) (dir0 : Dict Str) : Sys := init [d] dir0

/-! ## 1. The ownership invariant -/

/-- **Ownership.**  In every reachable state:
(0) the processes and their payloads are the initial ones;
(a) the names held by processes are pairwise distinct;
(b) every process between `mkstemp` and `unlink` does hold a name;
(c) a held name is not an initial file, is present in `tmpdir`, and its content is empty before the
    holder's `write` and exactly the holder's payload from then on;
(d) `tmpdir` is the initial directory (same entries, same order) followed by exactly the held files;
(e) as a key set: a name is in `tmpdir` iff it is initial or held;
(f) the initial files keep their content. -/
theorem ownership (datas : List Str) (dir0 : Dict Str) (s : Sys) (h : Reachable datas dir0 s) :
    s.procs.map (·.data) = datas ∧
    (∀ (i j : Nat) (p q : Proc) (n : Str), s.procs[i]? = some p → s.procs[j]? = some q →
      p.holding = some n → q.holding = some n → i = j) ∧
    (∀ (i : Nat) (p : Proc), s.procs[i]? = some p → 1 ≤ p.pc → p.pc ≤ 3 →
      ∃ n, p.holding = some n) ∧
    (∀ (i : Nat) (p : Proc) (n : Str), s.procs[i]? = some p → p.holding = some n →
      n ∉ Dict.keys dir0 ∧
      Dict.get? s.tmpdir n = some (if p.pc = 1 then [] else p.data)) ∧
    (∃ L, s.tmpdir = dir0 ++ L ∧ L.Perm (heldFiles s.procs)) ∧
    (∀ n, n ∈ Dict.keys s.tmpdir ↔
      n ∈ Dict.keys dir0 ∨ ∃ (i : Nat) (p : Proc), s.procs[i]? = some p ∧ p.holding = some n) ∧
    (∀ n ∈ Dict.keys dir0, Dict.get? s.tmpdir n = Dict.get? dir0 n) := by
  obtain ⟨sched, h⟩ := h
  have hinv := reachable_inv h
  refine ⟨?_, hinv.distinct, ?_, ?_, tmpdir_perm hinv, ?_, ?_⟩
  · apply List.ext_getElem?
    intro i
    rw [List.getElem?_map]
    cases hp : s.procs[i]? with
    | none =>
      have : datas.length ≤ i := by
        rw [← hinv.len]; exact List.getElem?_eq_none_iff.1 hp
      rw [List.getElem?_eq_none this]; rfl
    | some p =>
      obtain ⟨d, o, hd, _, hok⟩ := hinv.ok i p hp
      rw [hd, Option.map_some, hok.data]
  · intro i p hp h1 h3
    obtain ⟨d, o, _, _, hok⟩ := hinv.ok i p hp
    obtain ⟨n, hn⟩ := hok.tmp h1
    exact ⟨n, by unfold Proc.holding; rw [if_pos ⟨h1, h3⟩]; exact hn⟩
  · intro i p n hp hh
    have := dirOK_get hinv.dir (k := n) (v := p.fileContent) ⟨i, p, hp, hh, rfl⟩
    exact ⟨this.2.1, this.1⟩
  · intro n
    obtain ⟨L, h1, _, _, h4⟩ := hinv.dir
    rw [h1, keys_append, List.mem_append, mem_keys_iff L n]
    constructor
    · rintro (h | ⟨c, hc⟩)
      · exact Or.inl h
      · obtain ⟨i, p, hp, hh, _⟩ := (h4 n c).1 hc
        exact Or.inr ⟨i, p, hp, hh⟩
    · rintro (h | ⟨i, p, hp, hh⟩)
      · exact Or.inl h
      · exact Or.inr ⟨p.fileContent, (h4 n _).2 ⟨i, p, hp, hh, rfl⟩⟩
  · intro n hn
    obtain ⟨L, h1, _, _, _⟩ := hinv.dir
    rw [h1, get?_append_left _ _ _ hn]

/-! ## 2. Isolation -/

/-- A finished solitary run of a process with payload `d` has written exactly `d` to its output, for
every admissible schedule and every pick. -/
theorem solo_output (d : Str) (dir0 : Dict Str) (sched : Schedule) (s : Sys)
    (h : run (solo d dir0) sched = some s) (hfin : s.finished = true) :
    s.outputs = [some d] := by
  have hinv := reachable_inv (datas := [d]) h
  have hl := hinv.olen
  have hpl := hinv.len
  cases hp : s.procs[0]? with
  | none =>
    have := List.getElem?_eq_none_iff.1 hp
    simp only [List.length_cons, List.length_nil] at hpl; omega
  | some p =>
    obtain ⟨d', o, hd, ho, hok⟩ := hinv.ok 0 p hp
    simp only [List.getElem?_cons_zero, Option.some.injEq] at hd; subst hd
    have hpc : p.pc = 5 := (finished_iff s).1 hfin p (List.mem_iff_getElem?.2 ⟨0, hp⟩)
    have hout := hok.out
    rw [if_pos hpc] at hout
    subst hout
    match hs : s.outputs, hl, ho with
    | [x], _, ho => simp only [List.getElem?_cons_zero, Option.some.injEq] at ho; rw [ho]

/-- A solitary run does finish (so `solo_output` is not vacuous). -/
theorem solo_finishes (d : Str) (dir0 : Dict Str) :
    ∃ sched s, run (solo d dir0) sched = some s ∧ s.finished = true :=
  can_finish _ _ (init_inv [d] dir0) rfl

/-- **Isolation.**  In every reachable state, for every process `i`:
its payload is the one it started with; once it has executed `read` its buffer holds exactly its own
payload (never another process's, never a partial file); before `writeOutput` its output does not
exist; once it has executed `writeOutput` its output is exactly its own payload, and that is the
output of every finished solitary run of the same process in the same initial directory. -/
theorem isolation (datas : List Str) (dir0 : Dict Str) (s : Sys) (h : Reachable datas dir0 s)
    (i : Nat) (p : Proc) (hp : s.procs[i]? = some p) :
    datas[i]? = some p.data ∧
    (p.pc < 3 → p.buf = none) ∧
    (3 ≤ p.pc → p.buf = some p.data) ∧
    (p.pc < 5 → s.outputs[i]? = some none) ∧
    (p.pc = 5 → s.outputs[i]? = some (some p.data) ∧
      ∀ (sched1 : Schedule) (s1 : Sys), run (solo p.data dir0) sched1 = some s1 →
        s1.finished = true → s1.outputs[0]? = s.outputs[i]?) := by
  obtain ⟨sched, h⟩ := h
  obtain ⟨d, o, hd, ho, hok⟩ := (reachable_inv h).ok i p hp
  have hdata := hok.data
  subst hdata
  refine ⟨hd, ?_, ?_, ?_, ?_⟩
  · intro h3; rw [hok.buf, if_neg (by omega)]
  · intro h3; rw [hok.buf, if_pos h3]
  · intro h5; rw [ho, hok.out, if_neg (by omega)]
  · intro h5
    have : s.outputs[i]? = some (some p.data) := by rw [ho, hok.out, if_pos h5]
    refine ⟨this, ?_⟩
    intro sched1 s1 h1 hfin
    rw [this, solo_output p.data dir0 sched1 s1 h1 hfin]; rfl

/-! ## 3. Cleanup -/

/-- Whenever no process is between its `mkstemp` and its `unlink`, the temp directory IS the
initial directory (same entries, same contents, same order). -/
theorem cleanup_quiescent (datas : List Str) (dir0 : Dict Str) (s : Sys)
    (h : Reachable datas dir0 s) (hq : ∀ p ∈ s.procs, p.holding = none) : s.tmpdir = dir0 := by
  obtain ⟨sched, h⟩ := h
  obtain ⟨L, h1, _, _, h4⟩ := (reachable_inv h).dir
  have : L = [] := by
    cases L with
    | nil => rfl
    | cons x L =>
      obtain ⟨i, p, hp, hh, _⟩ := (h4 x.1 x.2).1 (by simp)
      rw [hq p (List.mem_iff_getElem?.2 ⟨i, hp⟩)] at hh; cases hh
  rw [h1, this, List.append_nil]

/-- **Cleanup.**  In every reachable state in which all processes are finished the temp directory
equals the initial directory: no intermediate file of any import is left, and nobody else's file was
touched. -/
theorem cleanup (datas : List Str) (dir0 : Dict Str) (s : Sys) (h : Reachable datas dir0 s)
    (hfin : s.finished = true) : s.tmpdir = dir0 := by
  apply cleanup_quiescent datas dir0 s h
  intro p hp
  have := (finished_iff s).1 hfin p hp
  simp [Proc.holding, this]

/-! ## 4. Progress / non-vacuity -/

/-- **No process is ever stuck.**  In every reachable state every unfinished process is enabled:
`write`, `read`, `unlink`, `writeOutput` with any pick (in particular `read` and `unlink` always find
the file: no `FileNotFoundError`), `mkstemp` with any pick that is not occupied. -/
theorem enabled (datas : List Str) (dir0 : Dict Str) (s : Sys) (h : Reachable datas dir0 s)
    (i : Nat) (p : Proc) (hp : s.procs[i]? = some p) (hpc : p.pc < 5) (pick : Str)
    (hpick : p.pc = 0 → Dict.contains s.tmpdir pick = false) :
    ∃ s', step s i pick = some s' ∧ Reachable datas dir0 s' := by
  obtain ⟨sched, h⟩ := h
  obtain ⟨s', p', hs, _⟩ := step_enabled (reachable_inv h) hp hpc pick
    (fun h0 => (contains_eq_false_iff _ _).1 (hpick h0))
  refine ⟨s', hs, sched ++ [(i, pick)], ?_⟩
  rw [run_append, h, Option.bind_some, run_cons, hs]; rfl

/-- An unoccupied name always exists (the directory is finite). -/
theorem fresh_exists (d : Dict Str) : ∃ n, Dict.contains d n = false :=
  ⟨freshName (Dict.keys d) 0, (contains_eq_false_iff _ _).2 (freshName_not_mem _ _)⟩

/-- **Progress (deadlock freedom).**  From every reachable state — for every number of processes —
some continuation finishes all processes. -/
theorem progress (datas : List Str) (dir0 : Dict Str) (s : Sys) (h : Reachable datas dir0 s) :
    ∃ sched s', run s sched = some s' ∧ s'.finished = true := by
  obtain ⟨sched, h⟩ := h
  exact can_finish _ s (reachable_inv h) rfl

/-- In particular, for every `N` and every initial directory there is a finishing schedule. -/
theorem finishing_schedule_exists (datas : List Str) (dir0 : Dict Str) :
    ∃ sched s, run (init datas dir0) sched = some s ∧ s.finished = true :=
  progress datas dir0 _ ⟨[], rfl⟩

/-- **Every fair schedule with private fresh picks finishes.**  If no pick of the schedule is an
initial file, two different processes are never offered the same pick, and every process is
scheduled exactly 5 times (and nothing else is scheduled), then the schedule is admissible — no step
is disabled, no process crashes — and it ends with all processes finished. -/
theorem fair_schedule_finishes (datas : List Str) (dir0 : Dict Str) (sched : Schedule)
    (hfresh : ∀ x ∈ sched, x.2 ∉ Dict.keys dir0)
    (hpriv : ∀ x ∈ sched, ∀ y ∈ sched, x.2 = y.2 → x.1 = y.1)
    (hcount : ∀ i, countProc sched i = if i < datas.length then 5 else 0) :
    ∃ s, run (init datas dir0) sched = some s ∧ s.finished = true := by
  have hinit : ∀ (i : Nat) (p : Proc), (init datas dir0).procs[i]? = some p → p.pc = 0 := by
    intro i p hp
    simp only [init, List.getElem?_map, Option.map_eq_some_iff] at hp
    obtain ⟨d, _, rfl⟩ := hp; rfl
  have htodo : ∀ i, todo (init datas dir0) i = if i < datas.length then 5 else 0 := by
    intro i
    unfold todo
    cases hp : (init datas dir0).procs[i]? with
    | none =>
      have := List.getElem?_eq_none_iff.1 hp
      simp only [init, List.length_map] at this
      simp only [if_neg (by omega : ¬ i < datas.length)]
    | some p =>
      have hi : i < datas.length := by
        have := (List.getElem?_eq_some_iff.1 hp).1
        simpa [init] using this
      simp only [hinit i p hp, if_pos hi]
  obtain ⟨s, hrun, hres⟩ := run_total sched (init datas dir0) (init_inv datas dir0) hfresh
    (by
      intro x _ j q _ hq hh
      have := hinit j q hq
      have := (holding_tmp hh).2.1
      omega)
    hpriv (fun i => by rw [hcount, htodo]; exact Nat.le_refl _)
  refine ⟨s, hrun, (finished_iff s).2 ?_⟩
  intro p hp
  obtain ⟨i, hi⟩ := List.mem_iff_getElem?.1 hp
  have h1 := hres i
  rw [hcount, htodo] at h1
  have h2 : todo s i = 0 := by omega
  have h3 := inv_pc_le (run_inv (init_inv datas dir0) hrun) p hp
  simp only [todo, hi] at h2
  omega

/-- One round of the round-robin scheduler: process `0, 1, …, N-1` in turn, process `i` being offered
`names[i]`. -/
def round (names : List Str) : Schedule := (List.range names.length).zip names

/-- Round-robin: five rounds (all `mkstemp`, then all `write`, … — all `N` temp files exist
simultaneously). -/
def roundRobin (names : List Str) : Schedule :=
  round names ++ round names ++ round names ++ round names ++ round names

theorem mem_round {names : List Str} {x : Nat × Str} (h : x ∈ round names) : names[x.1]? = some x.2 := by
  obtain ⟨i, a⟩ := x
  unfold round at h
  obtain ⟨k, hk⟩ := List.mem_iff_getElem?.1 h
  rw [List.getElem?_zip_eq_some] at hk
  obtain ⟨h1, h2⟩ := hk
  have hk' : k < names.length := (List.getElem?_eq_some_iff.1 h2).1
  rw [List.getElem?_range hk'] at h1
  simp only [Option.some.injEq] at h1
  subst h1; exact h2

theorem mem_roundRobin {names : List Str} {x : Nat × Str} (h : x ∈ roundRobin names) :
    names[x.1]? = some x.2 := by
  simp only [roundRobin, List.mem_append, or_self] at h
  exact mem_round h

theorem countProc_round (names : List Str) (i : Nat) :
    countProc (round names) i = if i < names.length then 1 else 0 := by
  unfold countProc round
  rw [List.map_fst_zip (by simp)]
  exact List.count_range

/-- **Round-robin with distinct fresh names finishes**, for every number of processes. -/
theorem roundRobin_finishes (datas : List Str) (dir0 : Dict Str) (names : List Str)
    (hlen : names.length = datas.length) (hnd : names.Nodup)
    (hfresh : ∀ n ∈ names, n ∉ Dict.keys dir0) :
    ∃ s, run (init datas dir0) (roundRobin names) = some s ∧ s.finished = true := by
  apply fair_schedule_finishes
  · intro x hx
    exact hfresh _ (List.mem_of_getElem? (mem_roundRobin hx))
  · intro x hx y hy hxy
    have h1 := mem_roundRobin hx
    have h2 := mem_roundRobin hy
    rw [hxy] at h1
    exact (List.getElem?_inj (List.getElem?_eq_some_iff.1 h1).1 hnd).1 (h1.trans h2.symm)
  · intro i
    have := countProc_round names i
    simp only [countProc, roundRobin, List.map_append, List.count_append] at this ⊢
    rw [this, hlen]
    split <;> rfl

/-- Distinct fresh names exist for every directory and every `N`. -/
def freshNames (dir0 : Dict Str) (n : Nat) : List Str :=
  (List.range n).map (freshName (Dict.keys dir0))

theorem freshNames_ok (dir0 : Dict Str) (n : Nat) :
    (freshNames dir0 n).length = n ∧ (freshNames dir0 n).Nodup ∧
    ∀ a ∈ freshNames dir0 n, a ∉ Dict.keys dir0 := by
  refine ⟨by simp [freshNames], ?_, ?_⟩
  · unfold freshNames
    exact List.Pairwise.map _ (fun a b hab e => hab (freshName_inj _ e)) List.nodup_range
  · intro a ha
    simp only [freshNames, List.mem_map] at ha
    obtain ⟨k, _, rfl⟩ := ha
    exact freshName_not_mem _ _

/-- For every `N` and every initial directory the round-robin schedule over the canonical fresh
names is an explicit finishing schedule. -/
theorem roundRobin_fresh_finishes (datas : List Str) (dir0 : Dict Str) :
    ∃ s, run (init datas dir0) (roundRobin (freshNames dir0 datas.length)) = some s ∧
      s.finished = true :=
  roundRobin_finishes datas dir0 _ (freshNames_ok dir0 _).1 (freshNames_ok dir0 _).2.1
    (freshNames_ok dir0 _).2.2

/-! ## 5. Readers -/

/-- **Readers agree.**  Any number `n` of read-only sessions on one finished database file `file`,
interleaved by any schedule with any chunk sizes: the file is unchanged, and every session has read
exactly the prefix of `file` before its cursor; a session that reached end-of-file has read exactly
`file`.  (Content of the theorem: the classification "reads do not write", C19 — no operation of the
reader model assigns the file, so sessions cannot influence one another.) -/
theorem readers_agree (file : Str) (n : Nat) (sched : List (Nat × Nat)) (s : RSys)
    (h : rrun (rinit file n) sched = some s) :
    s.file = file ∧ s.readers.length = n ∧
    ∀ r ∈ s.readers, r.pos ≤ file.length ∧ r.buf = file.take r.pos ∧
      (r.pos = file.length → r.buf = file) := by
  have hinv := rrun_inv (rinit_inv file n) h
  refine ⟨hinv.same, hinv.len, ?_⟩
  intro r hr
  obtain ⟨h1, h2⟩ := hinv.pre r hr
  refine ⟨h1, h2, ?_⟩
  intro he; rw [h2, he, List.take_length]

/-- Any two sessions that reached end-of-file observed the same content. -/
theorem readers_agree_pairwise (file : Str) (n : Nat) (sched : List (Nat × Nat)) (s : RSys)
    (h : rrun (rinit file n) sched = some s) (r1 r2 : Reader) (h1 : r1 ∈ s.readers)
    (h2 : r2 ∈ s.readers) (e1 : r1.pos = file.length) (e2 : r2.pos = file.length) :
    r1.buf = r2.buf := by
  have := (readers_agree file n sched s h).2.2
  rw [(this r1 h1).2.2 e1, (this r2 h2).2.2 e2]

/-- Readers never block one another: every schedule over existing sessions is admissible. -/
theorem readers_never_block (file : Str) (n : Nat) (sched : List (Nat × Nat))
    (hidx : ∀ x ∈ sched, x.1 < n) : ∃ s, rrun (rinit file n) sched = some s :=
  rrun_total sched _ (rinit_inv file n) hidx

/-! ## Non-vacuity, concrete interleavings, negative control -/

section Examples

private def dA : Str := ['a', 'a']
private def dB : Str := ['b']
private def dC : Str := ['c', 'c', 'c']
private def t1 : Str := ['t', '1']
private def t2 : Str := ['t', '2']
private def t3 : Str := ['t', '3']
/-- somebody else's file, present before and after -/
private def other : Dict Str := [(['o'], ['x', 'y'])]

/-- an interleaved (not round-robin, not sequential) schedule of three imports; process 1 re-uses the
name `t1` after process 0 has unlinked it -/
private def sched3 : Schedule :=
  [(0, t1), (2, t2), (0, []), (2, []), (0, []), (0, []), (1, t1), (2, []), (1, []), (0, []),
   (1, []), (2, []), (1, []), (2, []), (1, [])]

/-- Three interleaved imports: the schedule is admissible, everybody finishes, each output is the
process's own payload, and the directory is back to its initial content. -/
example : (run (init [dA, dB, dC] other) sched3).map (fun s => (s.finished, s.outputs, s.tmpdir))
    = some (true, [some dA, some dB, some dC], other) := by decide +kernel

/-- The general theorems apply to it (hypothesis `Reachable` is satisfiable with a finished state). -/
example : ∃ s, Reachable [dA, dB, dC] other s ∧ s.finished = true ∧ s.tmpdir = other := by
  have h : (run (init [dA, dB, dC] other) sched3).isSome = true := by decide +kernel
  obtain ⟨s, hs⟩ := Option.isSome_iff_exists.1 h
  have hfin : s.finished = true := by
    have : (run (init [dA, dB, dC] other) sched3).map (·.finished) = some true := by decide +kernel
    rw [hs] at this; simpa using this
  exact ⟨s, ⟨sched3, hs⟩, hfin, cleanup _ _ s ⟨sched3, hs⟩ hfin⟩

/-- The ownership invariant is not vacuous: a reachable state in which two processes hold temp files
simultaneously (process 0 has written, process 1 has only created), next to the foreign file. -/
example : (run (init [dA, dB] other) [(0, t1), (1, t2), (0, [])]).map
      (fun s => (s.procs.map (·.holding), s.tmpdir, heldFiles s.procs))
    = some ([some t1, some t2], other ++ [(t1, dA), (t2, [])], [(t1, dA), (t2, [])]) := by
  decide +kernel

/-- O_EXCL at work: the adversary offering process 1 the name process 0 holds is refused … -/
example : run (init [dA, dB] other) [(0, t1), (1, t1)] = none := by decide +kernel
/-- … and so is a name of somebody else's file. -/
example : run (init [dA, dB] other) [(0, ['o'])] = none := by decide +kernel

/-- Round-robin, 3 processes, names from `freshNames`: hypotheses of `roundRobin_finishes` hold and
its conclusion is confirmed by evaluation. -/
example : (freshNames other 3).length = 3 ∧ (freshNames other 3).Nodup ∧
    (∀ a ∈ freshNames other 3, a ∉ Dict.keys other) := freshNames_ok other 3
example : (run (init [dA, dB, dC] other) (roundRobin [t1, t2, t3])).map
      (fun s => (s.finished, s.outputs, s.tmpdir))
    = some (true, [some dA, some dB, some dC], other) := by decide +kernel

/-- **Negative control.**  Without the O_EXCL check (`runUnsafe`) there is a 2-process schedule in
which both processes get the same name, process 1 overwrites process 0's file, and process 0 reads —
and then outputs — process 1's payload: isolation fails.  Freshness of `mkstemp` is exactly the
assumption the theorems use. -/
example : (runUnsafe (init [dA, dB] []) [(0, t1), (1, t1), (0, []), (1, []), (0, [])]).map
      (fun s => s.procs.map (fun p => (p.data, p.buf)))
    = some [(dA, some dB), (dB, none)] := by decide +kernel

/-- Continuing the unsafe run: process 0 unlinks the shared file and writes the WRONG output; process
1 then crashes on `read` (`FileNotFoundError`), so the whole schedule is not even admissible. -/
example : (runUnsafe (init [dA, dB] []) [(0, t1), (1, t1), (0, []), (1, []), (0, []), (0, []), (0, [])]).map
      (fun s => s.outputs) = some [some dB, none] := by decide +kernel
example : runUnsafe (init [dA, dB] [])
    [(0, t1), (1, t1), (0, []), (1, []), (0, []), (0, []), (0, []), (1, [])] = none := by decide +kernel

/-- The same schedule under the real `run` is refused at the second `mkstemp`. -/
example : run (init [dA, dB] []) [(0, t1), (1, t1), (0, []), (1, []), (0, [])] = none := by
  decide +kernel

/-- Readers: three sessions reading a 5-character file with different chunk sizes, interleaved; all
three end with the full content and the file is unchanged. -/
example : (rrun (rinit ['h', 'e', 'l', 'l', 'o'] 3)
      [(0, 2), (1, 5), (2, 1), (0, 1), (2, 3), (0, 7), (2, 1), (1, 4)]).map
      (fun s => (s.file, s.readers.map (·.buf)))
    = some (['h', 'e', 'l', 'l', 'o'],
        [['h', 'e', 'l', 'l', 'o'], ['h', 'e', 'l', 'l', 'o'], ['h', 'e', 'l', 'l', 'o']]) := by
  decide +kernel

end Examples

end GffProofs.C20
