/-
  C08 (part a) — percent-encoding round trip and totality of the attribute parser.
-/
import GffModel.Parser
import GffProofs.Lemmas.SplitJoin
import GffProofs.Lemmas.SplitTotal
import GffProofs.Lemmas.QuoteRoundTrip

namespace GffProofs.C08
open GffModel GffModel.Parser

/-- **unquote ∘ quote = id** for every string of Unicode scalar values. -/
theorem unquote_quote (s : Str) : Quote.unquote (Quote.quoteStr s) = s :=
  QuoteRT.unquote_quoteStr s

/-- **Parsing never fails (inferring path)**: for every string whatsoever. -/
theorem split_total_infer (s : Str) (ie : Bool) : ∃ r, splitKeyvals s none ie = .ok r := by
  unfold splitKeyvals
  dsimp only
  split
  · exact ⟨_, rfl⟩
  · exact splitInfer_total s ie

/-- **Parsing never fails (supplied dialect)**: for every string and every dialect whose two
separators are non-empty (Python's `str.split("")` raises `ValueError`). -/
theorem split_total_provided (s : Str) (d : Dialect) (ie : Bool)
    (h1 : d.fieldSep ≠ []) (h2 : d.kvSep ≠ []) : ∃ r, splitKeyvals s (some d) ie = .ok r := by
  unfold splitKeyvals
  dsimp only
  split
  · exact ⟨_, rfl⟩
  · exact splitProvided_total s d ie h1 h2

/-- and with an empty separator the result is exactly Python's `ValueError` (non-empty input) -/
theorem split_provided_empty_sep (s : Str) (d : Dialect) (ie : Bool) (hs : s ≠ [])
    (h : d.fieldSep = [] ∨ d.kvSep = []) : splitKeyvals s (some d) ie = .error .value := by
  unfold splitKeyvals
  dsimp only
  split
  · rename_i he
    exact absurd (List.isEmpty_iff.mp he) hs
  · exact splitProvided_empty s d ie h

/-! ### non-vacuity -/

-- the encoder really changes this input (reserved `;`, `=`, `%`, TAB next to a non-ASCII letter) …
example : Quote.quoteStr "a;b=é%\t".toList = "a%3Bb%3Dé%25%09".toList := by decide
-- … and the theorem gives back the original
example : Quote.unquote (Quote.quoteStr "a;b=é%\t".toList) = "a;b=é%\t".toList := unquote_quote _

example : ∃ r, splitKeyvals "ID=g1;Name=x,y;".toList none false = .ok r := split_total_infer _ _
example : ∃ r, splitKeyvals "gene_id \"g1\"; tx \"t\";".toList none false = .ok r := split_total_infer _ _

example : ∃ r, splitKeyvals "ID=g1;Name=x,y".toList (some Dialect.default) false = .ok r :=
  split_total_provided _ _ _ (by decide) (by decide)

example : splitKeyvals "ID=g1".toList (some { Dialect.default with kvSep := [] }) false = .error .value :=
  split_provided_empty_sep _ _ _ (by decide) (Or.inr rfl)
example : splitKeyvals "ID=g1".toList (some { Dialect.default with fieldSep := [] }) false = .error .value :=
  split_provided_empty_sep _ _ _ (by decide) (Or.inl rfl)

end GffProofs.C08

