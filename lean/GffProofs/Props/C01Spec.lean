/-
  C01 — specification definitions (domain predicates and expected results) used by the theorems of
  `GffProofs/Props/C01.lean`.  Nothing is proved here; every definition is written from the property
  text and the grammar (`GffModel/Grammar.lean`), not from the control flow of the model.
-/
import GffModel.Grammar
import GffModel.Interface
import GffProofs.Props.C02

namespace GffModel.Grammar

/-- **Relaxed well-formedness for the provided-dialect path.**  `LineSpec.WF` minus the clauses that only
concern dialect *inference*:

* the four "unobservable dimensions take their defaults" clauses (`if … then s.sep == [';'] …`): a line
  with no attribute / one part / no multi-valued key / only flags need not *exhibit* the dialect it is
  written in;
* the two first-item clauses (first key all word characters, first item valued) that steer the
  `gff3_kw_pat` test of the inferring parser;
* `itemTextOk` (an unquoted value text must not look quoted): the provided path strips quotes only when
  the dialect says `quoted`, so `note="x"` is read back unchanged under an unquoted dialect.

What remains: eight clean columns, canonical coordinates, one of the three field separators, clean
distinct keys, clean non-empty values.  Flags (`key` in gff3-style, `key ""` in GTF) and an EMPTY
attribute column need no extra condition (checked with `#eval` on the model: `ID=a;flag`, `flag;ID=a`,
`tag "";`, `""` all parse to the expected mapping under a provided dialect). -/
def LineSpec.WFprov (s : LineSpec) : Bool :=
  s.cols.length == 8 && s.cols.all colOk && s.extra.all colOk &&
  ((s.cols[3]?).getD [] == ['.'] || canonInt ((s.cols[3]?).getD [])) &&
  ((s.cols[4]?).getD [] == ['.'] || canonInt ((s.cols[4]?).getD [])) &&
  (s.sep == [';'] || s.sep == [';', ' '] || s.sep == [' ', ';', ' ']) &&
  s.attrs.all (fun it => keyOk s it.key && it.vals.all (valOk s)) &&
  (s.attrs.map (·.key)).Nodup

end GffModel.Grammar

namespace GffProofs.C01
open GffModel GffModel.Parser GffModel.Grammar GffModel.Create GffModel.Interface
open GffProofs.C02 (idOf idKey)

/-! ### dialects and key order -/

/-- the dialect with the dimensions `s` is written in and key order `ord` -/
def dOf (s : LineSpec) (ord : List Str) : Dialect :=
  { leadingSemicolon := false, trailingSemicolon := s.trailing, quoted := s.quoted, fieldSep := s.sep,
    kvSep := s.kvSep, multiSep := [','], fmt := s.fmt, repeatedKeys := s.repeated, order := ord }

/-- `d` has the dimensions `s` is written in; `d.order` is arbitrary -/
structure HasDims (d : Dialect) (s : LineSpec) : Prop where
  lead : d.leadingSemicolon = false
  trailing : d.trailingSemicolon = s.trailing
  quoted : d.quoted = s.quoted
  fieldSep : d.fieldSep = s.sep
  kvSep : d.kvSep = s.kvSep
  multiSep : d.multiSep = [',']
  fmt : d.fmt = s.fmt
  repeated : d.repeatedKeys = s.repeated

/-- two specifications make the same five writer-side choices -/
structure SameDims (s t : LineSpec) : Prop where
  sep : s.sep = t.sep
  trailing : s.trailing = t.trailing
  style : s.style = t.style
  quoted : s.quoted = t.quoted
  repeated : s.repeated = t.repeated

instance (d : Dialect) (s : LineSpec) : Decidable (HasDims d s) :=
  decidable_of_iff (d.leadingSemicolon = false ∧ d.trailingSemicolon = s.trailing ∧ d.quoted = s.quoted ∧
      d.fieldSep = s.sep ∧ d.kvSep = s.kvSep ∧ d.multiSep = [','] ∧ d.fmt = s.fmt ∧ d.repeatedKeys = s.repeated)
    ⟨fun ⟨a, b, c, e, f, g, h, i⟩ => ⟨a, b, c, e, f, g, h, i⟩, fun ⟨a, b, c, e, f, g, h, i⟩ => ⟨a, b, c, e, f, g, h, i⟩⟩

instance (s t : LineSpec) : Decidable (SameDims s t) :=
  decidable_of_iff (s.sep = t.sep ∧ s.trailing = t.trailing ∧ s.style = t.style ∧ s.quoted = t.quoted ∧
      s.repeated = t.repeated)
    ⟨fun ⟨a, b, c, e, f⟩ => ⟨a, b, c, e, f⟩, fun ⟨a, b, c, e, f⟩ => ⟨a, b, c, e, f⟩⟩

/-- the key of every written part, in order (a repeated key once per part) -/
def partKeys (s : LineSpec) : List Str :=
  s.attrs.flatMap (fun it => if s.repeated ∧ it.vals.length > 1 then it.vals.map (fun _ => it.key) else [it.key])

/-- position of `k` in `order`; `order.length` for a key the order does not know (so unknown keys sort
last — Python's `sort_key` answers `1e6` for them) -/
def keyRank (order : List Str) (k : Str) : Nat := order.findIdx (· = k)

/-- **order consistency** (hypothesis (ii) of DESIGN.md §C01): stable-sorting the part keys of `s` by
their rank in `order` is the identity -/
def OrderConsistent (order : List Str) (s : LineSpec) : Prop :=
  (partKeys s).mergeSort (fun a b => decide (keyRank order a ≤ keyRank order b)) = partKeys s

/-! ### storage -/

/-- the `bin` column: `calc_bin()` recomputed from the coordinates -/
def binCol (f : Feature) : Option Int :=
  match Feature.calcBin f.start f.stop with
  | some (.int i) => some i
  | _ => none

/-- the row stored for a feature filed under `id`: the ten data fields are copied, the bin recomputed -/
def rowOf (f : Feature) (id : Str) : Row :=
  { id := id, seqid := f.seqid, source := f.source, ftype := f.ftype, start := f.start, stop := f.stop,
    score := f.score, strand := f.strand, frame := f.frame, attrs := f.attrs, extra := f.extra,
    bin := binCol f }

/-- the row the GFF importer stores for a feature: its key is the single `ID` value -/
def storedRow (f : Feature) : Row := rowOf f ((idOf f).getD [])

/-- the Feature an open database hands back for input feature `f`: the eight columns, attributes and
extra columns of `f`; `id` = its `ID`; bin recomputed; the DATABASE's dialect and the session's
`keep_order` / `sort_attribute_values`; no file order -/
def returned (d : Dialect) (ko sv : Bool) (f : Feature) : Feature :=
  { f with id := idOf f, bin := Feature.calcBin f.start f.stop, dialect := d, fileOrder := none,
           keepOrder := ko, sortVals := sv }

/-! ### lines and files -/

/-- `"."`/`""` ↦ `None`, canonical decimal text ↦ the integer (what `Feature.__init__` computes) -/
def coordOf (c : Str) : Option Int :=
  match Feature.parseCoord c with
  | .ok o => o
  | .error _ => none

/-- the Feature `feature_from_line(line, dialect=d)` builds from a rendered specification -/
def provFeature (s : LineSpec) (d : Dialect) (ko : Bool) : Feature :=
  { seqid := (s.cols[0]?).getD ['.'], source := (s.cols[1]?).getD ['.'], ftype := (s.cols[2]?).getD ['.'],
    start := coordOf ((s.cols[3]?).getD ['.']), stop := coordOf ((s.cols[4]?).getD ['.']),
    score := (s.cols[5]?).getD ['.'], strand := (s.cols[6]?).getD ['.'],
    frame := (s.cols[7]?).getD ['.'], attrs := s.mapping, extra := s.extra,
    bin := Feature.calcBin (coordOf ((s.cols[3]?).getD ['.'])) (coordOf ((s.cols[4]?).getD ['.'])),
    dialect := d, keepOrder := ko }


/-- the `ID` of a line specification when it carries exactly one -/
def specId (s : LineSpec) : Option Str :=
  match s.mapping.get? idKey with
  | some [v] => some v
  | _ => none

/-- C02's `GraphOk` at the level of line specifications: a non-empty file whose lines all carry one
`ID`, pairwise different -/
structure IdsOk (specs : List LineSpec) : Prop where
  nonempty : specs ≠ []
  ids : ∀ s ∈ specs, ∃ id, specId s = some id
  nodup : (specs.filterMap specId).Nodup

end GffProofs.C01
