/-
  C09 (part c) — the dialect a database reports is the dialect of the input it was CREATED from,
  whatever is imported later, and that dialect's format keeps deciding which importer `update` runs.

  Mechanism (model = real code): `FeatureDB.__init__` reads the FIRST row of the `meta` table
  (`Interface.openDb`), `_finalize` APPENDS one row per non-empty `update` (`Create.finalize`), and nothing
  else writes that table.  A code change that made either side use "the last row" / "replace the row"
  would break the property although no earlier theorem mentioned the table order.

  * `openDb_dialect_head`   — opening succeeds iff there is a meta row; the session's dialect is the first.
  * `createDb_tables`       — `create_db` writes exactly one meta row (the input's dialect) and `dirs`.
  * `update_tables`         — every successful `update` (both importers, any configuration, the empty
                              no-op included) keeps the session's dialect and appends `updateMeta cfg fs`.
  * `update_reopen_dialect` — under `MetaOk` the reopened database reports the same dialect.
  * `history_tables`, `history_dialect` — the same along every finite history of update / delete /
                              add_relation / reopen steps with arbitrary per-step configurations.
  * `update_eq_via`, `history_update_branch` — the branch `update` takes is a function of the CREATION
                              dialect's `fmt` (and of whether the input is empty) only.
-/
import GffProofs.Props.C10

namespace GffProofs.C09
open GffModel GffModel.Create GffModel.Interface
open GffProofs.C10 (Frame update_shape populateGff_frame populateGtf_frame updateRelationsGtf_frame
  updateRelationsGff_frame delete_untouched addRelation_refines_spec)

/-! ### Specification -/

/-- the invariant: the FIRST meta row is the dialect the session works with -/
def MetaOk (s : Session) : Prop := ∃ rest, s.db.metaRows = s.dialect :: rest

/-- the session's copy of the directives is what the file holds -/
def DirOk (s : Session) : Prop := s.directives = s.db.directives

/-- the meta rows one `update` appends: none for an empty input (a no-op), otherwise the dialect of the
update's OWN input -/
def updateMeta (cfg : Cfg) (fs : List Feature) : List Dialect := if fs = [] then [] else [cfg.dialect]

/-- one step of a history; every `update` carries its own full configuration (id_spec, strategy, keys,
dialect of its input), every `reopen` its own flags -/
inductive HStep
  | update (cfg : Cfg) (fs : List Feature)
  | delete (ids : List Str)
  | addRelation (p c : Str) (l : Int)
  | reopen (keepOrder sortVals : Bool)

def HStep.apply (s : Session) : HStep → Py Session
  | .update cfg fs => Interface.update s cfg fs
  | .delete ids => .ok (Interface.delete s ids)
  | .addRelation p c l => Interface.addRelation s p c l
  | .reopen ko sv => openDb s.db ko sv

def runSteps (s : Session) : List HStep → Py Session
  | [] => .ok s
  | st :: rest =>
    match st.apply s with
    | .ok s' => runSteps s' rest
    | .error e => .error e

/-- the meta rows a step appends -/
def HStep.metaRows : HStep → List Dialect
  | .update cfg fs => updateMeta cfg fs
  | _ => []

/-- the meta rows a history appends, in order -/
def histMeta (steps : List HStep) : List Dialect := steps.flatMap HStep.metaRows

/-- which way `update` goes -/
inductive UpdBranch | noop | gtf | gff | unsupported
  deriving DecidableEq, Repr

/-- the routing of `FeatureDB.update`, as a function of a format string and the input's emptiness -/
def updateBranch (fmt : Str) (fs : List Feature) : UpdBranch :=
  if fs = [] then .noop else if fmt = Parser.gtf then .gtf else if fmt = Parser.gff3 then .gff else .unsupported

/-- what each branch does: nothing / the GTF importer / the GFF importer on the open database with the live
counters, then `_finalize` with the update's dialect and no directives / `ValueError` -/
def updateVia : UpdBranch → Session → Cfg → List Feature → Py Session
  | .noop, s, _, _ => .ok s
  | .gtf, s, cfg, fs => do
    let (db, auto) ← populateGtf cfg s.db s.auto fs
    let (db, auto) ← updateRelationsGtf cfg db auto
    pure { s with db := finalize db cfg.dialect [] auto, auto := auto }
  | .gff, s, cfg, fs => do
    let (db, auto) ← populateGff cfg s.db s.auto fs
    pure { s with db := finalize (updateRelationsGff db) cfg.dialect [] auto, auto := auto }
  | .unsupported, _, _, _ => .error .value

/-! ### 1. opening reads the first meta row -/

/-- **`FeatureDB(dbfn).dialect` is the FIRST meta row**; the session is otherwise a copy of the file's
tables.  (No row at all: `TypeError`.) -/
theorem openDb_dialect_head (db : Db) (ko sv : Bool) (s : Session) (h : openDb db ko sv = .ok s) :
    ∃ d rest, db.metaRows = d :: rest ∧ s.dialect = d ∧
      s = { db := db, auto := db.autoinc, dialect := d, directives := db.directives, keepOrder := ko,
            sortVals := sv } := by
  unfold openDb at h
  split at h
  · cases h
  · rename_i d rest hm
    cases h
    exact ⟨d, rest, hm, rfl, rfl⟩

theorem openDb_of_head (db : Db) (ko sv : Bool) (d : Dialect) (rest : List Dialect) (h : db.metaRows = d :: rest) :
    openDb db ko sv = .ok { db := db, auto := db.autoinc, dialect := d, directives := db.directives,
                            keepOrder := ko, sortVals := sv } := by
  unfold openDb; rw [h]

theorem openDb_none (db : Db) (ko sv : Bool) (h : db.metaRows = []) : openDb db ko sv = .error .type := by
  unfold openDb; rw [h]

/-- opening establishes both invariants -/
theorem openDb_inv (db : Db) (ko sv : Bool) (s : Session) (h : openDb db ko sv = .ok s) :
    MetaOk s ∧ DirOk s ∧ s.db = db := by
  obtain ⟨d, rest, hm, _, rfl⟩ := openDb_dialect_head db ko sv s h
  exact ⟨⟨rest, hm⟩, rfl, rfl⟩

/-! ### 2. what `create_db` and `update` write to the `meta` and `directives` tables -/

/-- **`create_db` writes exactly one meta row — the dialect of the input — and exactly the directives it
was handed** (both importers, every configuration and input) -/
theorem createDb_tables (imp : Importer) (cfg : Cfg) (dirs : List Str) (fs : List Feature) (db : Db)
    (h : createDb imp cfg dirs fs = .ok db) : db.metaRows = [cfg.dialect] ∧ db.directives = dirs := by
  unfold createDb at h
  simp only [bind, Except.bind, pure, Except.pure] at h
  cases imp with
  | gff =>
    simp only at h
    split at h
    · cases h
    · rename_i v h1
      obtain ⟨db1, auto1⟩ := v
      cases h
      have fr := (populateGff_frame _ _ _ _ _ _ h1).trans (updateRelationsGff_frame db1)
      exact ⟨by show (updateRelationsGff db1).metaRows ++ _ = _; rw [fr.metaRows]; rfl,
             by show (updateRelationsGff db1).directives ++ _ = _; rw [fr.directives]; rfl⟩
  | gtf =>
    simp only at h
    split at h
    · cases h
    · rename_i v h1
      obtain ⟨db1, auto1⟩ := v
      split at h
      · cases h
      · rename_i v2 h2
        obtain ⟨db2, auto2⟩ := v2
        cases h
        have fr := (populateGtf_frame _ _ _ _ _ _ h1).trans (updateRelationsGtf_frame _ _ _ _ _ h2)
        exact ⟨by show db2.metaRows ++ _ = _; rw [fr.metaRows]; rfl,
               by show db2.directives ++ _ = _; rw [fr.directives]; rfl⟩

/-- **every successful `update` keeps the session's dialect and appends its own** — GFF3 and GTF
databases, every configuration / strategy / input, the empty-input no-op included: the dialect,
directives and flags of the session are untouched; the `meta` table gains `updateMeta cfg fs` AT THE
END; the `directives` table is untouched (the model passes `[]` to `_finalize`). -/
theorem update_tables (s s' : Session) (cfg : Cfg) (fs : List Feature) (h : update s cfg fs = .ok s') :
    s'.dialect = s.dialect ∧ s'.directives = s.directives ∧
    s'.keepOrder = s.keepOrder ∧ s'.sortVals = s.sortVals ∧
    s'.db.metaRows = s.db.metaRows ++ updateMeta cfg fs ∧ s'.db.directives = s.db.directives := by
  rcases update_shape s s' cfg fs h with ⟨hnil, rfl⟩ | ⟨hne, db, auto, fr, _, rfl⟩
  · simp [updateMeta, hnil]
  · refine ⟨rfl, rfl, rfl, rfl, ?_, ?_⟩
    · show db.metaRows ++ [cfg.dialect] = _
      rw [fr.metaRows, updateMeta, if_neg hne]
    · show db.directives ++ [] = _
      rw [fr.directives, List.append_nil]

/-- **the reopened database reports the dialect it reported before the `update`** -/
theorem update_reopen_dialect (s s' : Session) (cfg : Cfg) (fs : List Feature) (h : update s cfg fs = .ok s')
    (hm : MetaOk s) :
    MetaOk s' ∧ ∀ ko sv, ∃ s'', openDb s'.db ko sv = .ok s'' ∧ s''.dialect = s.dialect ∧
      s''.directives = s.db.directives := by
  obtain ⟨hd, _, _, _, hmr, hdir⟩ := update_tables s s' cfg fs h
  obtain ⟨rest, hr⟩ := hm
  have hm' : s'.db.metaRows = s.dialect :: (rest ++ updateMeta cfg fs) := by rw [hmr, hr]; rfl
  refine ⟨⟨_, by rw [hd]; exact hm'⟩, fun ko sv => ⟨_, openDb_of_head _ ko sv _ _ hm', rfl, hdir⟩⟩

/-! ### 3. histories -/

/-- one step: the `meta` table gains exactly the step's rows at the end, the `directives` table does not
move, and both invariants (with the session's dialect) are preserved -/
theorem step_tables (s s' : Session) (st : HStep) (h : st.apply s = .ok s') :
    s'.db.metaRows = s.db.metaRows ++ st.metaRows ∧ s'.db.directives = s.db.directives ∧
    (MetaOk s → s'.dialect = s.dialect ∧ MetaOk s') ∧ (DirOk s → DirOk s' ∧ s'.directives = s.directives) := by
  cases st with
  | update cfg fs =>
    obtain ⟨hd, hdirs, _, _, hmr, hdir⟩ := update_tables s s' cfg fs h
    refine ⟨hmr, hdir, fun hm => ⟨hd, (update_reopen_dialect s s' cfg fs h hm).1⟩, fun ho => ⟨?_, hdirs⟩⟩
    unfold DirOk at ho ⊢; rw [hdirs, hdir, ho]
  | delete ids =>
    cases h
    obtain ⟨_, hd, hdirs, _, _, _, hmr, hdir, _⟩ := delete_untouched s ids
    refine ⟨by rw [hmr]; simp [HStep.metaRows], hdir, fun ⟨rest, hr⟩ => ⟨hd, rest, by rw [hmr, hd, hr]⟩,
      fun ho => ⟨?_, hdirs⟩⟩
    unfold DirOk at ho ⊢; rw [hdirs, hdir, ho]
  | addRelation p c l =>
    obtain ⟨_, _, e⟩ := addRelation_refines_spec _ _ _ _ _ h
    rw [e]
    exact ⟨by simp [HStep.metaRows], rfl, fun hm => ⟨rfl, hm⟩, fun ho => ⟨ho, rfl⟩⟩
  | reopen ko sv =>
    obtain ⟨d, rest, hm, _, rfl⟩ := openDb_dialect_head _ ko sv s' h
    refine ⟨by simp [HStep.metaRows], rfl, fun ⟨rest', hr⟩ => ?_, fun ho => ⟨rfl, ho.symm⟩⟩
    rw [hr] at hm
    have hc := List.cons.inj hm
    exact ⟨hc.1.symm, rest', by rw [← hc.1]; exact hr⟩

/-- **every successful history**, from ANY session: the `meta` table is the old one followed by the rows
of the non-empty updates in order; the `directives` table is the old one; a session whose dialect is the
first meta row ends as one, with the same dialect. -/
theorem history_tables (steps : List HStep) (s s' : Session) (h : runSteps s steps = .ok s') :
    s'.db.metaRows = s.db.metaRows ++ histMeta steps ∧ s'.db.directives = s.db.directives ∧
    (MetaOk s → s'.dialect = s.dialect ∧ MetaOk s') ∧ (DirOk s → DirOk s' ∧ s'.directives = s.directives) := by
  induction steps generalizing s with
  | nil => cases h; exact ⟨by simp [histMeta], rfl, fun hm => ⟨rfl, hm⟩, fun ho => ⟨ho, rfl⟩⟩
  | cons st rest ih =>
    simp only [runSteps] at h
    split at h
    · rename_i s1 h1
      obtain ⟨a1, b1, c1, d1⟩ := step_tables s s1 st h1
      obtain ⟨a2, b2, c2, d2⟩ := ih s1 h
      refine ⟨by rw [a2, a1, List.append_assoc]; rfl, b2.trans b1, fun hm => ?_, fun ho => ?_⟩
      · obtain ⟨e1, m1⟩ := c1 hm
        obtain ⟨e2, m2⟩ := c2 m1
        exact ⟨e2.trans e1, m2⟩
      · obtain ⟨o1, e1⟩ := d1 ho
        obtain ⟨o2, e2⟩ := d2 o1
        exact ⟨o2, e2.trans e1⟩
    · cases h

/-- **the dialect (and the directives) of a database are those of its creation, for its whole life.**
After `create_db` (either importer, any configuration `cfg`, directives `dirs`), opening, and ANY finite
sequence of successful update / delete / add_relation / reopen steps — each update with its own
arbitrary configuration and input dialect — the session's dialect is `cfg.dialect`, the `meta` table is
`cfg.dialect` followed by one row per non-empty update, the directives (session and table) are `dirs`,
and reopening with any flags succeeds and reads `cfg.dialect` and `dirs` again. -/
theorem history_dialect (imp : Importer) (cfg : Cfg) (dirs : List Str) (fs : List Feature) (db : Db)
    (ko sv : Bool) (s s' : Session) (steps : List HStep)
    (hc : createDb imp cfg dirs fs = .ok db) (ho : openDb db ko sv = .ok s) (hr : runSteps s steps = .ok s') :
    s.dialect = cfg.dialect ∧ s'.dialect = cfg.dialect ∧
    s'.db.metaRows = cfg.dialect :: histMeta steps ∧
    s'.directives = dirs ∧ s'.db.directives = dirs ∧
    ∀ ko' sv', ∃ s'', openDb s'.db ko' sv' = .ok s'' ∧ s''.dialect = cfg.dialect ∧ s''.directives = dirs := by
  obtain ⟨hmeta, hdirs⟩ := createDb_tables imp cfg dirs fs db hc
  obtain ⟨d, rest, hm, hd, hs⟩ := openDb_dialect_head db ko sv s ho
  obtain ⟨mok, dok, hdb⟩ := openDb_inv db ko sv s ho
  rw [hmeta] at hm
  cases hm
  obtain ⟨a, b, c, e⟩ := history_tables steps s s' hr
  obtain ⟨c1, _⟩ := c mok
  obtain ⟨e1, e2⟩ := e dok
  have hmr : s'.db.metaRows = cfg.dialect :: histMeta steps := by rw [a, hdb, hmeta]; rfl
  have hdr : s'.db.directives = dirs := by rw [b, hdb, hdirs]
  refine ⟨hd, c1.trans hd, hmr, by rw [e1]; exact hdr, hdr, fun ko' sv' => ?_⟩
  exact ⟨_, openDb_of_head _ ko' sv' _ _ hmr, rfl, hdr⟩

/-! ### 4. the importer `update` runs is chosen by the creation format -/

/-- `update` is its routing table: the branch is read off the SESSION's format, never off the input's -/
theorem update_eq_via (s : Session) (cfg : Cfg) (fs : List Feature) :
    update s cfg fs = updateVia (updateBranch s.dialect.fmt fs) s cfg fs := by
  unfold update updateBranch
  cases fs with
  | nil => rfl
  | cons f fs =>
    simp only [List.isEmpty_cons, Bool.false_eq_true, if_false, reduceCtorEq]
    by_cases h1 : s.dialect.fmt = Parser.gtf
    · simp only [h1, if_true]; rfl
    · by_cases h2 : s.dialect.fmt = Parser.gff3
      · simp only [h2, if_true]; rfl
      · simp only [h1, h2, if_false]; rfl

/-- **the branch every later `update` takes is a function of the CREATION dialect's format only**: after
the creation, opening and any successful history (whose updates may have brought input in any other
dialect), `update` with any configuration `cfg2` and input goes the way `cfg.dialect.fmt` says — the GTF
importer for a database created from GTF, the GFF importer for one created from GFF3, `ValueError` for any
other format string, and nothing at all for an empty input. -/
theorem history_update_branch (imp : Importer) (cfg : Cfg) (dirs : List Str) (fs : List Feature) (db : Db)
    (ko sv : Bool) (s s' : Session) (steps : List HStep)
    (hc : createDb imp cfg dirs fs = .ok db) (ho : openDb db ko sv = .ok s) (hr : runSteps s steps = .ok s')
    (cfg2 : Cfg) (fs2 : List Feature) :
    update s' cfg2 fs2 = updateVia (updateBranch cfg.dialect.fmt fs2) s' cfg2 fs2 := by
  rw [update_eq_via, (history_dialect imp cfg dirs fs db ko sv s s' steps hc ho hr).2.1]

/-! ### non-vacuity -/

section Examples

def gA : Feature := { seqid := "c".toList, ftype := "gene".toList, start := some 1, stop := some 9,
                      attrs := [("ID".toList, ["gA".toList])] }
def gB : Feature := { gA with attrs := [("ID".toList, ["gB".toList])] }
def gC : Feature := { gA with attrs := [("ID".toList, ["gC".toList])] }

/-- a GTF-looking dialect that a later update claims for its input -/
def otherDialect : Dialect := { Dialect.default with fmt := Parser.gtf, quoted := true, kvSep := [' '] }

def cfg0 : Cfg := { idSpec := defaultGffSpec }
def cfgOther : Cfg := { idSpec := defaultGffSpec, dialect := otherDialect }

/-- update (other dialect), empty update, delete, add_relation, reopen, update again -/
def hist : List HStep :=
  [.update cfgOther [gB], .update cfgOther [], .delete ["gA".toList], .reopen true false,
   .update cfgOther [gC], .addRelation "gB".toList "gC".toList 1]

def created : Py Session := do
  let db ← createDb .gff cfg0 ["gff-version 3".toList] [gA]
  let s ← openDb db
  runSteps s hist

-- the whole chain succeeds; two rows of the foreign dialect were appended AFTER the creation's row, the
-- session's dialect and the directives are the creation's
example : (created.toOption.map (fun s => (s.dialect, s.db.metaRows, s.directives, s.db.features.map (·.id)))) =
    some (Dialect.default, [Dialect.default, otherDialect, otherDialect], ["gff-version 3".toList],
      ["gB".toList, "gC".toList]) := by decide +kernel

example : histMeta hist = [otherDialect, otherDialect] := by decide +kernel
example : updateBranch Dialect.default.fmt [gA] = .gff ∧ updateBranch otherDialect.fmt [gA] = .gtf ∧
    updateBranch "gff2".toList [gA] = .unsupported ∧ updateBranch otherDialect.fmt [] = .noop := by decide

end Examples

end GffProofs.C09
