/-
  C03 — GTF import infers exact gene/transcript extents and the three-level hierarchy.

  The SPECIFICATION (what a GTF file means: `tidOf`/`gidOf`, the key of every line `lineKey`/`keyed`, its
  row `lineRow`, the relations it contributes `LineRel`/`RelSpec`, the derived rows `IsTranscriptRow` /
  `IsGeneRow`, and the domain `CfgOk`/`GtfOk`/`ExtOk`/`MergeOk`) is in `GffProofs/Lemmas/C03Spec.lean`;
  it is written from the property text, not from the importer.  The theorems below say that
  `populateGtf` / `updateRelationsGtf` / `createDb .gtf` compute exactly that.

  The model reflects the code after the repair "explicit gene/transcript lines are not their own
  relatives" (DESIGN.md §4 D2).
-/
import GffProofs.Lemmas.C03Aux4

namespace GffProofs.C03
open GffModel GffModel.Create GffModel.Interface
open GffProofs.C04 (autoId)

/-! ### 1. the relation table after `_populate_from_lines` -/

/-- every keyed line is some line of the file with the key `lineKey` gives it after its predecessors -/
theorem keyed_spec (cfg : Cfg) (fs : List Feature) (i : Nat) (hi : i < fs.length) :
    (keyed cfg fs)[i]? = some (fs[i], lineKey cfg (fs.take i) fs[i]) := keyed_getElem cfg fs i hi

theorem keyed_length (cfg : Cfg) (fs : List Feature) : (keyed cfg fs).length = fs.length := by
  have := congrArg List.length (keyed_map_fst cfg fs)
  simpa using this

theorem mem_keyed_iff (cfg : Cfg) (fs : List Feature) (fk : Feature × Str) :
    fk ∈ keyed cfg fs ↔ ∃ i, ∃ hi : i < fs.length, fk = (fs[i], lineKey cfg (fs.take i) fs[i]) := by
  constructor
  · intro h
    obtain ⟨i, hi, he⟩ := List.getElem_of_mem h
    have hi' : i < fs.length := by rw [← keyed_length cfg fs]; exact hi
    have := keyed_getElem cfg fs i hi'
    rw [List.getElem?_eq_getElem hi, he] at this
    exact ⟨i, hi', Option.some.inj this⟩
  · rintro ⟨i, hi, rfl⟩
    exact List.mem_of_getElem? (keyed_getElem cfg fs i hi)

/-- keys of explicit lines are their ids; all other keys are `<featuretype>_<n>` -/
theorem key_shape (cfg : Cfg) (fs : List Feature) (h : GtfOk cfg fs) (fk : Feature × Str) (hfk : fk ∈ keyed cfg fs) :
    (fk.1.ftype = geneT → gidOf cfg fk.1 = some fk.2) ∧
    (fk.1.ftype = transcriptT → tidOf cfg fk.1 = some fk.2) ∧
    (explicit fk.1 = false → ∃ n, fk.2 = autoId fk.1.ftype n) := by
  obtain ⟨i, hi, rfl⟩ := (mem_keyed_iff cfg fs fk).mp hfk
  have hf : fs[i] ∈ fs := List.getElem_mem hi
  refine ⟨?_, ?_, ?_⟩
  · intro hG
    simp only at hG
    obtain ⟨⟨g, hg⟩, _⟩ := h.geneLines _ hf hG
    simp [lineKey, hG, gidOf, firstVal_single hg]
  · intro hT
    simp only at hT
    obtain ⟨t, ht⟩ := h.trLines _ hf hT
    simp [lineKey, hT, tidOf, firstVal_single ht, Ne.symm geneT_ne_transcriptT]
  · intro hex
    obtain ⟨h1, h2⟩ := (explicit_false_iff _).mp hex
    simp only at h1 h2
    refine ⟨(List.filter (fun g => decide (g.ftype = fs[i].ftype)) (List.take i fs)).length + 1, ?_⟩
    simp [lineKey, h1, h2]

/-- no relation of the specification relates an id to itself -/
theorem relSpec_irrefl (cfg : Cfg) (fs : List Feature) (h : GtfOk cfg fs) (r : Rel) (hr : RelSpec cfg fs r) :
    r.parent ≠ r.child := by
  obtain ⟨fk, hfk, hl⟩ := hr
  have hf := mem_of_mem_keyed hfk
  rcases hl with ⟨hex, t, ht, rfl⟩ | ⟨hex, g, hg, rfl⟩ | ⟨t, g, ht, hg, rfl⟩
  · intro e; simp only at e
    exact (h.idsNotAuto fk hfk hex).1 (e ▸ mem_tids hf ht)
  · intro e; simp only at e
    exact (h.idsNotAuto fk hfk hex).2 (e ▸ mem_gids hf hg)
  · intro e; simp only at e
    exact h.tgDisjoint t (mem_tids hf ht) (e ▸ mem_gids hf hg)

/-- **Theorem 1.**  On the empty database `_populate_from_lines` succeeds; it stores every line, in file
order, under its key (`lineRow`); the relation table is *exactly*
`{(t, x, 1), (g, x, 2) | x a non-gene, non-transcript line carrying t, g} ∪ {(g, t, 1) | a line carries t and g}`
(`RelSpec`), without duplicates, and no `(x, x, _)` exists. -/
theorem gtf_relations_exact (cfg : Cfg) (fs : List Feature) (hc : CfgOk cfg) (h : GtfOk cfg fs) :
    ∃ db auto, populateGtf cfg {} [] fs = .ok (db, auto) ∧
      db.features = (keyed cfg fs).map (fun fk => lineRow fk.1 fk.2) ∧
      (∀ r, r ∈ db.relations ↔ RelSpec cfg fs r) ∧
      db.relations.Nodup ∧
      (∀ r ∈ db.relations, r.parent ≠ r.child) ∧
      db.duplicates = [] := by
  obtain ⟨db, auto, hp, inv⟩ := populateGtf_inv cfg hc fs h
  exact ⟨db, auto, hp, inv.feats, inv.rels, inv.nodup,
    fun r hr => relSpec_irrefl cfg fs h r ((inv.rels r).mp hr), inv.dups⟩

/-- the three kinds of relation, one by one -/
theorem relSpec_level1 (cfg : Cfg) (fs : List Feature) (p c : Str) :
    RelSpec cfg fs ⟨p, c, 1⟩ ↔
      (∃ fk ∈ keyed cfg fs, explicit fk.1 = false ∧ tidOf cfg fk.1 = some p ∧ fk.2 = c) ∨
      (∃ f ∈ fs, tidOf cfg f = some c ∧ gidOf cfg f = some p) := by
  constructor
  · rintro ⟨fk, hfk, hl⟩
    rcases hl with ⟨hex, t, ht, e⟩ | ⟨_, g, _, e⟩ | ⟨t, g, ht, hg, e⟩
    · cases e; exact Or.inl ⟨fk, hfk, hex, ht, rfl⟩
    · cases e
    · cases e; exact Or.inr ⟨fk.1, mem_of_mem_keyed hfk, ht, hg⟩
  · rintro (⟨fk, hfk, hex, ht, rfl⟩ | ⟨f, hf, ht, hg⟩)
    · exact ⟨fk, hfk, Or.inl ⟨hex, p, ht, rfl⟩⟩
    · obtain ⟨k, hk⟩ := exists_key_of_mem (cfg := cfg) hf
      exact ⟨(f, k), hk, Or.inr (Or.inr ⟨c, p, ht, hg, rfl⟩)⟩

theorem relSpec_level2 (cfg : Cfg) (fs : List Feature) (p c : Str) :
    RelSpec cfg fs ⟨p, c, 2⟩ ↔ ∃ fk ∈ keyed cfg fs, explicit fk.1 = false ∧ gidOf cfg fk.1 = some p ∧ fk.2 = c := by
  constructor
  · rintro ⟨fk, hfk, hl⟩
    rcases hl with ⟨_, t, _, e⟩ | ⟨hex, g, hg, e⟩ | ⟨t, g, _, _, e⟩
    · cases e
    · cases e; exact ⟨fk, hfk, hex, hg, rfl⟩
    · cases e
  · rintro ⟨fk, hfk, hex, hg, rfl⟩
    exact ⟨fk, hfk, Or.inr (Or.inl ⟨hex, p, hg, rfl⟩)⟩

theorem relSpec_levels (cfg : Cfg) (fs : List Feature) (r : Rel) (hr : RelSpec cfg fs r) : r.level = 1 ∨ r.level = 2 := by
  obtain ⟨fk, _, hl⟩ := hr
  rcases hl with ⟨_, t, _, rfl⟩ | ⟨_, g, _, rfl⟩ | ⟨t, g, _, _, rfl⟩
  · exact Or.inl rfl
  · exact Or.inr rfl
  · exact Or.inl rfl


/-! ### the whole import -/

/-- a derived row is determined by its id, type, attributes and subfeature lines -/
theorem isDerivedRow_unique {row row' : Row} {id ft : Str} {attrs : Attrs} {subs : List Feature}
    (hne : subs ≠ []) (h1 : IsDerivedRow row id ft attrs subs) (h2 : IsDerivedRow row' id ft attrs subs) :
    row = row' := by
  obtain ⟨f, hf⟩ := List.exists_mem_of_ne_nil subs hne
  obtain ⟨s, hs, hmin⟩ := h1.start
  obtain ⟨s', hs', hmin'⟩ := h2.start
  obtain ⟨e, he, hmax⟩ := h1.stop
  obtain ⟨e', he', hmax'⟩ := h2.stop
  have hss : s = s' := Int.le_antisymm (hmin.2 s' hmin'.1) (hmin'.2 s hmin.1)
  have hee : e = e' := Int.le_antisymm (hmax'.2 e hmax.1) (hmax.2 e' hmax'.1)
  have hstart : row.start = row'.start := by rw [hs, hs', hss]
  have hstop : row.stop = row'.stop := by rw [he, he', hee]
  have hbin : row.bin = row'.bin := by rw [h1.bin, h2.bin, hstart, hstop]
  have h3 := h1.id.trans h2.id.symm
  have h4 := h1.ftype.trans h2.ftype.symm
  have h5 := h1.source.trans h2.source.symm
  have h6 := (h1.seqid f hf).trans (h2.seqid f hf).symm
  have h7 := (h1.strand f hf).trans (h2.strand f hf).symm
  have h8 := h1.score.trans h2.score.symm
  have h9 := h1.frame.trans h2.frame.symm
  have h10 := h1.attrs.trans h2.attrs.symm
  have h11 := h1.extra.trans h2.extra.symm
  cases row; cases row'
  simp only at h3 h4 h5 h6 h7 h8 h9 h10 h11 hstart hstop hbin
  simp only [Row.mk.injEq]
  exact ⟨h3, h6, h5, h4, hstart, hstop, h8, h7, h9, h10, h11, hbin⟩

theorem subOfT_ne_nil {cfg : Cfg} {fs : List Feature} {t g : Str} (ho : TOwns cfg fs t g) : subOfT cfg fs t ≠ [] := by
  obtain ⟨f, hf, hft, htid, _⟩ := ho
  intro e
  have : f ∈ subOfT cfg fs t := List.mem_filter.mpr ⟨hf, by simp [hft, htid]⟩
  rw [e] at this; cases this

theorem subOfG_ne_nil {cfg : Cfg} {fs : List Feature} {g : Str} (ho : GOwns cfg fs g) : subOfG cfg fs g ≠ [] := by
  obtain ⟨t, f, hf, hft, _, hgid⟩ := ho
  intro e
  have : f ∈ subOfG cfg fs g := List.mem_filter.mpr ⟨hf, by simp [hft, hgid]⟩
  rw [e] at this; cases this

/-- the derived rows of a file under a configuration: the `transcript` row of every transcript owning an
exon and the `gene` row of every gene owning an exon, unless disabled or an explicit line has the id -/
def DerivedSpec (cfg : Cfg) (fs : List Feature) (row : Row) : Prop :=
  (cfg.disableTranscripts = false ∧ ∃ t g, TOwns cfg fs t g ∧ ¬ HasExplicit cfg fs t ∧
    IsTranscriptRow cfg fs t g row) ∨
  (cfg.disableGenes = false ∧ ∃ g, GOwns cfg fs g ∧ ¬ HasExplicit cfg fs g ∧ IsGeneRow cfg fs g row)

theorem derivedRows_spec {cfg : Cfg} {fs : List Feature} (hc : CfgOk cfg) (h : GtfOk cfg fs) (he : ExtOk cfg fs)
    {db0 : Db} {auto0 : Dict Nat} (inv : PopInv cfg fs db0 auto0) (row : Row) :
    row ∈ derivedRows cfg db0 ↔ DerivedSpec cfg fs row := by
  rw [mem_derivedRows hc h he inv]
  unfold DerivedSpec
  constructor
  · rintro (⟨h1, t, g, ho, hne, rfl⟩ | ⟨h1, g, ho, hne, rfl⟩)
    · exact Or.inl ⟨h1, t, g, ho, hne, isTranscriptRow_mkT hc h he inv ho⟩
    · exact Or.inr ⟨h1, g, ho, hne, isGeneRow_mkG hc h he inv ho⟩
  · rintro (⟨h1, t, g, ho, hne, hr⟩ | ⟨h1, g, ho, hne, hr⟩)
    · exact Or.inl ⟨h1, t, g, ho, hne,
        isDerivedRow_unique (subOfT_ne_nil ho) hr (isTranscriptRow_mkT hc h he inv ho)⟩
    · exact Or.inr ⟨h1, g, ho, hne,
        isDerivedRow_unique (subOfG_ne_nil ho) hr (isGeneRow_mkG hc h he inv ho)⟩

/-- **The database `create_db` returns for a GTF file, exactly**: the lines of the file in order under their
keys, followed by the derived rows (each once); the relations of `RelSpec`; ids pairwise distinct. -/
theorem gtf_import_exact (cfg : Cfg) (dirs : List Str) (fs : List Feature)
    (hc : CfgOk cfg) (h : GtfOk cfg fs) (he : ExtOk cfg fs) (hm : MergeOk cfg fs) :
    ∃ db D, createDb .gtf cfg dirs fs = .ok db ∧
      db.features = (keyed cfg fs).map (fun fk => lineRow fk.1 fk.2) ++ D ∧
      (∀ row, row ∈ D ↔ DerivedSpec cfg fs row) ∧
      (db.features.map (·.id)).Nodup ∧
      (∀ r, r ∈ db.relations ↔ RelSpec cfg fs r) ∧ db.relations.Nodup := by
  obtain ⟨db0, auto0, hp, inv⟩ := populateGtf_inv cfg hc fs h
  obtain ⟨dups, auto', hu⟩ := updateRelationsGtf_master hc h he inv (auto := auto0) hm
  refine ⟨finalize (st2 db0 (derivedRows cfg db0) dups) cfg.dialect dirs auto', derivedRows cfg db0, ?_, ?_, ?_, ?_,
    inv.rels, inv.nodup⟩
  · simp only [createDb, hp, hu, bind, Except.bind, pure, Except.pure]
  · show db0.features ++ derivedRows cfg db0 = _
    rw [inv.feats]
  · exact derivedRows_spec hc h he inv
  · exact final_ids_nodup hc h he inv

/-- with distinct ids, the rows under `r.id` are `r` alone -/
theorem filter_id_of_nodup : ∀ (l : List Row), (l.map (·.id)).Nodup → ∀ r ∈ l, l.filter (·.id = r.id) = [r] := by
  intro l
  induction l with
  | nil => intro _ r hr; cases hr
  | cons x l ih =>
    intro hn r hr
    simp only [List.map_cons, List.nodup_cons] at hn
    rcases List.mem_cons.mp hr with rfl | hr'
    · have : l.filter (·.id = r.id) = [] := by
        rw [List.filter_eq_nil_iff]
        intro a ha hae
        simp only [decide_eq_true_eq] at hae
        exact hn.1 (List.mem_map.mpr ⟨a, ha, hae⟩)
      simp [this]
    · have hx : x.id ≠ r.id := by
        intro e; exact hn.1 (List.mem_map.mpr ⟨r, hr', e.symm⟩)
      simp [hx, ih hn.2 r hr']

/-! ### 2. / 3. the derived transcript and gene -/

/-- **Theorem 2.**  With transcript inference enabled, every transcript id `t` that owns at least one
subfeature (exon) line — `g` being the gene id on that line — and has no explicit `transcript` line gets
exactly one stored row under the id `t`: a `transcript` with source `gffutils_derived`, `start` = the minimum
start and `end` = the maximum end over the exon lines of `t`, on their seqid and strand, attributes
`{transcript_id: [t], gene_id: [g]}` (all other columns pinned by `IsDerivedRow`); `db[t]` returns it. -/
theorem transcript_extent (cfg : Cfg) (dirs : List Str) (fs : List Feature)
    (hc : CfgOk cfg) (h : GtfOk cfg fs) (he : ExtOk cfg fs) (hm : MergeOk cfg fs)
    (hT : cfg.disableTranscripts = false) (t g : Str) (ho : TOwns cfg fs t g)
    (hne : ∀ f ∈ fs, f.ftype = transcriptT → tidOf cfg f ≠ some t) :
    ∃ db row, createDb .gtf cfg dirs fs = .ok db ∧
      db.features.filter (·.id = t) = [row] ∧ IsTranscriptRow cfg fs t g row ∧
      ∀ s : Session, s.db = db → getItem s t = .ok (s.returner row) := by
  obtain ⟨db, D, hdb, hfeat, hD, hnd, _, _⟩ := gtf_import_exact cfg dirs fs hc h he hm
  have ho' := ho
  obtain ⟨f0, hf0, _, htid0, _⟩ := ho'
  have hnex : ¬ HasExplicit cfg fs t := by
    rintro ⟨fk, hfk, hex, hk⟩
    have hf := mem_of_mem_keyed hfk
    obtain ⟨k1, k2, _⟩ := key_shape cfg fs h fk hfk
    simp only [explicit, Bool.or_eq_true, decide_eq_true_eq] at hex
    rcases hex with hG | hTr
    · exact h.tgDisjoint t (mem_tids hf0 htid0) (mem_gids hf (by rw [k1 hG, hk]))
    · exact hne fk.1 hf hTr (by rw [k2 hTr, hk])
  -- the row exists
  obtain ⟨db0, auto0, hp, inv⟩ := populateGtf_inv cfg hc fs h
  have hrow := isTranscriptRow_mkT hc h he inv ho
  have hmem : lineRow (mkT cfg db0 t g) t ∈ D := (hD _).mpr (Or.inl ⟨hT, t, g, ho, hnex, hrow⟩)
  have hmem' : lineRow (mkT cfg db0 t g) t ∈ db.features := by rw [hfeat]; exact List.mem_append_right _ hmem
  refine ⟨db, _, hdb, filter_id_of_nodup _ hnd _ hmem', hrow, ?_⟩
  intro s hs
  subst hs
  exact GffProofs.C04.getitem_exact s hnd _ hmem'

/-- **Theorem 3.**  Likewise one `gene` row per gene id owning an exon (through a transcript with exons),
spanning all exon lines of the gene. -/
theorem gene_extent (cfg : Cfg) (dirs : List Str) (fs : List Feature)
    (hc : CfgOk cfg) (h : GtfOk cfg fs) (he : ExtOk cfg fs) (hm : MergeOk cfg fs)
    (hG : cfg.disableGenes = false) (g : Str) (ho : GOwns cfg fs g)
    (hne : ∀ f ∈ fs, f.ftype = geneT → gidOf cfg f ≠ some g) :
    ∃ db row, createDb .gtf cfg dirs fs = .ok db ∧
      db.features.filter (·.id = g) = [row] ∧ IsGeneRow cfg fs g row ∧
      ∀ s : Session, s.db = db → getItem s g = .ok (s.returner row) := by
  obtain ⟨db, D, hdb, hfeat, hD, hnd, _, _⟩ := gtf_import_exact cfg dirs fs hc h he hm
  have hnex : ¬ HasExplicit cfg fs g := by
    rintro ⟨fk, hfk, hex, hk⟩
    have hf := mem_of_mem_keyed hfk
    obtain ⟨k1, k2, _⟩ := key_shape cfg fs h fk hfk
    obtain ⟨t, f0, hf0, _, _, hgid0⟩ := ho
    simp only [explicit, Bool.or_eq_true, decide_eq_true_eq] at hex
    rcases hex with hGe | hTr
    · exact hne fk.1 hf hGe (by rw [k1 hGe, hk])
    · exact h.tgDisjoint g (mem_tids hf (by rw [k2 hTr, hk])) (mem_gids hf0 hgid0)
  obtain ⟨db0, auto0, hp, inv⟩ := populateGtf_inv cfg hc fs h
  have hrow := isGeneRow_mkG hc h he inv ho
  have hmem : lineRow (mkG cfg db0 g) g ∈ D := (hD _).mpr (Or.inr ⟨hG, g, ho, hnex, hrow⟩)
  have hmem' : lineRow (mkG cfg db0 g) g ∈ db.features := by rw [hfeat]; exact List.mem_append_right _ hmem
  refine ⟨db, _, hdb, filter_id_of_nodup _ hnd _ hmem', hrow, ?_⟩
  intro s hs
  subst hs
  exact GffProofs.C04.getitem_exact s hnd _ hmem'

/-! ### 5. explicit lines -/

/-- every line of the file — explicit or not — remains the only row under its key, unchanged -/
theorem every_line_single (cfg : Cfg) (dirs : List Str) (fs : List Feature)
    (hc : CfgOk cfg) (h : GtfOk cfg fs) (he : ExtOk cfg fs) (hm : MergeOk cfg fs) :
    ∃ db, createDb .gtf cfg dirs fs = .ok db ∧
      (∀ fk ∈ keyed cfg fs, db.features.filter (·.id = fk.2) = [lineRow fk.1 fk.2] ∧
        ∀ s : Session, s.db = db → getItem s fk.2 = .ok (s.returner (lineRow fk.1 fk.2))) ∧
      (∀ r ∈ db.relations, r.parent ≠ r.child) := by
  obtain ⟨db, D, hdb, hfeat, _, hnd, hrel, _⟩ := gtf_import_exact cfg dirs fs hc h he hm
  refine ⟨db, hdb, ?_, fun r hr => relSpec_irrefl cfg fs h r ((hrel r).mp hr)⟩
  intro fk hfk
  have hmem : lineRow fk.1 fk.2 ∈ db.features := by
    rw [hfeat]; exact List.mem_append_left _ (List.mem_map.mpr ⟨fk, hfk, rfl⟩)
  refine ⟨filter_id_of_nodup _ hnd _ hmem, ?_⟩
  intro s hs
  subst hs
  exact GffProofs.C04.getitem_exact s hnd _ hmem

/-- **Theorem 5.**  A `gene` / `transcript` line present in the input is filed under its gene id / transcript
id and remains the ONLY row under that id after the whole import, with its own columns and attributes
(`lineRow`): the derived duplicate is renamed by the merge path and discarded.  No relation `(x, x, _)`
exists. -/
theorem explicit_lines_single (cfg : Cfg) (dirs : List Str) (fs : List Feature)
    (hc : CfgOk cfg) (h : GtfOk cfg fs) (he : ExtOk cfg fs) (hm : MergeOk cfg fs)
    (fk : Feature × Str) (hfk : fk ∈ keyed cfg fs) (hex : explicit fk.1 = true) :
    ∃ db, createDb .gtf cfg dirs fs = .ok db ∧
      ((fk.1.ftype = geneT ∧ gidOf cfg fk.1 = some fk.2) ∨ (fk.1.ftype = transcriptT ∧ tidOf cfg fk.1 = some fk.2)) ∧
      db.features.filter (·.id = fk.2) = [lineRow fk.1 fk.2] ∧
      (∀ s : Session, s.db = db → getItem s fk.2 = .ok (s.returner (lineRow fk.1 fk.2))) ∧
      (∀ r ∈ db.relations, r.parent ≠ r.child) := by
  obtain ⟨db, hdb, hl, hr⟩ := every_line_single cfg dirs fs hc h he hm
  obtain ⟨k1, k2, _⟩ := key_shape cfg fs h fk hfk
  refine ⟨db, hdb, ?_, (hl fk hfk).1, (hl fk hfk).2, hr⟩
  simp only [explicit, Bool.or_eq_true, decide_eq_true_eq] at hex
  rcases hex with hG | hT
  · exact Or.inl ⟨hG, k1 hG⟩
  · exact Or.inr ⟨hT, k2 hT⟩

/-! ### the hierarchy as `children` / `parents` see it -/

/-- `children(x, level)` / `parents(x, level)` (no filter, no ordering) on the imported database return
exactly the stored rows related to `x` by a relation of `RelSpec` -/
theorem relation_queries_exact (cfg : Cfg) (dirs : List Str) (fs : List Feature)
    (hc : CfgOk cfg) (h : GtfOk cfg fs) (he : ExtOk cfg fs) (hm : MergeOk cfg fs) :
    ∃ db, createDb .gtf cfg dirs fs = .ok db ∧
      ∀ s : Session, s.db = db → ∀ (isChildren : Bool) (x : Str) (level : Option Int) (r : Row),
        r ∈ runRelation s isChildren x level {} ↔
          (r ∈ db.features ∧ ∃ l, (∀ l', level = some l' → l = l') ∧
            RelSpec cfg fs (if isChildren then ⟨x, r.id, l⟩ else ⟨r.id, x, l⟩)) := by
  obtain ⟨db, D, hdb, _, _, _, hrel, _⟩ := gtf_import_exact cfg dirs fs hc h he hm
  refine ⟨db, hdb, ?_⟩
  intro s hs isChildren x level r
  subst hs
  rw [GffProofs.C02.mem_runRelation_empty]
  apply and_congr Iff.rfl
  constructor
  · rintro ⟨rel, hin, hl, hpc⟩
    obtain ⟨p, c, l⟩ := rel
    refine ⟨l, ?_, ?_⟩
    · intro l' e; subst e; exact hl
    cases isChildren
    · simp only [Bool.false_eq_true, if_false] at hpc ⊢
      obtain ⟨rfl, rfl⟩ := hpc
      exact (hrel _).mp hin
    · simp only [if_true] at hpc ⊢
      obtain ⟨rfl, rfl⟩ := hpc
      exact (hrel _).mp hin
  · rintro ⟨l, hl, hspec⟩
    cases isChildren
    · simp only [Bool.false_eq_true, if_false] at hspec ⊢
      refine ⟨⟨r.id, x, l⟩, (hrel _).mpr hspec, ?_, rfl, rfl⟩
      cases level with
      | none => trivial
      | some l' => exact hl l' rfl
    · simp only [if_true] at hspec ⊢
      refine ⟨⟨x, r.id, l⟩, (hrel _).mpr hspec, ?_, rfl, rfl⟩
      cases level with
      | none => trivial
      | some l' => exact hl l' rfl

/-! ### 4. the two `disable_infer_*` flags -/

/-- the same configuration with the two flags set -/
def withFlags (cfg : Cfg) (dT dG : Bool) : Cfg := { cfg with disableTranscripts := dT, disableGenes := dG }

/-- what a flag pair keeps of the derived rows: everything but the `transcript` rows when
`disable_infer_transcripts`, everything but the `gene` rows when `disable_infer_genes` -/
def keptBy (dT dG : Bool) (r : Row) : Bool :=
  !(dT && decide (r.ftype = transcriptT)) && !(dG && decide (r.ftype = geneT))

theorem keyedAux_withFlags (cfg : Cfg) (dT dG : Bool) (l : List Feature) :
    ∀ acc, keyedAux (withFlags cfg dT dG) acc l = keyedAux cfg acc l := by
  induction l with
  | nil => intro acc; rfl
  | cons f l ih => intro acc; simp only [keyedAux, ih]; rfl

theorem keyed_withFlags (cfg : Cfg) (dT dG : Bool) (fs : List Feature) :
    keyed (withFlags cfg dT dG) fs = keyed cfg fs := keyedAux_withFlags cfg dT dG fs []

theorem cfgOk_withFlags {cfg : Cfg} (hc : CfgOk cfg) (dT dG : Bool) : CfgOk (withFlags cfg dT dG) :=
  ⟨hc.spec, hc.gkPlain, hc.tkPlain, hc.keysNe, hc.subNeGene, hc.subNeTr⟩

theorem gtfOk_withFlags {cfg : Cfg} {fs : List Feature} (h : GtfOk cfg fs) (dT dG : Bool) :
    GtfOk (withFlags cfg dT dG) fs :=
  ⟨h.nonempty, h.geneLines, h.trLines, by rw [keyed_withFlags]; exact h.explicitDistinct,
   by rw [keyed_withFlags]; exact h.idsNotAuto, h.tgDisjoint⟩

theorem extOk_withFlags {cfg : Cfg} {fs : List Feature} (h : ExtOk cfg fs) (dT dG : Bool) :
    ExtOk (withFlags cfg dT dG) fs := ⟨h.coords, h.subGene, h.oneGene, h.tAgree, h.gAgree⟩

theorem mergeOk_withFlags {cfg : Cfg} {fs : List Feature} (h : MergeOk cfg fs) (dT dG : Bool) :
    MergeOk (withFlags cfg dT dG) fs :=
  ⟨h.srcCompared, h.srcNotDerived, by rw [keyed_withFlags]; exact h.noSuffixed⟩

theorem popInv_withFlags {cfg : Cfg} {fs : List Feature} {db : Db} {auto : Dict Nat} (inv : PopInv cfg fs db auto)
    (dT dG : Bool) : PopInv (withFlags cfg dT dG) fs db auto :=
  ⟨by rw [keyed_withFlags]; exact inv.feats, by rw [keyed_withFlags]; exact inv.rels, inv.nodup, inv.dups, inv.cnt⟩


set_option linter.unusedSimpArgs false in
/-- the derived list under a flag pair is the full derived list, filtered -/
theorem specD_filter (dT dG : Bool) (mT : Str → Str → Feature) (mG : Str → Feature)
    (hT : ∀ t g, (mT t g).ftype = transcriptT) (hG : ∀ g, (mG g).ftype = geneT) (ps : List (Str × Str)) :
    ∀ last last', (dG = false → last = last') →
      specD dT dG mT mG last ps =
        (specD false false mT mG last' ps).filter
          (fun kf => !(dT && decide (kf.2.ftype = transcriptT)) && !(dG && decide (kf.2.ftype = geneT))) := by
  induction ps with
  | nil => intro _ _ _; rfl
  | cons tg ps ih =>
    intro last last' hl
    obtain ⟨t, g⟩ := tg
    have ih' := ih (if dG = true then last else some g) (some g) (by intro e; simp [e])
    have hne : ¬ transcriptT = geneT := fun e => geneT_ne_transcriptT e.symm
    simp only [specD, List.filter_append, ih', Bool.false_eq_true, if_false]
    cases dT <;> cases dG
    · have := hl rfl; subst this
      by_cases hgl : some g = last <;>
        simp [hgl, hT, hG, List.filter_cons, geneT_ne_transcriptT, hne]
    · by_cases hgl : some g = last' <;>
        simp [hgl, hT, hG, List.filter_cons, geneT_ne_transcriptT, hne]
    · have := hl rfl; subst this
      by_cases hgl : some g = last <;>
        simp [hgl, hT, hG, List.filter_cons, geneT_ne_transcriptT, hne]
    · by_cases hgl : some g = last' <;>
        simp [hgl, hT, hG, List.filter_cons, geneT_ne_transcriptT, hne]

theorem derivedRows_withFlags (cfg : Cfg) (dT dG : Bool) (db0 : Db) :
    derivedRows (withFlags cfg dT dG) db0 = (derivedRows (withFlags cfg false false) db0).filter (keptBy dT dG) := by
  unfold derivedRows derivedList
  show ((specD dT dG (mkT cfg db0) (mkG cfg db0) none (sortedPairs cfg db0)).filter _).map _ =
    (((specD false false (mkT cfg db0) (mkG cfg db0) none (sortedPairs cfg db0)).filter _).map _).filter _
  rw [specD_filter dT dG (mkT cfg db0) (mkG cfg db0) (fun _ _ => rfl) (fun _ => rfl) _ none none (fun _ => rfl)]
  rw [List.filter_map, List.filter_filter, List.filter_filter]
  congr 1
  apply List.filter_congr
  intro kf _
  simp only [Function.comp, keptBy, lineRow]
  exact Bool.and_comm _ _

/-- **Theorem 4.**  There are a list `base` (the rows of the lines), a list `D` (the derived rows when
nothing is disabled: one `transcript` row per transcript owning an exon, one `gene` row per gene owning an
exon, explicit ids excepted) and a relation table `rels` such that, for each of the four flag combinations,
the import succeeds with the rows `base ++ (D without the rows of the disabled types)` and the same relation
table `rels`: `disable_infer_transcripts` removes exactly the derived `transcript` rows, `disable_infer_genes`
exactly the derived `gene` rows, and nothing else changes.  With both flags `_update_relations` is the
identity. -/
theorem disable_flags (cfg : Cfg) (dirs : List Str) (fs : List Feature)
    (hc : CfgOk cfg) (h : GtfOk cfg fs) (he : ExtOk cfg fs) (hm : MergeOk cfg fs) :
    ∃ (base D : List Row) (rels : List Rel),
      base = (keyed cfg fs).map (fun fk => lineRow fk.1 fk.2) ∧
      (∀ row, row ∈ D ↔
        (∃ t g, TOwns cfg fs t g ∧ ¬ HasExplicit cfg fs t ∧ IsTranscriptRow cfg fs t g row) ∨
        (∃ g, GOwns cfg fs g ∧ ¬ HasExplicit cfg fs g ∧ IsGeneRow cfg fs g row)) ∧
      (∀ r, r ∈ rels ↔ RelSpec cfg fs r) ∧
      (∀ dT dG, ∃ db, createDb .gtf (withFlags cfg dT dG) dirs fs = .ok db ∧
        db.features = base ++ D.filter (keptBy dT dG) ∧ db.relations = rels) ∧
      (∀ db auto, updateRelationsGtf (withFlags cfg true true) db auto = .ok (db, auto)) := by
  obtain ⟨db0, auto0, hp, inv⟩ := populateGtf_inv cfg hc fs h
  refine ⟨db0.features, derivedRows (withFlags cfg false false) db0, db0.relations, inv.feats, ?_, inv.rels, ?_, ?_⟩
  · intro row
    rw [derivedRows_spec (cfgOk_withFlags hc false false) (gtfOk_withFlags h false false)
      (extOk_withFlags he false false) (popInv_withFlags inv false false)]
    unfold DerivedSpec HasExplicit
    rw [keyed_withFlags]
    constructor
    · rintro (⟨_, t, g, h1, h2, h3⟩ | ⟨_, g, h1, h2, h3⟩)
      · exact Or.inl ⟨t, g, h1, h2, h3⟩
      · exact Or.inr ⟨g, h1, h2, h3⟩
    · rintro (⟨t, g, h1, h2, h3⟩ | ⟨g, h1, h2, h3⟩)
      · exact Or.inl ⟨rfl, t, g, h1, h2, h3⟩
      · exact Or.inr ⟨rfl, g, h1, h2, h3⟩
  · intro dT dG
    have hp' : populateGtf (withFlags cfg dT dG) {} [] fs = .ok (db0, auto0) := hp
    obtain ⟨dups, auto', hu⟩ := updateRelationsGtf_master (cfgOk_withFlags hc dT dG) (gtfOk_withFlags h dT dG)
      (extOk_withFlags he dT dG) (popInv_withFlags inv dT dG) (auto := auto0) (mergeOk_withFlags hm dT dG)
    refine ⟨finalize (st2 db0 (derivedRows (withFlags cfg dT dG) db0) dups) (withFlags cfg dT dG).dialect dirs auto',
      ?_, ?_, rfl⟩
    · simp only [createDb, hp', hu, bind, Except.bind, pure, Except.pure]
    · rw [← derivedRows_withFlags]; rfl
  · intro db auto
    rfl


/-! ### Non-vacuity: a concrete file

2 genes (`G1`, `G2`), 3 transcripts (`T1`, `T2` in `G1`; `T3` in `G2`), exons and a CDS, shuffled; `T2` has an
explicit `transcript` line and `G2` an explicit `gene` line. -/

section Example

private def s (x : String) : Str := x.toList

def mkL (ft : String) (st en : Int) (attrs : List (String × String)) (src : String := "havana") : Feature :=
  { seqid := s "chr1", source := s src, ftype := s ft, start := some st, stop := some en, strand := s "+",
    attrs := attrs.map (fun (k, v) => (s k, [s v])), bin := Feature.calcBin (some st) (some en) }

def exFile : List Feature :=
  [ mkL "exon" 100 200 [("gene_id", "G1"), ("transcript_id", "T1")],
    mkL "CDS" 120 180 [("gene_id", "G1"), ("transcript_id", "T1")],
    mkL "exon" 300 400 [("gene_id", "G1"), ("transcript_id", "T1")],
    mkL "transcript" 50 900 [("gene_id", "G1"), ("transcript_id", "T2")],
    mkL "exon" 500 600 [("gene_id", "G2"), ("transcript_id", "T3")],
    mkL "gene" 450 650 [("gene_id", "G2")],
    mkL "exon" 150 250 [("gene_id", "G1"), ("transcript_id", "T2")],
    mkL "exon" 700 800 [("gene_id", "G1"), ("transcript_id", "T2")] ]

/-- the default configuration of `create_db` for GTF input -/
def cfg0 : Cfg := { idSpec := defaultGtfSpec }

theorem cfg0_ok : CfgOk cfg0 :=
  ⟨rfl, by decide, by decide, by decide, by decide, by decide⟩

/-- the keys of the example -/
example : (keyed cfg0 exFile).map (·.2) =
    [s "exon_1", s "CDS_1", s "exon_2", s "T2", s "exon_3", s "G2", s "exon_4", s "exon_5"] := by decide +kernel

private instance decSingle (o : Option (List Str)) : Decidable (∃ g, o = some [g]) :=
  match o with
  | some [g] => isTrue ⟨g, rfl⟩
  | none => isFalse (by rintro ⟨g, hg⟩; cases hg)
  | some [] => isFalse (by rintro ⟨g, hg⟩; cases hg)
  | some (_ :: _ :: _) => isFalse (by rintro ⟨g, hg⟩; cases hg)

theorem exFile_ok : GtfOk cfg0 exFile where
  nonempty := by decide
  geneLines := by decide +kernel
  trLines := by decide +kernel
  explicitDistinct := by decide +kernel
  idsNotAuto := by decide +kernel
  tgDisjoint := by decide +kernel

/-- decidable forms of the `ExtOk` clauses -/
theorem extOk_of_dec {cfg : Cfg} {fs : List Feature}
    (h1 : ∀ f ∈ fs, f.ftype = cfg.subfeature → f.start ≠ none ∧ f.stop ≠ none)
    (h2 : ∀ f ∈ fs, f.ftype = cfg.subfeature → tidOf cfg f ≠ none → gidOf cfg f ≠ none)
    (h3 : ∀ f ∈ fs, ∀ f' ∈ fs, tidOf cfg f ≠ none → tidOf cfg f = tidOf cfg f' →
      gidOf cfg f ≠ none → gidOf cfg f' ≠ none → gidOf cfg f = gidOf cfg f')
    (h4 : ∀ f ∈ fs, ∀ f' ∈ fs, f.ftype = cfg.subfeature → f'.ftype = cfg.subfeature →
      tidOf cfg f ≠ none → tidOf cfg f = tidOf cfg f' → f.seqid = f'.seqid ∧ f.strand = f'.strand)
    (h5 : ∀ f ∈ fs, ∀ f' ∈ fs, f.ftype = cfg.subfeature → f'.ftype = cfg.subfeature →
      gidOf cfg f ≠ none → gidOf cfg f = gidOf cfg f' → f.seqid = f'.seqid ∧ f.strand = f'.strand) :
    ExtOk cfg fs where
  coords := fun f hf hft =>
    ⟨Option.ne_none_iff_exists'.mp (h1 f hf hft).1, Option.ne_none_iff_exists'.mp (h1 f hf hft).2⟩
  subGene := fun f hf hft t ht => Option.ne_none_iff_exists'.mp (h2 f hf hft (by rw [ht]; simp))
  oneGene := fun f hf f' hf' t g g' ht ht' hg hg' => by
    have := h3 f hf f' hf' (by rw [ht]; simp) (by rw [ht, ht']) (by rw [hg]; simp) (by rw [hg']; simp)
    rw [hg, hg'] at this
    exact Option.some.inj this
  tAgree := fun f hf f' hf' hft hft' t ht ht' => h4 f hf f' hf' hft hft' (by rw [ht]; simp) (by rw [ht, ht'])
  gAgree := fun f hf f' hf' hft hft' g hg hg' => h5 f hf f' hf' hft hft' (by rw [hg]; simp) (by rw [hg, hg'])

theorem exFile_ext : ExtOk cfg0 exFile :=
  extOk_of_dec (by decide +kernel) (by decide +kernel) (by decide +kernel) (by decide +kernel) (by decide +kernel)

/-- no id begins with `<k>_` ⇒ no id is `<k>_<n>` -/
theorem autoId_notin_of_prefix (k : Str) (L : List Str) (h : ∀ c ∈ L, (k ++ ['_']).isPrefixOf c = false) (n : Nat) :
    autoId k n ∉ L := by
  intro hin
  have := h _ hin
  have hp : (k ++ ['_']).isPrefixOf (autoId k n) = true := by
    rw [List.isPrefixOf_iff_prefix]
    exact List.prefix_append _ _
  rw [hp] at this; cases this

theorem exFile_merge : MergeOk cfg0 exFile where
  srcCompared := fun _ => by decide
  srcNotDerived := by decide +kernel
  noSuffixed := by
    intro fk hfk hex n
    have hall : ∀ fk ∈ keyed cfg0 exFile, explicit fk.1 = true →
        ∀ c ∈ (keyed cfg0 exFile).map (·.2) ++ tids cfg0 exFile ++ gids cfg0 exFile,
          (fk.2 ++ ['_']).isPrefixOf c = false := by decide +kernel
    have := autoId_notin_of_prefix fk.2 _ (hall fk hfk hex) n
    simp only [List.mem_append, not_or] at this
    exact ⟨this.1.1, this.1.2, this.2⟩

/-- Theorem 1 on the example, and the relation table it describes, computed by the model -/
example : ∃ db auto, populateGtf cfg0 {} [] exFile = .ok (db, auto) ∧
    db.features = (keyed cfg0 exFile).map (fun fk => lineRow fk.1 fk.2) ∧
    (∀ r, r ∈ db.relations ↔ RelSpec cfg0 exFile r) ∧ db.relations.Nodup ∧
    (∀ r ∈ db.relations, r.parent ≠ r.child) ∧ db.duplicates = [] :=
  gtf_relations_exact cfg0 exFile cfg0_ok exFile_ok

private def rel (p c : String) (l : Int) : Rel := ⟨s p, s c, l⟩

example : (populateGtf cfg0 {} [] exFile).toOption.map (fun r => r.1.relations) = some
    [rel "T1" "exon_1" 1, rel "G1" "exon_1" 2, rel "G1" "T1" 1, rel "T1" "CDS_1" 1, rel "G1" "CDS_1" 2,
     rel "T1" "exon_2" 1, rel "G1" "exon_2" 2, rel "G1" "T2" 1, rel "T3" "exon_3" 1, rel "G2" "exon_3" 2,
     rel "G2" "T3" 1, rel "T2" "exon_4" 1, rel "G1" "exon_4" 2, rel "T2" "exon_5" 1, rel "G1" "exon_5" 2] := by
  decide +kernel

/-- Theorem 2 on the example: `T1` (no explicit line) spans 100..400 -/
example : ∃ db row, createDb .gtf cfg0 [] exFile = .ok db ∧
    db.features.filter (·.id = s "T1") = [row] ∧ IsTranscriptRow cfg0 exFile (s "T1") (s "G1") row ∧
    ∀ ss : Session, ss.db = db → getItem ss (s "T1") = .ok (ss.returner row) :=
  transcript_extent cfg0 [] exFile cfg0_ok exFile_ok exFile_ext exFile_merge rfl (s "T1") (s "G1")
    (by unfold TOwns; decide +kernel) (by decide +kernel)

example (row : Row) (h : IsTranscriptRow cfg0 exFile (s "T1") (s "G1") row) :
    row.start = some 100 ∧ row.stop = some 400 := by
  obtain ⟨a, ha, hmin⟩ := h.start
  obtain ⟨b, hb, hmax⟩ := h.stop
  have e1 : (subOfT cfg0 exFile (s "T1")).filterMap (·.start) = [100, 300] := by decide +kernel
  have e2 : (subOfT cfg0 exFile (s "T1")).filterMap (·.stop) = [200, 400] := by decide +kernel
  rw [e1] at hmin; rw [e2] at hmax
  obtain ⟨m1, m2⟩ := hmin
  obtain ⟨n1, n2⟩ := hmax
  have := m2 100 (by simp); have := n2 400 (by simp)
  simp only [List.mem_cons, List.not_mem_nil, or_false] at m1 n1
  rw [ha, hb]
  constructor
  · rcases m1 with rfl | rfl <;> first | rfl | omega
  · rcases n1 with rfl | rfl <;> first | rfl | omega

/-- Theorem 3 on the example: gene `G1` (no explicit line) spans all its exons -/
example : ∃ db row, createDb .gtf cfg0 [] exFile = .ok db ∧
    db.features.filter (·.id = s "G1") = [row] ∧ IsGeneRow cfg0 exFile (s "G1") row ∧
    ∀ ss : Session, ss.db = db → getItem ss (s "G1") = .ok (ss.returner row) :=
  gene_extent cfg0 [] exFile cfg0_ok exFile_ok exFile_ext exFile_merge rfl (s "G1")
    ⟨s "T1", by unfold TOwns; decide +kernel⟩ (by decide +kernel)

/-- Theorem 5 on the example: the explicit `transcript` line `T2` -/
example : ∃ db, createDb .gtf cfg0 [] exFile = .ok db ∧
    db.features.filter (·.id = s "T2") =
      [lineRow (mkL "transcript" 50 900 [("gene_id", "G1"), ("transcript_id", "T2")]) (s "T2")] := by
  obtain ⟨db, h1, _, h2, _⟩ := explicit_lines_single cfg0 [] exFile cfg0_ok exFile_ok exFile_ext exFile_merge
    (mkL "transcript" 50 900 [("gene_id", "G1"), ("transcript_id", "T2")], s "T2")
    (List.mem_of_getElem? (keyed_spec cfg0 exFile 3 (by decide))) (by decide)
  exact ⟨db, h1, h2⟩

/-- Theorem 4 on the example -/
example : ∃ (base D : List Row) (rels : List Rel),
    base = (keyed cfg0 exFile).map (fun fk => lineRow fk.1 fk.2) ∧
    (∀ row, row ∈ D ↔
      (∃ t g, TOwns cfg0 exFile t g ∧ ¬ HasExplicit cfg0 exFile t ∧ IsTranscriptRow cfg0 exFile t g row) ∨
      (∃ g, GOwns cfg0 exFile g ∧ ¬ HasExplicit cfg0 exFile g ∧ IsGeneRow cfg0 exFile g row)) ∧
    (∀ r, r ∈ rels ↔ RelSpec cfg0 exFile r) ∧
    (∀ dT dG, ∃ db, createDb .gtf (withFlags cfg0 dT dG) [] exFile = .ok db ∧
      db.features = base ++ D.filter (keptBy dT dG) ∧ db.relations = rels) ∧
    (∀ db auto, updateRelationsGtf (withFlags cfg0 true true) db auto = .ok (db, auto)) :=
  disable_flags cfg0 [] exFile cfg0_ok exFile_ok exFile_ext exFile_merge

/- `#eval` of the model on the example (ids, type, source, start, end of the rows after `createDb .gtf cfg0`):
   exon_1 CDS_1 exon_2 T2(transcript, havana, 50, 900) exon_3 G2(gene, havana, 450, 650) exon_4 exon_5
   T1(transcript, gffutils_derived, 100, 400) G1(gene, gffutils_derived, 100, 800)
   T3(transcript, gffutils_derived, 500, 600);  duplicates = [(T2, T2_1), (G2, G2_1)] -/

/-! #### A boundary of the domain: `MergeOk.noSuffixed` cannot be dropped

The explicit `transcript` line `a` collides with its derived duplicate; `_do_merge(f, 'merge')` renames the
duplicate `a_1` and `_update_relations` then runs `UPDATE features SET attributes = ? WHERE id = 'a_1'`.
If another transcript is called `a_1`, ITS derived row receives the attributes of `a`.  Every other
hypothesis of `transcript_extent` holds for this file, and its conclusion fails. -/

def bad : List Feature :=
  [ mkL "exon" 100 200 [("gene_id", "G0"), ("transcript_id", "a_1")],
    mkL "transcript" 300 900 [("gene_id", "G1"), ("transcript_id", "a")],
    mkL "exon" 300 400 [("gene_id", "G1"), ("transcript_id", "a")] ]

private def bad0 : Db × Dict Nat :=
  match populateGtf cfg0 {} [] bad with
  | .ok r => r
  | .error _ => ({}, [])

private theorem bad_pop : populateGtf cfg0 {} [] bad = .ok bad0 := by
  unfold bad0
  cases hp : populateGtf cfg0 {} [] bad with
  | ok r => rfl
  | error e =>
    have : (populateGtf cfg0 {} [] bad).toBool = true := by decide +kernel
    rw [hp] at this; cases this

open List.MergeSort.Internal in
private theorem mergeSort_two {α} (le : α → α → Bool) (a b : α) :
    [a, b].mergeSort le = List.merge [a] [b] le := by
  rw [List.mergeSort]; simp [splitInTwo]

private theorem bad_sorted : sortedPairs cfg0 bad0.1 = [(s "a_1", s "G0"), (s "a", s "G1")] := by
  have hp : pairsOf cfg0 bad0.1 = [(s "a_1", s "G0"), (s "a", s "G1")] := by decide +kernel
  unfold sortedPairs
  rw [hp, mergeSort_two, List.cons_merge_cons, if_pos (by decide +kernel)]
  simp

theorem bad_ok : CfgOk cfg0 ∧ GtfOk cfg0 bad ∧ ExtOk cfg0 bad ∧
    "source".toList ∉ cfg0.forceMergeFields ∧ (∀ f ∈ bad, explicit f = true → f.source ≠ derivedSrc) :=
  ⟨cfg0_ok,
   ⟨by decide, by decide +kernel, by decide +kernel, by decide +kernel, by decide +kernel, by decide +kernel⟩,
   extOk_of_dec (by decide +kernel) (by decide +kernel) (by decide +kernel) (by decide +kernel) (by decide +kernel),
   by decide, by decide +kernel⟩

/-- Defect D21, repaired (`fix: an inferred gene/transcript that collides with a file line no longer
overwrites '<id>_1'`): in the file `bad` (an explicit transcript `a`, and another transcript called
`a_1`) the row stored under `a_1` keeps its own ids.  On the pinned commit it carried
`transcript_id "a"`, `gene_id "G1"` — the `UPDATE … WHERE id = 'a_1'` issued for the renamed duplicate of
`a`; `MergeOk.noSuffixed` excludes such files and is therefore stronger than the repaired code needs. -/
theorem noSuffixed_needed :
    (createDb .gtf cfg0 [] bad).toOption.map (fun db => (db.getRow? (s "a_1")).map (·.attrs)) =
      some (some [(s "transcript_id", [s "a_1"]), (s "gene_id", [s "G0"])]) := by
  have h1 : createDb .gtf cfg0 [] bad =
      (updateRelationsGtf cfg0 bad0.1 bad0.2 >>= fun r => pure (finalize r.1 cfg0.dialect [] r.2)) := by
    simp only [createDb, bad_pop, bind, Except.bind]
  have h2 : updateRelationsGtf cfg0 bad0.1 bad0.2 =
      ([(s "a_1", s "G0"), (s "a", s "G1")].foldlM (step1 cfg0 bad0.1) ([], none) >>=
        fun r => r.1.foldlM (step2 cfg0) (bad0.1, bad0.2)) := by
    rw [updateRelationsGtf_eq, if_neg (by decide), bad_sorted]
  rw [h1, h2]
  decide +kernel

end Example

end GffProofs.C03
