/-
  C10c — GTF `FeatureDB.update` with gene / transcript INFERENCE ON (the statement C10b §3 left partial).

  What the real code does (replayed on `/repo` with `/venv/bin/python`, `create_db(pre)` then `db.update(post)`,
  and on the model with `#eval`; both agree row for row, relation for relation, counter for counter):

  (a) a transcript `T1` with a stored derived row gains an exon in `post`: `_update_relations` derives `T1`
      again with the NEW extent, the INSERT collides with the stored row, `_do_merge(f, 'merge')` compares the
      columns (start / end differ), renames the new feature `T1_1`, records `(T1, T1_1)` in `duplicates`, bumps the
      counter `T1` — and, the final strategy not being `merge`, writes nothing.  The stored row KEEPS ITS OLD
      EXTENT (100..200 instead of 100..400); no row `T1_1` appears.  The same for its gene.
  (b) a gene that gains a transcript: the new transcript gets a derived row (extent of its exons); the gene row
      keeps its old extent, `(G1, G1_1)` recorded.
  (c) a brand-new gene: transcript and gene rows are appended, with their extents.
  In all three the rows of the lines and the relation table are those of importing `pre ++ post` in one go; the
  derived rows are NOT (stale extents in (a), (b); and the row order differs: new rows go to the end).

  Theorems:
  * `update_gtf_exact`       one `update`, exact rows / relations / counters, invariant form (`GtfDbInv`)
  * `createDb_gtfDbInv`      `create_db` establishes the invariant
  * `update_keeps_stored`    every stored row — derived ones included — is still there, unchanged
  * `update_gtf_stale`       the model computes (a): the stored extent is the OLD one, and differs from one-go
  * `history_gtf`            create + any number of updates: every line once under its key, hierarchy, ids
                             distinct, each derived id one row spanning the exons of the history UP TO THE BATCH
                             IN WHICH THE ID FIRST OWNED AN EXON, counters only grow, no key twice
  * `created_transcript_frozen` / `created_gene_frozen`  an id that owned an exon at `create_db` keeps that extent
  * `update_gtf_populate_exact`  C10b's labelled `Prop` `update_gtf_exact_full` (the populate half from an ARBITRARY
                             database and counters) holds
  * `suffix_needed`          the extra domain hypothesis `SuffixOk` cannot be dropped: a three-step history in
                             which the real code (and the model) rewrites the attributes of ANOTHER transcript's
                             row (residual of defect D21 in update histories)
-/
import GffProofs.Lemmas.C10cEval
import GffProofs.Lemmas.C10cAux5

namespace GffProofs.C10c
open GffModel GffModel.Create GffModel.Interface
open GffProofs.C03 GffProofs.C10
open GffProofs.C04 (autoId incr_spec IdsNodup)

/-! ## 1. one import pass (`_populate_from_lines` + `_update_relations`) on an open database -/

/-- a derived row of the specification has a gene / transcript id without explicit line -/
theorem derivedSpec_id {cfg : Cfg} {fs : List Feature} {row : Row} (h : DerivedSpec cfg fs row) :
    (row.id ∈ tids cfg fs ∨ row.id ∈ gids cfg fs) ∧ ¬ HasExplicit cfg fs row.id := by
  rcases h with ⟨_, t, g, ⟨f, hf, _, htid, _⟩, hne, hr⟩ | ⟨_, g, ⟨t, f, hf, _, _, hgid⟩, hne, hr⟩
  · rw [hr.id]; exact ⟨Or.inl (mem_tids hf htid), hne⟩
  · rw [hr.id]; exact ⟨Or.inr (mem_gids hf hgid), hne⟩

/-- **the importer core**, shared by `create_db` (on the empty database) and `update`: on a database satisfying
the invariant for the lines `pre`, importing `post` appends the rows of `post` and then the derived rows of
`pre ++ post` whose id is not stored yet; stored rows are untouched. -/
theorem import_core (cfg : Cfg) (hc : CfgOk cfg) (pre post : List Feature) (hpost : post ≠ [])
    (hok : GtfOk cfg (pre ++ post)) (he : ExtOk cfg (pre ++ post)) (hm : MergeOk cfg (pre ++ post))
    (hs : SuffixOk cfg (pre ++ post)) (db : Db) (auto : Dict Nat) (inv : GtfDbInv cfg pre db auto)
    (hnew : ∀ fk ∈ keyedAux cfg pre post, explicit fk.1 = true → fk.2 ∉ db.features.map (·.id)) :
    ∃ db1 auto1 db2 auto2 D, populateGtf cfg db auto post = .ok (db1, auto1) ∧
      updateRelationsGtf cfg db1 auto1 = .ok (db2, auto2) ∧
      db2.features = db.features ++ (keyedAux cfg pre post).map (fun fk => lineRow fk.1 fk.2) ++ D ∧
      (∀ row, row ∈ D ↔ DerivedSpec cfg (pre ++ post) row ∧ row.id ∉ db.features.map (·.id)) ∧
      GtfDbInv cfg (pre ++ post) db2 auto2 := by
  obtain ⟨db1, auto1, hpop, hfeat1, _, inv1⟩ := populateGtf_gInv cfg hc pre post hpost hok hs db auto inv hnew
  obtain ⟨dups', auto2, hupd, hd', ha'⟩ := updateRelationsGtf_gInv hc hok he inv1 hm hs
  refine ⟨db1, auto1, _, auto2, derivedRows cfg db1, hpop, hupd, ?_, ?_,
    gInv_after_updateRelations hc hok he inv1 dups' auto2 hd' ha'⟩
  · show db1.features ++ derivedRows cfg db1 = _
    rw [hfeat1]
  · intro row
    rw [mem_derivedRowsG hc hok he inv1 row]
    apply and_congr_right
    intro hspec
    rw [hfeat1, List.map_append, List.mem_append, not_or]
    constructor
    · exact fun hn => hn.1
    · intro hn
      refine ⟨hn, ?_⟩
      intro hin
      rw [List.map_map] at hin
      obtain ⟨fk, hfk, hfke⟩ := List.mem_map.mp hin
      simp only [Function.comp, lineRow_id] at hfke
      have hfk' : fk ∈ keyed cfg (pre ++ post) := by rw [keyed_append]; exact List.mem_append_right _ hfk
      obtain ⟨hid, hne⟩ := derivedSpec_id hspec
      exact hne ⟨fk, hfk', explicit_of_id_key hok hfk' (hfke ▸ hid), hfke⟩

theorem gInv_finalize {cfg : Cfg} {fs : List Feature} {db : Db} {auto : Dict Nat} (inv : GtfDbInv cfg fs db auto)
    (d : Dialect) (dirs : List Str) (a : Dict Nat) : GtfDbInv cfg fs (finalize db d dirs a) auto :=
  ⟨inv.linesIn, inv.rows, inv.idsNodup, inv.rels, inv.relsNodup, inv.dups, inv.cnt⟩

/-! ## 2. `update` -/

/-- **GTF `update`, inference on, exactly.**  `s` is an open GTF database whose history is the lines `pre`
(`GtfDbInv`; established by `create_db`: `createDb_gtfDbInv`, preserved here); `post` are the new lines;
`pre ++ post` is in C03's domain (`GtfOk`, `ExtOk`, `MergeOk`; both `disable_infer_*` flags arbitrary) and
satisfies `SuffixOk`; explicit `gene` / `transcript` lines of `post` do not name a stored id (`lateOk_fresh`).
Then `update` succeeds and

* **rows**: the stored rows, UNCHANGED AND IN PLACE — the lines of earlier batches and the derived rows with the
  extents they were given when first derived —, then the lines of `post` in order under their keys
  (`<featuretype>_<n>` continuing the numbering), then `D`: the derived `transcript` / `gene` rows of the WHOLE
  history `pre ++ post` (extent: min start … max end over all exon lines of `pre ++ post`; `DerivedSpec`) for
  exactly the ids that had no row.  A derived id that had a row keeps the OLD row: extents are not recomputed;
* **relations**: exactly `RelSpec cfg (pre ++ post)`, no row twice;
* ids pairwise distinct; the invariant holds for `pre ++ post` (so the theorem iterates);
* **counters**: per line featuretype the number of lines of `pre ++ post`; all counters only grow; persisted;
* one meta row appended; `directives` untouched. -/
theorem update_gtf_exact (s : Session) (cfg : Cfg) (pre post : List Feature)
    (hfmt : s.dialect.fmt = Parser.gtf) (hc : CfgOk cfg) (hpost : post ≠ [])
    (hok : GtfOk cfg (pre ++ post)) (he : ExtOk cfg (pre ++ post)) (hm : MergeOk cfg (pre ++ post))
    (hs : SuffixOk cfg (pre ++ post))
    (hnew : ∀ fk ∈ keyedAux cfg pre post, explicit fk.1 = true → fk.2 ∉ s.db.features.map (·.id))
    (inv : GtfDbInv cfg pre s.db s.auto) :
    ∃ s' D, update s cfg post = .ok s' ∧
      s'.db.features = s.db.features ++ (keyedAux cfg pre post).map (fun fk => lineRow fk.1 fk.2) ++ D ∧
      (∀ row, row ∈ D ↔ DerivedSpec cfg (pre ++ post) row ∧ row.id ∉ s.db.features.map (·.id)) ∧
      GtfDbInv cfg (pre ++ post) s'.db s'.auto ∧
      (∀ r, r ∈ s'.db.relations ↔ RelSpec cfg (pre ++ post) r) ∧ s'.db.relations.Nodup ∧
      IdsNodup s'.db ∧
      (∀ ft, ft ≠ geneT → ft ≠ transcriptT → ft ∉ tids cfg (pre ++ post) → ft ∉ gids cfg (pre ++ post) →
        (s'.auto.get? ft).getD 0 = ((pre ++ post).filter (fun g => g.ftype = ft)).length) ∧
      CountersLe s.auto s'.auto ∧
      s'.db.metaRows = s.db.metaRows ++ [cfg.dialect] ∧ s'.db.directives = s.db.directives ∧
      s'.db.autoinc = setAll s'.auto s.db.autoinc ∧
      s'.dialect = s.dialect ∧ s'.directives = s.directives := by
  obtain ⟨db1, auto1, db2, auto2, D, hpop, hupd, hfeat, hD, inv2⟩ :=
    import_core cfg hc pre post hpost hok he hm hs s.db s.auto inv hnew
  have hup : update s cfg post = .ok { s with db := finalize db2 cfg.dialect [] auto2, auto := auto2 } := by
    rw [(C05.update_same_as_create s cfg post).2.1 hpost hfmt, hpop]
    simp only [hupd]
  have hfr := (populateGtf_frame _ _ _ _ _ _ hpop).trans (updateRelationsGtf_frame _ _ _ _ _ hupd)
  have inv' := gInv_finalize inv2 cfg.dialect [] auto2
  refine ⟨_, D, hup, hfeat, hD, inv', inv'.rels, inv'.relsNodup, inv'.idsNodup, inv'.cnt,
    (counters_monotone _ _ _ _ hup).1, ?_, ?_, ?_, rfl, rfl⟩
  · show db2.metaRows ++ [cfg.dialect] = _
    rw [hfr.metaRows]
  · show db2.directives ++ [] = _
    rw [hfr.directives]; simp
  · show (finalize db2 cfg.dialect [] auto2).autoinc = _
    rw [finalize_autoinc, hfr.autoinc]

/-- **no stored row is lost or altered by `update`** — in particular a stored derived `transcript` / `gene` row
keeps the extent it was given when it was first derived, whatever exons the new lines add: `db[id]` answers the
same feature before and after -/
theorem update_keeps_stored (s : Session) (cfg : Cfg) (pre post : List Feature)
    (hfmt : s.dialect.fmt = Parser.gtf) (hc : CfgOk cfg) (hpost : post ≠ [])
    (hok : GtfOk cfg (pre ++ post)) (he : ExtOk cfg (pre ++ post)) (hm : MergeOk cfg (pre ++ post))
    (hs : SuffixOk cfg (pre ++ post))
    (hnew : ∀ fk ∈ keyedAux cfg pre post, explicit fk.1 = true → fk.2 ∉ s.db.features.map (·.id))
    (inv : GtfDbInv cfg pre s.db s.auto) :
    ∃ s', update s cfg post = .ok s' ∧ s.db.features <+: s'.db.features ∧
      ∀ row ∈ s.db.features, s'.db.features.filter (·.id = row.id) = [row] ∧
        getItem s' row.id = .ok (s'.returner row) ∧ getItem s row.id = .ok (s.returner row) := by
  obtain ⟨s', D, hup, hfeat, _, _, _, _, hnd, _, _, _, _, _, hdial, _⟩ :=
    update_gtf_exact s cfg pre post hfmt hc hpost hok he hm hs hnew inv
  refine ⟨s', hup, ?_, ?_⟩
  · rw [hfeat, List.append_assoc]; exact List.prefix_append _ _
  · intro row hrow
    have hmem : row ∈ s'.db.features := by rw [hfeat, List.append_assoc]; exact List.mem_append_left _ hrow
    exact ⟨filter_id_of_nodup _ hnd _ hmem, GffProofs.C04.getitem_exact s' hnd _ hmem,
      GffProofs.C04.getitem_exact s inv.idsNodup _ hrow⟩

/-! ## 3. `create_db` establishes the invariant -/

theorem gInv_empty (cfg : Cfg) : GtfDbInv cfg [] ({} : Db) [] where
  linesIn := fun fk hfk => by cases hfk
  rows := fun row hrow => by cases hrow
  idsNodup := List.nodup_nil
  rels := fun r => ⟨fun hr => (by cases hr), fun ⟨_, hfk, _⟩ => (by cases hfk)⟩
  relsNodup := List.nodup_nil
  dups := fun on hon => by cases hon
  cnt := fun _ _ _ _ _ => rfl

/-- **the database `create_db` returns for a GTF file satisfies the invariant** with the persisted counters as
in-memory counters (the session `FeatureDB(path)` gives on it); its rows are the lines followed by the derived
rows of the file (C03's `gtf_import_exact`), every derived id of the file has its row -/
theorem createDb_gtfDbInv (cfg : Cfg) (hc : CfgOk cfg) (dirs : List Str) (fs : List Feature)
    (hok : GtfOk cfg fs) (he : ExtOk cfg fs) (hm : MergeOk cfg fs) (hs : SuffixOk cfg fs) :
    ∃ db0 D, createDb .gtf cfg dirs fs = .ok db0 ∧
      db0.features = (keyed cfg fs).map (fun fk => lineRow fk.1 fk.2) ++ D ∧
      (∀ row, row ∈ D ↔ DerivedSpec cfg fs row) ∧
      GtfDbInv cfg fs db0 db0.autoinc ∧
      db0.metaRows = [cfg.dialect] ∧ db0.directives = dirs ∧ (Dict.keys db0.autoinc).Nodup := by
  obtain ⟨db1, auto1, db2, auto2, D, hpop, hupd, hfeat, hD, inv2⟩ :=
    import_core cfg hc [] fs hok.nonempty (by simpa using hok) (by simpa using he) (by simpa using hm)
      (by simpa using hs) {} [] (gInv_empty cfg) (by intro fk _ _ hin; cases hin)
  simp only [List.nil_append] at hfeat hD inv2
  have hfr := (populateGtf_frame _ _ _ _ _ _ hpop).trans (updateRelationsGtf_frame _ _ _ _ _ hupd)
  have hext := (populateGtf_ext _ _ _ _ _ _ hpop).trans (updateRelationsGtf_ext _ _ _ _ _ hupd)
  have hnd : (Dict.keys auto2).Nodup := hext.nodup (by simp [Dict.keys])
  refine ⟨finalize db2 cfg.dialect dirs auto2, D, ?_, ?_, ?_, ?_, ?_, ?_, ?_⟩
  · simp only [createDb, hpop, hupd, bind, Except.bind, pure, Except.pure]
  · exact hfeat
  · intro row
    rw [hD]
    simp
  · refine ⟨inv2.linesIn, inv2.rows, inv2.idsNodup, inv2.rels, inv2.relsNodup, inv2.dups, ?_⟩
    intro ft h1 h2 h3 h4
    rw [← inv2.cnt ft h1 h2 h3 h4, finalize_autoinc]
    cases hk : Dict.get? auto2 ft with
    | some n => rw [get?_setAll_mem _ _ _ _ hnd hk]
    | none =>
      rw [get?_setAll_not_mem _ _ _ ((get?_eq_none_iff _ _).mp hk), hfr.autoinc]; rfl
  · show db2.metaRows ++ [cfg.dialect] = _
    rw [hfr.metaRows]; rfl
  · show db2.directives ++ dirs = _
    rw [hfr.directives]; rfl
  · rw [finalize_autoinc, hfr.autoinc]
    exact setAll_keys_nodup _ _ (by simp [Dict.keys])

/-! ## 4. histories: `create_db` followed by any number of `update`s -/

/-- **domain of a history**: `create_db` on the lines `b0`, then `update` with each batch of `bs` (same
configuration, GTF dialect): the concatenated file is in C03's domain and satisfies `SuffixOk`; explicit
`gene` / `transcript` lines arrive no later than the first exon of their id (`LateOk`) -/
structure HistOk (cfg : Cfg) (b0 : List Feature) (bs : List (List Feature)) : Prop where
  cfgOk : CfgOk cfg
  gtf : cfg.dialect.fmt = Parser.gtf
  b0ne : b0 ≠ []
  ok : GtfOk cfg (b0 ++ bs.flatten)
  ext : ExtOk cfg (b0 ++ bs.flatten)
  merge : MergeOk cfg (b0 ++ bs.flatten)
  suffix : SuffixOk cfg (b0 ++ bs.flatten)
  late : ∀ B1 b B2, bs = B1 ++ b :: B2 → LateOk cfg (b0 ++ B1.flatten) b

/-- what holds of the open database after the history `b0, bs` -/
structure HistInv (cfg : Cfg) (b0 : List Feature) (bs : List (List Feature)) (s : Session) : Prop where
  inv : GtfDbInv cfg (b0 ++ bs.flatten) s.db s.auto
  /-- every derived id of the whole history has a row -/
  complete : ∀ row, DerivedSpec cfg (b0 ++ bs.flatten) row → row.id ∈ s.db.features.map (·.id)
  /-- a row under an id without explicit line is the derived row computed at the id's FIRST boundary -/
  exact : ∀ row ∈ s.db.features, ¬ HasExplicit cfg (b0 ++ bs.flatten) row.id →
    ∀ P, BornAt b0 bs (fun F => OwnsId cfg F row.id) P → DerivedAt cfg P row
  fmt : s.dialect.fmt = Parser.gtf

theorem histOk_init {cfg : Cfg} {b0 : List Feature} {bs : List (List Feature)} {b : List Feature}
    (h : HistOk cfg b0 (bs ++ [b])) : HistOk cfg b0 bs := by
  have hF : b0 ++ (bs ++ [b]).flatten = (b0 ++ bs.flatten) ++ b := by simp [List.append_assoc]
  have hne : b0 ++ bs.flatten ≠ [] := by
    intro e; exact h.b0ne (List.append_eq_nil_iff.mp e).1
  refine ⟨h.cfgOk, h.gtf, h.b0ne, gtfOk_prefix hne (hF ▸ h.ok), extOk_prefix (hF ▸ h.ext),
    mergeOk_prefix (hF ▸ h.merge), suffixOk_prefix (hF ▸ h.suffix), ?_⟩
  intro B1 x B2 e
  exact h.late B1 x (B2 ++ [b]) (by rw [e]; simp)

/-- `create_db`, then open -/
theorem hist_base (cfg : Cfg) (dirs : List Str) (b0 : List Feature) (h : HistOk cfg b0 []) :
    ∃ db0 s0, createDb .gtf cfg dirs b0 = .ok db0 ∧ openDb db0 = .ok s0 ∧ HistInv cfg b0 [] s0 ∧
      s0.auto = db0.autoinc ∧ s0.db = db0 ∧ CountersOk s0 := by
  have hok : GtfOk cfg b0 := by simpa using h.ok
  have he : ExtOk cfg b0 := by simpa using h.ext
  obtain ⟨db0, D, hcr, hfeat, hD, inv0, hmeta, _, hnd⟩ :=
    createDb_gtfDbInv cfg h.cfgOk dirs b0 hok he (by simpa using h.merge) (by simpa using h.suffix)
  have hopen : openDb db0 = .ok { db := db0, auto := db0.autoinc, dialect := cfg.dialect, directives := db0.directives } := by
    unfold openDb; rw [hmeta]
  refine ⟨db0, _, hcr, hopen, ⟨by simpa using inv0, ?_, ?_, h.gtf⟩, rfl, rfl,
    openDb_countersOk db0 false false _ hopen hnd⟩
  · intro row hrow
    simp only [List.flatten_nil, List.append_nil] at hrow
    show row.id ∈ db0.features.map (·.id)
    rw [hfeat]
    exact List.mem_map.mpr ⟨row, List.mem_append_right _ ((hD row).mpr hrow), rfl⟩
  · intro row hrow hne P hB
    simp only [List.flatten_nil, List.append_nil] at hne
    have hP : P = b0 := by
      rcases hB.2 with e | ⟨B1, b, B2, e, _⟩
      · exact e
      · cases B1 <;> cases e
    subst hP
    change row ∈ db0.features at hrow
    rw [hfeat] at hrow
    rcases List.mem_append.mp hrow with hrow | hrow
    · exfalso
      obtain ⟨fk, hfk, rfl⟩ := List.mem_map.mp hrow
      exact hne ⟨fk, hfk, explicit_of_id_key hok hfk (ownsId_ids hB.1), rfl⟩
    · exact derivedSpec_at ((hD row).mp hrow)

/-- one more `update` -/
theorem hist_step (cfg : Cfg) (b0 : List Feature) (bs : List (List Feature)) (b : List Feature) (s : Session)
    (h : HistOk cfg b0 (bs ++ [b])) (hi : HistInv cfg b0 bs s) :
    ∃ s', update s cfg b = .ok s' ∧ HistInv cfg b0 (bs ++ [b]) s' ∧ s.db.features <+: s'.db.features := by
  have hF : b0 ++ (bs ++ [b]).flatten = (b0 ++ bs.flatten) ++ b := by simp [List.append_assoc]
  have hM := histOk_init h
  by_cases hb : b = []
  · subst hb
    have hF0 : b0 ++ (bs ++ [[]]).flatten = b0 ++ bs.flatten := by simp
    refine ⟨s, rfl, ⟨by rw [hF0]; exact hi.inv, by rw [hF0]; exact hi.complete, ?_, hi.fmt⟩, List.prefix_refl _⟩
    intro row hrow hne P hB
    rw [hF0] at hne
    rcases bornAt_snoc hB with hB' | ⟨hPe, hnot⟩
    · exact hi.exact row hrow hne P hB'
    · exfalso
      apply hnot
      have := hB.1
      rw [hPe, List.append_nil] at this
      exact this
  · have hok : GtfOk cfg ((b0 ++ bs.flatten) ++ b) := hF ▸ h.ok
    have he : ExtOk cfg ((b0 ++ bs.flatten) ++ b) := hF ▸ h.ext
    have hnew := lateOk_fresh hok hi.inv (h.late bs b [] rfl)
    obtain ⟨s', D, hup, hfeat, hD, inv', _, _, _, _, _, _, _, _, hdial, _⟩ :=
      update_gtf_exact s cfg (b0 ++ bs.flatten) b hi.fmt h.cfgOk hb hok he (hF ▸ h.merge) (hF ▸ h.suffix) hnew hi.inv
    have hsub : ∀ x, x ∈ s.db.features.map (·.id) → x ∈ s'.db.features.map (·.id) := by
      intro x hx
      rw [hfeat, List.append_assoc, List.map_append]
      exact List.mem_append_left _ hx
    refine ⟨s', hup, ⟨by rw [hF]; exact inv', ?_, ?_, by rw [hdial]; exact hi.fmt⟩, ?_⟩
    · intro row hspec
      rw [hF] at hspec
      by_cases hin : row.id ∈ s.db.features.map (·.id)
      · exact hsub _ hin
      · have : row ∈ s'.db.features := by
          rw [hfeat]; exact List.mem_append_right _ ((hD row).mpr ⟨hspec, hin⟩)
        exact List.mem_map.mpr ⟨row, this, rfl⟩
    · intro row hrow hne P hB
      rw [hF] at hne
      have hneM : ¬ HasExplicit cfg (b0 ++ bs.flatten) row.id := fun hx => hne (hasExplicit_mono hx)
      have hownF : OwnsId cfg ((b0 ++ bs.flatten) ++ b) row.id := ownsId_mono (hF ▸ bornAt_prefix hB) hB.1
      rw [hfeat] at hrow
      rcases List.mem_append.mp hrow with hrow | hrowC
      · rcases List.mem_append.mp hrow with hrowA | hrowB
        · rcases bornAt_snoc hB with hB' | ⟨hPe, hnot⟩
          · exact hi.exact row hrowA hneM P hB'
          · exfalso
            apply hnot
            rcases hi.inv.rows row hrowA with ⟨fk, hfk, rfl⟩ | hst
            · exfalso
              have hfk' : fk ∈ keyed cfg ((b0 ++ bs.flatten) ++ b) := mem_keyed_append_left hfk
              exact hne ⟨fk, hfk', explicit_of_id_key hok hfk' (ownsId_ids hownF), rfl⟩
            · obtain ⟨fs', hp, hda⟩ := staleDerived_iff.mp hst
              exact ownsId_mono hp (derivedAt_id hda)
        · exfalso
          obtain ⟨fk, hfk, rfl⟩ := List.mem_map.mp hrowB
          have hfk' : fk ∈ keyed cfg ((b0 ++ bs.flatten) ++ b) := by
            rw [keyed_append]; exact List.mem_append_right _ hfk
          exact hne ⟨fk, hfk', explicit_of_id_key hok hfk' (ownsId_ids hownF), rfl⟩
      · obtain ⟨hspec, hfreshid⟩ := (hD row).mp hrowC
        rcases bornAt_snoc hB with hB' | ⟨hPe, hnot⟩
        · exfalso
          have hownM : OwnsId cfg (b0 ++ bs.flatten) row.id := ownsId_mono (bornAt_prefix hB') hB'.1
          obtain ⟨hdsT, hdsG⟩ := derivedSpec_exists h.cfgOk hM.ok hM.ext hi.inv hneM
          rcases hspec with ⟨hdT, t, g, ho, _, hr⟩ | ⟨hdG, g, ho, _, hr⟩
          · rcases hownM with ⟨g0, ho0⟩ | hg0
            · obtain ⟨row0, hs0, hid0⟩ := hdsT hdT g0 ho0
              exact hfreshid (hid0 ▸ hi.complete row0 hs0)
            · obtain ⟨f, hf, _, htid, _⟩ := ho
              rcases ownsId_ids (Or.inr hg0 : OwnsId cfg (b0 ++ bs.flatten) row.id) with h1 | h1
              · obtain ⟨t', f', hf', _, _, hgid'⟩ := hg0
                refine hok.tgDisjoint row.id (hr.id ▸ mem_tids hf htid) ?_
                exact mem_gids (List.mem_append_left _ hf') hgid'
              · refine hok.tgDisjoint row.id (hr.id ▸ mem_tids hf htid) ?_
                rw [gids_append]; exact List.mem_append_left _ h1
          · rcases hownM with ⟨g0, ho0⟩ | hg0
            · obtain ⟨t', f, hf, _, _, hgid⟩ := ho
              obtain ⟨f0, hf0, _, htid0, _⟩ := ho0
              refine hok.tgDisjoint row.id (mem_tids (List.mem_append_left _ hf0) htid0) ?_
              exact hr.id ▸ mem_gids hf hgid
            · obtain ⟨row0, hs0, hid0⟩ := hdsG hdG hg0
              exact hfreshid (hid0 ▸ hi.complete row0 hs0)
        · rw [hPe]
          exact derivedSpec_at hspec
    · rw [hfeat, List.append_assoc]; exact List.prefix_append _ _

/-- the whole history -/
theorem hist_run (cfg : Cfg) (b0 : List Feature) (s0 : Session) (h0 : HistInv cfg b0 [] s0) :
    ∀ bs, HistOk cfg b0 bs → ∃ s', updates cfg s0 bs = .ok s' ∧ HistInv cfg b0 bs s' ∧
      s0.db.features <+: s'.db.features := by
  apply snoc_induction
  · intro _
    exact ⟨s0, rfl, h0, List.prefix_refl _⟩
  · intro bs b ih h
    obtain ⟨s1, hrun, hi1, hp1⟩ := ih (histOk_init h)
    obtain ⟨s', hup, hi', hp'⟩ := hist_step cfg b0 bs b s1 h hi1
    refine ⟨s', ?_, hi', hp1.trans hp'⟩
    rw [updates_snoc, hrun]
    exact hup

/-- a generated key stored in the database is never handed out again: its number is at most the counter of its
featuretype -/
theorem line_key_le_counter {cfg : Cfg} {fs : List Feature} (h : GtfOk cfg fs) (hs : SuffixOk cfg fs) {db : Db}
    {auto : Dict Nat} (inv : GtfDbInv cfg fs db auto) {fk : Feature × Str} (hfk : fk ∈ keyed cfg fs)
    (hex : explicit fk.1 = false) : ∃ n, fk.2 = autoId fk.1.ftype n ∧ n ≤ (auto.get? fk.1.ftype).getD 0 := by
  obtain ⟨pre, post, hsplit, hk⟩ := of_mem_keyedAux cfg fs [] fk hfk
  obtain ⟨h1, h2⟩ := (explicit_false_iff _).mp hex
  obtain ⟨h3, h4⟩ := ftype_not_id h hs (mem_of_mem_keyed hfk) hex
  refine ⟨(pre.filter (fun g => g.ftype = fk.1.ftype)).length + 1, ?_, ?_⟩
  · rw [hk, List.nil_append, lineKey_auto cfg pre fk.1 hex]
  · rw [inv.cnt _ h1 h2 h3 h4, hsplit]
    simp [List.filter_append]

/-- **create + any number of updates, inference on** (property C03 / C10 over histories).  For a history in the
domain `HistOk` — `create_db(b0)`, reopen, `update(b)` for each batch `b` of `bs` — every step succeeds and in the
final database, `total = b0 ++ bs.flatten` being the concatenated file:

1. every line of every batch is stored exactly once under its key, unchanged, and `db[key]` returns it;
2. every non-gene, non-transcript line is a level-1 child of its transcript and a level-2 child of its gene, every
   transcript a level-1 child of its gene; the relation table is exactly `RelSpec cfg total`, without duplicate
   rows and without `(x, x, _)`;
3. ids are pairwise distinct;
4. every other row is the derived `transcript` / `gene` row of its id, computed over the lines imported up to the
   FIRST boundary `P` of the history at which the id owned an exon (`BornAt`, `DerivedAt`): extents are those of
   that moment, not of the final file; every derived id of the final file (`DerivedSpec`) has its row;
5. the counters of `s0` are still present and at least as large; per line featuretype the counter is the number of
   lines; no generated key stored in the database can be handed out again by any later counter state. -/
theorem history_gtf (cfg : Cfg) (dirs : List Str) (b0 : List Feature) (bs : List (List Feature))
    (h : HistOk cfg b0 bs) :
    ∃ db0 s0 s', createDb .gtf cfg dirs b0 = .ok db0 ∧ openDb db0 = .ok s0 ∧ updates cfg s0 bs = .ok s' ∧
      GtfDbInv cfg (b0 ++ bs.flatten) s'.db s'.auto ∧
      (∀ fk ∈ keyed cfg (b0 ++ bs.flatten),
        s'.db.features.filter (·.id = fk.2) = [lineRow fk.1 fk.2] ∧
        getItem s' fk.2 = .ok (s'.returner (lineRow fk.1 fk.2))) ∧
      (∀ fk ∈ keyed cfg (b0 ++ bs.flatten), explicit fk.1 = false →
        (∀ t, tidOf cfg fk.1 = some t → (⟨t, fk.2, 1⟩ : Rel) ∈ s'.db.relations) ∧
        (∀ g, gidOf cfg fk.1 = some g → (⟨g, fk.2, 2⟩ : Rel) ∈ s'.db.relations)) ∧
      (∀ f ∈ b0 ++ bs.flatten, ∀ t g, tidOf cfg f = some t → gidOf cfg f = some g →
        (⟨g, t, 1⟩ : Rel) ∈ s'.db.relations) ∧
      (∀ r, r ∈ s'.db.relations ↔ RelSpec cfg (b0 ++ bs.flatten) r) ∧ s'.db.relations.Nodup ∧
      (∀ r ∈ s'.db.relations, r.parent ≠ r.child) ∧
      IdsNodup s'.db ∧
      (∀ row ∈ s'.db.features, (∃ fk ∈ keyed cfg (b0 ++ bs.flatten), row = lineRow fk.1 fk.2) ∨
        ∃ P, BornAt b0 bs (fun F => OwnsId cfg F row.id) P ∧ DerivedAt cfg P row) ∧
      (∀ row, DerivedSpec cfg (b0 ++ bs.flatten) row → row.id ∈ s'.db.features.map (·.id)) ∧
      db0.features <+: s'.db.features ∧
      CountersLe s0.auto s'.auto ∧
      (∀ ft, ft ≠ geneT → ft ≠ transcriptT → ft ∉ tids cfg (b0 ++ bs.flatten) → ft ∉ gids cfg (b0 ++ bs.flatten) →
        (s'.auto.get? ft).getD 0 = ((b0 ++ bs.flatten).filter (fun g => g.ftype = ft)).length) ∧
      (∀ later, CountersLe s'.auto later → ∀ k, ∀ fk ∈ keyed cfg (b0 ++ bs.flatten), explicit fk.1 = false →
        (incr later k).1 ≠ fk.2) := by
  obtain ⟨db0, s0, hcr, hopen, hi0, _, hdb0, _⟩ := hist_base cfg dirs b0
    ⟨h.cfgOk, h.gtf, h.b0ne, by simpa using gtfOk_prefix h.b0ne h.ok, by simpa using extOk_prefix h.ext,
     by simpa using mergeOk_prefix h.merge, by simpa using suffixOk_prefix h.suffix,
     by intro B1 b B2 e; cases B1 <;> cases e⟩
  obtain ⟨s', hrun, hi, hpre⟩ := hist_run cfg b0 s0 hi0 bs h
  have inv := hi.inv
  refine ⟨db0, s0, s', hcr, hopen, hrun, inv, ?_, ?_, ?_, inv.rels, inv.relsNodup, ?_, inv.idsNodup, ?_,
    hi.complete, hdb0 ▸ hpre, updates_counters cfg bs s0 s' hrun, inv.cnt, ?_⟩
  · intro fk hfk
    have hmem := inv.linesIn fk hfk
    exact ⟨filter_id_of_nodup _ inv.idsNodup _ hmem, GffProofs.C04.getitem_exact s' inv.idsNodup _ hmem⟩
  · intro fk hfk hex
    constructor
    · intro t ht
      exact (inv.rels _).mpr ⟨fk, hfk, Or.inl ⟨hex, t, ht, rfl⟩⟩
    · intro g hg
      exact (inv.rels _).mpr ⟨fk, hfk, Or.inr (Or.inl ⟨hex, g, hg, rfl⟩)⟩
  · intro f hf t g ht hg
    obtain ⟨k, hk⟩ := exists_key_of_mem (cfg := cfg) hf
    exact (inv.rels _).mpr ⟨(f, k), hk, Or.inr (Or.inr ⟨t, g, ht, hg, rfl⟩)⟩
  · intro r hr
    exact relSpec_irrefl cfg _ h.ok r ((inv.rels r).mp hr)
  · intro row hrow
    rcases inv.rows row hrow with hl | hst
    · exact Or.inl hl
    · by_cases hx : HasExplicit cfg (b0 ++ bs.flatten) row.id
      · left
        obtain ⟨fk, hfk, _, hid⟩ := hx
        refine ⟨fk, hfk, ?_⟩
        exact eq_of_nodup_map inv.idsNodup hrow (inv.linesIn fk hfk) hid.symm
      · right
        obtain ⟨fs', hp, hda⟩ := staleDerived_iff.mp hst
        obtain ⟨P, hP⟩ := bornAt_exists b0 (fun F => OwnsId cfg F row.id) bs (ownsId_mono hp (derivedAt_id hda))
        exact ⟨P, hP, hi.exact row hrow hx P hP⟩
  · intro later hle k fk hfk hex
    obtain ⟨n, hn, hle'⟩ := line_key_le_counter h.ok h.suffix inv hfk hex
    rw [hn]
    exact (keys_never_recycled later k).1 fk.1.ftype n (Nat.le_trans hle' (hle.getD _))

/-- **the derived transcript over a history** (C03's `transcript_extent`, for create + updates): with transcript
inference enabled, a transcript id `t` of gene `g` that owns an exon somewhere in the history and has no explicit
line has exactly one row; it spans — minimum start to maximum end, on their seqid and strand — the exons of `t`
among the lines imported up to the first boundary `P` at which `t` owned an exon; `db[t]` returns it. -/
theorem history_transcript_extent (cfg : Cfg) (dirs : List Str) (b0 : List Feature) (bs : List (List Feature))
    (h : HistOk cfg b0 bs) (hT : cfg.disableTranscripts = false) (t g : Str)
    (ho : TOwns cfg (b0 ++ bs.flatten) t g) (hne : ¬ HasExplicit cfg (b0 ++ bs.flatten) t) :
    ∃ db0 s0 s' row P, createDb .gtf cfg dirs b0 = .ok db0 ∧ openDb db0 = .ok s0 ∧ updates cfg s0 bs = .ok s' ∧
      s'.db.features.filter (·.id = t) = [row] ∧ getItem s' t = .ok (s'.returner row) ∧
      BornAt b0 bs (fun F => OwnsId cfg F t) P ∧ P <+: b0 ++ bs.flatten ∧ IsTranscriptRow cfg P t g row := by
  obtain ⟨db0, s0, s', hcr, hopen, hrun, inv, _, _, _, _, _, _, hnd, hrows, hcomplete, _⟩ :=
    history_gtf cfg dirs b0 bs h
  obtain ⟨row0, hs0, hid0⟩ := (derivedSpec_exists h.cfgOk h.ok h.ext inv hne).1 hT g ho
  obtain ⟨row, hrow, hid⟩ := List.mem_map.mp (hcomplete row0 hs0)
  rw [hid0] at hid
  have hline : ¬ ∃ fk ∈ keyed cfg (b0 ++ bs.flatten), row = lineRow fk.1 fk.2 := by
    rintro ⟨fk, hfk, rfl⟩
    obtain ⟨f, hf, _, htid, _⟩ := ho
    have hid' : fk.2 = t := hid
    exact hne ⟨fk, hfk, explicit_of_id_key h.ok hfk (Or.inl (hid' ▸ mem_tids hf htid)), hid'⟩
  rcases hrows row hrow with hl | ⟨P, hP, hda⟩
  · exact absurd hl hline
  · have hpre := bornAt_prefix hP
    refine ⟨db0, s0, s', row, P, hcr, hopen, hrun, ?_, ?_, hid ▸ hP, hpre, ?_⟩
    · rw [← hid]; exact filter_id_of_nodup _ hnd _ hrow
    · rw [← hid]; exact GffProofs.C04.getitem_exact s' hnd _ hrow
    · obtain ⟨f, hf, _, htid, hgid⟩ := ho
      rcases hda with ⟨t', g', ho', hr⟩ | ⟨g', ⟨t', f', hf', _, _, hgid'⟩, hr⟩
      · have e : t' = t := by rw [← hr.id]; exact hid
        subst e
        obtain ⟨f', hf', _, htid', hgid'⟩ := ho'
        have eg : g' = g := h.ext.oneGene f' (mem_of_prefix hpre hf') f hf t' g' g htid' htid hgid' hgid
        subst eg
        exact hr
      · exfalso
        have e : g' = t := by rw [← hr.id]; exact hid
        subst e
        exact h.ok.tgDisjoint _ (mem_tids hf htid) (mem_gids (mem_of_prefix hpre hf') hgid')

/-- **the derived gene over a history** (C03's `gene_extent`, for create + updates) -/
theorem history_gene_extent (cfg : Cfg) (dirs : List Str) (b0 : List Feature) (bs : List (List Feature))
    (h : HistOk cfg b0 bs) (hG : cfg.disableGenes = false) (g : Str)
    (ho : GOwns cfg (b0 ++ bs.flatten) g) (hne : ¬ HasExplicit cfg (b0 ++ bs.flatten) g) :
    ∃ db0 s0 s' row P, createDb .gtf cfg dirs b0 = .ok db0 ∧ openDb db0 = .ok s0 ∧ updates cfg s0 bs = .ok s' ∧
      s'.db.features.filter (·.id = g) = [row] ∧ getItem s' g = .ok (s'.returner row) ∧
      BornAt b0 bs (fun F => OwnsId cfg F g) P ∧ P <+: b0 ++ bs.flatten ∧ IsGeneRow cfg P g row := by
  obtain ⟨db0, s0, s', hcr, hopen, hrun, inv, _, _, _, _, _, _, hnd, hrows, hcomplete, _⟩ :=
    history_gtf cfg dirs b0 bs h
  obtain ⟨row0, hs0, hid0⟩ := (derivedSpec_exists h.cfgOk h.ok h.ext inv hne).2 hG ho
  obtain ⟨row, hrow, hid⟩ := List.mem_map.mp (hcomplete row0 hs0)
  rw [hid0] at hid
  have hline : ¬ ∃ fk ∈ keyed cfg (b0 ++ bs.flatten), row = lineRow fk.1 fk.2 := by
    rintro ⟨fk, hfk, rfl⟩
    obtain ⟨t, f, hf, _, _, hgid⟩ := ho
    have hid' : fk.2 = g := hid
    exact hne ⟨fk, hfk, explicit_of_id_key h.ok hfk (Or.inr (hid' ▸ mem_gids hf hgid)), hid'⟩
  rcases hrows row hrow with hl | ⟨P, hP, hda⟩
  · exact absurd hl hline
  · have hpre := bornAt_prefix hP
    refine ⟨db0, s0, s', row, P, hcr, hopen, hrun, ?_, ?_, hid ▸ hP, hpre, ?_⟩
    · rw [← hid]; exact filter_id_of_nodup _ hnd _ hrow
    · rw [← hid]; exact GffProofs.C04.getitem_exact s' hnd _ hrow
    · obtain ⟨t, f, hf, _, _, hgid⟩ := ho
      rcases hda with ⟨t', g', ⟨f', hf', _, htid', _⟩, hr⟩ | ⟨g', _, hr⟩
      · exfalso
        have e : t' = g := by rw [← hr.id]; exact hid
        subst e
        exact h.ok.tgDisjoint _ (mem_tids (mem_of_prefix hpre hf') htid') (mem_gids hf hgid)
      · have e : g' = g := by rw [← hr.id]; exact hid
        subst e
        exact hr

/-- whoever owns at `create_db` time is born there -/
theorem bornAt_first {b0 : List Feature} {bs : List (List Feature)} {own : List Feature → Prop}
    (hmono : ∀ a b, a <+: b → own a → own b) (h0 : own b0) {P : List Feature} (h : BornAt b0 bs own P) : P = b0 := by
  rcases h.2 with e | ⟨B1, b, B2, _, _, hnot⟩
  · exact e
  · exact absurd (hmono _ _ (List.prefix_append _ _) h0) hnot

/-- **extents are frozen at first derivation.**  A transcript that owns an exon in the file `create_db` imported
keeps, through ANY number of updates in the domain, the row it was given then: it spans the exons of `b0` only —
whatever exons of `t` the updates add (`update_gtf_stale` is an instance computed by the model; the real code
does the same). -/
theorem created_transcript_frozen (cfg : Cfg) (dirs : List Str) (b0 : List Feature) (bs : List (List Feature))
    (h : HistOk cfg b0 bs) (hT : cfg.disableTranscripts = false) (t g : Str)
    (ho : TOwns cfg b0 t g) (hne : ¬ HasExplicit cfg (b0 ++ bs.flatten) t) :
    ∃ db0 s0 s' row, createDb .gtf cfg dirs b0 = .ok db0 ∧ openDb db0 = .ok s0 ∧ updates cfg s0 bs = .ok s' ∧
      s'.db.features.filter (·.id = t) = [row] ∧ getItem s' t = .ok (s'.returner row) ∧
      IsTranscriptRow cfg b0 t g row := by
  obtain ⟨db0, s0, s', row, P, h1, h2, h3, h4, h5, hB, _, hr⟩ :=
    history_transcript_extent cfg dirs b0 bs h hT t g
      (tOwns_mono (fun x hx => List.mem_append_left _ hx) ho) hne
  have hP : P = b0 := bornAt_first (fun a b hab ha => ownsId_mono hab ha) (Or.inl ⟨g, ho⟩) hB
  subst hP
  exact ⟨db0, s0, s', row, h1, h2, h3, h4, h5, hr⟩

/-- likewise for genes -/
theorem created_gene_frozen (cfg : Cfg) (dirs : List Str) (b0 : List Feature) (bs : List (List Feature))
    (h : HistOk cfg b0 bs) (hG : cfg.disableGenes = false) (g : Str)
    (ho : GOwns cfg b0 g) (hne : ¬ HasExplicit cfg (b0 ++ bs.flatten) g) :
    ∃ db0 s0 s' row, createDb .gtf cfg dirs b0 = .ok db0 ∧ openDb db0 = .ok s0 ∧ updates cfg s0 bs = .ok s' ∧
      s'.db.features.filter (·.id = g) = [row] ∧ getItem s' g = .ok (s'.returner row) ∧
      IsGeneRow cfg b0 g row := by
  obtain ⟨db0, s0, s', row, P, h1, h2, h3, h4, h5, hB, _, hr⟩ :=
    history_gene_extent cfg dirs b0 bs h hG g (gOwns_mono (fun x hx => List.mem_append_left _ hx) ho) hne
  have hP : P = b0 := bornAt_first (fun a b hab ha => ownsId_mono hab ha) (Or.inr ho) hB
  subst hP
  exact ⟨db0, s0, s', row, h1, h2, h3, h4, h5, hr⟩

/-! ## 4b. C10b's remaining labelled `Prop` -/

/-- the populate half of GTF `update` from an arbitrary database and arbitrary counters: C10b recorded it as the
unproved `def update_gtf_exact_full : Prop`; it holds (`GffProofs/Lemmas/C10cAux5.lean`) -/
theorem update_gtf_populate_exact : update_gtf_exact_full := update_gtf_exact_full_holds

/-! ## 5. Non-vacuity, and what the model computes -/

section Examples

private def s (x : String) : Str := x.toList

/-- the default GTF configuration of `create_db` / `update`: BOTH inference flags off-by-default, i.e.
inference ON; GTF dialect -/
def gtfCfgOn : Cfg := { idSpec := defaultGtfSpec, dialect := { Dialect.default with fmt := Parser.gtf } }

theorem gtfCfgOn_ok : CfgOk gtfCfgOn := ⟨rfl, by decide, by decide, by decide, by decide, by decide⟩

private instance decSingle'' (o : Option (List Str)) : Decidable (∃ g, o = some [g]) :=
  match o with
  | some [g] => isTrue ⟨g, rfl⟩
  | none => isFalse (by rintro ⟨g, hg⟩; cases hg)
  | some [] => isFalse (by rintro ⟨g, hg⟩; cases hg)
  | some (_ :: _ :: _) => isFalse (by rintro ⟨g, hg⟩; cases hg)

/-- `SuffixOk` from a decidable check: no id begins with `<gene or transcript id>_` -/
theorem suffixOk_of_prefix (cfg : Cfg) (fs : List Feature)
    (h : ∀ x ∈ tids cfg fs ++ gids cfg fs, ∀ c ∈ (keyed cfg fs).map (·.2) ++ tids cfg fs ++ gids cfg fs,
      (x ++ ['_']).isPrefixOf c = false) : SuffixOk cfg fs := by
  intro x hx n
  have := autoId_notin_of_prefix x _ (h x (List.mem_append.mpr hx)) n
  simp only [List.mem_append, not_or] at this
  exact ⟨this.1.1, this.1.2, this.2⟩

theorem mergeOk_of_prefix (cfg : Cfg) (fs : List Feature)
    (h1 : "source".toList ∉ cfg.forceMergeFields) (h2 : ∀ f ∈ fs, explicit f = true → f.source ≠ derivedSrc)
    (h : ∀ fk ∈ keyed cfg fs, explicit fk.1 = true →
      ∀ c ∈ (keyed cfg fs).map (·.2) ++ tids cfg fs ++ gids cfg fs, (fk.2 ++ ['_']).isPrefixOf c = false) :
    MergeOk cfg fs where
  srcCompared := fun _ => h1
  srcNotDerived := h2
  noSuffixed := by
    intro fk hfk hex n
    have := autoId_notin_of_prefix fk.2 _ (h fk hfk hex) n
    simp only [List.mem_append, not_or] at this
    exact ⟨this.1.1, this.1.2, this.2⟩

/-- `LateOk` from a decidable check -/
theorem lateOk_of_dec (cfg : Cfg) (pre post : List Feature)
    (h : ∀ fk ∈ keyedAux cfg pre post, explicit fk.1 = true →
      ∀ f ∈ pre, f.ftype = cfg.subfeature → tidOf cfg f ≠ some fk.2 ∧ gidOf cfg f ≠ some fk.2) : LateOk cfg pre post := by
  intro fk hfk hex
  constructor
  · rintro g ⟨f, hf, hft, htid, _⟩
    exact (h fk hfk hex f hf hft).1 htid
  · rintro ⟨t, f, hf, hft, _, hgid⟩
    exact (h fk hfk hex f hf hft).2 hgid

/-- a history of `create_db` and one `update` -/
theorem histOk_two (cfg : Cfg) (b0 b1 : List Feature) (hc : CfgOk cfg) (hg : cfg.dialect.fmt = Parser.gtf)
    (hne : b0 ≠ []) (hok : GtfOk cfg (b0 ++ b1)) (he : ExtOk cfg (b0 ++ b1)) (hm : MergeOk cfg (b0 ++ b1))
    (hs : SuffixOk cfg (b0 ++ b1)) (hl : LateOk cfg b0 b1) : HistOk cfg b0 [b1] := by
  refine ⟨hc, hg, hne, by simpa using hok, by simpa using he, by simpa using hm, by simpa using hs, ?_⟩
  intro B1 b B2 e
  cases B1 with
  | nil =>
    simp only [List.nil_append, List.cons.injEq] at e
    obtain ⟨rfl, _⟩ := e
    simpa using hl
  | cons x B1 =>
    simp only [List.cons_append, List.cons.injEq] at e
    cases B1 <;> cases e.2

/-! ### C03's example file, the first four lines imported, the last four added by `update` -/

def pre4 : List Feature := exFile.take 4
def post4 : List Feature := exFile.drop 4

theorem ex44_gtfOk : GtfOk gtfCfgOn (pre4 ++ post4) where
  nonempty := by decide
  geneLines := by decide +kernel
  trLines := by decide +kernel
  explicitDistinct := by decide +kernel
  idsNotAuto := by decide +kernel
  tgDisjoint := by decide +kernel

theorem ex44_ok : HistOk gtfCfgOn pre4 [post4] :=
  histOk_two gtfCfgOn pre4 post4 gtfCfgOn_ok rfl (by decide) ex44_gtfOk
    (extOk_of_dec (by decide +kernel) (by decide +kernel) (by decide +kernel) (by decide +kernel) (by decide +kernel))
    (mergeOk_of_prefix _ _ (by decide) (by decide +kernel) (by decide +kernel))
    (suffixOk_of_prefix _ _ (by decide +kernel))
    (lateOk_of_dec _ _ _ (by decide +kernel))

/-- the hypotheses of `update_gtf_exact` hold on the database `create_db` makes from the first four lines -/
example : ∃ db0 s0 s' D, createDb .gtf gtfCfgOn [] pre4 = .ok db0 ∧ openDb db0 = .ok s0 ∧
    update s0 gtfCfgOn post4 = .ok s' ∧
    s'.db.features = s0.db.features ++ (keyedAux gtfCfgOn pre4 post4).map (fun fk => lineRow fk.1 fk.2) ++ D ∧
    (∀ row, row ∈ D ↔ DerivedSpec gtfCfgOn (pre4 ++ post4) row ∧ row.id ∉ s0.db.features.map (·.id)) ∧
    GtfDbInv gtfCfgOn (pre4 ++ post4) s'.db s'.auto := by
  have h := ex44_ok
  obtain ⟨db0, s0, hcr, hopen, hi0, _, _, _⟩ := hist_base gtfCfgOn [] pre4 (histOk_init (bs := []) (b := post4) h)
  have hok : GtfOk gtfCfgOn (pre4 ++ post4) := ex44_gtfOk
  obtain ⟨s', D, hup, hfeat, hD, inv', _⟩ := update_gtf_exact s0 gtfCfgOn pre4 post4 hi0.fmt gtfCfgOn_ok (by decide) hok
    (by simpa using h.ext) (by simpa using h.merge) (by simpa using h.suffix)
    (lateOk_fresh hok (by simpa using hi0.inv) (by simpa using h.late [] post4 [] rfl)) (by simpa using hi0.inv)
  exact ⟨db0, s0, s', D, hcr, hopen, hup, hfeat, hD, inv'⟩

/-- `history_gtf` applies to it -/
example : ∃ db0 s0 s', createDb .gtf gtfCfgOn [] pre4 = .ok db0 ∧ openDb db0 = .ok s0 ∧
    updates gtfCfgOn s0 [post4] = .ok s' ∧ IdsNodup s'.db ∧
    (∀ r, r ∈ s'.db.relations ↔ RelSpec gtfCfgOn (pre4 ++ [post4].flatten) r) := by
  obtain ⟨db0, s0, s', h1, h2, h3, _, _, _, _, h4, _, _, h5, _⟩ := history_gtf gtfCfgOn [] pre4 [post4] ex44_ok
  exact ⟨db0, s0, s', h1, h2, h3, h5, h4⟩

/-- what we look at: (id, start, end) per row, the `duplicates` table, the counters -/
private structure View where
  rows : List (String × Option Int × Option Int)
  dups : List (String × String)
  counters : List (String × Nat)
  deriving DecidableEq

private def view (s : Session) : View :=
  ⟨s.db.features.map (fun r => (String.ofList r.id, r.start, r.stop)),
   s.db.duplicates.map (fun p => (String.ofList p.1, String.ofList p.2)),
   s.auto.map (fun p => (String.ofList p.1, p.2))⟩

private def ids (db : Db) : List (String × Option Int × Option Int) :=
  db.features.map (fun r => (String.ofList r.id, r.start, r.stop))

/-- … and the model computes (the real code gives the same table): the six rows of `create_db` in place — `G1`
still 100..400 although its exons now reach 800 —, the four new lines numbered on (`exon_3` …), then `T3`.  `G2`
and `T2` are explicit lines; `T1` did not change and was merged into itself (no `duplicates` entry). -/
theorem ex44_eval : ∃ db0 s0 s', createDb .gtf gtfCfgOn [] pre4 = .ok db0 ∧ openDb db0 = .ok s0 ∧
    updates gtfCfgOn s0 [post4] = .ok s' ∧
    view s' = ⟨[("exon_1", some 100, some 200), ("CDS_1", some 120, some 180), ("exon_2", some 300, some 400),
                ("T2", some 50, some 900), ("T1", some 100, some 400), ("G1", some 100, some 400),
                ("exon_3", some 500, some 600), ("G2", some 450, some 650), ("exon_4", some 150, some 250),
                ("exon_5", some 700, some 800), ("T3", some 500, some 600)],
               [("G1", "G1_1"), ("T2", "T2_1"), ("G2", "G2_1")],
               [("exon", 5), ("CDS", 1), ("G1", 1), ("T2", 1), ("G2", 1)]⟩ :=
  runE_view view (by decide +kernel)

/-- importing the eight lines in one go: `G1` spans 100..800 and the derived rows come last -/
theorem ex44_onego : ∃ db, createDb .gtf gtfCfgOn [] (pre4 ++ post4) = .ok db ∧
    ids db = [("exon_1", some 100, some 200), ("CDS_1", some 120, some 180), ("exon_2", some 300, some 400),
              ("T2", some 50, some 900), ("exon_3", some 500, some 600), ("G2", some 450, some 650),
              ("exon_4", some 150, some 250), ("exon_5", some 700, some 800), ("T1", some 100, some 400),
              ("G1", some 100, some 800), ("T3", some 500, some 600)] :=
  createE_view ids (by decide +kernel)

/-! ### scenario (a): a transcript gains an exon in the second batch -/

def preA : List Feature := [mkL "exon" 100 200 [("gene_id", "G1"), ("transcript_id", "T1")]]
def postA : List Feature := [mkL "exon" 300 400 [("gene_id", "G1"), ("transcript_id", "T1")]]

theorem exA_ok : HistOk gtfCfgOn preA [postA] :=
  histOk_two gtfCfgOn preA postA gtfCfgOn_ok rfl (by decide)
    ⟨by decide, by decide +kernel, by decide +kernel, by decide +kernel, by decide +kernel, by decide +kernel⟩
    (extOk_of_dec (by decide +kernel) (by decide +kernel) (by decide +kernel) (by decide +kernel) (by decide +kernel))
    (mergeOk_of_prefix _ _ (by decide) (by decide +kernel) (by decide +kernel))
    (suffixOk_of_prefix _ _ (by decide +kernel))
    (lateOk_of_dec _ _ _ (by decide +kernel))

/-- **stale extent, computed by the model** (and by the real code): after `create_db(preA)` and `update(postA)`
the row `T1` still spans 100..200 (its gene likewise); the re-derived features were renamed `T1_1`, `G1_1` and
dropped (two `duplicates` entries, two new counters); no row `T1_1` exists. -/
theorem update_gtf_stale : ∃ db0 s0 s', createDb .gtf gtfCfgOn [] preA = .ok db0 ∧ openDb db0 = .ok s0 ∧
    updates gtfCfgOn s0 [postA] = .ok s' ∧
    view s' = ⟨[("exon_1", some 100, some 200), ("T1", some 100, some 200), ("G1", some 100, some 200),
                ("exon_2", some 300, some 400)],
               [("T1", "T1_1"), ("G1", "G1_1")], [("exon", 2), ("T1", 1), ("G1", 1)]⟩ :=
  runE_view view (by decide +kernel)

/-- … whereas importing both lines in one go gives 100..400: **`create_db(pre); update(post)` is NOT
`create_db(pre ++ post)`** for derived rows -/
theorem onego_differs : ∃ db, createDb .gtf gtfCfgOn [] (preA ++ postA) = .ok db ∧
    ids db = [("exon_1", some 100, some 200), ("exon_2", some 300, some 400), ("T1", some 100, some 400),
              ("G1", some 100, some 400)] :=
  createE_view ids (by decide +kernel)

/-- the same fact from the THEOREM (`created_transcript_frozen`), not from evaluation: the row under `T1` after the
update is the derived row of the first batch alone … -/
example : ∃ db0 s0 s' row, createDb .gtf gtfCfgOn [] preA = .ok db0 ∧ openDb db0 = .ok s0 ∧
    updates gtfCfgOn s0 [postA] = .ok s' ∧ s'.db.features.filter (·.id = s "T1") = [row] ∧
    getItem s' (s "T1") = .ok (s'.returner row) ∧ IsTranscriptRow gtfCfgOn preA (s "T1") (s "G1") row :=
  created_transcript_frozen gtfCfgOn [] preA [postA] exA_ok rfl (s "T1") (s "G1")
    (by unfold TOwns; decide +kernel)
    (by unfold HasExplicit; decide +kernel)

/-- … which spans 100..200 -/
example (row : Row) (h : IsTranscriptRow gtfCfgOn preA (s "T1") (s "G1") row) :
    row.start = some 100 ∧ row.stop = some 200 := by
  obtain ⟨a, ha, hmin⟩ := h.start
  obtain ⟨b, hb, hmax⟩ := h.stop
  have e1 : (subOfT gtfCfgOn preA (s "T1")).filterMap (·.start) = [100] := by decide +kernel
  have e2 : (subOfT gtfCfgOn preA (s "T1")).filterMap (·.stop) = [200] := by decide +kernel
  rw [e1] at hmin; rw [e2] at hmax
  have m1 := hmin.1; have n1 := hmax.1
  simp only [List.mem_singleton] at m1 n1
  rw [ha, hb, m1, n1]
  exact ⟨rfl, rfl⟩

/-! ### scenarios (b) and (c): a gene gains a transcript; a brand-new gene -/

def postB : List Feature := [mkL "exon" 500 600 [("gene_id", "G1"), ("transcript_id", "T2")]]
def postC : List Feature := [mkL "exon" 700 800 [("gene_id", "G2"), ("transcript_id", "T3")]]

/-- (b): the new transcript `T2` gets its row; the gene row `G1` keeps 100..200 (one go: 100..600) -/
example : ∃ db0 s0 s', createDb .gtf gtfCfgOn [] preA = .ok db0 ∧ openDb db0 = .ok s0 ∧
    updates gtfCfgOn s0 [postB] = .ok s' ∧
    view s' = ⟨[("exon_1", some 100, some 200), ("T1", some 100, some 200), ("G1", some 100, some 200),
                ("exon_2", some 500, some 600), ("T2", some 500, some 600)],
               [("G1", "G1_1")], [("exon", 2), ("G1", 1)]⟩ :=
  runE_view view (by decide +kernel)

example : ∃ db, createDb .gtf gtfCfgOn [] (preA ++ postB) = .ok db ∧
    ids db = [("exon_1", some 100, some 200), ("exon_2", some 500, some 600), ("T1", some 100, some 200),
              ("G1", some 100, some 600), ("T2", some 500, some 600)] :=
  createE_view ids (by decide +kernel)

/-- (c): transcript and gene rows of the new gene are appended; nothing is renamed.  Here the update gives the
rows of the one-go import, in another order. -/
example : ∃ db0 s0 s', createDb .gtf gtfCfgOn [] preA = .ok db0 ∧ openDb db0 = .ok s0 ∧
    updates gtfCfgOn s0 [postC] = .ok s' ∧
    view s' = ⟨[("exon_1", some 100, some 200), ("T1", some 100, some 200), ("G1", some 100, some 200),
                ("exon_2", some 700, some 800), ("T3", some 700, some 800), ("G2", some 700, some 800)],
               [], [("exon", 2)]⟩ :=
  runE_view view (by decide +kernel)

example : ∃ db, createDb .gtf gtfCfgOn [] (preA ++ postC) = .ok db ∧
    ids db = [("exon_1", some 100, some 200), ("exon_2", some 700, some 800), ("T1", some 100, some 200),
              ("G1", some 100, some 200), ("T3", some 700, some 800), ("G2", some 700, some 800)] :=
  createE_view ids (by decide +kernel)

/-! ### the boundary of the domain: `SuffixOk` cannot be dropped (residual of defect D21)

Two transcripts are called `T1` and `T1_1`.  `T1` gains an exon in the first update: its re-derived feature is
renamed `T1_1` and the pair `(T1, T1_1)` is recorded in `duplicates`.  `T1` gains another exon in the second
update; `_candidate_merges` looks up the recorded name `T1_1`, finds the OTHER transcript's row, which happens to
agree with the re-derived `T1` on every compared column (100..900), merges into it and runs
`UPDATE features SET attributes = ? WHERE id = 'T1_1'`.  The real code (`/repo`, replayed) stores
`transcript_id ["T1", "T1_1"]`, `gene_id ["G2", "G1"]` under `T1_1` (value order of a Python set); the model the
same values, first-seen order. -/

def sfx0 : List Feature :=
  [mkL "exon" 100 200 [("gene_id", "G1"), ("transcript_id", "T1")],
   mkL "exon" 100 900 [("gene_id", "G2"), ("transcript_id", "T1_1")]]
def sfx1 : List Feature := [mkL "exon" 300 400 [("gene_id", "G1"), ("transcript_id", "T1")]]
def sfx2 : List Feature := [mkL "exon" 800 900 [("gene_id", "G1"), ("transcript_id", "T1")]]

private def attrsOf (id : String) (s : Session) : Option (List (String × List String)) :=
  (s.db.getRow? id.toList).map (fun r => r.attrs.map (fun p => (String.ofList p.1, p.2.map String.ofList)))

/-- every hypothesis of `history_gtf` except `SuffixOk` holds for this history … -/
theorem sfx_others : CfgOk gtfCfgOn ∧ GtfOk gtfCfgOn (sfx0 ++ [sfx1, sfx2].flatten) ∧
    ExtOk gtfCfgOn (sfx0 ++ [sfx1, sfx2].flatten) ∧ MergeOk gtfCfgOn (sfx0 ++ [sfx1, sfx2].flatten) ∧
    LateOk gtfCfgOn sfx0 sfx1 ∧ LateOk gtfCfgOn (sfx0 ++ sfx1) sfx2 ∧
    ¬ SuffixOk gtfCfgOn (sfx0 ++ [sfx1, sfx2].flatten) := by
  refine ⟨gtfCfgOn_ok,
    ⟨by decide, by decide +kernel, by decide +kernel, by decide +kernel, by decide +kernel, by decide +kernel⟩,
    extOk_of_dec (by decide +kernel) (by decide +kernel) (by decide +kernel) (by decide +kernel) (by decide +kernel),
    mergeOk_of_prefix _ _ (by decide) (by decide +kernel) (by decide +kernel),
    lateOk_of_dec _ _ _ (by decide +kernel), lateOk_of_dec _ _ _ (by decide +kernel), ?_⟩
  intro hs
  have := (hs (s "T1") (Or.inl (by decide +kernel)) 1).2.1
  exact this (by decide +kernel)

/-- … and its conclusion fails: the row of transcript `T1_1` carries the ids of `T1` as well -/
theorem suffix_needed : ∃ db0 s0 s', createDb .gtf gtfCfgOn [] sfx0 = .ok db0 ∧ openDb db0 = .ok s0 ∧
    updates gtfCfgOn s0 [sfx1, sfx2] = .ok s' ∧
    attrsOf "T1_1" s' = some [("transcript_id", ["T1_1", "T1"]), ("gene_id", ["G2", "G1"])] :=
  runE_view (attrsOf "T1_1") (by decide +kernel)

end Examples

end GffProofs.C10c
