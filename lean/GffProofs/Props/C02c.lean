/-
  C02c — children / parents with ARBITRARY query arguments (`featuretype`, `strand`, `limit`,
  `order_by`, `reverse`, `level`).  `C02.relation_query_exact` covers the empty query `{}`; here, for every
  `Query q`:

  * `relation_query_exact_q`   — the result is a permutation of the stored rows that are related to `x`
                                 at the requested level AND satisfy the WHERE part of `q`; membership
                                 spelled out on the relations table; each row once under distinct ids.
  * `relation_query_sorted`    — the result, paired with the rowids of its rows, is pairwise ordered by
                                 the ORDER BY relation `rowLe q.orderBy q.reverse` (non-trivial when
                                 `q.orderBy ≠ []`); `relation_query_sorted_single` for one column;
                                 `relation_query_unordered` — without `order_by` the rows come in input
                                 (rowid) order: the result EQUALS the filtered feature table.
  * `relation_query_featuretype` — with `featuretype` only: exactly the related rows whose type is listed.
  * `relation_query_strand`, `relation_query_limit_exact` — strand filter; `limit=` under the bin invariant.
  * `parents_inverse_q`        — `parents` is the inverse of `children` for arbitrary queries on both sides.
  * `graph_relation_query_exact_q` — on a database holding a C02 graph (one-go import or any update
                                 history, C02b) the result is the `RelatedSpec` rows that match `q`.
-/
import GffProofs.Props.C02b
import GffProofs.Props.C11
import GffProofs.Props.C06

namespace GffProofs.C02
open GffModel GffModel.Create GffModel.Interface
open GffProofs.C10 (specRow)

/-! ## Specification -/

/-- `y` is a relative of `x` according to the relations table: some row links them in the requested
direction (`isChildren`: `x` is the parent) at the requested level (`none` = any level) -/
def IsRelative (db : Db) (isChildren : Bool) (x : Str) (level : Option Int) (y : Str) : Prop :=
  ∃ rel ∈ db.relations, (match level with | some l => rel.level = l | none => True) ∧
    (if isChildren then rel.parent = x ∧ rel.child = y else rel.child = x ∧ rel.parent = y)

/-- the rows `children` / `parents` must return for the query `q`, as a decidable test on a stored row:
its id is among the relatives read off the relations table, and it passes the WHERE part of `q` -/
def relSel (s : Session) (isChildren : Bool) (x : Str) (level : Option Int) (q : Query) (r : Row) : Bool :=
  (related s.db isChildren x level).contains r.id && rowMatches q r

/-- `p.1` is the rowid (1-based position in the feature table) of the row `p.2` -/
def IsRowid (s : Session) (p : Nat × Row) : Prop := 1 ≤ p.1 ∧ s.db.features[p.1 - 1]? = some p.2

theorem mem_related_iff (db : Db) (isChildren : Bool) (x : Str) (level : Option Int) (y : Str) :
    y ∈ related db isChildren x level ↔ IsRelative db isChildren x level y :=
  mem_related db isChildren x level y

theorem relSel_iff (s : Session) (isChildren : Bool) (x : Str) (level : Option Int) (q : Query) (r : Row) :
    relSel s isChildren x level q r = true ↔
      (IsRelative s.db isChildren x level r.id ∧ rowMatches q r = true) := by
  unfold relSel
  rw [Bool.and_eq_true, List.contains_iff_mem, mem_related_iff]

/-! ## rowids -/

theorem mem_indexed (rows : List Row) (i : Nat) (r : Row) :
    (i, r) ∈ indexed rows ↔ 1 ≤ i ∧ rows[i - 1]? = some r := by
  unfold indexed
  simp only [List.mem_map, Prod.mk.injEq, Prod.exists]
  constructor
  · rintro ⟨r', j, hm, rfl, rfl⟩
    rw [List.mem_zipIdx_iff_getElem?] at hm
    exact ⟨by omega, by simpa using hm⟩
  · rintro ⟨h1, h2⟩
    refine ⟨r, i - 1, ?_, by omega, rfl⟩
    rw [List.mem_zipIdx_iff_getElem?]
    exact h2

theorem indexed_fst (rows : List Row) : (indexed rows).map (·.1) = List.range' 1 rows.length := by
  unfold indexed
  rw [List.map_map]
  have : ((fun (x : Nat × Row) => x.1) ∘ fun (x : Row × Nat) => match x with | (r, i) => (i + 1, r))
      = (· + 1) ∘ Prod.snd := by funext ⟨r, i⟩; rfl
  rw [this, ← List.map_map, List.zipIdx_map_snd]
  exact List.range'_succ_left.symm

theorem indexed_fst_nodup (rows : List Row) : ((indexed rows).map (·.1)).Nodup := by
  rw [indexed_fst]; exact List.nodup_range'

/-- the list `order` is applied to inside `runRelation` -/
def selected (s : Session) (isChildren : Bool) (x : Str) (level : Option Int) (q : Query) : List (Nat × Row) :=
  (indexed s.db.features).filter (fun p => relSel s isChildren x level q p.2)

theorem runRelation_eq (s : Session) (isChildren : Bool) (x : Str) (level : Option Int) (q : Query) :
    runRelation s isChildren x level q = (order q (selected s isChildren x level q)).map (·.2) := rfl

theorem selected_snd (s : Session) (isChildren : Bool) (x : Str) (level : Option Int) (q : Query) :
    (selected s isChildren x level q).map (·.2) = s.db.features.filter (relSel s isChildren x level q) :=
  C11.filter_indexed _ _

/-! ## (1) exactly the related rows that match, each once -/

/-- the result is a permutation of the filtered feature table, for every query -/
theorem relation_query_perm (s : Session) (isChildren : Bool) (x : Str) (level : Option Int) (q : Query) :
    (runRelation s isChildren x level q).Perm (s.db.features.filter (relSel s isChildren x level q)) := by
  rw [runRelation_eq, ← selected_snd]
  exact (C11.order_perm q _).map _

theorem mem_runRelation (s : Session) (isChildren : Bool) (x : Str) (level : Option Int) (q : Query) (r : Row) :
    r ∈ runRelation s isChildren x level q ↔
      (r ∈ s.db.features ∧ IsRelative s.db isChildren x level r.id ∧ rowMatches q r = true) := by
  rw [(relation_query_perm s isChildren x level q).mem_iff, List.mem_filter, relSel_iff]

/-- **children / parents with arbitrary query arguments return exactly the matching relatives, each
once.**  For every session, direction, `x`, `level` and every `q` (featuretype list, strand, limit,
order_by, reverse): the result is a permutation of the stored rows selected by `relSel` (so every stored
row is returned exactly as many times as it is stored and selected — no phantom, no loss, whatever the
ordering); a row is returned iff it is stored, some relation row links it to `x` in the requested direction
at the requested level, and it passes the WHERE part of `q`; under distinct stored ids each feature is
returned once. -/
theorem relation_query_exact_q (s : Session) (isChildren : Bool) (x : Str) (level : Option Int) (q : Query) :
    let res := runRelation s isChildren x level q
    res.Perm (s.db.features.filter (relSel s isChildren x level q)) ∧
    (∀ r, r ∈ res ↔ (r ∈ s.db.features ∧ IsRelative s.db isChildren x level r.id ∧ rowMatches q r = true)) ∧
    ((s.db.features.map (·.id)).Nodup → (res.map (·.id)).Nodup) := by
  intro res
  refine ⟨relation_query_perm s isChildren x level q, mem_runRelation s isChildren x level q, fun hid => ?_⟩
  have hp := (relation_query_perm s isChildren x level q).map (·.id)
  exact hp.nodup_iff.mpr (hid.sublist (List.filter_sublist.map _))

/-! ## (2) ordering -/

/-- **Sortedness.**  The result is the second projection of a list `l` of (rowid, row) pairs which
(a) is a permutation of the selected rows paired with their rowids — so every `p ∈ l` has `p.1` = the
1-based position of `p.2` in the feature table, and the rowids in `l` are pairwise different — and
(b) is pairwise ordered by the ORDER BY relation `rowLe q.orderBy q.reverse` (lexicographic over the
requested keys, `reverse` turning the LAST key descending; `rowLe [] _` is trivially true, see
`relation_query_unordered` for that case). -/
theorem relation_query_sorted (s : Session) (isChildren : Bool) (x : Str) (level : Option Int) (q : Query) :
    ∃ l : List (Nat × Row), l.map (·.2) = runRelation s isChildren x level q ∧
      l.Perm ((indexed s.db.features).filter (fun p => relSel s isChildren x level q p.2)) ∧
      (∀ p ∈ l, IsRowid s p) ∧ (l.map (·.1)).Nodup ∧
      l.Pairwise (fun a b => rowLe q.orderBy q.reverse a b = true) := by
  have hperm := C11.order_perm q (selected s isChildren x level q)
  refine ⟨order q (selected s isChildren x level q), rfl, hperm, ?_, ?_, ?_⟩
  · rintro ⟨i, r⟩ hp
    have hm := (List.mem_filter.mp (hperm.mem_iff.mp hp)).1
    exact (mem_indexed _ i r).mp hm
  · exact (hperm.map (·.1)).nodup_iff.mpr ((indexed_fst_nodup s.db.features).sublist (List.filter_sublist.map _))
  · by_cases h : q.orderBy = []
    · rw [h]; exact List.pairwise_of_forall_sublist (fun _ => by simp [rowLe])
    · exact C11.order_sorted q _ h

/-- single column: ascending, or descending with `reverse` — stated on the key values themselves -/
theorem relation_query_sorted_single (s : Session) (isChildren : Bool) (x : Str) (level : Option Int) (q : Query)
    (k : SortKey) (h : q.orderBy = [k]) :
    ∃ l : List (Nat × Row), l.map (·.2) = runRelation s isChildren x level q ∧
      (∀ p ∈ l, IsRowid s p) ∧
      l.Pairwise (fun a b =>
        if q.reverse then (sortVal b.1 b.2 k).le (sortVal a.1 a.2 k) = true
        else (sortVal a.1 a.2 k).le (sortVal b.1 b.2 k) = true) := by
  obtain ⟨l, hl, _, hrow, _, hp⟩ := relation_query_sorted s isChildren x level q
  refine ⟨l, hl, hrow, hp.imp ?_⟩
  intro a b hab
  rw [h, C11.rowLe_single] at hab
  cases hr : q.reverse <;> simpa [hr] using hab

/-- **without `order_by` the rows come in input (rowid) order**: the result EQUALS the feature table
filtered by `relSel` -/
theorem relation_query_unordered (s : Session) (isChildren : Bool) (x : Str) (level : Option Int) (q : Query)
    (h : q.orderBy = []) :
    runRelation s isChildren x level q = s.db.features.filter (relSel s isChildren x level q) := by
  rw [runRelation_eq, ← selected_snd]
  unfold order
  simp only [h, List.isEmpty_nil, if_true]

/-- … in particular the result is then a sublist of the feature table -/
theorem relation_query_unordered_sublist (s : Session) (isChildren : Bool) (x : Str) (level : Option Int)
    (q : Query) (h : q.orderBy = []) :
    (runRelation s isChildren x level q).Sublist s.db.features := by
  rw [relation_query_unordered s isChildren x level q h]; exact List.filter_sublist

/-- the ordering arguments never change WHICH rows are returned -/
theorem relation_query_order_irrelevant (s : Session) (isChildren : Bool) (x : Str) (level : Option Int)
    (q : Query) (keys : List SortKey) (rev : Bool) :
    (runRelation s isChildren x level { q with orderBy := keys, reverse := rev }).Perm
      (runRelation s isChildren x level q) := by
  have h1 := relation_query_perm s isChildren x level { q with orderBy := keys, reverse := rev }
  have h2 := relation_query_perm s isChildren x level q
  exact h1.trans h2.symm

/-! ## (3) the WHERE part, clause by clause -/

/-- the WHERE part of a query without `limit`: featuretype (empty list = no restriction) and strand
(`None` and `""` = no restriction) -/
theorem rowMatches_noLimit (q : Query) (r : Row) (h : q.limit = none) :
    rowMatches q r = true ↔
      ((q.featuretype = [] ∨ r.ftype ∈ q.featuretype) ∧
       (∀ st, q.strand = some st → st = [] ∨ r.strand = st)) := by
  unfold rowMatches
  rw [h]
  simp only [Bool.and_true, Bool.and_eq_true, Bool.or_eq_true, List.isEmpty_iff, List.contains_iff_mem]
  apply and_congr Iff.rfl
  cases q.strand with
  | none => simp
  | some st => simp [List.isEmpty_iff]

/-- **`featuretype` only**: `children(x, level, featuretype=fts)` is, in input order, exactly the list of
stored relatives of `x` whose type is in `fts` (a string is a singleton list; the empty list restricts
nothing) -/
theorem relation_query_featuretype (s : Session) (isChildren : Bool) (x : Str) (level : Option Int)
    (fts : List Str) :
    runRelation s isChildren x level { featuretype := fts } =
        s.db.features.filter (fun r =>
          (related s.db isChildren x level).contains r.id && (fts.isEmpty || fts.contains r.ftype)) ∧
    ∀ r, r ∈ runRelation s isChildren x level { featuretype := fts } ↔
      (r ∈ s.db.features ∧ IsRelative s.db isChildren x level r.id ∧ (fts = [] ∨ r.ftype ∈ fts)) := by
  constructor
  · rw [relation_query_unordered s isChildren x level _ rfl]
    apply List.filter_congr
    intro r _
    simp [relSel, rowMatches]
  · intro r
    rw [mem_runRelation, rowMatches_noLimit _ _ rfl]
    simp

/-- a non-empty featuretype list: only rows of a listed type come back -/
theorem relation_query_featuretype_only (s : Session) (isChildren : Bool) (x : Str) (level : Option Int)
    (q : Query) (hne : q.featuretype ≠ []) :
    ∀ r ∈ runRelation s isChildren x level q, r.ftype ∈ q.featuretype := by
  intro r hr
  have hm := ((mem_runRelation s isChildren x level q r).mp hr).2.2
  unfold rowMatches at hm
  simp only [Bool.and_eq_true, Bool.or_eq_true, List.isEmpty_iff, List.contains_iff_mem] at hm
  exact hm.1.1.resolve_left hne

/-- **`featuretype` + `strand` + ordering, no `limit`** -/
theorem relation_query_strand (s : Session) (isChildren : Bool) (x : Str) (level : Option Int) (q : Query)
    (h : q.limit = none) (r : Row) :
    r ∈ runRelation s isChildren x level q ↔
      (r ∈ s.db.features ∧ IsRelative s.db isChildren x level r.id ∧
        (q.featuretype = [] ∨ r.ftype ∈ q.featuretype) ∧
        (∀ st, q.strand = some st → st = [] ∨ r.strand = st)) := by
  rw [mem_runRelation, rowMatches_noLimit q r h]

/-- **`limit=(seqid, a, b)`**, `1 ≤ a ≤ b` of any magnitude, on a database whose stored bins are the bins
of the coordinates (`C06.BinInv`, which the importer maintains): the bin pre-filter is transparent, the
result is exactly the relatives that overlap (or, with `completely_within`, lie inside) the interval and
pass the featuretype / strand clauses -/
theorem relation_query_limit_exact (s : Session) (hinv : C06.BinInv s.db) (isChildren : Bool) (x : Str)
    (level : Option Int) (q : Query) (sq : Str) (a b : Int) (hq : q.limit = some (sq, a, b))
    (h1 : 1 ≤ a) (h2 : a ≤ b) (r : Row) :
    r ∈ runRelation s isChildren x level q ↔
      (r ∈ s.db.features ∧ IsRelative s.db isChildren x level r.id ∧
        ((q.featuretype.isEmpty || q.featuretype.contains r.ftype) &&
         (decide (r.seqid = sq) && (if q.within then C06.within r a b else C06.overlaps r a b)) &&
         (match q.strand with | none => true | some st => st.isEmpty || decide (r.strand = st))) = true) := by
  rw [mem_runRelation]
  constructor
  · rintro ⟨hr, hrel, hm⟩
    exact ⟨hr, hrel, (C06.limit_exact s hinv q sq a b hq h1 h2 r hr).symm.trans hm⟩
  · rintro ⟨hr, hrel, hm⟩
    exact ⟨hr, hrel, (C06.limit_exact s hinv q sq a b hq h1 h2 r hr).trans hm⟩

/-! ## (4) parents is the inverse of children, with filters -/

theorem isRelative_swap (db : Db) (x y : Str) (level : Option Int) :
    IsRelative db true x level y ↔ IsRelative db false y level x := by
  unfold IsRelative
  simp only [if_true, Bool.false_eq_true, if_false]
  constructor
  · rintro ⟨rel, hrel, hl, hp, hc⟩; exact ⟨rel, hrel, hl, hc, hp⟩
  · rintro ⟨rel, hrel, hl, hc, hp⟩; exact ⟨rel, hrel, hl, hp, hc⟩

/-- **parents is the exact inverse of children at every level, for arbitrary query arguments on both
sides**: for stored `x`, `y`: "`y` is among `children(x, level, q)` and `x` passes `q'`" iff "`x` is among
`parents(y, level, q')` and `y` passes `q`".  (The ordering arguments of `q`, `q'` play no role.) -/
theorem parents_inverse_q (s : Session) (x y : Row) (level : Option Int) (q q' : Query)
    (hx : x ∈ s.db.features) (hy : y ∈ s.db.features) :
    (y ∈ runRelation s true x.id level q ∧ rowMatches q' x = true) ↔
      (x ∈ runRelation s false y.id level q' ∧ rowMatches q y = true) := by
  rw [mem_runRelation, mem_runRelation, isRelative_swap]
  constructor
  · rintro ⟨⟨_, hrel, hm⟩, hm'⟩; exact ⟨⟨hx, hrel, hm'⟩, hm⟩
  · rintro ⟨⟨_, hrel, hm'⟩, hm⟩; exact ⟨⟨hy, hrel, hm⟩, hm'⟩

/-- the filter of a `children` query only tests the child: `y ∈ children(x, level, q)` iff `y` passes `q`
and `x ∈ parents(y, level)` -/
theorem parents_inverse_filtered (s : Session) (x y : Row) (level : Option Int) (q : Query)
    (hx : x ∈ s.db.features) (hy : y ∈ s.db.features) :
    y ∈ runRelation s true x.id level q ↔ (rowMatches q y = true ∧ x ∈ runRelation s false y.id level {}) := by
  have := parents_inverse_q s x y level q {} hx hy
  rw [rowMatches_empty] at this
  simp only [and_true] at this
  rw [this, and_comm]

/-! ## on a database holding a C02 graph -/

/-- **children / parents with arbitrary query arguments answer the Parent graph**: when the database
holds exactly the graph of `fs` (after `create_db`, or after any history of `update`s — C02b), the result
is a duplicate-free list of exactly the rows of `fs` whose ID is related to `x` by the Parent attributes
(`RelatedSpec`: level 1 = named in `Parent`, level 2 = two steps from a stored feature, `None` = either)
and that pass the WHERE part of `q` -/
theorem graph_relation_query_exact_q (fs : List Feature) (s : Session) (hu : UniqueIds fs)
    (hg : HoldsGraph fs s.db) (isChildren : Bool) (x : Str) (level : Option Int) (q : Query) :
    let res := runRelation s isChildren x level q
    (res.map (·.id)).Nodup ∧
    (∀ r, r ∈ res ↔
      (r ∈ fs.filterMap specRow ∧ RelatedSpec fs isChildren x level r.id ∧ rowMatches q r = true)) := by
  intro res
  have hid : (s.db.features.map (·.id)).Nodup := by rw [hg.ids]; exact hu.nodup
  refine ⟨(relation_query_exact_q s isChildren x level q).2.2 hid, fun r => ?_⟩
  rw [mem_runRelation, hg.rows]
  exact and_congr Iff.rfl (and_congr (hg.related_iff isChildren x level r.id) Iff.rfl)

/-! ## Non-vacuity: a three-level annotation given children-first, mixed strands, a dangling parent -/

section ExampleC

def qF (ft id : String) (s e : Int) (strand : String) (parents : List String) : Feature :=
  { mkF ft id s e parents with strand := strand.toList }

def qfs : List Feature :=
  [qF "exon" "e2" 300 400 "-" ["m1", "m2"], qF "CDS" "c1" 150 180 "+" ["m1"], qF "gene" "g1" 1 1000 "+" [],
   qF "exon" "e1" 100 200 "+" ["m1"], qF "mRNA" "m1" 1 1000 "+" ["g1"]]

theorem qfs_ok : GraphOk qfs where
  nonempty := by simp [qfs]
  ids := by
    intro f hf
    simp only [qfs, List.mem_cons, List.not_mem_nil, or_false] at hf
    rcases hf with rfl | rfl | rfl | rfl | rfl <;> exact ⟨_, rfl⟩
  nodup := by decide +kernel

/-- the database `create_db` builds for `qfs`, opened -/
def qDb : Db := (createDb .gff (gffCfg .error Dialect.default) [] qfs).toOption.getD {}
def qS : Session := { db := qDb, auto := [], dialect := Dialect.default, directives := [] }

/-- hypotheses of the theorems hold on `qS`: it holds the graph of `qfs`, ids are distinct, bins are right -/
theorem qS_holds : HoldsGraph qfs qS.db := by
  obtain ⟨db, hdb, hg, _⟩ := createDb_holds .error Dialect.default [] qfs qfs_ok
  have : qS.db = db := by
    show qDb = db
    unfold qDb; rw [hdb]; rfl
  rw [this]; exact hg

example : (qS.db.features.map (·.id)).Nodup := by decide +kernel
theorem qS_bins : C06.BinInv qS.db := by unfold C06.BinInv; decide +kernel

private def idsOf (l : List Row) : List Str := l.map (·.id)
private def strs (l : List String) : List Str := l.map String.toList

-- all descendants of g1, input order (children were given first)
example : idsOf (runRelation qS true "g1".toList none {}) = strs ["e2", "c1", "e1", "m1"] := by decide +kernel
-- featuretype as a collection
example : idsOf (runRelation qS true "g1".toList none { featuretype := strs ["exon", "CDS"] })
    = strs ["e2", "c1", "e1"] := by decide +kernel
-- featuretype + strand
example : idsOf (runRelation qS true "g1".toList none { featuretype := strs ["exon"], strand := some ['+'] })
    = strs ["e1"] := by decide +kernel
-- limit: relatives overlapping chr1:190-320
example : idsOf (runRelation qS true "g1".toList none { limit := some ("chr1".toList, 190, 320) })
    = strs ["e2", "e1", "m1"] := by decide +kernel
-- parents of the two-parent exon (the dangling `m2` gives no phantom)
example : idsOf (runRelation qS false "e2".toList none {}) = strs ["g1", "m1"] := by decide +kernel

/-- `mergeSort` is defined by well-founded recursion, so `decide` cannot run it; evaluate by rewriting -/
local macro "eval_sorted" : tactic =>
  `(tactic| simp (decide := true) [order, List.mergeSort, List.MergeSort.Internal.splitInTwo, idsOf, strs])

private theorem sel_level2 (q : Query) (h : q.featuretype = [] ∧ q.limit = none ∧ q.strand = none) :
    selected qS true "g1".toList (some 2) q
      = [(1, C10.rowOf (qF "exon" "e2" 300 400 "-" ["m1", "m2"]) "e2".toList),
         (2, C10.rowOf (qF "CDS" "c1" 150 180 "+" ["m1"]) "c1".toList),
         (4, C10.rowOf (qF "exon" "e1" 100 200 "+" ["m1"]) "e1".toList)] := by
  obtain ⟨h1, h2, h3⟩ := h
  have hm : ∀ r, rowMatches q r = true := by
    intro r; simp [rowMatches, h1, h2, h3]
  have : selected qS true "g1".toList (some 2) q = selected qS true "g1".toList (some 2) {} := by
    unfold selected relSel
    apply List.filter_congr
    intro p _
    rw [hm, rowMatches_empty]
  rw [this]
  decide +kernel

-- grandchildren ORDER BY featuretype, start: "CDS" < "exon" (BINARY collation), then by start
example : idsOf (runRelation qS true "g1".toList (some 2) { orderBy := [.featuretype, .start] })
    = strs ["c1", "e1", "e2"] := by
  rw [runRelation_eq, sel_level2 _ ⟨rfl, rfl, rfl⟩]; eval_sorted
-- grandchildren ORDER BY start DESC
example : idsOf (runRelation qS true "g1".toList (some 2) { orderBy := [.start], reverse := true })
    = strs ["e2", "c1", "e1"] := by
  rw [runRelation_eq, sel_level2 _ ⟨rfl, rfl, rfl⟩]; eval_sorted
-- grandchildren ORDER BY length (end - start): 30, 100, 100 (the tie keeps file order)
example : idsOf (runRelation qS true "g1".toList (some 2) { orderBy := [.length] })
    = strs ["c1", "e2", "e1"] := by
  rw [runRelation_eq, sel_level2 _ ⟨rfl, rfl, rfl⟩]; eval_sorted

/-- the theorems applied to the example -/
example : ∃ l : List (Nat × Row),
    l.map (·.2) = runRelation qS true "g1".toList (some 2) { orderBy := [.start], reverse := true } ∧
      (∀ p ∈ l, IsRowid qS p) ∧
      l.Pairwise (fun a b => (sortVal b.1 b.2 .start).le (sortVal a.1 a.2 .start) = true) := by
  obtain ⟨l, h1, h2, h3⟩ := relation_query_sorted_single qS true "g1".toList (some 2)
    { orderBy := [.start], reverse := true } .start rfl
  exact ⟨l, h1, h2, h3⟩

example : ∀ r, r ∈ runRelation qS true "g1".toList (some 2) { featuretype := strs ["exon"], orderBy := [.stop] } ↔
    (r ∈ qfs.filterMap specRow ∧ RelatedSpec qfs true "g1".toList (some 2) r.id ∧
      rowMatches { featuretype := strs ["exon"], orderBy := [.stop] } r = true) :=
  (graph_relation_query_exact_q qfs qS qfs_ok.unique qS_holds true "g1".toList (some 2) _).2

/-- the sortedness relation is not trivial: the file order of the grandchildren is NOT sorted by start DESC
under it, and the ORDER BY relation distinguishes the two directions -/
example : ¬ List.Pairwise (fun a b => rowLe [.start] true a b = true)
    [(2, C10.rowOf (qF "CDS" "c1" 150 180 "+" ["m1"]) "c1".toList),
     (1, C10.rowOf (qF "exon" "e2" 300 400 "-" ["m1", "m2"]) "e2".toList)] := by decide +kernel

end ExampleC

end GffProofs.C02
