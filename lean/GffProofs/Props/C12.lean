/-
  C12 — Genomic binning is sound.  Property theorems over `GffModel.Bins`.
  Core Lean only (no Mathlib).
-/
import GffModel.Bins

namespace GffProofs.C12
open GffModel.Bins

/-! ### Level table of the 5-level scheme: level `k` has bins of `2^(17+3k)` bases and ids starting at `lvlOff k`. -/

def lvlSize : Fin 5 → Int
  | 0 => 131072 | 1 => 1048576 | 2 => 8388608 | 3 => 67108864 | 4 => 536870912
def lvlOff : Fin 5 → Int
  | 0 => 4681 | 1 => 585 | 2 => 73 | 3 => 9 | 4 => 1

theorem lvlSize_eq (k : Fin 5) : lvlSize k = 2 ^ (firstShift + nextShift * k.val) := by
  revert k; decide
theorem lvlOff_eq (k : Fin 5) : offsets[k.val]? = some (lvlOff k) := by
  revert k; decide

/-- In-range: what `bins` does not send to the whole-chromosome bin. `co` is 1 for GFF, 0 for BED. -/
def InRange (start stop : Int) (fmt : CoordFmt) : Prop :=
  fmt.off ≤ start ∧ start < maxChrom ∧ 0 ≤ stop ∧ stop < maxChrom

theorem sr17 (a : Int) : a >>> 17 = a / 131072 := by
  rw [Int.shiftRight_eq_div_pow]; rfl
theorem sr3 (a : Int) : a >>> 3 = a / 8 := by
  rw [Int.shiftRight_eq_div_pow]; rfl

theorem mem_rangeInt (a b x : Int) : x ∈ rangeInt a b ↔ a ≤ x ∧ x < b := by
  unfold rangeInt
  simp only [List.mem_map, List.mem_range]
  constructor
  · rintro ⟨i, hi, rfl⟩; omega
  · rintro ⟨h1, h2⟩
    refine ⟨(x - a).toNat, ?_, ?_⟩ <;> omega

theorem lvlSize_pos : ∀ k : Fin 5, 0 < lvlSize k := by decide

/-- the level-`k` index of a 0-based coordinate -/
def idx (k : Fin 5) (x : Int) : Int := x / lvlSize k

/-! ### Unfolded forms of the two modes on in-range input -/

theorem binOne_unfold (s e : Int) (fmt : CoordFmt) (h : InRange s e fmt) :
    binOne s e fmt =
      if (s - fmt.off) / 131072 = e / 131072 then .int (4681 + (s - fmt.off) / 131072)
      else if (s - fmt.off) / 131072 / 8 = e / 131072 / 8 then .int (585 + (s - fmt.off) / 131072 / 8)
      else if (s - fmt.off) / 131072 / 8 / 8 = e / 131072 / 8 / 8 then .int (73 + (s - fmt.off) / 131072 / 8 / 8)
      else if (s - fmt.off) / 131072 / 8 / 8 / 8 = e / 131072 / 8 / 8 / 8 then
        .int (9 + (s - fmt.off) / 131072 / 8 / 8 / 8)
      else .int 1 := by
  obtain ⟨h1, h2, h3, h4⟩ := h
  unfold maxChrom at h2 h4
  have g1 : ¬ (s ≥ maxChrom ∨ e ≥ maxChrom) := by unfold maxChrom; omega
  have g2 : ¬ (s - fmt.off < 0) := by omega
  have g3 : ¬ (e < 0) := by omega
  have hoff : fmt.off = 0 ∨ fmt.off = 1 := by cases fmt <;> simp [CoordFmt.off]
  simp only [binOne, bins, g1, g2, g3, if_false, offsets, loop, firstShift, nextShift, sr17, sr3,
    Bool.true_and, beq_iff_eq]
  have last : (s - fmt.off) / 131072 / 8 / 8 / 8 / 8 = e / 131072 / 8 / 8 / 8 / 8 := by omega
  have last0 : (s - fmt.off) / 131072 / 8 / 8 / 8 / 8 = 0 := by omega
  split
  · rfl
  · split
    · rfl
    · split
      · rfl
      · split
        · rfl
        · first | (rw [last0]; rfl) | (rw [if_pos last, last0]; rfl)


theorem binSet_unfold (s e : Int) (fmt : CoordFmt) (h : InRange s e fmt) :
    bins s e fmt false = .set
      ([1] ++ rangeInt (4681 + (s - fmt.off) / 131072) (4681 + e / 131072 + 1)
        ++ rangeInt (585 + (s - fmt.off) / 131072 / 8) (585 + e / 131072 / 8 + 1)
        ++ rangeInt (73 + (s - fmt.off) / 131072 / 8 / 8) (73 + e / 131072 / 8 / 8 + 1)
        ++ rangeInt (9 + (s - fmt.off) / 131072 / 8 / 8 / 8) (9 + e / 131072 / 8 / 8 / 8 + 1)
        ++ rangeInt (1 + (s - fmt.off) / 131072 / 8 / 8 / 8 / 8) (1 + e / 131072 / 8 / 8 / 8 / 8 + 1)) := by
  obtain ⟨h1, h2, h3, h4⟩ := h
  unfold maxChrom at h2 h4
  have g1 : ¬ (s ≥ maxChrom ∨ e ≥ maxChrom) := by unfold maxChrom; omega
  have g2 : ¬ (s - fmt.off < 0) := by omega
  have g3 : ¬ (e < 0) := by omega
  simp only [bins, g1, g2, g3, if_false, offsets, loop, firstShift, nextShift, sr17, sr3,
    Bool.false_and]
  rfl

/-! ## Property theorems -/

/-- **The single-bin form always returns an integer** (never the fall-through `set`), for all
integers and both conventions. -/
theorem binOne_isInt (s e : Int) (fmt : CoordFmt) : ∃ b, binOne s e fmt = .int b := by
  by_cases h : InRange s e fmt
  · rw [binOne_unfold s e fmt h]
    repeat' split
    all_goals exact ⟨_, rfl⟩
  · unfold InRange maxChrom at h
    unfold binOne bins maxChrom
    by_cases a : s ≥ 536870912 ∨ e ≥ 536870912
    · simp [a]
    · by_cases b : s - fmt.off < 0
      · simp [a, b]
      · by_cases c : e < 0
        · simp [a, b, c]
        · exfalso; apply h; omega

/-- **Out-of-range coordinates map to the whole-chromosome bin 1** (single form) … -/
theorem bins_out_of_range_one (s e : Int) (fmt : CoordFmt) (h : ¬ InRange s e fmt) :
    binOne s e fmt = .int 1 := by
  unfold InRange maxChrom at h
  unfold binOne bins maxChrom
  by_cases a : s ≥ 536870912 ∨ e ≥ 536870912
  · simp [a]
  · by_cases b : s - fmt.off < 0
    · simp [a, b]
    · by_cases c : e < 0
      · simp [a, b, c]
      · exfalso; apply h; omega

/-- … and to `{1}` (set form). -/
theorem bins_out_of_range_set (s e : Int) (fmt : CoordFmt) (h : ¬ InRange s e fmt) :
    bins s e fmt false = .set [1] := by
  unfold InRange maxChrom at h
  unfold bins maxChrom
  by_cases a : s ≥ 536870912 ∨ e ≥ 536870912
  · simp [a]
  · by_cases b : s - fmt.off < 0
    · simp [a, b]
    · by_cases c : e < 0
      · simp [a, b, c]
      · exfalso; apply h; omega

/-- **Containment and minimality.**  For in-range input the single bin is bin `idx` of some level `k`
such that the 0-based start `s - co` and the base after the interval, `e`, fall into the same
level-`k` bin, and they do *not* fall into one bin at any finer level: it is exactly the smallest bin
containing the interval plus the following base. -/
theorem binOne_level (s e : Int) (fmt : CoordFmt) (h : InRange s e fmt) :
    ∃ k : Fin 5, binOne s e fmt = .int (lvlOff k + idx k (s - fmt.off))
      ∧ idx k (s - fmt.off) = idx k e
      ∧ ∀ j : Fin 5, j < k → idx j (s - fmt.off) ≠ idx j e := by
  rw [binOne_unfold s e fmt h]
  obtain ⟨h1, h2, h3, h4⟩ := h
  unfold maxChrom at h2 h4
  have hoff : fmt.off = 0 ∨ fmt.off = 1 := by cases fmt <;> simp [CoordFmt.off]
  split
  · refine ⟨0, ?_, ?_, ?_⟩
    · simp [lvlOff, idx, lvlSize]
    · simp only [idx, lvlSize]; omega
    · intro j hj; exact absurd hj (by omega)
  · split
    · refine ⟨1, ?_, ?_, ?_⟩
      · simp only [lvlOff, idx, lvlSize]; congr 2; omega
      · simp only [idx, lvlSize]; omega
      · intro j hj
        have : j = 0 := by omega
        subst this; simp only [idx, lvlSize]; omega
    · split
      · refine ⟨2, ?_, ?_, ?_⟩
        · simp only [lvlOff, idx, lvlSize]; congr 2; omega
        · simp only [idx, lvlSize]; omega
        · intro j hj
          have : j = 0 ∨ j = 1 := by omega
          rcases this with rfl | rfl <;> simp only [idx, lvlSize] <;> omega
      · split
        · refine ⟨3, ?_, ?_, ?_⟩
          · simp only [lvlOff, idx, lvlSize]; congr 2; omega
          · simp only [idx, lvlSize]; omega
          · intro j hj
            have : j = 0 ∨ j = 1 ∨ j = 2 := by omega
            rcases this with rfl | rfl | rfl <;> simp only [idx, lvlSize] <;> omega
        · refine ⟨4, ?_, ?_, ?_⟩
          · simp only [lvlOff, idx, lvlSize]; congr 1; omega
          · simp only [idx, lvlSize]; omega
          · intro j hj
            have : j = 0 ∨ j = 1 ∨ j = 2 ∨ j = 3 := by omega
            rcases this with rfl | rfl | rfl | rfl <;> simp only [idx, lvlSize] <;> omega

/-- Extent form of containment: bin `i` of level `k` covers 0-based positions
`i·size … (i+1)·size − 1`; the returned bin covers `s - co … e` (so, for GFF, the whole 1-based closed
interval `s … e`, whose 0-based positions are `s-1 … e-1`, plus the following base). -/
theorem binOne_contains (s e : Int) (fmt : CoordFmt) (h : InRange s e fmt) :
    ∃ k : Fin 5, ∃ i : Int, binOne s e fmt = .int (lvlOff k + i)
      ∧ i * lvlSize k ≤ s - fmt.off ∧ e < (i + 1) * lvlSize k := by
  obtain ⟨k, hk, heq, _⟩ := binOne_level s e fmt h
  refine ⟨k, idx k (s - fmt.off), hk, ?_, ?_⟩
  · unfold idx; have : 0 < lvlSize k := lvlSize_pos k
    exact Int.ediv_mul_le _ (by omega)
  · rw [heq]; unfold idx; have : 0 < lvlSize k := lvlSize_pos k
    exact Int.lt_ediv_add_one_mul_self _ this

/-- **Set form, completeness and tightness in one statement.**  For in-range input, `b` is in the
returned set iff `b = 1` or `b` is bin `j` of some level `k` with
`idx k (s - co) ≤ j ≤ idx k e` — i.e. exactly the bins of every level that overlap the 0-based
positions `s - co … e`: every bin overlapping the interval is present, and every member overlaps
the interval or the base following it. -/
theorem binSet_mem_iff (s e : Int) (fmt : CoordFmt) (h : InRange s e fmt) (b : Int) :
    inBinSet b s e fmt ↔
      (b = 1 ∨ ∃ k : Fin 5, ∃ j : Int, b = lvlOff k + j ∧ idx k (s - fmt.off) ≤ j ∧ j ≤ idx k e) := by
  unfold inBinSet
  rw [binSet_unfold s e fmt h]
  obtain ⟨h1, h2, h3, h4⟩ := h
  unfold maxChrom at h2 h4
  simp only [List.mem_append, List.mem_singleton, mem_rangeInt]
  constructor
  · rintro (((((hb | hb) | hb) | hb) | hb) | hb)
    · exact Or.inl hb
    · exact Or.inr ⟨0, b - 4681, by simp only [lvlOff]; omega, by simp only [idx, lvlSize]; omega, by simp only [idx, lvlSize]; omega⟩
    · exact Or.inr ⟨1, b - 585, by simp only [lvlOff]; omega, by simp only [idx, lvlSize]; omega, by simp only [idx, lvlSize]; omega⟩
    · exact Or.inr ⟨2, b - 73, by simp only [lvlOff]; omega, by simp only [idx, lvlSize]; omega, by simp only [idx, lvlSize]; omega⟩
    · exact Or.inr ⟨3, b - 9, by simp only [lvlOff]; omega, by simp only [idx, lvlSize]; omega, by simp only [idx, lvlSize]; omega⟩
    · exact Or.inr ⟨4, b - 1, by simp only [lvlOff]; omega, by simp only [idx, lvlSize]; omega, by simp only [idx, lvlSize]; omega⟩
  · rintro (hb | ⟨k, j, rfl, hlo, hhi⟩)
    · exact Or.inl (Or.inl (Or.inl (Or.inl (Or.inl hb))))
    · match k with
      | 0 => simp only [idx, lvlSize, lvlOff] at *; omega
      | 1 => simp only [idx, lvlSize, lvlOff] at *; omega
      | 2 => simp only [idx, lvlSize, lvlOff] at *; omega
      | 3 => simp only [idx, lvlSize, lvlOff] at *; omega
      | 4 => simp only [idx, lvlSize, lvlOff] at *; omega

/-- **Soundness of the bin pre-filter (overlap).**  For an in-range stored feature `fs … fe` and an
in-range query `qs … qe` that overlap (`fs ≤ qe ∧ qs ≤ fe`), the feature's single bin is a member of
the query's bin set.  No `fs ≤ fe` or `qs ≤ qe` assumption is needed. -/
theorem bin_sound_overlap (fs fe qs qe : Int) (fmt : CoordFmt)
    (hf : InRange fs fe fmt) (hq : InRange qs qe fmt) (h1 : fs ≤ qe) (h2 : qs ≤ fe) :
    ∃ b, binOne fs fe fmt = .int b ∧ inBinSet b qs qe fmt := by
  obtain ⟨k, hk, heq, _⟩ := binOne_level fs fe fmt hf
  refine ⟨_, hk, ?_⟩
  rw [binSet_mem_iff qs qe fmt hq]
  refine Or.inr ⟨k, idx k (fs - fmt.off), rfl, ?_, ?_⟩
  · rw [heq]; unfold idx
    have : 0 < lvlSize k := lvlSize_pos k
    apply Int.ediv_le_ediv this; have : 0 ≤ fmt.off := by cases fmt <;> simp [CoordFmt.off]
    omega
  · unfold idx
    have : 0 < lvlSize k := lvlSize_pos k
    apply Int.ediv_le_ediv this; have : 0 ≤ fmt.off := by cases fmt <;> simp [CoordFmt.off]
    omega

/-- **Soundness (containment).**  A feature with `qs ≤ fs` and `fe ≤ qe` has its bin in the query's
bin set — again with no assumption that either interval is well-ordered. -/
theorem bin_sound_within (fs fe qs qe : Int) (fmt : CoordFmt)
    (hf : InRange fs fe fmt) (hq : InRange qs qe fmt) (h1 : qs ≤ fs) (h2 : fe ≤ qe) :
    ∃ b, binOne fs fe fmt = .int b ∧ inBinSet b qs qe fmt := by
  obtain ⟨k, hk, heq, _⟩ := binOne_level fs fe fmt hf
  refine ⟨_, hk, ?_⟩
  rw [binSet_mem_iff qs qe fmt hq]
  refine Or.inr ⟨k, idx k (fs - fmt.off), rfl, ?_, ?_⟩
  · unfold idx
    exact Int.ediv_le_ediv (lvlSize_pos k) (by omega)
  · rw [heq]; unfold idx
    exact Int.ediv_le_ediv (lvlSize_pos k) h2

/-- **BED and GFF conventions agree**: below the size limit a GFF interval `s … e` has the bins of
the BED interval `s-1 … e`.  (At `s = 2^29` exactly the GFF form is already out of range while the BED
form of `s-1` is not; hence the hypothesis.) -/
theorem bed_gff (s e : Int) (one : Bool) (hs : s < maxChrom) :
    bins s e .gff one = bins (s - 1) e .bed one := by
  unfold maxChrom at hs
  unfold bins maxChrom CoordFmt.off
  have e1 : (s ≥ 536870912 ∨ e ≥ 536870912) ↔ (s - 1 ≥ 536870912 ∨ e ≥ 536870912) := by omega
  simp only [e1, Int.sub_zero]

/-! ### Non-vacuity: the hypotheses are met by concrete non-trivial inputs, and the theorems compute -/

example : InRange 131072 131073 .gff := by unfold InRange; decide
example : binOne 131072 131073 .gff = .int 585 := by decide
example : binOne 131073 131074 .gff = .int 4682 := by decide
example : binOne 1 536870911 .gff = .int 1 := by decide
example : bins 1 262144 .gff false = .set [1, 4681, 4682, 4683, 585, 73, 9, 1] := by decide
/-- D3 (repaired): on the pinned commit `bins(0, 5)` fell through to the `set` form. -/
example : binOne 0 5 .gff = .int 1 := by decide

end GffProofs.C12
