/-
  C10 — Update/delete histories leave exactly the modelled content; ids never recycle.

  What is proved here (all over the frozen model `GffModel.Interface` / `GffModel.Create`, plus the
  file-level state machine `GffModel.World`):

  * `delete_exact`            — `delete` is exactly "filter the two tables", nothing else moves.
  * `addRelation_exact`       — `add_relation` is exactly one appended row, or one of two errors.
  * `update_empty_noop`       — `update` with no features is the identity.
  * `update_gff_refines_spec` — GFF3 `update` on an ARBITRARY existing database, in the C02 domain (one
                                 `ID` per feature, pairwise different) with fresh ids, equals the
                                 reference step `Spec.update`; every other column is accounted for.
  * `level2Closed_update`, `level2Closed_createDb` — the equation "level 2 = two level-1 steps out of a
                                 stored feature" is established by `create_db` and preserved by `update`.
  * `history_refines_spec`    — for every finite history of update / delete / add_relation / reopen
                                 steps that stay in the domain, the content equals the reference run.
  * `counters_monotone`, `counters_persisted`, `counters_synced`, `reopen_counters`,
    `keys_never_recycled`, `numbering_continues` — counters only grow, reach the file, survive
                                 reopening, and no `<base>_<n>` key is ever produced twice.
  * `backup_complete`         — with `make_backup` the `.bak` file equals the pre-operation file after the
                                 step, also when the step fails at any position of the feature source.

  Not proved / outside the model (said plainly): the main file's content after a FAILED `update`
  (`failed_update_atomic_partial` of DESIGN.md) is not specified — the World model takes it from an
  arbitrary oracle and every theorem holds for all oracles.  `update` with colliding ids (merge
  strategies) and GTF `update` are covered only by the counter theorems (which hold for every
  configuration), not by `update_gff_refines_spec`.
-/
import GffProofs.Lemmas.C10Update
import GffProofs.Lemmas.C10Frame

namespace GffProofs.C10
open GffModel GffModel.Create GffModel.Interface
open GffProofs.C02 (idOf parentsOf GraphOk gffCfg Edge1)
open GffProofs.C04 (autoId incr_spec Dict.get?_set_self Dict.get?_set_ne)

/-! ## Specification: the reference model -/

/-- reference content of a database: the feature rows in arrival order (keyed by `id`) and the SET of
relation triples -/
structure Spec where
  rows : List Row
  rels : Rel → Prop

/-- same rows in the same order, same relation set -/
def Spec.Equiv (a b : Spec) : Prop := a.rows = b.rows ∧ ∀ r, a.rels r ↔ b.rels r

/-- what a database file contains, as reference content -/
def abs (db : Db) : Spec := { rows := db.features, rels := fun r => r ∈ db.relations }

/-- the row stored for a GFF3 feature carrying exactly one `ID`: the key is the ID, the columns are the
line's, the bin is recomputed from the coordinates -/
def specRow (f : Feature) : Option Row :=
  match idOf f with
  | none => none
  | some id =>
    some { id := id, seqid := f.seqid, source := f.source, ftype := f.ftype, start := f.start, stop := f.stop,
           score := f.score, strand := f.strand, frame := f.frame, attrs := f.attrs, extra := f.extra,
           bin := match Feature.calcBin f.start f.stop with
             | some (.int i) => some i
             | _ => none }

/-- reference `update(fs)` on a GFF3 database: the new rows go to the end; the relation set gains the
`Parent` links of the new features at level 1, and at level 2 every `(x, z)` such that `x` is stored
and `x → y → z` are two level-1 links of the resulting table -/
def Spec.update (m : Spec) (fs : List Feature) : Spec :=
  let rows := m.rows ++ fs.filterMap specRow
  let e1 : Str → Str → Prop := fun p c => m.rels ⟨p, c, 1⟩ ∨ Edge1 fs p c
  { rows := rows,
    rels := fun r => m.rels r ∨ (r.level = 1 ∧ Edge1 fs r.parent r.child) ∨
      (r.level = 2 ∧ r.parent ∈ rows.map (·.id) ∧ ∃ y, e1 r.parent y ∧ e1 y r.child) }

/-- reference `delete(ids)`: the named rows go, and every relation naming one of them; nothing else -/
def Spec.delete (m : Spec) (ids : List Str) : Spec :=
  { rows := m.rows.filter (fun r => decide (r.id ∉ ids)),
    rels := fun r => m.rels r ∧ r.parent ∉ ids ∧ r.child ∉ ids }

/-- reference `add_relation(parent, child, level)` -/
def Spec.addRelation (m : Spec) (p c : Str) (l : Int) : Spec :=
  { rows := m.rows, rels := fun r => m.rels r ∨ r = ⟨p, c, l⟩ }

/-- the equation of the GFF3 importer: level 2 is exactly "two level-1 steps out of a stored feature" -/
def Level2Closed (db : Db) : Prop :=
  ∀ p c, (⟨p, c, 2⟩ : Rel) ∈ db.relations ↔
    (p ∈ db.features.map (·.id) ∧ ∃ y, (⟨p, y, 1⟩ : Rel) ∈ db.relations ∧ (⟨y, c, 1⟩ : Rel) ∈ db.relations)

/-- the domain of `update_gff_refines_spec`: the open database is GFF3, the input is a C02 graph
(non-empty, one `ID` per feature, pairwise different) and none of the new ids is stored already -/
structure UpdateOk (s : Session) (fs : List Feature) : Prop where
  fmt : s.dialect.fmt = Parser.gff3
  graph : GraphOk fs
  fresh : ∀ id ∈ fs.filterMap idOf, id ∉ s.db.features.map (·.id)

/-- in-memory counters and the `autoincrements` table agree as maps -/
def CountersSynced (s : Session) : Prop := ∀ k, Dict.get? s.db.autoinc k = Dict.get? s.auto k

/-! ## 1. delete -/

/-- **`delete` removes exactly the named rows and exactly the relations naming them**: both tables are
filtered (so everything else stays, in order); the other tables, the counters, the dialect and the
directives are untouched. -/
theorem delete_exact (s : Session) (ids : List Str) :
    delete s ids = { s with db := { s.db with
        features := s.db.features.filter (fun r => decide (r.id ∉ ids)),
        relations := s.db.relations.filter (fun r => decide (r.parent ∉ ids ∧ r.child ∉ ids)) } } := by
  unfold delete
  rw [foldl_deleteId]
  congr 2
  · apply List.filter_congr; intro r _; simp
  · apply List.filter_congr; intro r _; simp

theorem delete_mem_features (s : Session) (ids : List Str) (r : Row) :
    r ∈ (delete s ids).db.features ↔ r ∈ s.db.features ∧ r.id ∉ ids := by
  rw [delete_exact]; simp

theorem delete_mem_relations (s : Session) (ids : List Str) (r : Rel) :
    r ∈ (delete s ids).db.relations ↔ r ∈ s.db.relations ∧ r.parent ∉ ids ∧ r.child ∉ ids := by
  rw [delete_exact]; simp

/-- everything `delete` does not name is untouched -/
theorem delete_untouched (s : Session) (ids : List Str) :
    (delete s ids).auto = s.auto ∧ (delete s ids).dialect = s.dialect ∧
    (delete s ids).directives = s.directives ∧ (delete s ids).keepOrder = s.keepOrder ∧
    (delete s ids).sortVals = s.sortVals ∧
    (delete s ids).db.autoinc = s.db.autoinc ∧ (delete s ids).db.metaRows = s.db.metaRows ∧
    (delete s ids).db.directives = s.db.directives ∧ (delete s ids).db.duplicates = s.db.duplicates := by
  rw [delete_exact]; simp

theorem delete_refines_spec (s : Session) (ids : List Str) :
    (abs (delete s ids).db).Equiv ((abs s.db).delete ids) := by
  refine ⟨?_, fun r => ?_⟩
  · rw [delete_exact]; rfl
  · exact delete_mem_relations s ids r

/-- deleting nothing changes nothing -/
theorem delete_nil (s : Session) : delete s [] = s := rfl

/-! ## 1b. add_relation -/

theorem getItem_ok_iff (s : Session) (k : Str) : (∃ f, getItem s k = .ok f) ↔ s.db.hasId k = true := by
  unfold getItem Db.getRow? Db.hasId
  cases h : s.db.features.find? (·.id = k) with
  | none =>
    have := List.find?_eq_none.mp h
    simp only [List.any_eq_true, decide_eq_true_eq]
    constructor
    · rintro ⟨f, hf⟩; cases hf
    · rintro ⟨x, hx, hxe⟩; exact absurd (by simpa using hxe) (this x hx)
  | some r =>
    have hm := List.mem_of_find?_eq_some h
    have hp := List.find?_some h
    simp only [List.any_eq_true]
    exact ⟨fun _ => ⟨r, hm, hp⟩, fun _ => ⟨_, rfl⟩⟩

/-- **`add_relation` is exactly one appended row**: both ids must be stored (`FeatureNotFoundError`
otherwise), the triple must be new (`IntegrityError` otherwise); then the triple is appended and
nothing else changes. -/
theorem addRelation_exact (s : Session) (p c : Str) (l : Int) :
    addRelation s p c l =
      if s.db.hasId p = false ∨ s.db.hasId c = false then .error .featureNotFound
      else if (⟨p, c, l⟩ : Rel) ∈ s.db.relations then .error .integrity
      else .ok { s with db := { s.db with relations := s.db.relations ++ [⟨p, c, l⟩] } } := by
  unfold addRelation
  simp only [bind, Except.bind, pure, Except.pure]
  cases hp : s.db.hasId p with
  | false =>
    have : ¬ ∃ f, getItem s p = .ok f := by rw [getItem_ok_iff, hp]; simp
    cases hg : getItem s p with
    | ok f => exact absurd ⟨f, hg⟩ this
    | error e =>
      unfold getItem at hg
      split at hg
      · cases hg
      · cases hg; simp
  | true =>
    obtain ⟨f, hf⟩ := (getItem_ok_iff s p).mpr hp
    rw [hf]
    simp only
    cases hc : s.db.hasId c with
    | false =>
      have : ¬ ∃ f, getItem s c = .ok f := by rw [getItem_ok_iff, hc]; simp
      cases hg : getItem s c with
      | ok f => exact absurd ⟨f, hg⟩ this
      | error e =>
        unfold getItem at hg
        split at hg
        · cases hg
        · cases hg; simp
    | true =>
      obtain ⟨g, hg⟩ := (getItem_ok_iff s c).mpr hc
      rw [hg]
      simp only [Db.insertRel, Db.hasRel, List.contains_iff_mem]
      by_cases hr : (⟨p, c, l⟩ : Rel) ∈ s.db.relations <;> simp [hr]

theorem addRelation_refines_spec (s s' : Session) (p c : Str) (l : Int) (h : addRelation s p c l = .ok s') :
    (abs s'.db).Equiv ((abs s.db).addRelation p c l) ∧ s'.db.relations = s.db.relations ++ [⟨p, c, l⟩] ∧
    s' = { s with db := { s.db with relations := s'.db.relations } } := by
  rw [addRelation_exact] at h
  split at h
  · cases h
  · split at h
    · cases h
    · cases h
      exact ⟨⟨rfl, fun r => by simp [abs, Spec.addRelation]⟩, rfl, rfl⟩

/-! ## 2. update with no features -/

/-- **`update` with no features changes nothing** (any configuration, any database) -/
theorem update_empty_noop (s : Session) (cfg : Cfg) : update s cfg [] = .ok s := rfl

/-! ## 3. update refines the reference model -/

theorem specRow_eq (f : Feature) : specRow f = (idOf f).map (rowOf f) := by
  unfold specRow
  cases idOf f <;> rfl

theorem filterMap_specRow (fs : List Feature) : fs.filterMap specRow = newRows fs := by
  unfold newRows
  congr 1
  funext f
  exact specRow_eq f

theorem gff3_ne_gtf : Parser.gff3 ≠ Parser.gtf := by decide

/-- the session `update` returns in the domain, in terms of the populated database -/
theorem update_gff_eq (s : Session) (strategy : Strategy) (d : Dialect) (fs : List Feature) (h : UpdateOk s fs) :
    ∃ db1, InvFrom s.db fs db1 ∧
      update s (gffCfg strategy d) fs =
        .ok { s with db := finalize (updateRelationsGff db1) d [] s.auto, auto := s.auto } := by
  obtain ⟨db1, hpop, inv⟩ := populateGff_from strategy d s.db s.auto fs h.graph h.fresh
  refine ⟨db1, inv, ?_⟩
  have hne : fs.isEmpty = false := by
    cases fs with
    | nil => exact absurd rfl h.graph.nonempty
    | cons a l => rfl
  have hfmt := h.fmt
  unfold update
  simp only [hne, hfmt, hpop, bind, Except.bind, pure, Except.pure, if_false, if_true, Bool.false_eq_true]
  rfl

/-- **GFF3 `update` equals the reference step** — for every open GFF3 database (no assumption on its
content) and every input in the domain `UpdateOk`: the call succeeds; the rows are the old rows followed
by the new ones; the relation set is that of `Spec.update`; the old relation rows keep their places
(prefix) and no duplicate row appears; one meta row is appended; the persistent counters are the old
table overwritten with the in-memory ones; the in-memory counters, dialect, directives and flags, and
the `directives` / `duplicates` tables are untouched. -/
theorem update_gff_refines_spec (s : Session) (strategy : Strategy) (d : Dialect) (fs : List Feature)
    (h : UpdateOk s fs) :
    ∃ s', update s (gffCfg strategy d) fs = .ok s' ∧
      (abs s'.db).Equiv ((abs s.db).update fs) ∧
      s.db.relations <+: s'.db.relations ∧
      (s.db.relations.Nodup → s'.db.relations.Nodup) ∧
      s'.db.metaRows = s.db.metaRows ++ [d] ∧
      s'.db.directives = s.db.directives ∧
      s'.db.duplicates = s.db.duplicates ∧
      s'.db.autoinc = setAll s.auto s.db.autoinc ∧
      s'.auto = s.auto ∧ s'.dialect = s.dialect ∧ s'.directives = s.directives ∧
      s'.keepOrder = s.keepOrder ∧ s'.sortVals = s.sortVals := by
  obtain ⟨db1, inv, hup⟩ := update_gff_eq s strategy d fs h
  have hext := updateRelationsGff_relExt db1
  have hrest := inv.rest
  have e1 : ∀ p c, (⟨p, c, 1⟩ : Rel) ∈ db1.relations ↔ ((⟨p, c, 1⟩ : Rel) ∈ s.db.relations ∨ Edge1 fs p c) := by
    intro p c
    rw [inv.rels]
    constructor
    · rintro (h0 | ⟨p', c', heq, he⟩)
      · exact Or.inl h0
      · cases heq; exact Or.inr he
    · rintro (h0 | he)
      · exact Or.inl h0
      · exact Or.inr ⟨p, c, rfl, he⟩
  refine ⟨_, hup, ⟨?_, fun r => ?_⟩, ?_, ?_, ?_, ?_, ?_, ?_, rfl, rfl, rfl, rfl, rfl⟩
  · show (updateRelationsGff db1).features = _
    rw [C02.updateRelationsGff_features, inv.feats, ← filterMap_specRow]; rfl
  · show r ∈ (updateRelationsGff db1).relations ↔ _
    rw [C02.updateRelationsGff_mem, inv.rels]
    simp only [abs, Spec.update]
    constructor
    · rintro ((h0 | ⟨p, c, rfl, he⟩) | ⟨row, hrow, y, c, h1, h2, rfl⟩)
      · exact Or.inl h0
      · exact Or.inr (Or.inl ⟨rfl, he⟩)
      · refine Or.inr (Or.inr ⟨rfl, ?_, y, (e1 _ _).mp h1, (e1 _ _).mp h2⟩)
        rw [filterMap_specRow, ← inv.feats]
        exact List.mem_map.mpr ⟨row, hrow, rfl⟩
    · rintro (h0 | ⟨hl, he⟩ | ⟨hl, hp, y, h1, h2⟩)
      · exact Or.inl (Or.inl h0)
      · obtain ⟨p, c, l⟩ := r
        simp only at hl he
        subst hl
        exact Or.inl (Or.inr ⟨p, c, rfl, he⟩)
      · obtain ⟨p, c, l⟩ := r
        simp only at hl hp h1 h2
        subst hl
        rw [filterMap_specRow, ← inv.feats] at hp
        obtain ⟨row, hrow, rfl⟩ := List.mem_map.mp hp
        exact Or.inr ⟨row, hrow, y, c, (e1 _ _).mpr h1, (e1 _ _).mpr h2, rfl⟩
  · exact inv.pre.trans hext.pre
  · intro h0
    exact C02.updateRelationsGff_nodup _ (inv.nodup h0)
  · show (updateRelationsGff db1).metaRows ++ [d] = _
    rw [hext.eq, hrest]
  · show (updateRelationsGff db1).directives ++ [] = _
    rw [hext.eq, hrest]; simp
  · show (updateRelationsGff db1).duplicates = _
    rw [hext.eq, hrest]
  · show (finalize (updateRelationsGff db1) d [] s.auto).autoinc = _
    rw [finalize_autoinc, hext.eq, hrest]

/-- the same, level by level: level 1 gains exactly the `Parent` links of the new features; level 2 gains
exactly the two-step compositions out of stored features (over the table AFTER the update); no other level
changes -/
theorem update_gff_levels (s : Session) (strategy : Strategy) (d : Dialect) (fs : List Feature)
    (h : UpdateOk s fs) :
    ∃ s', update s (gffCfg strategy d) fs = .ok s' ∧
      s'.db.features = s.db.features ++ fs.filterMap specRow ∧
      (∀ p c, (⟨p, c, 1⟩ : Rel) ∈ s'.db.relations ↔ ((⟨p, c, 1⟩ : Rel) ∈ s.db.relations ∨ Edge1 fs p c)) ∧
      (∀ p c, (⟨p, c, 2⟩ : Rel) ∈ s'.db.relations ↔ ((⟨p, c, 2⟩ : Rel) ∈ s.db.relations ∨
          (p ∈ s'.db.features.map (·.id) ∧
            ∃ y, (⟨p, y, 1⟩ : Rel) ∈ s'.db.relations ∧ (⟨y, c, 1⟩ : Rel) ∈ s'.db.relations))) ∧
      (∀ p c l, l ≠ 1 → l ≠ 2 → ((⟨p, c, l⟩ : Rel) ∈ s'.db.relations ↔ (⟨p, c, l⟩ : Rel) ∈ s.db.relations)) := by
  obtain ⟨s', hup, ⟨hrows, hrels⟩, _⟩ := update_gff_refines_spec s strategy d fs h
  have hrels' : ∀ r, r ∈ s'.db.relations ↔ ((abs s.db).update fs).rels r := hrels
  have l1 : ∀ p c, (⟨p, c, 1⟩ : Rel) ∈ s'.db.relations ↔ ((⟨p, c, 1⟩ : Rel) ∈ s.db.relations ∨ Edge1 fs p c) := by
    intro p c
    rw [hrels']
    simp only [abs, Spec.update]
    constructor
    · rintro (h0 | ⟨_, he⟩ | ⟨hl, _⟩)
      · exact Or.inl h0
      · exact Or.inr he
      · exact absurd hl (by decide)
    · rintro (h0 | he)
      · exact Or.inl h0
      · exact Or.inr (Or.inl ⟨trivial, he⟩)
  have hrows' : s'.db.features = s.db.features ++ fs.filterMap specRow := hrows
  refine ⟨s', hup, hrows', l1, ?_, ?_⟩
  · intro p c
    rw [hrels']
    simp only [l1, hrows']
    simp only [abs, Spec.update]
    constructor
    · rintro (h0 | ⟨hl, _⟩ | ⟨_, hp, y, h1, h2⟩)
      · exact Or.inl h0
      · exact absurd hl (by decide)
      · exact Or.inr ⟨hp, y, h1, h2⟩
    · rintro (h0 | ⟨hp, y, h1, h2⟩)
      · exact Or.inl h0
      · exact Or.inr (Or.inr ⟨trivial, hp, y, h1, h2⟩)
  · intro p c l h1 h2
    rw [hrels']
    simp only [abs, Spec.update]
    constructor
    · rintro (h0 | ⟨hl, _⟩ | ⟨hl, _⟩)
      · exact h0
      · exact absurd hl h1
      · exact absurd hl h2
    · exact Or.inl

/-! ### the level-2 equation -/

/-- **`update` preserves `Level2Closed`**: if level 2 was exactly the two-step composition before, it is
exactly the two-step composition (over the enlarged tables) afterwards -/
theorem level2Closed_update (s : Session) (strategy : Strategy) (d : Dialect) (fs : List Feature)
    (h : UpdateOk s fs) (hc : Level2Closed s.db) :
    ∃ s', update s (gffCfg strategy d) fs = .ok s' ∧ Level2Closed s'.db := by
  obtain ⟨s', hup, hrows, l1, l2, _⟩ := update_gff_levels s strategy d fs h
  refine ⟨s', hup, fun p c => ?_⟩
  rw [l2]
  constructor
  · rintro (h0 | hnew)
    · obtain ⟨hp, y, h1, h2⟩ := (hc p c).mp h0
      refine ⟨?_, y, (l1 _ _).mpr (Or.inl h1), (l1 _ _).mpr (Or.inl h2)⟩
      rw [hrows, List.map_append]
      exact List.mem_append_left _ hp
    · exact hnew
  · exact Or.inr

/-- **`create_db` establishes `Level2Closed`** (from C02 `import_relations_exact`) -/
theorem level2Closed_createDb (strategy : Strategy) (d : Dialect) (dirs : List Str) (fs : List Feature)
    (h : GraphOk fs) :
    ∃ db, createDb .gff (gffCfg strategy d) dirs fs = .ok db ∧ Level2Closed db := by
  obtain ⟨db, hdb, hf, a1, a2, _⟩ := C02.import_relations_exact strategy d dirs fs h
  refine ⟨db, hdb, fun p c => ?_⟩
  rw [a2, hf]
  simp only [a1]

/-- `create_db` is the reference `update` of the empty content -/
theorem createDb_refines_spec (strategy : Strategy) (d : Dialect) (dirs : List Str) (fs : List Feature)
    (h : GraphOk fs) :
    ∃ db, createDb .gff (gffCfg strategy d) dirs fs = .ok db ∧
      (abs db).Equiv (Spec.update { rows := [], rels := fun _ => False } fs) := by
  obtain ⟨db1, hpop, inv⟩ := populateGff_from strategy d {} [] fs h (by simp)
  refine ⟨finalize (updateRelationsGff db1) d dirs [], ?_, ?_, fun r => ?_⟩
  · simp only [createDb, hpop, bind, Except.bind, pure, Except.pure]; rfl
  · show (updateRelationsGff db1).features = _
    rw [C02.updateRelationsGff_features, inv.feats, ← filterMap_specRow]; rfl
  · have e1 : ∀ p c, (⟨p, c, 1⟩ : Rel) ∈ db1.relations ↔ Edge1 fs p c := by
      intro p c
      rw [inv.rels]
      constructor
      · rintro (h0 | ⟨p', c', heq, he⟩)
        · cases h0
        · cases heq; exact he
      · intro he; exact Or.inr ⟨p, c, rfl, he⟩
    show r ∈ (updateRelationsGff db1).relations ↔ _
    rw [C02.updateRelationsGff_mem, inv.rels]
    simp only [Spec.update, false_or, List.nil_append]
    constructor
    · rintro ((h0 | ⟨p, c, rfl, he⟩) | ⟨row, hrow, y, c, h1, h2, rfl⟩)
      · cases h0
      · exact Or.inl ⟨rfl, he⟩
      · refine Or.inr ⟨rfl, ?_, y, (e1 _ _).mp h1, (e1 _ _).mp h2⟩
        rw [filterMap_specRow]
        have := inv.feats
        simp only [List.nil_append] at this
        rw [← this]
        exact List.mem_map.mpr ⟨row, hrow, rfl⟩
    · rintro (⟨hl, he⟩ | ⟨hl, hp, y, h1, h2⟩)
      · obtain ⟨p, c, l⟩ := r
        simp only at hl he
        subst hl
        exact Or.inl (Or.inr ⟨p, c, rfl, he⟩)
      · obtain ⟨p, c, l⟩ := r
        simp only at hl hp h1 h2
        subst hl
        rw [filterMap_specRow] at hp
        have := inv.feats
        simp only [List.nil_append] at this
        rw [← this] at hp
        obtain ⟨row, hrow, rfl⟩ := List.mem_map.mp hp
        exact Or.inr ⟨row, hrow, y, c, (e1 _ _).mpr h1, (e1 _ _).mpr h2, rfl⟩

/-! ## 4. counters -/

/-- the three facts about counters that every reachable session satisfies: the in-memory dict and the
`autoincrements` table agree as maps, and neither lists a key twice (the latter two are model
artefacts — a Python dict / a PRIMARY KEY column cannot — needed because `Dict` is a list) -/
structure CountersOk (s : Session) : Prop where
  synced : CountersSynced s
  memNodup : (Dict.keys s.auto).Nodup
  tableNodup : (Dict.keys s.db.autoinc).Nodup

/-- the shape of every successful `update`, whatever the format, configuration, strategy and input:
either nothing happened (no features), or some importer ran — which moved the counters forward and did
not touch the `autoincrements` / `meta` / `directives` tables — and `_finalize` wrote the counters back -/
theorem update_shape (s s' : Session) (cfg : Cfg) (fs : List Feature) (h : update s cfg fs = .ok s') :
    (fs = [] ∧ s' = s) ∨
    (fs ≠ [] ∧ ∃ db auto, Frame s.db db ∧ Ext s.auto auto ∧
      s' = { s with db := finalize db cfg.dialect [] auto, auto := auto }) := by
  unfold update at h
  simp only [bind, Except.bind, pure, Except.pure] at h
  split at h
  · rename_i he
    cases h
    exact Or.inl ⟨List.isEmpty_iff.mp he, rfl⟩
  · rename_i he
    have hne : fs ≠ [] := fun e => he (by rw [e]; rfl)
    refine Or.inr ⟨hne, ?_⟩
    split at h
    · split at h
      · cases h
      · rename_i v1 h1
        obtain ⟨db1, auto1⟩ := v1
        split at h
        · cases h
        · rename_i v2 h2
          obtain ⟨db2, auto2⟩ := v2
          cases h
          exact ⟨db2, auto2, (populateGtf_frame _ _ _ _ _ _ h1).trans (updateRelationsGtf_frame _ _ _ _ _ h2),
            (populateGtf_ext _ _ _ _ _ _ h1).trans (updateRelationsGtf_ext _ _ _ _ _ h2), rfl⟩
    · split at h
      · split at h
        · cases h
        · rename_i v1 h1
          obtain ⟨db1, auto1⟩ := v1
          cases h
          exact ⟨updateRelationsGff db1, auto1,
            (populateGff_frame _ _ _ _ _ _ h1).trans (updateRelationsGff_frame _), populateGff_ext _ _ _ _ _ _ h1, rfl⟩
      · cases h

/-- **counters only grow**: after every successful `update` (any format, configuration, strategy,
input) every counter present before is still present with a value at least as large -/
theorem counters_monotone (s s' : Session) (cfg : Cfg) (fs : List Feature) (h : update s cfg fs = .ok s') :
    CountersLe s.auto s'.auto ∧ (∀ k, (Dict.get? s.auto k).getD 0 ≤ (Dict.get? s'.auto k).getD 0) := by
  have hle : CountersLe s.auto s'.auto := by
    rcases update_shape s s' cfg fs h with ⟨_, rfl⟩ | ⟨_, db, auto, _, hext, rfl⟩
    · exact CountersLe.refl _
    · exact hext.le
  exact ⟨hle, hle.getD⟩

/-- **the persistent table equals the in-memory counters afterwards** on every key of the latter — for
a non-empty `update`, or when they agreed before -/
theorem counters_persisted (s s' : Session) (cfg : Cfg) (fs : List Feature) (h : update s cfg fs = .ok s')
    (hnd : (Dict.keys s.auto).Nodup) (hne : fs ≠ [] ∨ CountersSynced s) :
    ∀ k n, Dict.get? s'.auto k = some n → Dict.get? s'.db.autoinc k = some n := by
  intro k n hk
  rcases update_shape s s' cfg fs h with ⟨hnil, rfl⟩ | ⟨_, db, auto, _, hext, rfl⟩
  · rcases hne with hne | hs
    · exact absurd hnil hne
    · rw [hs k]; exact hk
  · show Dict.get? (finalize db cfg.dialect [] auto).autoinc k = some n
    rw [finalize_autoinc]
    exact get?_setAll_mem _ _ _ _ (hext.nodup hnd) hk

/-- without either side condition the clause is false: an `update` with no features on a session whose
counters were never written (constructed by hand — `openDb` never produces it) leaves them unwritten -/
example : ∃ (s s' : Session) (cfg : Cfg), update s cfg [] = .ok s' ∧ (Dict.keys s.auto).Nodup ∧
    Dict.get? s'.auto "exon".toList = some 1 ∧ Dict.get? s'.db.autoinc "exon".toList = none :=
  ⟨{ db := {}, auto := [("exon".toList, 1)], dialect := Dialect.default, directives := [] }, _,
   { idSpec := defaultGffSpec }, rfl, by decide, by decide, by decide⟩

/-- **`CountersOk` is preserved by `update`** (any format, configuration, strategy, input) -/
theorem counters_synced (s s' : Session) (cfg : Cfg) (fs : List Feature) (h : update s cfg fs = .ok s')
    (hok : CountersOk s) : CountersOk s' := by
  rcases update_shape s s' cfg fs h with ⟨_, rfl⟩ | ⟨_, db, auto, hfr, hext, rfl⟩
  · exact hok
  · refine ⟨fun k => ?_, hext.nodup hok.memNodup, ?_⟩
    · show Dict.get? (finalize db cfg.dialect [] auto).autoinc k = Dict.get? auto k
      rw [finalize_autoinc]
      cases hk : Dict.get? auto k with
      | some n => exact get?_setAll_mem _ _ _ _ (hext.nodup hok.memNodup) hk
      | none =>
        rw [get?_setAll_not_mem _ _ _ ((get?_eq_none_iff _ _).mp hk), hfr.autoinc, hok.synced k]
        cases hs : Dict.get? s.auto k with
        | none => rfl
        | some n =>
          obtain ⟨m, _, hm⟩ := hext.le k n hs
          rw [hk] at hm; cases hm
    · show (Dict.keys (finalize db cfg.dialect [] auto).autoinc).Nodup
      rw [finalize_autoinc, hfr.autoinc]
      exact setAll_keys_nodup _ _ hok.tableNodup

theorem openDb_spec (db : Db) (ko sv : Bool) (s : Session) (h : openDb db ko sv = .ok s) :
    s.db = db ∧ s.auto = db.autoinc ∧ s.directives = db.directives ∧ db.metaRows.head? = some s.dialect := by
  unfold openDb at h
  split at h
  · cases h
  · rename_i d rest hm
    cases h
    exact ⟨rfl, rfl, rfl, by rw [hm]; rfl⟩

/-- opening a file gives a `CountersOk` session (the table has a PRIMARY KEY) -/
theorem openDb_countersOk (db : Db) (ko sv : Bool) (s : Session) (h : openDb db ko sv = .ok s)
    (hnd : (Dict.keys db.autoinc).Nodup) : CountersOk s := by
  obtain ⟨h1, h2, _⟩ := openDb_spec db ko sv s h
  refine ⟨fun k => by rw [h1, h2], by rw [h2]; exact hnd, by rw [h1]; exact hnd⟩

/-- **numbering continues across reopenings**: after a non-empty successful `update` the file can be
reopened, the reopened session sees the same file, and its counters are the persisted table — which,
for a `CountersOk` session, is the in-memory dict of the session that was closed, so the next key for
every base is the same as it would have been without closing -/
theorem reopen_counters (s s' : Session) (cfg : Cfg) (fs : List Feature) (h : update s cfg fs = .ok s')
    (hne : fs ≠ []) (ko sv : Bool) :
    ∃ s'', openDb s'.db ko sv = .ok s'' ∧ s''.db = s'.db ∧ s''.auto = s'.db.autoinc ∧
      (CountersOk s → CountersOk s'' ∧ ∀ k, Dict.get? s''.auto k = Dict.get? s'.auto k ∧
        (incr s''.auto k).1 = (incr s'.auto k).1) := by
  rcases update_shape s s' cfg fs h with ⟨hnil, _⟩ | ⟨_, db, auto, hfr, hext, hs'⟩
  · exact absurd hnil hne
  · have hmeta : ∃ d rest, s'.db.metaRows = d :: rest := by
      rw [hs']
      show ∃ d rest, db.metaRows ++ [cfg.dialect] = d :: rest
      cases db.metaRows with
      | nil => exact ⟨_, _, rfl⟩
      | cons a l => exact ⟨_, _, rfl⟩
    obtain ⟨d0, rest, hm⟩ := hmeta
    have hopen : openDb s'.db ko sv = .ok
        { db := s'.db, auto := s'.db.autoinc, dialect := d0,
          directives := s'.db.directives, keepOrder := ko, sortVals := sv } := by
      unfold openDb; rw [hm]
    refine ⟨_, hopen, rfl, rfl, fun hok => ?_⟩
    have hok' := counters_synced s s' cfg fs h hok
    refine ⟨openDb_countersOk _ _ _ _ hopen hok'.tableNodup, fun k => ?_⟩
    have hk : Dict.get? s'.db.autoinc k = Dict.get? s'.auto k := hok'.synced k
    refine ⟨hk, ?_⟩
    rw [incr_spec, incr_spec]
    show autoId k ((Dict.get? s'.db.autoinc k).getD 0 + 1) = _
    rw [hk]

/-- what `incr` hands out and records -/
theorem incr_key (auto : Dict Nat) (k : Str) :
    (incr auto k).1 = autoId k ((Dict.get? auto k).getD 0 + 1) ∧
    Dict.get? (incr auto k).2 k = some ((Dict.get? auto k).getD 0 + 1) :=
  ⟨by rw [incr_spec], incr_snd_get? auto k⟩

/-- **no key is ever handed out twice.**  A key handed out for base `k'` with number `n` is recorded
(`incr_key`), so at any later time `n ≤ counter(k')` (`counters_monotone`).  Hence:
(a) the key `incr` returns differs from EVERY `<k'>_<n>` with `n` at most the current counter of `k'` —
for every base, not only its own (the rendered text determines base and number: `autoId_inj`, which uses
injectivity of the decimal rendering `natToStr_injective` and the absence of `_` from digits);
(b) every later `incr`, from any counter state at or above the one `incr` left, for any base, returns a
different key. -/
theorem keys_never_recycled (auto : Dict Nat) (k : Str) :
    (∀ k' n, n ≤ (Dict.get? auto k').getD 0 → (incr auto k).1 ≠ autoId k' n) ∧
    (∀ later k', CountersLe (incr auto k).2 later → (incr later k').1 ≠ (incr auto k).1) := by
  constructor
  · intro k' n hn heq
    rw [incr_spec] at heq
    obtain ⟨rfl, rfl⟩ := (autoId_inj _ _ _ _).mp heq
    omega
  · intro later k' hle heq
    rw [incr_spec, incr_spec] at heq
    obtain ⟨rfl, hnum⟩ := (autoId_inj _ _ _ _).mp heq
    obtain ⟨m, hm, hlater⟩ := hle k' _ (incr_snd_get? auto k')
    rw [hlater] at hnum
    simp only [Option.getD_some] at hnum
    omega

/-- **numbering continues across updates**: every `<k>_<n>` with `n` at most the counter of `k` before a
successful `update` (i.e. every key that can have been handed out before) differs from every key `incr`
returns from the counters after it, or from any later counter state -/
theorem numbering_continues (s s' : Session) (cfg : Cfg) (fs : List Feature) (h : update s cfg fs = .ok s')
    (later : Dict Nat) (hl : CountersLe s'.auto later) (k k' : Str) (n : Nat)
    (hn : n ≤ (Dict.get? s.auto k').getD 0) : (incr later k).1 ≠ autoId k' n := by
  have h1 := ((counters_monotone s s' cfg fs h).1.trans hl).getD k'
  exact (keys_never_recycled later k).1 k' n (Nat.le_trans hn h1)

/-! ## 5. histories -/

/-- the write steps of a history (`update` with the default GFF3 `id_spec`, any strategy / dialect) -/
inductive HOp
  | update (strategy : Strategy) (d : Dialect) (fs : List Feature)
  | delete (ids : List Str)
  | addRelation (p c : Str) (l : Int)
  | reopen

/-- the model's step -/
def HOp.apply (s : Session) : HOp → Py Session
  | .update st d fs => Interface.update s (gffCfg st d) fs
  | .delete ids => .ok (Interface.delete s ids)
  | .addRelation p c l => Interface.addRelation s p c l
  | .reopen => openDb s.db s.keepOrder s.sortVals

/-- the reference model's step -/
def HOp.spec (m : Spec) : HOp → Spec
  | .update _ _ fs => m.update fs
  | .delete ids => m.delete ids
  | .addRelation p c l => m.addRelation p c l
  | .reopen => m

/-- the domain of one step, on the session it is applied to -/
def HOp.InDomain (s : Session) : HOp → Prop
  | .update _ _ fs => UpdateOk s fs
  | .delete _ => True
  | .addRelation p c l => s.db.hasId p = true ∧ s.db.hasId c = true ∧ (⟨p, c, l⟩ : Rel) ∉ s.db.relations
  | .reopen => s.db.metaRows ≠ []

def runHist (s : Session) : List HOp → Py Session
  | [] => .ok s
  | op :: rest =>
    match op.apply s with
    | .ok s' => runHist s' rest
    | .error e => .error e

/-- every step of the history is in its domain on the session it meets -/
def HistOk (s : Session) : List HOp → Prop
  | [] => True
  | op :: rest => op.InDomain s ∧ ∀ s', op.apply s = .ok s' → HistOk s' rest

theorem Spec.Equiv.refl (m : Spec) : m.Equiv m := ⟨rfl, fun _ => Iff.rfl⟩
theorem Spec.Equiv.trans {a b c : Spec} (h1 : a.Equiv b) (h2 : b.Equiv c) : a.Equiv c :=
  ⟨h1.1.trans h2.1, fun r => (h1.2 r).trans (h2.2 r)⟩

/-- the reference steps respect content equality -/
theorem HOp.spec_congr (op : HOp) {m m' : Spec} (h : m.Equiv m') : (op.spec m).Equiv (op.spec m') := by
  obtain ⟨hr, hrel⟩ := h
  cases op with
  | update st d fs =>
    refine ⟨by simp only [HOp.spec, Spec.update, hr], fun r => ?_⟩
    simp only [HOp.spec, Spec.update, hr, hrel]
  | delete ids =>
    refine ⟨by simp only [HOp.spec, Spec.delete, hr], fun r => ?_⟩
    simp only [HOp.spec, Spec.delete, hrel]
  | addRelation p c l =>
    refine ⟨hr, fun r => ?_⟩
    simp only [HOp.spec, Spec.addRelation, hrel]
  | reopen => exact ⟨hr, hrel⟩

/-- one step in its domain succeeds and refines the reference step -/
theorem step_refines_spec (s : Session) (op : HOp) (h : op.InDomain s) :
    ∃ s', op.apply s = .ok s' ∧ (abs s'.db).Equiv (op.spec (abs s.db)) := by
  cases op with
  | update st d fs =>
    obtain ⟨s', hup, heq, _⟩ := update_gff_refines_spec s st d fs h
    exact ⟨s', hup, heq⟩
  | delete ids => exact ⟨_, rfl, delete_refines_spec s ids⟩
  | addRelation p c l =>
    obtain ⟨hp, hc, hr⟩ := h
    have : addRelation s p c l = .ok { s with db := { s.db with relations := s.db.relations ++ [⟨p, c, l⟩] } } := by
      rw [addRelation_exact]; simp [hp, hc, hr]
    exact ⟨_, this, (addRelation_refines_spec _ _ _ _ _ this).1⟩
  | reopen =>
    simp only [HOp.InDomain] at h
    simp only [HOp.apply, openDb]
    cases hm : s.db.metaRows with
    | nil => exact absurd hm h
    | cons d rest => exact ⟨_, rfl, Spec.Equiv.refl _⟩

/-- **every finite history refines the reference model**: for every sequence of update / delete /
add_relation / reopen steps, each in its domain on the session it meets, all steps succeed and the final
content (rows in order, relation set) equals the reference model's after the same steps -/
theorem history_refines_spec (ops : List HOp) (s : Session) (h : HistOk s ops) :
    ∃ s', runHist s ops = .ok s' ∧ (abs s'.db).Equiv (ops.foldl HOp.spec (abs s.db)) := by
  suffices hgen : ∀ (ops : List HOp) (s : Session) (m : Spec), HistOk s ops → (abs s.db).Equiv m →
      ∃ s', runHist s ops = .ok s' ∧ (abs s'.db).Equiv (ops.foldl HOp.spec m) from
    hgen ops s _ h (Spec.Equiv.refl _)
  intro ops
  induction ops with
  | nil => intro s m _ hm; exact ⟨s, rfl, hm⟩
  | cons op rest ih =>
    intro s m hh hm
    obtain ⟨s1, h1, e1⟩ := step_refines_spec s op hh.1
    obtain ⟨s', hrun, e'⟩ := ih s1 (op.spec m) (hh.2 s1 h1) (e1.trans (op.spec_congr hm))
    refine ⟨s', ?_, e'⟩
    simp only [runHist, h1]
    exact hrun

/-- **counters along every successful history** (no domain restriction on the steps): from a
`CountersOk` session, every session met is `CountersOk` and its counters are at or above the start's — so
by `keys_never_recycled` no key handed out anywhere in the history is handed out again later in it,
across `reopen` included -/
theorem history_counters (ops : List HOp) (s s' : Session) (hok : CountersOk s)
    (h : runHist s ops = .ok s') : CountersOk s' ∧ CountersLe s.auto s'.auto := by
  induction ops generalizing s with
  | nil => cases h; exact ⟨hok, CountersLe.refl _⟩
  | cons op rest ih =>
    simp only [runHist] at h
    split at h
    · rename_i s1 h1
      have step : CountersOk s1 ∧ CountersLe s.auto s1.auto := by
        cases op with
        | update st d fs =>
          exact ⟨counters_synced _ _ _ _ h1 hok, (counters_monotone _ _ _ _ h1).1⟩
        | delete ids =>
          cases h1
          obtain ⟨a, _, _, _, _, b, _⟩ := delete_untouched s ids
          exact ⟨⟨fun k => by rw [a, b]; exact hok.synced k, by rw [a]; exact hok.memNodup,
            by rw [b]; exact hok.tableNodup⟩, by rw [a]; exact CountersLe.refl _⟩
        | addRelation p c l =>
          obtain ⟨_, _, e⟩ := addRelation_refines_spec _ _ _ _ _ h1
          rw [e]
          exact ⟨⟨hok.synced, hok.memNodup, hok.tableNodup⟩, CountersLe.refl _⟩
        | reopen =>
          have hs := openDb_spec _ _ _ _ h1
          refine ⟨openDb_countersOk _ _ _ _ h1 hok.tableNodup, ?_⟩
          intro k n hk
          refine ⟨n, Nat.le_refl n, ?_⟩
          rw [hs.2.1, hok.synced k]; exact hk
      obtain ⟨hok', hle'⟩ := ih s1 step.1 h
      exact ⟨hok', step.2.trans hle'⟩
    · cases h

/-! ## 6. backups (World model) -/

theorem bakPath_ne (p : Str) : World.bakPath p ≠ p := by
  intro h
  have := congrArg List.length h
  simp [World.bakPath] at this

theorem read_write_self (w : World) (p : Str) (db : Db) : (w.write p db).read p = some db :=
  Dict.get?_set_self _ _ _

theorem read_write_ne (w : World) (p q : Str) (db : Db) (h : q ≠ p) : (w.write p db).read q = w.read q :=
  Dict.get?_set_ne _ _ _ _ h

theorem read_backup_bak (w : World) (p : Str) (db0 : Db) (h : w.read p = some db0) :
    (w.backup p).read (World.bakPath p) = some db0 := by
  unfold World.backup
  rw [h]
  exact read_write_self _ _ _

theorem read_backup_ne (w : World) (p q : Str) (h : q ≠ World.bakPath p) : (w.backup p).read q = w.read q := by
  unfold World.backup
  split
  · exact read_write_ne _ _ _ _ h
  · rfl

theorem commit_read_bak (c : World.Conn) (s : Session) :
    (c.commit s).world.read (World.bakPath c.path) = c.world.read (World.bakPath c.path) :=
  read_write_ne _ _ _ _ (bakPath_ne _)

/-- **`make_backup` is complete, also under failure**: for every write operation asked to take a backup
(`update` with any input, any configuration and any failure position of the feature source, including
"no failure", and `delete`), and whatever a failed write leaves in the main file (`residue` arbitrary),
the `.bak` file after the step holds exactly the content the main file had before the step. -/
theorem backup_complete (residue : Session → World.Op → Session) (c : World.Conn) (op : World.Op) (db0 : Db)
    (hb : op.makesBackup = true) (hfile : c.world.read c.path = some db0) :
    (World.step residue c op).1.world.read (World.bakPath c.path) = some db0 := by
  have key : ∀ s, ((c.backupIf true).commit s).world.read (World.bakPath c.path) = some db0 := by
    intro s
    have := commit_read_bak (c.backupIf true) s
    simp only [World.Conn.backupIf, if_true] at this ⊢
    rw [this]
    exact read_backup_bak _ _ _ hfile
  cases op with
  | update cfg fs failAt b =>
    simp only [World.Op.makesBackup] at hb
    subst hb
    simp only [World.step]
    cases failAt with
    | none =>
      simp only
      split <;> exact key _
    | some i => exact key _
  | delete ids b =>
    simp only [World.Op.makesBackup] at hb
    subst hb
    exact key _
  | _ => simp [World.Op.makesBackup] at hb

/-- the step reports the failure (so `backup_complete` does speak about failing steps): a source failing
at any position makes the step an error -/
theorem failing_source_is_error (residue : Session → World.Op → Session) (c : World.Conn) (cfg : Cfg)
    (fs : List Feature) (i : Nat) (b : Bool) :
    (World.step residue c (.update cfg fs (some i) b)).2.isError = true := by
  simp only [World.step]
  rfl

/-- the open file stays where it is; the session's database is what the file holds -/
def Synced (c : World.Conn) : Prop := c.world.read c.path = some c.sess.db

theorem step_path (residue : Session → World.Op → Session) (c : World.Conn) (op : World.Op) :
    (World.step residue c op).1.path = c.path := by
  cases op <;> simp only [World.step]
  case update cfg fs failAt b =>
    cases failAt with
    | none => simp only; split <;> (simp only [World.Conn.commit, World.Conn.backupIf]; split <;> rfl)
    | some i => simp only [World.Conn.commit, World.Conn.backupIf]; split <;> rfl
  case delete ids b => simp only [World.Conn.commit, World.Conn.backupIf]; split <;> rfl
  case addRelation p ch l => split <;> rfl
  case reopen =>
    split
    · rfl
    · split <;> rfl
  case get key => split <;> rfl

/-- **every step keeps session and file in step** (so a later backup copies what the session sees) -/
theorem step_synced (residue : Session → World.Op → Session) (c : World.Conn) (op : World.Op)
    (h : Synced c) : Synced (World.step residue c op).1 := by
  have key : ∀ (b : Bool) s, Synced ((c.backupIf b).commit s) := by
    intro b s
    unfold Synced World.Conn.commit
    exact read_write_self _ _ _
  cases op <;> simp only [World.step]
  case update cfg fs failAt b =>
    cases failAt with
    | none => simp only; split <;> exact key _ _
    | some i => exact key _ _
  case delete ids b => exact key _ _
  case addRelation p ch l =>
    split
    · exact read_write_self _ _ _
    · exact h
  case reopen =>
    split
    · exact h
    · rename_i db hdb
      split
      · rename_i s' hs'
        unfold Synced
        simp only
        rw [hdb, (openDb_spec _ _ _ _ hs').1]
      · exact h
  case get key => split <;> exact h
  all_goals exact h

/-- **nothing else in the world moves**: a step touches at most the open file and its `.bak`; without
`make_backup` the `.bak` file is left alone too -/
theorem step_frame (residue : Session → World.Op → Session) (c : World.Conn) (op : World.Op) (q : Str)
    (hq : q ≠ c.path) (hb : q ≠ World.bakPath c.path ∨ op.makesBackup = false) :
    (World.step residue c op).1.world.read q = c.world.read q := by
  have key : ∀ (b : Bool) s, (q ≠ World.bakPath c.path ∨ b = false) →
      ((c.backupIf b).commit s).world.read q = c.world.read q := by
    intro b s hb
    unfold World.Conn.commit
    simp only
    have hp : (c.backupIf b).path = c.path := by unfold World.Conn.backupIf; split <;> rfl
    rw [hp, read_write_ne _ _ _ _ hq]
    unfold World.Conn.backupIf
    cases b with
    | false => rfl
    | true =>
      simp only [if_true]
      rcases hb with hb | hb
      · exact read_backup_ne _ _ _ hb
      · cases hb
  cases op <;> simp only [World.step]
  case update cfg fs failAt b =>
    cases failAt with
    | none => simp only; split <;> exact key _ _ hb
    | some i => exact key _ _ hb
  case delete ids b => exact key _ _ hb
  case addRelation p ch l =>
    split
    · exact read_write_ne _ _ _ _ hq
    · rfl
  case reopen =>
    split
    · rfl
    · split <;> rfl
  case get key => split <;> rfl
  all_goals rfl

/-- **what the model says about a failed `update`** (PARTIAL by design — `failed_update_atomic_partial`
of DESIGN.md): the step is an error; the main file holds whatever the oracle says (NOT specified: the
theorem gives no information about it); no other file moves; with `make_backup` the `.bak` file is the
pre-operation file, so the pre-state is recoverable whatever happened to the main file. -/
theorem failed_update_atomic_partial (residue : Session → World.Op → Session) (c : World.Conn) (cfg : Cfg)
    (fs : List Feature) (i : Nat) (b : Bool) :
    (World.step residue c (.update cfg fs (some i) b)).2.isError = true ∧
    (World.step residue c (.update cfg fs (some i) b)).1.world.read c.path =
      some (residue c.sess (.update cfg fs (some i) b)).db ∧
    (∀ q, q ≠ c.path → q ≠ World.bakPath c.path →
      (World.step residue c (.update cfg fs (some i) b)).1.world.read q = c.world.read q) ∧
    (b = true → ∀ db0, c.world.read c.path = some db0 →
      (World.step residue c (.update cfg fs (some i) b)).1.world.read (World.bakPath c.path) = some db0) := by
  refine ⟨failing_source_is_error _ _ _ _ _ _, ?_, fun q h1 h2 => step_frame _ _ _ q h1 (Or.inl h2), ?_⟩
  · have hp : (c.backupIf b).path = c.path := by unfold World.Conn.backupIf; split <;> rfl
    simp only [World.step, World.Conn.commit]
    rw [hp]
    exact read_write_self _ _ _
  · intro hb db0 h0
    subst hb
    exact backup_complete _ _ _ db0 rfl h0

/-! ## 7. the domains are decidable (used for the non-vacuity examples) -/

def updateOkB (s : Session) (fs : List Feature) : Bool :=
  decide (s.dialect.fmt = Parser.gff3) && !fs.isEmpty && fs.all (fun f => (idOf f).isSome) &&
  decide ((fs.filterMap idOf).Nodup) &&
  (fs.filterMap idOf).all (fun id => !(s.db.features.map (·.id)).contains id)

theorem updateOkB_sound (s : Session) (fs : List Feature) (h : updateOkB s fs = true) : UpdateOk s fs := by
  simp only [updateOkB, Bool.and_eq_true, decide_eq_true_eq, Bool.not_eq_true', List.all_eq_true] at h
  obtain ⟨⟨⟨⟨h1, h2⟩, h3⟩, h4⟩, h5⟩ := h
  refine ⟨h1, ⟨?_, ?_, h4⟩, ?_⟩
  · intro e; rw [e] at h2; cases h2
  · intro f hf
    have := h3 f hf
    cases hi : idOf f with
    | none => rw [hi] at this; cases this
    | some id => exact ⟨id, rfl⟩
  · intro id hid hmem
    have := h5 id hid
    rw [List.contains_iff_mem.mpr hmem] at this
    cases this

def HOp.inDomainB (s : Session) : HOp → Bool
  | .update _ _ fs => updateOkB s fs
  | .delete _ => true
  | .addRelation p c l => s.db.hasId p && s.db.hasId c && !s.db.relations.contains ⟨p, c, l⟩
  | .reopen => !s.db.metaRows.isEmpty

def histOkB (s : Session) : List HOp → Bool
  | [] => true
  | op :: rest =>
    op.inDomainB s && (match op.apply s with
      | .ok s' => histOkB s' rest
      | .error _ => true)

theorem inDomainB_sound (s : Session) (op : HOp) (h : op.inDomainB s = true) : op.InDomain s := by
  cases op with
  | update st d fs => exact updateOkB_sound s fs h
  | delete ids => trivial
  | addRelation p c l =>
    simp only [HOp.inDomainB, Bool.and_eq_true, Bool.not_eq_true'] at h
    refine ⟨h.1.1, h.1.2, fun hm => ?_⟩
    rw [List.contains_iff_mem.mpr hm] at h
    cases h.2
  | reopen =>
    simp only [HOp.inDomainB, Bool.not_eq_true', List.isEmpty_eq_false_iff] at h
    exact h

theorem histOkB_sound (ops : List HOp) (s : Session) (h : histOkB s ops = true) : HistOk s ops := by
  induction ops generalizing s with
  | nil => trivial
  | cons op rest ih =>
    simp only [histOkB, Bool.and_eq_true] at h
    refine ⟨inDomainB_sound s op h.1, fun s' hs' => ?_⟩
    have h2 := h.2
    rw [hs'] at h2
    exact ih s' h2

/-! ## 8. non-vacuity -/

section Examples
open GffProofs.C02 (mkF ex rel)

/-- the C02 example annotation (gene g1 → mRNA m1 → exons e1, e2; e2 also names a dangling m2), imported -/
def exDb : Db := (createDb .gff (gffCfg .error Dialect.default) [] ex).toOption.getD {}
/-- the session `FeatureDB(path)` gives on it -/
def exSess : Session := { db := exDb, auto := exDb.autoinc, dialect := Dialect.default, directives := exDb.directives }

example : (openDb exDb).toOption.map (fun s => (s.auto, s.dialect, s.directives)) =
    some (exSess.auto, exSess.dialect, exSess.directives) := by decide +kernel

/-- three new lines, children before parents: an exon under the OLD mRNA, and a new gene with its mRNA -/
def newFs : List Feature :=
  [mkF "exon" "e3" 500 600 ["m1"], mkF "mRNA" "m9" 2000 3000 ["g2"], mkF "gene" "g2" 2000 3000 []]

private def ids (s : Session) : List String := s.db.features.map (fun r => String.ofList r.id)

/-- `delete_exact` on the example: deleting the mRNA removes its row and the three relations naming it; the
two level-2 rows `g1 → e*` do not name it and stay (as in gffutils) -/
example : (ids (delete exSess ["m1".toList]), (delete exSess ["m1".toList]).db.relations) =
    (["e2", "g1", "e1"], [rel "m2" "e2" 1, rel "g1" "e2" 2, rel "g1" "e1" 2]) := by decide +kernel

/-- the hypotheses of `update_gff_refines_spec` / `level2Closed_update` hold for `newFs` on the example -/
theorem ex_updateOk : UpdateOk exSess newFs := updateOkB_sound _ _ (by decide +kernel)

theorem ex_level2Closed : Level2Closed exSess.db := by
  obtain ⟨db, hdb, hc⟩ := level2Closed_createDb .error Dialect.default [] ex C02.ex_ok
  have : exSess.db = db := by
    have e : exDb = db := by unfold exDb; rw [hdb]; rfl
    have : exSess.db = exDb := rfl
    rw [this, e]
  rw [this]; exact hc

example : ∃ s', update exSess (gffCfg .merge Dialect.default) newFs = .ok s' ∧ Level2Closed s'.db :=
  level2Closed_update exSess .merge Dialect.default newFs ex_updateOk ex_level2Closed

/-- …and the model computes: the new rows at the end; `m1 → e3`, `g2 → m9` at level 1; `g1 → e3` at
level 2 (through the OLD mRNA); nothing else -/
example : (update exSess (gffCfg .error Dialect.default) newFs).toOption.map
      (fun s => (ids s, s.db.relations.drop 6, s.db.metaRows.length)) =
    some (["e2", "g1", "m1", "e1", "e3", "m9", "g2"],
          [rel "m1" "e3" 1, rel "g2" "m9" 1, rel "g1" "e3" 2], 2) := by decide +kernel

/-- a history in the domain: update, delete the old mRNA, relate the new gene to an old exon by hand,
reopen, update again with a line whose parent was deleted -/
def exHist : List HOp :=
  [.update .error Dialect.default newFs, .delete ["m1".toList], .addRelation "g2".toList "e1".toList 1, .reopen,
   .update .error Dialect.default [mkF "CDS" "c1" 100 150 ["m1", "m9"]]]

example : ∃ s', runHist exSess exHist = .ok s' ∧
    (abs s'.db).Equiv (exHist.foldl HOp.spec (abs exSess.db)) :=
  history_refines_spec exHist exSess (histOkB_sound _ _ (by decide +kernel))

/-- the final content of that history, computed by the model (3 meta rows: import + two updates) -/
example : (runHist exSess exHist).toOption.map (fun s => (ids s, s.db.relations, s.db.metaRows.length)) =
    some (["e2", "g1", "e1", "e3", "m9", "g2", "c1"],
          [rel "m2" "e2" 1, rel "g1" "e2" 2, rel "g1" "e1" 2, rel "g2" "m9" 1, rel "g1" "e3" 2, rel "g2" "e1" 1,
           rel "m1" "c1" 1, rel "m9" "c1" 1, rel "g2" "c1" 2], 3) := by decide +kernel

/-- defect D13 (repaired in the model): on a depth-4 chain A → B → C → D → E an `update` with an unrelated
line must not add `(A, D, 2)`, `(A, E, 2)`, `(B, E, 2)` — by `update_gff_levels` level 2 only ever gains
compositions of two LEVEL-1 rows; here the table is unchanged -/
private def chain : List Feature :=
  [mkF "a" "A" 1 9 [], mkF "b" "B" 1 9 ["A"], mkF "c" "C" 1 9 ["B"], mkF "d" "D" 1 9 ["C"], mkF "e" "E" 1 9 ["D"]]
private def chainDb : Db := (createDb .gff (gffCfg .error Dialect.default) [] chain).toOption.getD {}
private def chainSess : Session :=
  { db := chainDb, auto := chainDb.autoinc, dialect := Dialect.default, directives := [] }

example : UpdateOk chainSess [mkF "gene" "Z" 1 9 []] := updateOkB_sound _ _ (by decide +kernel)
example : (update chainSess (gffCfg .error Dialect.default) [mkF "gene" "Z" 1 9 []]).toOption.map
      (fun s => s.db.relations) =
    some [rel "A" "B" 1, rel "B" "C" 1, rel "C" "D" 1, rel "D" "E" 1, rel "A" "C" 2, rel "B" "D" 2, rel "C" "E" 2] := by
  decide +kernel

/-- counters: two anonymous exons on a session that has already handed out `exon_2` -/
private def anon : Feature := { ftype := "exon".toList, seqid := "chr1".toList, start := some 1, stop := some 5 }
private def cntSess : Session :=
  { exSess with auto := [("exon".toList, 2)], db := { exSess.db with autoinc := [("exon".toList, 2)] } }

example : (update cntSess { idSpec := .keys [] } [anon, anon]).toOption.map
      (fun s => (ids s, s.auto, s.db.autoinc)) =
    some (["e2", "g1", "m1", "e1", "exon_3", "exon_4"], [("exon".toList, 4)], [("exon".toList, 4)]) := by
  decide +kernel

example : CountersOk cntSess := ⟨fun _ => rfl, by decide, by decide⟩

/-- `keys_never_recycled` instantiated: `exon_3` is none of `exon_1`, `exon_2`, and after it `exon_3` is
never produced again -/
example : (incr [("exon".toList, 2)] "exon".toList).1 ≠ autoId "exon".toList 2 :=
  (keys_never_recycled _ _).1 _ 2 (by decide)

/-- `backup_complete` on a failing update: the source fails at position 1, the oracle wipes the main file,
the `.bak` file still holds the pre-operation database -/
private def exConn : World.Conn :=
  { world := { files := [("a.db".toList, exDb), ("other.db".toList, {})] }, path := "a.db".toList, sess := exSess }

example : (World.step (fun s _ => { s with db := {} }) exConn
      (.update (gffCfg .error Dialect.default) newFs (some 1) true)).1.world.read "a.db.bak".toList = some exDb :=
  backup_complete _ exConn _ exDb rfl rfl

example : (World.step (fun s _ => { s with db := {} }) exConn
      (.update (gffCfg .error Dialect.default) newFs (some 1) true)).2.isError = true :=
  failing_source_is_error _ _ _ _ _ _

end Examples

end GffProofs.C10
