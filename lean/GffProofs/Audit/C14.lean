import GffProofs.Props.C14
import GffProofs.Props.C14b
open GffProofs.C14
#print axioms classify_cases
#print axioms classify_directive_iff
#print axioms classify_feature_iff
#print axioms classify_comment_blank
#print axioms directives_eq_spec
#print axioms featureLines_eq_spec
#print axioms directives_exact
#print axioms features_exact
#print axioms features_count
#print axioms after_fasta_ignored
#print axioms skip_line_produces_nothing
#print axioms db_directives
#print axioms db_directives_current
#print axioms db_directives_current_partial
#print axioms db_directives_current_fails
#print axioms db_directives_current_full_false
#print axioms finalize_directives
#print axioms update_directives
#print axioms history_directives
#print axioms directives_survive
#print axioms directives_survive_file
