import GffProofs.Props.C12
import GffProofs.Props.C12b
import GffProofs.Gen.BinsEq
open GffProofs.C12
#print axioms binOne_isInt
#print axioms bins_out_of_range_one
#print axioms bins_out_of_range_set
#print axioms binOne_level
#print axioms binOne_contains
#print axioms binSet_mem_iff
#print axioms bin_sound_overlap
#print axioms bin_sound_within
#print axioms bed_gff
#print axioms calcBin_some_some_isInt
#print axioms calcBin_isInt
#print axioms calcBin_eq_none_iff
#print axioms calcBin_start_beyond
#print axioms calcBin_level
#print axioms mk'_bin
#print axioms feature_bin
#print axioms feature_bin_isInt
#print axioms row_bin
#print axioms row_ignores_bin
#print axioms row_bin_follows_coords
#print axioms row_bin_some
#print axioms GffProofs.Gen.bins_eq_model
#print axioms GffProofs.Gen.gen_one_isInt
#print axioms GffProofs.Gen.gen_bin_sound_overlap
#print axioms GffProofs.Gen.gen_bin_sound_within
#print axioms GffProofs.Gen.gen_out_of_range
#print axioms GffProofs.Gen.gen_calcBin
#print axioms GffProofs.Gen.gen_row_bin
