import GffProofs.Props.C12
open GffProofs.C12
#print axioms binOne_isInt
#print axioms bins_out_of_range_one
#print axioms bins_out_of_range_set
#print axioms binOne_level
#print axioms binOne_contains
#print axioms binSet_mem_iff
#print axioms bin_sound_overlap
#print axioms bin_sound_within
#print axioms bed_gff
