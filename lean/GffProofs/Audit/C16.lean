import GffProofs.Props.C16
import GffProofs.Props.C16Db
import GffProofs.Gen.CritEq
open GffProofs.C16
#print axioms merge_partition_general
#print axioms merge_partition
#print axioms merge_partition_perm
#print axioms merge_greedy
#print axioms merge_greedy_first
#print axioms merge_greedy_unchecked
#print axioms merged_span
#print axioms merged_ids_distinct
#print axioms sweep_none_spec
#print axioms merge_union
#print axioms merge_union_maximal
#print axioms merge_children_irrelevant
#print axioms merge_counter_irrelevant
#print axioms shipped_idBlind
#print axioms merge_idempotent_objects
open GffProofs.C16Db
#print axioms children_bp_sum
#print axioms children_bp_sum_error
#print axioms childRows_once
#print axioms mem_childRows
#print axioms countCovered_separated
#print axioms merge_total
#print axioms children_bp_union
#print axioms sortedRows_spec
#print axioms mergeAll_eq
#print axioms merge_all_effect
#print axioms reparentAll_untouched
#print axioms reparentAll_member
#print axioms merge_all_new_rows
#print axioms GffProofs.Gen.seqid_eq
#print axioms GffProofs.Gen.strand_eq
#print axioms GffProofs.Gen.feature_type_eq
#print axioms GffProofs.Gen.exact_coordinates_only_eq
#print axioms GffProofs.Gen.overlap_end_inclusive_eq
#print axioms GffProofs.Gen.overlap_start_inclusive_eq
#print axioms GffProofs.Gen.overlap_any_inclusive_eq
#print axioms GffProofs.Gen.overlap_end_threshold_eq
#print axioms GffProofs.Gen.overlap_start_threshold_eq
#print axioms GffProofs.Gen.overlap_any_threshold_eq
#print axioms GffProofs.Gen.defaultCriteria_eq
#print axioms GffProofs.Gen.merge_union_translated
#print axioms GffProofs.Gen.merge_partition_translated
