import GffProofs.Props.C16
open GffProofs.C16
#print axioms merge_partition_general
#print axioms merge_partition
#print axioms merge_partition_perm
#print axioms merge_greedy
#print axioms merge_greedy_first
#print axioms merge_greedy_unchecked
#print axioms merged_span
#print axioms merged_ids_distinct
#print axioms sweep_none_spec
#print axioms merge_union
#print axioms merge_union_maximal
#print axioms merge_children_irrelevant
#print axioms merge_counter_irrelevant
#print axioms shipped_idBlind
#print axioms merge_idempotent_objects
