import GffProofs.Props.C01
import GffProofs.Props.C01b
open GffProofs.C01
#print axioms wfprov_of_wf
#print axioms orderConsistent_iff
#print axioms orderConsistent_own
#print axioms provided_render
#print axioms reconstruct_keep_order
#print axioms provided_parse_render_line
#print axioms provided_print_parse_render
#print axioms provided_print_parse_render_ko
#print axioms row_roundtrip
#print axioms row_roundtrip_print
#print axioms stored_attrs_json
#print axioms import_all_once_in_order
#print axioms lookup_each
#print axioms reopen_same
#print axioms window_votes_dialect
#print axioms printed_identical
#print axioms printed_identical_of_window
#print axioms reimport_equivalent
#print axioms provided_eq_infer
#print axioms reconstruct_sort_irrelevant
#print axioms print_sort_irrelevant
#print axioms valsSorted_of_spec
#print axioms specValsSorted_of_raw
#print axioms printed_identical_sorted
#print axioms raw_sorted_not_enough
#print axioms createDb_gtf_rows
#print axioms import_all_once_in_order_gtf
#print axioms reopen_same_gtf
#print axioms printed_identical_gtf
#print axioms printed_identical_gtf_file
