import GffProofs.Props.C11
import GffProofs.Props.C11Sql
import GffProofs.Props.C11Sql2
open GffProofs.C11
#print axioms query_perm_filter
#print axioms query_unordered_in_input_order
#print axioms full_iteration_in_input_order
#print axioms sqlLe_total
#print axioms sqlLe_trans
#print axioms query_sorted
#print axioms query_sorted_single
#print axioms length_key
#print axioms count_eq_length
#print axioms count_all_eq_length
#print axioms featuretypes_exact
#print axioms seqids_exact
#print axioms GffProofs.C11Sql.lockstep_count
#print axioms GffProofs.C11Sql.lockstep
#print axioms GffProofs.C11Sql.lockstep_text
#print axioms GffProofs.C11Sql.lockstep_relation
#print axioms GffProofs.C11Sql.lockstep_region
#print axioms GffProofs.C11Sql.lockstep_general
#print axioms GffProofs.C11Sql.lockstep_count_relation
#print axioms GffProofs.C11Sql.lockstep_count_region
#print axioms GffProofs.C11Sql.makeQuery_text
#print axioms GffProofs.C11Sql.relation_text
#print axioms GffProofs.C11Sql.region_text
#print axioms GffProofs.C11Sql.count_text
#print axioms GffProofs.C11Sql.eval_makeQuery_rows
#print axioms GffProofs.C11Sql.eval_makeQuery_eq_runQuery
#print axioms GffProofs.C11Sql.eval_relation_eq_runRelation
#print axioms GffProofs.C11Sql.eval_region_eq_region
#print axioms GffProofs.C11Sql.eval_count_eq_countFeatures
#print axioms GffProofs.C11Sql.eval_featuretypes
#print axioms GffProofs.C11Sql.eval_seqids
#print axioms GffProofs.C11Sql.toQuery_defined
#print axioms GffProofs.C11Sql.regionExecutable_iff
#print axioms GffProofs.C11Sql.eval_region_rows
#print axioms GffProofs.C11Sql.eval_region_eq_regionPy
#print axioms GffProofs.C11Sql.eval_regionText_eq_regionPy
#print axioms GffProofs.C11Sql.render_is_select
#print axioms GffProofs.C11Sql.makeQuery_is_select
#print axioms GffProofs.C11Sql.makeQuery_semi_iff
#print axioms GffProofs.C11Sql.makeQuery_callers_select
#print axioms GffProofs.C11Sql.relationText_is_select
#print axioms GffProofs.C11Sql.regionText_is_select
#print axioms GffProofs.C11Sql.count_distinct_is_select
#print axioms GffProofs.C11Sql.reads_are_selects
