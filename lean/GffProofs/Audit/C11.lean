import GffProofs.Props.C11
open GffProofs.C11
#print axioms query_perm_filter
#print axioms query_unordered_in_input_order
#print axioms full_iteration_in_input_order
#print axioms sqlLe_total
#print axioms sqlLe_trans
#print axioms query_sorted
#print axioms query_sorted_single
#print axioms length_key
#print axioms count_eq_length
#print axioms count_all_eq_length
#print axioms featuretypes_exact
#print axioms seqids_exact
