import GffProofs.Props.C11
import GffProofs.Props.C11Sql
open GffProofs.C11
#print axioms query_perm_filter
#print axioms query_unordered_in_input_order
#print axioms full_iteration_in_input_order
#print axioms sqlLe_total
#print axioms sqlLe_trans
#print axioms query_sorted
#print axioms query_sorted_single
#print axioms length_key
#print axioms count_eq_length
#print axioms count_all_eq_length
#print axioms featuretypes_exact
#print axioms seqids_exact
#print axioms GffProofs.C11Sql.lockstep_count
#print axioms GffProofs.C11Sql.lockstep
#print axioms GffProofs.C11Sql.lockstep_text
#print axioms GffProofs.C11Sql.lockstep_relation
#print axioms GffProofs.C11Sql.lockstep_region
#print axioms GffProofs.C11Sql.lockstep_general
#print axioms GffProofs.C11Sql.lockstep_count_relation
#print axioms GffProofs.C11Sql.lockstep_count_region
#print axioms GffProofs.C11Sql.makeQuery_text
#print axioms GffProofs.C11Sql.relation_text
#print axioms GffProofs.C11Sql.region_text
#print axioms GffProofs.C11Sql.count_text
#print axioms GffProofs.C11Sql.eval_makeQuery_rows
#print axioms GffProofs.C11Sql.eval_makeQuery_eq_runQuery
#print axioms GffProofs.C11Sql.eval_relation_eq_runRelation
#print axioms GffProofs.C11Sql.eval_region_eq_region
#print axioms GffProofs.C11Sql.eval_count_eq_countFeatures
#print axioms GffProofs.C11Sql.eval_featuretypes
#print axioms GffProofs.C11Sql.eval_seqids
#print axioms GffProofs.C11Sql.toQuery_defined
