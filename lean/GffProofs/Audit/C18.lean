import GffProofs.Lemmas.SplitJoin
open GffProofs
#print axioms split_join
