import GffProofs.Props.C06
open GffProofs.C06
#print axioms ofFeature_bin
#print axioms insert_preserves
#print axioms delete_preserves
#print axioms replaceRow_preserves
#print axioms modifyRow_preserves
#print axioms bin_clause
#print axioms region_overlap_exact
#print axioms region_within_exact
#print axioms limit_exact
#print axioms one_sided_start
#print axioms one_sided_end
#print axioms one_sided_start_within
#print axioms one_sided_end_within
#print axioms null_coords_excluded
