import GffProofs.Props.C09
open GffProofs.C09
#print axioms vote_spec
#print axioms vote_unanimous
#print axioms choose_empty
#print axioms choose_order_nodup
#print axioms choose_order_first_seen
#print axioms choose_consistent
