import GffProofs.Props.C09
import GffProofs.Props.C09b
import GffProofs.Props.C09c
open GffProofs.C09
#print axioms vote_spec
#print axioms vote_unanimous
#print axioms choose_empty
#print axioms choose_order_nodup
#print axioms choose_order_first_seen
#print axioms choose_consistent
#print axioms supplied_verbatim
#print axioms supplied_verbatim_file
#print axioms supplied_verbatim_features
#print axioms supplied_features_carry
#print axioms supplied_file_carry
#print axioms supplied_file_dialect
#print axioms supplied_ignores_checklines
#print axioms inferred_is_vote
#print axioms routing
#print axioms lineSpec_fmt_gtf
#print axioms consistent_file_dialect
#print axioms consistent_file_fmt
#print axioms openDb_dialect_head
#print axioms openDb_inv
#print axioms createDb_tables
#print axioms update_tables
#print axioms update_reopen_dialect
#print axioms step_tables
#print axioms history_tables
#print axioms history_dialect
#print axioms update_eq_via
#print axioms history_update_branch
