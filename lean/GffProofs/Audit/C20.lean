import GffProofs.Props.C20
open GffProofs.C20
#print axioms ownership
#print axioms solo_output
#print axioms solo_finishes
#print axioms isolation
#print axioms cleanup_quiescent
#print axioms cleanup
#print axioms enabled
#print axioms fresh_exists
#print axioms progress
#print axioms finishing_schedule_exists
#print axioms fair_schedule_finishes
#print axioms roundRobin_finishes
#print axioms freshNames_ok
#print axioms roundRobin_fresh_finishes
#print axioms readers_agree
#print axioms readers_agree_pairwise
#print axioms readers_never_block
