import GffProofs.Props.C10
import GffProofs.Props.C10b
import GffProofs.Props.C10c
open GffProofs.C10
#print axioms delete_exact
#print axioms delete_mem_features
#print axioms delete_mem_relations
#print axioms delete_untouched
#print axioms delete_refines_spec
#print axioms addRelation_exact
#print axioms addRelation_refines_spec
#print axioms update_empty_noop
#print axioms update_gff_refines_spec
#print axioms update_gff_levels
#print axioms level2Closed_update
#print axioms level2Closed_createDb
#print axioms createDb_refines_spec
#print axioms update_shape
#print axioms counters_monotone
#print axioms counters_persisted
#print axioms counters_synced
#print axioms openDb_countersOk
#print axioms reopen_counters
#print axioms natToStr_injective
#print axioms autoId_inj
#print axioms keys_never_recycled
#print axioms numbering_continues
#print axioms step_refines_spec
#print axioms history_refines_spec
#print axioms history_counters
#print axioms backup_complete
#print axioms failing_source_is_error
#print axioms failed_update_atomic_partial
#print axioms step_synced
#print axioms step_frame
#print axioms histOkB_sound
-- C10b: update with colliding keys
#print axioms update_refines_spec_strategies
#print axioms update_strategies_levels
#print axioms level2Closed_update_strategies
#print axioms update_error_collision
#print axioms populate_strategies
#print axioms populateGff_rels
#print axioms update_gtf_counters_and_rows_partial
#print axioms createDb_gtf_popInv
#print axioms update_after_create_gtf
#print axioms update_gff_generic
#print axioms update_merge_refines_spec
#print axioms mergeInv_of_dec
-- C10c: GTF update with gene / transcript inference ON
#print axioms GffProofs.C10c.import_core
#print axioms GffProofs.C10c.update_gtf_exact
#print axioms GffProofs.C10c.update_keeps_stored
#print axioms GffProofs.C10c.createDb_gtfDbInv
#print axioms GffProofs.C10c.history_gtf
#print axioms GffProofs.C10c.history_transcript_extent
#print axioms GffProofs.C10c.history_gene_extent
#print axioms GffProofs.C10c.created_transcript_frozen
#print axioms GffProofs.C10c.created_gene_frozen
#print axioms GffProofs.C10c.ex44_eval
#print axioms GffProofs.C10c.update_gtf_stale
#print axioms GffProofs.C10c.onego_differs
#print axioms GffProofs.C10c.sfx_others
#print axioms GffProofs.C10c.suffix_needed
#print axioms GffProofs.C10c.update_gtf_populate_exact
