import GffProofs.Props.C04
import GffProofs.Props.C04b
open GffProofs.C04
#print axioms incr_spec
#print axioms id_first_present
#print axioms multi_valued_rejected
#print axioms id_field_spec
#print axioms id_callable_plain
#print axioms id_callable_auto
#print axioms id_callable_falsy
#print axioms id_dict_entry
#print axioms id_dict_missing
#print axioms id_default
#print axioms default_numbering
#print axioms insert_nodup
#print axioms insert_dup_rejected
#print axioms fileFeature_nodup
#print axioms populateGff_nodup
#print axioms populateGtf_nodup
#print axioms getitem_exact
#print axioms getitem_absent
#print axioms getitem_id
#print axioms default_spec_gff
#print axioms GffProofs.C04b.provFold_get?
#print axioms GffProofs.C04b.inferFold_get?
#print axioms GffProofs.C04b.splitKeyvals_flag
#print axioms provided_values
#print axioms inferred_values
#print axioms values_twice
#print axioms repeated_key_both_values
#print axioms repeated_key_two_or_more
#print axioms rejected_of_reaches
#print axioms repeated_id_line_rejected
#print axioms renderItem_repeated
#print axioms lineSpec_multi_id_provided
#print axioms lineSpec_multi_id_inferred
