import GffProofs.Props.C19
import GffProofs.Props.C11Sql2
open GffProofs.C19
#print axioms create_existing_fails_untouched
#print axioms create_existing_keeps_file
#print axioms create_force_fresh
#print axioms create_force_independent_of_old
#print axioms create_force_only_new
#print axioms reads_do_not_write
#print axioms reads_keep_files
#print axioms reopen_keeps_files
#print axioms read_history_no_write
#print axioms reopen_after_reads
#print axioms classification
#print axioms GffProofs.C11Sql.reads_are_selects
#print axioms GffProofs.C11Sql.render_is_select
