import GffProofs.Props.C13
import GffProofs.Props.C13b
open GffProofs.C13
#print axioms peek_preserves
#print axioms peek_items
#print axioms pulled_by_peek
#print axioms file_peek_window
#print axioms iterate_eq
#print axioms iterate_length_features
#print axioms forms_equivalent
#print axioms transform_once
#print axioms transform_once_run
#print axioms inspect_counts
#print axioms inspect_counts_nodup
#print axioms inspect_input
#print axioms attrField_render
#print axioms sameMapping_wf
#print axioms infer_parse_render_line
#print axioms chosen_eq
#print axioms forms_equivalent_dims
#print axioms forms_equivalent_wf
#print axioms forms_equivalent_wf_plain
#print axioms wfprov_not_enough
#print axioms supplied_dims_needed
