import GffProofs.Props.C13
open GffProofs.C13
#print axioms peek_preserves
#print axioms peek_items
#print axioms pulled_by_peek
#print axioms file_peek_window
#print axioms iterate_eq
#print axioms iterate_length_features
#print axioms forms_equivalent
#print axioms transform_once
#print axioms transform_once_run
#print axioms inspect_counts
#print axioms inspect_counts_nodup
#print axioms inspect_input
