import GffProofs.Props.C03
open GffProofs.C03
#print axioms gtf_relations_exact
#print axioms key_shape
#print axioms keyed_spec
#print axioms GffProofs.C03.GtfOk.keysNodup
#print axioms autoId_inj
#print axioms relSpec_irrefl
#print axioms relSpec_level1
#print axioms relSpec_level2
#print axioms relSpec_levels
#print axioms gtf_import_exact
#print axioms transcript_extent
#print axioms gene_extent
#print axioms disable_flags
#print axioms every_line_single
#print axioms explicit_lines_single
#print axioms relation_queries_exact
#print axioms noSuffixed_needed
