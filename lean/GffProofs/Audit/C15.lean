import GffProofs.Props.C15
import GffProofs.Props.C15Db
open GffProofs.C15
#print axioms interfeatures_exact
#print axioms interfeatures_pairs
#print axioms gapCore_some
#print axioms gapCore_none_of_touch
#print axioms gapCore_none_of_seqid
#print axioms n_minus_one
#print axioms interfeature_fields
#print axioms joinIds_ID
#print axioms mergeAttributes_keys
#print axioms mergeAttributes_sorted
#print axioms mergeAttributes_get
#print axioms mergeAttributes_mem
#print axioms sortedSet_mem
#print axioms nfeatures_one
open GffProofs.C15Db
#print axioms transcripts_spec
#print axioms transcripts_error_iff
#print axioms transcripts_grandparent
#print axioms transcripts_parent
#print axioms transcripts_stored
#print axioms exonsOf_spec
#print axioms exonsOf_eq_of_sorted
#print axioms exonsOf_starts_sorted
#print axioms createIntrons_eq
#print axioms introns_exact
#print axioms introns_error_iff
#print axioms intronsOf_geometry
#print axioms introns_geometry
#print axioms spliceType_spec
#print axioms createSpliceSites_eq
#print axioms splice_sites_exact
#print axioms splice_sites_exact_of_exon_ids
#print axioms splice_sites_count
#print axioms siteOf_geometry
#print axioms siteOf_id
#print axioms siteOf_noid
#print axioms splice_sites_indexerror
#print axioms splice_sites_nomerge
#print axioms mem_sitesOfSide
#print axioms intron_attrs_nomerge
#print axioms introns_have_id
