import GffProofs.Props.C15
open GffProofs.C15
#print axioms interfeatures_exact
#print axioms interfeatures_pairs
#print axioms gapCore_some
#print axioms gapCore_none_of_touch
#print axioms gapCore_none_of_seqid
#print axioms n_minus_one
#print axioms interfeature_fields
#print axioms joinIds_ID
#print axioms mergeAttributes_keys
#print axioms mergeAttributes_sorted
#print axioms mergeAttributes_get
#print axioms mergeAttributes_mem
#print axioms sortedSet_mem
#print axioms nfeatures_one
