import GffProofs.Props.C02
import GffProofs.Props.C02b
import GffProofs.Props.C02c
open GffProofs.C02
#print axioms import_relations_exact
#print axioms order_independent
#print axioms relation_query_exact
#print axioms parents_inverse
#print axioms not_self
-- C02b: the update path
#print axioms createDb_holds
#print axioms update_preserves_relspec
#print axioms runUpdates_preserves_relspec
#print axioms update_equiv_create
#print axioms updates_equiv_create
#print axioms graph_relation_query_exact
#print axioms updated_relation_query_exact
#print axioms updates_relation_query_exact
-- C02c: arbitrary query arguments
#print axioms relation_query_exact_q
#print axioms relation_query_sorted
#print axioms relation_query_sorted_single
#print axioms relation_query_unordered
#print axioms relation_query_order_irrelevant
#print axioms relation_query_featuretype
#print axioms relation_query_featuretype_only
#print axioms relation_query_strand
#print axioms relation_query_limit_exact
#print axioms parents_inverse_q
#print axioms parents_inverse_filtered
#print axioms graph_relation_query_exact_q
