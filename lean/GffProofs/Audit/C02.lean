import GffProofs.Props.C02
open GffProofs.C02
#print axioms import_relations_exact
#print axioms order_independent
#print axioms relation_query_exact
#print axioms parents_inverse
#print axioms not_self
