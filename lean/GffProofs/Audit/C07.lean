import GffProofs.Props.C07
open GffProofs GffProofs.C07
#print axioms split_join
#print axioms infer_render
#print axioms reconstruct_render
#print axioms print_parse_render_attrs
