import GffProofs.Props.C07
import GffProofs.Props.C07Line
open GffProofs GffProofs.C07
#print axioms split_join
#print axioms infer_render
#print axioms reconstruct_render
#print axioms print_parse_render_attrs
#print axioms parse_render_line
#print axioms print_parse_render
#print axioms nonstrict_spaces
