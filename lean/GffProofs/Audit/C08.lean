import GffProofs.Props.C08a
import GffProofs.Props.C08b
import GffProofs.Props.C08c
open GffProofs GffProofs.C08
#print axioms split_join
#print axioms unquote_quote
#print axioms split_total_infer
#print axioms split_total_provided
#print axioms split_provided_empty_sep
#print axioms reparse_print_gff3
#print axioms print_gff3_no_breaks
#print axioms reparse_print_gtf
#print axioms GffProofs.C08cAux.parseInt_intToStr
#print axioms parseCoord_coordStr
#print axioms feature_roundtrip_of_attrs
#print axioms print_gtf_no_breaks
#print axioms feature_print_reparse_gff3
#print axioms feature_print_reparse_gtf
#print axioms feature_print_reparse_no_attrs
#print axioms printReparse_columns
