import GffProofs.Props.C08a
open GffProofs GffProofs.C08
#print axioms split_join
#print axioms unquote_quote
#print axioms split_total_infer
#print axioms split_total_provided
#print axioms split_provided_empty_sep
