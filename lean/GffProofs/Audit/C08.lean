import GffProofs.Props.C08a
import GffProofs.Props.C08b
open GffProofs GffProofs.C08
#print axioms split_join
#print axioms unquote_quote
#print axioms split_total_infer
#print axioms split_total_provided
#print axioms split_provided_empty_sep
#print axioms reparse_print_gff3
#print axioms print_gff3_no_breaks
#print axioms reparse_print_gtf
