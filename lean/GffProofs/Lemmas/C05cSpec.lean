/-
  C05c, specification layer — the whole-import specification functions of C05 / C05b, generalised from
  "arrivals are features keyed by their `ID` attribute" to "arrivals are elements `a : α` with a feature
  `feat a` and a key `key a`".  They are the SAME functions: at `α := Feature`, `feat := id`, `key := keyOf`
  every one of them is (definitionally) the function of C05 / C05b (`*_keyOf` theorems below), so the GTF
  theorems of `Props/C05c.lean` speak about the very specification the GFF3 theorems speak about.

  * `firstsBy key seen as`        (C05bAux)  = `firstArrivals`: first arrival per key, in order
  * `lastBy key as k`             = `lastArrival`
  * `replacedBy feat key as r`    = `replaced`
  * `priorCountBy / uniqueIdBy / placementsBy / FreshBy` = `priorCount / uniqueId / placements / Fresh`
  * `groupKeyBy / groupRepsBy / groupOfBy / groupPlacesBy / placeRowBy / mergeRowsBy / mergeDupsBy /
    groupIdBy / mergeLinksBy / MergeDomainBy` = the grouping specification of C05b; `groupRow`, `groupText`,
    `groupAttrs` of C05b are used as they are (they do not mention keys).
-/
import GffProofs.Props.C05b

namespace GffProofs.C05
open GffModel GffModel.Create GffModel.Interface
open GffProofs.C04 (autoId incr_spec IdsNodup)
open GffProofs.C02 (idOf parentsOf gffCfg)

section spec
variable {α : Type} (feat : α → Feature) (key : α → Str)

/-- **the last arrival with key `k`** -/
def lastBy (as : List α) (k : Str) : Option α := (as.filter (fun a => key a = k)).getLast?

/-- the content of a row after a `replace` import: that of the LAST arrival with the row's id if there is one,
otherwise unchanged -/
def replacedBy (as : List α) (r : Row) : Row :=
  match lastBy key as r.id with
  | some a => storedRow (feat a) r.id
  | none => r

/-- how many holders of key `k` came before: earlier arrivals (those in `pre`) with that key, plus one if
a row with that id was already stored -/
def priorCountBy (ids0 : List Str) (pre : List α) (k : Str) : Nat :=
  (pre.filter (fun a => key a = k)).length + (if k ∈ ids0 then 1 else 0)

/-- **the id `create_unique` gives an arrival with key `k` that comes after the arrivals `pre`**: `k` itself
if nobody held `k` before, otherwise `k_<c+j>` where `c` is the initial counter of `k` and `j` the number
of earlier holders -/
def uniqueIdBy (ids0 : List Str) (auto0 : Dict Nat) (pre : List α) (k : Str) : Str :=
  if priorCountBy key ids0 pre k = 0 then k else autoId k ((auto0.get? k).getD 0 + priorCountBy key ids0 pre k)

/-- every arrival with the id it is given; `pre` = the arrivals before `rest` -/
def placementsBy (ids0 : List Str) (auto0 : Dict Nat) : List α → List α → List (α × Str)
  | _, [] => []
  | pre, a :: rest => (a, uniqueIdBy key ids0 auto0 pre (key a)) :: placementsBy ids0 auto0 (pre ++ [a]) rest

/-- **domain condition for `create_unique`**: a generated id beyond the current counter is neither stored
already nor the key of an arrival -/
def FreshBy (ids0 : List Str) (auto0 : Dict Nat) (as : List α) : Prop :=
  ∀ a ∈ as, ∀ n, (auto0.get? (key a)).getD 0 < n →
    autoId (key a) n ∉ ids0 ∧ ∀ b ∈ as, key b ≠ autoId (key a) n

/-- **what arrivals are grouped by** under `merge`: the key and the text of every compared column -/
def groupKeyBy (fmf : List Str) (a : α) : Str × List Str := (key a, (checkCols fmf).map (colText (feat a)))

/-- **the first arrival of every group, in order of arrival** -/
def groupRepsBy (fmf : List Str) (as : List α) : List α := firstsBy (groupKeyBy feat key fmf) [] as

/-- **the arrivals of the group of `r`, in order of arrival** -/
def groupOfBy (fmf : List Str) (as : List α) (r : α) : List α :=
  as.filter (fun g => groupKeyBy feat key fmf g = groupKeyBy feat key fmf r)

/-- **every group (its first arrival) with the id it is stored under**: the first group of a key under the
key, its `j`-th later group under `key_j`, in order of first arrival -/
def groupPlacesBy (fmf : List Str) (as : List α) : List (α × Str) :=
  placementsBy key [] [] [] (groupRepsBy feat key fmf as)

/-- the row stored for the placed group `p` when the arrivals so far are `pre`: `groupRow` (C05b) of the
features of the group -/
def placeRowBy (fmf : List Str) (pre : List α) (p : α × Str) : Row :=
  groupRow fmf ((groupOfBy feat key fmf pre p.1).map feat) (feat p.1) p.2

/-- **the `features` table after a `merge` import**: one row per group, in order of the groups' first arrivals -/
def mergeRowsBy (fmf : List Str) (as : List α) : List Row :=
  (groupPlacesBy feat key fmf as).map (placeRowBy feat key fmf as)

/-- **the `duplicates` record**: `(key, key_j)` for every later group, in order -/
def mergeDupsBy (fmf : List Str) (as : List α) : List (Str × Str) :=
  ((groupPlacesBy feat key fmf as).filter (fun p => p.2 ≠ key p.1)).map (fun p => (key p.1, p.2))

/-- the id the group of arrival `a` is stored under -/
def groupIdBy (fmf : List Str) (as : List α) (a : α) : Str :=
  (((groupPlacesBy feat key fmf as).find?
      (fun p => groupKeyBy feat key fmf p.1 = groupKeyBy feat key fmf a)).map (·.2)).getD []

/-- **the relation rows added**: every arrival's links (`link a fid` = the links of `a` when filed under `fid`),
attached to the id of its group -/
def mergeLinksBy (link : α → Str → List Rel) (fmf : List Str) (as : List α) : List Rel :=
  as.flatMap (fun a => link a (groupIdBy feat key fmf as a))

/-- **domain of the `merge` theorem**: no key has the shape `<key'>_<n>` of a generated id (`FreshBy`); no
column text contains a tab (true of anything read from a tab-separated line) -/
structure MergeDomainBy (as : List α) : Prop where
  fresh : FreshBy key [] [] as
  noTab : ∀ a ∈ as, ∀ k ∈ gffCols, '\t' ∉ colText (feat a) k

end spec

/-! ### these ARE the specification functions of C05 / C05b -/

theorem firstArrivals_keyOf (seen : List Str) (fs : List Feature) : firstArrivals seen fs = firstsBy keyOf seen fs := by
  induction fs generalizing seen with
  | nil => rfl
  | cons f fs ih =>
    simp only [firstArrivals, firstsBy, ih]
    by_cases h : keyOf f ∈ seen
    · rw [if_pos h, if_pos h]
    · rw [if_neg h, if_neg h]

theorem lastArrival_keyOf : lastArrival = lastBy keyOf := rfl
theorem replaced_keyOf : replaced = replacedBy id keyOf := by
  funext fs r
  unfold replaced replacedBy
  rw [lastArrival_keyOf]
  cases lastBy keyOf fs r.id <;> rfl
theorem priorCount_keyOf : priorCount = priorCountBy keyOf := rfl
theorem uniqueId_keyOf : uniqueId = uniqueIdBy keyOf := rfl
theorem Fresh_keyOf : Fresh = FreshBy keyOf := rfl

theorem placements_keyOf (ids0 : List Str) (auto0 : Dict Nat) (pre rest : List Feature) :
    placements ids0 auto0 pre rest = placementsBy keyOf ids0 auto0 pre rest := by
  induction rest generalizing pre with
  | nil => rfl
  | cons f rest ih => simp only [placements, placementsBy, ih]; rfl

theorem groupKey_keyOf : groupKey = groupKeyBy id keyOf := rfl
theorem groupReps_keyOf : groupReps = groupRepsBy id keyOf := rfl
theorem groupOf_keyOf : groupOf = groupOfBy id keyOf := rfl

theorem groupPlaces_keyOf (fmf : List Str) (fs : List Feature) : groupPlaces fmf fs = groupPlacesBy id keyOf fmf fs :=
  placements_keyOf _ _ _ _

theorem mergeRows_keyOf (fmf : List Str) (fs : List Feature) : mergeRows fmf fs = mergeRowsBy id keyOf fmf fs := by
  unfold mergeRows mergeRowsBy
  rw [groupPlaces_keyOf]
  apply List.map_congr_left
  intro p _
  simp only [placeRowBy, List.map_id_fun, id_eq, groupOf_keyOf]

theorem mergeDups_keyOf (fmf : List Str) (fs : List Feature) : mergeDups fmf fs = mergeDupsBy id keyOf fmf fs := by
  unfold mergeDups mergeDupsBy
  rw [groupPlaces_keyOf]

theorem groupId_keyOf (fmf : List Str) (fs : List Feature) (f : Feature) :
    groupId fmf fs f = groupIdBy id keyOf fmf fs f := by
  unfold groupId groupIdBy
  rw [groupPlaces_keyOf]; rfl

theorem mergeLinks_keyOf (fmf : List Str) (fs : List Feature) :
    mergeLinks fmf fs = mergeLinksBy id keyOf linksOf fmf fs := by
  unfold mergeLinks mergeLinksBy
  simp only [groupId_keyOf]

theorem MergeDomain_keyOf (fs : List Feature) : MergeDomain fs ↔ Keyed fs ∧ MergeDomainBy id keyOf fs :=
  ⟨fun h => ⟨h.keyed, ⟨h.fresh, h.noTab⟩⟩, fun h => ⟨h.1, h.2.fresh, h.2.noTab⟩⟩

end GffProofs.C05
