/-
  Helper lemmas for C01c: `_id_handler` against its counter-free verdict `kindOf`, the counting functions,
  and the importer fold under `create_unique` / without collisions for an arbitrary `id_spec`, stated for
  any per-line step of the shape "id handler; file the feature; attach relations" (both importers).
-/
import GffProofs.Props.C01cSpec
import GffProofs.Props.C01b
import GffProofs.Props.C05
import GffProofs.Lemmas.C10Aux
import GffProofs.Lemmas.C03Aux2

namespace GffProofs.C01c
open GffModel GffModel.Create GffModel.Interface
open GffProofs.C04 (autoId incr_spec Dict.get?_set_self Dict.get?_set_ne)
open GffProofs.C05 (SameButRels attachParents attachGtf fresh_stored create_unique_all hasId_iff hasId_false_iff
  nextId bump addRow autoId_inj foldlM_cons_ok)

/-! ### `_id_handler` = the verdict -/

/-- how `_id_handler` finishes after the `for` loop -/
def finish (auto : Dict Nat) (f : Feature) (r : Py (Option (Str × Dict Nat))) : Py (Str × Dict Nat) :=
  match r with
  | .error e => .error e
  | .ok (some r) => .ok r
  | .ok none => .ok (incr auto f.ftype)

/-- the result the verdict stands for -/
def realize (auto : Dict Nat) : KeyKind → Py (Str × Dict Nat)
  | .fixed k => .ok (k, auto)
  | .auto x => .ok (incr auto x)
  | .rejected e => .error e

theorem tryKeys_kind (auto : Dict Nat) (f : Feature) (ks : List KeySpec) :
    finish auto f (tryKeys auto f ks) = realize auto (kindOfKeys f ks) := by
  induction ks with
  | nil => rfl
  | cons k rest ih =>
    cases k with
    | call g =>
      simp only [tryKeys, kindOfKeys]
      cases hg : g f with
      | none => exact ih
      | some id =>
        simp only
        by_cases he : id = []
        · subst he; simpa using ih
        · have he' : id.isEmpty = false := by cases id <;> simp_all
          rw [if_neg he]
          simp only [he', Bool.false_eq_true, if_false]
          by_cases hp : autoPrefix <+: id
          · have : Str.startsWith id autoPrefix = true := by
              unfold Str.startsWith; exact List.isPrefixOf_iff_prefix.mpr hp
            rw [if_pos hp, if_pos this, C04.autoPrefix_length]; rfl
          · have : ¬ Str.startsWith id autoPrefix = true := by
              unfold Str.startsWith; rw [List.isPrefixOf_iff_prefix]; exact hp
            rw [if_neg hp, if_neg this]; rfl
    | attr k =>
      simp only [tryKeys, kindOfKeys]
      by_cases hf : isFieldSpec k = true
      · rw [if_pos hf, if_pos hf]
        cases fieldOf f ((k.drop 1).dropLast) <;> rfl
      · rw [if_neg hf, if_neg hf]
        cases hg : f.attrs.get? k with
        | none => exact ih
        | some vs =>
          cases vs with
          | nil => simpa using ih
          | cons v vs =>
            cases vs with
            | nil => simp [finish, realize]
            | cons w vs => simp [finish, realize]

/-- **`_id_handler` is the verdict of `id_spec` realised on the counters**: an explicit key leaves the
counters alone, an auto-increment verdict hands out the next number of its base, a rejection raises -/
theorem idHandler_kind (spec : IdSpec) (auto : Dict Nat) (f : Feature) :
    idHandler spec auto f = realize auto (kindOf spec f) := by
  have hgen : ∀ ks? : Option (List KeySpec),
      (match ks? with
        | none => (pure (incr auto f.ftype) : Py (Str × Dict Nat))
        | some ks => do
          match ← tryKeys auto f ks with
          | some r => pure r
          | none => pure (incr auto f.ftype)) =
      realize auto (match ks? with | some ks => kindOfKeys f ks | none => .auto f.ftype) := by
    intro ks?
    cases ks? with
    | none => rfl
    | some ks =>
      simp only
      rw [← tryKeys_kind]
      cases tryKeys auto f ks with
      | error e => rfl
      | ok r => cases r <;> rfl
  have := hgen (keysFor spec f)
  unfold idHandler kindOf
  cases spec <;> exact this

/-! ### counting -/

theorem fixedCount_snoc (spec : IdSpec) (pre : List Feature) (f : Feature) (k : Str) :
    fixedCount spec (pre ++ [f]) k = fixedCount spec pre k + (if kindOf spec f = .fixed k then 1 else 0) := by
  unfold fixedCount
  rw [List.filter_append, List.length_append]
  by_cases h : kindOf spec f = .fixed k <;> simp [h]

theorem autoCount_snoc (spec : IdSpec) (pre : List Feature) (f : Feature) (x : Str) :
    autoCount spec (pre ++ [f]) x = autoCount spec pre x + (if kindOf spec f = .auto x then 1 else 0) := by
  unfold autoCount
  rw [List.filter_append, List.length_append]
  by_cases h : kindOf spec f = .auto x <;> simp [h]

theorem fixedCount_pos (spec : IdSpec) (pre : List Feature) (k : Str) :
    fixedCount spec pre k ≠ 0 ↔ ∃ g ∈ pre, kindOf spec g = .fixed k := by
  unfold fixedCount
  rw [Ne, List.length_eq_zero_iff, List.filter_eq_nil_iff]
  simp

theorem counterAfter_snoc_auto (spec : IdSpec) (pre : List Feature) (f : Feature) (x y : Str)
    (h : kindOf spec f = .auto x) :
    counterAfter spec (pre ++ [f]) y = counterAfter spec pre y + (if y = x then 1 else 0) := by
  unfold counterAfter
  rw [autoCount_snoc, fixedCount_snoc, h]
  by_cases hy : y = x
  · subst hy; simp; omega
  · have : ¬ x = y := fun e => hy e.symm
    simp [hy, this]

theorem counterAfter_snoc_first (spec : IdSpec) (pre : List Feature) (f : Feature) (k y : Str)
    (h : kindOf spec f = .fixed k) (h0 : fixedCount spec pre k = 0) :
    counterAfter spec (pre ++ [f]) y = counterAfter spec pre y := by
  unfold counterAfter
  rw [autoCount_snoc, fixedCount_snoc, h]
  by_cases hy : y = k
  · subst hy; simp [h0]
  · have : ¬ k = y := fun e => hy e.symm
    simp [this]

theorem counterAfter_snoc_later (spec : IdSpec) (pre : List Feature) (f : Feature) (k y : Str)
    (h : kindOf spec f = .fixed k) (h0 : fixedCount spec pre k ≠ 0) :
    counterAfter spec (pre ++ [f]) y = counterAfter spec pre y + (if y = k then 1 else 0) := by
  unfold counterAfter
  rw [autoCount_snoc, fixedCount_snoc, h]
  by_cases hy : y = k
  · subst hy; simp; omega
  · have : ¬ k = y := fun e => hy e.symm
    simp [hy, this]

theorem counterAfter_mono (spec : IdSpec) (pre : List Feature) (f : Feature) (y : Str) :
    counterAfter spec pre y ≤ counterAfter spec (pre ++ [f]) y := by
  unfold counterAfter
  rw [autoCount_snoc, fixedCount_snoc]
  split <;> split <;> omega

/-! ### `placementsFrom` -/

theorem placementsFrom_append (spec : IdSpec) (pre a b : List Feature) :
    placementsFrom spec pre (a ++ b) = placementsFrom spec pre a ++ placementsFrom spec (pre ++ a) b := by
  induction a generalizing pre with
  | nil => simp [placementsFrom]
  | cons x a ih =>
    simp only [List.cons_append, placementsFrom, ih, List.append_assoc, List.nil_append]

theorem placementsFrom_snoc (spec : IdSpec) (pre a : List Feature) (f : Feature) :
    placementsFrom spec pre (a ++ [f]) = placementsFrom spec pre a ++ [(f, keyAt spec (pre ++ a) f)] := by
  rw [placementsFrom_append]; rfl

theorem placementsFrom_fst (spec : IdSpec) (pre rest : List Feature) :
    (placementsFrom spec pre rest).map (·.1) = rest := by
  induction rest generalizing pre with
  | nil => rfl
  | cons f rest ih => simp [placementsFrom, ih]

theorem placementsFrom_getElem? (spec : IdSpec) (pre rest : List Feature) (i : Nat) :
    (placementsFrom spec pre rest)[i]? = (rest[i]?).map (fun f => (f, keyAt spec (pre ++ rest.take i) f)) := by
  induction rest generalizing pre i with
  | nil => simp [placementsFrom]
  | cons f rest ih =>
    cases i with
    | zero => simp [placementsFrom]
    | succ i =>
      simp only [placementsFrom, List.getElem?_cons_succ, List.take_succ_cons]
      rw [ih]; simp

theorem plainPlacementsFrom_append (spec : IdSpec) (pre a b : List Feature) :
    plainPlacementsFrom spec pre (a ++ b) =
      plainPlacementsFrom spec pre a ++ plainPlacementsFrom spec (pre ++ a) b := by
  induction a generalizing pre with
  | nil => simp [plainPlacementsFrom]
  | cons x a ih =>
    simp only [List.cons_append, plainPlacementsFrom, ih, List.append_assoc, List.nil_append]

theorem plainPlacementsFrom_fst (spec : IdSpec) (pre rest : List Feature) :
    (plainPlacementsFrom spec pre rest).map (·.1) = rest := by
  induction rest generalizing pre with
  | nil => rfl
  | cons f rest ih => simp [plainPlacementsFrom, ih]

theorem plainPlacementsFrom_getElem? (spec : IdSpec) (pre rest : List Feature) (i : Nat) :
    (plainPlacementsFrom spec pre rest)[i]? =
      (rest[i]?).map (fun f => (f, plainKeyAt spec (pre ++ rest.take i) f)) := by
  induction rest generalizing pre i with
  | nil => simp [plainPlacementsFrom]
  | cons f rest ih =>
    cases i with
    | zero => simp [plainPlacementsFrom]
    | succ i =>
      simp only [plainPlacementsFrom, List.getElem?_cons_succ, List.take_succ_cons]
      rw [ih]; simp

/-! ### the per-line step of both importers -/

/-- a per-line step of the shape "id handler; file the feature; attach relations" -/
structure StepLike (cfg : Cfg) (step : Db × Dict Nat → Feature → Py (Db × Dict Nat))
    (attach : Db → Option Str → Feature → Db) : Prop where
  eq : ∀ db auto auto1 f id, idHandler cfg.idSpec auto f = .ok (id, auto1) →
    step (db, auto) f =
      match fileFeature cfg db auto1 f id with
      | .error e => .error e
      | .ok (db1, auto2, filed) => .ok (attach db1 filed f, auto2)
  same : ∀ db filed f, SameButRels db (attach db filed f)

theorem stepLike_gff (cfg : Cfg) : StepLike cfg (gffStep cfg) attachParents :=
  ⟨fun db auto auto1 f id h => C05.gffStep_eq cfg db auto auto1 f id h, C05.attachParents_same⟩

theorem stepLike_gtf (cfg : Cfg) : StepLike cfg (gtfStep cfg) (attachGtf cfg) :=
  ⟨fun db auto auto1 f id h => C05.gtfStep_eq cfg db auto auto1 f id h, C05.attachGtf_same cfg⟩

theorem storedRow_eq (f : Feature) (k : Str) : C05.storedRow f k = C01.rowOf f k := rfl

/-- a step whose key is free: the line is appended under it, whatever the strategy -/
theorem step_fresh {cfg : Cfg} {step attach} (hS : StepLike cfg step attach) (db : Db) (auto auto1 : Dict Nat)
    (f : Feature) (id : Str) (hid : idHandler cfg.idSpec auto f = .ok (id, auto1))
    (hfree : id ∉ db.features.map (·.id)) :
    ∃ db', step (db, auto) f = .ok (db', auto1) ∧ db'.features = db.features ++ [C01.rowOf f id] ∧
      db'.metaRows = db.metaRows ∧ db'.directives = db.directives ∧ db'.autoinc = db.autoinc ∧
      db'.duplicates = db.duplicates := by
  have h := hS.eq db auto auto1 f id hid
  rw [fresh_stored cfg db auto1 f id ((hasId_false_iff db id).mpr hfree)] at h
  obtain ⟨s1, s2, s3, s4, s5⟩ := hS.same (addRow db (C05.storedRow f id)) (some id) f
  exact ⟨_, h, s1, s2, s3, s4, s5⟩

/-- a `create_unique` step whose key is taken while the generated key is free -/
theorem step_unique {cfg : Cfg} {step attach} (hS : StepLike cfg step attach) (hst : cfg.strategy = .createUnique)
    (db : Db) (auto auto1 : Dict Nat)
    (f : Feature) (id : Str) (hid : idHandler cfg.idSpec auto f = .ok (id, auto1))
    (htaken : id ∈ db.features.map (·.id)) (hfree : nextId auto1 id ∉ db.features.map (·.id)) :
    ∃ db', step (db, auto) f = .ok (db', bump auto1 id) ∧
      db'.features = db.features ++ [C01.rowOf f (nextId auto1 id)] ∧
      db'.metaRows = db.metaRows ∧ db'.directives = db.directives ∧ db'.autoinc = db.autoinc ∧
      db'.duplicates = db.duplicates := by
  have h := hS.eq db auto auto1 f id hid
  rw [(create_unique_all cfg db auto1 f id hst ((hasId_iff db id).mpr htaken)).1
    ((hasId_false_iff db _).mpr hfree)] at h
  obtain ⟨s1, s2, s3, s4, s5⟩ := hS.same (addRow db (C05.storedRow f (nextId auto1 id))) (some (nextId auto1 id)) f
  exact ⟨_, h, s1, s2, s3, s4, s5⟩

/-! ### `create_unique`: the invariant of the fold -/

/-- the importer state after the lines `pre` of the file `fs` -/
structure Inv (spec : IdSpec) (fs pre : List Feature) (db : Db) (auto : Dict Nat) : Prop where
  feats : db.features = (placementsFrom spec [] pre).map (fun p => C01.rowOf p.1 p.2)
  cnt : ∀ y, (auto.get? y).getD 0 = counterAfter spec pre y
  autoNodup : (Dict.keys auto).Nodup
  ids1 : ∀ id ∈ db.features.map (·.id), (∃ g ∈ pre, kindOf spec g = .fixed id) ∨
    ∃ y m, id = autoId y m ∧ m ≤ counterAfter spec pre y ∧ IsBase spec fs y
  ids2 : ∀ g ∈ pre, ∀ k, kindOf spec g = .fixed k → k ∈ db.features.map (·.id)
  side : db.metaRows = [] ∧ db.directives = [] ∧ db.autoinc = [] ∧ db.duplicates = []

theorem inv_empty (spec : IdSpec) (fs : List Feature) : Inv spec fs [] {} [] where
  feats := rfl
  cnt := fun y => by simp [Dict.get?, counterAfter, autoCount, fixedCount]
  autoNodup := by simp [Dict.keys]
  ids1 := by intro id h; simp at h
  ids2 := by intro g h; simp at h
  side := ⟨rfl, rfl, rfl, rfl⟩

/-- extending the invariant by one stored line -/
theorem inv_extend {spec : IdSpec} {fs pre : List Feature} {db db' : Db} {auto auto' : Dict Nat} {f : Feature}
    {key : Str} (inv : Inv spec fs pre db auto)
    (hkey : keyAt spec pre f = key)
    (hf : db'.features = db.features ++ [C01.rowOf f key])
    (hside : db'.metaRows = db.metaRows ∧ db'.directives = db.directives ∧ db'.autoinc = db.autoinc ∧
      db'.duplicates = db.duplicates)
    (hcnt : ∀ y, (auto'.get? y).getD 0 = counterAfter spec (pre ++ [f]) y)
    (hnd : (Dict.keys auto').Nodup)
    (hnew : (∃ g ∈ pre ++ [f], kindOf spec g = .fixed key) ∨
      ∃ y m, key = autoId y m ∧ m ≤ counterAfter spec (pre ++ [f]) y ∧ IsBase spec fs y)
    (hfix : ∀ k, kindOf spec f = .fixed k → k = key ∨ k ∈ db.features.map (·.id)) :
    Inv spec fs (pre ++ [f]) db' auto' where
  feats := by
    rw [hf, inv.feats, placementsFrom_snoc, List.map_append, List.nil_append, hkey]; rfl
  cnt := hcnt
  autoNodup := hnd
  ids1 := by
    intro id hid
    rw [hf, List.map_append, List.mem_append] at hid
    rcases hid with hid | hid
    · rcases inv.ids1 id hid with ⟨g, hg, hk⟩ | ⟨y, m, e, hm, hb⟩
      · exact Or.inl ⟨g, List.mem_append_left _ hg, hk⟩
      · exact Or.inr ⟨y, m, e, Nat.le_trans hm (counterAfter_mono spec pre f y), hb⟩
    · simp only [List.map_cons, List.map_nil, List.mem_singleton] at hid
      have : id = key := hid
      subst this; exact hnew
  ids2 := by
    intro g hg k hk
    rw [hf, List.map_append, List.mem_append]
    rcases List.mem_append.mp hg with hg | hg
    · exact Or.inl (inv.ids2 g hg k hk)
    · simp only [List.mem_singleton] at hg
      subst hg
      rcases hfix k hk with e | e
      · right; subst e; simp [C01.rowOf]
      · exact Or.inl e
  side := by
    obtain ⟨a, b, c, d⟩ := hside
    obtain ⟨a', b', c', d'⟩ := inv.side
    exact ⟨a.trans a', b.trans b', c.trans c', d.trans d'⟩

theorem get?_set_getD (auto : Dict Nat) (x y : Str) (n : Nat) :
    ((Dict.set auto x n).get? y).getD 0 = if y = x then n else (auto.get? y).getD 0 := by
  by_cases h : y = x
  · subst h; rw [Dict.get?_set_self, if_pos rfl]; rfl
  · rw [Dict.get?_set_ne _ _ _ _ h, if_neg h]

/-- **one line under `create_unique`, any `id_spec`** -/
theorem step_inv {cfg : Cfg} {step attach} (hS : StepLike cfg step attach) (hst : cfg.strategy = .createUnique)
    (fs pre : List Feature) (f : Feature) (post : List Feature) (hfs : fs = pre ++ f :: post)
    (hacc : Accepted cfg.idSpec f) (hnc : NoClash cfg.idSpec fs)
    (db : Db) (auto : Dict Nat) (inv : Inv cfg.idSpec fs pre db auto) :
    ∃ db' auto', step (db, auto) f = .ok (db', auto') ∧ Inv cfg.idSpec fs (pre ++ [f]) db' auto' := by
  have hfmem : f ∈ fs := by rw [hfs]; simp
  have hpre : ∀ g ∈ pre, g ∈ fs := fun g hg => by rw [hfs]; simp [hg]
  have hidk := idHandler_kind cfg.idSpec auto f
  cases hk : kindOf cfg.idSpec f with
  | rejected e => exact absurd hk (hacc e)
  | auto x =>
    rw [hk] at hidk
    simp only [realize, incr_spec] at hidk
    have hc := inv.cnt x
    have hbase : IsBase cfg.idSpec fs x := ⟨f, hfmem, Or.inr hk⟩
    have hfree : autoId x ((auto.get? x).getD 0 + 1) ∉ db.features.map (·.id) := by
      intro hm
      rcases inv.ids1 _ hm with ⟨g, hg, hgk⟩ | ⟨y, m, e, hm', _⟩
      · exact hnc g (hpre g hg) _ hgk x hbase _ rfl
      · obtain ⟨rfl, rfl⟩ := autoId_inj _ _ _ _ e
        omega
    obtain ⟨db', hstep, hf', hs'⟩ := step_fresh hS db auto _ f _ hidk hfree
    refine ⟨db', _, hstep, inv_extend inv ?_ hf' hs' ?_ (C10.keys_set_nodup _ _ _ inv.autoNodup) ?_ ?_⟩
    · unfold keyAt; rw [hk]; simp only; rw [← hc]
    · intro y
      rw [get?_set_getD, counterAfter_snoc_auto _ _ _ x y hk, ← inv.cnt y]
      by_cases hy : y = x
      · subst hy; simp
      · simp [hy]
    · refine Or.inr ⟨x, _, rfl, ?_, hbase⟩
      rw [counterAfter_snoc_auto _ _ _ x x hk, ← hc]; simp
    · intro k hk'; rw [hk] at hk'; cases hk'
  | fixed k =>
    rw [hk] at hidk
    simp only [realize] at hidk
    have hbase : IsBase cfg.idSpec fs k := ⟨f, hfmem, Or.inl hk⟩
    by_cases h0 : fixedCount cfg.idSpec pre k = 0
    · -- the first line carrying `k`
      have hfree : k ∉ db.features.map (·.id) := by
        intro hm
        rcases inv.ids1 _ hm with ⟨g, hg, hgk⟩ | ⟨y, m, e, _, hb⟩
        · exact (fixedCount_pos _ _ _).mpr ⟨g, hg, hgk⟩ h0
        · exact hnc f hfmem k hk y hb m e
      obtain ⟨db', hstep, hf', hs'⟩ := step_fresh hS db auto _ f _ hidk hfree
      refine ⟨db', _, hstep, inv_extend inv ?_ hf' hs' ?_ inv.autoNodup ?_ ?_⟩
      · unfold keyAt; rw [hk]; simp only; rw [if_pos h0]
      · intro y; rw [counterAfter_snoc_first _ _ _ k y hk h0]; exact inv.cnt y
      · exact Or.inl ⟨f, by simp, hk⟩
      · intro k' hk'; rw [hk] at hk'; cases hk'; exact Or.inl rfl
    · -- a later carrier of `k`
      obtain ⟨g0, hg0, hg0k⟩ := (fixedCount_pos _ _ _).mp h0
      have htaken : k ∈ db.features.map (·.id) := inv.ids2 g0 hg0 k hg0k
      have hc := inv.cnt k
      have hfree : nextId auto k ∉ db.features.map (·.id) := by
        intro hm
        unfold nextId at hm
        rcases inv.ids1 _ hm with ⟨g, hg, hgk⟩ | ⟨y, m, e, hm', _⟩
        · exact hnc g (hpre g hg) _ hgk k hbase _ rfl
        · obtain ⟨rfl, rfl⟩ := autoId_inj _ _ _ _ e
          omega
      obtain ⟨db', hstep, hf', hs'⟩ := step_unique hS hst db auto _ f _ hidk htaken hfree
      refine ⟨db', _, hstep, inv_extend inv ?_ hf' hs' ?_ (C10.keys_set_nodup _ _ _ inv.autoNodup) ?_ ?_⟩
      · unfold keyAt nextId; rw [hk]; simp only; rw [if_neg h0, ← hc]
      · intro y
        unfold bump
        rw [get?_set_getD, counterAfter_snoc_later _ _ _ k y hk h0, ← inv.cnt y]
        by_cases hy : y = k
        · subst hy; simp
        · simp [hy]
      · refine Or.inr ⟨k, _, rfl, ?_, hbase⟩
        rw [counterAfter_snoc_later _ _ _ k k hk h0, ← hc]; simp
      · intro k' hk'; rw [hk] at hk'; cases hk'; exact Or.inr htaken

/-- **the whole fold under `create_unique`** -/
theorem fold_inv {cfg : Cfg} {step attach} (hS : StepLike cfg step attach) (hst : cfg.strategy = .createUnique)
    (fs : List Feature) (hacc : ∀ f ∈ fs, Accepted cfg.idSpec f) (hnc : NoClash cfg.idSpec fs)
    (post : List Feature) : ∀ (pre : List Feature) (db : Db) (auto : Dict Nat), fs = pre ++ post →
      Inv cfg.idSpec fs pre db auto →
      ∃ db' auto', post.foldlM step (db, auto) = .ok (db', auto') ∧ Inv cfg.idSpec fs fs db' auto' := by
  induction post with
  | nil =>
    intro pre db auto hfs inv
    rw [List.append_nil] at hfs; subst hfs
    exact ⟨db, auto, rfl, inv⟩
  | cons f post ih =>
    intro pre db auto hfs inv
    obtain ⟨db1, auto1, h1, inv1⟩ :=
      step_inv hS hst fs pre f post hfs (hacc f (by rw [hfs]; simp)) hnc db auto inv
    obtain ⟨db2, auto2, h2, inv2⟩ := ih (pre ++ [f]) db1 auto1 (by simpa using hfs) inv1
    exact ⟨db2, auto2, by rw [foldlM_cons_ok _ _ _ _ _ h1]; exact h2, inv2⟩

/-! ### no collision: every strategy -/

/-- the importer state after the lines `pre` when no key is asked for twice -/
structure PlainInv (spec : IdSpec) (pre : List Feature) (db : Db) (auto : Dict Nat) : Prop where
  feats : db.features = (plainPlacementsFrom spec [] pre).map (fun p => C01.rowOf p.1 p.2)
  cnt : ∀ y, (auto.get? y).getD 0 = autoCount spec pre y
  autoNodup : (Dict.keys auto).Nodup
  side : db.metaRows = [] ∧ db.directives = [] ∧ db.autoinc = [] ∧ db.duplicates = []

theorem plainInv_empty (spec : IdSpec) : PlainInv spec [] {} [] where
  feats := rfl
  cnt := fun y => by simp [Dict.get?, autoCount]
  autoNodup := by simp [Dict.keys]
  side := ⟨rfl, rfl, rfl, rfl⟩

theorem plain_step_inv {cfg : Cfg} {step attach} (hS : StepLike cfg step attach)
    (fs pre : List Feature) (f : Feature) (post : List Feature) (hfs : fs = pre ++ f :: post)
    (hacc : Accepted cfg.idSpec f) (hnd : ((plainPlacements cfg.idSpec fs).map (·.2)).Nodup)
    (db : Db) (auto : Dict Nat) (inv : PlainInv cfg.idSpec pre db auto) :
    ∃ db' auto', step (db, auto) f = .ok (db', auto') ∧ PlainInv cfg.idSpec (pre ++ [f]) db' auto' := by
  have hfree : plainKeyAt cfg.idSpec pre f ∉ db.features.map (·.id) := by
    unfold plainPlacements at hnd
    rw [hfs, plainPlacementsFrom_append, List.nil_append, List.map_append, List.nodup_append] at hnd
    intro hm
    rw [inv.feats, List.map_map] at hm
    obtain ⟨p, hp, hpe⟩ := List.mem_map.mp hm
    refine hnd.2.2 p.2 (List.mem_map.mpr ⟨p, hp, rfl⟩) (plainKeyAt cfg.idSpec pre f) ?_ hpe
    simp [plainPlacementsFrom]
  have hidk := idHandler_kind cfg.idSpec auto f
  have hsnoc : plainPlacementsFrom cfg.idSpec [] (pre ++ [f]) =
      plainPlacementsFrom cfg.idSpec [] pre ++ [(f, plainKeyAt cfg.idSpec pre f)] := by
    rw [plainPlacementsFrom_append]; rfl
  cases hk : kindOf cfg.idSpec f with
  | rejected e => exact absurd hk (hacc e)
  | auto x =>
    rw [hk] at hidk
    simp only [realize, incr_spec] at hidk
    have hkey : plainKeyAt cfg.idSpec pre f = autoId x ((auto.get? x).getD 0 + 1) := by
      unfold plainKeyAt; rw [hk]; simp only; rw [inv.cnt x]
    rw [hkey] at hfree hsnoc
    obtain ⟨db', hstep, hf', a, b, c, d⟩ := step_fresh hS db auto _ f _ hidk hfree
    obtain ⟨a', b', c', d'⟩ := inv.side
    refine ⟨db', _, hstep, ⟨?_, ?_, C10.keys_set_nodup _ _ _ inv.autoNodup,
      ⟨a.trans a', b.trans b', c.trans c', d.trans d'⟩⟩⟩
    · rw [hf', inv.feats, hsnoc, List.map_append]; rfl
    · intro y
      rw [get?_set_getD, autoCount_snoc, hk, ← inv.cnt y]
      by_cases hy : y = x
      · subst hy; simp
      · have : ¬ x = y := fun e => hy e.symm
        simp [hy, this]
  | fixed k =>
    rw [hk] at hidk
    simp only [realize] at hidk
    have hkey : plainKeyAt cfg.idSpec pre f = k := by unfold plainKeyAt; rw [hk]
    rw [hkey] at hfree hsnoc
    obtain ⟨db', hstep, hf', a, b, c, d⟩ := step_fresh hS db auto _ f _ hidk hfree
    obtain ⟨a', b', c', d'⟩ := inv.side
    refine ⟨db', _, hstep, ⟨?_, ?_, inv.autoNodup, ⟨a.trans a', b.trans b', c.trans c', d.trans d'⟩⟩⟩
    · rw [hf', inv.feats, hsnoc, List.map_append]; rfl
    · intro y
      rw [autoCount_snoc, hk]
      simp [inv.cnt y]

theorem plain_fold_inv {cfg : Cfg} {step attach} (hS : StepLike cfg step attach)
    (fs : List Feature) (hacc : ∀ f ∈ fs, Accepted cfg.idSpec f)
    (hnd : ((plainPlacements cfg.idSpec fs).map (·.2)).Nodup)
    (post : List Feature) : ∀ (pre : List Feature) (db : Db) (auto : Dict Nat), fs = pre ++ post →
      PlainInv cfg.idSpec pre db auto →
      ∃ db' auto', post.foldlM step (db, auto) = .ok (db', auto') ∧ PlainInv cfg.idSpec fs db' auto' := by
  induction post with
  | nil =>
    intro pre db auto hfs inv
    rw [List.append_nil] at hfs; subst hfs
    exact ⟨db, auto, rfl, inv⟩
  | cons f post ih =>
    intro pre db auto hfs inv
    obtain ⟨db1, auto1, h1, inv1⟩ :=
      plain_step_inv hS fs pre f post hfs (hacc f (by rw [hfs]; simp)) hnd db auto inv
    obtain ⟨db2, auto2, h2, inv2⟩ := ih (pre ++ [f]) db1 auto1 (by simpa using hfs) inv1
    exact ⟨db2, auto2, by rw [foldlM_cons_ok _ _ _ _ _ h1]; exact h2, inv2⟩

/-! ### the stored counters -/

theorem get?_setAll_nil (auto : Dict Nat) (h : (Dict.keys auto).Nodup) (y : Str) :
    Dict.get? (C10.setAll auto ([] : Dict Nat)) y = Dict.get? auto y := by
  cases hg : Dict.get? auto y with
  | none =>
    rw [C10.get?_setAll_not_mem _ _ _ ((C10.get?_eq_none_iff auto y).mp hg)]; rfl
  | some v => exact C10.get?_setAll_mem auto [] y v h hg

/-! ### the inference stage of the GTF importer never rewrites or moves a line row -/

open GffProofs.C03 (derivedSrc step1 step2)

theorem derivedFeature_source {ft : Str} {ext : Option Int × Option Int × Str × Str} {attrs : Attrs} {f : Feature}
    (h : derivedFeature ft ext attrs = .ok f) : f.source = derivedSrc := by
  unfold derivedFeature at h
  split at h
  · cases h; rfl
  · cases h

/-- the transcript half of the first pass -/
def stepT (cfg : Cfg) (db : Db) (out : List Feature) (t g : Str) : Py (List Feature) :=
  if !cfg.disableTranscripts then do
    match extent db cfg.subfeature t with
    | some ext =>
      let f ← derivedFeature "transcript".toList ext [(cfg.transcriptKey, [t]), (cfg.geneKey, [g])]
      pure (out ++ [f])
    | none => Except.error PyErr.type
  else pure out

/-- the gene half of the first pass -/
def stepG (cfg : Cfg) (db : Db) (lastGene : Option Str) (g : Str) (out : List Feature) :
    Py (List Feature × Option Str) :=
  if !cfg.disableGenes then
    if some g ≠ lastGene then
      match extent db cfg.subfeature g with
      | some ext => do
        let f ← derivedFeature "gene".toList ext [(cfg.geneKey, [g])]
        pure (out ++ [f], some g)
      | none => Except.error PyErr.type
    else pure (out, some g)
  else pure (out, lastGene)

theorem step1_eq (cfg : Cfg) (db : Db) (out : List Feature) (lastGene : Option Str) (t g : Str) :
    step1 cfg db (out, lastGene) (t, g) = stepT cfg db out t g >>= stepG cfg db lastGene g := by
  unfold step1 stepT stepG
  simp only [bind, Except.bind, pure, Except.pure]
  cases cfg.disableTranscripts <;> cases cfg.disableGenes <;> simp only [Bool.not_true, Bool.not_false, Bool.false_eq_true, if_true, if_false] <;>
    (try rfl) <;> (cases extent db cfg.subfeature t <;> try rfl) <;>
    (simp only; cases derivedFeature "transcript".toList _ [(cfg.transcriptKey, [t]), (cfg.geneKey, [g])] <;> rfl)

theorem stepT_source (cfg : Cfg) (db : Db) (out out1 : List Feature) (t g : Str)
    (hp : ∀ f ∈ out, f.source = derivedSrc) (h : stepT cfg db out t g = .ok out1) :
    ∀ f ∈ out1, f.source = derivedSrc := by
  unfold stepT at h
  split at h
  · split at h
    · simp only [bind, Except.bind, pure, Except.pure] at h
      split at h
      · cases h
      · rename_i f hf
        cases h
        intro x hx
        rcases List.mem_append.mp hx with hx | hx
        · exact hp x hx
        · simp only [List.mem_singleton] at hx; subst hx; exact derivedFeature_source hf
    · cases h
  · cases h; exact hp

theorem stepG_source (cfg : Cfg) (db : Db) (lastGene : Option Str) (g : Str) (out : List Feature)
    (acc' : List Feature × Option Str)
    (hp : ∀ f ∈ out, f.source = derivedSrc) (h : stepG cfg db lastGene g out = .ok acc') :
    ∀ f ∈ acc'.1, f.source = derivedSrc := by
  unfold stepG at h
  split at h
  · split at h
    · split at h
      · simp only [bind, Except.bind, pure, Except.pure] at h
        split at h
        · cases h
        · rename_i f hf
          cases h
          intro x hx
          rcases List.mem_append.mp hx with hx | hx
          · exact hp x hx
          · simp only [List.mem_singleton] at hx; subst hx; exact derivedFeature_source hf
      · cases h
    · cases h; exact hp
  · cases h; exact hp

theorem step1_source (cfg : Cfg) (db : Db) (acc acc' : List Feature × Option Str) (tg : Str × Str)
    (hp : ∀ f ∈ acc.1, f.source = derivedSrc) (h : step1 cfg db acc tg = .ok acc') :
    ∀ f ∈ acc'.1, f.source = derivedSrc := by
  obtain ⟨out, lastGene⟩ := acc
  obtain ⟨t, g⟩ := tg
  rw [step1_eq] at h
  cases hT : stepT cfg db out t g with
  | error e => rw [hT] at h; cases h
  | ok out1 =>
    rw [hT] at h
    exact stepG_source cfg db lastGene g out1 acc' (stepT_source cfg db out out1 t g hp hT) h

theorem foldl_setCol_id (l : List Str) (T : Str → Str) (e : Feature) :
    (l.foldl (fun e k => setCol e k (T k)) e).id = e.id := by
  induction l generalizing e with
  | nil => rfl
  | cons k l ih =>
    simp only [List.foldl_cons]
    rw [ih]
    unfold setCol
    repeat' split
    all_goals rfl

/-- the line rows `L` are in place, everything after them is derived, ids pairwise distinct -/
structure Kept (L : List Row) (db : Db) : Prop where
  shape : ∃ D, db.features = L ++ D ∧ ∀ r ∈ D, r.source = derivedSrc
  nodup : C04.IdsNodup db

theorem step2_keeps (cfg : Cfg) (hsrc : "source".toList ∉ cfg.forceMergeFields) (L : List Row)
    (hL : ∀ r ∈ L, r.source ≠ derivedSrc) (st st' : Db × Dict Nat) (f : Feature) (hf : f.source = derivedSrc)
    (hk : Kept L st.1) (h : step2 cfg st f = .ok st') : Kept L st'.1 := by
  obtain ⟨db, auto⟩ := st
  obtain ⟨⟨D, hD, hDs⟩, hnd⟩ := hk
  simp only at hD hnd
  unfold step2 at h
  simp only [bind, Except.bind, pure, Except.pure] at h
  split at h
  · cases h
  · rename_i r1 h1
    obtain ⟨id, auto1⟩ := r1
    simp only at h
    rw [C05.ofFeature_stored] at h
    simp only at h
    split at h
    · -- inserted at the end
      rename_i db1 hins
      cases h
      refine ⟨?_, C04.insert_nodup db db1 _ hnd hins⟩
      unfold Db.insert at hins
      split at hins
      · cases hins
      · cases hins
        refine ⟨D ++ [C05.storedRow f id], by simp [hD], ?_⟩
        intro r hr
        rcases List.mem_append.mp hr with hr | hr
        · exact hDs r hr
        · simp only [List.mem_singleton] at hr; subst hr; exact hf
    · -- collision: resolved with `merge`
      cases hl : (C05.matched cfg db id f).getLast? with
      | none =>
        have hM : C05.matched cfg db id f = [] := List.getLast?_eq_none_iff.mp hl
        rw [C05.doMerge_merge_miss cfg db auto1 f id (some id) hM] at h
        simp only at h
        cases h
        exact ⟨⟨D, hD, hDs⟩, hnd⟩
      | some ex =>
        rw [C05.doMerge_merge_hit cfg db auto1 f id (some id) ex hl] at h
        simp only at h
        cases h
        have hex : ex ∈ C05.matched cfg db id f := List.mem_of_getLast? hl
        obtain ⟨hcand, hagree⟩ := (C05.mem_matched cfg db id f ex).mp hex
        obtain ⟨r, hr, hrmem, _, _⟩ := C05.mem_candidates cfg db id ex hcand
        have hrs : r.source = derivedSrc := by
          have := hagree "source".toList (by decide) hsrc
          rw [hr] at this
          have e1 : ∀ x : Feature, colText x "source".toList = x.source := by
            intro x; unfold colText
            rw [if_neg (by decide), if_pos rfl]
          rw [e1, e1] at this
          rw [← hf, ← this]; rfl
        have hrD : r ∈ D := by
          rw [hD] at hrmem
          rcases List.mem_append.mp hrmem with hm | hm
          · exact absurd hrs (hL r hm)
          · exact hm
        have hid : (List.foldl (fun e k => setCol e k (C05.exemptText f (C05.matched cfg db id f) k))
            { ex with attrs := C05.mergedAttrs f (C05.matched cfg db id f) } cfg.forceMergeFields).id = some r.id := by
          rw [foldl_setCol_id]; rw [hr]; rfl
        rw [hid]
        simp only [Option.getD_some]
        generalize (List.foldl (fun e k => setCol e k (C05.exemptText f (C05.matched cfg db id f) k))
            { ex with attrs := C05.mergedAttrs f (C05.matched cfg db id f) } cfg.forceMergeFields).attrs = A
        refine ⟨?_, ?_⟩
        · have hLne : ∀ x ∈ L, x.id ≠ r.id := by
            intro x hx e
            unfold C04.IdsNodup at hnd
            rw [hD, List.map_append, List.nodup_append] at hnd
            exact hnd.2.2 x.id (List.mem_map.mpr ⟨x, hx, rfl⟩) r.id (List.mem_map.mpr ⟨r, hrD, rfl⟩) e
          refine ⟨D.map (fun x => if x.id = r.id then { x with attrs := A } else x), ?_, ?_⟩
          · show (db.features.map _) = _
            rw [hD, List.map_append]
            congr 1
            rw [List.map_congr_left (g := fun x => x)]
            · simp
            · intro x hx; simp [hLne x hx]
          · intro x hx
            obtain ⟨y, hy, rfl⟩ := List.mem_map.mp hx
            split
            · exact hDs y hy
            · exact hDs y hy
        · unfold C04.IdsNodup
          rw [C04.modifyRow_ids db r.id (fun x => { x with attrs := A }) (fun _ => rfl)]
          exact hnd

theorem updateRelationsGtf_keeps (cfg : Cfg) (hsrc : "source".toList ∉ cfg.forceMergeFields) (L : List Row)
    (hL : ∀ r ∈ L, r.source ≠ derivedSrc) (db db' : Db) (auto auto' : Dict Nat) (hk : Kept L db)
    (h : updateRelationsGtf cfg db auto = .ok (db', auto')) : Kept L db' := by
  rw [C03.updateRelationsGtf_eq] at h
  split at h
  · cases h; exact hk
  · simp only [bind, Except.bind] at h
    split at h
    · cases h
    · rename_i r hr
      have hsrcs : ∀ f ∈ r.1, f.source = derivedSrc :=
        C04.foldlM_inv (step1 cfg db) (fun acc => ∀ f ∈ acc.1, f.source = derivedSrc)
          (fun s a s' hs hstep => step1_source cfg db s s' a hs hstep) _ _ r (by simp) hr
      -- second pass: a fold over a list all of whose members are derived
      have hfold : ∀ (l : List Feature) (st st' : Db × Dict Nat), (∀ f ∈ l, f.source = derivedSrc) →
          Kept L st.1 → l.foldlM (step2 cfg) st = .ok st' → Kept L st'.1 := by
        intro l
        induction l with
        | nil => intro st st' _ hk h; cases h; exact hk
        | cons f l ih =>
          intro st st' hl hk h
          simp only [List.foldlM_cons, bind, Except.bind] at h
          split at h
          · cases h
          · rename_i st1 h1
            exact ih st1 st' (fun x hx => hl x (List.mem_cons_of_mem _ hx))
              (step2_keeps cfg hsrc L hL st st1 f (hl f (by simp)) hk h1) h
      exact hfold r.1 (db, auto) (db', auto') hsrcs hk h

end GffProofs.C01c
