/-
  Generic facts about the `relations` table used by C02: folds of `INSERT OR IGNORE`, the level-2
  pass `updateRelationsGff`, and the shape of an unfiltered / unordered `runRelation`.
-/
import GffModel.Interface

namespace GffProofs.C02
open GffModel GffModel.Create GffModel.Interface

/-! ### `insertRelIgnore` -/

theorem insertRelIgnore_features (db : Db) (r : Rel) : (db.insertRelIgnore r).features = db.features := by
  unfold Db.insertRelIgnore; split <;> rfl

theorem mem_insertRelIgnore (db : Db) (r x : Rel) :
    x ∈ (db.insertRelIgnore r).relations ↔ x ∈ db.relations ∨ x = r := by
  unfold Db.insertRelIgnore Db.hasRel
  split
  · rename_i h
    have : r ∈ db.relations := by simpa using h
    constructor
    · exact Or.inl
    · rintro (h | rfl)
      · exact h
      · exact this
  · simp

theorem nodup_insertRelIgnore (db : Db) (r : Rel) (h : db.relations.Nodup) :
    (db.insertRelIgnore r).relations.Nodup := by
  unfold Db.insertRelIgnore Db.hasRel
  split
  · exact h
  · rename_i hc
    have : r ∉ db.relations := by simpa using hc
    show (db.relations ++ [r]).Nodup
    rw [List.nodup_append]
    refine ⟨h, by simp, ?_⟩
    intro a ha b hb
    simp only [List.mem_singleton] at hb
    subst hb
    intro hab; subst hab; exact this ha

section fold
variable {α : Type} (g : α → Rel)

theorem foldl_insertRel_features (l : List α) (db : Db) :
    (l.foldl (fun db a => db.insertRelIgnore (g a)) db).features = db.features := by
  induction l generalizing db with
  | nil => rfl
  | cons a l ih => simp only [List.foldl_cons]; rw [ih, insertRelIgnore_features]

theorem foldl_insertRel_mem (l : List α) (db : Db) (x : Rel) :
    x ∈ (l.foldl (fun db a => db.insertRelIgnore (g a)) db).relations ↔
      x ∈ db.relations ∨ ∃ a ∈ l, x = g a := by
  induction l generalizing db with
  | nil => simp
  | cons a l ih =>
    simp only [List.foldl_cons]
    rw [ih, mem_insertRelIgnore]
    simp only [List.mem_cons, exists_eq_or_imp]
    constructor
    · rintro ((h | h) | h)
      · exact Or.inl h
      · exact Or.inr (Or.inl h)
      · exact Or.inr (Or.inr h)
    · rintro (h | h | h)
      · exact Or.inl (Or.inl h)
      · exact Or.inl (Or.inr h)
      · exact Or.inr h

theorem foldl_insertRel_nodup (l : List α) (db : Db) (h : db.relations.Nodup) :
    (l.foldl (fun db a => db.insertRelIgnore (g a)) db).relations.Nodup := by
  induction l generalizing db with
  | nil => exact h
  | cons a l ih => simp only [List.foldl_cons]; exact ih _ (nodup_insertRelIgnore db _ h)

end fold

section fold2
variable {α β : Type} (G : α → List β) (g : α → β → Rel)

theorem foldl2_insertRel_features (l : List α) (db : Db) :
    (l.foldl (fun acc x => (G x).foldl (fun acc b => acc.insertRelIgnore (g x b)) acc) db).features
      = db.features := by
  induction l generalizing db with
  | nil => rfl
  | cons a l ih => simp only [List.foldl_cons]; rw [ih, foldl_insertRel_features]

theorem foldl2_insertRel_mem (l : List α) (db : Db) (r : Rel) :
    r ∈ (l.foldl (fun acc x => (G x).foldl (fun acc b => acc.insertRelIgnore (g x b)) acc) db).relations ↔
      r ∈ db.relations ∨ ∃ x ∈ l, ∃ b ∈ G x, r = g x b := by
  induction l generalizing db with
  | nil => simp
  | cons a l ih =>
    simp only [List.foldl_cons]
    rw [ih, foldl_insertRel_mem]
    simp only [List.mem_cons, exists_eq_or_imp]
    constructor
    · rintro ((h | h) | h)
      · exact Or.inl h
      · exact Or.inr (Or.inl h)
      · exact Or.inr (Or.inr h)
    · rintro (h | h | h)
      · exact Or.inl (Or.inl h)
      · exact Or.inl (Or.inr h)
      · exact Or.inr h

theorem foldl2_insertRel_nodup (l : List α) (db : Db) (h : db.relations.Nodup) :
    (l.foldl (fun acc x => (G x).foldl (fun acc b => acc.insertRelIgnore (g x b)) acc) db).relations.Nodup := by
  induction l generalizing db with
  | nil => exact h
  | cons a l ih => simp only [List.foldl_cons]; exact ih _ (foldl_insertRel_nodup _ _ _ h)

end fold2

/-! ### `updateRelationsGff` -/

theorem updateRelationsGff_features (db : Db) : (updateRelationsGff db).features = db.features := by
  unfold updateRelationsGff
  exact foldl2_insertRel_features _ (fun (parent : Row) g => (⟨parent.id, g, 2⟩ : Rel)) _ _

theorem updateRelationsGff_nodup (db : Db) (h : db.relations.Nodup) :
    (updateRelationsGff db).relations.Nodup := by
  unfold updateRelationsGff
  exact foldl2_insertRel_nodup _ (fun (parent : Row) g => (⟨parent.id, g, 2⟩ : Rel)) _ _ h

theorem updateRelationsGff_mem (db : Db) (r : Rel) :
    r ∈ (updateRelationsGff db).relations ↔
      r ∈ db.relations ∨ ∃ row ∈ db.features, ∃ m c, (⟨row.id, m, 1⟩ : Rel) ∈ db.relations ∧
        (⟨m, c, 1⟩ : Rel) ∈ db.relations ∧ r = ⟨row.id, c, 2⟩ := by
  unfold updateRelationsGff
  rw [foldl2_insertRel_mem _ (fun (parent : Row) g => (⟨parent.id, g, 2⟩ : Rel))]
  apply or_congr Iff.rfl
  constructor
  · rintro ⟨row, hrow, c, hc, rfl⟩
    simp only [List.mem_map, List.mem_filter, List.contains_iff_mem, decide_eq_true_eq] at hc
    obtain ⟨r2, ⟨hr2, ⟨r1, ⟨hr1, hp1, hl1⟩, hk⟩, hl2⟩, rfl⟩ := hc
    refine ⟨row, hrow, r1.child, r2.child, ?_, ?_, rfl⟩
    · rw [← hp1, ← hl1]; exact hr1
    · rw [hk, ← hl2]; exact hr2
  · rintro ⟨row, hrow, m, c, h1, h2, rfl⟩
    refine ⟨row, hrow, c, ?_, rfl⟩
    simp only [List.mem_map, List.mem_filter, List.contains_iff_mem, decide_eq_true_eq]
    exact ⟨⟨m, c, 1⟩, ⟨h2, ⟨⟨row.id, m, 1⟩, ⟨h1, rfl, rfl⟩, rfl⟩, rfl⟩, rfl⟩

/-! ### `finalize` -/

theorem finalize_features (db : Db) (d : Dialect) (dirs : List Str) (auto : Dict Nat) :
    (finalize db d dirs auto).features = db.features := rfl

theorem finalize_relations (db : Db) (d : Dialect) (dirs : List Str) (auto : Dict Nat) :
    (finalize db d dirs auto).relations = db.relations := rfl

/-! ### `runRelation` without filter / ordering -/

theorem rowMatches_empty (r : Row) : rowMatches {} r = true := rfl

theorem indexed_filter_snd (rows : List Row) (P : Row → Bool) :
    ((indexed rows).filter (fun p => P p.2)).map (·.2) = rows.filter P := by
  unfold indexed
  rw [List.filter_map, List.map_map]
  have h1 : ((fun (x : Nat × Row) => x.2) ∘ fun (x : Row × Nat) => match x with | (r, i) => (i + 1, r))
      = Prod.fst := by funext ⟨r, i⟩; rfl
  have h2 : ((fun (p : Nat × Row) => P p.2) ∘ fun (x : Row × Nat) => match x with | (r, i) => (i + 1, r))
      = P ∘ Prod.fst := by funext ⟨r, i⟩; rfl
  rw [h1, h2, ← List.filter_map, List.zipIdx_map_fst]

theorem runRelation_empty (s : Session) (isChildren : Bool) (x : Str) (level : Option Int) :
    runRelation s isChildren x level {} =
      s.db.features.filter (fun r => (related s.db isChildren x level).contains r.id) := by
  unfold runRelation order
  simp only [rowMatches_empty, Bool.and_true]
  exact indexed_filter_snd s.db.features (fun r => (related s.db isChildren x level).contains r.id)

theorem mem_related (db : Db) (isChildren : Bool) (x : Str) (level : Option Int) (y : Str) :
    y ∈ related db isChildren x level ↔ ∃ rel ∈ db.relations,
      (match level with | some l => rel.level = l | none => True) ∧
      (if isChildren then rel.parent = x ∧ rel.child = y else rel.child = x ∧ rel.parent = y) := by
  unfold related
  simp only [List.mem_map, List.mem_filter, Bool.and_eq_true]
  constructor
  · rintro ⟨rel, ⟨hrel, h1, h2⟩, rfl⟩
    refine ⟨rel, hrel, ?_, ?_⟩
    · cases level with
      | none => trivial
      | some l => simpa using h2
    · cases isChildren <;> simpa using h1
  · rintro ⟨rel, hrel, h1, h2⟩
    refine ⟨rel, ⟨hrel, ?_, ?_⟩, ?_⟩
    · cases isChildren <;> simp_all
    · cases level with
      | none => rfl
      | some l => simpa using h1
    · cases isChildren <;> simp_all

end GffProofs.C02
