/-
  Lemmas for C04b: what the accumulation loops of `Parser.splitProvided` / `Parser.splitInfer` store under
  each key, as a function of the `(key, raw value)` parts in order (Dict level, all keys).
-/
import GffProofs.Props.C08b
import GffProofs.Lemmas.C07Stages
import GffProofs.Lemmas.DictLemmas
import GffProofs.Lemmas.ExceptList

namespace GffProofs.C04b
open GffModel GffModel.Parser GffModel.Str

/-- the values ONE written part `key<sep>val` contributes under a supplied dialect: quotes stripped when
the dialect says so, nothing for an empty value, otherwise the comma-separated pieces -/
def provVals (d : Dialect) (val : Str) : List Str :=
  let val := if d.quoted && isQuotedVal val then stripQuotes val else val
  if val.isEmpty then [] else Str.split [','] val

/-- the values one part contributes on the inferring path; `rep` = "some key has been seen twice up to and
including this part" (then the value is taken whole) -/
def inferVals (rep : Bool) (val : Str) : List Str :=
  let val := if isQuotedVal val then stripQuotes val else val
  if val.isEmpty then [] else if rep then [val] else
    let vals := Str.split [','] val
    if vals.any (fun i => i.head? == some ' ') then [val] else vals

/-- everything collected for `k`, in order of occurrence (per-part contribution `c`) -/
def collect (c : Str → List Str) (k : Str) (kvs : List (Str × Str)) : List Str :=
  (kvs.filter (fun kv => kv.1 = k)).flatMap (fun kv => c kv.2)

/-- the same on the inferring path, where the contribution of a part depends on the keys before it:
`seen` = keys so far, `rep` = a key has repeated so far -/
def inferCollect (k : Str) : List Str → Bool → List (Str × Str) → List Str
  | _, _, [] => []
  | seen, rep, (key, val) :: rest =>
    (if key = k then inferVals (rep || seen.contains key) val else []) ++
      inferCollect k (key :: seen) (rep || seen.contains key) rest

/-! ### one step -/

theorem foldStep_get? (d : Dialect) (q q' : Attrs) (item : List Str) (h : C08.foldStep d q item = .ok q') :
    ∃ key val, keyVal d.kvSep item = .ok (key, val) ∧
      ∀ k, q'.get? k = if key = k then some ((q.get? k).getD [] ++ provVals d val) else q.get? k := by
  unfold C08.foldStep at h
  cases hk : keyVal d.kvSep item with
  | error e => rw [hk] at h; cases h
  | ok kv =>
    obtain ⟨key, val⟩ := kv
    rw [hk] at h
    simp only [bind, Except.bind, pure, Except.pure] at h
    refine ⟨key, val, rfl, fun k => ?_⟩
    unfold provVals
    generalize (if (d.quoted && isQuotedVal val) = true then stripQuotes val else val) = v at h ⊢
    have hnone : Dict.contains q key ≠ true → Dict.get? q key = none := by
      intro hc
      unfold Dict.contains at hc
      cases hg : Dict.get? q key with
      | none => rfl
      | some x => rw [hg] at hc; exact absurd rfl hc
    have hsome : Dict.contains q key = true → ∃ x, Dict.get? q key = some x := by
      intro hc
      unfold Dict.contains at hc
      cases hg : Dict.get? q key with
      | none => rw [hg] at hc; cases hc
      | some x => exact ⟨x, rfl⟩
    cases v with
    | nil =>
      by_cases hc : Dict.contains q key = true <;>
        simp only [hc, List.isEmpty_nil, if_true, if_false, Bool.not_true, Bool.false_eq_true,
          Except.ok.injEq] at h <;> subst h
      · by_cases hkk : key = k
        · subst hkk
          obtain ⟨x, hx⟩ := hsome hc
          simp [hx]
        · simp [hkk]
      · rw [DictL.get?_set]
        by_cases hkk : key = k
        · subst hkk; simp [hnone hc]
        · simp [hkk]
    | cons c cs =>
      by_cases hc : Dict.contains q key = true <;>
        simp only [hc, List.isEmpty_cons, if_true, if_false, Bool.not_false, Bool.false_eq_true,
          Except.ok.injEq] at h <;> subst h
      · rw [DictL.get?_set]
        by_cases hkk : key = k <;> simp [hkk]
      · rw [DictL.get?_set, DictL.get?_set_self]
        by_cases hkk : key = k
        · subst hkk; simp [hnone hc]
        · simp only [hkk, if_false]
          rw [DictL.get?_set]; simp [hkk]

theorem collect_nil (c : Str → List Str) (k : Str) : collect c k [] = [] := rfl

theorem collect_cons (c : Str → List Str) (k key val : Str) (rest : List (Str × Str)) :
    collect c k ((key, val) :: rest) = (if key = k then c val else []) ++ collect c k rest := by
  unfold collect
  by_cases h : key = k <;> simp [h]

theorem collect_append (c : Str → List Str) (k : Str) (a b : List (Str × Str)) :
    collect c k (a ++ b) = collect c k a ++ collect c k b := by
  unfold collect; simp

theorem collect_absent (c : Str → List Str) (k : Str) (a : List (Str × Str)) (h : k ∉ a.map (·.1)) :
    collect c k a = [] := by
  induction a with
  | nil => rfl
  | cons p a ih =>
    obtain ⟨key, val⟩ := p
    simp only [List.map_cons, List.mem_cons, not_or] at h
    rw [collect_cons, ih h.2, if_neg (fun e => h.1 e.symm)]; rfl

/-! ### the loop of the provided path -/

/-- **supplied dialect, Dict level**: after the loop, every key that occurs among the parts holds its old
values followed by the contributions of ALL its parts in order of occurrence; no other key moves -/
theorem provFold_get? (d : Dialect) (items : List (List Str)) (q0 q : Attrs)
    (h : items.foldlM (C08.foldStep d) q0 = .ok q) :
    ∃ kvs, items.mapM (keyVal d.kvSep) = .ok kvs ∧
      ∀ k, q.get? k = if k ∈ kvs.map (·.1) then some ((q0.get? k).getD [] ++ collect (provVals d) k kvs)
                      else q0.get? k := by
  induction items generalizing q0 with
  | nil =>
    simp only [List.foldlM_nil, pure, Except.pure, Except.ok.injEq] at h
    subst h
    exact ⟨[], rfl, fun k => by simp⟩
  | cons item rest ih =>
    simp only [List.foldlM_cons, bind, Except.bind] at h
    cases h1 : C08.foldStep d q0 item with
    | error e => rw [h1] at h; cases h
    | ok q1 =>
      rw [h1] at h
      obtain ⟨key, val, hkv, hq1⟩ := foldStep_get? d q0 q1 item h1
      obtain ⟨kvs, hm, hq⟩ := ih q1 h
      refine ⟨(key, val) :: kvs, ?_, fun k => ?_⟩
      · simp only [List.mapM_cons, hkv, hm, bind, Except.bind, pure, Except.pure]
      · rw [hq k, hq1 k, collect_cons]
        by_cases hk : key = k
        · subst hk
          by_cases hin : key ∈ kvs.map (·.1)
          · simp [hin, List.append_assoc]
          · simp [hin, collect_absent _ _ _ hin]
        · have hk' : ¬ k = key := fun e => hk e.symm
          by_cases hin : k ∈ kvs.map (·.1) <;> simp [hin, hk, hk']

/-! ### the loop of the inferring path -/

theorem contains_eq_of_get? {q q' : Attrs} {key : Str} {extra : List Str → List Str}
    (h : ∀ k, q'.get? k = if key = k then some (extra ((q.get? k).getD [])) else q.get? k) (k : Str) :
    Dict.contains q' k = (decide (key = k) || Dict.contains q k) := by
  unfold Dict.contains
  rw [h k]
  by_cases hk : key = k <;> simp [hk]

/-- the loop body of the inferring path in normal form -/
def inferStepSpec (q : Attrs) (d : Dialect) (key val : Str) : Attrs :=
  let q1 := if q.contains key then q else Dict.set q key []
  let v := if isQuotedVal val then stripQuotes val else val
  if v.isEmpty then q1 else Dict.set q1 key ((q1.get? key).getD [] ++ inferVals (d.repeatedKeys || q.contains key) val)

theorem stepPure_spec (q : Attrs) (d : Dialect) (key val : Str) :
    (C07.stepPure (q, d) (key, val)).2.kvSep = d.kvSep ∧
    (C07.stepPure (q, d) (key, val)).2.repeatedKeys = (d.repeatedKeys || q.contains key) ∧
    (C07.stepPure (q, d) (key, val)).1 = inferStepSpec q d key val := by
  cases hc : Dict.contains q key <;> cases hq : isQuotedVal val <;> cases hr : d.repeatedKeys <;>
    simp [C07.stepPure, inferStepSpec, inferVals, hc, hq, hr] <;>
    (split <;> first | rfl | simp_all | (split <;> rfl))

theorem inferStepSpec_get? (q : Attrs) (d : Dialect) (key val : Str) (k : Str) :
    (inferStepSpec q d key val).get? k =
      if key = k then some ((q.get? k).getD [] ++ inferVals (d.repeatedKeys || q.contains key) val)
      else q.get? k := by
  have hnone : Dict.contains q key ≠ true → Dict.get? q key = none := by
    intro hc
    unfold Dict.contains at hc
    cases hg : Dict.get? q key with
    | none => rfl
    | some x => rw [hg] at hc; exact absurd rfl hc
  have hsome : Dict.contains q key = true → ∃ x, Dict.get? q key = some x := by
    intro hc
    unfold Dict.contains at hc
    cases hg : Dict.get? q key with
    | none => rw [hg] at hc; cases hc
    | some x => exact ⟨x, rfl⟩
  unfold inferStepSpec
  generalize hrep : (d.repeatedKeys || q.contains key) = rep
  cases hv : (if isQuotedVal val = true then stripQuotes val else val) with
  | nil =>
    have hi : inferVals rep val = [] := by unfold inferVals; simp only [hv]; rfl
    simp only [List.isEmpty_nil, if_true, hi, List.append_nil]
    by_cases hc : Dict.contains q key = true
    · simp only [hc, if_true]
      by_cases hk : key = k
      · subst hk; obtain ⟨x, hx⟩ := hsome hc; simp [hx]
      · simp [hk]
    · simp only [hc, if_false, Bool.false_eq_true]
      rw [DictL.get?_set]
      by_cases hk : key = k
      · subst hk; simp [hnone hc]
      · simp [hk]
  | cons c cs =>
    simp only [List.isEmpty_cons, Bool.false_eq_true, if_false]
    rw [DictL.get?_set]
    by_cases hk : key = k
    · subst hk
      simp only [if_true, Option.some.injEq]
      by_cases hc : Dict.contains q key = true
      · simp [hc]
      · simp [hc, DictL.get?_set_self, hnone hc]
    · simp only [hk, if_false]
      by_cases hc : Dict.contains q key = true
      · simp [hc]
      · simp only [hc, if_false, Bool.false_eq_true]
        rw [DictL.get?_set]; simp [hk]

theorem stepO_ok (acc acc' : Attrs × Dialect) (item : List Str) (h : C07.stepO acc item = .ok acc') :
    ∃ kv, keyVal acc.2.kvSep item = .ok kv ∧ acc' = C07.stepPure acc kv := by
  cases hk : keyVal acc.2.kvSep item with
  | error e =>
    obtain ⟨q, d⟩ := acc
    unfold C07.stepO at h
    simp only [] at hk
    simp only [hk, bind, Except.bind] at h
    cases h
  | ok kv =>
    rw [C07.stepO_eq acc item kv hk] at h
    cases h
    exact ⟨kv, rfl, rfl⟩

theorem inferCollect_absent (k : Str) (seen : List Str) (rep : Bool) (a : List (Str × Str))
    (h : k ∉ a.map (·.1)) : inferCollect k seen rep a = [] := by
  induction a generalizing seen rep with
  | nil => rfl
  | cons p a ih =>
    obtain ⟨key, val⟩ := p
    simp only [List.map_cons, List.mem_cons, not_or] at h
    simp only [inferCollect, if_neg (fun (e : key = k) => h.1 e.symm), ih _ _ h.2, List.append_nil]

/-- **inferring path, Dict level**: after the loop every key that occurs among the parts holds its old
values followed by the contributions of ALL its parts in order of occurrence; no other key moves.
(`seen` describes the keys of the starting mapping; `splitInfer` starts from `[]`, `false`.) -/
theorem inferFold_get? (items : List (List Str)) (q0 q : Attrs) (d0 d : Dialect) (seen : List Str)
    (hseen : ∀ k, Dict.contains q0 k = seen.contains k)
    (h : items.foldlM C07.stepO (q0, d0) = .ok (q, d)) :
    ∃ kvs, items.mapM (keyVal d0.kvSep) = .ok kvs ∧ d.kvSep = d0.kvSep ∧
      ∀ k, q.get? k = if k ∈ kvs.map (·.1)
                      then some ((q0.get? k).getD [] ++ inferCollect k seen d0.repeatedKeys kvs)
                      else q0.get? k := by
  induction items generalizing q0 d0 seen with
  | nil =>
    simp only [List.foldlM_nil, pure, Except.pure, Except.ok.injEq, Prod.mk.injEq] at h
    obtain ⟨rfl, rfl⟩ := h
    exact ⟨[], rfl, rfl, fun k => by simp⟩
  | cons item rest ih =>
    simp only [List.foldlM_cons, bind, Except.bind] at h
    cases h1 : C07.stepO (q0, d0) item with
    | error e => rw [h1] at h; cases h
    | ok acc1 =>
      rw [h1] at h
      obtain ⟨kv, hkv, rfl⟩ := stepO_ok _ _ _ h1
      obtain ⟨key, val⟩ := kv
      obtain ⟨hsep, hrep, hq1⟩ := stepPure_spec q0 d0 key val
      generalize C07.stepPure (q0, d0) (key, val) = acc1 at h hsep hrep hq1
      obtain ⟨q1, d1⟩ := acc1
      simp only at hsep hrep hq1 hkv
      subst hq1
      have hget := inferStepSpec_get? q0 d0 key val
      have hseen1 : ∀ k, Dict.contains (inferStepSpec q0 d0 key val) k = (key :: seen).contains k := by
        intro k
        unfold Dict.contains
        rw [hget k]
        have := hseen k
        unfold Dict.contains at this
        by_cases hk : key = k
        · subst hk; simp
        · have hk' : ¬ k = key := fun e => hk e.symm
          simp [hk, this, hk']
      obtain ⟨kvs, hm, hsep', hq⟩ := ih _ _ _ hseen1 h
      refine ⟨(key, val) :: kvs, ?_, hsep'.trans hsep, fun k => ?_⟩
      · rw [hsep] at hm
        simp only [List.mapM_cons, hkv, hm, bind, Except.bind, pure, Except.pure]
      · rw [hq k, hrep, hget k]
        simp only [inferCollect, hseen key]
        by_cases hk : key = k
        · subst hk
          by_cases hin : key ∈ kvs.map (·.1)
          · simp [hin, List.append_assoc]
          · simp [hin, inferCollect_absent _ _ _ _ hin]
        · have hk' : ¬ k = key := fun e => hk e.symm
          by_cases hin : k ∈ kvs.map (·.1) <;> simp [hin, hk, hk']
