/-
  Small lemmas about `List.mapM` / `List.foldlM` in the `Except` monad, and non-emptiness of `Str.split`.
-/
import GffModel.Basic
import GffProofs.Lemmas.SplitJoin

namespace GffProofs
open GffModel GffModel.Str

theorem splitAux_ne_nil (sep s acc : Str) : splitAux sep s acc ≠ [] := by
  induction s generalizing acc with
  | nil => simp [splitAux_nil]
  | cons c cs ih =>
    rw [splitAux_cons]
    split
    · simp
    · exact ih _

theorem split_ne_nil (sep s : Str) : Str.split sep s ≠ [] := splitAux_ne_nil sep s []

theorem pySplit_ok (sep s : Str) (h : sep ≠ []) : pySplit sep s = .ok (Str.split sep s) := by
  cases sep with
  | nil => exact absurd rfl h
  | cons a b => simp [pySplit]

theorem pySplit_nil (s : Str) : pySplit [] s = .error .value := by
  simp [pySplit]

section
variable {ε α β : Type}

/-- if `f` succeeds on every element with a result satisfying `P`, `mapM f` succeeds with all results
satisfying `P` -/
theorem mapM_ok_of_forall (f : α → Except ε β) (P : β → Prop) (l : List α)
    (h : ∀ x ∈ l, ∃ y, f x = .ok y ∧ P y) :
    ∃ ys, l.mapM f = .ok ys ∧ ∀ y ∈ ys, P y := by
  induction l with
  | nil => exact ⟨[], by simp [pure, Except.pure]⟩
  | cons x xs ih =>
    obtain ⟨y, hy, hpy⟩ := h x (by simp)
    obtain ⟨ys, hys, hpys⟩ := ih (fun x hx => h x (by simp [hx]))
    refine ⟨y :: ys, ?_, ?_⟩
    · simp [List.mapM_cons, hy, hys, bind, Except.bind, pure, Except.pure]
    · intro z hz
      rcases List.mem_cons.mp hz with rfl | hz
      · exact hpy
      · exact hpys z hz

theorem mapM_ok (f : α → Except ε β) (l : List α) (h : ∀ x ∈ l, ∃ y, f x = .ok y) :
    ∃ ys, l.mapM f = .ok ys := by
  obtain ⟨ys, hys, _⟩ := mapM_ok_of_forall f (fun _ => True) l
    (fun x hx => by obtain ⟨y, hy⟩ := h x hx; exact ⟨y, hy, trivial⟩)
  exact ⟨ys, hys⟩

/-- `mapM` of a function that fails with the same error everywhere, on a non-empty list -/
theorem mapM_error_of_forall (f : α → Except ε β) (e : ε) (l : List α) (hne : l ≠ [])
    (h : ∀ x, f x = .error e) : l.mapM f = .error e := by
  cases l with
  | nil => exact absurd rfl hne
  | cons x xs => simp [List.mapM_cons, h x, bind, Except.bind]

theorem foldlM_ok_of_forall {σ : Type} (f : σ → α → Except ε σ) (l : List α)
    (h : ∀ acc, ∀ x ∈ l, ∃ r, f acc x = .ok r) (init : σ) :
    ∃ r, l.foldlM f init = .ok r := by
  induction l generalizing init with
  | nil => exact ⟨init, by simp [pure, Except.pure]⟩
  | cons x xs ih =>
    obtain ⟨r, hr⟩ := h init x (by simp)
    obtain ⟨r', hr'⟩ := ih (fun acc x hx => h acc x (by simp [hx])) r
    exact ⟨r', by simp [List.foldlM_cons, hr, hr', bind, Except.bind]⟩
end

end GffProofs
