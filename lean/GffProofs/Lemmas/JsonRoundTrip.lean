/-
  Lemmas for C17: the text-level JSON codec of GffModel.Json round-trips.
-/
import GffModel.Json

namespace GffProofs.JsonRT
open GffModel GffModel.Json

/-! ### hex digits -/

theorem hexVal_hexDigit : ∀ d : Fin 16, Str.hexVal? (Str.hexDigit d.val) = some d.val := by decide

theorem hexVal_hexDigit' (d : Nat) (h : d < 16) : Str.hexVal? (Str.hexDigit d) = some d :=
  hexVal_hexDigit ⟨d, h⟩

theorem hexVal4_hex4 (n : Nat) (h : n < 65536) :
    ∃ a b c d, hex4 n = [a, b, c, d] ∧ hexVal4? a b c d = some n := by
  refine ⟨_, _, _, _, rfl, ?_⟩
  unfold hexVal4?
  rw [hexVal_hexDigit' _ (Nat.mod_lt _ (by decide)), hexVal_hexDigit' _ (Nat.mod_lt _ (by decide)),
      hexVal_hexDigit' _ (Nat.mod_lt _ (by decide)), hexVal_hexDigit' _ (Nat.mod_lt _ (by decide))]
  simp only [Option.some.injEq]
  omega

/-! ### one character through the escaping layer -/

theorem scanStr_uEsc_bmp (n : Nat) (h : n < 65536) (hs : ¬ (0xd800 ≤ n ∧ n < 0xe000)) (t : Str) :
    scanStr (uEsc n ++ t) = (scanStr t).map (consFst (Char.ofNat n)) := by
  obtain ⟨a, b, c, d, h4, hv⟩ := hexVal4_hex4 n h
  have hh : isHigh n = false := by unfold isHigh; simp only [decide_eq_false_iff_not]; omega
  have hl : isLow n = false := by unfold isLow; simp only [decide_eq_false_iff_not]; omega
  simp only [uEsc, h4, List.cons_append, List.nil_append]
  rw [scanStr.eq_def]
  simp [hv, hh, hl]

theorem scanStr_uEsc_pair (hi lo : Nat) (h1 : 0xd800 ≤ hi ∧ hi < 0xdc00) (h2 : 0xdc00 ≤ lo ∧ lo < 0xe000) (t : Str) :
    scanStr (uEsc hi ++ (uEsc lo ++ t)) =
      (scanStr t).map (consFst (Char.ofNat (0x10000 + ((hi - 0xd800) * 1024 + (lo - 0xdc00))))) := by
  obtain ⟨a, b, c, d, h4, hv⟩ := hexVal4_hex4 hi (by omega)
  obtain ⟨a', b', c', d', h4', hv'⟩ := hexVal4_hex4 lo (by omega)
  have hh : isHigh hi = true := by unfold isHigh; simp only [decide_eq_true_eq]; omega
  have hl : isLow lo = true := by unfold isLow; simp only [decide_eq_true_eq]; omega
  simp only [uEsc, h4, h4', List.cons_append, List.nil_append]
  rw [scanStr.eq_def]
  simp [hv, hh, hv', hl]

theorem scanStr_escChar (c : Char) (t : Str) :
    scanStr (escChar c ++ t) = (scanStr t).map (consFst c) := by
  unfold escChar
  split
  · next h => subst h; rw [List.cons_append, List.cons_append, List.nil_append, scanStr.eq_def]; simp [simpleEsc]
  split
  · next h => subst h; rw [List.cons_append, List.cons_append, List.nil_append, scanStr.eq_def]; simp [simpleEsc]
  split
  · next h => subst h; rw [List.cons_append, List.cons_append, List.nil_append, scanStr.eq_def]; simp [simpleEsc]
  split
  · next h => subst h; rw [List.cons_append, List.cons_append, List.nil_append, scanStr.eq_def]; simp [simpleEsc]
  split
  · next h => subst h; rw [List.cons_append, List.cons_append, List.nil_append, scanStr.eq_def]; simp [simpleEsc]
  split
  · next h => subst h; rw [List.cons_append, List.cons_append, List.nil_append, scanStr.eq_def]; simp [simpleEsc]
  split
  · next h => subst h; rw [List.cons_append, List.cons_append, List.nil_append, scanStr.eq_def]; simp [simpleEsc]
  split
  · next h1 h2 _ _ _ _ _ hp =>
    have : ¬ c.toNat < 32 := by omega
    rw [List.cons_append, List.nil_append, scanStr.eq_def]; simp [h1, h2, this]
  split
  · next hlt =>
    have hv := c.valid
    have hs : ¬ (0xd800 ≤ c.toNat ∧ c.toNat < 0xe000) := by
      rcases hv with h | h
      · have : c.toNat < 0xd800 := h; omega
      · have : 0xdfff < c.toNat := h.1; omega
    rw [scanStr_uEsc_bmp _ hlt hs, Char.ofNat_toNat]
  · next hge =>
    have hv := c.valid
    have hlt : c.toNat < 0x110000 := by
      rcases hv with h | h
      · have : c.toNat < 0xd800 := h; omega
      · exact h.2
    rw [List.append_assoc, scanStr_uEsc_pair _ _ (by omega) (by omega)]
    have : 0x10000 + ((0xd800 + (c.toNat - 0x10000) / 1024 - 0xd800) * 1024 +
        (0xdc00 + (c.toNat - 0x10000) % 1024 - 0xdc00)) = c.toNat := by omega
    rw [this, Char.ofNat_toNat]

/-- the escaping layer: a string literal is read back as the string, for every `Str` -/
theorem scanStr_escBody (s rest : Str) : scanStr (escBody s ++ '"' :: rest) = some (s, rest) := by
  induction s with
  | nil => rw [escBody, List.nil_append, scanStr.eq_def]; simp
  | cons c cs ih =>
    simp only [escBody, List.append_assoc]
    rw [scanStr_escChar, ih]
    rfl

/-! ### structure: arrays -/

theorem skipWs_cons (c : Char) (r : Str) (h : isWs c = false) : skipWs (c :: r) = c :: r := by
  simp [skipWs, h]

theorem encStr_append (v rest : Str) : encStr v ++ rest = '"' :: (escBody v ++ '"' :: rest) := by
  simp [encStr]

theorem parseElems_quote (r : Str) (v r1 : Str) (h : scanStr r = some (v, r1)) :
    parseElems ('"' :: r) =
      match skipWs r1 with
      | [] => none
      | c2 :: r2 =>
        if c2 = ']' then some ([v], r2)
        else if c2 = ',' then (parseElems (skipWs r2)).map (fun p => (v :: p.1, p.2))
        else none := by
  rw [parseElems]
  simp only [if_true]
  split
  · next h' => rw [h] at h'; cases h'
  · next v' r1' h' =>
    rw [h] at h'; cases h'
    split <;> simp_all

theorem parseElems_enc (l : List Str) : ∀ (v : Str) (rest : Str),
    parseElems (encElems (v :: l) ++ ']' :: rest) = some (v :: l, rest) := by
  induction l with
  | nil =>
    intro v rest
    simp only [encElems]
    rw [encStr_append, parseElems_quote _ _ _ (scanStr_escBody v _), skipWs_cons _ _ (by decide)]
    simp
  | cons w l ih =>
    intro v rest
    simp only [encElems, List.append_assoc, List.cons_append]
    rw [encStr_append, parseElems_quote _ _ _ (scanStr_escBody v _), skipWs_cons _ _ (by decide)]
    have hq : ∃ y, encElems (w :: l) ++ ']' :: rest = '"' :: y := by
      cases l with
      | nil => exact ⟨_, by simp only [encElems]; rw [encStr_append]⟩
      | cons x l' => exact ⟨_, by simp only [encElems, List.append_assoc]; rw [encStr_append]⟩
    obtain ⟨y, hy⟩ := hq
    have hs : skipWs (encElems (w :: l) ++ ']' :: rest) = encElems (w :: l) ++ ']' :: rest := by
      rw [hy]; exact skipWs_cons _ _ (by decide)
    simp only [show (',' : Char) ≠ ']' by decide, if_false, if_true]
    rw [hs, ih w rest]
    rfl

theorem parseArr_enc (l : List Str) (rest : Str) :
    parseArr (encElems l ++ ']' :: rest) = some (l, rest) := by
  unfold parseArr
  cases l with
  | nil =>
    simp only [encElems, List.nil_append]
    rw [skipWs_cons _ _ (by decide)]
    simp
  | cons v l =>
    have hq : ∃ y, encElems (v :: l) ++ ']' :: rest = '"' :: y := by
      cases l with
      | nil => exact ⟨_, by simp only [encElems]; rw [encStr_append]⟩
      | cons x l' => exact ⟨_, by simp only [encElems, List.append_assoc]; rw [encStr_append]⟩
    obtain ⟨y, hy⟩ := hq
    have := parseElems_enc l v rest
    rw [hy] at this ⊢
    rw [skipWs_cons _ _ (by decide)]
    simp only [show ('"' : Char) ≠ ']' by decide, if_false]
    exact this

theorem skipWs_nil : skipWs [] = [] := rfl

theorem stripBom_cons (c : Char) (r : Str) (h : c.toNat < 0x80) : stripBom (c :: r) = c :: r := by
  unfold stripBom
  have h1 : ¬ c.toNat = 0xfeff := by omega
  simp only [h1, if_false]
  split
  · next a b c3 r3 heq =>
    simp only [List.cons.injEq] at heq
    have : ¬ (a.toNat = 0xef ∧ b.toNat = 0xbb ∧ c3.toNat = 0xbf) := by rw [← heq.1]; omega
    simp [this]
  · rfl

/-- `extra`: `_unjsonify(_jsonify(l)) = l` for every list of strings -/
theorem decodeList_encodeList (l : List Str) : decodeList (encodeList l) = some l := by
  unfold decodeList encodeList
  rw [stripBom_cons _ _ (by decide), skipWs_cons _ _ (by decide)]
  simp only [if_true]
  rw [parseArr_enc l []]
  simp [skipWs_nil]

/-! ### structure: objects -/

theorem parseValue_encodeList (v : List Str) (rest : Str) :
    parseValue (encodeList v ++ rest) = some (PyVal.list v, rest) := by
  unfold parseValue encodeList
  simp only [List.cons_append, List.append_assoc, List.nil_append]
  simp only [show ('[' : Char) ≠ '"' by decide, if_false, if_true]
  rw [parseArr_enc]
  rfl

theorem parseMembers_step (r k r1 r2 : Str) (v : PyVal) (r3 : Str) (h : scanStr r = some (k, r1))
    (h2 : skipWs r1 = ':' :: r2) (h3 : parseValue (skipWs r2) = some (v, r3)) :
    parseMembers ('"' :: r) =
      match skipWs r3 with
      | [] => none
      | c4 :: r4 =>
        if c4 = '}' then some ([(k, v)], r4)
        else if c4 = ',' then (parseMembers (skipWs r4)).map (fun p => ((k, v) :: p.1, p.2))
        else none := by
  rw [parseMembers]
  simp only [if_true]
  split
  · next h' => rw [h] at h'; cases h'
  · next k' r1' h' =>
    rw [h] at h'; cases h'
    split
    · next h2' => rw [h2] at h2'; cases h2'
    · next c2 r2' h2' =>
      rw [h2] at h2'; cases h2'
      simp only [if_true]
      split
      · next h3' => rw [h3] at h3'; cases h3'
      · next v' r3' h3' =>
        rw [h3] at h3'; cases h3'
        split <;> simp_all

theorem encMembers_head (p : Str × List Str) (m : List (Str × List Str)) (rest : Str) :
    ∃ y, encMembers (p :: m) ++ rest = '"' :: y := by
  obtain ⟨k, v⟩ := p
  cases m with
  | nil => exact ⟨_, by simp only [encMembers, List.append_assoc]; rw [encStr_append]⟩
  | cons q m' => exact ⟨_, by simp only [encMembers, List.append_assoc]; rw [encStr_append]⟩

theorem parseMembers_enc (m : List (Str × List Str)) : ∀ (p : Str × List Str) (rest : Str),
    parseMembers (encMembers (p :: m) ++ '}' :: rest) =
      some ((p :: m).map (fun q => (q.1, PyVal.list q.2)), rest) := by
  induction m with
  | nil =>
    intro ⟨k, v⟩ rest
    simp only [encMembers, List.append_assoc, List.cons_append]
    rw [encStr_append]
    have h3 : parseValue (skipWs (encodeList v ++ '}' :: rest)) = some (PyVal.list v, '}' :: rest) := by
      have : encodeList v ++ '}' :: rest = '[' :: (encElems v ++ ']' :: '}' :: rest) := by simp [encodeList]
      rw [this, skipWs_cons _ _ (by decide), ← this]
      exact parseValue_encodeList v _
    rw [parseMembers_step _ _ _ _ _ _ (scanStr_escBody k _) (skipWs_cons _ _ (by decide)) h3,
        skipWs_cons _ _ (by decide)]
    simp
  | cons q m ih =>
    intro ⟨k, v⟩ rest
    simp only [encMembers, List.append_assoc, List.cons_append]
    rw [encStr_append]
    have h3 : ∀ X, parseValue (skipWs (encodeList v ++ X)) = some (PyVal.list v, X) := by
      intro X
      have : encodeList v ++ X = '[' :: (encElems v ++ ']' :: X) := by simp [encodeList]
      rw [this, skipWs_cons _ _ (by decide), ← this]
      exact parseValue_encodeList v _
    rw [parseMembers_step _ _ _ _ _ _ (scanStr_escBody k _) (skipWs_cons _ _ (by decide)) (h3 _),
        skipWs_cons _ _ (by decide)]
    simp only [show (',' : Char) ≠ '}' by decide, if_false, if_true]
    obtain ⟨y, hy⟩ := encMembers_head q m ('}' :: rest)
    have hs : skipWs (encMembers (q :: m) ++ '}' :: rest) = encMembers (q :: m) ++ '}' :: rest := by
      rw [hy]; exact skipWs_cons _ _ (by decide)
    rw [hs, ih q rest]
    rfl

/-- the pairs an encoded mapping is read back as: exactly the mapping, every value a list, in text order -/
theorem decodeObj_encodeAttrs (m : Attrs) :
    decodeObj (encodeAttrs m) = some (Dict.ofList (m.map (fun q => (q.1, PyVal.list q.2)))) := by
  unfold decodeObj encodeAttrs
  rw [stripBom_cons _ _ (by decide), skipWs_cons _ _ (by decide)]
  simp only [if_true]
  cases m with
  | nil =>
    simp only [encMembers, List.nil_append]
    rw [skipWs_cons _ _ (by decide)]
    simp [skipWs_nil, Dict.ofList]
  | cons p m =>
    obtain ⟨y, hy⟩ := encMembers_head p m ['}']
    have hm := parseMembers_enc m p []
    rw [hy] at hm ⊢
    rw [skipWs_cons _ _ (by decide)]
    simp only [show ('"' : Char) ≠ '}' by decide, if_false]
    rw [hm]
    simp [skipWs_nil]

end GffProofs.JsonRT
