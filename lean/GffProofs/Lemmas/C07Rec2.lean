import GffProofs.Lemmas.C07Rec

namespace GffProofs.C07
open GffModel GffModel.Parser GffModel.Grammar

/-- the `(key, values)` items `_reconstruct` iterates over for one attribute -/
def blockItems (s : LineSpec) (it : AttrItem) : List (Str × List Str) :=
  if s.repeated ∧ it.vals.length > 1 then it.vals.map (fun v => (it.key, [s.encVal v]))
  else [(it.key, it.vals.map s.encVal)]

def blockKeys (s : LineSpec) (it : AttrItem) : List Str :=
  if s.repeated ∧ it.vals.length > 1 then it.vals.map (fun _ => it.key) else [it.key]

theorem blockItems_key (s : LineSpec) (it : AttrItem) : ∀ a ∈ blockItems s it, a.1 = it.key := by
  intro a ha
  unfold blockItems at ha
  split at ha
  · obtain ⟨v, _, rfl⟩ := List.mem_map.mp ha; rfl
  · simp at ha; rw [ha]

theorem blockKeys_shape (s : LineSpec) (it : AttrItem) :
    ∃ tl, blockKeys s it = it.key :: tl ∧ ∀ k ∈ tl, k = it.key := by
  unfold blockKeys
  split
  · rename_i h
    cases hv : it.vals with
    | nil => rw [hv] at h; simp at h
    | cons v vs => exact ⟨vs.map (fun _ => it.key), by simp, by intro k hk; simp at hk; exact hk.2.symm⟩
  · exact ⟨[], rfl, by simp⟩

theorem findIdx_skip {α} (p : α → Bool) (l1 l2 : List α) (h : ∀ x ∈ l1, p x = false) :
    (l1 ++ l2).findIdx p = l1.length + l2.findIdx p := by
  rw [List.findIdx_append, List.findIdx_eq_length_of_false h]; simp; omega

theorem pairwise_blocks (s : LineSpec) (pre : List Str) (rest : List AttrItem)
    (hn : (rest.map (·.key)).Nodup) (hd : ∀ it ∈ rest, it.key ∉ pre) :
    (rest.flatMap (blockItems s)).Pairwise
      (fun a b => sortKeyLe (pre ++ rest.flatMap (blockKeys s)) a b = true) := by
  induction rest generalizing pre with
  | nil => simp
  | cons it rest ih =>
    simp only [List.flatMap_cons, List.pairwise_append]
    simp only [List.map_cons, List.nodup_cons] at hn
    obtain ⟨tl, htl, htl2⟩ := blockKeys_shape s it
    have hkpre : it.key ∉ pre := hd it (by simp)
    refine ⟨?_, ?_, ?_⟩
    · apply List.pairwise_of_forall_mem_list
      intro a ha b hb
      rw [sortKeyLe_eq, blockItems_key s it a ha, blockItems_key s it b hb]; simp
    · have := ih (pre ++ blockKeys s it) hn.2 (by
        intro it' hit' hmem
        rcases List.mem_append.mp hmem with h | h
        · exact hd it' (by simp [hit']) h
        · rw [htl] at h
          have : it'.key = it.key := by
            rcases List.mem_cons.mp h with h | h
            · exact h
            · exact htl2 _ h
          exact hn.1 (this ▸ List.mem_map.mpr ⟨it', hit', rfl⟩))
      simpa [List.append_assoc] using this
    · intro a ha b hb
      obtain ⟨it', hit', hb'⟩ := List.mem_flatMap.mp hb
      rw [sortKeyLe_eq, blockItems_key s it a ha, blockItems_key s it' b hb', decide_eq_true_iff]
      have hne : it'.key ≠ it.key := fun e => hn.1 (e ▸ List.mem_map.mpr ⟨it', hit', rfl⟩)
      have hk'pre : it'.key ∉ pre := hd it' (by simp [hit'])
      rw [htl, findIdx_skip _ pre _ (by intro x hx; simp; intro e; exact hkpre (e ▸ hx))]
      rw [findIdx_skip _ pre _ (by intro x hx; simp; intro e; exact hk'pre (e ▸ hx))]
      simp [List.findIdx_cons]

end GffProofs.C07
