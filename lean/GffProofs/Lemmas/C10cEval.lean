/-
  C10c — an evaluable copy of the GTF importer.  `List.mergeSort` / `List.merge` are defined by well-founded
  recursion, which the kernel does not unfold on literals; `esort` (fuel-driven) computes the same list
  (`esort_eq`).  `extent'`, `updRel'`, `createGtf'`, `update'` are the model functions with `esort` in place of
  `mergeSort`, proved EQUAL to the model functions for all arguments; they are only used to evaluate examples with
  `decide +kernel`.
-/
import GffProofs.Lemmas.C10cAux4

namespace GffProofs.C10c
open GffModel GffModel.Create GffModel.Interface
open GffProofs.C03

section sort
variable {α : Type} (le : α → α → Bool)

def mergeF : Nat → List α → List α → List α
  | 0, xs, ys => xs ++ ys
  | _ + 1, [], ys => ys
  | _ + 1, xs, [] => xs
  | n + 1, x :: xs, y :: ys => if le x y then x :: mergeF n xs (y :: ys) else y :: mergeF n (x :: xs) ys

theorem mergeF_eq : ∀ (n : Nat) (xs ys : List α), xs.length + ys.length ≤ n → mergeF le n xs ys = List.merge xs ys le := by
  intro n
  induction n with
  | zero =>
    intro xs ys h
    have h1 : xs = [] := List.eq_nil_of_length_eq_zero (by omega)
    have h2 : ys = [] := List.eq_nil_of_length_eq_zero (by omega)
    subst h1; subst h2; simp [mergeF]
  | succ n ih =>
    intro xs ys h
    cases xs with
    | nil => simp [mergeF]
    | cons x xs =>
      cases ys with
      | nil => simp [mergeF]
      | cons y ys =>
        simp only [mergeF, List.cons_merge_cons]
        simp only [List.length_cons] at h
        rw [ih xs (y :: ys) (by simp only [List.length_cons]; omega), ih (x :: xs) ys (by simp only [List.length_cons]; omega)]

def msF : Nat → List α → List α
  | 0, l => l
  | _ + 1, [] => []
  | _ + 1, [a] => [a]
  | n + 1, a :: b :: xs =>
    let l := a :: b :: xs
    let k := (l.length + 1) / 2
    mergeF le l.length (msF n (l.take k)) (msF n (l.drop k))

open List.MergeSort.Internal in
theorem msF_eq : ∀ (n : Nat) (l : List α), l.length ≤ n → msF le n l = l.mergeSort le := by
  intro n
  induction n with
  | zero =>
    intro l h
    have h1 : l = [] := List.eq_nil_of_length_eq_zero (by omega)
    subst h1; simp [msF]
  | succ n ih =>
    intro l h
    match l, h with
    | [], _ => simp [msF]
    | [a], _ => simp [msF]
    | a :: b :: xs, h =>
      rw [List.mergeSort]
      simp only [msF, splitInTwo_fst, splitInTwo_snd]
      simp only [List.length_cons] at h
      rw [ih _ (by simp only [List.length_take, List.length_cons]; omega),
        ih _ (by simp only [List.length_drop, List.length_cons]; omega)]
      apply mergeF_eq
      simp only [List.length_mergeSort, List.length_take, List.length_drop, List.length_cons]
      omega

/-- `mergeSort`, evaluable by the kernel -/
def esort (l : List α) : List α := msF le l.length l

theorem esort_eq (l : List α) : esort le l = l.mergeSort le := msF_eq le _ l (Nat.le_refl _)

end sort

/-! ### the importer with `esort` -/

def extent' (db : Db) (sub : Str) (parent : Str) : Option (Option Int × Option Int × Str × Str) :=
  let rows := (db.relations.filter (·.parent = parent)).filterMap (fun r =>
    match db.getRow? r.child with
    | some row => if row.ftype = sub then some row else none
    | none => none)
  match rows with
  | [] => none
  | r0 :: _ =>
    let starts := rows.filterMap (·.start)
    let stops := rows.filterMap (·.stop)
    let mx := stops.foldl (fun m x => match m with | none => some x | some y => some (max x y)) none
    let scanned := esort (fun (a b : Row) => strLe a.id b.id) rows
    let pick := match mx with
      | some m => (scanned.find? (fun (r : Row) => r.stop == some m)).getD r0
      | none => scanned.getLast?.getD r0
    some (starts.foldl (fun m x => match m with | none => some x | some y => some (min x y)) none,
          mx, pick.strand, pick.seqid)

theorem extent_eq' (db : Db) (sub parent : Str) : extent db sub parent = extent' db sub parent := by
  unfold extent extent'
  simp only [esort_eq]
  rfl

def step1' (cfg : Cfg) (db : Db) (acc : List Feature × Option Str) (tg : Str × Str) : Py (List Feature × Option Str) := do
  let (out, lastGene) := acc
  let (t, g) := tg
  let out ← if !cfg.disableTranscripts then do
      match extent' db cfg.subfeature t with
      | some ext =>
        let f ← derivedFeature "transcript".toList ext [(cfg.transcriptKey, [t]), (cfg.geneKey, [g])]
        pure (out ++ [f])
      | none => Except.error PyErr.type
    else pure out
  if !cfg.disableGenes then
    if some g ≠ lastGene then
      match extent' db cfg.subfeature g with
      | some ext =>
        let f ← derivedFeature "gene".toList ext [(cfg.geneKey, [g])]
        pure (out ++ [f], some g)
      | none => Except.error PyErr.type
    else pure (out, some g)
  else pure (out, lastGene)

theorem step1_eq' (cfg : Cfg) (db : Db) : step1 cfg db = step1' cfg db := by
  funext acc tg
  unfold step1 step1'
  simp only [extent_eq']
  rfl

def updRel' (cfg : Cfg) (db : Db) (auto : Dict Nat) : Py (Db × Dict Nat) :=
  if (cfg.disableGenes && cfg.disableTranscripts) = true then .ok (db, auto)
  else (esort (fun (a b : Str × Str) => strLe a.2 b.2) (pairsOf cfg db)).foldlM (step1' cfg db) ([], none) >>=
    fun r => r.1.foldlM (step2 cfg) (db, auto)

theorem updRel_eq' (cfg : Cfg) (db : Db) (auto : Dict Nat) : updateRelationsGtf cfg db auto = updRel' cfg db auto := by
  rw [updateRelationsGtf_eq]
  unfold updRel' sortedPairs
  rw [esort_eq, step1_eq']

def createGtf' (cfg : Cfg) (dirs : List Str) (fs : List Feature) : Py Db :=
  match populateGtf cfg {} [] fs with
  | .error e => .error e
  | .ok (db, auto) =>
    match updRel' cfg db auto with
    | .error e => .error e
    | .ok (db, auto) => .ok (finalize db cfg.dialect dirs auto)

theorem createGtf_eq' (cfg : Cfg) (dirs : List Str) (fs : List Feature) :
    createDb .gtf cfg dirs fs = createGtf' cfg dirs fs := by
  unfold createGtf'
  simp only [createDb, bind, Except.bind, pure, Except.pure]
  cases populateGtf cfg {} [] fs with
  | error e => rfl
  | ok r =>
    obtain ⟨db, auto⟩ := r
    simp only [updRel_eq']
    cases updRel' cfg db auto with
    | error e => rfl
    | ok r2 => rfl

/-- `update` on a GTF database -/
def updateGtf' (s : Session) (cfg : Cfg) (fs : List Feature) : Py Session :=
  match populateGtf cfg s.db s.auto fs with
  | .error e => .error e
  | .ok (db, auto) =>
    match updRel' cfg db auto with
    | .error e => .error e
    | .ok (db, auto) => .ok { s with db := finalize db cfg.dialect [] auto, auto := auto }

theorem updateGtf_eq' (s : Session) (cfg : Cfg) (fs : List Feature) (hne : fs ≠ []) (hfmt : s.dialect.fmt = Parser.gtf) :
    update s cfg fs = updateGtf' s cfg fs := by
  rw [(C05.update_same_as_create s cfg fs).2.1 hne hfmt]
  unfold updateGtf'
  cases populateGtf cfg s.db s.auto fs with
  | error e => rfl
  | ok r =>
    obtain ⟨db, auto⟩ := r
    simp only [updRel_eq']
    rfl

/-! ### evaluable histories -/

/-- one `update`, `none` when it fails or is not a non-empty update of a GTF database -/
def stepE (cfg : Cfg) (s : Session) (b : List Feature) : Option Session :=
  if s.dialect.fmt = Parser.gtf ∧ b.isEmpty = false then (updateGtf' s cfg b).toOption else none

theorem stepE_sound {cfg : Cfg} {s s' : Session} {b : List Feature} (h : stepE cfg s b = some s') :
    update s cfg b = .ok s' := by
  unfold stepE at h
  split at h
  · rename_i hc
    have hne : b ≠ [] := by intro e; rw [e] at hc; exact absurd hc.2 (by simp)
    rw [updateGtf_eq' s cfg b hne hc.1]
    cases hu : updateGtf' s cfg b with
    | error e => rw [hu] at h; cases h
    | ok s1 => rw [hu] at h; cases h; rfl
  · cases h

theorem foldE_sound (cfg : Cfg) : ∀ (bs : List (List Feature)) (s sE : Session),
    bs.foldlM (stepE cfg) s = some sE → updates cfg s bs = .ok sE := by
  intro bs
  induction bs with
  | nil => intro s sE h; cases h; rfl
  | cons b bs ih =>
    intro s sE h
    rw [List.foldlM_cons] at h
    cases h1 : stepE cfg s b with
    | none => rw [h1] at h; cases h
    | some s1 =>
      rw [h1] at h
      simp only [updates, stepE_sound h1, bind, Except.bind]
      exact ih s1 sE h

/-- `create_db(b0)`, open, `update` with each batch -/
def runE (cfg : Cfg) (b0 : List Feature) (bs : List (List Feature)) : Option Session :=
  (createGtf' cfg [] b0).toOption.bind fun db0 => (openDb db0).toOption.bind fun s0 => bs.foldlM (stepE cfg) s0

theorem runE_sound {cfg : Cfg} {b0 : List Feature} {bs : List (List Feature)} {sE : Session}
    (h : runE cfg b0 bs = some sE) :
    ∃ db0 s0, createDb .gtf cfg [] b0 = .ok db0 ∧ openDb db0 = .ok s0 ∧ updates cfg s0 bs = .ok sE := by
  unfold runE at h
  rw [createGtf_eq']
  cases hc : createGtf' cfg [] b0 with
  | error e => rw [hc] at h; cases h
  | ok db0 =>
    rw [hc] at h
    simp only [Except.toOption, Option.bind_some] at h
    cases ho : openDb db0 with
    | error e => rw [ho] at h; cases h
    | ok s0 =>
      rw [ho] at h
      exact ⟨db0, s0, rfl, ho, foldE_sound cfg bs s0 sE h⟩

/-- from an evaluated view of the final session to a statement about the model -/
theorem runE_view {α : Type} {cfg : Cfg} {b0 : List Feature} {bs : List (List Feature)} (view : Session → α) {v : α}
    (h : (runE cfg b0 bs).map view = some v) :
    ∃ db0 s0 s', createDb .gtf cfg [] b0 = .ok db0 ∧ openDb db0 = .ok s0 ∧ updates cfg s0 bs = .ok s' ∧ view s' = v := by
  cases hr : runE cfg b0 bs with
  | none => rw [hr] at h; cases h
  | some sE =>
    rw [hr] at h
    obtain ⟨db0, s0, h1, h2, h3⟩ := runE_sound hr
    exact ⟨db0, s0, sE, h1, h2, h3, by simpa using h⟩

theorem createE_view {α : Type} {cfg : Cfg} {fs : List Feature} (view : Db → α) {v : α}
    (h : (createGtf' cfg [] fs).toOption.map view = some v) :
    ∃ db, createDb .gtf cfg [] fs = .ok db ∧ view db = v := by
  rw [createGtf_eq']
  cases hc : createGtf' cfg [] fs with
  | error e => rw [hc] at h; cases h
  | ok db => rw [hc] at h; exact ⟨db, rfl, by simpa [Except.toOption] using h⟩

end GffProofs.C10c
