/-
  Helper lemmas for C01, part A (continued): `_reconstruct` with `keep_order=True` under an arbitrary
  key order, and the line level (`feature_from_line` with a provided dialect, `str(feature)`).
-/
import GffProofs.Lemmas.C01Aux
import GffProofs.Props.C07Line

namespace GffProofs.C01
open GffModel GffModel.Parser GffModel.Grammar
open GffProofs.C07 (blockItems blockKeys ColFacts Bad featureCols)

/-! ### `_reconstruct`, `keep_order=True`, arbitrary `order` -/

theorem itemTextD_dOf (s : LineSpec) (ord : List Str) : C07.itemTextD (dOf s ord) = C07.itemText s := by
  funext kv; rfl

/-- if the written items are already sorted by the `sort_key` of `ord`, printing reproduces the text -/
theorem prov_reconstruct (s : LineSpec) (P : PFacts s) (ord : List Str)
    (hp : (its s).Pairwise (fun a b => sortKeyLe ord a b = true)) :
    reconstruct s.mapping (some (dOf s ord)) true false = .ok (renderAttrs s) := by
  by_cases he : s.attrs = []
  · simp [reconstruct, LineSpec.mapping, renderAttrs, he]
  · have he' : s.attrs.isEmpty = false := by simpa using he
    have hm : s.mapping.isEmpty = false := by simpa [LineSpec.mapping] using he
    rw [C07.reconstruct_some, hm]
    unfold renderAttrs C07.recText
    simp only [he', Bool.false_eq_true, if_false]
    show Except.ok (if s.trailing = true then _ else _) = _
    have h1 : (dOf s ord).fmt = s.fmt := rfl
    have h2 : (dOf s ord).repeatedKeys = s.repeated := rfl
    have h3 : (dOf s ord).order = ord := rfl
    have h4 : (dOf s ord).fieldSep = s.sep := rfl
    simp only [h1, h2, h3, h4]
    rw [C07.attributes_eq s P.nodup, C07.items_eq s]
    rw [List.mergeSort_of_pairwise (by simpa [its] using hp)]
    rw [itemTextD_dOf, List.map_flatMap]
    have : s.attrs.flatMap (fun a => (blockItems s a).map (C07.itemText s)) = s.attrs.flatMap (renderItem s) := by
      rw [List.flatMap_def, List.flatMap_def]; congr 1
      apply List.map_congr_left
      intro it hit
      exact C07.block_text s it (fun v hv => C07.valOk_ne_nil s v (P.val it hit v hv))
    rw [this]

/-- the keys of the written parts -/
theorem its_keys (s : LineSpec) : (its s).map (·.1) = s.attrs.flatMap (blockKeys s) := by
  unfold its
  rw [List.map_flatMap, List.flatMap_def, List.flatMap_def]; congr 1
  apply List.map_congr_left
  intro it _
  unfold blockItems blockKeys
  split <;> simp [List.map_map, Function.comp_def]

/-- the `sort_key` order on items, from the rank order on their keys -/
theorem its_pairwise (s : LineSpec) (ord : List Str)
    (h : (s.attrs.flatMap (blockKeys s)).Pairwise
      (fun a b => decide (ord.findIdx (· = a) ≤ ord.findIdx (· = b)) = true)) :
    (its s).Pairwise (fun a b => sortKeyLe ord a b = true) := by
  rw [← its_keys, List.pairwise_map] at h
  refine h.imp ?_
  intro a b hab
  rw [C07.sortKeyLe_eq]; exact hab

/-- the line's own part keys are sorted by their own first-seen order -/
theorem own_order_pairwise (s : LineSpec) (P : PFacts s) :
    (its s).Pairwise (fun a b => sortKeyLe (s.attrs.flatMap (blockKeys s)) a b = true) := by
  simpa [its] using C07.pairwise_blocks s [] s.attrs P.nodup (by simp)

/-! ### the tab-separated line -/

/-- the rendered attribute column contains no tab, CR or LF -/
theorem renderAttrs_clean (s : LineSpec) (P : PFacts s) (c : Char) (hc : Bad c) : c ∉ renderAttrs s := by
  have hsemi : c ≠ ';' := by rcases hc with rfl | rfl | rfl <;> decide
  have hbody : c ∉ Str.join s.sep (s.attrs.flatMap (renderItem s)) := by
    intro hm
    rcases C07.mem_join _ _ c hm with hm | ⟨p, hp, hcp⟩
    · rcases P.sep with e | e | e <;> rw [e] at hm <;> rcases hc with rfl | rfl | rfl <;>
        exact absurd hm (by decide)
    · obtain ⟨it, hit, hp⟩ := List.mem_flatMap.mp hp
      rcases C07.mem_renderItem s it p hp c hcp with hk | hk | hk | hk | ⟨v, hv, hk⟩
      · have := P.key it hit
        unfold keyOk at this
        simp only [Bool.and_eq_true] at this
        refine C07.noneOf_not_mem _ _ this.1.1.2 c ?_ hk
        rcases hc with rfl | rfl | rfl <;> simp
      · rcases C07.kvSep_cases s with ⟨_, e⟩ | ⟨_, e⟩ <;> rw [e] at hk <;> rcases hc with rfl | rfl | rfl <;>
          exact absurd hk (by decide)
      · rcases hc with rfl | rfl | rfl <;> exact absurd hk (by decide)
      · rcases hc with rfl | rfl | rfl <;> exact absurd hk (by decide)
      · have := P.val it hit v hv
        unfold valOk at this
        simp only [Bool.and_eq_true] at this
        refine C07.noneOf_not_mem _ _ this.1.1.2 c ?_ hk
        rcases hc with rfl | rfl | rfl <;> simp
  unfold renderAttrs
  split
  · simp
  · simp only
    split
    · intro hm
      rcases List.mem_append.mp hm with hm | hm
      · exact hbody hm
      · simp only [List.mem_cons, List.not_mem_nil, or_false] at hm; exact hsemi hm
    · exact hbody

/-- the tab-separated fields come back -/
theorem strict_fields (s : LineSpec) (P : PFacts s) (C : ColFacts s) :
    Str.splitChar '\t' (Str.rstripChars ['\n', '\r'] (renderLine s)) = s.cols ++ [renderAttrs s] ++ s.extra := by
  have hf : ∀ f ∈ s.cols ++ [renderAttrs s] ++ s.extra, ∀ c, Bad c → c ∉ f := by
    intro f hf c hc
    simp only [List.mem_append, List.mem_cons, List.not_mem_nil, or_false] at hf
    rcases hf with (hf | hf) | hf
    · exact C07.colOk_not_mem f (C.cols f hf) c hc
    · rw [hf]; exact renderAttrs_clean s P c hc
    · exact C07.colOk_not_mem f (C.extra f hf) c hc
  have hclean : ∀ c ∈ renderLine s, ['\n', '\r'].contains c = false := by
    intro c hc
    rcases C07.mem_join _ _ c hc with hm | ⟨p, hp, hcp⟩
    · simp only [List.mem_cons, List.not_mem_nil, or_false] at hm; subst hm; decide
    · have hn : c ≠ '\n' := fun e => hf p hp c (Or.inr (Or.inr e)) hcp
      have hr : c ≠ '\r' := fun e => hf p hp c (Or.inr (Or.inl e)) hcp
      simp [hn, hr]
  rw [C07.rstripChars_id _ _ hclean]
  exact C07.splitChar_join '\t' _ (by simp) (fun f hfm => hf f hfm '\t' (Or.inl rfl))

/-- what `feature_from_line` does with a provided dialect once the fields are known -/
def fromFieldsP (fields : List Str) (d : Dialect) (ko : Bool) : Py Feature := do
  let (attrs, _) ← Parser.splitKeyvals ((fields[8]?).getD []) (some d) false
  Feature.mk' (fields.take 8) attrs (fields.drop 9) d ko

theorem featureFromLine_strictP (line : Str) (d : Dialect) (ko : Bool) :
    featureFromLine line (some d) true ko =
      fromFieldsP (Str.splitChar '\t' (Str.rstripChars ['\n', '\r'] line)) d ko := by
  unfold featureFromLine fromFieldsP
  simp only [if_true, bind, Except.bind, pure, Except.pure, Option.getD_some]

theorem coordOf_ok (c : Str) (h : c = ['.'] ∨ canonInt c = true) :
    Feature.parseCoord c = .ok (coordOf c) ∧ Feature.coordStr (coordOf c) = c := by
  obtain ⟨o, h1, h2⟩ := C07.coord_ok c h
  have : coordOf c = o := by unfold coordOf; rw [h1]
  rw [this]; exact ⟨h1, h2⟩

/-- **`feature_from_line` with a provided dialect on a rendered line** -/
theorem strict_featureP (s : LineSpec) (P : PFacts s) (C : ColFacts s) (ord : List Str) (ko : Bool) :
    featureFromLine (renderLine s) (some (dOf s ord)) true ko = .ok (provFeature s (dOf s ord) ko) ∧
    featureCols (provFeature s (dOf s ord) ko) = s.cols := by
  have hlen := C.len
  have hc3 := C.c3
  have hc4 := C.c4
  rw [featureFromLine_strictP, strict_fields s P C]
  have hi := prov_parse s P ord
  generalize hD : dOf s ord = D at hi ⊢
  generalize hra : renderAttrs s = ra at hi ⊢
  generalize hmp : s.mapping = mp at hi
  unfold provFeature
  rw [hmp]
  obtain ⟨cols, sep, trailing, style, quoted, repeated, attrs, extra⟩ := s
  simp only at hlen hc3 hc4 ⊢
  match cols, hlen with
  | [c0, c1, c2, c3, c4, c5, c6, c7], _ =>
    simp only [List.getElem?_cons_succ, List.getElem?_cons_zero, Option.getD_some] at hc3 hc4 ⊢
    obtain ⟨hp3, hs3⟩ := coordOf_ok c3 hc3
    obtain ⟨hp4, hs4⟩ := coordOf_ok c4 hc4
    constructor
    · simp only [fromFieldsP, List.cons_append, List.nil_append, List.getElem?_cons_succ,
        List.getElem?_cons_zero, Option.getD_some, hi, bind, Except.bind]
      simp [Feature.mk', hp3, hp4, bind, Except.bind, pure, Except.pure]
    · simp [featureCols, hs3, hs4]

/-- **`str(feature)`** for any Feature that carries the specification's columns, mapping and extra
columns, a dialect under which `_reconstruct` reproduces the attribute text, `keep_order=True` -/
theorem print_of_fields (f : Feature) (s : LineSpec)
    (hcols : featureCols f = s.cols) (hattrs : f.attrs = s.mapping) (hextra : f.extra = s.extra)
    (hko : f.keepOrder = true) (hsv : f.sortVals = false)
    (hrec : reconstruct s.mapping (some f.dialect) true false = .ok (renderAttrs s)) :
    f.print = .ok (renderLine s) := by
  unfold Feature.print
  rw [hattrs, hko, hsv]
  have hrec' : reconstruct s.mapping (some f.dialect) true false false = .ok (renderAttrs s) := hrec
  simp only [hrec', bind, Except.bind, pure, Except.pure]
  unfold renderLine
  rw [← hcols, hextra]
  unfold featureCols
  generalize renderAttrs s = ra
  cases s.extra with
  | nil => simp
  | cons e es =>
    simp only [List.isEmpty_cons, Bool.false_eq_true, if_false]
    rw [C07.join_append_join _ _ _ (by simp) (by simp)]
    simp

end GffProofs.C01
