/-
  C05c, generic layer 2 — the whole-import theorem for the `merge` strategy (C05b) proved for an abstract
  importer `Imp α` (see `C05cAux.lean`): arbitrary key function, arbitrary link function, arbitrary
  configuration with `strategy = merge` (any `force_merge_fields`, any dialect).  The proofs are those of
  C05bAux / C05b with `keyOf` replaced by `key`, `linksOf` by `link`, `attachParents` by `attach`.
-/
import GffProofs.Lemmas.C05cAux

namespace GffProofs.C05
open GffModel GffModel.Create GffModel.Interface
open GffProofs.C04 (autoId incr_spec IdsNodup)
open GffProofs.C02 (idOf parentsOf gffCfg)

section placements
variable {α : Type} (key : α → Str)

/-- how many arrivals of `l` carry key `k` -/
def cntKeyBy (k : Str) (l : List α) : Nat := (l.filter (fun a => key a = k)).length

theorem cntKeyBy_append (k : Str) (a b : List α) : cntKeyBy key k (a ++ b) = cntKeyBy key k a + cntKeyBy key k b := by
  simp [cntKeyBy, List.filter_append]

theorem cntKeyBy_cons (k : Str) (f : α) (l : List α) :
    cntKeyBy key k (f :: l) = (if key f = k then 1 else 0) + cntKeyBy key k l := by
  unfold cntKeyBy
  by_cases h : key f = k
  · rw [List.filter_cons_of_pos (by simpa using h), if_pos h]; simp only [List.length_cons]; omega
  · rw [List.filter_cons_of_neg (by simpa using h), if_neg h]; omega

theorem cntKeyBy_pos_of_mem (k : Str) (l : List α) (f : α) (hf : f ∈ l) (hk : key f = k) :
    0 < cntKeyBy key k l := by
  unfold cntKeyBy
  exact List.length_pos_of_mem (List.mem_filter.mpr ⟨hf, by simpa using hk⟩)

theorem cntKeyBy_zero_iff (k : Str) (l : List α) : cntKeyBy key k l = 0 ↔ ∀ f ∈ l, key f ≠ k := by
  unfold cntKeyBy
  rw [List.length_eq_zero_iff, List.filter_eq_nil_iff]
  simp

theorem cntKey_keyOf : cntKey = cntKeyBy keyOf := rfl

/-- the id of a group whose key `k` was held by the groups `pre` before: `k`, or `k_<number of holders>` -/
theorem uidBy_eq (pre : List α) (k : Str) :
    uniqueIdBy key [] [] pre k = if cntKeyBy key k pre = 0 then k else autoId k (cntKeyBy key k pre) := by
  unfold uniqueIdBy priorCountBy cntKeyBy
  simp [Dict.get?]

theorem placementsBy_snoc (ids0 : List Str) (auto0 : Dict Nat) (pre rest : List α) (x : α) :
    placementsBy key ids0 auto0 pre (rest ++ [x]) =
      placementsBy key ids0 auto0 pre rest ++ [(x, uniqueIdBy key ids0 auto0 (pre ++ rest) (key x))] := by
  induction rest generalizing pre with
  | nil => simp [placementsBy]
  | cons r rest ih => simp [placementsBy, ih]

theorem placementsBy_map_fst (ids0 : List Str) (auto0 : Dict Nat) (pre rest : List α) :
    (placementsBy key ids0 auto0 pre rest).map (·.1) = rest := by
  induction rest generalizing pre with
  | nil => rfl
  | cons r rest ih => simp [placementsBy, ih]

theorem placesBy_id_cases (before reps : List α) (p : α × Str) (hp : p ∈ placementsBy key [] [] before reps) :
    p.1 ∈ reps ∧ ∃ c, cntKeyBy key (key p.1) before ≤ c ∧ c < cntKeyBy key (key p.1) (before ++ reps) ∧
      p.2 = if c = 0 then key p.1 else autoId (key p.1) c := by
  induction reps generalizing before with
  | nil => cases hp
  | cons r rest ih =>
    simp only [placementsBy, List.mem_cons] at hp
    rcases hp with rfl | hp
    · refine ⟨by simp, cntKeyBy key (key r) before, Nat.le_refl _, ?_, uidBy_eq key before (key r)⟩
      show cntKeyBy key (key r) before < cntKeyBy key (key r) (before ++ r :: rest)
      rw [cntKeyBy_append, cntKeyBy_cons, if_pos rfl]; omega
    · obtain ⟨hm, c, h1, h2, h3⟩ := ih (before ++ [r]) hp
      refine ⟨List.mem_cons_of_mem _ hm, c, ?_, ?_, h3⟩
      · rw [cntKeyBy_append] at h1; omega
      · rw [List.append_assoc] at h2; exact h2

/-- **keys and generated ids never clash**: no key is of the form `<key'>_<n>` -/
def FreshKeysBy (l : List α) : Prop := ∀ r ∈ l, ∀ r' ∈ l, ∀ n, 0 < n → key r' ≠ autoId (key r) n

theorem freshKeysBy_of_fresh (fs : List α) (h : FreshBy key [] [] fs) : FreshKeysBy key fs := by
  intro r hr r' hr' n hn
  exact (h r hr n (by simpa [Dict.get?] using hn)).2 r' hr'

theorem FreshKeysBy.sub {key : α → Str} {l l' : List α} (h : FreshKeysBy key l) (hs : ∀ x ∈ l', x ∈ l) :
    FreshKeysBy key l' :=
  fun r hr r' hr' n hn => h r (hs r hr) r' (hs r' hr') n hn

theorem newIdBy_not_mem (reps : List α) (x : α) (hF : FreshKeysBy key (reps ++ [x])) :
    uniqueIdBy key [] [] reps (key x) ∉ (placementsBy key [] [] [] reps).map (·.2) := by
  intro hmem
  obtain ⟨p, hp, he⟩ := List.mem_map.mp hmem
  obtain ⟨hp1, c, _, hc, hid⟩ := placesBy_id_cases key [] reps p hp
  rw [List.nil_append] at hc
  rw [uidBy_eq] at he
  have hx : x ∈ reps ++ [x] := by simp
  have hp1' : p.1 ∈ reps ++ [x] := List.mem_append_left _ hp1
  by_cases hc0 : c = 0
  · rw [if_pos hc0] at hid
    by_cases hn0 : cntKeyBy key (key x) reps = 0
    · rw [if_pos hn0] at he
      have := (cntKeyBy_zero_iff key _ _).mp hn0 p.1 hp1
      exact this (by rw [← hid, he])
    · rw [if_neg hn0] at he
      exact hF x hx p.1 hp1' _ (Nat.pos_of_ne_zero hn0) (by rw [← hid, he])
  · rw [if_neg hc0] at hid
    by_cases hn0 : cntKeyBy key (key x) reps = 0
    · rw [if_pos hn0] at he
      exact hF p.1 hp1' x hx c (Nat.pos_of_ne_zero hc0) (by rw [← he, hid])
    · rw [if_neg hn0] at he
      rw [hid] at he
      obtain ⟨hk, hn⟩ := autoId_inj _ _ _ _ he
      rw [hk] at hc
      omega

/-- **the ids given to the groups are pairwise different** -/
theorem placesBy_ids_nodup (reps : List α) (hF : FreshKeysBy key reps) :
    ((placementsBy key [] [] [] reps).map (·.2)).Nodup := by
  induction reps using snoc_induction with
  | h0 => simp [placementsBy]
  | hs reps x ih =>
    rw [placementsBy_snoc, List.map_append, List.nodup_append]
    refine ⟨ih (hF.sub (fun y hy => List.mem_append_left _ hy)), by simp, ?_⟩
    intro a ha b hb
    simp only [List.map_cons, List.map_nil, List.mem_singleton, List.nil_append] at hb
    subst hb
    intro e
    exact newIdBy_not_mem key reps x hF (e ▸ ha)

theorem placesBy_id_eq_key (reps : List α) (p : α × Str) (hp : p ∈ placementsBy key [] [] [] reps) (k : Str)
    (hk : ∀ r ∈ reps, ∀ n, 0 < n → k ≠ autoId (key r) n) :
    p.2 = k ↔ (key p.1 = k ∧ p.2 = key p.1) := by
  obtain ⟨hp1, c, _, _, hid⟩ := placesBy_id_cases key [] reps p hp
  constructor
  · intro h
    by_cases hc0 : c = 0
    · rw [if_pos hc0] at hid; exact ⟨by rw [← hid, h], hid⟩
    · rw [if_neg hc0] at hid
      exact absurd (by rw [← h, hid]) (hk p.1 hp1 c (Nat.pos_of_ne_zero hc0))
  · rintro ⟨h1, h2⟩; rw [h2, h1]

theorem placesBy_has_key (before reps : List α) (k : Str) (h0 : cntKeyBy key k before = 0)
    (h : 0 < cntKeyBy key k reps) :
    ∃ p ∈ placementsBy key [] [] before reps, key p.1 = k ∧ p.2 = k := by
  induction reps generalizing before with
  | nil => simp [cntKeyBy] at h
  | cons r rest ih =>
    by_cases hr : key r = k
    · refine ⟨(r, uniqueIdBy key [] [] before (key r)), by simp [placementsBy], hr, ?_⟩
      show uniqueIdBy key [] [] before (key r) = k
      rw [uidBy_eq, hr, if_pos h0]
    · rw [cntKeyBy_cons, if_neg hr, Nat.zero_add] at h
      have h0' : cntKeyBy key k (before ++ [r]) = 0 := by
        rw [cntKeyBy_append, h0, cntKeyBy_cons, if_neg hr]; rfl
      obtain ⟨p, hp, h1, h2⟩ := ih (before ++ [r]) h0' h
      exact ⟨p, by simp only [placementsBy, List.mem_cons]; exact Or.inr hp, h1, h2⟩

end placements

/-! ### candidates of a key in a database that holds one row per placed element -/

section places
variable {α : Type} (key : α → Str) (db : Db) (P : List (α × Str)) (R : α × Str → Row)

theorem getRow_placesG (hid : ∀ p, (R p).id = p.2) (hf : db.features = P.map R) (k : Str) :
    db.getRow? k = (P.find? (fun p => p.2 = k)).map R := by
  unfold Db.getRow?
  rw [hf, List.find?_map]
  congr 2
  funext q
  simp [hid]

theorem getRow_placeG (hid : ∀ p, (R p).id = p.2) (hf : db.features = P.map R) (hnd : (P.map (·.2)).Nodup)
    (p : α × Str) (hp : p ∈ P) : db.getRow? p.2 = some (R p) := by
  rw [getRow_placesG db P R hid hf, find?_of_nodup_key (·.2) P hnd p hp]; rfl

theorem candRows_placesG (hid : ∀ p, (R p).id = p.2) (hf : db.features = P.map R)
    (hd : db.duplicates = (P.filter (fun p => p.2 ≠ key p.1)).map (fun p => (key p.1, p.2)))
    (hnd : (P.map (·.2)).Nodup) (k : Str) :
    candRows db k = ((P.filter (fun p => p.2 = k)) ++
      ((P.filter (fun p => p.2 ≠ key p.1)).filter (fun p => key p.1 = k))).map R := by
  unfold candRows
  rw [List.map_append]
  congr 1
  · rw [getRow_placesG db P R hid hf, ← find?_toList_eq_filter (·.2) P hnd k]
    cases P.find? (fun p => p.2 = k) <;> rfl
  · rw [hd, List.filterMap_map, ← filterMap_ite_some]
    apply filterMap_congr'
    intro p hp
    have hp' : p ∈ P := (List.mem_filter.mp hp).1
    simp only [Function.comp, getRow_placeG db P R hid hf hnd p hp', decide_eq_true_eq]

theorem cand_permG (k : Str) (hk : ∀ p ∈ P, (p.2 = k ↔ key p.1 = k ∧ p.2 = key p.1)) :
    ((P.filter (fun p => p.2 = k)) ++
      ((P.filter (fun p => p.2 ≠ key p.1)).filter (fun p => key p.1 = k))).Perm
    (P.filter (fun p => key p.1 = k)) := by
  have hA : P.filter (fun p => p.2 = k) =
      (P.filter (fun p => key p.1 = k)).filter (fun p => decide (p.2 = key p.1)) := by
    rw [List.filter_filter]
    apply List.filter_congr
    intro p hp
    have := hk p hp
    by_cases h1 : p.2 = k <;> by_cases h2 : key p.1 = k <;> by_cases h3 : p.2 = key p.1 <;> simp_all
  have hB : (P.filter (fun p => p.2 ≠ key p.1)).filter (fun p => key p.1 = k) =
      (P.filter (fun p => key p.1 = k)).filter (fun p => !decide (p.2 = key p.1)) := by
    rw [List.filter_filter, List.filter_filter]
    apply List.filter_congr
    intro p _
    by_cases h2 : key p.1 = k <;> by_cases h3 : p.2 = key p.1 <;> simp_all
  rw [hA, hB]
  exact List.filter_append_perm _ _

end places

theorem agreesB_sigC (cfg : Cfg) (f ex : Feature) :
    agreesB cfg f ex = true ↔
      (checkCols cfg.forceMergeFields).map (colText ex) = (checkCols cfg.forceMergeFields).map (colText f) := by
  unfold agreesB checkCols
  simp only [List.all_eq_true, beq_iff_eq, List.map_inj_left]

theorem mergeInto_cfg (cfg : Cfg) (d : Dialect) (f : Feature) (M : List Feature) (r : Row) :
    mergeInto cfg f M r = mergeInto (mergeCfg d cfg.forceMergeFields) f M r := rfl

/-! ### the grouping specification, one more arrival -/

section grouping
variable {α : Type} (feat : α → Feature) (key : α → Str)

theorem groupRepsBy_sublist (fmf : List Str) (fs : List α) : (groupRepsBy feat key fmf fs).Sublist fs :=
  firstsBy_sublist _ _ _

theorem groupRepsBy_nodup (fmf : List Str) (fs : List α) :
    ((groupRepsBy feat key fmf fs).map (groupKeyBy feat key fmf)).Nodup :=
  (firstsBy_keys _ _ _).1

theorem groupRepsBy_cover (fmf : List Str) (fs : List α) (f : α) (hf : f ∈ fs) :
    ∃ r ∈ groupRepsBy feat key fmf fs, groupKeyBy feat key fmf r = groupKeyBy feat key fmf f :=
  (mem_firstsBy_key _ [] fs _).mpr ⟨by simp, f, hf, rfl⟩

/-- the listed arrival of a group is the FIRST arrival of that group -/
theorem groupRepsBy_first (fmf : List Str) (fs : List α) (f : α) :
    (groupRepsBy feat key fmf fs).find? (fun r => groupKeyBy feat key fmf r = groupKeyBy feat key fmf f) =
      fs.find? (fun r => groupKeyBy feat key fmf r = groupKeyBy feat key fmf f) :=
  firstsBy_find _ [] fs _ (by simp)

theorem placeRowBy_id (fmf : List Str) (pre : List α) (p : α × Str) : (placeRowBy feat key fmf pre p).id = p.2 := rfl

theorem groupPlacesBy_fst (fmf : List Str) (pre : List α) :
    (groupPlacesBy feat key fmf pre).map (·.1) = groupRepsBy feat key fmf pre := placementsBy_map_fst _ _ _ _ _

theorem groupPlacesBy_mem (fmf : List Str) (pre : List α) (p : α × Str) (hp : p ∈ groupPlacesBy feat key fmf pre) :
    p.1 ∈ groupRepsBy feat key fmf pre ∧ p.1 ∈ pre := by
  have : p.1 ∈ (groupPlacesBy feat key fmf pre).map (·.1) := List.mem_map.mpr ⟨p, hp, rfl⟩
  rw [groupPlacesBy_fst] at this
  exact ⟨this, (groupRepsBy_sublist feat key fmf pre).subset this⟩

theorem groupPlacesBy_keys_nodup (fmf : List Str) (pre : List α) :
    ((groupPlacesBy feat key fmf pre).map (fun p => groupKeyBy feat key fmf p.1)).Nodup := by
  have := groupRepsBy_nodup feat key fmf pre
  rw [← groupPlacesBy_fst, List.map_map] at this
  exact this

theorem groupOfBy_sub (fmf : List Str) (pre : List α) (r : α) : ∀ g ∈ groupOfBy feat key fmf pre r, g ∈ pre :=
  fun _ hg => (List.mem_filter.mp hg).1

theorem mem_groupOfBy (fmf : List Str) (fs : List α) (r g : α) :
    g ∈ groupOfBy feat key fmf fs r ↔ g ∈ fs ∧ groupKeyBy feat key fmf g = groupKeyBy feat key fmf r := by
  unfold groupOfBy; simp

theorem MergeDomainBy.sub {feat : α → Feature} {key : α → Str} {fs fs' : List α}
    (h : MergeDomainBy feat key fs) (hs : ∀ x ∈ fs', x ∈ fs) : MergeDomainBy feat key fs' where
  fresh := fun f hf n hn => ⟨by simp, fun g hg => (h.fresh f (hs f hf) n hn).2 g (hs g hg)⟩
  noTab := fun f hf => h.noTab f (hs f hf)

theorem freshKeysBy_reps (fmf : List Str) (fs : List α) (h : MergeDomainBy feat key fs) :
    FreshKeysBy key (groupRepsBy feat key fmf fs) :=
  (freshKeysBy_of_fresh key fs h.fresh).sub (fun _ hx => (groupRepsBy_sublist feat key fmf fs).subset hx)

theorem groupPlacesBy_ids_nodup (fmf : List Str) (fs : List α) (h : MergeDomainBy feat key fs) :
    ((groupPlacesBy feat key fmf fs).map (·.2)).Nodup := placesBy_ids_nodup key _ (freshKeysBy_reps feat key fmf fs h)

/-- **the matched candidates**: in a database that holds one row per group of `pre` (and the `duplicates`
record of the later groups), the candidates for arrival `f` that agree on the compared columns are exactly the
row of `f`'s group — or none, when no earlier arrival belongs to that group -/
theorem matched_placesBy (cfg : Cfg) (pre : List α) (f : α) (db : Db)
    (hdom : MergeDomainBy feat key (pre ++ [f]))
    (hf : db.features = mergeRowsBy feat key cfg.forceMergeFields pre)
    (hd : db.duplicates = mergeDupsBy feat key cfg.forceMergeFields pre) :
    matched cfg db (key f) (feat f) =
      ((groupPlacesBy feat key cfg.forceMergeFields pre).filter
          (fun p => groupKeyBy feat key cfg.forceMergeFields p.1 = groupKeyBy feat key cfg.forceMergeFields f)).map
        (fun p => (placeRowBy feat key cfg.forceMergeFields pre p).toFeature cfg.dialect) := by
  generalize hfmf : cfg.forceMergeFields = fmf at *
  have hdomP : MergeDomainBy feat key pre := hdom.sub (fun x hx => List.mem_append_left _ hx)
  have hFK := freshKeysBy_of_fresh key _ hdom.fresh
  have hnd := groupPlacesBy_ids_nodup feat key fmf pre hdomP
  have hcr := candRows_placesG key db (groupPlacesBy feat key fmf pre) (placeRowBy feat key fmf pre)
    (placeRowBy_id feat key fmf pre) hf hd hnd (key f)
  have hkf : ∀ r ∈ groupRepsBy feat key fmf pre, ∀ n, 0 < n → key f ≠ autoId (key r) n := by
    intro r hr n hn
    exact hFK r (List.mem_append_left _ ((groupRepsBy_sublist feat key fmf pre).subset hr)) f (by simp) n hn
  have hperm := cand_permG key (groupPlacesBy feat key fmf pre) (key f)
    (fun p hp => placesBy_id_eq_key key (groupRepsBy feat key fmf pre) p hp (key f) hkf)
  generalize hL : (groupPlacesBy feat key fmf pre).filter (fun p => p.2 = key f) ++
    ((groupPlacesBy feat key fmf pre).filter (fun p => p.2 ≠ key p.1)).filter (fun p => key p.1 = key f) = L
    at hcr hperm
  have hLmem : ∀ p ∈ L, p ∈ groupPlacesBy feat key fmf pre ∧ key p.1 = key f := by
    intro p hp
    have := hperm.subset hp
    simp only [List.mem_filter, decide_eq_true_eq] at this
    exact this
  have hT : ∀ p ∈ groupPlacesBy feat key fmf pre, ∀ k ∈ gffCols,
      '\t' ∉ colText ((placeRowBy feat key fmf pre p).toFeature cfg.dialect) k := by
    intro p hp
    apply groupRow_noTab
    · exact hdomP.noTab _ (groupPlacesBy_mem feat key fmf pre p hp).2
    · intro g hg
      obtain ⟨g', hg', rfl⟩ := List.mem_map.mp hg
      exact hdomP.noTab _ (groupOfBy_sub feat key fmf pre p.1 g' hg')
  have hpw : ((candRows db (key f)).map (fun r => r.toFeature cfg.dialect)).Pairwise
      (fun a b => (a.print).toOption ≠ (b.print).toOption) := by
    rw [hcr, List.map_map, List.pairwise_map]
    have h0 : L.Pairwise (fun p q => groupKeyBy feat key fmf p.1 ≠ groupKeyBy feat key fmf q.1) := by
      have h1 : (groupPlacesBy feat key fmf pre).Pairwise
          (fun p q => groupKeyBy feat key fmf p.1 ≠ groupKeyBy feat key fmf q.1) :=
        List.pairwise_map.mp (groupPlacesBy_keys_nodup feat key fmf pre)
      have h2 := h1.sublist (List.filter_sublist (p := fun p => decide (key p.1 = key f)))
      exact (hperm.pairwise_iff (fun h e => h e.symm)).mpr h2
    refine h0.imp_of_mem ?_
    intro p q hp hq hne hprint
    obtain ⟨hpP, hpk⟩ := hLmem p hp
    obtain ⟨hqP, hqk⟩ := hLmem q hq
    apply hne
    have hcols : ∀ k ∈ gffCols, colText ((placeRowBy feat key fmf pre p).toFeature cfg.dialect) k =
        colText ((placeRowBy feat key fmf pre q).toFeature cfg.dialect) k :=
      print_separates _ _ (hT p hpP) (hT q hqP) hprint
    unfold groupKeyBy
    rw [hpk, hqk]
    congr 1
    apply List.map_inj_left.mpr
    intro c hc
    have hc' : c ∈ gffCols := (List.mem_filter.mp hc).1
    have := hcols c hc'
    unfold placeRowBy at this
    rwa [colText_groupRow_check cfg.dialect fmf _ _ _ c hc, colText_groupRow_check cfg.dialect fmf _ _ _ c hc] at this
  unfold matched
  rw [candidates_exact _ _ _ hpw, hcr, List.map_map, List.filter_map]
  have hfilt : L.filter ((agreesB cfg (feat f)) ∘ ((fun r => r.toFeature cfg.dialect) ∘ placeRowBy feat key fmf pre)) =
      L.filter (fun p => groupKeyBy feat key fmf p.1 = groupKeyBy feat key fmf f) := by
    apply List.filter_congr
    intro p hp
    obtain ⟨_, hpk⟩ := hLmem p hp
    rw [Bool.eq_iff_iff]
    simp only [Function.comp, decide_eq_true_eq]
    rw [agreesB_sigC, hfmf]
    have hcols : (checkCols fmf).map (colText ((placeRowBy feat key fmf pre p).toFeature cfg.dialect)) =
        (checkCols fmf).map (colText (feat p.1)) := by
      apply List.map_inj_left.mpr
      intro c hc
      exact colText_groupRow_check cfg.dialect fmf _ _ _ c hc
    rw [hcols]
    unfold groupKeyBy
    rw [hpk]
    simp
  rw [hfilt]
  have hperm2 : (L.filter (fun p => groupKeyBy feat key fmf p.1 = groupKeyBy feat key fmf f)).Perm
      ((groupPlacesBy feat key fmf pre).filter (fun p => groupKeyBy feat key fmf p.1 = groupKeyBy feat key fmf f)) := by
    refine (hperm.filter _).trans ?_
    rw [List.filter_filter]
    apply List.Perm.of_eq
    apply List.filter_congr
    intro p _
    by_cases h : groupKeyBy feat key fmf p.1 = groupKeyBy feat key fmf f
    · have : key p.1 = key f := congrArg Prod.fst h
      simp [h, this]
    · simp [h]
  have : L.filter (fun p => groupKeyBy feat key fmf p.1 = groupKeyBy feat key fmf f) =
      (groupPlacesBy feat key fmf pre).filter (fun p => groupKeyBy feat key fmf p.1 = groupKeyBy feat key fmf f) := by
    rcases filter_key_eq (fun p : α × Str => groupKeyBy feat key fmf p.1) (groupPlacesBy feat key fmf pre)
      (groupPlacesBy_keys_nodup feat key fmf pre) (groupKeyBy feat key fmf f) with ⟨_, a, _, _, _, _, _, h⟩ | ⟨_, h⟩
    · rw [h] at hperm2 ⊢; exact List.perm_singleton.mp hperm2
    · rw [h] at hperm2 ⊢; exact List.perm_nil.mp hperm2
  rw [this]
  rfl

theorem groupRepsBy_snoc (fmf : List Str) (pre : List α) (f : α) :
    groupRepsBy feat key fmf (pre ++ [f]) =
      groupRepsBy feat key fmf pre ++
        (if groupKeyBy feat key fmf f ∈ pre.map (groupKeyBy feat key fmf) then [] else [f]) := by
  unfold groupRepsBy
  rw [firstsBy_snoc]
  simp

theorem groupOfBy_snoc (fmf : List Str) (pre : List α) (f r : α) :
    groupOfBy feat key fmf (pre ++ [f]) r =
      groupOfBy feat key fmf pre r ++ (if groupKeyBy feat key fmf f = groupKeyBy feat key fmf r then [f] else []) := by
  unfold groupOfBy
  rw [List.filter_append]
  congr 1
  by_cases h : groupKeyBy feat key fmf f = groupKeyBy feat key fmf r <;> simp [h]

theorem groupOfBy_ne_nil (fmf : List Str) (pre : List α) (r : α) (hr : r ∈ pre) : groupOfBy feat key fmf pre r ≠ [] := by
  intro h
  have : r ∈ groupOfBy feat key fmf pre r := List.mem_filter.mpr ⟨hr, by simp⟩
  rw [h] at this; cases this

theorem groupOfBy_new (fmf : List Str) (pre : List α) (f : α)
    (h : groupKeyBy feat key fmf f ∉ pre.map (groupKeyBy feat key fmf)) : groupOfBy feat key fmf (pre ++ [f]) f = [f] := by
  rw [groupOfBy_snoc, if_pos rfl]
  have : groupOfBy feat key fmf pre f = [] := by
    unfold groupOfBy
    rw [List.filter_eq_nil_iff]
    intro g hg hgk
    exact h (List.mem_map.mpr ⟨g, hg, of_decide_eq_true hgk⟩)
  rw [this]; rfl

theorem placeRowBy_snoc_ne (fmf : List Str) (pre : List α) (f : α) (p : α × Str)
    (h : groupKeyBy feat key fmf f ≠ groupKeyBy feat key fmf p.1) :
    placeRowBy feat key fmf (pre ++ [f]) p = placeRowBy feat key fmf pre p := by
  unfold placeRowBy
  rw [groupOfBy_snoc, if_neg h, List.append_nil]

theorem placeRowBy_snoc_eq (fmf : List Str) (pre : List α) (f : α) (p : α × Str)
    (h : groupKeyBy feat key fmf f = groupKeyBy feat key fmf p.1) :
    placeRowBy feat key fmf (pre ++ [f]) p =
      groupRow fmf ((groupOfBy feat key fmf pre p.1).map feat ++ [feat f]) (feat p.1) p.2 := by
  unfold placeRowBy
  rw [groupOfBy_snoc, if_pos h, List.map_append]
  rfl

theorem groupPlacesBy_snoc_new (fmf : List Str) (pre : List α) (f : α)
    (h : groupKeyBy feat key fmf f ∉ pre.map (groupKeyBy feat key fmf)) :
    groupPlacesBy feat key fmf (pre ++ [f]) =
      groupPlacesBy feat key fmf pre ++ [(f, uniqueIdBy key [] [] (groupRepsBy feat key fmf pre) (key f))] := by
  unfold groupPlacesBy
  rw [groupRepsBy_snoc, if_neg h, placementsBy_snoc, List.nil_append]

theorem groupPlacesBy_snoc_old (fmf : List Str) (pre : List α) (f : α)
    (h : groupKeyBy feat key fmf f ∈ pre.map (groupKeyBy feat key fmf)) :
    groupPlacesBy feat key fmf (pre ++ [f]) = groupPlacesBy feat key fmf pre := by
  unfold groupPlacesBy
  rw [groupRepsBy_snoc, if_pos h, List.append_nil]

theorem groupPlacesBy_cover (fmf : List Str) (pre : List α) (x : α) (hx : x ∈ pre) :
    ∃ p ∈ groupPlacesBy feat key fmf pre, groupKeyBy feat key fmf p.1 = groupKeyBy feat key fmf x := by
  obtain ⟨r, hr, hrk⟩ := groupRepsBy_cover feat key fmf pre x hx
  rw [← groupPlacesBy_fst] at hr
  obtain ⟨p, hp, rfl⟩ := List.mem_map.mp hr
  exact ⟨p, hp, hrk⟩

theorem groupPlacesBy_prefix (fmf : List Str) (pre : List α) (f : α) :
    groupPlacesBy feat key fmf pre <+: groupPlacesBy feat key fmf (pre ++ [f]) := by
  by_cases h : groupKeyBy feat key fmf f ∈ pre.map (groupKeyBy feat key fmf)
  · rw [groupPlacesBy_snoc_old feat key fmf pre f h]; exact List.prefix_refl _
  · rw [groupPlacesBy_snoc_new feat key fmf pre f h]; exact List.prefix_append _ _

theorem groupIdBy_snoc_old (fmf : List Str) (pre : List α) (f x : α) (hx : x ∈ pre) :
    groupIdBy feat key fmf (pre ++ [f]) x = groupIdBy feat key fmf pre x := by
  obtain ⟨t, ht⟩ := groupPlacesBy_prefix feat key fmf pre f
  obtain ⟨p, hp, hpk⟩ := groupPlacesBy_cover feat key fmf pre x hx
  unfold groupIdBy
  rw [← ht, List.find?_append]
  cases hfind : (groupPlacesBy feat key fmf pre).find?
      (fun p => groupKeyBy feat key fmf p.1 = groupKeyBy feat key fmf x) with
  | some q => rfl
  | none =>
    have := List.find?_eq_none.mp hfind p hp
    exact absurd hpk (by simpa using this)

theorem groupIdBy_of_place (fmf : List Str) (fs : List α) (f : α) (p : α × Str)
    (hp : p ∈ groupPlacesBy feat key fmf fs) (hk : groupKeyBy feat key fmf p.1 = groupKeyBy feat key fmf f) :
    groupIdBy feat key fmf fs f = p.2 := by
  unfold groupIdBy
  have := find?_of_nodup_key (fun p : α × Str => groupKeyBy feat key fmf p.1) (groupPlacesBy feat key fmf fs)
    (groupPlacesBy_keys_nodup feat key fmf fs) p hp
  simp only [hk] at this
  rw [this]; rfl

theorem mem_mergeLinksBy_snoc (link : α → Str → List Rel) (fmf : List Str) (pre : List α) (f : α) (r : Rel) :
    r ∈ mergeLinksBy feat key link fmf (pre ++ [f]) ↔
      r ∈ mergeLinksBy feat key link fmf pre ∨ r ∈ link f (groupIdBy feat key fmf (pre ++ [f]) f) := by
  unfold mergeLinksBy
  simp only [List.mem_flatMap, List.mem_append, List.mem_singleton]
  constructor
  · rintro ⟨x, hx | rfl, hr⟩
    · rw [groupIdBy_snoc_old feat key fmf pre f x hx] at hr; exact Or.inl ⟨x, hx, hr⟩
    · exact Or.inr hr
  · rintro (⟨x, hx, hr⟩ | hr)
    · exact ⟨x, Or.inl hx, by rw [groupIdBy_snoc_old feat key fmf pre f x hx]; exact hr⟩
    · exact ⟨f, Or.inr rfl, hr⟩

end grouping

/-! ### the invariant of the import loop -/

section inv
variable {α : Type} (I : Imp α)

/-- **the state of the import loop (`merge`) after the arrivals `pre`**, started on `db0`: the tables hold exactly
the specification for `pre`; the counter of key `k` is the number of later groups of `k` -/
structure MergeInvBy (db0 : Db) (pre : List α) (db : Db) (auto : Dict Nat) : Prop where
  feats : db.features = mergeRowsBy I.feat I.key I.cfg.forceMergeFields pre
  dups : db.duplicates = mergeDupsBy I.feat I.key I.cfg.forceMergeFields pre
  rels : ∀ r, r ∈ db.relations ↔ r ∈ db0.relations ∨ r ∈ mergeLinksBy I.feat I.key I.link I.cfg.forceMergeFields pre
  cnt : ∀ k, (auto.get? k).getD 0 = cntKeyBy I.key k (groupRepsBy I.feat I.key I.cfg.forceMergeFields pre) - 1
  other : db.metaRows = db0.metaRows ∧ db.directives = db0.directives ∧ db.autoinc = db0.autoinc

theorem mergeInvBy_nil (db0 : Db) (h1 : db0.features = []) (h2 : db0.duplicates = []) :
    MergeInvBy I db0 [] db0 [] where
  feats := h1
  dups := h2
  rels := fun r => by simp [mergeLinksBy]
  cnt := fun k => by simp [Dict.get?, groupRepsBy, firstsBy, cntKeyBy]
  other := ⟨rfl, rfl, rfl⟩

variable {I}

theorem ids_of_invBy {db0 : Db} {pre : List α} {db : Db} {auto : Dict Nat}
    (inv : MergeInvBy I db0 pre db auto) :
    idsOf db = (groupPlacesBy I.feat I.key I.cfg.forceMergeFields pre).map (·.2) := by
  unfold idsOf
  rw [inv.feats]
  unfold mergeRowsBy
  rw [List.map_map]
  rfl

theorem hasId_key_iffBy {db0 : Db} {pre : List α} {db : Db} {auto : Dict Nat}
    (inv : MergeInvBy I db0 pre db auto) (f : α) (hdom : MergeDomainBy I.feat I.key (pre ++ [f])) :
    I.key f ∈ idsOf db ↔ 0 < cntKeyBy I.key (I.key f) (groupRepsBy I.feat I.key I.cfg.forceMergeFields pre) := by
  rw [ids_of_invBy inv]
  have hFK := freshKeysBy_of_fresh I.key _ hdom.fresh
  have hkf : ∀ r ∈ groupRepsBy I.feat I.key I.cfg.forceMergeFields pre, ∀ n, 0 < n → I.key f ≠ autoId (I.key r) n := by
    intro r hr n hn
    exact hFK r (List.mem_append_left _ ((groupRepsBy_sublist I.feat I.key _ pre).subset hr)) f (by simp) n hn
  constructor
  · intro h
    obtain ⟨p, hp, he⟩ := List.mem_map.mp h
    have := (placesBy_id_eq_key I.key _ p hp (I.key f) hkf).mp he
    exact cntKeyBy_pos_of_mem I.key _ _ p.1 (groupPlacesBy_mem I.feat I.key _ pre p hp).1 this.1
  · intro h
    obtain ⟨p, hp, _, h2⟩ := placesBy_has_key I.key [] (groupRepsBy I.feat I.key I.cfg.forceMergeFields pre) (I.key f)
      (by simp [cntKeyBy]) h
    exact List.mem_map.mpr ⟨p, hp, h2⟩

/-- **one arrival that opens a new group** (no earlier arrival has its key and compared columns) -/
theorem merge_step_newBy (hs : I.cfg.strategy = .merge) (db0 : Db) (pre : List α) (f : α) (db : Db)
    (auto : Dict Nat)
    (ht : I.step (db, auto) f =
      match fileSpec I.cfg db auto (I.feat f) (I.key f) with
      | .error e => .error e
      | .ok (db1, auto2, filed) => .ok (I.attach db1 filed f, auto2))
    (hdom : MergeDomainBy I.feat I.key (pre ++ [f])) (inv : MergeInvBy I db0 pre db auto)
    (hnew : groupKeyBy I.feat I.key I.cfg.forceMergeFields f ∉ pre.map (groupKeyBy I.feat I.key I.cfg.forceMergeFields)) :
    ∃ db' auto', I.step (db, auto) f = .ok (db', auto') ∧ MergeInvBy I db0 (pre ++ [f]) db' auto' := by
  have hdomP : MergeDomainBy I.feat I.key pre := hdom.sub (fun x hx => List.mem_append_left _ hx)
  have hP' := groupPlacesBy_snoc_new I.feat I.key I.cfg.forceMergeFields pre f hnew
  have hreps' : groupRepsBy I.feat I.key I.cfg.forceMergeFields (pre ++ [f]) =
      groupRepsBy I.feat I.key I.cfg.forceMergeFields pre ++ [f] := by rw [groupRepsBy_snoc, if_neg hnew]
  have hnone : ∀ p ∈ groupPlacesBy I.feat I.key I.cfg.forceMergeFields pre,
      groupKeyBy I.feat I.key I.cfg.forceMergeFields f ≠ groupKeyBy I.feat I.key I.cfg.forceMergeFields p.1 := by
    intro p hp e
    exact hnew (List.mem_map.mpr ⟨p.1, (groupPlacesBy_mem I.feat I.key _ pre p hp).2, e.symm⟩)
  have hrows_old : (groupPlacesBy I.feat I.key I.cfg.forceMergeFields pre).map
      (placeRowBy I.feat I.key I.cfg.forceMergeFields (pre ++ [f])) = mergeRowsBy I.feat I.key I.cfg.forceMergeFields pre := by
    unfold mergeRowsBy
    apply List.map_congr_left
    intro p hp
    exact placeRowBy_snoc_ne I.feat I.key _ pre f p (hnone p hp)
  have finish : ∀ (nid : Str) (dbX : Db) (auto' : Dict Nat),
      uniqueIdBy I.key [] [] (groupRepsBy I.feat I.key I.cfg.forceMergeFields pre) (I.key f) = nid →
      dbX.relations = db.relations → dbX.metaRows = db.metaRows → dbX.directives = db.directives →
      dbX.autoinc = db.autoinc →
      dbX.duplicates = mergeDupsBy I.feat I.key I.cfg.forceMergeFields (pre ++ [f]) →
      (∀ k, (auto'.get? k).getD 0 =
        cntKeyBy I.key k (groupRepsBy I.feat I.key I.cfg.forceMergeFields pre ++ [f]) - 1) →
      MergeInvBy I db0 (pre ++ [f])
        (I.attach { dbX with features := db.features ++ [storedRow (I.feat f) nid] } (some nid) f) auto' := by
    intro nid dbX auto' hnid hr hm hdi ha hdup hcnt
    obtain ⟨hf1, hr1, ho1⟩ := I.attach_facts dbX (db.features ++ [storedRow (I.feat f) nid]) nid f
    have hgid : groupIdBy I.feat I.key I.cfg.forceMergeFields (pre ++ [f]) f = nid :=
      groupIdBy_of_place I.feat I.key _ (pre ++ [f]) f (f, nid) (by rw [hP', hnid]; simp) rfl
    refine ⟨?_, ?_, ?_, ?_, ?_⟩
    · rw [hf1]
      unfold mergeRowsBy
      rw [hP', hnid, List.map_append, hrows_old, inv.feats]
      congr 1
      show [storedRow (I.feat f) nid] = [groupRow _ ((groupOfBy I.feat I.key _ (pre ++ [f]) f).map I.feat) (I.feat f) nid]
      rw [groupOfBy_new I.feat I.key _ pre f hnew]
      simp only [List.map_cons, List.map_nil, groupRow_single]
    · rw [ho1.2.2.2]; exact hdup
    · intro r
      rw [hr1, hr, inv.rels, mem_mergeLinksBy_snoc, hgid, or_assoc]
    · rw [hreps']; exact hcnt
    · exact ⟨ho1.1.trans (hm.trans inv.other.1), ho1.2.1.trans (hdi.trans inv.other.2.1),
        ho1.2.2.1.trans (ha.trans inv.other.2.2)⟩
  by_cases hc : 0 < cntKeyBy I.key (I.key f) (groupRepsBy I.feat I.key I.cfg.forceMergeFields pre)
  · have hmem : I.key f ∈ idsOf db := (hasId_key_iffBy inv f hdom).mpr hc
    have hhas : db.hasId (I.key f) = true := (hasId_iff db _).mpr hmem
    have hM : matched I.cfg db (I.key f) (I.feat f) = [] := by
      rw [matched_placesBy I.feat I.key I.cfg pre f db hdom inv.feats inv.dups]
      have : (groupPlacesBy I.feat I.key I.cfg.forceMergeFields pre).filter
          (fun p => groupKeyBy I.feat I.key I.cfg.forceMergeFields p.1 = groupKeyBy I.feat I.key I.cfg.forceMergeFields f) = [] := by
        rw [List.filter_eq_nil_iff]
        intro p hp hpk
        exact hnone p hp (of_decide_eq_true hpk).symm
      rw [this]; rfl
    have hnid : uniqueIdBy I.key [] [] (groupRepsBy I.feat I.key I.cfg.forceMergeFields pre) (I.key f) =
        nextId auto (I.key f) := by
      rw [uidBy_eq, if_neg (by omega)]
      unfold nextId
      rw [inv.cnt]
      congr 1; omega
    have hfree : db.hasId (nextId auto (I.key f)) = false := by
      rw [hasId_false_iff]
      show nextId auto (I.key f) ∉ idsOf db
      rw [ids_of_invBy inv, ← hnid]
      apply newIdBy_not_mem
      rw [← hreps']
      exact freshKeysBy_reps I.feat I.key _ _ hdom
    have hfile := (merge_miss_eq I.cfg db auto (I.feat f) (I.key f) hs hhas hM).1 hfree
    refine ⟨_, _, ?_, finish (nextId auto (I.key f))
      { db with duplicates := db.duplicates ++ [(I.key f, nextId auto (I.key f))] } (bump auto (I.key f))
      hnid rfl rfl rfl rfl ?_ ?_⟩
    · rw [ht, ← strategy_table, hfile]
      rfl
    · show db.duplicates ++ [(I.key f, nextId auto (I.key f))] = _
      unfold mergeDupsBy
      rw [hP', hnid, List.filter_append, List.map_append, inv.dups]
      congr 1
      have : nextId auto (I.key f) ≠ I.key f := by rw [← hnid, uidBy_eq, if_neg (by omega)]; exact autoId_ne_self _ _
      simp [this]
    · intro k
      rw [cntKeyBy_append]
      by_cases hkk : k = I.key f
      · subst hkk
        have : ((bump auto (I.key f)).get? (I.key f)).getD 0 = (auto.get? (I.key f)).getD 0 + 1 := by
          simp [bump, C04.Dict.get?_set_self]
        rw [this, inv.cnt, cntKeyBy_cons, if_pos rfl, show cntKeyBy I.key (I.key f) ([] : List α) = 0 from rfl]
        omega
      · have : (bump auto (I.key f)).get? k = auto.get? k := C04.Dict.get?_set_ne _ _ _ _ hkk
        rw [this, inv.cnt, cntKeyBy_cons, if_neg (fun e => hkk e.symm)]
        simp [cntKeyBy]
  · have hc0 : cntKeyBy I.key (I.key f) (groupRepsBy I.feat I.key I.cfg.forceMergeFields pre) = 0 := by omega
    have hmem : I.key f ∉ idsOf db := fun h => hc ((hasId_key_iffBy inv f hdom).mp h)
    have hfile := fresh_stored I.cfg db auto (I.feat f) (I.key f) ((hasId_false_iff db _).mpr hmem)
    have hnid : uniqueIdBy I.key [] [] (groupRepsBy I.feat I.key I.cfg.forceMergeFields pre) (I.key f) = I.key f := by
      rw [uidBy_eq, if_pos hc0]
    refine ⟨_, _, ?_, finish (I.key f) db auto hnid rfl rfl rfl rfl ?_ ?_⟩
    · rw [ht, ← strategy_table, hfile]
      rfl
    · unfold mergeDupsBy
      rw [hP', hnid, List.filter_append, List.map_append, inv.dups]
      simp [mergeDupsBy]
    · intro k
      rw [inv.cnt, cntKeyBy_append, cntKeyBy_cons]
      by_cases hkk : I.key f = k
      · subst hkk; rw [hc0]; simp [cntKeyBy]
      · rw [if_neg hkk]; simp [cntKeyBy]

/-- **one arrival that belongs to an existing group**: merged into that group's row, in place -/
theorem merge_step_oldBy (hs : I.cfg.strategy = .merge) (db0 : Db) (pre : List α) (f : α) (db : Db)
    (auto : Dict Nat)
    (ht : I.step (db, auto) f =
      match fileSpec I.cfg db auto (I.feat f) (I.key f) with
      | .error e => .error e
      | .ok (db1, auto2, filed) => .ok (I.attach db1 filed f, auto2))
    (hdom : MergeDomainBy I.feat I.key (pre ++ [f])) (inv : MergeInvBy I db0 pre db auto)
    (hold : groupKeyBy I.feat I.key I.cfg.forceMergeFields f ∈ pre.map (groupKeyBy I.feat I.key I.cfg.forceMergeFields)) :
    ∃ db', I.step (db, auto) f = .ok (db', auto) ∧ MergeInvBy I db0 (pre ++ [f]) db' auto := by
  have hdomP : MergeDomainBy I.feat I.key pre := hdom.sub (fun x hx => List.mem_append_left _ hx)
  have hP' := groupPlacesBy_snoc_old I.feat I.key I.cfg.forceMergeFields pre f hold
  have hreps' : groupRepsBy I.feat I.key I.cfg.forceMergeFields (pre ++ [f]) =
      groupRepsBy I.feat I.key I.cfg.forceMergeFields pre := by rw [groupRepsBy_snoc, if_pos hold, List.append_nil]
  obtain ⟨x, hx, hxk⟩ := List.mem_map.mp hold
  obtain ⟨p0, hp0, hp0k⟩ := groupPlacesBy_cover I.feat I.key I.cfg.forceMergeFields pre x hx
  have hex : ∃ P1 p P2, groupPlacesBy I.feat I.key I.cfg.forceMergeFields pre = P1 ++ p :: P2 ∧
      groupKeyBy I.feat I.key I.cfg.forceMergeFields p.1 = groupKeyBy I.feat I.key I.cfg.forceMergeFields f ∧
      (∀ x ∈ P1, groupKeyBy I.feat I.key I.cfg.forceMergeFields x.1 ≠ groupKeyBy I.feat I.key I.cfg.forceMergeFields f) ∧
      (∀ x ∈ P2, groupKeyBy I.feat I.key I.cfg.forceMergeFields x.1 ≠ groupKeyBy I.feat I.key I.cfg.forceMergeFields f) ∧
      (groupPlacesBy I.feat I.key I.cfg.forceMergeFields pre).filter
        (fun x => groupKeyBy I.feat I.key I.cfg.forceMergeFields x.1 = groupKeyBy I.feat I.key I.cfg.forceMergeFields f) = [p] := by
    rcases filter_key_eq (fun p : α × Str => groupKeyBy I.feat I.key I.cfg.forceMergeFields p.1)
      (groupPlacesBy I.feat I.key I.cfg.forceMergeFields pre)
      (groupPlacesBy_keys_nodup I.feat I.key _ pre) (groupKeyBy I.feat I.key I.cfg.forceMergeFields f) with h | ⟨hno, _⟩
    · exact h
    · exact absurd (hp0k.trans hxk) (hno p0 hp0)
  obtain ⟨P1, p, P2, hP, hpk, hP1, hP2, hfilt⟩ := hex
  have hpP : p ∈ groupPlacesBy I.feat I.key I.cfg.forceMergeFields pre := by rw [hP]; simp
  have hkey : I.key p.1 = I.key f := congrArg Prod.fst hpk
  have hc : 0 < cntKeyBy I.key (I.key f) (groupRepsBy I.feat I.key I.cfg.forceMergeFields pre) :=
    cntKeyBy_pos_of_mem I.key _ _ p.1 (groupPlacesBy_mem I.feat I.key _ pre p hpP).1 hkey
  have hmem : I.key f ∈ idsOf db := (hasId_key_iffBy inv f hdom).mpr hc
  have hhas : db.hasId (I.key f) = true := (hasId_iff db _).mpr hmem
  have hM : matched I.cfg db (I.key f) (I.feat f) =
      [(placeRowBy I.feat I.key I.cfg.forceMergeFields pre p).toFeature I.cfg.dialect] := by
    rw [matched_placesBy I.feat I.key I.cfg pre f db hdom inv.feats inv.dups, hfilt]; rfl
  have hnd : IdsNodup db := by
    unfold IdsNodup
    have := ids_of_invBy inv
    unfold idsOf at this
    rw [this]; exact groupPlacesBy_ids_nodup I.feat I.key _ pre hdomP
  have hdb : db.features = P1.map (placeRowBy I.feat I.key I.cfg.forceMergeFields pre) ++
      placeRowBy I.feat I.key I.cfg.forceMergeFields pre p :: P2.map (placeRowBy I.feat I.key I.cfg.forceMergeFields pre) := by
    rw [inv.feats]; unfold mergeRowsBy; rw [hP]; simp
  have hfile := (merge_exact_single I.cfg db auto (I.feat f) (I.key f) hs hhas hnd _ _ _ hdb hM).1
  have hG : (groupOfBy I.feat I.key I.cfg.forceMergeFields pre p.1).map I.feat ≠ [] := by
    intro h
    exact groupOfBy_ne_nil I.feat I.key _ pre p.1 (groupPlacesBy_mem I.feat I.key _ pre p hpP).2 (List.map_eq_nil_iff.mp h)
  have hrow : mergeInto I.cfg (I.feat f) [(placeRowBy I.feat I.key I.cfg.forceMergeFields pre p).toFeature I.cfg.dialect]
      (placeRowBy I.feat I.key I.cfg.forceMergeFields pre p) =
      placeRowBy I.feat I.key I.cfg.forceMergeFields (pre ++ [f]) p := by
    rw [placeRowBy_snoc_eq I.feat I.key _ pre f p hpk.symm, mergeInto_cfg I.cfg I.cfg.dialect]
    exact mergeInto_groupRow I.cfg.dialect I.cfg.forceMergeFields (I.feat f) _ (I.feat p.1) p.2 hG
  rw [hrow] at hfile
  obtain ⟨hf1, hr1, ho1⟩ := I.attach_facts db
    (P1.map (placeRowBy I.feat I.key I.cfg.forceMergeFields pre) ++
      placeRowBy I.feat I.key I.cfg.forceMergeFields (pre ++ [f]) p ::
        P2.map (placeRowBy I.feat I.key I.cfg.forceMergeFields pre))
    (placeRowBy I.feat I.key I.cfg.forceMergeFields pre p).id f
  refine ⟨I.attach { db with features :=
      (List.map (placeRowBy I.feat I.key I.cfg.forceMergeFields pre) P1 ++
        placeRowBy I.feat I.key I.cfg.forceMergeFields (pre ++ [f]) p ::
          List.map (placeRowBy I.feat I.key I.cfg.forceMergeFields pre) P2) }
      (some (placeRowBy I.feat I.key I.cfg.forceMergeFields pre p).id) f, ?_, ⟨?_, ?_, ?_, ?_, ?_⟩⟩
  · rw [ht, ← strategy_table, hfile]
  · rw [hf1]
    unfold mergeRowsBy
    rw [hP', hP, List.map_append, List.map_cons]
    congr 1
    · apply List.map_congr_left
      intro q hq
      exact (placeRowBy_snoc_ne I.feat I.key _ pre f q (fun e => hP1 q hq e.symm)).symm
    · congr 1
      apply List.map_congr_left
      intro q hq
      exact (placeRowBy_snoc_ne I.feat I.key _ pre f q (fun e => hP2 q hq e.symm)).symm
  · rw [ho1.2.2.2, inv.dups]
    unfold mergeDupsBy
    rw [hP']
  · intro r
    have hgid : groupIdBy I.feat I.key I.cfg.forceMergeFields (pre ++ [f]) f =
        (placeRowBy I.feat I.key I.cfg.forceMergeFields pre p).id :=
      groupIdBy_of_place I.feat I.key _ (pre ++ [f]) f p (by rw [hP']; exact hpP) hpk
    rw [hr1, inv.rels, mem_mergeLinksBy_snoc, hgid, or_assoc]
  · rw [hreps']; exact inv.cnt
  · exact ⟨ho1.1.trans inv.other.1, ho1.2.1.trans inv.other.2.1, ho1.2.2.1.trans inv.other.2.2⟩

theorem merge_stepBy (hs : I.cfg.strategy = .merge) (db0 : Db) (pre : List α) (f : α) (db : Db)
    (auto : Dict Nat)
    (ht : I.step (db, auto) f =
      match fileSpec I.cfg db auto (I.feat f) (I.key f) with
      | .error e => .error e
      | .ok (db1, auto2, filed) => .ok (I.attach db1 filed f, auto2))
    (hdom : MergeDomainBy I.feat I.key (pre ++ [f])) (inv : MergeInvBy I db0 pre db auto) :
    ∃ db' auto', I.step (db, auto) f = .ok (db', auto') ∧ MergeInvBy I db0 (pre ++ [f]) db' auto' := by
  by_cases h : groupKeyBy I.feat I.key I.cfg.forceMergeFields f ∈ pre.map (groupKeyBy I.feat I.key I.cfg.forceMergeFields)
  · obtain ⟨db', h1, h2⟩ := merge_step_oldBy hs db0 pre f db auto ht hdom inv h
    exact ⟨db', auto, h1, h2⟩
  · exact merge_step_newBy hs db0 pre f db auto ht hdom inv h

theorem merge_foldBy (hs : I.cfg.strategy = .merge) (db0 : Db) (post : List α) :
    ∀ (pre : List α) (db : Db) (auto : Dict Nat), I.Table post → MergeDomainBy I.feat I.key (pre ++ post) →
      MergeInvBy I db0 pre db auto →
      ∃ db' auto', post.foldlM I.step (db, auto) = .ok (db', auto') ∧ MergeInvBy I db0 (pre ++ post) db' auto' := by
  induction post with
  | nil => intro pre db auto _ _ inv; exact ⟨db, auto, rfl, by simpa using inv⟩
  | cons f post ih =>
    intro pre db auto hT hdom inv
    have hdom1 : MergeDomainBy I.feat I.key (pre ++ [f]) := hdom.sub (fun x hx => by
      rcases List.mem_append.mp hx with h | h
      · exact List.mem_append_left _ h
      · simp only [List.mem_singleton] at h; subst h; simp)
    obtain ⟨db1, auto1, h1, inv1⟩ := merge_stepBy hs db0 pre f db auto (hT f (by simp) db auto) hdom1 inv
    obtain ⟨db2, auto2, h2, inv2⟩ := ih (pre ++ [f]) db1 auto1 hT.tail (by simpa using hdom) inv1
    refine ⟨db2, auto2, ?_, by simpa using inv2⟩
    rw [foldlM_cons_ok _ _ _ _ _ h1]; exact h2

end inv

end GffProofs.C05
