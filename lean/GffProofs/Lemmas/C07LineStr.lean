/-
  String lemmas for the line-level C07 theorems: `splitChar ∘ join`, `rstripChars`, `splitLines`,
  `strip`, `splitWs` on blank-separated words.
-/
import GffProofs.Lemmas.C07Str

namespace GffProofs.C07
open GffModel GffModel.Str GffProofs

/-! ### `splitChar` -/

theorem splitChar_ne_nil (c : Char) (s : Str) : splitChar c s ≠ [] := by
  induction s with
  | nil => simp [splitChar]
  | cons x xs ih =>
    unfold splitChar
    split
    · simp
    · split <;> simp

theorem splitChar_none (c : Char) (f : Str) (hf : c ∉ f) : splitChar c f = [f] := by
  induction f with
  | nil => rfl
  | cons x xs ih =>
    have hx : x ≠ c := by intro e; apply hf; simp [e]
    have := ih (fun h => hf (by simp [h]))
    simp [splitChar, hx, this]

theorem splitChar_part (c : Char) (f rest : Str) (hf : c ∉ f) :
    splitChar c (f ++ c :: rest) = f :: splitChar c rest := by
  induction f with
  | nil => simp [splitChar]
  | cons x xs ih =>
    have hx : x ≠ c := by intro e; apply hf; simp [e]
    have := ih (fun h => hf (by simp [h]))
    simp [splitChar, hx, this]

/-- `line.split(c)` of `c.join(fields)` gives the fields back when none of them contains `c` -/
theorem splitChar_join (c : Char) (fields : List Str) (hne : fields ≠ [])
    (hf : ∀ f ∈ fields, c ∉ f) : splitChar c (join [c] fields) = fields := by
  induction fields with
  | nil => exact absurd rfl hne
  | cons p rest ih =>
    cases rest with
    | nil => simpa [join] using splitChar_none c p (hf p (by simp))
    | cons q rest =>
      rw [join_cons_cons, List.append_assoc]
      simp only [List.cons_append, List.nil_append]
      rw [splitChar_part c p _ (hf p (by simp)), ih (by simp) (fun f h => hf f (by simp [h]))]

/-! ### `join` -/

/-- `sep.join(a + [sep.join(b)]) == sep.join(a + b)` for non-empty `a`, `b` -/
theorem join_append_join (sep : Str) (a b : List Str) (ha : a ≠ []) (hb : b ≠ []) :
    join sep (a ++ [join sep b]) = join sep (a ++ b) := by
  induction a with
  | nil => exact absurd rfl ha
  | cons p rest ih =>
    cases rest with
    | nil =>
      cases b with
      | nil => exact absurd rfl hb
      | cons q b => simp [join]
    | cons r rest =>
      have := ih (by simp)
      simp only [List.cons_append] at this ⊢
      rw [join_cons_cons, join_cons_cons, this]

/-! ### `rstripChars` -/

theorem rstripChars_id (chars l : Str) (h : ∀ c ∈ l, chars.contains c = false) :
    rstripChars chars l = l := by
  unfold rstripChars lstripChars
  cases hr : l.reverse with
  | nil => simp at hr; simp [hr]
  | cons x xs =>
    have hx : x ∈ l := by
      have : x ∈ l.reverse := by rw [hr]; simp
      simpa using this
    rw [List.dropWhile_cons, h x hx]
    simp only [Bool.false_eq_true, if_false]
    rw [← hr]; simp

/-! ### `splitLines` -/

theorem splitLinesAux_cons (c : Char) (cs acc : Str) (h : isLineBreak c = false) :
    splitLinesAux (c :: cs) acc = splitLinesAux cs (c :: acc) := by
  have hr : c ≠ '\r' := by intro e; subst e; revert h; decide
  rw [splitLinesAux.eq_3 acc c cs (fun _ e _ => hr e), h]
  simp

theorem splitLinesAux_clean (s acc : Str) (h : ∀ c ∈ s, isLineBreak c = false)
    (hne : s ≠ [] ∨ acc ≠ []) : splitLinesAux s acc = [acc.reverse ++ s] := by
  induction s generalizing acc with
  | nil =>
    have : acc ≠ [] := by rcases hne with h | h; exact absurd rfl h; exact h
    unfold splitLinesAux; simp [this]
  | cons c cs ih =>
    rw [splitLinesAux_cons c cs acc (h c (by simp)), ih _ (fun x hx => h x (by simp [hx])) (by simp)]
    simp

/-- `s.splitlines() == [s]` for a non-empty string without line-break characters -/
theorem splitLines_clean (s : Str) (h : ∀ c ∈ s, isLineBreak c = false) (hne : s ≠ []) :
    splitLines s = [s] := by
  unfold splitLines; rw [splitLinesAux_clean s [] h (Or.inl hne)]; simp

/-! ### `strip` -/

theorem rstrip_snoc_blank (x : Str) : rstrip (x ++ [' ']) = rstrip x := by
  unfold rstrip lstrip
  have : isPySpace ' ' = true := by decide
  simp [this]

theorem rstrip_id (p : Str) (h : (p.getLast?.map isPySpace).getD false = false) : rstrip p = p := by
  unfold rstrip
  rw [lstrip_id p.reverse (by simpa [List.head?_reverse] using h)]
  simp

/-! ### `splitWs` -/

theorem splitWsAux_blank (fuel : Nat) (m : Option Nat) (r : Str) :
    splitWsAux (fuel + 1) m (' ' :: r) = splitWsAux (fuel + 1) m r := by
  have hb : lstrip (' ' :: r) = lstrip r := by
    have : isPySpace ' ' = true := by decide
    simp [lstrip, this]
  simp only [splitWsAux, hb]

theorem splitWsAux_nil (fuel : Nat) (m : Option Nat) : splitWsAux fuel m [] = [] := by
  cases fuel with
  | zero => rfl
  | succ n => simp [splitWsAux, lstrip]

theorem takeWhile_word (w rest : Str) (hw : ∀ c ∈ w, isPySpace c = false) :
    (w ++ ' ' :: rest).takeWhile (fun c => !isPySpace c) = w := by
  induction w with
  | nil =>
    have : isPySpace ' ' = true := by decide
    simp [this]
  | cons x xs ih =>
    simp [hw x (by simp), ih (fun c hc => hw c (by simp [hc]))]

theorem dropWhile_word (w rest : Str) (hw : ∀ c ∈ w, isPySpace c = false) :
    (w ++ ' ' :: rest).dropWhile (fun c => !isPySpace c) = ' ' :: rest := by
  induction w with
  | nil =>
    have : isPySpace ' ' = true := by decide
    simp [this]
  | cons x xs ih =>
    simp [hw x (by simp), ih (fun c hc => hw c (by simp [hc]))]

theorem takeWhile_all (w : Str) (hw : ∀ c ∈ w, isPySpace c = false) :
    w.takeWhile (fun c => !isPySpace c) = w := by
  induction w with
  | nil => rfl
  | cons x xs ih =>
    simp [hw x (by simp), ih (fun c hc => hw c (by simp [hc]))]

theorem dropWhile_all (w : Str) (hw : ∀ c ∈ w, isPySpace c = false) :
    w.dropWhile (fun c => !isPySpace c) = [] := by
  induction w with
  | nil => rfl
  | cons x xs ih =>
    simp [hw x (by simp), ih (fun c hc => hw c (by simp [hc]))]

theorem lstrip_word (w rest : Str) (hne : w ≠ []) (hw : ∀ c ∈ w, isPySpace c = false) :
    lstrip (w ++ rest) = w ++ rest := by
  cases w with
  | nil => exact absurd rfl hne
  | cons x xs => simp [lstrip, hw x (by simp)]

/-- one word followed by a blank, split count not exhausted -/
theorem splitWsAux_word (fuel k : Nat) (w rest : Str) (hne : w ≠ [])
    (hw : ∀ c ∈ w, isPySpace c = false) :
    splitWsAux (fuel + 1) (some (k + 1)) (w ++ ' ' :: rest) = w :: splitWsAux fuel (some k) (' ' :: rest) := by
  have hl := lstrip_word w (' ' :: rest) hne hw
  have hne' : (w ++ ' ' :: rest).isEmpty = false := by simp
  simp only [splitWsAux, hl, hne', Bool.false_eq_true, if_false, takeWhile_word w rest hw,
    dropWhile_word w rest hw, Option.map_some, Nat.add_sub_cancel]

/-- the last word, split count not exhausted -/
theorem splitWsAux_last_word (fuel k : Nat) (w : Str) (hne : w ≠ [])
    (hw : ∀ c ∈ w, isPySpace c = false) :
    splitWsAux (fuel + 1) (some (k + 1)) w = [w] := by
  have hl : lstrip w = w := by simpa using lstrip_word w [] hne hw
  have hne' : w.isEmpty = false := by simpa using hne
  simp only [splitWsAux, hl, hne', Bool.false_eq_true, if_false, takeWhile_all w hw,
    dropWhile_all w hw, splitWsAux_nil]

/-- the remainder once the split count is exhausted: leading blanks go, the rest stays -/
theorem splitWsAux_rest (fuel : Nat) (r : Str) (hne : r ≠ [])
    (hh : (r.head?.map isPySpace).getD false = false) :
    splitWsAux (fuel + 1) (some 0) r = [r] := by
  have hl := lstrip_id r hh
  have hne' : r.isEmpty = false := by simpa using hne
  simp only [splitWsAux, hl, hne', Bool.false_eq_true, if_false]

end GffProofs.C07
