/-
  C10c — helper lemmas, part 5: `_populate_from_lines` (GTF) from an ARBITRARY database and arbitrary counters
  (C10b's `update_gtf_exact_full`).
-/
import GffProofs.Lemmas.C10cAux4

namespace GffProofs.C10c
open GffModel GffModel.Create GffModel.Interface
open GffProofs.C03 GffProofs.C10
open GffProofs.C04 (autoId incr_spec Dict.get?_set_self Dict.get?_set_ne)

/-- the lines with the keys `lineKeyFrom` gives them, `acc` being the lines before -/
def keyedFromAux (cfg : Cfg) (auto0 : Dict Nat) : List Feature → List Feature → List (Feature × Str)
  | _, [] => []
  | acc, f :: rest => (f, lineKeyFrom cfg auto0 acc f) :: keyedFromAux cfg auto0 (acc ++ [f]) rest

theorem keyedFromAux_range (cfg : Cfg) (auto0 : Dict Nat) : ∀ (rest acc : List Feature),
    keyedFromAux cfg auto0 acc rest =
      (List.range rest.length).map (fun i => (rest.getD i {}, lineKeyFrom cfg auto0 (acc ++ rest.take i) (rest.getD i {}))) := by
  intro rest
  induction rest with
  | nil => intro acc; rfl
  | cons f rest ih =>
    intro acc
    rw [keyedFromAux, ih, List.length_cons, List.range_succ_eq_map, List.map_cons, List.map_map]
    congr 1
    · simp
    · apply List.map_congr_left
      intro i _
      simp [List.append_assoc]

theorem addRels_prefix (cfg : Cfg) (f : Feature) (k : Str) (db : Db) : db.relations <+: (addRels cfg f k db).relations := by
  have h1 : ∀ (d : Db) (r : Rel), d.relations <+: (d.insertRelIgnore r).relations := by
    intro d r
    unfold Db.insertRelIgnore
    split
    · exact List.prefix_refl _
    · exact List.prefix_append _ _
  unfold addRels
  simp only
  repeat' split
  all_goals first
    | exact List.prefix_refl _
    | exact h1 _ _
    | exact (h1 _ _).trans (h1 _ _)
    | exact ((h1 _ _).trans (h1 _ _)).trans (h1 _ _)

theorem idHandler_from (cfg : Cfg) (hc : CfgOk cfg) (auto0 auto : Dict Nat) (acc : List Feature) (f : Feature)
    (hg : f.ftype = geneT → ∃ g, f.attrs.get? cfg.geneKey = some [g])
    (ht : f.ftype = transcriptT → ∃ t, f.attrs.get? cfg.transcriptKey = some [t])
    (hcnt : ∀ ft, ft ≠ geneT → ft ≠ transcriptT →
      (auto.get? ft).getD 0 = (auto0.get? ft).getD 0 + (acc.filter (fun g => g.ftype = ft)).length) :
    ∃ auto', idHandler cfg.idSpec auto f = .ok (lineKeyFrom cfg auto0 acc f, auto') ∧
      ∀ ft, ft ≠ geneT → ft ≠ transcriptT →
        (auto'.get? ft).getD 0 = (auto0.get? ft).getD 0 + ((acc ++ [f]).filter (fun g => g.ftype = ft)).length := by
  by_cases hG : f.ftype = geneT
  · obtain ⟨g, hgv⟩ := hg hG
    have hk : lineKeyFrom cfg auto0 acc f = g := by simp [lineKeyFrom, hG, gidOf, firstVal_single hgv]
    refine ⟨auto, by rw [hk]; exact idHandler_gene cfg hc auto f g hG hgv, ?_⟩
    intro ft h1 h2
    have : ¬ f.ftype = ft := by rw [hG]; exact Ne.symm h1
    simp [List.filter_append, this, hcnt ft h1 h2]
  · by_cases hT : f.ftype = transcriptT
    · obtain ⟨t, htv⟩ := ht hT
      have hk : lineKeyFrom cfg auto0 acc f = t := by
        simp [lineKeyFrom, hT, tidOf, firstVal_single htv, Ne.symm geneT_ne_transcriptT]
      refine ⟨auto, by rw [hk]; exact idHandler_tr cfg hc auto f t hT htv, ?_⟩
      intro ft h1 h2
      have : ¬ f.ftype = ft := by rw [hT]; exact Ne.symm h2
      simp [List.filter_append, this, hcnt ft h1 h2]
    · refine ⟨(incr auto f.ftype).2, ?_, ?_⟩
      · rw [idHandler_other cfg hc auto f hG hT, incr_spec, hcnt f.ftype hG hT]
        simp [lineKeyFrom, hG, hT]
      · intro ft h1 h2
        rw [incr_spec]
        simp only
        by_cases e : f.ftype = ft
        · subst e
          rw [Dict.get?_set_self, hcnt f.ftype h1 h2]
          simp [List.filter_append, Nat.add_assoc]
        · rw [Dict.get?_set_ne _ _ _ _ (Ne.symm e), hcnt ft h1 h2]
          simp [List.filter_append, e]

theorem foldlM_gtfStep_arbitrary (cfg : Cfg) (hc : CfgOk cfg) (auto0 : Dict Nat) : ∀ (rest acc : List Feature)
    (db : Db) (auto : Dict Nat),
    (∀ f ∈ rest, f.ftype = geneT → ∃ g, f.attrs.get? cfg.geneKey = some [g]) →
    (∀ f ∈ rest, f.ftype = transcriptT → ∃ t, f.attrs.get? cfg.transcriptKey = some [t]) →
    (∀ ft, ft ≠ geneT → ft ≠ transcriptT →
      (auto.get? ft).getD 0 = (auto0.get? ft).getD 0 + (acc.filter (fun g => g.ftype = ft)).length) →
    (db.features.map (·.id) ++ (keyedFromAux cfg auto0 acc rest).map (·.2)).Nodup →
    ∃ db' auto', rest.foldlM (gtfStep cfg) (db, auto) = .ok (db', auto') ∧
      db'.features = db.features ++ (keyedFromAux cfg auto0 acc rest).map (fun fk => lineRow fk.1 fk.2) ∧
      db.relations <+: db'.relations := by
  intro rest
  induction rest with
  | nil =>
    intro acc db auto _ _ _ _
    exact ⟨db, auto, rfl, by simp [keyedFromAux], List.prefix_refl _⟩
  | cons f rest ih =>
    intro acc db auto hg ht hcnt hnd
    obtain ⟨auto1, hid, hcnt1⟩ := idHandler_from cfg hc auto0 auto acc f (hg f (by simp)) (ht f (by simp)) hcnt
    simp only [keyedFromAux, List.map_cons] at hnd
    have hfresh : lineKeyFrom cfg auto0 acc f ∉ db.features.map (·.id) := by
      intro hin
      rw [List.nodup_append] at hnd
      exact hnd.2.2 _ hin _ (by simp) rfl
    have hstep := gtfStep_fresh cfg db auto auto1 f _ hid hfresh
    obtain ⟨db', auto', hrun, hfeat, hrel⟩ := ih (acc ++ [f])
      (addRels cfg f (lineKeyFrom cfg auto0 acc f) { db with features := db.features ++ [lineRow f (lineKeyFrom cfg auto0 acc f)] })
      auto1 (fun x hx => hg x (by simp [hx])) (fun x hx => ht x (by simp [hx])) hcnt1
      (by
        rw [addRels_features]
        simpa [List.append_assoc, lineRow_id] using hnd)
    refine ⟨db', auto', ?_, ?_, ?_⟩
    · simp only [List.foldlM_cons, hstep, bind, Except.bind]
      exact hrun
    · rw [hfeat, addRels_features, keyedFromAux, List.map_cons, List.append_assoc]
      rfl
    · have h1 : db.relations <+: (addRels cfg f (lineKeyFrom cfg auto0 acc f)
          { db with features := db.features ++ [lineRow f (lineKeyFrom cfg auto0 acc f)] }).relations :=
        addRels_prefix cfg f (lineKeyFrom cfg auto0 acc f)
          { db with features := db.features ++ [lineRow f (lineKeyFrom cfg auto0 acc f)] }
      exact h1.trans hrel

/-- **C10b's `update_gtf_exact_full` holds**: the populate half of GTF `update` from an arbitrary database with
arbitrary counters -/
theorem update_gtf_exact_full_holds : update_gtf_exact_full := by
  intro cfg db0 auto0 fs hc hne hg ht hnd
  have hkeys : (List.range fs.length).map (fun i => lineKeyFrom cfg auto0 (fs.take i) (fs.getD i {})) =
      (keyedFromAux cfg auto0 [] fs).map (·.2) := by
    rw [keyedFromAux_range, List.map_map]
    apply List.map_congr_left
    intro i _
    simp
  rw [hkeys] at hnd
  obtain ⟨db, auto, hrun, hfeat, hrel⟩ := foldlM_gtfStep_arbitrary cfg hc auto0 fs [] db0 auto0 hg ht
    (by intro ft _ _; simp) hnd
  refine ⟨db, auto, by rw [populateGtf_ne _ _ _ _ hne]; exact hrun, ?_, hrel⟩
  rw [hfeat, keyedFromAux_range, List.map_map]
  congr 1

end GffProofs.C10c
