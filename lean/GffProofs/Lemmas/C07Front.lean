/-
  Stages (i) and (ii) of `splitInfer` on a rendered attribute column.
-/
import GffProofs.Lemmas.C07Parts2

namespace GffProofs.C07
open GffModel GffModel.Parser GffModel.Grammar

def sepStage (s : Str) (d : Dialect) : List Str × Dialect :=
  let p1 := Str.split " ; ".toList s
  let p2 := Str.split "; ".toList s
  let p3 := Str.split ";".toList s
  if p1.length > 1 then (p1, { d with fieldSep := " ; ".toList })
  else if p2.length > 1 then (p2, { d with fieldSep := "; ".toList })
  else if p3.length > 1 then (p3, { d with fieldSep := ";".toList })
  else (p3, d)

def dInit (tr : Bool) : Dialect :=
  { leadingSemicolon := false, trailingSemicolon := tr, quoted := false,
    fieldSep := [';'], kvSep := ['='], multiSep := [','], fmt := gff3, repeatedKeys := false, order := [] }

theorem frontStage_eq (txt : Str) :
    frontStage txt = if txt.getLast? == some ';' then sepStage txt.dropLast (dInit true)
      else sepStage txt (dInit false) := by
  unfold frontStage sepStage
  split <;> rfl

theorem sepStage_join (sep : Str) (parts : List Str) (tr : Bool)
    (hsep : sep = [';'] ∨ sep = [';', ' '] ∨ sep = [' ', ';', ' '])
    (hne : parts ≠ []) (hp : ∀ p ∈ parts, PartOk p) (h2 : parts.length < 2 → sep = [';']) :
    sepStage (Str.join sep parts) (dInit tr) = (parts, { dInit tr with fieldSep := sep }) := by
  have hsemi : ∀ p ∈ parts, ';' ∉ p := fun p h => (hp p h).2.1
  unfold sepStage
  rcases hsep with rfl | rfl | rfl
  · have e1 : Str.split " ; ".toList (Str.join [';'] parts) = [Str.join [';'] parts] :=
      split_no_occ _ _ (nosplit1 parts hp)
    have e2 : Str.split "; ".toList (Str.join [';'] parts) = [Str.join [';'] parts] :=
      split_no_occ _ _ (nosplit2 parts hp)
    have e3 : Str.split ";".toList (Str.join [';'] parts) = parts :=
      GffProofs.split_join [] [] ';' (by simp) parts hne hsemi
    simp only [e1, e2, e3]
    by_cases hl : parts.length > 1
    · simp [hl]
    · simp [hl]; rfl
  · have hl : parts.length > 1 := by
      have : ¬ parts.length < 2 := fun h => absurd (h2 h) (by decide)
      omega
    have e1 : Str.split " ; ".toList (Str.join [';', ' '] parts) = [Str.join [';', ' '] parts] :=
      split_no_occ _ _ (nosplit3 parts hp)
    have e2 : Str.split "; ".toList (Str.join [';', ' '] parts) = parts :=
      GffProofs.split_join [] [' '] ';' (by simp) parts hne hsemi
    simp only [e1, e2]
    simp [hl]
  · have hl : parts.length > 1 := by
      have : ¬ parts.length < 2 := fun h => absurd (h2 h) (by decide)
      omega
    have e1 : Str.split " ; ".toList (Str.join [' ', ';', ' '] parts) = parts :=
      GffProofs.split_join [' '] [' '] ';' (by simp) parts hne hsemi
    simp only [e1]
    simp [hl]

theorem front_render (sep : Str) (parts : List Str) (tr : Bool)
    (hsep : sep = [';'] ∨ sep = [';', ' '] ∨ sep = [' ', ';', ' '])
    (hne : parts ≠ []) (hp : ∀ p ∈ parts, PartOk p) (h2 : parts.length < 2 → sep = [';']) :
    frontStage (if tr then Str.join sep parts ++ [';'] else Str.join sep parts)
      = (parts, { dInit tr with fieldSep := sep }) := by
  rw [frontStage_eq]
  cases tr with
  | true =>
    simp only [if_true]
    have : (Str.join sep parts ++ [';']).getLast? = some ';' := by simp
    simp only [this, beq_self_eq_true, if_true, List.dropLast_concat]
    exact sepStage_join sep parts true hsep hne hp h2
  | false =>
    simp only [Bool.false_eq_true, if_false]
    have hl : (Str.join sep parts).getLast? ≠ some ';' := by
      rw [join_getLast? sep parts hne (fun p h => (hp p h).1)]
      exact getLast_ne_of_not_mem _ _ (hp _ (List.getLast_mem hne)).2.1
    have : ((Str.join sep parts).getLast? == some ';') = false := by simpa using hl
    simp only [this, Bool.false_eq_true, if_false]
    exact sepStage_join sep parts false hsep hne hp h2

end GffProofs.C07
