/-
  Helpers for the database-backed clauses of C15 / C16 (`GffModel.DbExport`):
  * reading the `relations` table (`isChildOf`), table-order forms of unordered queries;
  * start-ordered children at any level (`orderedKids_perm`, `orderedKids_sorted`, `orderedKids_eq_of_sorted`),
    generalising `C18Aux.kids_*` (which fix `level = none`);
  * `Except`/`mapM` lemmas;
  * sums of `Int` lists are invariant under permutation.
  Core Lean only.
-/
import GffModel.DbExport
import GffProofs.Props.C11
import GffProofs.Props.C02
import GffProofs.Lemmas.C18Aux

namespace GffProofs.DbExportAux
open GffModel GffModel.Interface GffModel.DbExport

/-! ### `Except` -/

section
variable {ε α β : Type}

theorem mapM_ok_append (f : α → Except ε β) (l : List α) (ys : List β) (h : l.mapM f = .ok ys) :
    ys.length = l.length ∧ ∀ p ∈ l.zip ys, f p.1 = .ok p.2 := by
  induction l generalizing ys with
  | nil =>
    simp only [List.mapM_nil, pure, Except.pure] at h
    injection h with h; subst h; simp
  | cons x xs ih =>
    rw [List.mapM_cons] at h
    cases hx : f x with
    | error e => rw [hx] at h; simp [bind, Except.bind] at h
    | ok y =>
      cases hxs : xs.mapM f with
      | error e => rw [hx, hxs] at h; simp [bind, Except.bind] at h
      | ok ys' =>
        rw [hx, hxs] at h
        simp only [bind, Except.bind, pure, Except.pure] at h
        injection h with h; subst h
        obtain ⟨h1, h2⟩ := ih ys' hxs
        refine ⟨by simp [h1], ?_⟩
        intro p hp
        rw [List.zip_cons_cons, List.mem_cons] at hp
        rcases hp with rfl | hp
        · exact hx
        · exact h2 p hp

/-- if every element gives `ok` or the error `e`, and some element gives the error, `mapM` gives `e` -/
theorem mapM_error_of_exists (f : α → Except ε β) (e : ε) (l : List α)
    (hall : ∀ x ∈ l, (∃ y, f x = .ok y) ∨ f x = .error e) (hex : ∃ x ∈ l, f x = .error e) :
    l.mapM f = .error e := by
  induction l with
  | nil => obtain ⟨x, hx, _⟩ := hex; cases hx
  | cons x xs ih =>
    rw [List.mapM_cons]
    rcases hall x List.mem_cons_self with ⟨y, hy⟩ | hx
    · rw [hy]
      have hex' : ∃ z ∈ xs, f z = .error e := by
        obtain ⟨z, hz, hze⟩ := hex
        rcases List.mem_cons.1 hz with rfl | hz
        · rw [hy] at hze; cases hze
        · exact ⟨z, hz, hze⟩
      rw [ih (fun z hz => hall z (List.mem_cons_of_mem _ hz)) hex']
      rfl
    · rw [hx]; rfl

end

instance instDecEqExcept {ε α : Type} [DecidableEq ε] [DecidableEq α] : DecidableEq (Except ε α)
  | .ok a, .ok b => if h : a = b then isTrue (h ▸ rfl) else isFalse (fun e => h (Except.ok.inj e))
  | .error a, .error b => if h : a = b then isTrue (h ▸ rfl) else isFalse (fun e => h (Except.error.inj e))
  | .ok _, .error _ => isFalse (fun e => by cases e)
  | .error _, .ok _ => isFalse (fun e => by cases e)

theorem filterMap_congr' {α β : Type} (f g : α → Option β) (l : List α) (h : ∀ x ∈ l, f x = g x) :
    l.filterMap f = l.filterMap g := by
  induction l with
  | nil => rfl
  | cons x xs ih =>
    rw [List.filterMap_cons, List.filterMap_cons, h x List.mem_cons_self,
      ih (fun y hy => h y (List.mem_cons_of_mem _ hy))]

theorem flatMap_congr' {α β : Type} (f g : α → List β) (l : List α) (h : ∀ x ∈ l, f x = g x) :
    l.flatMap f = l.flatMap g := by
  induction l with
  | nil => rfl
  | cons x xs ih =>
    rw [List.flatMap_cons, List.flatMap_cons, h x List.mem_cons_self,
      ih (fun y hy => h y (List.mem_cons_of_mem _ hy))]

/-! ### sums -/

/-- Python `sum(...)` as the model writes it -/
def isum (l : List Int) : Int := l.foldl (· + ·) 0

theorem foldl_add (l : List Int) (a : Int) : l.foldl (· + ·) a = a + l.foldl (· + ·) 0 := by
  induction l generalizing a with
  | nil => simp
  | cons x xs ih => rw [List.foldl_cons, List.foldl_cons, ih (a + x), ih (0 + x)]; omega

theorem isum_nil : isum [] = 0 := rfl
theorem isum_cons (x : Int) (l : List Int) : isum (x :: l) = x + isum l := by
  unfold isum; rw [List.foldl_cons, foldl_add]; omega

theorem isum_append (a b : List Int) : isum (a ++ b) = isum a + isum b := by
  induction a with
  | nil => simp [isum_nil]
  | cons x xs ih => rw [List.cons_append, isum_cons, isum_cons, ih]; omega

theorem isum_perm {a b : List Int} (h : a.Perm b) : isum a = isum b := by
  induction h with
  | nil => rfl
  | cons x _ ih => rw [isum_cons, isum_cons, ih]
  | swap x y l => rw [isum_cons, isum_cons, isum_cons, isum_cons]; omega
  | trans _ _ ih1 ih2 => rw [ih1, ih2]

/-! ### reading the tables -/

/-- the `relations` table lists `r` as a child of `id` (at `level`; at any level for `none`) -/
def isChildOf (s : Session) (id : Str) (level : Option Int) (r : Row) : Bool :=
  s.db.relations.any (fun rel => decide (rel.parent = id) && decide (rel.child = r.id) &&
    (match level with | some l => decide (rel.level = l) | none => true))

theorem isChildOf_iff (s : Session) (id : Str) (level : Option Int) (r : Row) :
    isChildOf s id level r = true ↔ ∃ rel ∈ s.db.relations, rel.parent = id ∧ rel.child = r.id ∧
      (match level with | some l => rel.level = l | none => True) := by
  unfold isChildOf
  rw [List.any_eq_true]
  constructor
  · rintro ⟨rel, hrel, h⟩
    refine ⟨rel, hrel, ?_⟩
    cases level <;> simpa [and_assoc] using h
  · rintro ⟨rel, hrel, h⟩
    refine ⟨rel, hrel, ?_⟩
    cases level <;> simpa [and_assoc] using h

theorem related_contains (s : Session) (id : Str) (level : Option Int) (r : Row) :
    (related s.db true id level).contains r.id = isChildOf s id level r := by
  rw [Bool.eq_iff_iff, List.contains_iff_mem, C02.mem_related, isChildOf_iff]
  simp only [if_true]
  constructor
  · rintro ⟨rel, h1, h2, h3, h4⟩; exact ⟨rel, h1, h3, h4, h2⟩
  · rintro ⟨rel, h1, h2, h3, h4⟩; exact ⟨rel, h1, h4, h2, h3⟩

/-- `features_of_type(t)` without ordering: the rows of that type in table order -/
theorem runQuery_ftype (s : Session) (t : Str) :
    runQuery s { featuretype := [t] } = s.db.features.filter (fun r => decide (r.ftype = t)) := by
  rw [C11.query_unordered_in_input_order s _ rfl]
  apply List.filter_congr
  intro r _
  simp [rowMatches, eq_comm]

/-- `children(id, level)` without filter or ordering: the listed rows in table order -/
theorem runRelation_plain (s : Session) (id : Str) (level : Option Int) :
    runRelation s true id level {} = s.db.features.filter (isChildOf s id level) := by
  rw [C02.runRelation_empty]
  apply List.filter_congr
  intro r _
  exact related_contains s id level r

/-! ### start-ordered children -/

/-- `children(id, level, featuretype=t, order_by='start')` -/
def orderedKids (s : Session) (id : Str) (level : Option Int) (t : Str) : List Row :=
  runRelation s true id level { featuretype := [t], orderBy := [.start] }

/-- the WHERE clause of `orderedKids` -/
def isKidOfType (s : Session) (id : Str) (level : Option Int) (t : Str) (r : Row) : Bool :=
  isChildOf s id level r && decide (r.ftype = t)

theorem rowMatches_ft1 (t : Str) (r : Row) :
    rowMatches { featuretype := [t], orderBy := [.start] } r = decide (r.ftype = t) := by
  simp [rowMatches, eq_comm]

theorem orderedKids_perm (s : Session) (id : Str) (level : Option Int) (t : Str) :
    (orderedKids s id level t).Perm (s.db.features.filter (isKidOfType s id level t)) := by
  unfold orderedKids runRelation
  have h := C11.filter_indexed s.db.features (isKidOfType s id level t)
  rw [← h]
  refine (C11.order_perm _ _).map _ |>.trans ?_
  apply List.Perm.of_eq
  congr 1
  apply List.filter_congr
  intro p _
  rw [related_contains, rowMatches_ft1]; rfl

theorem orderedKids_sorted (s : Session) (id : Str) (level : Option Int) (t : Str) :
    (orderedKids s id level t).Pairwise C18Aux.startLe := by
  unfold orderedKids runRelation
  have h := C11.order_sorted { featuretype := [t], orderBy := [.start] }
    ((indexed s.db.features).filter (fun p =>
      (related s.db true id level).contains p.2.id &&
        rowMatches { featuretype := [t], orderBy := [.start] } p.2)) (by simp)
  refine List.Pairwise.map _ ?_ h
  intro a b hab
  simpa [C11.rowLe_single, sortVal, C18Aux.startLe] using hab

/-- the two facts determine the list when start keys are pairwise different (used to evaluate on
concrete sessions: `mergeSort` does not reduce under `decide`) -/
theorem orderedKids_eq_of_sorted (s : Session) (id : Str) (level : Option Int) (t : Str) (l : List Row)
    (hperm : l.Perm (s.db.features.filter (isKidOfType s id level t))) (hs : l.Pairwise C18Aux.startLe)
    (hanti : ∀ a ∈ l, ∀ b ∈ l, C18Aux.startLe a b → C18Aux.startLe b a → a = b) :
    orderedKids s id level t = l := by
  have hp : (orderedKids s id level t).Perm l := (orderedKids_perm s id level t).trans hperm.symm
  exact List.Perm.eq_of_pairwise (le := C18Aux.startLe)
    (fun a b ha hb => hanti a (hp.subset ha) b hb) (orderedKids_sorted s id level t) hs hp

theorem mem_orderedKids (s : Session) (id : Str) (level : Option Int) (t : Str) (r : Row) :
    r ∈ orderedKids s id level t ↔ r ∈ s.db.features ∧ isKidOfType s id level t r = true := by
  rw [(orderedKids_perm s id level t).mem_iff, List.mem_filter]

/-- integer start keys: `startLe` is `≤` -/
theorem startLe_some {a b : Row} {x y : Int} (ha : a.start = some x) (hb : b.start = some y) :
    C18Aux.startLe a b ↔ x ≤ y := by
  simp [C18Aux.startLe, optInt, ha, hb, SqlVal.le]

/-! ### abstract table surgery of `merge_all` -/

theorem insert_ok {db db' : Db} {r : Row} (h : db.insert r = .ok db') :
    r.id ∉ db.features.map (·.id) ∧ db' = { db with features := db.features ++ [r] } := by
  unfold Db.insert at h
  split at h
  · cases h
  · rename_i hn
    injection h with h
    refine ⟨?_, h.symm⟩
    intro hmem
    apply hn
    obtain ⟨x, hx, hxe⟩ := List.mem_map.1 hmem
    unfold Db.hasId
    rw [List.any_eq_true]
    exact ⟨x, hx, by simpa using hxe⟩

theorem insertRel_ok {db db' : Db} {r : Rel} (h : db.insertRel r = .ok db') :
    r ∉ db.relations ∧ db' = { db with relations := db.relations ++ [r] } := by
  unfold Db.insertRel at h
  split at h
  · cases h
  · rename_i hn
    injection h with h
    refine ⟨?_, h.symm⟩
    intro hmem
    apply hn
    unfold Db.hasRel
    rw [List.contains_iff_mem]
    exact hmem

/-- delete a list of ids -/
def delAll (db : Db) (ids : List Str) : Db := ids.foldl Db.deleteId db

theorem delAll_spec (ids : List Str) : ∀ (db : Db),
    (delAll db ids).features = db.features.filter (fun x => !ids.contains x.id) ∧
    (delAll db ids).relations =
      db.relations.filter (fun r => !ids.contains r.parent && !ids.contains r.child) ∧
    (delAll db ids).metaRows = db.metaRows ∧ (delAll db ids).directives = db.directives ∧
    (delAll db ids).autoinc = db.autoinc ∧ (delAll db ids).duplicates = db.duplicates := by
  induction ids with
  | nil =>
    intro db
    exact ⟨(List.filter_eq_self.2 (fun _ _ => rfl)).symm, (List.filter_eq_self.2 (fun _ _ => rfl)).symm,
      rfl, rfl, rfl, rfl⟩
  | cons i is ih =>
    intro db
    obtain ⟨h1, h2, h3, h4, h5, h6⟩ := ih (db.deleteId i)
    unfold delAll at *
    rw [List.foldl_cons]
    refine ⟨?_, ?_, h3, h4, h5, h6⟩
    · rw [h1]
      simp only [Db.deleteId, List.filter_filter]
      apply List.filter_congr
      intro x _
      by_cases hx : x.id = i <;> simp [hx]
    · rw [h2]
      simp only [Db.deleteId, List.filter_filter]
      apply List.filter_congr
      intro r _
      by_cases hp : r.parent = i <;> by_cases hc : r.child = i <;> simp [hp, hc]

/-- `exclude_components=True`: store the merged row, delete the members -/
def exclStep (db : Db) (r : Row × List Str) : Py Db := (db.insert r.1).map (fun db => delAll db r.2)

theorem foldlM_cons_ok {σ α : Type} (f : σ → α → Py σ) (x : α) (xs : List α) (a b : σ)
    (h : (x :: xs).foldlM f a = .ok b) : ∃ a1, f a x = .ok a1 ∧ xs.foldlM f a1 = .ok b := by
  rw [List.foldlM_cons] at h
  cases hx : f a x with
  | error e => rw [hx] at h; cases h
  | ok a1 => rw [hx] at h; exact ⟨a1, rfl, h⟩

theorem exclFold_closed (L : List (Row × List Str)) : ∀ (db db' : Db), L.foldlM exclStep db = .ok db' →
    (∀ r ∈ L, ∀ x ∈ r.2, x ∈ db.features.map (·.id)) →
    (L.flatMap (·.2)).Nodup →
    db'.features = db.features.filter (fun x => !(L.flatMap (·.2)).contains x.id) ++ L.map (·.1) ∧
    db'.relations = db.relations.filter (fun r =>
      !(L.flatMap (·.2)).contains r.parent && !(L.flatMap (·.2)).contains r.child) ∧
    db'.metaRows = db.metaRows ∧ db'.directives = db.directives ∧
    db'.autoinc = db.autoinc ∧ db'.duplicates = db.duplicates := by
  induction L with
  | nil =>
    intro db db' h _ _
    simp only [List.foldlM_nil, pure, Except.pure] at h
    injection h with h; subst h
    exact ⟨by simpa using (List.filter_eq_self.2 (fun _ _ => rfl)).symm,
      (List.filter_eq_self.2 (fun _ _ => rfl)).symm, rfl, rfl, rfl, rfl⟩
  | cons r L ih =>
    intro db db' h hA hB
    obtain ⟨db1, hstep, hrest⟩ := foldlM_cons_ok _ _ _ _ _ h
    obtain ⟨row, m⟩ := r
    unfold exclStep at hstep
    simp only at hstep
    cases hins : db.insert row with
    | error e => rw [hins] at hstep; cases hstep
    | ok db0 =>
      rw [hins] at hstep
      simp only [Except.map] at hstep
      injection hstep with hstep
      obtain ⟨hfresh, hdb0⟩ := insert_ok hins
      obtain ⟨d1, d2, d3, d4, d5, d6⟩ := delAll_spec m db0
      rw [hstep] at d1 d2 d3 d4 d5 d6
      rw [List.flatMap_cons, List.nodup_append] at hB
      have hm_ids : ∀ x ∈ m, x ∈ db.features.map (·.id) := hA (row, m) List.mem_cons_self
      have hrow_m : m.contains row.id = false := by
        rw [Bool.eq_false_iff]; intro hc
        exact hfresh (hm_ids _ (List.contains_iff_mem.1 hc))
      have hf1 : db1.features = db.features.filter (fun x => !m.contains x.id) ++ [row] := by
        rw [d1, hdb0]
        simp only [List.filter_append, List.filter_cons, List.filter_nil, hrow_m, Bool.not_false, if_true]
      have hA' : ∀ r ∈ L, ∀ x ∈ r.2, x ∈ db1.features.map (·.id) := by
        intro r hr x hx
        have hx0 := hA r (List.mem_cons_of_mem _ hr) x hx
        have hxm : x ∉ m := fun hxm => hB.2.2 x hxm x (List.mem_flatMap.2 ⟨r, hr, hx⟩) rfl
        obtain ⟨y, hy, hye⟩ := List.mem_map.1 hx0
        rw [hf1, List.map_append, List.mem_append]
        left
        refine List.mem_map.2 ⟨y, List.mem_filter.2 ⟨hy, ?_⟩, hye⟩
        simp only [Bool.not_eq_true', ← Bool.not_eq_true, List.contains_iff_mem]
        rw [hye]; exact hxm
      obtain ⟨e1, e2, e3, e4, e5, e6⟩ := ih db1 db' hrest hA' hB.2.1
      have hrow_M : (L.flatMap (·.2)).contains row.id = false := by
        rw [Bool.eq_false_iff]; intro hc
        obtain ⟨r, hr, hx⟩ := List.mem_flatMap.1 (List.contains_iff_mem.1 hc)
        exact hfresh (hA r (List.mem_cons_of_mem _ hr) _ hx)
      have hdb0' : db0.relations = db.relations ∧ db0.metaRows = db.metaRows ∧ db0.directives = db.directives ∧
          db0.autoinc = db.autoinc ∧ db0.duplicates = db.duplicates := by
        rw [hdb0]; exact ⟨rfl, rfl, rfl, rfl, rfl⟩
      refine ⟨?_, ?_, ?_, ?_, ?_, ?_⟩
      · rw [e1, hf1]
        simp only [List.filter_append, List.filter_cons, List.filter_nil, hrow_M, Bool.not_false, if_true,
          List.filter_filter, List.flatMap_cons, List.map_cons, List.append_assoc, List.cons_append,
          List.nil_append]
        congr 1
        apply List.filter_congr
        intro x _
        by_cases h1 : x.id ∈ m <;> by_cases h2 : x.id ∈ L.flatMap (·.2) <;> simp [h1, h2]
      · rw [e2, d2, hdb0'.1]
        simp only [List.filter_filter, List.flatMap_cons]
        apply List.filter_congr
        intro x _
        simp only [List.contains_append, Bool.not_or]
        cases m.contains x.parent <;> cases m.contains x.child <;>
          cases (L.flatMap (·.2)).contains x.parent <;> cases (L.flatMap (·.2)).contains x.child <;> rfl
      · rw [e3, d3, hdb0'.2.1]
      · rw [e4, d4, hdb0'.2.2.1]
      · rw [e5, d5, hdb0'.2.2.2.1]
      · rw [e6, d6, hdb0'.2.2.2.2]

/-- `exclude_components=False`: relate one member to the merged feature and rewrite its row -/
def relStep (mid : Str) (db : Db) (k : Str × Row) : Py Db :=
  (db.insertRel ⟨mid, k.1, 1⟩).map (fun db => db.replaceRow k.1 k.2)

/-- store the merged row, then relate every member -/
def relaStep (db : Db) (r : Row × List (Str × Row)) : Py Db :=
  (db.insert r.1).bind (fun db => r.2.foldlM (relStep r.1.id) db)

/-- replace the rows whose id is listed by the listed row -/
def subst (pairs : List (Str × Row)) (x : Row) : Row :=
  match pairs.find? (fun p => decide (p.1 = x.id)) with
  | some p => p.2
  | none => x

theorem subst_id (pairs : List (Str × Row)) (hC : ∀ k ∈ pairs, k.2.id = k.1) (x : Row) :
    (subst pairs x).id = x.id := by
  unfold subst
  split
  · rename_i p hp
    have := List.find?_some hp
    rw [hC p (List.mem_of_find?_eq_some hp)]
    simpa using this
  · rfl

theorem subst_of_not_mem (pairs : List (Str × Row)) (x : Row) (h : x.id ∉ pairs.map (·.1)) :
    subst pairs x = x := by
  unfold subst
  have : pairs.find? (fun p => decide (p.1 = x.id)) = none := by
    rw [List.find?_eq_none]
    intro p hp hc
    apply h
    simp only [decide_eq_true_eq] at hc
    exact List.mem_map.2 ⟨p, hp, hc⟩
  rw [this]

theorem subst_append (a b : List (Str × Row)) (hC : ∀ k ∈ a, k.2.id = k.1)
    (hN : ((a ++ b).map (·.1)).Nodup) (x : Row) : subst b (subst a x) = subst (a ++ b) x := by
  unfold subst
  rw [List.find?_append]
  cases ha : a.find? (fun p => decide (p.1 = x.id)) with
  | none => simp
  | some p =>
    simp only [Option.some_or]
    have hp := List.mem_of_find?_eq_some ha
    have hpx : p.1 = x.id := by simpa using List.find?_some ha
    have hnb : p.2.id ∉ b.map (·.1) := by
      rw [hC p hp]
      rw [List.map_append, List.nodup_append] at hN
      intro hmem
      exact hN.2.2 p.1 (List.mem_map_of_mem hp) p.1 hmem rfl
    have := subst_of_not_mem b p.2 hnb
    unfold subst at this
    exact this

theorem kidsFold_closed (mid : Str) (ks : List (Str × Row)) : ∀ (db db' : Db),
    ks.foldlM (relStep mid) db = .ok db' → (∀ k ∈ ks, k.2.id = k.1) → (ks.map (·.1)).Nodup →
    db'.features = db.features.map (subst ks) ∧
    db'.relations = db.relations ++ ks.map (fun k => ⟨mid, k.1, 1⟩) ∧
    db'.metaRows = db.metaRows ∧ db'.directives = db.directives ∧
    db'.autoinc = db.autoinc ∧ db'.duplicates = db.duplicates := by
  induction ks with
  | nil =>
    intro db db' h _ _
    simp only [List.foldlM_nil, pure, Except.pure] at h
    injection h with h; subst h
    refine ⟨?_, by simp, rfl, rfl, rfl, rfl⟩
    have : subst [] = id := by funext x; rfl
    rw [this, List.map_id]
  | cons k ks ih =>
    intro db db' h hC hN
    obtain ⟨db1, hstep, hrest⟩ := foldlM_cons_ok _ _ _ _ _ h
    unfold relStep at hstep
    cases hins : db.insertRel ⟨mid, k.1, 1⟩ with
    | error e => rw [hins] at hstep; cases hstep
    | ok db0 =>
      rw [hins] at hstep
      simp only [Except.map] at hstep
      injection hstep with hstep
      obtain ⟨_, hdb0⟩ := insertRel_ok hins
      rw [List.map_cons, List.nodup_cons] at hN
      obtain ⟨e1, e2, e3, e4, e5, e6⟩ := ih db1 db' hrest
        (fun k' hk' => hC k' (List.mem_cons_of_mem _ hk')) hN.2
      subst hstep; subst hdb0
      refine ⟨?_, ?_, e3, e4, e5, e6⟩
      · rw [e1]
        simp only [Db.replaceRow, List.map_map]
        apply List.map_congr_left
        intro x _
        simp only [Function.comp]
        have hsplit : subst (k :: ks) x = subst ks (subst [k] x) :=
          (subst_append [k] ks (fun k' hk' => by
            rw [List.mem_singleton] at hk'; subst hk'; exact hC k' List.mem_cons_self)
            (by simpa using hN) x).symm
        rw [hsplit]
        congr 1
        unfold subst
        by_cases hx : x.id = k.1
        · simp [hx]
        · have : ¬ k.1 = x.id := fun c => hx c.symm
          simp [hx, this]
      · rw [e2]
        simp [Db.replaceRow]

theorem relaFold_closed (L : List (Row × List (Str × Row))) : ∀ (db db' : Db),
    L.foldlM relaStep db = .ok db' →
    (∀ r ∈ L, ∀ k ∈ r.2, k.1 ∈ db.features.map (·.id)) →
    (∀ r ∈ L, ∀ k ∈ r.2, k.2.id = k.1) →
    ((L.flatMap (·.2)).map (·.1)).Nodup →
    db'.features = db.features.map (subst (L.flatMap (·.2))) ++ L.map (·.1) ∧
    db'.relations = db.relations ++ L.flatMap (fun r => r.2.map (fun k => ⟨r.1.id, k.1, 1⟩)) ∧
    db'.metaRows = db.metaRows ∧ db'.directives = db.directives ∧
    db'.autoinc = db.autoinc ∧ db'.duplicates = db.duplicates := by
  induction L with
  | nil =>
    intro db db' h _ _ _
    simp only [List.foldlM_nil, pure, Except.pure] at h
    injection h with h; subst h
    refine ⟨?_, by simp, rfl, rfl, rfl, rfl⟩
    have : subst [] = id := by funext x; rfl
    simp [this]
  | cons r L ih =>
    intro db db' h hA hC hN
    obtain ⟨db1, hstep, hrest⟩ := foldlM_cons_ok _ _ _ _ _ h
    obtain ⟨row, ks⟩ := r
    unfold relaStep at hstep
    simp only at hstep
    cases hins : db.insert row with
    | error e => rw [hins] at hstep; cases hstep
    | ok db0 =>
      rw [hins] at hstep
      simp only [Except.bind] at hstep
      obtain ⟨hfresh, hdb0⟩ := insert_ok hins
      rw [List.flatMap_cons, List.map_append] at hN
      have hN' := List.nodup_append.1 hN
      have hCk : ∀ k ∈ ks, k.2.id = k.1 := hC (row, ks) List.mem_cons_self
      obtain ⟨d1, d2, d3, d4, d5, d6⟩ := kidsFold_closed row.id ks db0 db1 hstep hCk hN'.1
      have hks_ids : ∀ k ∈ ks, k.1 ∈ db.features.map (·.id) := hA (row, ks) List.mem_cons_self
      have hrow_ks : row.id ∉ ks.map (·.1) := by
        intro hmem
        obtain ⟨k, hk, hke⟩ := List.mem_map.1 hmem
        exact hfresh (hke ▸ hks_ids k hk)
      have hf1 : db1.features = db.features.map (subst ks) ++ [row] := by
        rw [d1, hdb0]
        simp only [List.map_append, List.map_cons, List.map_nil, subst_of_not_mem ks row hrow_ks]
      have hids1 : db1.features.map (·.id) = db.features.map (·.id) ++ [row.id] := by
        rw [hf1, List.map_append, List.map_map]
        congr 1
        apply List.map_congr_left
        intro x _
        exact subst_id ks hCk x
      have hA' : ∀ r ∈ L, ∀ k ∈ r.2, k.1 ∈ db1.features.map (·.id) := by
        intro r hr k hk
        rw [hids1, List.mem_append]
        exact Or.inl (hA r (List.mem_cons_of_mem _ hr) k hk)
      obtain ⟨e1, e2, e3, e4, e5, e6⟩ := ih db1 db' hrest hA'
        (fun r hr => hC r (List.mem_cons_of_mem _ hr)) hN'.2.1
      have hrow_K : row.id ∉ (L.flatMap (·.2)).map (·.1) := by
        intro hmem
        obtain ⟨k, hk, hke⟩ := List.mem_map.1 hmem
        obtain ⟨r, hr, hkr⟩ := List.mem_flatMap.1 hk
        exact hfresh (hke ▸ hA r (List.mem_cons_of_mem _ hr) k hkr)
      have hdb0' : db0.relations = db.relations ∧ db0.metaRows = db.metaRows ∧ db0.directives = db.directives ∧
          db0.autoinc = db.autoinc ∧ db0.duplicates = db.duplicates := by
        rw [hdb0]; exact ⟨rfl, rfl, rfl, rfl, rfl⟩
      refine ⟨?_, ?_, ?_, ?_, ?_, ?_⟩
      · rw [e1, hf1]
        simp only [List.map_append, List.map_cons, List.map_nil, List.map_map, List.flatMap_cons,
          subst_of_not_mem _ row hrow_K, List.append_assoc, List.cons_append, List.nil_append]
        congr 1
        apply List.map_congr_left
        intro x _
        simp only [Function.comp]
        exact subst_append ks _ hCk (by rw [List.map_append]; exact hN) x
      · rw [e2, d2, hdb0'.1]
        simp [List.flatMap_cons]
      · rw [e3, d3, hdb0'.2.1]
      · rw [e4, d4, hdb0'.2.2.1]
      · rw [e5, d5, hdb0'.2.2.2.1]
      · rw [e6, d6, hdb0'.2.2.2.2]

/-! ### a concrete session (non-vacuity witness shared by `Props/C15Db.lean` and `Props/C16Db.lean`)

one gene `g1`, two transcripts `t1` (`+`) and `t2` (`-`); exons of `t1`: `e1` 1..10 and `e2` 8..20 overlap,
`e3` 21..30 is adjacent to `e2`, `e4` 40..50 is separated; exons of `t2`: `e5` 100..110, `e6` 120..130.
The exon rows are stored out of start order. -/
namespace Ex

def mkRow (id ftype : String) (start stop : Int) (strand : String) (parent : List String) : Row :=
  { id := id.toList, seqid := "chr1".toList, source := ['.'], ftype := ftype.toList, start := some start,
    stop := some stop, score := ['.'], strand := strand.toList, frame := ['.'],
    attrs := [("ID".toList, [id.toList])] ++ (if parent.isEmpty then [] else [("Parent".toList, parent.map String.toList)]),
    extra := [], bin := none }

def g1 := mkRow "g1" "gene" 1 130 "+" []
def t1 := mkRow "t1" "mRNA" 1 50 "+" ["g1"]
def t2 := mkRow "t2" "mRNA" 100 130 "-" ["g1"]
def e1 := mkRow "e1" "exon" 1 10 "+" ["t1"]
def e2 := mkRow "e2" "exon" 8 20 "+" ["t1"]
def e3 := mkRow "e3" "exon" 21 30 "+" ["t1"]
def e4 := mkRow "e4" "exon" 40 50 "+" ["t1"]
def e5 := mkRow "e5" "exon" 100 110 "-" ["t2"]
def e6 := mkRow "e6" "exon" 120 130 "-" ["t2"]

def rel (p c : String) (l : Int) : Rel := ⟨p.toList, c.toList, l⟩

def sess : Session :=
  { db := { features := [g1, t1, e4, e1, e3, e2, t2, e6, e5],
            relations := [rel "g1" "t1" 1, rel "g1" "t2" 1,
              rel "t1" "e1" 1, rel "t1" "e2" 1, rel "t1" "e3" 1, rel "t1" "e4" 1, rel "t2" "e5" 1, rel "t2" "e6" 1,
              rel "g1" "e1" 2, rel "g1" "e2" 2, rel "g1" "e3" 2, rel "g1" "e4" 2, rel "g1" "e5" 2, rel "g1" "e6" 2] },
    auto := [], dialect := Dialect.default, directives := [] }

theorem kids_t1 : orderedKids sess "t1".toList (some 1) "exon".toList = [e1, e2, e3, e4] :=
  orderedKids_eq_of_sorted _ _ _ _ _ (by decide +kernel) (by decide +kernel) (by decide +kernel)

theorem kids_t2 : orderedKids sess "t2".toList (some 1) "exon".toList = [e5, e6] :=
  orderedKids_eq_of_sorted _ _ _ _ _ (by decide +kernel) (by decide +kernel) (by decide +kernel)

theorem kids_g1 : orderedKids sess "g1".toList none "exon".toList = [e1, e2, e3, e4, e5, e6] :=
  orderedKids_eq_of_sorted _ _ _ _ _ (by decide +kernel) (by decide +kernel) (by decide +kernel)

end Ex

end GffProofs.DbExportAux
