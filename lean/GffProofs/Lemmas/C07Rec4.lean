import GffProofs.Lemmas.C07WF
namespace GffProofs.C07
open GffModel GffModel.Parser GffModel.Grammar

def itemTextD (d : Dialect) (kv : Str × List Str) : Str :=
  if !kv.2.isEmpty then
    let valStr := Str.join d.multiSep kv.2
    if !valStr.isEmpty then
      let valStr := if d.quoted then '"' :: valStr ++ ['"'] else valStr
      Str.join d.kvSep [kv.1, valStr]
    else kv.1
  else
    if d.fmt = gtf then Str.join d.kvSep [kv.1, ['"', '"']] else kv.1

def recText (keyvals : Attrs) (d : Dialect) : Str :=
    let attributes : Attrs :=
      if d.fmt ≠ gff3 then keyvals
      else Dict.ofList (keyvals.map (fun (k, v) => (k, v.map Quote.quoteStr)))
    let items : List (Str × List Str) :=
      if d.repeatedKeys then
        attributes.flatMap (fun (k, v) => if v.length > 1 then v.map (fun x => (k, [x])) else [(k, v)])
      else attributes
    let items := items.mergeSort (sortKeyLe d.order)
    let parts := items.map (itemTextD d)
    let partsStr := Str.join d.fieldSep parts
    (if d.trailingSemicolon then partsStr ++ [';'] else partsStr)

theorem reconstruct_some (kv : Attrs) (d : Dialect) :
    reconstruct kv (some d) true false = if kv.isEmpty then .ok [] else .ok (recText kv d) := by
  unfold reconstruct recText
  simp only [Bool.false_or, decide_eq_true_eq, if_true]
  rfl

theorem valOk_ne_nil (s : LineSpec) (v : Str) (h : valOk s v = true) : v ≠ [] := by
  unfold valOk at h
  simp only [Bool.and_eq_true] at h
  intro e; rw [e] at h; simp at h

theorem attributes_eq (s : LineSpec) (hn : (s.attrs.map (·.key)).Nodup) :
    (if s.fmt ≠ gff3 then s.mapping
      else Dict.ofList (s.mapping.map (fun (k, v) => (k, v.map Quote.quoteStr))))
    = s.attrs.map (fun it => (it.key, it.vals.map s.encVal)) := by
  unfold LineSpec.mapping LineSpec.encVal
  by_cases hf : s.fmt = gff3
  · simp only [hf, ne_eq, not_true_eq_false, if_false, if_true]
    rw [Dict.ofList_nodup]
    · simp [List.map_map, Function.comp_def]
    · simpa [List.map_map, Function.comp_def] using hn
  · simp [hf]

theorem items_eq (s : LineSpec) :
    (if s.repeated = true then
        (s.attrs.map (fun it => (it.key, it.vals.map s.encVal))).flatMap
          (fun (k, v) => if v.length > 1 then v.map (fun x => (k, [x])) else [(k, v)])
      else s.attrs.map (fun it => (it.key, it.vals.map s.encVal)))
    = s.attrs.flatMap (blockItems s) := by
  unfold blockItems
  by_cases hr : s.repeated = true
  · simp only [hr, if_true, true_and, List.flatMap_map]
    simp [List.map_map, Function.comp_def]
  · simp only [hr]
    simp only [Bool.false_eq_true, false_and, if_false]
    rw [List.map_eq_flatMap]

/-- the non-default dialect of a line with attributes -/
def dialect' (s : LineSpec) : Dialect :=
  { leadingSemicolon := false, trailingSemicolon := s.trailing, quoted := s.quoted, fieldSep := s.sep,
    kvSep := s.kvSep, multiSep := [','], fmt := s.fmt, repeatedKeys := s.repeated,
    order := s.attrs.flatMap (blockKeys s) }

theorem dialect_eq (s : LineSpec) (he : s.attrs ≠ []) : s.dialect = dialect' s := by
  have he' : s.attrs.isEmpty = false := by simpa using he
  unfold LineSpec.dialect dialect' blockKeys
  simp [he']

theorem itemTextD_eq (s : LineSpec) : itemTextD (dialect' s) = itemText s := by
  funext kv; rfl

theorem reconstruct_render_aux (s : LineSpec) (W : WFacts s) :
    reconstruct s.mapping (some s.dialect) true false = .ok (renderAttrs s) := by
  by_cases he : s.attrs = []
  · simp [reconstruct, LineSpec.mapping, renderAttrs, he]
  · have he' : s.attrs.isEmpty = false := by simpa using he
    have hm : s.mapping.isEmpty = false := by simpa [LineSpec.mapping] using he
    rw [reconstruct_some, dialect_eq s he, hm]
    unfold renderAttrs recText
    simp only [he', Bool.false_eq_true, if_false]
    show Except.ok (if s.trailing = true then _ else _) = _
    have h1 : (dialect' s).fmt = s.fmt := rfl
    have h2 : (dialect' s).repeatedKeys = s.repeated := rfl
    have h3 : (dialect' s).order = s.attrs.flatMap (blockKeys s) := rfl
    have h4 : (dialect' s).fieldSep = s.sep := rfl
    simp only [h1, h2, h3, h4]
    rw [attributes_eq s W.nodup, items_eq s]
    rw [List.mergeSort_of_pairwise (by simpa using pairwise_blocks s [] s.attrs W.nodup (by simp))]
    rw [itemTextD_eq, List.map_flatMap]
    have : s.attrs.flatMap (fun a => (blockItems s a).map (itemText s)) = s.attrs.flatMap (renderItem s) := by
      rw [List.flatMap_def, List.flatMap_def]; congr 1
      apply List.map_congr_left
      intro it hit
      exact block_text s it (fun v hv => valOk_ne_nil s v (W.val it hit v hv))
    rw [this]

end GffProofs.C07
