/-
  C10c — SPECIFICATION definitions (no proofs) for GTF `update` with gene / transcript inference ON.

  What an open GTF database holds after `create_db` and any number of `update`s, written from what the real
  code was OBSERVED to do (replay on `/repo`, see `GffProofs/Props/C10c.lean`):

  * every line of every batch is stored once, under its key, unchanged (`lineRow`);
  * a derived `transcript` / `gene` row is created the FIRST time its id owns an exon (and has no explicit
    line); its extent is computed over all lines imported SO FAR — and it is never recomputed: when a later
    batch brings more exons, the newly derived feature collides with the stored row, `_do_merge(…, 'merge')`
    either finds the stored row equal on the compared columns (attributes are re-written, to the same value)
    or renames the new feature `<id>_<n>` and drops it.  The stored row is STALE: it spans the exons of a
    prefix of the history (`StaleDerived`);
* the relation table is the one of the concatenated file (`RelSpec`).
-/
import GffProofs.Props.C03

namespace GffProofs.C10c
open GffModel GffModel.Create GffModel.Interface
open GffProofs.C03
open GffProofs.C04 (autoId)

/-- **domain, beyond C03's**: no transcript id or gene id, extended by `_<n>`, is itself a key, a transcript id
or a gene id.  (For ids of explicit lines this is C03's `MergeOk.noSuffixed`.)  The renamed duplicate of a
re-derived feature is recorded as `(<id>, <id>_<n>)` in the `duplicates` table; a later `_do_merge` for `<id>`
looks those names up, and a row that happens to carry one becomes a merge candidate
(`GffProofs.C10c.suffix_needed`: the real code then rewrites the attributes of the WRONG row). -/
def SuffixOk (cfg : Cfg) (fs : List Feature) : Prop :=
  ∀ x, x ∈ tids cfg fs ∨ x ∈ gids cfg fs → ∀ n,
    autoId x n ∉ (keyed cfg fs).map (·.2) ∧ autoId x n ∉ tids cfg fs ∧ autoId x n ∉ gids cfg fs

/-- **domain**: an explicit `gene` / `transcript` line that arrives in the batch `post` does not name an id that
owned an exon in the lines `pre` imported before (such an id may already have a derived row; the explicit line
would collide with it and be treated by the user's merge strategy — `ValueError` by default). -/
def LateOk (cfg : Cfg) (pre post : List Feature) : Prop :=
  ∀ fk ∈ keyedAux cfg pre post, explicit fk.1 = true → (∀ g, ¬ TOwns cfg pre fk.2 g) ∧ ¬ GOwns cfg pre fk.2

/-- a derived row as some earlier import left it: the derived `transcript` row of `t` / `gene` row of `g`
computed over a PREFIX `fs'` of the lines `fs` (a prefix in which the id already owns an exon) -/
def StaleDerived (cfg : Cfg) (fs : List Feature) (row : Row) : Prop :=
  (∃ t g fs', fs' <+: fs ∧ TOwns cfg fs' t g ∧ IsTranscriptRow cfg fs' t g row) ∨
  (∃ g fs', fs' <+: fs ∧ GOwns cfg fs' g ∧ IsGeneRow cfg fs' g row)

/-- **the invariant of an open GTF database** whose history (the lines of `create_db` followed by those of
every `update`, concatenated) is `fs`.  It does not mention the `disable_infer_*` flags: they may change
between updates. -/
structure GtfDbInv (cfg : Cfg) (fs : List Feature) (db : Db) (auto : Dict Nat) : Prop where
  /-- every line is stored under its key, unchanged -/
  linesIn : ∀ fk ∈ keyed cfg fs, lineRow fk.1 fk.2 ∈ db.features
  /-- every stored row is a line, or a (possibly stale) derived row -/
  rows : ∀ row ∈ db.features, (∃ fk ∈ keyed cfg fs, row = lineRow fk.1 fk.2) ∨ StaleDerived cfg fs row
  /-- ids are pairwise distinct -/
  idsNodup : (db.features.map (·.id)).Nodup
  /-- the relation table is exactly the one the lines mean, no row twice -/
  rels : ∀ r, r ∈ db.relations ↔ RelSpec cfg fs r
  relsNodup : db.relations.Nodup
  /-- the `duplicates` table only records renamed gene / transcript ids -/
  dups : ∀ on ∈ db.duplicates, (on.1 ∈ tids cfg fs ∨ on.1 ∈ gids cfg fs) ∧ ∃ n, on.2 = autoId on.1 n
  /-- the counter of every line featuretype is the number of lines of that type (counters named after a gene /
  transcript id count its discarded re-derivations) -/
  cnt : ∀ ft, ft ≠ geneT → ft ≠ transcriptT → ft ∉ tids cfg fs → ft ∉ gids cfg fs →
    (auto.get? ft).getD 0 = (fs.filter (fun g => g.ftype = ft)).length

/-! ### histories -/

/-- `row` is the derived `transcript` / `gene` row of its id computed over exactly the lines `F` -/
def DerivedAt (cfg : Cfg) (F : List Feature) (row : Row) : Prop :=
  (∃ t g, TOwns cfg F t g ∧ IsTranscriptRow cfg F t g row) ∨ (∃ g, GOwns cfg F g ∧ IsGeneRow cfg F g row)

/-- `id` owns an exon in the lines `F`, as a transcript or as a gene -/
def OwnsId (cfg : Cfg) (F : List Feature) (id : Str) : Prop := (∃ g, TOwns cfg F id g) ∨ GOwns cfg F id

/-- `P` is the FIRST boundary of the history `b0, bs` — the lines imported up to the end of `create_db` (`b0`) or of
some `update` — at which `own` holds -/
def BornAt (b0 : List Feature) (bs : List (List Feature)) (own : List Feature → Prop) (P : List Feature) : Prop :=
  own P ∧ (P = b0 ∨ ∃ B1 b B2, bs = B1 ++ b :: B2 ∧ P = b0 ++ B1.flatten ++ b ∧ ¬ own (b0 ++ B1.flatten))

/-- a sequence of `update`s with the same configuration -/
def updates (cfg : Cfg) : Session → List (List Feature) → Py Session
  | s, [] => .ok s
  | s, b :: bs => update s cfg b >>= fun s' => updates cfg s' bs

end GffProofs.C10c
