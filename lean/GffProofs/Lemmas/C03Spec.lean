/-
  C03 — SPECIFICATION definitions (no proofs): what a GTF file *means*, written from the property text
  only.  The theorems of `GffProofs/Props/C03.lean` say that the importer computes exactly this.

  * `tidOf` / `gidOf`      — the transcript / gene id a line carries
  * `lineKey` / `keyed`    — the primary key every line is filed under
  * `lineRow`              — the table row of a line
  * `LineRel`              — the relations one line contributes
  * `CfgOk`, `GtfOk`, `ExtOk`, `MergeOk` — the domain
  * `IsTranscriptRow` / `IsGeneRow` — the derived rows
-/
import GffModel.Interface
import GffProofs.Props.C04

namespace GffProofs.C03
open GffModel GffModel.Create GffModel.Interface
open GffProofs.C04 (autoId)

def geneT : Str := "gene".toList
def transcriptT : Str := "transcript".toList
def derivedSrc : Str := "gffutils_derived".toList

/-- the first value of attribute `k` (Python: `f.attributes[k][0]`) -/
def firstVal (f : Feature) (k : Str) : Option Str :=
  match f.attrs.get? k with
  | some (v :: _) => some v
  | _ => none

/-- the transcript id / gene id a line carries -/
def tidOf (cfg : Cfg) (f : Feature) : Option Str := firstVal f cfg.transcriptKey
def gidOf (cfg : Cfg) (f : Feature) : Option Str := firstVal f cfg.geneKey

/-- a `gene` or `transcript` line written in the file itself -/
def explicit (f : Feature) : Bool := decide (f.ftype = geneT) || decide (f.ftype = transcriptT)

/-- the primary key of the line `f` when the lines `pre` precede it: a `gene` line is filed under its
gene id, a `transcript` line under its transcript id, any other line under `<featuretype>_<n>` where `n`
counts the lines of that featuretype so far -/
def lineKey (cfg : Cfg) (pre : List Feature) (f : Feature) : Str :=
  if f.ftype = geneT then (gidOf cfg f).getD []
  else if f.ftype = transcriptT then (tidOf cfg f).getD []
  else autoId f.ftype ((pre.filter (fun g => g.ftype = f.ftype)).length + 1)

/-- every line of the file paired with its key -/
def keyedAux (cfg : Cfg) (pre : List Feature) : List Feature → List (Feature × Str)
  | [] => []
  | f :: rest => (f, lineKey cfg pre f) :: keyedAux cfg (pre ++ [f]) rest
def keyed (cfg : Cfg) (fs : List Feature) : List (Feature × Str) := keyedAux cfg [] fs

/-- the row stored for feature `f` under key `k`: the nine columns and attributes of the line, the bin
recomputed from the coordinates -/
def lineRow (f : Feature) (k : Str) : Row :=
  { id := k, seqid := f.seqid, source := f.source, ftype := f.ftype, start := f.start, stop := f.stop,
    score := f.score, strand := f.strand, frame := f.frame, attrs := f.attrs, extra := f.extra,
    bin := match Feature.calcBin f.start f.stop with | some (.int i) => some i | _ => none }

/-- the relations one line `f` (filed under `k`) contributes: a non-gene, non-transcript line is a level-1
child of its transcript and a level-2 child of its gene; any line carrying both ids makes the transcript a
level-1 child of the gene -/
def LineRel (cfg : Cfg) (fk : Feature × Str) (r : Rel) : Prop :=
  (explicit fk.1 = false ∧ ∃ t, tidOf cfg fk.1 = some t ∧ r = ⟨t, fk.2, 1⟩) ∨
  (explicit fk.1 = false ∧ ∃ g, gidOf cfg fk.1 = some g ∧ r = ⟨g, fk.2, 2⟩) ∨
  (∃ t g, tidOf cfg fk.1 = some t ∧ gidOf cfg fk.1 = some g ∧ r = ⟨g, t, 1⟩)

/-- the relation set of a whole file -/
def RelSpec (cfg : Cfg) (fs : List Feature) (r : Rel) : Prop := ∃ fk ∈ keyed cfg fs, LineRel cfg fk r

/-- all transcript ids / gene ids occurring in the file -/
def tids (cfg : Cfg) (fs : List Feature) : List Str := fs.filterMap (tidOf cfg)
def gids (cfg : Cfg) (fs : List Feature) : List Str := fs.filterMap (gidOf cfg)

/-! ### domain -/

/-- configuration: `id_spec = {"gene": gene_key, "transcript": transcript_key}` for arbitrary (distinct,
plain) key names, arbitrary subfeature type other than `gene`/`transcript`; strategy, dialect,
`force_merge_fields` and the two `disable_infer_*` flags are arbitrary.  The default configuration
(`defaultGtfSpec`, `gene_id`, `transcript_id`, `exon`) is an instance. -/
structure CfgOk (cfg : Cfg) : Prop where
  spec : cfg.idSpec = .perType [(geneT, [.attr cfg.geneKey]), (transcriptT, [.attr cfg.transcriptKey])]
  gkPlain : isFieldSpec cfg.geneKey = false
  tkPlain : isFieldSpec cfg.transcriptKey = false
  keysNe : cfg.transcriptKey ≠ cfg.geneKey
  subNeGene : cfg.subfeature ≠ geneT
  subNeTr : cfg.subfeature ≠ transcriptT

/-- the file: -/
structure GtfOk (cfg : Cfg) (fs : List Feature) : Prop where
  nonempty : fs ≠ []
  /-- `gene` lines carry exactly one gene id and no transcript id -/
  geneLines : ∀ f ∈ fs, f.ftype = geneT → (∃ g, f.attrs.get? cfg.geneKey = some [g]) ∧ tidOf cfg f = none
  /-- `transcript` lines carry exactly one transcript id -/
  trLines : ∀ f ∈ fs, f.ftype = transcriptT → ∃ t, f.attrs.get? cfg.transcriptKey = some [t]
  /-- explicit gene/transcript lines are unique per id (that ALL keys are pairwise distinct then follows:
  `GtfOk.keysNodup`) -/
  explicitDistinct : (keyed cfg fs).Pairwise (fun a b => explicit a.1 = true → explicit b.1 = true → a.2 ≠ b.2)
  /-- no transcript id / gene id equals a generated key `<featuretype>_<n>` of this file -/
  idsNotAuto : ∀ fk ∈ keyed cfg fs, explicit fk.1 = false → fk.2 ∉ tids cfg fs ∧ fk.2 ∉ gids cfg fs
  /-- transcript ids and gene ids are different names -/
  tgDisjoint : ∀ t ∈ tids cfg fs, t ∉ gids cfg fs

/-- the subfeature (exon) lines of transcript `t` / of gene `g` -/
def subOfT (cfg : Cfg) (fs : List Feature) (t : Str) : List Feature :=
  fs.filter (fun f => decide (f.ftype = cfg.subfeature) && decide (tidOf cfg f = some t))
def subOfG (cfg : Cfg) (fs : List Feature) (g : Str) : List Feature :=
  fs.filter (fun f => decide (f.ftype = cfg.subfeature) && decide (gidOf cfg f = some g))

/-- what extent inference needs -/
structure ExtOk (cfg : Cfg) (fs : List Feature) : Prop where
  /-- subfeature lines have integer coordinates -/
  coords : ∀ f ∈ fs, f.ftype = cfg.subfeature → (∃ s, f.start = some s) ∧ (∃ e, f.stop = some e)
  /-- a subfeature line that names a transcript names a gene -/
  subGene : ∀ f ∈ fs, f.ftype = cfg.subfeature → ∀ t, tidOf cfg f = some t → ∃ g, gidOf cfg f = some g
  /-- a transcript id belongs to one gene id -/
  oneGene : ∀ f ∈ fs, ∀ f' ∈ fs, ∀ t g g', tidOf cfg f = some t → tidOf cfg f' = some t →
    gidOf cfg f = some g → gidOf cfg f' = some g' → g = g'
  /-- the exons of a transcript agree on seqid and strand -/
  tAgree : ∀ f ∈ fs, ∀ f' ∈ fs, f.ftype = cfg.subfeature → f'.ftype = cfg.subfeature →
    ∀ t, tidOf cfg f = some t → tidOf cfg f' = some t → f.seqid = f'.seqid ∧ f.strand = f'.strand
  /-- the exons of a gene agree on seqid and strand -/
  gAgree : ∀ f ∈ fs, ∀ f' ∈ fs, f.ftype = cfg.subfeature → f'.ftype = cfg.subfeature →
    ∀ g, gidOf cfg f = some g → gidOf cfg f' = some g → f.seqid = f'.seqid ∧ f.strand = f'.strand

/-- what the treatment of explicit `gene`/`transcript` lines needs (vacuous when the file has none): the
line is not itself marked `gffutils_derived` (and `source` is a compared column), so that the derived
duplicate is not merged into it; and no id in the file has the shape `<explicit id>_<n>` — the key the
discarded duplicate is given -/
structure MergeOk (cfg : Cfg) (fs : List Feature) : Prop where
  srcCompared : (∃ f ∈ fs, explicit f = true) → "source".toList ∉ cfg.forceMergeFields
  srcNotDerived : ∀ f ∈ fs, explicit f = true → f.source ≠ derivedSrc
  noSuffixed : ∀ fk ∈ keyed cfg fs, explicit fk.1 = true → ∀ n,
    autoId fk.2 n ∉ (keyed cfg fs).map (·.2) ∧ autoId fk.2 n ∉ tids cfg fs ∧ autoId fk.2 n ∉ gids cfg fs

/-! ### the derived rows -/

/-- `m` is the least / greatest element of `l` -/
def IsMin (l : List Int) (m : Int) : Prop := m ∈ l ∧ ∀ x ∈ l, m ≤ x
def IsMax (l : List Int) (m : Int) : Prop := m ∈ l ∧ ∀ x ∈ l, x ≤ m

/-- the bin column as `Feature.astuple()` computes it -/
def binCol (s e : Option Int) : Option Int :=
  match Feature.calcBin s e with | some (.int i) => some i | _ => none

/-- `row` is a derived feature of type `ft` stored under `id` with attributes `attrs`, spanning exactly the
subfeature lines `subs` (min start … max end, on their seqid and strand) -/
structure IsDerivedRow (row : Row) (id ft : Str) (attrs : Attrs) (subs : List Feature) : Prop where
  id : row.id = id
  ftype : row.ftype = ft
  source : row.source = derivedSrc
  start : ∃ s, row.start = some s ∧ IsMin (subs.filterMap (·.start)) s
  stop : ∃ e, row.stop = some e ∧ IsMax (subs.filterMap (·.stop)) e
  seqid : ∀ f ∈ subs, row.seqid = f.seqid
  strand : ∀ f ∈ subs, row.strand = f.strand
  score : row.score = ['.']
  frame : row.frame = ['.']
  attrs : row.attrs = attrs
  extra : row.extra = []
  bin : row.bin = binCol row.start row.stop

/-- the derived `transcript` row of `t` (in gene `g`) -/
def IsTranscriptRow (cfg : Cfg) (fs : List Feature) (t g : Str) (row : Row) : Prop :=
  IsDerivedRow row t transcriptT [(cfg.transcriptKey, [t]), (cfg.geneKey, [g])] (subOfT cfg fs t)

/-- the derived `gene` row of `g` -/
def IsGeneRow (cfg : Cfg) (fs : List Feature) (g : Str) (row : Row) : Prop :=
  IsDerivedRow row g geneT [(cfg.geneKey, [g])] (subOfG cfg fs g)

/-- transcript `t` of gene `g` owns an exon: some subfeature line carries `t`, and `g` is its gene -/
def TOwns (cfg : Cfg) (fs : List Feature) (t g : Str) : Prop :=
  ∃ f ∈ fs, f.ftype = cfg.subfeature ∧ tidOf cfg f = some t ∧ gidOf cfg f = some g

/-- gene `g` owns an exon through a transcript -/
def GOwns (cfg : Cfg) (fs : List Feature) (g : Str) : Prop := ∃ t, TOwns cfg fs t g

/-- `id` has an explicit line -/
def HasExplicit (cfg : Cfg) (fs : List Feature) (id : Str) : Prop :=
  ∃ fk ∈ keyed cfg fs, explicit fk.1 = true ∧ fk.2 = id

end GffProofs.C03
