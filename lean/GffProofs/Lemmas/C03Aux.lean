/-
  C03 — helper lemmas, part 1: one line of `_GTFDBCreator._populate_from_lines`, and the invariant of
  the whole loop.
-/
import GffProofs.Lemmas.C03Spec
import GffProofs.Lemmas.C02Db
import GffProofs.Props.C02

namespace GffProofs.C03
open GffModel GffModel.Create GffModel.Interface
open GffProofs.C04 (autoId incr_spec Dict.get?_set_self Dict.get?_set_ne)
open GffProofs.C02 (calcBin_ne_set insert_fresh mem_insertRelIgnore nodup_insertRelIgnore insertRelIgnore_features)

/-! ### rows -/

theorem ofFeature_lineRow (f : Feature) (k : Str) :
    Row.ofFeature { f with id := some k } = .ok (lineRow f k) := by
  unfold Row.ofFeature
  simp only
  split
  · rename_i bs hb
    exact absurd hb (calcBin_ne_set _ _ _)
  · rfl

theorem lineRow_id (f : Feature) (k : Str) : (lineRow f k).id = k := rfl

/-! ### `_id_handler` on the three kinds of line -/

theorem geneT_ne_transcriptT : geneT ≠ transcriptT := by decide

theorem idHandler_attr (m : Dict (List KeySpec)) (auto : Dict Nat) (f : Feature) (ks : Str) (v : Str)
    (hm : m.get? f.ftype = some [.attr ks])
    (hp : isFieldSpec ks = false) (hv : f.attrs.get? ks = some [v]) :
    idHandler (.perType m) auto f = .ok (v, auto) := by
  rw [GffProofs.C04.id_dict_entry auto f m _ hm]
  exact GffProofs.C04.id_first_present auto f [] ks [] v (by simpa using hp) (by simp) hv

theorem idHandler_gene (cfg : Cfg) (hc : CfgOk cfg) (auto : Dict Nat) (f : Feature) (g : Str)
    (hf : f.ftype = geneT) (hv : f.attrs.get? cfg.geneKey = some [g]) :
    idHandler cfg.idSpec auto f = .ok (g, auto) := by
  rw [hc.spec]
  apply idHandler_attr _ auto f cfg.geneKey g _ hc.gkPlain hv
  rw [hf]
  simp [Dict.get?]

theorem idHandler_tr (cfg : Cfg) (hc : CfgOk cfg) (auto : Dict Nat) (f : Feature) (t : Str)
    (hf : f.ftype = transcriptT) (hv : f.attrs.get? cfg.transcriptKey = some [t]) :
    idHandler cfg.idSpec auto f = .ok (t, auto) := by
  rw [hc.spec]
  apply idHandler_attr _ auto f cfg.transcriptKey t _ hc.tkPlain hv
  rw [hf]
  simp [Dict.get?, geneT_ne_transcriptT]

theorem idHandler_other (cfg : Cfg) (hc : CfgOk cfg) (auto : Dict Nat) (f : Feature)
    (hg : f.ftype ≠ geneT) (ht : f.ftype ≠ transcriptT) :
    idHandler cfg.idSpec auto f = .ok (incr auto f.ftype) := by
  rw [hc.spec]
  apply GffProofs.C04.id_dict_missing
  simp [Dict.get?, Ne.symm hg, Ne.symm ht]

/-! ### the relation part of `gtfStep` -/

/-- the relation inserts of `gtfStep`, as a function of the line and the id it was filed under -/
def addRels (cfg : Cfg) (f : Feature) (fid : Str) (db : Db) : Db :=
  let parent : Option Str := match f.attrs.get? cfg.transcriptKey with
    | some (t :: _) => some t
    | _ => none
  let grand : Option Str := match f.attrs.get? cfg.geneKey with
    | some (g :: _) => some g
    | _ => none
  let db := match parent with
    | some p => if p ≠ fid then db.insertRelIgnore ⟨p, fid, 1⟩ else db
    | none => db
  match grand with
  | some g =>
    let db := if fid ≠ g ∧ parent ≠ some fid then db.insertRelIgnore ⟨g, fid, 2⟩ else db
    match parent with
    | some p => if p ≠ g then db.insertRelIgnore ⟨g, p, 1⟩ else db
    | none => db
  | none => db

theorem gtfStep_fresh (cfg : Cfg) (db : Db) (auto auto' : Dict Nat) (f : Feature) (k : Str)
    (hid : idHandler cfg.idSpec auto f = .ok (k, auto')) (hfresh : k ∉ db.features.map (·.id)) :
    gtfStep cfg (db, auto) f =
      .ok (addRels cfg f k { db with features := db.features ++ [lineRow f k] }, auto') := by
  have hins := insert_fresh db (lineRow f k) hfresh
  simp only [gtfStep, hid, fileFeature, ofFeature_lineRow, hins, bind, Except.bind, pure, Except.pure]
  rfl

/-- what `gtfStep` inserts, read off the code -/
def StepRel (cfg : Cfg) (f : Feature) (k : Str) (r : Rel) : Prop :=
  (∃ t, tidOf cfg f = some t ∧ t ≠ k ∧ r = ⟨t, k, 1⟩) ∨
  (∃ g, gidOf cfg f = some g ∧ k ≠ g ∧ tidOf cfg f ≠ some k ∧ r = ⟨g, k, 2⟩) ∨
  (∃ t g, tidOf cfg f = some t ∧ gidOf cfg f = some g ∧ t ≠ g ∧ r = ⟨g, t, 1⟩)

theorem addRels_features (cfg : Cfg) (f : Feature) (k : Str) (db : Db) :
    (addRels cfg f k db).features = db.features := by
  unfold addRels
  simp only
  repeat' split
  all_goals simp only [insertRelIgnore_features]

theorem addRels_duplicates (cfg : Cfg) (f : Feature) (k : Str) (db : Db) :
    (addRels cfg f k db).duplicates = db.duplicates := by
  have h : ∀ (d : Db) (r : Rel), (d.insertRelIgnore r).duplicates = d.duplicates := by
    intro d r; unfold Db.insertRelIgnore; split <;> rfl
  unfold addRels
  simp only
  repeat' split
  all_goals simp only [h]

theorem addRels_nodup (cfg : Cfg) (f : Feature) (k : Str) (db : Db) (h : db.relations.Nodup) :
    (addRels cfg f k db).relations.Nodup := by
  unfold addRels
  simp only
  repeat' split
  all_goals first
    | exact h
    | exact nodup_insertRelIgnore _ _ h
    | exact nodup_insertRelIgnore _ _ (nodup_insertRelIgnore _ _ h)
    | exact nodup_insertRelIgnore _ _ (nodup_insertRelIgnore _ _ (nodup_insertRelIgnore _ _ h))

theorem mem_addRels (cfg : Cfg) (f : Feature) (k : Str) (db : Db) (r : Rel) :
    r ∈ (addRels cfg f k db).relations ↔ r ∈ db.relations ∨ StepRel cfg f k r := by
  unfold addRels StepRel tidOf gidOf firstVal
  cases ht : f.attrs.get? cfg.transcriptKey with
  | none =>
    cases hg : f.attrs.get? cfg.geneKey with
    | none => simp
    | some gs =>
      cases gs with
      | nil => simp
      | cons g gs =>
        simp only
        by_cases h1 : k = g
        · simp [h1]
        · simp [h1, mem_insertRelIgnore]
  | some ts =>
    cases ts with
    | nil =>
      cases hg : f.attrs.get? cfg.geneKey with
      | none => simp
      | some gs =>
        cases gs with
        | nil => simp
        | cons g gs =>
          simp only
          by_cases h1 : k = g
          · simp [h1]
          · simp [h1, mem_insertRelIgnore]
    | cons t ts =>
      cases hg : f.attrs.get? cfg.geneKey with
      | none =>
        simp only
        by_cases h1 : t = k
        · simp [h1]
        · simp [h1, mem_insertRelIgnore]
      | some gs =>
        cases gs with
        | nil =>
          simp only
          by_cases h1 : t = k
          · simp [h1]
          · simp [h1, mem_insertRelIgnore]
        | cons g gs =>
          simp only
          by_cases h1 : t = k <;> by_cases h2 : k = g <;> by_cases h3 : t = g <;>
            simp [h1, h2, h3, mem_insertRelIgnore, Ne.symm, eq_comm, or_assoc] <;> grind

/-! ### `keyed` -/

theorem keyedAux_append (cfg : Cfg) (l : List Feature) : ∀ (acc : List Feature) (l' : List Feature),
    keyedAux cfg acc (l ++ l') = keyedAux cfg acc l ++ keyedAux cfg (acc ++ l) l' := by
  induction l with
  | nil => intro acc l'; simp [keyedAux]
  | cons x l ih =>
    intro acc l'
    simp only [List.cons_append, keyedAux, ih, List.append_assoc, List.nil_append]

theorem keyed_snoc (cfg : Cfg) (pre : List Feature) (f : Feature) :
    keyed cfg (pre ++ [f]) = keyed cfg pre ++ [(f, lineKey cfg pre f)] := by
  unfold keyed
  rw [keyedAux_append]
  simp [keyedAux]

theorem keyed_append_cons (cfg : Cfg) (pre : List Feature) (f : Feature) (post : List Feature) :
    keyed cfg (pre ++ f :: post) = keyed cfg pre ++ (f, lineKey cfg pre f) :: keyedAux cfg (pre ++ [f]) post := by
  unfold keyed
  rw [keyedAux_append]
  simp [keyedAux]

theorem keyedAux_map_fst (cfg : Cfg) (l : List Feature) : ∀ acc, (keyedAux cfg acc l).map (·.1) = l := by
  induction l with
  | nil => intro acc; rfl
  | cons x l ih => intro acc; simp [keyedAux, ih]

theorem keyed_map_fst (cfg : Cfg) (fs : List Feature) : (keyed cfg fs).map (·.1) = fs := keyedAux_map_fst cfg fs []

theorem mem_of_mem_keyed {cfg : Cfg} {fs : List Feature} {fk : Feature × Str} (h : fk ∈ keyed cfg fs) :
    fk.1 ∈ fs := by
  have : fk.1 ∈ (keyed cfg fs).map (·.1) := List.mem_map.mpr ⟨fk, h, rfl⟩
  rwa [keyed_map_fst] at this

theorem exists_key_of_mem {cfg : Cfg} {fs : List Feature} {f : Feature} (h : f ∈ fs) :
    ∃ k, (f, k) ∈ keyed cfg fs := by
  rw [← keyed_map_fst cfg fs] at h
  obtain ⟨fk, hfk, rfl⟩ := List.mem_map.mp h
  exact ⟨fk.2, hfk⟩

/-- the `i`-th line gets `lineKey` of the lines before it -/
theorem keyed_getElem (cfg : Cfg) (fs : List Feature) (i : Nat) (hi : i < fs.length) :
    (keyed cfg fs)[i]? = some (fs[i], lineKey cfg (fs.take i) fs[i]) := by
  have h : fs = fs.take i ++ fs[i] :: fs.drop (i + 1) := by simp
  have hl : (keyed cfg (fs.take i)).length = i := by
    have := congrArg List.length (keyed_map_fst cfg (fs.take i))
    simp only [List.length_map, List.length_take] at this
    omega
  conv => lhs; rw [h, keyed_append_cons]
  rw [List.getElem?_append_right (by omega)]
  simp [hl]

/-! ### generated keys never collide -/

theorem natToStr_eq (n : Nat) : Str.natToStr n = Nat.toDigits 10 n := by
  unfold Str.natToStr
  rw [Nat.toString_eq_repr, Nat.toList_repr]

theorem natToStr_inj {n m : Nat} (h : Str.natToStr n = Str.natToStr m) : n = m := by
  rw [natToStr_eq, natToStr_eq] at h
  have := congrArg (fun l => Nat.ofDigitChars 10 l 0) h
  simpa [Nat.ofDigitChars_ten_toDigits] using this

theorem underscore_notin_natToStr (n : Nat) : '_' ∉ Str.natToStr n := by
  rw [natToStr_eq]; exact Nat.underscore_not_in_toDigits

theorem append_sep_inj (c : Char) : ∀ (a b d1 d2 : List Char), c ∉ d1 → c ∉ d2 →
    a ++ c :: d1 = b ++ c :: d2 → a = b ∧ d1 = d2 := by
  intro a
  induction a with
  | nil =>
    intro b d1 d2 h1 h2 he
    cases b with
    | nil => simpa using he
    | cons x b =>
      simp only [List.nil_append, List.cons_append, List.cons.injEq] at he
      exact absurd (by rw [he.2]; simp) h1
  | cons y a ih =>
    intro b d1 d2 h1 h2 he
    cases b with
    | nil =>
      simp only [List.nil_append, List.cons_append, List.cons.injEq] at he
      exact absurd (by rw [← he.2]; simp) h2
    | cons x b =>
      simp only [List.cons_append, List.cons.injEq] at he
      obtain ⟨r1, r2⟩ := ih b d1 d2 h1 h2 he.2
      exact ⟨by rw [he.1, r1], r2⟩

/-- `<a>_<n> = <b>_<m>` only when `a = b` and `n = m` -/
theorem autoId_inj {a b : Str} {n m : Nat} (h : autoId a n = autoId b m) : a = b ∧ n = m := by
  unfold autoId at h
  simp only [List.append_assoc, List.singleton_append] at h
  obtain ⟨h1, h2⟩ := append_sep_inj '_' a b _ _ (underscore_notin_natToStr n) (underscore_notin_natToStr m) h
  exact ⟨h1, natToStr_inj h2⟩

theorem of_mem_keyedAux (cfg : Cfg) (l : List Feature) : ∀ (acc : List Feature) (fk : Feature × Str),
    fk ∈ keyedAux cfg acc l → ∃ pre post, l = pre ++ fk.1 :: post ∧ fk.2 = lineKey cfg (acc ++ pre) fk.1 := by
  induction l with
  | nil => intro acc fk h; cases h
  | cons f l ih =>
    intro acc fk h
    simp only [keyedAux, List.mem_cons] at h
    rcases h with rfl | h
    · exact ⟨[], l, rfl, by simp⟩
    · obtain ⟨pre, post, h1, h2⟩ := ih _ fk h
      exact ⟨f :: pre, post, by simp [h1], by simpa using h2⟩

theorem lineKey_auto (cfg : Cfg) (pre : List Feature) (f : Feature) (h : explicit f = false) :
    lineKey cfg pre f = autoId f.ftype ((pre.filter (fun g => g.ftype = f.ftype)).length + 1) := by
  have := (by simpa [explicit] using h : ¬ f.ftype = geneT ∧ ¬ f.ftype = transcriptT)
  simp [lineKey, this.1, this.2]

/-- the generated keys are pairwise distinct -/
theorem keyedAux_pairwise_auto (cfg : Cfg) (l : List Feature) : ∀ acc,
    (keyedAux cfg acc l).Pairwise (fun a b => explicit a.1 = false → explicit b.1 = false → a.2 ≠ b.2) := by
  induction l with
  | nil => intro acc; simp [keyedAux]
  | cons f l ih =>
    intro acc
    simp only [keyedAux, List.pairwise_cons]
    refine ⟨?_, ih _⟩
    intro b hb ha hbe
    obtain ⟨pre, post, _, h2⟩ := of_mem_keyedAux cfg l _ b hb
    show lineKey cfg acc f ≠ b.2
    rw [h2, lineKey_auto cfg _ f ha, lineKey_auto cfg _ b.1 hbe]
    intro e
    obtain ⟨e1, e2⟩ := autoId_inj e
    simp only [List.filter_append, List.length_append, ← e1, List.filter_cons, decide_true, if_true,
      List.filter_nil, List.length_cons, List.length_nil] at e2
    omega

/-! ### under the domain, what the code inserts is what the line means -/

theorem explicit_false_iff (f : Feature) : explicit f = false ↔ f.ftype ≠ geneT ∧ f.ftype ≠ transcriptT := by
  simp [explicit]

theorem mem_tids {cfg : Cfg} {fs : List Feature} {f : Feature} {t : Str} (hf : f ∈ fs) (h : tidOf cfg f = some t) :
    t ∈ tids cfg fs := List.mem_filterMap.mpr ⟨f, hf, h⟩
theorem mem_gids {cfg : Cfg} {fs : List Feature} {f : Feature} {g : Str} (hf : f ∈ fs) (h : gidOf cfg f = some g) :
    g ∈ gids cfg fs := List.mem_filterMap.mpr ⟨f, hf, h⟩

theorem firstVal_single {f : Feature} {k v : Str} (h : f.attrs.get? k = some [v]) : firstVal f k = some v := by
  simp [firstVal, h]

/-- all keys are pairwise distinct -/
theorem GtfOk.keysNodup {cfg : Cfg} {fs : List Feature} (h : GtfOk cfg fs) : ((keyed cfg fs).map (·.2)).Nodup := by
  rw [List.nodup_iff_pairwise_ne, List.pairwise_map]
  have hexp : ∀ fk ∈ keyed cfg fs, explicit fk.1 = true → fk.2 ∈ tids cfg fs ∨ fk.2 ∈ gids cfg fs := by
    intro fk hfk hex
    have hf := mem_of_mem_keyed hfk
    obtain ⟨pre, post, _, hk⟩ := of_mem_keyedAux cfg fs [] fk hfk
    simp only [explicit, Bool.or_eq_true, decide_eq_true_eq] at hex
    by_cases hG : fk.1.ftype = geneT
    · obtain ⟨⟨g, hg⟩, _⟩ := h.geneLines fk.1 hf hG
      right
      have : fk.2 = g := by rw [hk]; simp [lineKey, hG, gidOf, firstVal_single hg]
      rw [this]; exact mem_gids hf (firstVal_single hg)
    · have hT : fk.1.ftype = transcriptT := by rcases hex with h1 | h1; exact absurd h1 hG; exact h1
      obtain ⟨t, ht⟩ := h.trLines fk.1 hf hT
      left
      have : fk.2 = t := by
        rw [hk]; simp [lineKey, hT, tidOf, firstVal_single ht, Ne.symm geneT_ne_transcriptT]
      rw [this]; exact mem_tids hf (firstVal_single ht)
  refine List.Pairwise.imp_of_mem ?_ (h.explicitDistinct.and (keyedAux_pairwise_auto cfg fs []))
  intro a b ha hb ⟨h1, h2⟩
  cases hea : explicit a.1 <;> cases heb : explicit b.1
  · exact h2 hea heb
  · intro e
    rcases hexp b hb heb with h3 | h3
    · exact (h.idsNotAuto a ha hea).1 (e ▸ h3)
    · exact (h.idsNotAuto a ha hea).2 (e ▸ h3)
  · intro e
    rcases hexp a ha hea with h3 | h3
    · exact (h.idsNotAuto b hb heb).1 (e ▸ h3)
    · exact (h.idsNotAuto b hb heb).2 (e ▸ h3)
  · exact h1 hea heb

theorem stepRel_iff_lineRel (cfg : Cfg) (fs : List Feature) (h : GtfOk cfg fs) (fk : Feature × Str)
    (hfk : fk ∈ keyed cfg fs) (hk : fk.1.ftype = geneT → some fk.2 = gidOf cfg fk.1)
    (hk' : fk.1.ftype = transcriptT → some fk.2 = tidOf cfg fk.1) (r : Rel) :
    StepRel cfg fk.1 fk.2 r ↔ LineRel cfg fk r := by
  obtain ⟨f, k⟩ := fk
  have hf : f ∈ fs := mem_of_mem_keyed hfk
  simp only at hk hk' ⊢
  unfold StepRel LineRel
  simp only
  have tg : ∀ t g, tidOf cfg f = some t → gidOf cfg f = some g → t ≠ g := by
    intro t g h1 h2 e
    exact h.tgDisjoint t (mem_tids hf h1) (e ▸ mem_gids hf h2)
  by_cases hG : f.ftype = geneT
  · obtain ⟨⟨g, hg⟩, htn⟩ := h.geneLines f hf hG
    have hex : explicit f = true := by simp [explicit, hG]
    have hkg := hk hG
    simp only [htn, hex]
    simp only [gidOf, firstVal_single hg, Option.some.injEq] at hkg ⊢
    subst hkg
    simp
  · by_cases hT : f.ftype = transcriptT
    · have hex : explicit f = true := by simp [explicit, hT]
      have hkt := hk' hT
      simp only [hex, ← hkt]
      constructor
      · rintro (⟨t, h1, h2, _⟩ | ⟨g, _, _, h3, _⟩ | ⟨t, g, h1, h2, _, h4⟩)
        · cases h1; exact absurd rfl h2
        · exact absurd rfl h3
        · exact Or.inr (Or.inr ⟨t, g, h1, h2, h4⟩)
      · rintro (⟨h0, _⟩ | ⟨h0, _⟩ | ⟨t, g, h1, h2, h4⟩)
        · cases h0
        · cases h0
        · exact Or.inr (Or.inr ⟨t, g, h1, h2, tg t g (by rw [← hkt]; exact h1) h2, h4⟩)
    · have hex : explicit f = false := (explicit_false_iff f).mpr ⟨hG, hT⟩
      obtain ⟨hnt, hng⟩ := h.idsNotAuto (f, k) hfk hex
      simp only at hnt hng
      simp only [hex, true_and]
      constructor
      · rintro (⟨t, h1, _, h3⟩ | ⟨g, h1, _, _, h4⟩ | ⟨t, g, h1, h2, _, h4⟩)
        · exact Or.inl ⟨t, h1, h3⟩
        · exact Or.inr (Or.inl ⟨g, h1, h4⟩)
        · exact Or.inr (Or.inr ⟨t, g, h1, h2, h4⟩)
      · rintro (⟨t, h1, h3⟩ | ⟨g, h1, h4⟩ | ⟨t, g, h1, h2, h4⟩)
        · refine Or.inl ⟨t, h1, ?_, h3⟩
          rintro rfl; exact hnt (mem_tids hf h1)
        · refine Or.inr (Or.inl ⟨g, h1, ?_, ?_, h4⟩)
          · rintro rfl; exact hng (mem_gids hf h1)
          · intro e; exact hnt (mem_tids hf e)
        · exact Or.inr (Or.inr ⟨t, g, h1, h2, tg t g h1 h2, h4⟩)


/-! ### the loop invariant of `_populate_from_lines` -/

structure PopInv (cfg : Cfg) (pre : List Feature) (db : Db) (auto : Dict Nat) : Prop where
  feats : db.features = (keyed cfg pre).map (fun fk => lineRow fk.1 fk.2)
  rels : ∀ r, r ∈ db.relations ↔ ∃ fk ∈ keyed cfg pre, LineRel cfg fk r
  nodup : db.relations.Nodup
  dups : db.duplicates = []
  cnt : ∀ ft, ft ≠ geneT → ft ≠ transcriptT →
    (auto.get? ft).getD 0 = (pre.filter (fun g => g.ftype = ft)).length

theorem lineKey_spec (cfg : Cfg) (hc : CfgOk cfg) (fs : List Feature) (h : GtfOk cfg fs) (pre : List Feature)
    (f : Feature) (hf : f ∈ fs) (auto : Dict Nat)
    (hcnt : ∀ ft, ft ≠ geneT → ft ≠ transcriptT →
      (auto.get? ft).getD 0 = (pre.filter (fun g => g.ftype = ft)).length) :
    ∃ auto', idHandler cfg.idSpec auto f = .ok (lineKey cfg pre f, auto') ∧
      (∀ ft, ft ≠ geneT → ft ≠ transcriptT →
        (auto'.get? ft).getD 0 = ((pre ++ [f]).filter (fun g => g.ftype = ft)).length) ∧
      (f.ftype = geneT → some (lineKey cfg pre f) = gidOf cfg f) ∧
      (f.ftype = transcriptT → some (lineKey cfg pre f) = tidOf cfg f) := by
  by_cases hG : f.ftype = geneT
  · obtain ⟨⟨g, hg⟩, _⟩ := h.geneLines f hf hG
    have hk : lineKey cfg pre f = g := by simp [lineKey, hG, gidOf, firstVal_single hg]
    refine ⟨auto, ?_, ?_, ?_, ?_⟩
    · rw [hk]; exact idHandler_gene cfg hc auto f g hG hg
    · intro ft h1 h2
      have : ¬ f.ftype = ft := by rw [hG]; exact Ne.symm h1
      simp [List.filter_append, this, hcnt ft h1 h2]
    · intro _; rw [hk, gidOf, firstVal_single hg]
    · intro e; rw [hG] at e; exact absurd e geneT_ne_transcriptT
  · by_cases hT : f.ftype = transcriptT
    · obtain ⟨t, ht⟩ := h.trLines f hf hT
      have hk : lineKey cfg pre f = t := by
        simp [lineKey, hT, tidOf, firstVal_single ht, Ne.symm geneT_ne_transcriptT]
      refine ⟨auto, ?_, ?_, ?_, ?_⟩
      · rw [hk]; exact idHandler_tr cfg hc auto f t hT ht
      · intro ft h1 h2
        have : ¬ f.ftype = ft := by rw [hT]; exact Ne.symm h2
        simp [List.filter_append, this, hcnt ft h1 h2]
      · intro e; exact absurd e hG
      · intro _; rw [hk, tidOf, firstVal_single ht]
    · refine ⟨(incr auto f.ftype).2, ?_, ?_, fun e => absurd e hG, fun e => absurd e hT⟩
      · rw [idHandler_other cfg hc auto f hG hT, incr_spec, hcnt f.ftype hG hT]
        simp [lineKey, hG, hT]
      · intro ft h1 h2
        rw [incr_spec]
        simp only
        by_cases e : f.ftype = ft
        · subst e
          rw [Dict.get?_set_self, hcnt f.ftype h1 h2]
          simp [List.filter_append]
        · rw [Dict.get?_set_ne _ _ _ _ (Ne.symm e), hcnt ft h1 h2]
          simp [List.filter_append, e]

theorem gtfStep_inv (cfg : Cfg) (hc : CfgOk cfg) (fs : List Feature) (h : GtfOk cfg fs)
    (pre : List Feature) (f : Feature) (post : List Feature) (hfs : fs = pre ++ f :: post)
    (db : Db) (auto : Dict Nat) (inv : PopInv cfg pre db auto) :
    ∃ db' auto', gtfStep cfg (db, auto) f = .ok (db', auto') ∧ PopInv cfg (pre ++ [f]) db' auto' := by
  have hf : f ∈ fs := by rw [hfs]; simp
  obtain ⟨auto', hid, hcnt', hkg, hkt⟩ := lineKey_spec cfg hc fs h pre f hf auto inv.cnt
  have hmem : (f, lineKey cfg pre f) ∈ keyed cfg fs := by rw [hfs, keyed_append_cons]; simp
  have hfresh : lineKey cfg pre f ∉ db.features.map (·.id) := by
    have hn := h.keysNodup
    rw [hfs, keyed_append_cons, List.map_append, List.map_cons, List.nodup_append] at hn
    intro hin
    rw [inv.feats, List.map_map] at hin
    obtain ⟨fk, hfk, hfke⟩ := List.mem_map.mp hin
    exact hn.2.2 fk.2 (List.mem_map.mpr ⟨fk, hfk, rfl⟩) (lineKey cfg pre f) (by simp) hfke
  refine ⟨_, auto', gtfStep_fresh cfg db auto auto' f _ hid hfresh, ?_, ?_, ?_, ?_, hcnt'⟩
  · rw [addRels_features, keyed_snoc, inv.feats]; simp
  · intro r
    rw [mem_addRels, stepRel_iff_lineRel cfg fs h (f, lineKey cfg pre f) hmem hkg hkt, keyed_snoc]
    show (r ∈ db.relations ∨ _) ↔ _
    rw [inv.rels]
    constructor
    · rintro (⟨fk, hfk, hr⟩ | hr)
      · exact ⟨fk, List.mem_append_left _ hfk, hr⟩
      · exact ⟨_, by simp, hr⟩
    · rintro ⟨fk, hfk, hr⟩
      rcases List.mem_append.mp hfk with hfk | hfk
      · exact Or.inl ⟨fk, hfk, hr⟩
      · simp only [List.mem_singleton] at hfk; subst hfk; exact Or.inr hr
  · exact addRels_nodup _ _ _ _ inv.nodup
  · rw [addRels_duplicates]; exact inv.dups

theorem foldlM_gtfStep_inv (cfg : Cfg) (hc : CfgOk cfg) (fs : List Feature) (h : GtfOk cfg fs)
    (post : List Feature) : ∀ (pre : List Feature) (db : Db) (auto : Dict Nat), fs = pre ++ post →
      PopInv cfg pre db auto →
      ∃ db' auto', post.foldlM (gtfStep cfg) (db, auto) = .ok (db', auto') ∧ PopInv cfg fs db' auto' := by
  induction post with
  | nil =>
    intro pre db auto hfs inv
    rw [List.append_nil] at hfs; subst hfs
    exact ⟨db, auto, rfl, inv⟩
  | cons f post ih =>
    intro pre db auto hfs inv
    obtain ⟨db1, auto1, h1, inv1⟩ := gtfStep_inv cfg hc fs h pre f post hfs db auto inv
    obtain ⟨db2, auto2, h2, inv2⟩ := ih (pre ++ [f]) db1 auto1 (by simpa using hfs) inv1
    refine ⟨db2, auto2, ?_, inv2⟩
    simp only [List.foldlM_cons, h1, bind, Except.bind]
    exact h2

theorem popInv_empty (cfg : Cfg) : PopInv cfg [] ({} : Db) [] where
  feats := rfl
  rels := fun r => ⟨fun hr => (by cases hr), fun ⟨_, hfk, _⟩ => (by cases hfk)⟩
  nodup := List.nodup_nil
  dups := rfl
  cnt := fun _ _ _ => rfl

theorem populateGtf_inv (cfg : Cfg) (hc : CfgOk cfg) (fs : List Feature) (h : GtfOk cfg fs) :
    ∃ db auto, populateGtf cfg {} [] fs = .ok (db, auto) ∧ PopInv cfg fs db auto := by
  have hne : fs.isEmpty = false := by
    cases fs with
    | nil => exact absurd rfl h.nonempty
    | cons a l => rfl
  obtain ⟨db, auto, hdb, inv⟩ := foldlM_gtfStep_inv cfg hc fs h fs [] {} [] rfl (popInv_empty cfg)
  refine ⟨db, auto, ?_, inv⟩
  unfold populateGtf
  rw [hne]
  exact hdb

end GffProofs.C03
