/-
  C10 helpers: the GFF3 importer run on an EXISTING database (`FeatureDB.update`) under the C02 domain
  (one `ID` per feature, pairwise different) plus freshness of the new ids.  Generalises the C02
  invariant `Inv` from the empty database to an arbitrary start `db0`.
-/
import GffProofs.Lemmas.C10Aux
import GffProofs.Props.C02

namespace GffProofs.C10
open GffModel GffModel.Create GffModel.Interface
open GffProofs.C02 (idOf parentsOf GraphOk gffCfg Edge1 idHandler_default calcBin_ne_set insert_fresh
  edge1_append_single edge1_nil foldl_insertRel_features foldl_insertRel_mem foldl_insertRel_nodup)

/-- the row `Feature.astuple()` binds for `f` filed under `id`: the nine columns, attributes, extra
fields, and the bin recomputed from the coordinates -/
def rowOf (f : Feature) (id : Str) : Row :=
  { id := id, seqid := f.seqid, source := f.source, ftype := f.ftype, start := f.start, stop := f.stop,
    score := f.score, strand := f.strand, frame := f.frame, attrs := f.attrs, extra := f.extra,
    bin := match Feature.calcBin f.start f.stop with
      | some (.int i) => some i
      | _ => none }

theorem ofFeature_rowOf (f : Feature) (id : Str) : Row.ofFeature { f with id := some id } = .ok (rowOf f id) := by
  unfold Row.ofFeature
  simp only
  split
  · rename_i bs hb
    exact absurd hb (calcBin_ne_set _ _ _)
  · rfl

/-- the rows a list of features contributes -/
def newRows (fs : List Feature) : List Row := fs.filterMap (fun f => (idOf f).map (rowOf f))

theorem newRows_ids (fs : List Feature) : (newRows fs).map (·.id) = fs.filterMap idOf := by
  unfold newRows
  induction fs with
  | nil => rfl
  | cons f fs ih =>
    cases h : idOf f with
    | none => simp only [List.filterMap_cons, h, Option.map_none]; exact ih
    | some id =>
      simp only [List.filterMap_cons, h, Option.map_some, List.map_cons, ih]
      rfl

theorem newRows_append (a b : List Feature) : newRows (a ++ b) = newRows a ++ newRows b := by
  unfold newRows; exact List.filterMap_append

/-- the invariant of `_populate_from_lines` started on `db0`, after the prefix `pre` -/
structure InvFrom (db0 : Db) (pre : List Feature) (db : Db) : Prop where
  feats : db.features = db0.features ++ newRows pre
  rels : ∀ r, r ∈ db.relations ↔ r ∈ db0.relations ∨ ∃ p c, r = ⟨p, c, 1⟩ ∧ Edge1 pre p c
  pre : db0.relations <+: db.relations
  nodup : db0.relations.Nodup → db.relations.Nodup
  rest : db = { db0 with features := db.features, relations := db.relations }

theorem invFrom_nil (db0 : Db) : InvFrom db0 [] db0 where
  feats := by simp [newRows]
  rels := fun r => ⟨Or.inl, fun h => h.elim id (fun ⟨p, c, _, he⟩ => absurd he (edge1_nil p c))⟩
  pre := List.prefix_refl _
  nodup := id
  rest := rfl

theorem gffStep_from (strategy : Strategy) (d : Dialect) (db0 : Db) (pre : List Feature) (db : Db)
    (auto : Dict Nat) (f : Feature) (id : Str) (hid : idOf f = some id)
    (hfresh : id ∉ db0.features.map (·.id) ++ pre.filterMap idOf) (inv : InvFrom db0 pre db) :
    ∃ db', gffStep (gffCfg strategy d) (db, auto) f = .ok (db', auto) ∧ InvFrom db0 (pre ++ [f]) db' := by
  have hrow := ofFeature_rowOf f id
  have hfr : (rowOf f id).id ∉ db.features.map (·.id) := by
    rw [inv.feats, List.map_append, newRows_ids]; exact hfresh
  have hins := insert_fresh db (rowOf f id) hfr
  let dbi : Db := { db with features := db.features ++ [rowOf f id] }
  have hext := foldl_insertRel_relExt (fun p => (⟨p, id, 1⟩ : Rel)) ((f.attrs.get? parentKey).getD []) dbi
  refine ⟨((f.attrs.get? parentKey).getD []).foldl (fun db p => db.insertRelIgnore ⟨p, id, 1⟩) dbi, ?_, ?_, ?_, ?_, ?_, ?_⟩
  · simp only [gffStep, gffCfg, idHandler_default auto f id hid, fileFeature, hrow, hins, bind, Except.bind,
      pure, Except.pure, dbi]
  · rw [foldl_insertRel_features]
    show db.features ++ [rowOf f id] = _
    rw [inv.feats, newRows_append, List.append_assoc]
    simp [newRows, hid]
  · intro r
    rw [foldl_insertRel_mem]
    show (r ∈ db.relations ∨ _) ↔ _
    rw [inv.rels]
    constructor
    · rintro ((h0 | ⟨p, c, rfl, he⟩) | ⟨p, hp, rfl⟩)
      · exact Or.inl h0
      · exact Or.inr ⟨p, c, rfl, (edge1_append_single _ _ _ _).mpr (Or.inl he)⟩
      · exact Or.inr ⟨p, id, rfl, (edge1_append_single _ _ _ _).mpr (Or.inr ⟨hid, hp⟩)⟩
    · rintro (h0 | ⟨p, c, rfl, he⟩)
      · exact Or.inl (Or.inl h0)
      · rcases (edge1_append_single _ _ _ _).mp he with he | ⟨h1, h2⟩
        · exact Or.inl (Or.inr ⟨p, c, rfl, he⟩)
        · rw [hid] at h1; cases h1
          exact Or.inr ⟨p, h2, rfl⟩
  · exact inv.pre.trans hext.pre
  · intro h0
    exact foldl_insertRel_nodup _ _ _ (inv.nodup h0)
  · have e := hext.eq
    rw [e]
    have e0 := inv.rest
    simp only [dbi]
    rw [e0]

theorem foldlM_from (strategy : Strategy) (d : Dialect) (db0 : Db) (post : List Feature) :
    ∀ (pre : List Feature) (db : Db) (auto : Dict Nat), InvFrom db0 pre db →
      (∀ f ∈ post, ∃ id, idOf f = some id) →
      ((pre ++ post).filterMap idOf).Nodup →
      (∀ id ∈ (pre ++ post).filterMap idOf, id ∉ db0.features.map (·.id)) →
      ∃ db', post.foldlM (gffStep (gffCfg strategy d)) (db, auto) = .ok (db', auto) ∧
        InvFrom db0 (pre ++ post) db' := by
  induction post with
  | nil =>
    intro pre db auto inv _ _ _
    exact ⟨db, rfl, by simpa using inv⟩
  | cons f post ih =>
    intro pre db auto inv hids hnd hfr
    obtain ⟨id, hid⟩ := hids f (by simp)
    have hnd' : (((pre ++ [f]) ++ post).filterMap idOf).Nodup := by simpa using hnd
    have hfr' : ∀ id ∈ ((pre ++ [f]) ++ post).filterMap idOf, id ∉ db0.features.map (·.id) := by
      simpa using hfr
    have hfresh : id ∉ db0.features.map (·.id) ++ pre.filterMap idOf := by
      intro hmem
      rcases List.mem_append.mp hmem with hmem | hmem
      · exact hfr id (by rw [List.filterMap_append, List.filterMap_cons, hid]; simp) hmem
      · rw [List.filterMap_append, List.filterMap_cons, hid, List.nodup_append] at hnd
        exact hnd.2.2 id hmem id (by simp) rfl
    obtain ⟨db1, h1, inv1⟩ := gffStep_from strategy d db0 pre db auto f id hid hfresh inv
    obtain ⟨db2, h2, inv2⟩ := ih (pre ++ [f]) db1 auto inv1 (fun g hg => hids g (by simp [hg])) hnd' hfr'
    refine ⟨db2, ?_, by simpa using inv2⟩
    simp only [List.foldlM_cons, h1, bind, Except.bind]
    exact h2

/-- `_populate_from_lines` on an existing database, in the domain: succeeds, counters untouched -/
theorem populateGff_from (strategy : Strategy) (d : Dialect) (db0 : Db) (auto : Dict Nat) (fs : List Feature)
    (h : GraphOk fs) (hfr : ∀ id ∈ fs.filterMap idOf, id ∉ db0.features.map (·.id)) :
    ∃ db, populateGff (gffCfg strategy d) db0 auto fs = .ok (db, auto) ∧ InvFrom db0 fs db := by
  have hne : fs.isEmpty = false := by
    cases fs with
    | nil => exact absurd rfl h.nonempty
    | cons a l => rfl
  obtain ⟨db, hdb, inv⟩ := foldlM_from strategy d db0 fs [] db0 auto (invFrom_nil db0) h.ids
    (by simpa using h.nodup) (by simpa using hfr)
  refine ⟨db, ?_, by simpa using inv⟩
  unfold populateGff
  rw [hne]
  exact hdb

end GffProofs.C10
