/-
  C03 — helper lemmas, part 2: `_GTFDBCreator._update_relations` cut into its three stages.
-/
import GffProofs.Lemmas.C03Aux
import GffProofs.Props.C11

namespace GffProofs.C03
open GffModel GffModel.Create GffModel.Interface
open GffProofs.C04 (autoId incr_spec)
open GffProofs.C11 (dedup_exact strLe_total strLe_trans strLe_antisymm)

/-! ### the stages, named -/

/-- transcripts = level-1 parents of stored subfeatures -/
def firstlevel (cfg : Cfg) (db : Db) : List Str :=
  dedup ((db.relations.filter (fun r =>
      decide (r.level = (1 : Int)) && (match db.getRow? r.child with
        | some row => decide (row.ftype = cfg.subfeature)
        | none => false))).map (·.parent))

/-- (transcript, gene) with `(gene, transcript, 1)` -/
def pairsOf (cfg : Cfg) (db : Db) : List (Str × Str) :=
  (firstlevel cfg db).flatMap (fun t =>
      (dedup ((db.relations.filter (fun r => r.child = t ∧ r.level = 1)).map (·.parent))).map (fun g => (t, g)))

def sortedPairs (cfg : Cfg) (db : Db) : List (Str × Str) := (pairsOf cfg db).mergeSort (fun a b => strLe a.2 b.2)

/-- first pass, one (transcript, gene) pair -/
def step1 (cfg : Cfg) (db : Db) (acc : List Feature × Option Str) (tg : Str × Str) : Py (List Feature × Option Str) := do
  let (out, lastGene) := acc
  let (t, g) := tg
  let out ← if !cfg.disableTranscripts then do
      match extent db cfg.subfeature t with
      | some ext =>
        let f ← derivedFeature "transcript".toList ext [(cfg.transcriptKey, [t]), (cfg.geneKey, [g])]
        pure (out ++ [f])
      | none => Except.error PyErr.type
    else pure out
  if !cfg.disableGenes then
    if some g ≠ lastGene then
      match extent db cfg.subfeature g with
      | some ext =>
        let f ← derivedFeature "gene".toList ext [(cfg.geneKey, [g])]
        pure (out ++ [f], some g)
      | none => Except.error PyErr.type
    else pure (out, some g)
  else pure (out, lastGene)

/-- second pass, one derived feature -/
def step2 (cfg : Cfg) (st : Db × Dict Nat) (f : Feature) : Py (Db × Dict Nat) := do
  let (db, auto) := st
  let (id, auto) ← idHandler cfg.idSpec auto f
  let f := { f with id := some id }
  let row ← Row.ofFeature f
  match db.insert row with
  | .ok db => pure (db, auto)
  | .error _ =>
    let (fixed, final, db, auto) ← doMerge cfg db auto f id .merge
    match final, fixed with
    | .merge, some fx => pure (db.modifyRow (fx.id.getD id) (fun r => { r with attrs := fx.attrs }), auto)
    | _, _ => pure (db, auto)

theorem updateRelationsGtf_eq (cfg : Cfg) (db : Db) (auto : Dict Nat) :
    updateRelationsGtf cfg db auto =
      if (cfg.disableGenes && cfg.disableTranscripts) = true then .ok (db, auto)
      else (sortedPairs cfg db).foldlM (step1 cfg db) ([], none) >>= fun r => r.1.foldlM (step2 cfg) (db, auto) := by
  unfold updateRelationsGtf
  split <;> rfl


/-! ### `MIN` / `MAX` as folds -/

theorem foldl_min_some (l : List Int) : ∀ y : Int, ∃ m,
    l.foldl (fun m x => match m with | none => some x | some y => some (min x y)) (some y) = some m ∧
      IsMin (y :: l) m := by
  induction l with
  | nil => intro y; exact ⟨y, rfl, by simp [IsMin]⟩
  | cons x l ih =>
    intro y
    obtain ⟨m, hm, hmin⟩ := ih (min x y)
    refine ⟨m, by simpa using hm, ?_⟩
    obtain ⟨h1, h2⟩ := hmin
    constructor
    · rcases List.mem_cons.mp h1 with h | h
      · rw [h]; by_cases hxy : x ≤ y
        · simp [Int.min_def, hxy]
        · simp [Int.min_def, hxy]
      · simp [h]
    · intro z hz
      have hle := h2 (min x y) (by simp)
      rcases List.mem_cons.mp hz with rfl | hz
      · have := Int.min_le_right x z; omega
      · rcases List.mem_cons.mp hz with rfl | hz
        · have := Int.min_le_left z y; omega
        · exact h2 z (by simp [hz])

theorem foldl_min_spec (l : List Int) (hne : l ≠ []) : ∃ m,
    l.foldl (fun m x => match m with | none => some x | some y => some (min x y)) none = some m ∧ IsMin l m := by
  cases l with
  | nil => exact absurd rfl hne
  | cons x l => simpa using foldl_min_some l x

theorem foldl_max_some (l : List Int) : ∀ y : Int, ∃ m,
    l.foldl (fun m x => match m with | none => some x | some y => some (max x y)) (some y) = some m ∧
      IsMax (y :: l) m := by
  induction l with
  | nil => intro y; exact ⟨y, rfl, by simp [IsMax]⟩
  | cons x l ih =>
    intro y
    obtain ⟨m, hm, hmax⟩ := ih (max x y)
    refine ⟨m, by simpa using hm, ?_⟩
    obtain ⟨h1, h2⟩ := hmax
    constructor
    · rcases List.mem_cons.mp h1 with h | h
      · rw [h]; by_cases hxy : x ≤ y
        · simp [Int.max_def, hxy]
        · simp [Int.max_def, hxy]
      · simp [h]
    · intro z hz
      have hle := h2 (max x y) (by simp)
      rcases List.mem_cons.mp hz with rfl | hz
      · have := Int.le_max_right x z; omega
      · rcases List.mem_cons.mp hz with rfl | hz
        · have := Int.le_max_left z y; omega
        · exact h2 z (by simp [hz])

theorem foldl_max_spec (l : List Int) (hne : l ≠ []) : ∃ m,
    l.foldl (fun m x => match m with | none => some x | some y => some (max x y)) none = some m ∧ IsMax l m := by
  cases l with
  | nil => exact absurd rfl hne
  | cons x l => simpa using foldl_max_some l x

theorem isMin_congr {l l' : List Int} {m : Int} (h : ∀ x, x ∈ l ↔ x ∈ l') (hm : IsMin l m) : IsMin l' m :=
  ⟨(h m).mp hm.1, fun x hx => hm.2 x ((h x).mpr hx)⟩
theorem isMax_congr {l l' : List Int} {m : Int} (h : ∀ x, x ∈ l ↔ x ∈ l') (hm : IsMax l m) : IsMax l' m :=
  ⟨(h m).mp hm.1, fun x hx => hm.2 x ((h x).mpr hx)⟩

/-! ### the extent query -/

/-- the joined rows of the extent query -/
def extRows (db : Db) (sub parent : Str) : List Row :=
  (db.relations.filter (·.parent = parent)).filterMap (fun r =>
    match db.getRow? r.child with
    | some row => if row.ftype = sub then some row else none
    | none => none)

theorem mem_extRows (db : Db) (sub parent : Str) (row : Row) :
    row ∈ extRows db sub parent ↔
      ∃ r ∈ db.relations, r.parent = parent ∧ db.getRow? r.child = some row ∧ row.ftype = sub := by
  unfold extRows
  simp only [List.mem_filterMap, List.mem_filter, decide_eq_true_eq]
  constructor
  · rintro ⟨r, ⟨hr, hp⟩, hm⟩
    refine ⟨r, hr, hp, ?_⟩
    split at hm
    · rename_i row' hrow'
      split at hm
      · cases hm; rename_i hft; exact ⟨hrow', hft⟩
      · cases hm
    · cases hm
  · rintro ⟨r, hr, hp, hrow, hft⟩
    exact ⟨r, ⟨hr, hp⟩, by simp [hrow, hft]⟩

/-- the row whose bare columns the extent query reports (sqlite's choice, see `Create.extent`) -/
def pickRow (rows : List Row) (r0 : Row) (mx : Option Int) : Row :=
  match mx with
  | some m => ((rows.mergeSort (fun (a b : Row) => strLe a.id b.id)).find? (fun (r : Row) => r.stop == some m)).getD r0
  | none => (rows.mergeSort (fun (a b : Row) => strLe a.id b.id)).getLast?.getD r0

theorem pickRow_mem (rows : List Row) (r0 : Row) (mx : Option Int) (h0 : r0 ∈ rows) : pickRow rows r0 mx ∈ rows := by
  unfold pickRow
  cases mx with
  | some m =>
    simp only
    cases hf : (rows.mergeSort (fun (a b : Row) => strLe a.id b.id)).find? (fun (r : Row) => r.stop == some m) with
    | none => simpa using h0
    | some r =>
      simp only [Option.getD_some]
      exact (List.mergeSort_perm _ _).mem_iff.mp (List.mem_of_find?_eq_some hf)
  | none =>
    simp only
    cases hl : (rows.mergeSort (fun (a b : Row) => strLe a.id b.id)).getLast? with
    | none => simpa using h0
    | some r =>
      simp only [Option.getD_some]
      exact (List.mergeSort_perm _ _).mem_iff.mp (List.mem_of_getLast? hl)

theorem extent_spec (db : Db) (sub parent : Str) (hne : extRows db sub parent ≠ [])
    (hc : ∀ r ∈ extRows db sub parent, (∃ s, r.start = some s) ∧ ∃ e, r.stop = some e) :
    ∃ s e r0, r0 ∈ extRows db sub parent ∧
      extent db sub parent = some (some s, some e, r0.strand, r0.seqid) ∧
      IsMin ((extRows db sub parent).filterMap (·.start)) s ∧
      IsMax ((extRows db sub parent).filterMap (·.stop)) e := by
  cases hrows : extRows db sub parent with
  | nil => exact absurd hrows hne
  | cons r0 rest =>
    obtain ⟨⟨s0, hs0⟩, ⟨e0, he0⟩⟩ := hc r0 (by rw [hrows]; simp)
    have hne1 : (r0 :: rest).filterMap (·.start) ≠ [] := by simp [hs0]
    have hne2 : (r0 :: rest).filterMap (·.stop) ≠ [] := by simp [he0]
    obtain ⟨s, hs, hmin⟩ := foldl_min_spec _ hne1
    obtain ⟨e, he, hmax⟩ := foldl_max_spec _ hne2
    refine ⟨s, e, pickRow (r0 :: rest) r0 (some e), pickRow_mem _ _ _ (by simp), ?_, hmin, hmax⟩
    have hx : extent db sub parent = (match extRows db sub parent with
      | [] => none
      | r0 :: _ =>
        some (((extRows db sub parent).filterMap (·.start)).foldl
                (fun m x => match m with | none => some x | some y => some (min x y)) none,
              ((extRows db sub parent).filterMap (·.stop)).foldl
                (fun m x => match m with | none => some x | some y => some (max x y)) none,
              (pickRow (extRows db sub parent) r0 (((extRows db sub parent).filterMap (·.stop)).foldl
                (fun m x => match m with | none => some x | some y => some (max x y)) none)).strand,
              (pickRow (extRows db sub parent) r0 (((extRows db sub parent).filterMap (·.stop)).foldl
                (fun m x => match m with | none => some x | some y => some (max x y)) none)).seqid)) := rfl
    rw [hx, hrows]
    simp only
    rw [hs, he]

/-! ### look-ups in the populated table -/

theorem keyed_row_mem {cfg : Cfg} {fs : List Feature} {db : Db} {auto : Dict Nat} (inv : PopInv cfg fs db auto)
    {fk : Feature × Str} (h : fk ∈ keyed cfg fs) : lineRow fk.1 fk.2 ∈ db.features := by
  rw [inv.feats]; exact List.mem_map.mpr ⟨fk, h, rfl⟩

theorem ids_eq_keys {cfg : Cfg} {fs : List Feature} {db : Db} {auto : Dict Nat} (inv : PopInv cfg fs db auto) :
    db.features.map (·.id) = (keyed cfg fs).map (·.2) := by
  rw [inv.feats, List.map_map]; rfl

theorem getRow_keyed {cfg : Cfg} {fs : List Feature} (h : GtfOk cfg fs) {db : Db} {auto : Dict Nat}
    (inv : PopInv cfg fs db auto) {fk : Feature × Str} (hfk : fk ∈ keyed cfg fs) :
    db.getRow? fk.2 = some (lineRow fk.1 fk.2) := by
  have hn : (db.features.map (·.id)).Nodup := by rw [ids_eq_keys inv]; exact h.keysNodup
  exact GffProofs.C04.getRow?_of_nodup db.features hn (lineRow fk.1 fk.2) (keyed_row_mem inv hfk)

theorem getRow_some {cfg : Cfg} {fs : List Feature} {db : Db} {auto : Dict Nat}
    (inv : PopInv cfg fs db auto) {k : Str} {row : Row} (hrow : db.getRow? k = some row) :
    ∃ f, (f, k) ∈ keyed cfg fs ∧ row = lineRow f k := by
  unfold Db.getRow? at hrow
  have hmem := List.mem_of_find?_eq_some hrow
  have hid := List.find?_some hrow
  simp only [decide_eq_true_eq] at hid
  rw [inv.feats] at hmem
  obtain ⟨fk, hfk, rfl⟩ := List.mem_map.mp hmem
  obtain ⟨f, k'⟩ := fk
  simp only [lineRow_id] at hid
  subst hid
  exact ⟨f, hfk, rfl⟩


theorem eq_of_nodup_map {α β : Type} {f : α → β} : ∀ {l : List α}, (l.map f).Nodup → ∀ {a b : α}, a ∈ l → b ∈ l →
    f a = f b → a = b := by
  intro l
  induction l with
  | nil => intro _ a b ha; cases ha
  | cons x l ih =>
    intro hn a b ha hb he
    simp only [List.map_cons, List.nodup_cons] at hn
    rcases List.mem_cons.mp ha with ha1 | ha1
    · rcases List.mem_cons.mp hb with hb1 | hb1
      · rw [ha1, hb1]
      · subst ha1; exact (hn.1 (List.mem_map.mpr ⟨b, hb1, he.symm⟩)).elim
    · rcases List.mem_cons.mp hb with hb1 | hb1
      · subst hb1; exact (hn.1 (List.mem_map.mpr ⟨a, ha1, he⟩)).elim
      · exact ih hn.2 ha1 hb1 he

/-! ### the populated table, read through the domain -/

section domain
variable {cfg : Cfg} {fs : List Feature} (hc : CfgOk cfg) (h : GtfOk cfg fs)
  {db : Db} {auto : Dict Nat} (inv : PopInv cfg fs db auto)
include hc h inv

omit hc inv in
theorem explicit_of_id_key {fk : Feature × Str} (hfk : fk ∈ keyed cfg fs)
    (hid : fk.2 ∈ tids cfg fs ∨ fk.2 ∈ gids cfg fs) : explicit fk.1 = true := by
  cases hex : explicit fk.1 with
  | true => rfl
  | false =>
    obtain ⟨h1, h2⟩ := h.idsNotAuto fk hfk hex
    rcases hid with hid | hid
    · exact absurd hid h1
    · exact absurd hid h2

omit h inv in
theorem sub_not_explicit {f : Feature} (hf : f.ftype = cfg.subfeature) : explicit f = false := by
  rw [explicit_false_iff, hf]; exact ⟨hc.subNeGene, hc.subNeTr⟩

omit hc in
theorem rel_parent_tid {r : Rel} (hr : r ∈ db.relations) {t : Str} (hp : r.parent = t) (ht : t ∈ tids cfg fs) :
    ∃ fk ∈ keyed cfg fs, explicit fk.1 = false ∧ tidOf cfg fk.1 = some t ∧ r = ⟨t, fk.2, 1⟩ := by
  obtain ⟨fk, hfk, hl⟩ := (inv.rels r).mp hr
  have hf := mem_of_mem_keyed hfk
  rcases hl with ⟨hex, t', ht', rfl⟩ | ⟨_, g, hg, rfl⟩ | ⟨t', g, _, hg, rfl⟩
  · simp only at hp; subst hp
    exact ⟨fk, hfk, hex, ht', rfl⟩
  · simp only at hp; subst hp
    exact absurd (mem_gids hf hg) (h.tgDisjoint _ ht)
  · simp only at hp; subst hp
    exact absurd (mem_gids hf hg) (h.tgDisjoint _ ht)

omit hc in
theorem rel_parent_gid {r : Rel} (hr : r ∈ db.relations) {g : Str} (hp : r.parent = g) (hg : g ∈ gids cfg fs) :
    (∃ fk ∈ keyed cfg fs, explicit fk.1 = false ∧ gidOf cfg fk.1 = some g ∧ r = ⟨g, fk.2, 2⟩) ∨
    (∃ fk ∈ keyed cfg fs, ∃ t, tidOf cfg fk.1 = some t ∧ gidOf cfg fk.1 = some g ∧ r = ⟨g, t, 1⟩) := by
  obtain ⟨fk, hfk, hl⟩ := (inv.rels r).mp hr
  have hf := mem_of_mem_keyed hfk
  rcases hl with ⟨_, t', ht', rfl⟩ | ⟨hex, g', hg', rfl⟩ | ⟨t', g', ht', hg', rfl⟩
  · simp only at hp; subst hp
    exact absurd hg (h.tgDisjoint _ (mem_tids hf ht'))
  · simp only at hp; subst hp
    exact Or.inl ⟨fk, hfk, hex, hg', rfl⟩
  · simp only at hp; subst hp
    exact Or.inr ⟨fk, hfk, t', ht', hg', rfl⟩

theorem mem_extRows_T {t : Str} (ht : t ∈ tids cfg fs) (row : Row) :
    row ∈ extRows db cfg.subfeature t ↔
      ∃ fk ∈ keyed cfg fs, fk.1.ftype = cfg.subfeature ∧ tidOf cfg fk.1 = some t ∧ row = lineRow fk.1 fk.2 := by
  rw [mem_extRows]
  constructor
  · rintro ⟨r, hr, hp, hrow, hft⟩
    obtain ⟨fk, hfk, _, htid, rfl⟩ := rel_parent_tid h inv hr hp ht
    rw [getRow_keyed h inv hfk] at hrow
    cases hrow
    exact ⟨fk, hfk, hft, htid, rfl⟩
  · rintro ⟨fk, hfk, hft, htid, rfl⟩
    refine ⟨⟨t, fk.2, 1⟩, ?_, rfl, getRow_keyed h inv hfk, hft⟩
    rw [inv.rels]
    exact ⟨fk, hfk, Or.inl ⟨sub_not_explicit hc hft, t, htid, rfl⟩⟩

theorem mem_extRows_G {g : Str} (hg : g ∈ gids cfg fs) (row : Row) :
    row ∈ extRows db cfg.subfeature g ↔
      ∃ fk ∈ keyed cfg fs, fk.1.ftype = cfg.subfeature ∧ gidOf cfg fk.1 = some g ∧ row = lineRow fk.1 fk.2 := by
  rw [mem_extRows]
  constructor
  · rintro ⟨r, hr, hp, hrow, hft⟩
    rcases rel_parent_gid h inv hr hp hg with ⟨fk, hfk, _, hgid, rfl⟩ | ⟨fk, hfk, t, htid, hgid, rfl⟩
    · rw [getRow_keyed h inv hfk] at hrow
      cases hrow
      exact ⟨fk, hfk, hft, hgid, rfl⟩
    · -- the child is a transcript id: a stored row under it is an explicit line, not a subfeature
      exfalso
      obtain ⟨f', hf', rfl⟩ := getRow_some inv hrow
      have hex := explicit_of_id_key h hf' (Or.inl (mem_tids (mem_of_mem_keyed hfk) htid))
      have : explicit f' = false := sub_not_explicit hc hft
      rw [this] at hex; cases hex
  · rintro ⟨fk, hfk, hft, hgid, rfl⟩
    refine ⟨⟨g, fk.2, 2⟩, ?_, rfl, getRow_keyed h inv hfk, hft⟩
    rw [inv.rels]
    exact ⟨fk, hfk, Or.inr (Or.inl ⟨sub_not_explicit hc hft, g, hgid, rfl⟩)⟩

theorem mem_firstlevel (p : Str) :
    p ∈ firstlevel cfg db ↔ ∃ f ∈ fs, f.ftype = cfg.subfeature ∧ tidOf cfg f = some p := by
  unfold firstlevel
  rw [(dedup_exact _).2]
  simp only [List.mem_map, List.mem_filter, Bool.and_eq_true, decide_eq_true_eq]
  constructor
  · rintro ⟨r, ⟨hr, hl, hrow⟩, rfl⟩
    split at hrow
    · rename_i row hgr
      simp only [decide_eq_true_eq] at hrow
      obtain ⟨f', hf', rfl⟩ := getRow_some inv hgr
      have hne : explicit f' = false := sub_not_explicit hc hrow
      obtain ⟨fk, hfk, hlr⟩ := (inv.rels r).mp hr
      rcases hlr with ⟨_, t, ht, rfl⟩ | ⟨_, g, _, rfl⟩ | ⟨t, g, ht, _, rfl⟩
      · -- the child key determines the line
        have hkey : fk = (f', fk.2) := by
          exact eq_of_nodup_map h.keysNodup hfk hf' rfl
        exact ⟨f', mem_of_mem_keyed hf', hrow, by rw [hkey] at ht; exact ht⟩
      · cases hl
      · exfalso
        have hex := explicit_of_id_key h hf' (Or.inl (mem_tids (mem_of_mem_keyed hfk) ht))
        rw [hne] at hex; cases hex
    · cases hrow
  · rintro ⟨f, hf, hft, htid⟩
    obtain ⟨k, hk⟩ := exists_key_of_mem (cfg := cfg) hf
    refine ⟨⟨p, k, 1⟩, ⟨?_, rfl, ?_⟩, rfl⟩
    · rw [inv.rels]
      exact ⟨(f, k), hk, Or.inl ⟨sub_not_explicit hc hft, p, htid, rfl⟩⟩
    · simp only
      rw [getRow_keyed h inv hk]
      simp [lineRow, hft]

theorem mem_pairsOf (t g : Str) :
    (t, g) ∈ pairsOf cfg db ↔
      (∃ f ∈ fs, f.ftype = cfg.subfeature ∧ tidOf cfg f = some t) ∧
      (∃ f ∈ fs, tidOf cfg f = some t ∧ gidOf cfg f = some g) := by
  unfold pairsOf
  simp only [List.mem_flatMap, List.mem_map, Prod.mk.injEq]
  constructor
  · rintro ⟨t', ht', g', hg', rfl, rfl⟩
    have hfl := (mem_firstlevel hc h inv t').mp ht'
    refine ⟨hfl, ?_⟩
    obtain ⟨f0, hf0, _, htid0⟩ := hfl
    rw [(dedup_exact _).2] at hg'
    simp only [List.mem_map, List.mem_filter, decide_eq_true_eq] at hg'
    obtain ⟨r, ⟨hr, hch, hl⟩, rfl⟩ := hg'
    obtain ⟨fk, hfk, hlr⟩ := (inv.rels r).mp hr
    rcases hlr with ⟨hex, t, ht, rfl⟩ | ⟨_, g, _, rfl⟩ | ⟨t, g, ht, hg, rfl⟩
    · exfalso
      simp only at hch
      have := (h.idsNotAuto fk hfk hex).1
      rw [hch] at this
      exact this (mem_tids hf0 htid0)
    · cases hl
    · simp only at hch; subst hch
      exact ⟨fk.1, mem_of_mem_keyed hfk, ht, hg⟩
  · rintro ⟨hfl, f, hf, htid, hgid⟩
    refine ⟨t, (mem_firstlevel hc h inv t).mpr hfl, g, ?_, rfl, rfl⟩
    rw [(dedup_exact _).2]
    simp only [List.mem_map, List.mem_filter, decide_eq_true_eq]
    obtain ⟨k, hk⟩ := exists_key_of_mem (cfg := cfg) hf
    refine ⟨⟨g, t, 1⟩, ⟨?_, rfl, rfl⟩, rfl⟩
    rw [inv.rels]
    exact ⟨(f, k), hk, Or.inr (Or.inr ⟨t, g, htid, hgid, rfl⟩)⟩

end domain


/-! ### extents of the populated table -/

theorem extent_domain {cfg : Cfg} {fs : List Feature} {db : Db} (sub p : Str) (sel : Feature → Bool)
    (hmem : ∀ row, row ∈ extRows db sub p ↔ ∃ fk ∈ keyed cfg fs, sel fk.1 = true ∧ row = lineRow fk.1 fk.2)
    (hcoord : ∀ f ∈ fs, sel f = true → (∃ s, f.start = some s) ∧ ∃ e, f.stop = some e)
    (hagree : ∀ f ∈ fs, ∀ f' ∈ fs, sel f = true → sel f' = true → f.seqid = f'.seqid ∧ f.strand = f'.strand)
    (hne : ∃ f ∈ fs, sel f = true) :
    ∃ s e st sq, extent db sub p = some (some s, some e, st, sq) ∧
      IsMin ((fs.filter sel).filterMap (·.start)) s ∧ IsMax ((fs.filter sel).filterMap (·.stop)) e ∧
      ∀ f ∈ fs.filter sel, sq = f.seqid ∧ st = f.strand := by
  obtain ⟨f0, hf0, hs0⟩ := hne
  obtain ⟨k0, hk0⟩ := exists_key_of_mem (cfg := cfg) hf0
  have hne' : extRows db sub p ≠ [] := by
    intro e
    have : lineRow f0 k0 ∈ extRows db sub p := (hmem _).mpr ⟨(f0, k0), hk0, hs0, rfl⟩
    rw [e] at this; cases this
  have hc : ∀ r ∈ extRows db sub p, (∃ s, r.start = some s) ∧ ∃ e, r.stop = some e := by
    intro r hr
    obtain ⟨fk, hfk, hsel, rfl⟩ := (hmem r).mp hr
    exact hcoord fk.1 (mem_of_mem_keyed hfk) hsel
  obtain ⟨s, e, r0, hr0, hext, hmin, hmax⟩ := extent_spec db sub p hne' hc
  obtain ⟨fk1, hfk1, hsel1, rfl⟩ := (hmem r0).mp hr0
  refine ⟨s, e, _, _, hext, isMin_congr ?_ hmin, isMax_congr ?_ hmax, ?_⟩
  · intro x
    simp only [List.mem_filterMap, List.mem_filter]
    constructor
    · rintro ⟨row, hrow, hx⟩
      obtain ⟨fk, hfk, hsel, rfl⟩ := (hmem row).mp hrow
      exact ⟨fk.1, ⟨mem_of_mem_keyed hfk, hsel⟩, hx⟩
    · rintro ⟨f, ⟨hf, hsel⟩, hx⟩
      obtain ⟨k, hk⟩ := exists_key_of_mem (cfg := cfg) hf
      exact ⟨lineRow f k, (hmem _).mpr ⟨(f, k), hk, hsel, rfl⟩, hx⟩
  · intro x
    simp only [List.mem_filterMap, List.mem_filter]
    constructor
    · rintro ⟨row, hrow, hx⟩
      obtain ⟨fk, hfk, hsel, rfl⟩ := (hmem row).mp hrow
      exact ⟨fk.1, ⟨mem_of_mem_keyed hfk, hsel⟩, hx⟩
    · rintro ⟨f, ⟨hf, hsel⟩, hx⟩
      obtain ⟨k, hk⟩ := exists_key_of_mem (cfg := cfg) hf
      exact ⟨lineRow f k, (hmem _).mpr ⟨(f, k), hk, hsel, rfl⟩, hx⟩
  · intro f hf
    obtain ⟨hf, hsel⟩ := List.mem_filter.mp hf
    exact hagree fk1.1 (mem_of_mem_keyed hfk1) f hf hsel1 hsel

section domain2
variable {cfg : Cfg} {fs : List Feature} (hc : CfgOk cfg) (h : GtfOk cfg fs) (he : ExtOk cfg fs)
  {db : Db} {auto : Dict Nat} (inv : PopInv cfg fs db auto)
include hc h he inv

theorem extent_T {t : Str} (hsub : ∃ f ∈ fs, f.ftype = cfg.subfeature ∧ tidOf cfg f = some t) :
    ∃ s e st sq, extent db cfg.subfeature t = some (some s, some e, st, sq) ∧
      IsMin ((subOfT cfg fs t).filterMap (·.start)) s ∧ IsMax ((subOfT cfg fs t).filterMap (·.stop)) e ∧
      ∀ f ∈ subOfT cfg fs t, sq = f.seqid ∧ st = f.strand := by
  obtain ⟨f0, hf0, hft0, htid0⟩ := hsub
  have ht : t ∈ tids cfg fs := mem_tids hf0 htid0
  apply extent_domain (cfg := cfg) cfg.subfeature t
    (fun f => decide (f.ftype = cfg.subfeature) && decide (tidOf cfg f = some t))
  · intro row
    rw [mem_extRows_T hc h inv ht]
    simp only [Bool.and_eq_true, decide_eq_true_eq, and_assoc]
  · intro f hf hsel
    simp only [Bool.and_eq_true, decide_eq_true_eq] at hsel
    exact he.coords f hf hsel.1
  · intro f hf f' hf' hsel hsel'
    simp only [Bool.and_eq_true, decide_eq_true_eq] at hsel hsel'
    exact he.tAgree f hf f' hf' hsel.1 hsel'.1 t hsel.2 hsel'.2
  · exact ⟨f0, hf0, by simp [hft0, htid0]⟩

theorem extent_G {g : Str} (hsub : ∃ f ∈ fs, f.ftype = cfg.subfeature ∧ gidOf cfg f = some g) :
    ∃ s e st sq, extent db cfg.subfeature g = some (some s, some e, st, sq) ∧
      IsMin ((subOfG cfg fs g).filterMap (·.start)) s ∧ IsMax ((subOfG cfg fs g).filterMap (·.stop)) e ∧
      ∀ f ∈ subOfG cfg fs g, sq = f.seqid ∧ st = f.strand := by
  obtain ⟨f0, hf0, hft0, hgid0⟩ := hsub
  have hg : g ∈ gids cfg fs := mem_gids hf0 hgid0
  apply extent_domain (cfg := cfg) cfg.subfeature g
    (fun f => decide (f.ftype = cfg.subfeature) && decide (gidOf cfg f = some g))
  · intro row
    rw [mem_extRows_G hc h inv hg]
    simp only [Bool.and_eq_true, decide_eq_true_eq, and_assoc]
  · intro f hf hsel
    simp only [Bool.and_eq_true, decide_eq_true_eq] at hsel
    exact he.coords f hf hsel.1
  · intro f hf f' hf' hsel hsel'
    simp only [Bool.and_eq_true, decide_eq_true_eq] at hsel hsel'
    exact he.gAgree f hf f' hf' hsel.1 hsel'.1 g hsel.2 hsel'.2
  · exact ⟨f0, hf0, by simp [hft0, hgid0]⟩

/-- the (transcript, gene) pairs are exactly the transcripts owning an exon, with their gene -/
theorem mem_pairsOf_owns (t g : Str) : (t, g) ∈ pairsOf cfg db ↔ TOwns cfg fs t g := by
  rw [mem_pairsOf hc h inv]
  constructor
  · rintro ⟨⟨f, hf, hft, htid⟩, f', hf', htid', hgid'⟩
    obtain ⟨g1, hg1⟩ := he.subGene f hf hft t htid
    have := he.oneGene f hf f' hf' t g1 g htid htid' hg1 hgid'
    subst this
    exact ⟨f, hf, hft, htid, hg1⟩
  · rintro ⟨f, hf, hft, htid, hgid⟩
    exact ⟨⟨f, hf, hft, htid⟩, f, hf, htid, hgid⟩

end domain2


/-! ### first pass: the derived features -/

def extOr (db : Db) (sub p : Str) : Option Int × Option Int × Str × Str :=
  (extent db sub p).getD (none, none, [], [])

def derivedOf (ft : Str) (ext : Option Int × Option Int × Str × Str) (attrs : Attrs) : Feature :=
  { seqid := ext.2.2.2, source := derivedSrc, ftype := ft, start := ext.1, stop := ext.2.1,
    score := ['.'], strand := ext.2.2.1, frame := ['.'], attrs := attrs, extra := [],
    bin := Feature.calcBin ext.1 ext.2.1 }

def mkT (cfg : Cfg) (db : Db) (t g : Str) : Feature :=
  derivedOf transcriptT (extOr db cfg.subfeature t) [(cfg.transcriptKey, [t]), (cfg.geneKey, [g])]
def mkG (cfg : Cfg) (db : Db) (g : Str) : Feature :=
  derivedOf geneT (extOr db cfg.subfeature g) [(cfg.geneKey, [g])]

def GoodExt (db : Db) (sub p : Str) : Prop := ∃ s e st sq, extent db sub p = some (some s, some e, st, sq)

/-- the derived features with the id each will be filed under, in the order of the (sorted) pairs: per
pair the transcript, then the gene when it differs from the previous pair's gene -/
def specD (dT dG : Bool) (mT : Str → Str → Feature) (mG : Str → Feature) :
    Option Str → List (Str × Str) → List (Str × Feature)
  | _, [] => []
  | last, (t, g) :: rest =>
    (if dT then [] else [(t, mT t g)]) ++ (if dG then [] else if some g ≠ last then [(g, mG g)] else []) ++
      specD dT dG mT mG (if dG then last else some g) rest

theorem derivedFeature_T (cfg : Cfg) (db : Db) (t g : Str) (hg : GoodExt db cfg.subfeature t) :
    ∃ ext, extent db cfg.subfeature t = some ext ∧
      derivedFeature "transcript".toList ext [(cfg.transcriptKey, [t]), (cfg.geneKey, [g])] = .ok (mkT cfg db t g) := by
  obtain ⟨s, e, st, sq, hx⟩ := hg
  refine ⟨_, hx, ?_⟩
  unfold mkT extOr
  rw [hx]
  rfl

theorem derivedFeature_G (cfg : Cfg) (db : Db) (g : Str) (hg : GoodExt db cfg.subfeature g) :
    ∃ ext, extent db cfg.subfeature g = some ext ∧
      derivedFeature "gene".toList ext [(cfg.geneKey, [g])] = .ok (mkG cfg db g) := by
  obtain ⟨s, e, st, sq, hx⟩ := hg
  refine ⟨_, hx, ?_⟩
  unfold mkG extOr
  rw [hx]
  rfl

theorem step1_eq (cfg : Cfg) (db : Db) (out : List Feature) (last : Option Str) (t g : Str)
    (hT : cfg.disableTranscripts = false → GoodExt db cfg.subfeature t)
    (hG : cfg.disableGenes = false → GoodExt db cfg.subfeature g) :
    step1 cfg db (out, last) (t, g) =
      .ok (out ++ (specD cfg.disableTranscripts cfg.disableGenes (mkT cfg db) (mkG cfg db) last [(t, g)]).map (·.2),
           if cfg.disableGenes then last else some g) := by
  unfold step1
  simp only [specD, bind, Except.bind, pure, Except.pure]
  cases hdT : cfg.disableTranscripts <;> cases hdG : cfg.disableGenes
  · obtain ⟨ext, hx, hd⟩ := derivedFeature_T cfg db t g (hT hdT)
    obtain ⟨ext', hx', hd'⟩ := derivedFeature_G cfg db g (hG hdG)
    simp only [hx, hd, hx', hd', Bool.not_false, if_true]
    by_cases hl : some g = last
    · simp only [hl, ne_eq, not_true_eq_false, if_false, Bool.false_eq_true, List.append_nil, List.map_cons,
        List.map_nil]
    · simp only [hl, ne_eq, not_false_eq_true, if_true, if_false, Bool.false_eq_true, List.append_nil,
        List.map_cons, List.map_nil, List.map_append, List.append_assoc]
  · obtain ⟨ext, hx, hd⟩ := derivedFeature_T cfg db t g (hT hdT)
    simp only [hx, hd, Bool.not_false, Bool.not_true, if_true, if_false, Bool.false_eq_true, List.append_nil,
        List.map_cons, List.map_nil]
  · obtain ⟨ext', hx', hd'⟩ := derivedFeature_G cfg db g (hG hdG)
    simp only [hx', hd', Bool.not_false, Bool.not_true, if_true]
    by_cases hl : some g = last
    · simp only [hl, ne_eq, not_true_eq_false, if_false, Bool.false_eq_true, List.append_nil, List.map_nil]
    · simp only [hl, ne_eq, not_false_eq_true, if_true, if_false, Bool.false_eq_true, List.append_nil,
        List.map_cons, List.map_nil, List.nil_append]
  · simp only [Bool.not_true, Bool.false_eq_true, if_false, if_true, List.append_nil, List.map_nil]

theorem foldlM_step1 (cfg : Cfg) (db : Db) (ps : List (Str × Str))
    (hT : cfg.disableTranscripts = false → ∀ tg ∈ ps, GoodExt db cfg.subfeature tg.1)
    (hG : cfg.disableGenes = false → ∀ tg ∈ ps, GoodExt db cfg.subfeature tg.2) :
    ∀ (out : List Feature) (last : Option Str), ∃ last',
      ps.foldlM (step1 cfg db) (out, last) =
        .ok (out ++ (specD cfg.disableTranscripts cfg.disableGenes (mkT cfg db) (mkG cfg db) last ps).map (·.2),
             last') := by
  induction ps with
  | nil => intro out last; exact ⟨last, by simp [specD, pure, Except.pure]⟩
  | cons tg ps ih =>
    intro out last
    obtain ⟨t, g⟩ := tg
    have h1 := step1_eq cfg db out last t g (fun hd => hT hd (t, g) (by simp)) (fun hd => hG hd (t, g) (by simp))
    obtain ⟨last', h2⟩ := ih (fun hd tg htg => hT hd tg (by simp [htg])) (fun hd tg htg => hG hd tg (by simp [htg]))
      (out ++ (specD cfg.disableTranscripts cfg.disableGenes (mkT cfg db) (mkG cfg db) last [(t, g)]).map (·.2))
      (if cfg.disableGenes then last else some g)
    refine ⟨last', ?_⟩
    simp only [List.foldlM_cons, h1, bind, Except.bind, h2]
    simp [specD]


/-! ### the derived list: members and ids -/

section specD
variable (dT dG : Bool) (mT : Str → Str → Feature) (mG : Str → Feature)

theorem mem_specD_imp (ps : List (Str × Str)) : ∀ (last : Option Str) (kf : Str × Feature),
    kf ∈ specD dT dG mT mG last ps →
      (dT = false ∧ ∃ t g, (t, g) ∈ ps ∧ kf = (t, mT t g)) ∨ (dG = false ∧ ∃ t g, (t, g) ∈ ps ∧ kf = (g, mG g)) := by
  induction ps with
  | nil => intro last kf hkf; cases hkf
  | cons tg ps ih =>
    intro last kf hkf
    obtain ⟨t, g⟩ := tg
    simp only [specD, List.mem_append] at hkf
    rcases hkf with (hkf | hkf) | hkf
    · cases dT with
      | true => cases hkf
      | false =>
        simp only [Bool.false_eq_true, if_false, List.mem_singleton] at hkf
        exact Or.inl ⟨rfl, t, g, by simp, hkf⟩
    · cases dG with
      | true => cases hkf
      | false =>
        simp only [Bool.false_eq_true, if_false] at hkf
        split at hkf
        · simp only [List.mem_singleton] at hkf
          exact Or.inr ⟨rfl, t, g, by simp, hkf⟩
        · cases hkf
    · rcases ih _ kf hkf with ⟨h1, t', g', hm, he⟩ | ⟨h1, t', g', hm, he⟩
      · exact Or.inl ⟨h1, t', g', by simp [hm], he⟩
      · exact Or.inr ⟨h1, t', g', by simp [hm], he⟩

theorem mem_specD_T (hdT : dT = false) (ps : List (Str × Str)) : ∀ (last : Option Str) (t g : Str),
    (t, g) ∈ ps → (t, mT t g) ∈ specD dT dG mT mG last ps := by
  induction ps with
  | nil => intro last t g hm; cases hm
  | cons tg ps ih =>
    intro last t g hm
    obtain ⟨t0, g0⟩ := tg
    simp only [specD, List.mem_append]
    rcases List.mem_cons.mp hm with he | hm
    · cases he
      exact Or.inl (Or.inl (by simp [hdT]))
    · exact Or.inr (ih _ t g hm)

theorem mem_specD_G (hdG : dG = false) (ps : List (Str × Str)) : ∀ (last : Option Str) (t g : Str),
    (t, g) ∈ ps → some g ≠ last → (g, mG g) ∈ specD dT dG mT mG last ps := by
  induction ps with
  | nil => intro last t g hm; cases hm
  | cons tg ps ih =>
    intro last t g hm hl
    obtain ⟨t0, g0⟩ := tg
    simp only [specD, List.mem_append]
    rcases List.mem_cons.mp hm with he | hm
    · cases he
      exact Or.inl (Or.inr (by simp [hdG, hl]))
    · by_cases hg : g = g0
      · subst hg
        exact Or.inl (Or.inr (by simp [hdG, hl]))
      · refine Or.inr (ih _ t g hm ?_)
        simp only [hdG, Bool.false_eq_true, if_false]
        intro e; cases e; exact hg rfl

/-- the ids of the derived list -/
def idsD : Option Str → List (Str × Str) → List Str
  | _, [] => []
  | last, (t, g) :: rest =>
    (if dT then [] else [t]) ++ (if dG then [] else if some g ≠ last then [g] else []) ++
      idsD (if dG then last else some g) rest

theorem specD_map_fst (ps : List (Str × Str)) : ∀ last,
    (specD dT dG mT mG last ps).map (·.1) = idsD dT dG last ps := by
  induction ps with
  | nil => intro last; rfl
  | cons tg ps ih =>
    intro last
    obtain ⟨t, g⟩ := tg
    simp only [specD, idsD, List.map_append, ih]
    cases dT <;> cases dG <;> simp <;> split <;> simp

theorem idsD_nodup (ps : List (Str × Str)) : ∀ (last : Option Str),
    (ps.map (·.1)).Nodup → ps.Pairwise (fun a b => strLe a.2 b.2 = true) →
    (∀ a ∈ ps, ∀ b ∈ ps, a.1 ≠ b.2) →
    (∀ g0, last = some g0 → ∀ a ∈ ps, strLe g0 a.2 = true) →
    (idsD dT dG last ps).Nodup ∧
      ∀ k ∈ idsD dT dG last ps, k ∈ ps.map (·.1) ∨ (k ∈ ps.map (·.2) ∧ some k ≠ last) := by
  induction ps with
  | nil => intro last _ _ _ _; simp [idsD]
  | cons tg ps ih =>
    intro last hnd hsort hdisj hlast
    obtain ⟨t, g⟩ := tg
    simp only [List.map_cons, List.nodup_cons] at hnd
    rw [List.pairwise_cons] at hsort
    have hlast' : ∀ g0, (if dG = true then last else some g) = some g0 → ∀ a ∈ ps, strLe g0 a.2 = true := by
      intro g0 hg0 a ha
      cases dG with
      | true => simp only [if_true] at hg0; exact hlast g0 hg0 a (by simp [ha])
      | false =>
        simp only [Bool.false_eq_true, if_false, Option.some.injEq] at hg0
        subst hg0; exact hsort.1 a ha
    obtain ⟨ihn, ihm⟩ := ih (if dG = true then last else some g) hnd.2 hsort.2
      (fun a ha b hb => hdisj a (by simp [ha]) b (by simp [hb])) hlast'
    have ht_notin : t ∉ idsD dT dG (if dG = true then last else some g) ps := by
      intro hin
      rcases ihm t hin with h1 | ⟨h1, _⟩
      · exact hnd.1 h1
      · obtain ⟨b, hb, hbe⟩ := List.mem_map.mp h1
        exact hdisj (t, g) (by simp) b (by simp [hb]) hbe.symm
    have htg : t ≠ g := hdisj (t, g) (by simp) (t, g) (by simp)
    have hmem_rest : ∀ k ∈ idsD dT dG (if dG = true then last else some g) ps,
        k ∈ (t :: ps.map (·.1)) ∨ (k ∈ (g :: ps.map (·.2)) ∧ some k ≠ last) := by
      intro k hk
      rcases ihm k hk with h1 | ⟨h1, h2⟩
      · exact Or.inl (by simp [h1])
      · refine Or.inr ⟨by simp [h1], ?_⟩
        cases hdG : dG with
        | true => simpa [hdG] using h2
        | false =>
          simp only [hdG, Bool.false_eq_true, if_false] at h2
          intro e
          -- k = g0 = last; g0 ≤ g ≤ k = g0 so g = k
          obtain ⟨b, hb, hbe⟩ := List.mem_map.mp h1
          have h3 : strLe g k = true := by rw [← hbe]; exact hsort.1 b hb
          have h4 : strLe k g = true := hlast k e.symm (t, g) (by simp)
          exact h2 (by rw [strLe_antisymm _ _ h3 h4])
    constructor
    · simp only [idsD]
      cases hdT : dT <;> cases hdG : dG
      · simp only [Bool.false_eq_true, if_false]
        simp only [hdG, Bool.false_eq_true, if_false] at ihn ihm ht_notin
        split
        · rename_i hgl
          have hg_notin : g ∉ idsD false false (some g) ps := by
            intro hin
            have := ihm g (by rw [hdT] at *; exact hin)
            rcases this with h1 | ⟨_, h2⟩
            · obtain ⟨a, ha, hae⟩ := List.mem_map.mp h1
              exact hdisj a (by simp [ha]) (t, g) (by simp) hae
            · exact h2 rfl
          rw [hdT] at ihn ht_notin
          simp only [List.cons_append, List.nil_append, List.nodup_cons, List.mem_cons, not_or]
          exact ⟨⟨htg, ht_notin⟩, hg_notin, ihn⟩
        · rw [hdT] at ihn ht_notin
          simp only [List.singleton_append, List.append_nil, List.nodup_cons]
          exact ⟨ht_notin, ihn⟩
      · simp only [Bool.false_eq_true, if_false, if_true, List.append_nil, List.singleton_append, List.nodup_cons]
        rw [hdT, hdG] at ihn ht_notin
        exact ⟨ht_notin, ihn⟩
      · simp only [if_true, Bool.false_eq_true, if_false, List.nil_append]
        simp only [hdG, Bool.false_eq_true, if_false] at ihn ihm
        split
        · have hg_notin : g ∉ idsD true false (some g) ps := by
            intro hin
            have := ihm g (by rw [hdT] at *; exact hin)
            rcases this with h1 | ⟨_, h2⟩
            · obtain ⟨a, ha, hae⟩ := List.mem_map.mp h1
              exact hdisj a (by simp [ha]) (t, g) (by simp) hae
            · exact h2 rfl
          rw [hdT] at ihn
          simp only [List.singleton_append, List.nodup_cons]
          exact ⟨hg_notin, ihn⟩
        · rw [hdT] at ihn
          simpa using ihn
      · simp only [if_true, List.nil_append]
        rw [hdT, hdG] at ihn
        exact ihn
    · intro k hk
      simp only [idsD, List.mem_append] at hk
      simp only [List.map_cons]
      rcases hk with (hk | hk) | hk
      · cases dT with
        | true => cases hk
        | false =>
          simp only [Bool.false_eq_true, if_false, List.mem_singleton] at hk
          exact Or.inl (by simp [hk])
      · cases dG with
        | true => cases hk
        | false =>
          simp only [Bool.false_eq_true, if_false] at hk
          split at hk
          · rename_i hgl
            simp only [List.mem_singleton] at hk
            subst hk
            exact Or.inr ⟨by simp, hgl⟩
          · cases hk
      · exact hmem_rest k hk

end specD

end GffProofs.C03
