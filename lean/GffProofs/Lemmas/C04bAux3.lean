/-
  Lemmas for C04b (end): the supplied dialect's `repeated keys` flag is never read by the parser; the
  inferring path starts with the flag off; the `_id_handler` loop falls through a prefix that yields nothing.
-/
import GffProofs.Lemmas.C04bAux2
import GffProofs.Lemmas.C07Front
import GffModel.Create
namespace GffProofs.C04b
open GffModel GffModel.Parser GffModel.Str

theorem provItems_flag (a : Str) (d : Dialect) (b : Bool) :
    provItems a { d with repeatedKeys := b } = provItems a d := rfl

theorem foldStep_flag (d : Dialect) (b : Bool) :
    C08.foldStep { d with repeatedKeys := b } = C08.foldStep d := rfl

/-- **the supplied dialect's `repeated keys` flag is not read by the parser**: flipping it changes the
returned dialect and nothing else -/
theorem splitKeyvals_flag (a : Str) (d : Dialect) (b ie : Bool) :
    splitKeyvals a (some { d with repeatedKeys := b }) ie =
      (splitKeyvals a (some d) ie).map (fun r => (r.1, { d with repeatedKeys := b })) := by
  unfold splitKeyvals
  simp only []
  split
  · rfl
  · rw [splitProvided_eq, splitProvided_eq, provItems_flag, foldStep_flag]
    cases provItems a d with
    | error e => rfl
    | ok items =>
      simp only [bind, Except.bind]
      cases List.foldlM (C08.foldStep d) [] items with
      | error e => rfl
      | ok q => rfl

theorem mk'_dialect (cols : List Str) (attrs : Attrs) (extra : List Str) (d d2 : Dialect) (ko : Bool) :
    Feature.mk' cols attrs extra d2 ko = (Feature.mk' cols attrs extra d ko).map (fun f => { f with dialect := d2 }) := by
  unfold Feature.mk'
  simp only [bind, Except.bind, pure, Except.pure]
  cases Feature.parseCoord ((cols[3]?).getD ['.']) with
  | error e => rfl
  | ok x =>
    cases Feature.parseCoord ((cols[4]?).getD ['.']) with
    | error e => rfl
    | ok y => rfl

theorem featureFromLine_flag (line : Str) (d : Dialect) (b ko ie : Bool) :
    featureFromLine line (some { d with repeatedKeys := b }) true ko ie =
      (featureFromLine line (some d) true ko ie).map (fun f => { f with dialect := { d with repeatedKeys := b } }) := by
  unfold featureFromLine
  simp only [if_true, bind, Except.bind, pure, Except.pure, Option.getD_some]
  rw [splitKeyvals_flag]
  cases splitKeyvals _ (some d) ie with
  | error e => rfl
  | ok r => exact mk'_dialect _ _ _ _ _ _
/-! ### the inferring path starts its loop with the `repeated keys` flag off -/

theorem frontStage_repeated (a : Str) : (C07.frontStage a).2.repeatedKeys = false := by
  have hs : ∀ t d, (C07.sepStage t d).2.repeatedKeys = d.repeatedKeys := by
    intro t d
    unfold C07.sepStage
    dsimp only
    repeat' split
    all_goals rfl
  rw [C07.frontStage_eq]
  split <;> rw [hs] <;> rfl

theorem inferItems_repeated (parts : List Str) (d d1 : Dialect) (items : List (List Str))
    (h : inferItems parts d = .ok (items, d1)) : d1.repeatedKeys = d.repeatedKeys := by
  unfold inferItems at h
  cases parts with
  | nil => cases h
  | cons p tl =>
    simp only [pure_bind] at h
    split at h
    · cases h; rfl
    · simp only [bind, Except.bind, pure, Except.pure] at h
      split at h
      · cases h
      · cases h
        unfold C07.spaceD
        simp only []
        split <;> rfl

/-! ### small facts used by the rejection theorems -/

theorem two_of_length {α : Type} {l : List α} (h : 2 ≤ l.length) : ∃ x y zs, l = x :: y :: zs := by
  cases l with
  | nil => simp at h
  | cons x t =>
    cases t with
    | nil => simp at h
    | cons y zs => exact ⟨x, y, zs, rfl⟩

open GffModel.Create in
theorem tryKeys_fallthrough (auto : Dict Nat) (f : Feature) (pre rest : List KeySpec)
    (h : tryKeys auto f pre = .ok none) : tryKeys auto f (pre ++ rest) = tryKeys auto f rest := by
  induction pre with
  | nil => rfl
  | cons x xs ih =>
    cases x with
    | call g =>
      simp only [List.cons_append, tryKeys] at h ⊢
      cases hg : g f with
      | none => rw [hg] at h; exact ih h
      | some id =>
        rw [hg] at h
        simp only at h ⊢
        split at h
        · rename_i he; simp only [he, if_true]; exact ih h
        · split at h <;> cases h
    | attr k =>
      simp only [List.cons_append, tryKeys] at h ⊢
      split at h
      · cases hf : fieldOf f ((k.drop 1).dropLast) <;> rw [hf] at h <;> cases h
      · rename_i hfs
        simp only [hfs, if_false, Bool.false_eq_true]
        cases hg : f.attrs.get? k with
        | none => rw [hg] at h; exact ih h
        | some vs =>
          rw [hg] at h
          simp only at h ⊢
          split at h
          · cases h
          · rename_i hl
            simp only [hl, if_false]
            cases vs with
            | nil => exact ih h
            | cons v t => cases h

end GffProofs.C04b
