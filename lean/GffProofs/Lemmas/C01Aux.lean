/-
  Helper lemmas for C01, part A (attribute column): the PROVIDED-dialect path of `_split_keyvals` and
  `_reconstruct` with `keep_order=True` on a rendered line specification, for a dialect that has the
  specification's dimensions and an ARBITRARY `order`.

  Only the facts of `LineSpec.WF` that do not concern dialect inference are used (`PFacts`).
-/
import GffProofs.Lemmas.C07Infer
import GffProofs.Props.C08b
import GffProofs.Lemmas.DictLemmas
import GffProofs.Props.C01Spec

namespace GffProofs.C01
open GffModel GffModel.Parser GffModel.Grammar
open GffProofs.C07 (KeyOk TextOk EncOk PartOk blockItems blockKeys itemPairs itemTexts rawTexts allPairs)

/-- the conjuncts of `LineSpec.WF` about the attribute column that do not concern inference -/
structure PFacts (s : LineSpec) : Prop where
  sep : s.sep = [';'] ∨ s.sep = [';', ' '] ∨ s.sep = [' ', ';', ' ']
  key : ∀ it ∈ s.attrs, keyOk s it.key = true
  val : ∀ it ∈ s.attrs, ∀ v ∈ it.vals, valOk s v = true
  nodup : (s.attrs.map (·.key)).Nodup

/-- the `(key, encoded values)` items of the whole line, one per written part -/
def its (s : LineSpec) : List (Str × List Str) := s.attrs.flatMap (blockItems s)

/-- the text written after the key/value separator for one item (`[]`: no separator at all) -/
def txt (s : LineSpec) (vs : List Str) : Str :=
  if vs.isEmpty then (if s.fmt = gtf then ['"', '"'] else []) else wrapQ s (Str.join [','] vs)

def partOf (s : LineSpec) (kv : Str × List Str) : Str := C07.mkPart s kv.1 (txt s kv.2)

/-! ### the rendered parts -/

theorem itemPairs_eq (s : LineSpec) (it : AttrItem) :
    itemPairs s it = (blockItems s it).map (fun kv => (kv.1, txt s kv.2)) := by
  unfold itemPairs itemTexts rawTexts blockItems txt
  cases hv : it.vals with
  | nil => by_cases hg : s.fmt = gtf <;> simp [hg]
  | cons v vs =>
    simp only [List.isEmpty_cons, Bool.false_eq_true, if_false]
    split
    · simp [List.map_map, Function.comp_def, Str.join]
    · simp

theorem allPairs_eq (s : LineSpec) : allPairs s = (its s).map (fun kv => (kv.1, txt s kv.2)) := by
  unfold allPairs its
  rw [List.map_flatMap, List.flatMap_def, List.flatMap_def]; congr 1
  apply List.map_congr_left
  intro it _
  exact itemPairs_eq s it

section
variable (s : LineSpec) (P : PFacts s)
include P

theorem enc_facts : ∀ it ∈ s.attrs, ∀ v ∈ it.vals, EncOk s v :=
  fun it hit v hv => C07.encOk s v (P.val it hit v hv)

theorem key_facts : ∀ it ∈ s.attrs, KeyOk it.key :=
  fun it hit => C07.keyOk_facts s it.key (P.key it hit)

theorem parts_eq : s.attrs.flatMap (renderItem s) = (its s).map (partOf s) := by
  have h1 : s.attrs.flatMap (renderItem s) = (allPairs s).map (fun kv => C07.mkPart s kv.1 kv.2) := by
    unfold allPairs itemPairs
    rw [List.map_flatMap, List.flatMap_def, List.flatMap_def]; congr 1
    apply List.map_congr_left
    intro it hit
    rw [C07.renderItem_eq s it (fun v hv => (enc_facts s P it hit v hv).ne), List.map_map]
    rfl
  rw [h1, allPairs_eq, List.map_map]
  rfl

/-- what the parser needs of one item -/
theorem it_facts : ∀ kv ∈ its s, KeyOk kv.1 ∧ TextOk s (txt s kv.2) ∧ ∀ x ∈ kv.2, x ≠ [] ∧ ',' ∉ x := by
  intro kv hkv
  obtain ⟨it, hit, hkv'⟩ := List.mem_flatMap.mp hkv
  have hk : kv.1 = it.key := C07.blockItems_key s it kv hkv'
  refine ⟨hk ▸ key_facts s P it hit, ?_, ?_⟩
  · apply C07.textOk s it (enc_facts s P it hit)
    have : (kv.1, txt s kv.2) ∈ itemPairs s it := by
      rw [itemPairs_eq]; exact List.mem_map.mpr ⟨kv, hkv', rfl⟩
    unfold itemPairs at this
    obtain ⟨t, ht, he⟩ := List.mem_map.mp this
    have h2 : t = txt s kv.2 := (Prod.mk.inj he).2
    rw [← h2]; exact ht
  · intro x hx
    unfold blockItems at hkv'
    split at hkv'
    · obtain ⟨v, hv, rfl⟩ := List.mem_map.mp hkv'
      simp only [List.mem_cons, List.not_mem_nil, or_false] at hx
      subst hx
      exact ⟨(enc_facts s P it hit v hv).ne, (enc_facts s P it hit v hv).comma⟩
    · simp only [List.mem_cons, List.not_mem_nil, or_false] at hkv'
      subst hkv'
      obtain ⟨v, hv, rfl⟩ := List.mem_map.mp hx
      exact ⟨(enc_facts s P it hit v hv).ne, (enc_facts s P it hit v hv).comma⟩

theorem parts_ok : ∀ p ∈ (its s).map (partOf s), PartOk p := by
  intro p hp
  obtain ⟨kv, hkv, rfl⟩ := List.mem_map.mp hp
  have := it_facts s P kv hkv
  exact C07.partOk s kv.1 _ this.1 this.2.1

omit P in
theorem its_ne (he : s.attrs ≠ []) : its s ≠ [] := by
  obtain ⟨it, tl, ha⟩ : ∃ it tl, s.attrs = it :: tl := by
    cases h : s.attrs with
    | nil => exact absurd h he
    | cons a b => exact ⟨a, b, rfl⟩
  unfold its
  rw [ha, List.flatMap_cons]
  have : blockItems s it ≠ [] := by
    unfold blockItems
    split
    · rename_i h
      cases hv : it.vals with
      | nil => rw [hv] at h; simp at h
      | cons _ _ => simp
    · simp
  simp [this]

end

/-! ### the loop body of the provided path -/

theorem set_get_self {α : Type} (d : Dict α) (k : Str) (v : α) (h : Dict.get? d k = some v) :
    Dict.set d k v = d := by
  induction d with
  | nil => simp [Dict.get?] at h
  | cons p r ih =>
    obtain ⟨k', v'⟩ := p
    simp only [Dict.get?] at h
    simp only [Dict.set]
    split at h
    · rename_i hk; cases h; subst hk; simp
    · rename_i hk; rw [if_neg hk, ih h]

theorem addVals_nil (q : Attrs) (k : Str) :
    C08.addVals q (k, []) = (if q.contains k then q else Dict.set q k []) := by
  unfold C08.addVals
  simp only [List.append_nil]
  by_cases hc : Dict.contains q k = true
  · simp only [hc, if_true]
    unfold Dict.contains at hc
    cases hg : Dict.get? q k with
    | none => rw [hg] at hc; simp at hc
    | some v => simp only [Option.getD_some]; exact set_get_self q k v hg
  · simp only [hc, Bool.false_eq_true, if_false]
    rw [DictL.get?_set_self]
    simp only [Option.getD_some]
    exact set_get_self _ _ _ (DictL.get?_set_self q k [])

theorem foldStep_congr (d : Dialect) (q : Attrs) (item item' : List Str)
    (h : keyVal d.kvSep item = keyVal d.kvSep item') : C08.foldStep d q item = C08.foldStep d q item' := by
  unfold C08.foldStep
  rw [h]

theorem foldStep_flag (d : Dialect) (q : Attrs) (k : Str) :
    C08.foldStep d q [k, []] = .ok (C08.addVals q (k, [])) := by
  rw [addVals_nil]
  unfold C08.foldStep
  simp [keyVal, bind, Except.bind, pure, Except.pure, isQuotedVal]

theorem foldStep_flag_gtf (d : Dialect) (hq : d.quoted = true) (q : Attrs) (k : Str) :
    C08.foldStep d q [k, ['"', '"']] = .ok (C08.addVals q (k, [])) := by
  rw [addVals_nil]
  unfold C08.foldStep
  simp [keyVal, bind, Except.bind, pure, Except.pure, isQuotedVal, stripQuotes, hq]

theorem gtf_quoted (s : LineSpec) (h : s.fmt = gtf) : s.quoted = true := by
  rcases C07.fmt_cases s with h' | ⟨_, _, h'⟩
  · rw [h] at h'; exact absurd h' C07.gtf_ne_gff3
  · exact h'

/-- one step of the provided loop on an item whose `keyVal` is `(key, written text)` -/
theorem foldStep_txt (s : LineSpec) (ord : List Str) (q : Attrs) (item : List Str) (kv : Str × List Str)
    (hkv : keyVal (dOf s ord).kvSep item = .ok (kv.1, txt s kv.2))
    (hx : ∀ x ∈ kv.2, x ≠ [] ∧ ',' ∉ x) :
    C08.foldStep (dOf s ord) q item = .ok (C08.addVals q kv) := by
  obtain ⟨k, vs⟩ := kv
  rw [foldStep_congr (dOf s ord) q item [k, txt s vs] (by rw [hkv]; rfl)]
  cases vs with
  | nil =>
    unfold txt
    by_cases hg : s.fmt = gtf
    · simp only [List.isEmpty_nil, if_true, hg]
      exact foldStep_flag_gtf _ (gtf_quoted s hg) q k
    · simp only [List.isEmpty_nil, if_true, hg, if_false]
      exact foldStep_flag _ q k
  | cons v vs =>
    have : txt s (v :: vs) = C08.valText (dOf s ord) (v :: vs) := by
      unfold txt C08.valText C08.wrap wrapQ dOf; simp
    rw [this]
    exact C08.foldStep_item (dOf s ord) q k (v :: vs) (by simp) hx

theorem keyVal_cons (sep k : Str) (l : List Str) : keyVal sep (k :: l) = .ok (k, Str.join sep l) := by
  match l with
  | [] => rfl
  | [v] => rfl
  | v :: w :: r => rfl

/-- splitting one rendered part at the key/value separator (formats other than GTF: no `strip`) -/
theorem keyVal_part (s : LineSpec) (k t : Str) (K : KeyOk k) (T : TextOk s t) :
    keyVal s.kvSep (Str.split s.kvSep (C07.mkPart s k t)) = .ok (k, t) := by
  rcases C07.kvSep_cases s with ⟨hst, hsep⟩ | ⟨hst, hsep⟩
  · rw [hsep, C07.part_eq_split s k t K T hst]
    exact C07.keyVal_gItem (k, t) _
  · rw [hsep]
    unfold C07.mkPart
    split
    · rename_i ht; subst ht
      rw [C07.split1_none ' ' k K.sp]; rfl
    · rw [hsep, List.append_assoc]
      simp only [List.cons_append, List.nil_append]
      rw [C07.split1_cons ' ' k t K.sp, keyVal_cons, C07.join_split1]

/-- the GTF pipeline on one rendered part: `strip`, split at the blank, `(p[0], " ".join(p[1:]))` -/
theorem headRest_part (s : LineSpec) (k t : Str) (K : KeyOk k) (T : TextOk s t) (hs : s.style = .space) :
    headRest (Str.split [' '] (Str.strip (C07.mkPart s k t))) = .ok [k, t] := by
  have := C07.part_space_split s k t K T hs
  split at this
  · rename_i r h
    have P := C07.partOk s k t K T
    exact absurd (by rw [h]; simp) P.2.1
  · exact this

/-! ### the whole provided path -/

theorem isFieldSep (s : LineSpec) (P : PFacts s) (ord : List Str) : C08.IsFieldSep (dOf s ord).fieldSep := P.sep

theorem renderAttrs_eq (s : LineSpec) (P : PFacts s) (he : s.attrs ≠ []) (ord : List Str) :
    renderAttrs s =
      if (dOf s ord).trailingSemicolon then Str.join (dOf s ord).fieldSep ((its s).map (partOf s)) ++ [';']
      else Str.join (dOf s ord).fieldSep ((its s).map (partOf s)) := by
  have he' : s.attrs.isEmpty = false := by simpa using he
  unfold renderAttrs
  simp only [he', Bool.false_eq_true, if_false]
  rw [parts_eq s P]
  rfl

theorem unquote_items (s : LineSpec) (ord : List Str) :
    unquoteQuals (s.attrs.map (fun it => (it.key, it.vals.map s.encVal))) (dOf s ord) false = s.mapping := by
  unfold unquoteQuals LineSpec.mapping
  rcases C07.fmt_cases s with hf | ⟨hf, _, _⟩
  · have henc : s.encVal = Quote.quoteStr := by funext v; unfold LineSpec.encVal; simp [hf]
    simp [dOf, hf, henc, List.map_map, Function.comp_def, C08.unquote_quote]
  · have henc : s.encVal = id := by funext v; unfold LineSpec.encVal; simp [hf, C07.gtf_ne_gff3]
    simp [dOf, hf, henc, C07.gtf_ne_gff3]

theorem items_fold (s : LineSpec) (P : PFacts s) :
    (its s).foldl C08.addVals [] = s.attrs.map (fun it => (it.key, it.vals.map s.encVal)) := by
  have h1 : its s = C08.items (dOf s []) (s.attrs.map (fun it => (it.key, it.vals.map s.encVal))) := by
    unfold its C08.items
    rw [← C07.items_eq s]
    rfl
  rw [h1, C08.foldl_items _ _ [] (by simpa [List.map_map, Function.comp_def] using P.nodup)]
  simp

/-- **the provided-dialect path on a rendered attribute column** -/
theorem prov_parse (s : LineSpec) (P : PFacts s) (ord : List Str) :
    splitKeyvals (renderAttrs s) (some (dOf s ord)) = .ok (s.mapping, dOf s ord) := by
  by_cases he : s.attrs = []
  · simp [splitKeyvals, renderAttrs, LineSpec.mapping, he]
  · have hne := its_ne s he
    have hpne : (its s).map (partOf s) ≠ [] := by simpa using hne
    have hparts : ∀ p ∈ (its s).map (partOf s), p ≠ [] ∧ ';' ∉ p :=
      fun p hp => ⟨(parts_ok s P p hp).1, (parts_ok s P p hp).2.1⟩
    have hsepne : (dOf s ord).kvSep ≠ [] := by
      rcases C07.kvSep_cases s with ⟨_, h⟩ | ⟨_, h⟩ <;> simp [dOf, h]
    rw [renderAttrs_eq s P he ord]
    unfold splitKeyvals
    simp only [C08.printed_isEmpty (dOf s ord) _ hpne (fun p hp => (hparts p hp).1), Bool.false_eq_true,
      if_false]
    rcases C07.fmt_cases s with hf | ⟨hf, hst, hq⟩
    · -- every format but GTF: split at the key/value separator, no `strip`
      rw [C08.splitProvided_gff3 _ (dOf s ord) hf rfl, C08.stripped (dOf s ord) _ hpne hparts,
        C08bAux.pySplit_ok _ _ (C08.fieldSep_ne _ (isFieldSep s P ord)),
        C08.split_fieldSep _ (isFieldSep s P ord) _ hpne (fun p hp => (hparts p hp).2)]
      simp only [bind, Except.bind]
      rw [C08bAux.mapM_map_ok (pySplit (dOf s ord).kvSep) (partOf s)
        (fun kv => Str.split (dOf s ord).kvSep (partOf s kv)) (its s)
        (fun kv _ => C08bAux.pySplit_ok _ _ hsepne)]
      simp only []
      rw [C08bAux.foldlM_map_ok (C08.foldStep (dOf s ord)) _ C08.addVals (its s) []]
      · simp only [pure, Except.pure]
        rw [items_fold s P, unquote_items]
      · intro acc kv hkv
        have F := it_facts s P kv hkv
        exact foldStep_txt s ord acc _ kv (keyVal_part s kv.1 _ F.1 F.2.1) F.2.2
    · -- GTF: `strip` each part, split at the blank, rejoin the tail
      have hkv : (dOf s ord).kvSep = [' '] := by unfold dOf LineSpec.kvSep; simp [hst]
      rw [C08.splitProvided_gtf _ (dOf s ord) hf rfl, C08.stripped (dOf s ord) _ hpne hparts,
        C08bAux.pySplit_ok _ _ (C08.fieldSep_ne _ (isFieldSep s P ord)),
        C08.split_fieldSep _ (isFieldSep s P ord) _ hpne (fun p hp => (hparts p hp).2)]
      simp only [bind, Except.bind]
      rw [C08bAux.zipIdx_mapM_map_ok (fun (p : Str × Nat) => pySplit (dOf s ord).kvSep (Str.strip p.1))
        (partOf s) (fun kv => Str.split [' '] (Str.strip (partOf s kv))) (its s) 0
        (fun kv _ _ => by rw [hkv]; exact C08bAux.pySplit_ok _ _ (by simp))]
      simp only []
      rw [C08bAux.mapM_map_ok headRest _ (fun kv => [kv.1, txt s kv.2]) (its s)
        (fun kv hkv' => by
          have F := it_facts s P kv hkv'
          exact headRest_part s kv.1 _ F.1 F.2.1 hst)]
      simp only []
      rw [C08bAux.foldlM_map_ok (C08.foldStep (dOf s ord)) _ C08.addVals (its s) []]
      · simp only [pure, Except.pure]
        rw [items_fold s P, unquote_items]
      · intro acc kv hkv'
        have F := it_facts s P kv hkv'
        exact foldStep_txt s ord acc _ kv rfl F.2.2

end GffProofs.C01
