/-
  Helper lemmas for C20: association-list (`Dict`) facts, the ownership invariant of the
  concurrency model `GffModel.Conc`, and its preservation by every step.
  Core Lean only.
-/
import GffModel.Conc

namespace GffProofs.C20
open GffModel GffModel.Conc

/-! ### `Dict` facts -/

section DictLemmas
variable {α : Type}

theorem keys_append (d e : Dict α) : Dict.keys (d ++ e) = Dict.keys d ++ Dict.keys e := by
  simp [Dict.keys]

theorem mem_keys_of_mem {d : Dict α} {k : Str} {v : α} (h : (k, v) ∈ d) : k ∈ Dict.keys d := by
  simp only [Dict.keys, List.mem_map]; exact ⟨(k, v), h, rfl⟩

theorem get?_eq_none_iff (d : Dict α) (k : Str) : Dict.get? d k = none ↔ k ∉ Dict.keys d := by
  induction d with
  | nil => simp [Dict.get?, Dict.keys]
  | cons a d ih =>
    obtain ⟨k', v⟩ := a
    simp only [Dict.get?, Dict.keys, List.map_cons, List.mem_cons, not_or]
    by_cases hk : k' = k
    · simp [hk]
    · simp only [hk, if_false]
      rw [ih]; simp only [Dict.keys]
      constructor
      · intro h; exact ⟨fun e => hk e.symm, h⟩
      · intro h; exact h.2

theorem contains_eq_false_iff (d : Dict α) (k : Str) : Dict.contains d k = false ↔ k ∉ Dict.keys d := by
  rw [← get?_eq_none_iff]; unfold Dict.contains
  cases Dict.get? d k <;> simp

theorem contains_eq_true_iff (d : Dict α) (k : Str) : Dict.contains d k = true ↔ k ∈ Dict.keys d := by
  have := contains_eq_false_iff d k
  cases h : Dict.contains d k
  · simp only [h, true_iff] at this; simp [this]
  · simp only [h, Bool.true_eq_false, false_iff, Classical.not_not] at this; simp [this]

theorem set_of_not_mem (d : Dict α) (k : Str) (v : α) (h : k ∉ Dict.keys d) :
    Dict.set d k v = d ++ [(k, v)] := by
  induction d with
  | nil => rfl
  | cons a d ih =>
    obtain ⟨k', v'⟩ := a
    simp only [Dict.keys, List.map_cons, List.mem_cons, not_or] at h
    have hk : ¬ k' = k := fun e => h.1 e.symm
    simp only [Dict.set, hk, if_false, List.cons_append]
    rw [ih h.2]

theorem set_append_right (d e : Dict α) (k : Str) (v : α) (h : k ∉ Dict.keys d) :
    Dict.set (d ++ e) k v = d ++ Dict.set e k v := by
  induction d with
  | nil => rfl
  | cons a d ih =>
    obtain ⟨k', v'⟩ := a
    simp only [Dict.keys, List.map_cons, List.mem_cons, not_or] at h
    have hk : ¬ k' = k := fun e => h.1 e.symm
    simp only [List.cons_append, Dict.set, hk, if_false]
    rw [ih h.2]

theorem erase_of_not_mem (d : Dict α) (k : Str) (h : k ∉ Dict.keys d) : Dict.erase d k = d := by
  unfold Dict.erase
  rw [List.filter_eq_self]
  intro a ha
  simp only [ne_eq, decide_eq_true_eq]
  intro e; apply h; rw [← e]; exact mem_keys_of_mem (v := a.2) ha

theorem erase_append_right (d e : Dict α) (k : Str) (h : k ∉ Dict.keys d) :
    Dict.erase (d ++ e) k = d ++ Dict.erase e k := by
  have := erase_of_not_mem d k h
  unfold Dict.erase at *
  rw [List.filter_append, this]

theorem get?_append_right (d e : Dict α) (k : Str) (h : k ∉ Dict.keys d) :
    Dict.get? (d ++ e) k = Dict.get? e k := by
  induction d with
  | nil => rfl
  | cons a d ih =>
    obtain ⟨k', v'⟩ := a
    simp only [Dict.keys, List.map_cons, List.mem_cons, not_or] at h
    have hk : ¬ k' = k := fun e => h.1 e.symm
    simp only [List.cons_append, Dict.get?, hk, if_false]
    exact ih h.2

theorem get?_append_left (d e : Dict α) (k : Str) (h : k ∈ Dict.keys d) :
    Dict.get? (d ++ e) k = Dict.get? d k := by
  induction d with
  | nil => simp [Dict.keys] at h
  | cons a d ih =>
    obtain ⟨k', v'⟩ := a
    simp only [List.cons_append, Dict.get?]
    by_cases hk : k' = k
    · simp [hk]
    · simp only [hk, if_false]
      apply ih
      simp only [Dict.keys, List.map_cons, List.mem_cons] at h
      rcases h with h | h
      · exact absurd h.symm hk
      · exact h

theorem get?_of_mem_nodup (d : Dict α) (k : Str) (v : α) (hn : (Dict.keys d).Nodup) (h : (k, v) ∈ d) :
    Dict.get? d k = some v := by
  induction d with
  | nil => simp at h
  | cons a d ih =>
    obtain ⟨k', v'⟩ := a
    simp only [Dict.keys, List.map_cons, List.nodup_cons] at hn
    simp only [List.mem_cons, Prod.mk.injEq] at h
    simp only [Dict.get?]
    rcases h with ⟨rfl, rfl⟩ | h
    · simp
    · have : ¬ k' = k := by
        intro e; apply hn.1; rw [e]; exact mem_keys_of_mem h
      simp only [this, if_false]
      exact ih hn.2 h

theorem keys_set_of_mem (d : Dict α) (k : Str) (v : α) (h : k ∈ Dict.keys d) :
    Dict.keys (Dict.set d k v) = Dict.keys d := by
  induction d with
  | nil => simp [Dict.keys] at h
  | cons a d ih =>
    obtain ⟨k', v'⟩ := a
    simp only [Dict.set]
    by_cases hk : k' = k
    · simp [hk, Dict.keys]
    · simp only [hk, if_false]
      simp only [Dict.keys, List.map_cons, List.mem_cons] at h ⊢
      rcases h with h | h
      · exact absurd h.symm hk
      · have := ih h; simp only [Dict.keys] at this; rw [this]

theorem mem_set_iff (d : Dict α) (k : Str) (v : α) (hn : (Dict.keys d).Nodup) (h : k ∈ Dict.keys d)
    (m : Str) (c : α) :
    (m, c) ∈ Dict.set d k v ↔ (m = k ∧ c = v) ∨ (m ≠ k ∧ (m, c) ∈ d) := by
  induction d with
  | nil => simp [Dict.keys] at h
  | cons a d ih =>
    obtain ⟨k', v'⟩ := a
    simp only [Dict.keys, List.map_cons, List.nodup_cons] at hn
    simp only [Dict.set]
    by_cases hk : k' = k
    · subst hk
      simp only [if_true, List.mem_cons, Prod.mk.injEq]
      constructor
      · rintro (h1 | h1)
        · exact Or.inl h1
        · right
          refine ⟨?_, Or.inr h1⟩
          intro e; apply hn.1; rw [← e]; exact mem_keys_of_mem h1
      · rintro (h1 | ⟨h1, h2 | h2⟩)
        · exact Or.inl h1
        · exact absurd h2.1 h1
        · exact Or.inr h2
    · simp only [hk, if_false, List.mem_cons, Prod.mk.injEq]
      simp only [Dict.keys, List.map_cons, List.mem_cons] at h
      have hk2 : k ∈ Dict.keys d := by
        rcases h with h | h
        · exact absurd h.symm hk
        · exact h
      rw [ih hn.2 hk2]
      constructor
      · rintro (⟨rfl, rfl⟩ | h1 | h1)
        · exact Or.inr ⟨hk, Or.inl ⟨rfl, rfl⟩⟩
        · exact Or.inl h1
        · exact Or.inr ⟨h1.1, Or.inr h1.2⟩
      · rintro (h1 | ⟨h1, h2 | h2⟩)
        · exact Or.inr (Or.inl h1)
        · exact Or.inl h2
        · exact Or.inr (Or.inr ⟨h1, h2⟩)

theorem mem_erase_iff (d : Dict α) (k m : Str) (c : α) :
    (m, c) ∈ Dict.erase d k ↔ m ≠ k ∧ (m, c) ∈ d := by
  simp only [Dict.erase, List.mem_filter, ne_eq, decide_eq_true_eq]
  exact ⟨fun h => ⟨h.2, h.1⟩, fun h => ⟨h.2, h.1⟩⟩

theorem keys_erase_sublist (d : Dict α) (k : Str) :
    (Dict.keys (Dict.erase d k)).Sublist (Dict.keys d) := by
  unfold Dict.keys Dict.erase
  exact (List.filter_sublist).map _

theorem mem_keys_iff (d : Dict α) (k : Str) : k ∈ Dict.keys d ↔ ∃ v, (k, v) ∈ d := by
  simp only [Dict.keys, List.mem_map]
  constructor
  · rintro ⟨⟨k', v⟩, h, rfl⟩; exact ⟨v, h⟩
  · rintro ⟨v, h⟩; exact ⟨(k, v), h, rfl⟩

end DictLemmas


/-! ### The ownership invariant -/

/-- `(n, c)` is the intermediate file of some process. -/
def Owns (procs : List Proc) (n c : Str) : Prop :=
  ∃ (i : Nat) (p : Proc), procs[i]? = some p ∧ p.holding = some n ∧ c = p.fileContent

/-- the same, for a process other than `i` -/
def OwnsExcept (procs : List Proc) (i : Nat) (n c : Str) : Prop :=
  ∃ (j : Nat) (q : Proc), j ≠ i ∧ procs[j]? = some q ∧ q.holding = some n ∧ c = q.fileContent

/-- Local state of one process as a function of its program counter; `d` is the payload it was
created with and `o` its output slot. -/
structure ProcOK (d : Str) (p : Proc) (o : Option Str) : Prop where
  data : p.data = d
  pc_le : p.pc ≤ 5
  tmp : 1 ≤ p.pc → ∃ n, p.tmp = some n
  buf : p.buf = if 3 ≤ p.pc then some d else none
  out : o = if p.pc = 5 then some d else none

/-- the directory part: `tmpdir` is the initial directory followed by exactly the owned files -/
def DirOK (dir0 : Dict Str) (T : Dict Str) (own : Str → Str → Prop) : Prop :=
  ∃ L, T = dir0 ++ L ∧ (Dict.keys L).Nodup ∧ (∀ n ∈ Dict.keys L, n ∉ Dict.keys dir0) ∧
    ∀ n c, (n, c) ∈ L ↔ own n c

structure Inv (datas : List Str) (dir0 : Dict Str) (s : Sys) : Prop where
  len : s.procs.length = datas.length
  olen : s.outputs.length = datas.length
  ok : ∀ (i : Nat) (p : Proc), s.procs[i]? = some p →
    ∃ (d : Str) (o : Option Str), datas[i]? = some d ∧ s.outputs[i]? = some o ∧ ProcOK d p o
  distinct : ∀ (i j : Nat) (p q : Proc) (n : Str), s.procs[i]? = some p → s.procs[j]? = some q →
    p.holding = some n → q.holding = some n → i = j
  dir : DirOK dir0 s.tmpdir (Owns s.procs)

theorem getElem?_set_some {α : Type} (l : List α) (i j : Nat) (a b p : α) (hp : l[i]? = some p) :
    (l.set i a)[j]? = some b ↔ (j = i ∧ b = a) ∨ (j ≠ i ∧ l[j]? = some b) := by
  have hi : i < l.length := by
    rcases Nat.lt_or_ge i l.length with h | h
    · exact h
    · rw [List.getElem?_eq_none h] at hp; cases hp
  rw [List.getElem?_set]
  by_cases h : i = j
  · subst h; simp [hi, eq_comm]
  · have h' : j ≠ i := fun e => h e.symm
    simp [h, h']

theorem owns_split (procs : List Proc) (i : Nat) (p : Proc) (hp : procs[i]? = some p) (n c : Str) :
    Owns procs n c ↔ (p.holding = some n ∧ c = p.fileContent) ∨ OwnsExcept procs i n c := by
  constructor
  · rintro ⟨j, q, hq, h1, h2⟩
    by_cases hj : j = i
    · subst hj; rw [hp] at hq; cases hq; exact Or.inl ⟨h1, h2⟩
    · exact Or.inr ⟨j, q, hj, hq, h1, h2⟩
  · rintro (⟨h1, h2⟩ | ⟨j, q, _, hq, h1, h2⟩)
    · exact ⟨i, p, hp, h1, h2⟩
    · exact ⟨j, q, hq, h1, h2⟩

theorem owns_set (procs : List Proc) (i : Nat) (p p' : Proc) (hp : procs[i]? = some p) (n c : Str) :
    Owns (procs.set i p') n c ↔
      (p'.holding = some n ∧ c = p'.fileContent) ∨ OwnsExcept procs i n c := by
  constructor
  · rintro ⟨j, q, hq, h1, h2⟩
    rw [getElem?_set_some procs i j p' q p hp] at hq
    rcases hq with ⟨_, rfl⟩ | ⟨hj, hq⟩
    · exact Or.inl ⟨h1, h2⟩
    · exact Or.inr ⟨j, q, hj, hq, h1, h2⟩
  · rintro (⟨h1, h2⟩ | ⟨j, q, hj, hq, h1, h2⟩)
    · exact ⟨i, p', (getElem?_set_some procs i i p' p' p hp).2 (Or.inl ⟨rfl, rfl⟩), h1, h2⟩
    · exact ⟨j, q, (getElem?_set_some procs i j p' q p hp).2 (Or.inr ⟨hj, hq⟩), h1, h2⟩

/-- Generic preservation: process `i` moves from `p` to `p'`. -/
theorem inv_update {datas : List Str} {dir0 : Dict Str} {s : Sys} (hinv : Inv datas dir0 s)
    {i : Nat} {p : Proc} (hp : s.procs[i]? = some p) (p' : Proc) (T' : Dict Str)
    (O' : List (Option Str))
    (hO : O'.length = s.outputs.length) (hOj : ∀ j, j ≠ i → O'[j]? = s.outputs[j]?)
    (hok : ∀ d o, datas[i]? = some d → s.outputs[i]? = some o → ProcOK d p o →
      ∃ o', O'[i]? = some o' ∧ ProcOK d p' o')
    (hdist : ∀ n, p'.holding = some n → ∀ j q, j ≠ i → s.procs[j]? = some q → q.holding ≠ some n)
    (hdir : DirOK dir0 s.tmpdir (fun n c => (p.holding = some n ∧ c = p.fileContent) ∨
        OwnsExcept s.procs i n c) →
      DirOK dir0 T' (fun n c => (p'.holding = some n ∧ c = p'.fileContent) ∨
        OwnsExcept s.procs i n c)) :
    Inv datas dir0 { procs := s.procs.set i p', tmpdir := T', outputs := O' } := by
  refine ⟨?_, ?_, ?_, ?_, ?_⟩
  · simp only [List.length_set]; exact hinv.len
  · simp only []; rw [hO]; exact hinv.olen
  · intro j q hq
    simp only [] at hq ⊢
    rw [getElem?_set_some s.procs i j p' q p hp] at hq
    rcases hq with ⟨rfl, rfl⟩ | ⟨hj, hq⟩
    · obtain ⟨d, o, h1, h2, h3⟩ := hinv.ok _ _ hp
      obtain ⟨o', h4, h5⟩ := hok d o h1 h2 h3
      exact ⟨d, o', h1, h4, h5⟩
    · obtain ⟨d, o, h1, h2, h3⟩ := hinv.ok _ _ hq
      exact ⟨d, o, h1, by rw [hOj j hj]; exact h2, h3⟩
  · intro j k q r n hq hr h1 h2
    simp only [] at hq hr
    rw [getElem?_set_some s.procs i j p' q p hp] at hq
    rw [getElem?_set_some s.procs i k p' r p hp] at hr
    rcases hq with ⟨rfl, rfl⟩ | ⟨hj, hq⟩ <;> rcases hr with ⟨rfl, rfl⟩ | ⟨hk, hr⟩
    · rfl
    · exact absurd h2 (hdist n h1 k r hk hr)
    · exact absurd h1 (hdist n h2 j q hj hq)
    · exact hinv.distinct j k q r n hq hr h1 h2
  · simp only []
    have h0 : DirOK dir0 s.tmpdir (fun n c => (p.holding = some n ∧ c = p.fileContent) ∨
        OwnsExcept s.procs i n c) := by
      obtain ⟨L, h1, h2, h3, h4⟩ := hinv.dir
      exact ⟨L, h1, h2, h3, fun n c => by rw [h4, owns_split s.procs i p hp]⟩
    obtain ⟨L, h1, h2, h3, h4⟩ := hdir h0
    exact ⟨L, h1, h2, h3, fun n c => by rw [h4, owns_set s.procs i p p' hp]⟩


/-! ### `DirOK` under the four directory operations -/

theorem dirOK_congr {dir0 T : Dict Str} {own own' : Str → Str → Prop}
    (h : DirOK dir0 T own) (he : ∀ n c, own n c ↔ own' n c) : DirOK dir0 T own' := by
  obtain ⟨L, h1, h2, h3, h4⟩ := h
  exact ⟨L, h1, h2, h3, fun n c => by rw [h4, he]⟩

theorem dirOK_get {dir0 T : Dict Str} {own : Str → Str → Prop} (h : DirOK dir0 T own)
    {k v : Str} (ho : own k v) :
    Dict.get? T k = some v ∧ k ∉ Dict.keys dir0 ∧ k ∈ Dict.keys T := by
  obtain ⟨L, h1, h2, h3, h4⟩ := h
  have hm : (k, v) ∈ L := (h4 k v).2 ho
  have hk : k ∈ Dict.keys L := mem_keys_of_mem hm
  refine ⟨?_, h3 k hk, ?_⟩
  · rw [h1, get?_append_right _ _ _ (h3 k hk)]
    exact get?_of_mem_nodup L k v h2 hm
  · rw [h1, keys_append]; exact List.mem_append_right _ hk

theorem dirOK_add {dir0 T : Dict Str} {own : Str → Str → Prop} (h : DirOK dir0 T own)
    {k : Str} (v : Str) (hk : k ∉ Dict.keys T) :
    DirOK dir0 (Dict.set T k v) (fun n c => (n = k ∧ c = v) ∨ own n c) := by
  obtain ⟨L, h1, h2, h3, h4⟩ := h
  have hk' : k ∉ Dict.keys dir0 ∧ k ∉ Dict.keys L := by
    rw [h1, keys_append, List.mem_append, not_or] at hk; exact hk
  refine ⟨L ++ [(k, v)], ?_, ?_, ?_, ?_⟩
  · rw [set_of_not_mem T k v hk, h1, List.append_assoc]
  · rw [keys_append]
    simp only [Dict.keys, List.map_cons, List.map_nil]
    rw [List.nodup_append]
    refine ⟨h2, by simp, ?_⟩
    intro a ha b hb
    simp only [List.mem_singleton] at hb
    subst hb
    intro e; subst e; exact hk'.2 ha
  · intro n hn
    rw [keys_append, List.mem_append] at hn
    rcases hn with hn | hn
    · exact h3 n hn
    · simp only [Dict.keys, List.map_cons, List.map_nil, List.mem_singleton] at hn
      subst hn; exact hk'.1
  · intro n c
    simp only [List.mem_append, List.mem_singleton, Prod.mk.injEq]
    rw [h4]; exact Or.comm

theorem dirOK_write {dir0 T : Dict Str} {own : Str → Str → Prop} {k v0 : Str}
    (h : DirOK dir0 T (fun n c => (n = k ∧ c = v0) ∨ own n c)) (hown : ∀ c, ¬ own k c) (v : Str) :
    DirOK dir0 (Dict.set T k v) (fun n c => (n = k ∧ c = v) ∨ own n c) := by
  obtain ⟨L, h1, h2, h3, h4⟩ := h
  have hm : (k, v0) ∈ L := (h4 k v0).2 (Or.inl ⟨rfl, rfl⟩)
  have hk : k ∈ Dict.keys L := mem_keys_of_mem hm
  refine ⟨Dict.set L k v, ?_, ?_, ?_, ?_⟩
  · rw [h1, set_append_right _ _ _ _ (h3 k hk)]
  · rw [keys_set_of_mem L k v hk]; exact h2
  · rw [keys_set_of_mem L k v hk]; exact h3
  · intro n c
    rw [mem_set_iff L k v h2 hk, h4]
    constructor
    · rintro (h | ⟨hne, h | h⟩)
      · exact Or.inl h
      · exact absurd h.1 hne
      · exact Or.inr h
    · rintro (h | h)
      · exact Or.inl h
      · right
        refine ⟨?_, Or.inr h⟩
        intro e; subst e; exact hown c h

theorem dirOK_remove {dir0 T : Dict Str} {own : Str → Str → Prop} {k v0 : Str}
    (h : DirOK dir0 T (fun n c => (n = k ∧ c = v0) ∨ own n c)) (hown : ∀ c, ¬ own k c) :
    DirOK dir0 (Dict.erase T k) own := by
  obtain ⟨L, h1, h2, h3, h4⟩ := h
  have hm : (k, v0) ∈ L := (h4 k v0).2 (Or.inl ⟨rfl, rfl⟩)
  have hk : k ∈ Dict.keys L := mem_keys_of_mem hm
  refine ⟨Dict.erase L k, ?_, ?_, ?_, ?_⟩
  · rw [h1, erase_append_right _ _ _ (h3 k hk)]
  · exact (keys_erase_sublist L k).nodup h2
  · intro n hn; exact h3 n ((keys_erase_sublist L k).subset hn)
  · intro n c
    rw [mem_erase_iff, h4]
    constructor
    · rintro ⟨hne, h | h⟩
      · exact absurd h.1 hne
      · exact h
    · intro h
      refine ⟨?_, Or.inr h⟩
      intro e; subst e; exact hown c h


/-! ### Every step preserves the invariant -/

theorem not_ownsExcept_of_holding {datas : List Str} {dir0 : Dict Str} {s : Sys}
    (hinv : Inv datas dir0 s) {i : Nat} {p : Proc} (hp : s.procs[i]? = some p) {n : Str}
    (hh : p.holding = some n) (c : Str) : ¬ OwnsExcept s.procs i n c := by
  rintro ⟨j, q, hj, hq, h1, _⟩
  exact hj (hinv.distinct j i q p n hq hp h1 hh)

theorem step_inv {datas : List Str} {dir0 : Dict Str} {s s' : Sys} (hinv : Inv datas dir0 s)
    {i : Nat} {pick : Str} (h : step s i pick = some s') : Inv datas dir0 s' := by
  unfold step stepG at h
  cases hp : s.procs[i]? with
  | none => simp [hp] at h
  | some p =>
    simp only [hp] at h
    obtain ⟨pdata, pc, tmp, buf⟩ := p
    rcases pc with _ | _ | _ | _ | _ | pc
    · -- mkstemp
      simp only [program, List.getElem?_cons_zero, Bool.true_and] at h
      split at h
      · cases h
      · rename_i hc
        simp only [Option.some.injEq] at h; subst h
        have hpick : pick ∉ Dict.keys s.tmpdir := by
          rw [← contains_eq_false_iff]; simpa using hc
        apply inv_update hinv hp _ _ s.outputs rfl (fun _ _ => rfl)
        · intro d o _ ho hok
          obtain ⟨h1, h2, h3, h4, h5⟩ := hok
          refine ⟨o, ho, ⟨h1, by simp, fun _ => ⟨pick, rfl⟩, ?_, ?_⟩⟩
          · simpa using h4
          · simpa using h5
        · intro n hn j q hj hq hq'
          simp [Proc.holding] at hn
          subst hn
          have := (dirOK_get hinv.dir (k := pick) (v := q.fileContent) ⟨j, q, hq, hq', rfl⟩).2.2
          exact hpick this
        · intro h0
          have h1 := dirOK_add (dirOK_congr h0 (own' := OwnsExcept s.procs i) (by
            intro n c; simp [Proc.holding])) [] hpick
          refine dirOK_congr h1 ?_
          intro n c
          simp [Proc.holding, Proc.fileContent, eq_comm]
    · -- write
      simp only [program, List.getElem?_cons_succ, List.getElem?_cons_zero, Nat.zero_add] at h
      cases tmp with
      | none => simp at h
      | some nm =>
        simp only [Option.some.injEq] at h; subst h
        have hh : ({ data := pdata, pc := 1, tmp := some nm, buf := buf } : Proc).holding = some nm := by
          simp [Proc.holding]
        apply inv_update hinv hp _ _ s.outputs rfl (fun _ _ => rfl)
        · intro d o _ ho hok
          obtain ⟨h1, h2, h3, h4, h5⟩ := hok
          refine ⟨o, ho, ⟨h1, by simp, fun _ => ⟨nm, rfl⟩, ?_, ?_⟩⟩
          · simpa using h4
          · simpa using h5
        · intro n hn j q hj hq hq'
          simp [Proc.holding] at hn
          subst hn
          exact hj (hinv.distinct j i q _ nm hq hp hq' hh)
        · intro h0
          have h1 := dirOK_write (k := nm) (v0 := []) (own := OwnsExcept s.procs i)
            (dirOK_congr h0 (by intro n c; simp [Proc.holding, Proc.fileContent, eq_comm]))
            (not_ownsExcept_of_holding hinv hp hh) pdata
          refine dirOK_congr h1 ?_
          intro n c
          simp [Proc.holding, Proc.fileContent, eq_comm]
    · -- read
      simp only [program, List.getElem?_cons_succ, List.getElem?_cons_zero, Nat.zero_add] at h
      cases tmp with
      | none => simp at h
      | some nm =>
        simp only at h
        have hh : ({ data := pdata, pc := 2, tmp := some nm, buf := buf } : Proc).holding = some nm := by
          simp [Proc.holding]
        have hget := (dirOK_get hinv.dir (k := nm) (v := pdata)
          ⟨i, _, hp, hh, by simp [Proc.fileContent]⟩).1
        rw [hget] at h
        simp only [Option.some.injEq] at h; subst h
        apply inv_update hinv hp _ _ s.outputs rfl (fun _ _ => rfl)
        · intro d o _ ho hok
          obtain ⟨h1, h2, h3, h4, h5⟩ := hok
          simp only at h1
          refine ⟨o, ho, ⟨h1, by simp, fun _ => ⟨nm, rfl⟩, ?_, ?_⟩⟩
          · simp [h1]
          · simpa using h5
        · intro n hn j q hj hq hq'
          simp [Proc.holding] at hn
          subst hn
          exact hj (hinv.distinct j i q _ nm hq hp hq' hh)
        · intro h0
          refine dirOK_congr h0 ?_
          intro n c
          simp [Proc.holding, Proc.fileContent]
    · -- unlink
      simp only [program, List.getElem?_cons_succ, List.getElem?_cons_zero, Nat.zero_add] at h
      cases tmp with
      | none => simp at h
      | some nm =>
        simp only at h
        have hh : ({ data := pdata, pc := 3, tmp := some nm, buf := buf } : Proc).holding = some nm := by
          simp [Proc.holding]
        have hmem := (dirOK_get hinv.dir (k := nm) (v := pdata)
          ⟨i, _, hp, hh, by simp [Proc.fileContent]⟩).2.2
        rw [(contains_eq_true_iff _ _).2 hmem] at h
        simp only [if_true, Option.some.injEq] at h; subst h
        apply inv_update hinv hp _ _ s.outputs rfl (fun _ _ => rfl)
        · intro d o _ ho hok
          obtain ⟨h1, h2, h3, h4, h5⟩ := hok
          refine ⟨o, ho, ⟨h1, by simp, fun _ => ⟨nm, rfl⟩, ?_, ?_⟩⟩
          · simpa using h4
          · simpa using h5
        · intro n hn
          simp [Proc.holding] at hn
        · intro h0
          have h1 := dirOK_remove (k := nm) (v0 := pdata) (own := OwnsExcept s.procs i)
            (dirOK_congr h0 (by intro n c; simp [Proc.holding, Proc.fileContent, eq_comm]))
            (not_ownsExcept_of_holding hinv hp hh)
          refine dirOK_congr h1 ?_
          intro n c
          simp [Proc.holding]
    · -- writeOutput
      simp only [program, List.getElem?_cons_succ, List.getElem?_cons_zero, Nat.zero_add] at h
      obtain ⟨d, o, hd, ho, hok⟩ := hinv.ok i _ hp
      have hb : buf = some d := by simpa using hok.buf
      subst hb
      simp only [Option.some.injEq] at h; subst h
      have hilt : i < s.outputs.length := by
        rcases Nat.lt_or_ge i s.outputs.length with h | h
        · exact h
        · rw [List.getElem?_eq_none h] at ho; cases ho
      apply inv_update hinv hp _ _ (s.outputs.set i (some d)) (by simp)
        (fun j hj => by rw [List.getElem?_set, if_neg (fun e => hj (Eq.symm e))])
      · intro d' o' hd' _ hok'
        rw [hd] at hd'; cases hd'
        obtain ⟨h1, h2, h3, h4, h5⟩ := hok'
        refine ⟨some d, by simp [hilt], ⟨h1, by simp, fun _ => h3 (by simp), ?_, ?_⟩⟩
        · simp
        · simp
      · intro n hn
        simp [Proc.holding] at hn
      · intro h0
        refine dirOK_congr h0 ?_
        intro n c
        simp [Proc.holding]
    · simp [program] at h


/-! ### Initial state, runs -/

theorem init_inv (datas : List Str) (dir0 : Dict Str) : Inv datas dir0 (init datas dir0) := by
  have hproc : ∀ (i : Nat) (p : Proc), (init datas dir0).procs[i]? = some p →
      ∃ d, datas[i]? = some d ∧ p = { data := d } := by
    intro i p hp
    simp only [init, List.getElem?_map, Option.map_eq_some_iff] at hp
    obtain ⟨d, h1, h2⟩ := hp
    exact ⟨d, h1, h2.symm⟩
  have hhold : ∀ (i : Nat) (p : Proc), (init datas dir0).procs[i]? = some p → p.holding = none := by
    intro i p hp
    obtain ⟨d, _, rfl⟩ := hproc i p hp
    simp [Proc.holding]
  refine ⟨by simp [init], by simp [init], ?_, ?_, ?_⟩
  · intro i p hp
    obtain ⟨d, hd, rfl⟩ := hproc i p hp
    refine ⟨d, none, hd, ?_, ⟨rfl, by simp, by simp, by simp, by simp⟩⟩
    simp [init, hd]
  · intro i j p q n hp _ h1 _
    rw [hhold i p hp] at h1; cases h1
  · refine ⟨[], by simp [init], by simp [Dict.keys], by simp [Dict.keys], ?_⟩
    intro n c
    simp only [List.not_mem_nil, false_iff]
    rintro ⟨i, p, hp, h1, _⟩
    rw [hhold i p hp] at h1; cases h1

theorem run_cons (s : Sys) (i : Nat) (pick : Str) (rest : Schedule) :
    run s ((i, pick) :: rest) = (step s i pick).bind (fun s' => run s' rest) := by
  simp only [run, runG, step]
  cases stepG true s i pick <;> rfl

theorem run_nil (s : Sys) : run s [] = some s := rfl

theorem run_append (s : Sys) (a b : Schedule) :
    run s (a ++ b) = (run s a).bind (fun s' => run s' b) := by
  induction a generalizing s with
  | nil => rfl
  | cons x a ih =>
    obtain ⟨i, pick⟩ := x
    simp only [List.cons_append, run_cons]
    cases step s i pick with
    | none => rfl
    | some s' => simp only [Option.bind_some]; exact ih s'

theorem run_inv {datas : List Str} {dir0 : Dict Str} {s s' : Sys} (hinv : Inv datas dir0 s)
    {sched : Schedule} (h : run s sched = some s') : Inv datas dir0 s' := by
  induction sched generalizing s with
  | nil => simp only [run_nil, Option.some.injEq] at h; subst h; exact hinv
  | cons x rest ih =>
    obtain ⟨i, pick⟩ := x
    rw [run_cons] at h
    cases hs : step s i pick with
    | none => simp [hs] at h
    | some s1 =>
      simp only [hs, Option.bind_some] at h
      exact ih (step_inv hinv hs) h

theorem reachable_inv {datas : List Str} {dir0 : Dict Str} {sched : Schedule} {s : Sys}
    (h : run (init datas dir0) sched = some s) : Inv datas dir0 s :=
  run_inv (init_inv datas dir0) h


/-! ### No process is ever stuck -/

/-- In a state satisfying the invariant every unfinished process can move: `read` and `unlink`
find the file, `writeOutput` has a buffer; `mkstemp` only needs an unoccupied pick. -/
theorem step_enabled {datas : List Str} {dir0 : Dict Str} {s : Sys} (hinv : Inv datas dir0 s)
    {i : Nat} {p : Proc} (hp : s.procs[i]? = some p) (hpc : p.pc < 5) (pick : Str)
    (hpick : p.pc = 0 → pick ∉ Dict.keys s.tmpdir) :
    ∃ s' p', step s i pick = some s' ∧ s'.procs = s.procs.set i p' ∧ p'.pc = p.pc + 1 ∧
      p'.tmp = if p.pc = 0 then some pick else p.tmp := by
  obtain ⟨d, o, hd, ho, hok⟩ := hinv.ok i p hp
  unfold step stepG
  simp only [hp]
  obtain ⟨pdata, pc, tmp, buf⟩ := p
  rcases pc with _ | _ | _ | _ | _ | pc
  · have hc : Dict.contains s.tmpdir pick = false := (contains_eq_false_iff _ _).2 (hpick rfl)
    simp only [program, List.getElem?_cons_zero, Bool.true_and, hc]
    exact ⟨_, _, rfl, rfl, rfl, by simp⟩
  · obtain ⟨nm, hnm⟩ := hok.tmp (by simp)
    simp only at hnm; subst hnm
    simp only [program, List.getElem?_cons_succ, List.getElem?_cons_zero, Nat.zero_add]
    exact ⟨_, _, rfl, rfl, rfl, by simp⟩
  · obtain ⟨nm, hnm⟩ := hok.tmp (by simp)
    simp only at hnm; subst hnm
    have hh : ({ data := pdata, pc := 2, tmp := some nm, buf := buf } : Proc).holding = some nm := by
      simp [Proc.holding]
    have hget := (dirOK_get hinv.dir (k := nm) (v := pdata)
      ⟨i, _, hp, hh, by simp [Proc.fileContent]⟩).1
    simp only [program, List.getElem?_cons_succ, List.getElem?_cons_zero, Nat.zero_add, hget]
    exact ⟨_, _, rfl, rfl, rfl, by simp⟩
  · obtain ⟨nm, hnm⟩ := hok.tmp (by simp)
    simp only at hnm; subst hnm
    have hh : ({ data := pdata, pc := 3, tmp := some nm, buf := buf } : Proc).holding = some nm := by
      simp [Proc.holding]
    have hmem := (dirOK_get hinv.dir (k := nm) (v := pdata)
      ⟨i, _, hp, hh, by simp [Proc.fileContent]⟩).2.2
    simp only [program, List.getElem?_cons_succ, List.getElem?_cons_zero, Nat.zero_add,
      (contains_eq_true_iff _ _).2 hmem, if_true]
    exact ⟨_, _, rfl, rfl, rfl, by simp⟩
  · have hb : buf = some d := by simpa using hok.buf
    subst hb
    simp only [program, List.getElem?_cons_succ, List.getElem?_cons_zero, Nat.zero_add]
    exact ⟨_, _, rfl, rfl, rfl, by simp⟩
  · simp only at hpc; omega


/-! ### Fresh names exist -/

def sumLen (l : List Str) : Nat := (l.map List.length).sum

theorem length_le_sumLen {l : List Str} {n : Str} (h : n ∈ l) : n.length ≤ sumLen l := by
  induction l with
  | nil => simp at h
  | cons a l ih =>
    simp only [sumLen, List.map_cons, List.sum_cons]
    simp only [List.mem_cons] at h
    rcases h with rfl | h
    · omega
    · have := ih h; simp only [sumLen] at this; omega

/-- the `k`-th name that is longer than every name in `l` -/
def freshName (l : List Str) (k : Nat) : Str := List.replicate (sumLen l + 1 + k) 'x'

theorem freshName_not_mem (l : List Str) (k : Nat) : freshName l k ∉ l := by
  intro h
  have := length_le_sumLen h
  simp only [freshName, List.length_replicate] at this
  omega

theorem freshName_inj (l : List Str) {k k' : Nat} (h : freshName l k = freshName l k') : k = k' := by
  have := congrArg List.length h
  simp only [freshName, List.length_replicate] at this
  omega

/-! ### Progress: from every state satisfying the invariant the system can finish -/

def remaining (procs : List Proc) : Nat := (procs.map (fun p => 5 - p.pc)).sum

theorem remaining_set (procs : List Proc) (i : Nat) (p p' : Proc) (hp : procs[i]? = some p)
    (hpc : p.pc < 5) (hp' : p'.pc = p.pc + 1) :
    remaining (procs.set i p') + 1 = remaining procs := by
  induction procs generalizing i with
  | nil => simp at hp
  | cons a l ih =>
    cases i with
    | zero =>
      simp only [List.getElem?_cons_zero, Option.some.injEq] at hp; subst hp
      simp only [List.set_cons_zero, remaining, List.map_cons, List.sum_cons, hp']
      omega
    | succ i =>
      simp only [List.getElem?_cons_succ] at hp
      have := ih i hp
      simp only [remaining, List.set_cons_succ, List.map_cons, List.sum_cons] at this ⊢
      omega

theorem exists_unfinished (procs : List Proc) (h : remaining procs ≠ 0) :
    ∃ (i : Nat) (p : Proc), procs[i]? = some p ∧ p.pc < 5 := by
  induction procs with
  | nil => simp [remaining] at h
  | cons a l ih =>
    by_cases ha : a.pc < 5
    · exact ⟨0, a, rfl, ha⟩
    · have : remaining l ≠ 0 := by
        simp only [remaining, List.map_cons, List.sum_cons] at h ⊢
        omega
      obtain ⟨i, p, h1, h2⟩ := ih this
      exact ⟨i + 1, p, by simpa using h1, h2⟩

theorem pc_eq_of_remaining_zero (procs : List Proc) (hle : ∀ p ∈ procs, p.pc ≤ 5)
    (h : remaining procs = 0) : ∀ p ∈ procs, p.pc = 5 := by
  induction procs with
  | nil => simp
  | cons a l ih =>
    simp only [remaining, List.map_cons, List.sum_cons] at h
    intro p hp
    simp only [List.mem_cons] at hp
    rcases hp with rfl | hp
    · have := hle p (by simp); omega
    · exact ih (fun q hq => hle q (by simp [hq])) (by simp only [remaining]; omega) p hp

theorem inv_pc_le {datas : List Str} {dir0 : Dict Str} {s : Sys} (hinv : Inv datas dir0 s) :
    ∀ p ∈ s.procs, p.pc ≤ 5 := by
  intro p hp
  obtain ⟨i, hi⟩ := List.mem_iff_getElem?.1 hp
  obtain ⟨d, o, _, _, hok⟩ := hinv.ok i p hi
  exact hok.pc_le

theorem finished_iff (s : Sys) : s.finished = true ↔ ∀ p ∈ s.procs, p.pc = 5 := by
  simp [Sys.finished, program]

theorem can_finish {datas : List Str} {dir0 : Dict Str} (n : Nat) :
    ∀ s : Sys, Inv datas dir0 s → remaining s.procs = n →
      ∃ sched s', run s sched = some s' ∧ s'.finished = true := by
  induction n with
  | zero =>
    intro s hinv h
    exact ⟨[], s, rfl, (finished_iff s).2 (pc_eq_of_remaining_zero _ (inv_pc_le hinv) h)⟩
  | succ n ih =>
    intro s hinv h
    obtain ⟨i, p, hp, hpc⟩ := exists_unfinished s.procs (by omega)
    obtain ⟨s1, p', hstep, hprocs, hp', _⟩ := step_enabled hinv hp hpc
      (freshName (Dict.keys s.tmpdir) 0) (fun _ => freshName_not_mem _ _)
    have hrem : remaining s1.procs = n := by
      have := remaining_set s.procs i p p' hp hpc hp'
      rw [hprocs]; omega
    obtain ⟨sched, s', hrun, hfin⟩ := ih s1 (step_inv hinv hstep) hrem
    refine ⟨(i, freshName (Dict.keys s.tmpdir) 0) :: sched, s', ?_, hfin⟩
    rw [run_cons, hstep]; exact hrun


/-! ### `tmpdir` as a permutation of the owned files -/

theorem nodup_of_map_nodup {α β : Type} (f : α → β) (l : List α) (h : (l.map f).Nodup) : l.Nodup := by
  induction l with
  | nil => exact List.nodup_nil
  | cons a l ih =>
    simp only [List.map_cons, List.nodup_cons] at h ⊢
    refine ⟨fun ha => h.1 (List.mem_map.2 ⟨a, ha, rfl⟩), ih h.2⟩

theorem nodup_filterMap_of_index_inj {α β : Type} (f : α → Option β) (l : List α)
    (h : ∀ (i j : Nat) (a b : α) (y : β), l[i]? = some a → l[j]? = some b → f a = some y →
      f b = some y → i = j) : (l.filterMap f).Nodup := by
  induction l with
  | nil => exact List.nodup_nil
  | cons a l ih =>
    have ih' := ih (fun i j x b y hx hb h1 h2 => by
      have := h (i + 1) (j + 1) x b y (by simpa using hx) (by simpa using hb) h1 h2
      omega)
    rw [List.filterMap_cons]
    cases hfa : f a with
    | none => exact ih'
    | some y =>
      simp only [List.nodup_cons]
      refine ⟨?_, ih'⟩
      intro hy
      obtain ⟨b, hb, hfb⟩ := List.mem_filterMap.1 hy
      obtain ⟨j, hj⟩ := List.mem_iff_getElem?.1 hb
      have := h 0 (j + 1) a b y rfl (by simpa using hj) hfa hfb
      omega

theorem mem_heldFiles (procs : List Proc) (n c : Str) : (n, c) ∈ heldFiles procs ↔ Owns procs n c := by
  unfold heldFiles Owns
  rw [List.mem_filterMap]
  constructor
  · rintro ⟨p, hp, h⟩
    obtain ⟨i, hi⟩ := List.mem_iff_getElem?.1 hp
    simp only [Option.map_eq_some_iff, Prod.mk.injEq] at h
    obtain ⟨m, h1, rfl, rfl⟩ := h
    exact ⟨i, p, hi, h1, rfl⟩
  · rintro ⟨i, p, hi, h1, rfl⟩
    exact ⟨p, List.mem_iff_getElem?.2 ⟨i, hi⟩, by simp [h1]⟩

theorem heldFiles_nodup {datas : List Str} {dir0 : Dict Str} {s : Sys} (hinv : Inv datas dir0 s) :
    (heldFiles s.procs).Nodup := by
  apply nodup_filterMap_of_index_inj
  intro i j p q y hp hq h1 h2
  simp only [Option.map_eq_some_iff] at h1 h2
  obtain ⟨n, hn, rfl⟩ := h1
  obtain ⟨m, hm, he⟩ := h2
  simp only [Prod.mk.injEq] at he
  rw [he.1] at hm
  exact hinv.distinct i j p q n hp hq hn hm

theorem tmpdir_perm {datas : List Str} {dir0 : Dict Str} {s : Sys} (hinv : Inv datas dir0 s) :
    ∃ L, s.tmpdir = dir0 ++ L ∧ L.Perm (heldFiles s.procs) := by
  obtain ⟨L, h1, h2, _, h4⟩ := hinv.dir
  refine ⟨L, h1, ?_⟩
  rw [List.perm_ext_iff_of_nodup (nodup_of_map_nodup _ L h2) (heldFiles_nodup hinv)]
  rintro ⟨n, c⟩
  rw [h4, mem_heldFiles]


/-! ### Every schedule with process-private fresh picks runs through -/

/-- steps process `i` still has to run -/
def todo (s : Sys) (i : Nat) : Nat :=
  match s.procs[i]? with
  | some p => 5 - p.pc
  | none => 0

/-- how often the schedule schedules process `i` -/
def countProc (sched : Schedule) (i : Nat) : Nat := (sched.map (·.1)).count i

theorem holding_tmp {p : Proc} {n : Str} (h : p.holding = some n) :
    p.tmp = some n ∧ 1 ≤ p.pc ∧ p.pc ≤ 3 := by
  unfold Proc.holding at h
  split at h
  · rename_i hc; exact ⟨h, hc⟩
  · cases h

theorem run_total {datas : List Str} {dir0 : Dict Str} (sched : Schedule) :
    ∀ s : Sys, Inv datas dir0 s →
      (∀ x ∈ sched, x.2 ∉ Dict.keys dir0) →
      (∀ x ∈ sched, ∀ (j : Nat) (q : Proc), j ≠ x.1 → s.procs[j]? = some q → q.holding ≠ some x.2) →
      (∀ x ∈ sched, ∀ y ∈ sched, x.2 = y.2 → x.1 = y.1) →
      (∀ i, countProc sched i ≤ todo s i) →
      ∃ s', run s sched = some s' ∧ ∀ i, todo s' i + countProc sched i = todo s i := by
  induction sched with
  | nil => intro s _ _ _ _ _; exact ⟨s, rfl, fun i => by simp [countProc]⟩
  | cons x rest ih =>
    intro s hinv hfresh hpriv hfun hcount
    obtain ⟨i, a⟩ := x
    have hci : ∀ k, countProc ((i, a) :: rest) k = countProc rest k + (if i = k then 1 else 0) := by
      intro k
      simp only [countProc, List.map_cons, List.count_cons, beq_iff_eq]
    have hti : 1 ≤ todo s i := by
      have := hcount i; rw [hci] at this; simp only [if_true] at this; omega
    cases hp : s.procs[i]? with
    | none => simp [todo, hp] at hti
    | some p =>
      have hpc : p.pc < 5 := by simp only [todo, hp] at hti; omega
      have hpick : p.pc = 0 → a ∉ Dict.keys s.tmpdir := by
        intro h0 hmem
        obtain ⟨L, h1, _, _, h4⟩ := hinv.dir
        rw [h1, keys_append, List.mem_append] at hmem
        rcases hmem with hmem | hmem
        · exact hfresh (i, a) (by simp) hmem
        · obtain ⟨c, hc⟩ := (mem_keys_iff L a).1 hmem
          obtain ⟨j, q, hq, hh, _⟩ := (h4 a c).1 hc
          by_cases hj : j = i
          · subst hj; rw [hp] at hq; cases hq
            have := (holding_tmp hh).2.1; omega
          · exact hpriv (i, a) (by simp) j q hj hq hh
      obtain ⟨s1, p', hstep, hprocs, hp', htmp⟩ := step_enabled hinv hp hpc a hpick
      have hget : ∀ (j : Nat) (q : Proc), s1.procs[j]? = some q ↔
          (j = i ∧ q = p') ∨ (j ≠ i ∧ s.procs[j]? = some q) := by
        intro j q; rw [hprocs]; exact getElem?_set_some s.procs i j p' q p hp
      have htodo : ∀ k, todo s1 k + (if i = k then 1 else 0) = todo s k := by
        intro k
        by_cases hk : i = k
        · subst hk
          have : s1.procs[i]? = some p' := (hget i p').2 (Or.inl ⟨rfl, rfl⟩)
          simp only [todo, this, hp, if_true, hp']; omega
        · have : s1.procs[k]? = s.procs[k]? := by
            rw [hprocs, List.getElem?_set, if_neg hk]
          simp only [todo, this, if_neg hk, Nat.add_zero]
      obtain ⟨s', hrun, hres⟩ := ih s1 (step_inv hinv hstep)
        (fun y hy => hfresh y (by simp [hy]))
        (by
          intro y hy j q hj hq hh
          rcases (hget j q).1 hq with ⟨rfl, rfl⟩ | ⟨hji, hq⟩
          · obtain ⟨ht, h1, h3⟩ := holding_tmp hh
            rw [htmp] at ht
            by_cases h0 : p.pc = 0
            · simp only [h0, if_true, Option.some.injEq] at ht
              have := hfun (j, a) (by simp) y (by simp [hy]) ht
              exact hj this
            · simp only [h0, if_false] at ht
              have hold : p.holding = some y.2 := by
                unfold Proc.holding; rw [if_pos ⟨by omega, by omega⟩]; exact ht
              exact hpriv y (by simp [hy]) j p hj hp hold
          · exact hpriv y (by simp [hy]) j q hj hq hh)
        (fun y hy z hz => hfun y (by simp [hy]) z (by simp [hz]))
        (by
          intro k
          have h1 := hcount k; rw [hci] at h1
          have h2 := htodo k
          omega)
      refine ⟨s', by rw [run_cons, hstep]; exact hrun, ?_⟩
      intro k
      have h1 := hres k
      have h2 := htodo k
      rw [hci]; omega


/-! ### Readers -/

/-- every reader has read exactly the prefix before its cursor of the ORIGINAL file -/
structure RInv (file : Str) (n : Nat) (s : RSys) : Prop where
  same : s.file = file
  len : s.readers.length = n
  pre : ∀ r ∈ s.readers, r.pos ≤ file.length ∧ r.buf = file.take r.pos

theorem take_chunk (file : Str) (pos chunk : Nat) (h : pos ≤ file.length) :
    pos + ((file.drop pos).take chunk).length ≤ file.length ∧
    file.take pos ++ (file.drop pos).take chunk =
      file.take (pos + ((file.drop pos).take chunk).length) := by
  constructor
  · simp only [List.length_take, List.length_drop]; omega
  · rw [List.take_add]
    congr 1
    rw [List.take_eq_take_iff]
    simp only [List.length_take, List.length_drop]
    omega

theorem rinit_inv (file : Str) (n : Nat) : RInv file n (rinit file n) := by
  refine ⟨rfl, by simp [rinit], ?_⟩
  intro r hr
  simp only [rinit, List.mem_replicate] at hr
  rw [hr.2]; simp

theorem rstep_inv {file : Str} {n : Nat} {s s' : RSys} (hinv : RInv file n s) {i chunk : Nat}
    (h : rstep s i chunk = some s') : RInv file n s' := by
  unfold rstep at h
  cases hr : s.readers[i]? with
  | none => simp [hr] at h
  | some r =>
    simp only [hr, Option.some.injEq] at h
    subst h
    obtain ⟨h1, h2⟩ := hinv.pre r (List.mem_iff_getElem?.2 ⟨i, hr⟩)
    refine ⟨hinv.same, by simp [hinv.len], ?_⟩
    intro r' hr'
    simp only at hr'
    obtain ⟨j, hj⟩ := List.mem_iff_getElem?.1 hr'
    rw [getElem?_set_some s.readers i j _ r' r hr] at hj
    rcases hj with ⟨_, rfl⟩ | ⟨_, hj⟩
    · simp only [hinv.same, h2]
      exact take_chunk file r.pos chunk h1
    · exact hinv.pre r' (List.mem_iff_getElem?.2 ⟨j, hj⟩)

theorem rrun_inv {file : Str} {n : Nat} {s s' : RSys} (hinv : RInv file n s)
    {sched : List (Nat × Nat)} (h : rrun s sched = some s') : RInv file n s' := by
  induction sched generalizing s with
  | nil => simp only [rrun, Option.some.injEq] at h; subst h; exact hinv
  | cons x rest ih =>
    obtain ⟨i, chunk⟩ := x
    simp only [rrun] at h
    cases hs : rstep s i chunk with
    | none => simp [hs] at h
    | some s1 =>
      simp only [hs] at h
      exact ih (rstep_inv hinv hs) h

theorem rrun_total {file : Str} {n : Nat} (sched : List (Nat × Nat)) :
    ∀ s : RSys, RInv file n s → (∀ x ∈ sched, x.1 < n) → ∃ s', rrun s sched = some s' := by
  induction sched with
  | nil => intro s _ _; exact ⟨s, rfl⟩
  | cons x rest ih =>
    intro s hinv hlt
    obtain ⟨i, chunk⟩ := x
    have hi : i < s.readers.length := by rw [hinv.len]; exact hlt (i, chunk) (by simp)
    have hs : ∃ s1, rstep s i chunk = some s1 := by
      unfold rstep
      rw [List.getElem?_eq_getElem hi]
      exact ⟨_, rfl⟩
    obtain ⟨s1, hs⟩ := hs
    obtain ⟨s', h'⟩ := ih s1 (rstep_inv hinv hs) (fun y hy => hlt y (by simp [hy]))
    exact ⟨s', by simp only [rrun, hs]; exact h'⟩

end GffProofs.C20
