/-
  C03 — helper lemmas, part 3: the second pass of `_update_relations` (insert the derived features; a
  collision goes through `_do_merge(f, 'merge')`).
-/
import GffProofs.Lemmas.C03Aux2

namespace GffProofs.C03
open GffModel GffModel.Create GffModel.Interface
open GffProofs.C04 (autoId incr_spec)
open GffProofs.C02 (insert_fresh)

theorem colText_source (f : Feature) : colText f "source".toList = f.source := by
  unfold colText
  rw [if_neg (by decide), if_pos rfl]

theorem modifyRow_absent (db : Db) (id : Str) (g : Row → Row) (h : ∀ r ∈ db.features, r.id ≠ id) :
    db.modifyRow id g = db := by
  unfold Db.modifyRow
  have : db.features.map (fun x => if x.id = id then g x else x) = db.features := by
    conv => rhs; rw [← List.map_id db.features]
    apply List.map_congr_left
    intro x hx
    simp [h x hx]
  rw [this]

theorem getRow_none_of_absent (db : Db) (id : Str) (h : ∀ r ∈ db.features, r.id ≠ id) : db.getRow? id = none := by
  unfold Db.getRow?
  rw [List.find?_eq_none]
  intro x hx
  simpa using h x hx

theorem hasId_of_getRow {db : Db} {k : Str} {ex : Row} (h : db.getRow? k = some ex) : db.hasId k = true := by
  unfold Db.getRow? at h
  unfold Db.hasId
  rw [List.any_eq_true]
  have h2 := List.find?_some h
  exact ⟨ex, List.mem_of_find?_eq_some h, h2⟩

/-- a derived feature whose id is taken by a row with another `source`: `_do_merge` finds nothing to merge
with, renames the feature `<id>_<n>` and records the pair in `duplicates` -/
theorem doMerge_collide (cfg : Cfg) (db : Db) (auto : Dict Nat) (f : Feature) (k : Str) (ex : Row)
    (hex : db.getRow? k = some ex) (hsrc : ex.source ≠ f.source)
    (hfm : "source".toList ∉ cfg.forceMergeFields)
    (hdups : ∀ on ∈ db.duplicates, on.1 = k → db.getRow? on.2 = none) :
    doMerge cfg db auto f k .merge =
      .ok (some { f with id := some (incr auto k).1 }, .createUnique,
           { db with duplicates := db.duplicates ++ [(k, (incr auto k).1)] }, (incr auto k).2) := by
  have hcand : candidates cfg db k = [ex.toFeature cfg.dialect] := by
    unfold candidates
    have hd : db.duplicates.filterMap (fun (x : Str × Str) =>
        match x with | (orig, new) => if orig = k then db.getRow? new else none) = [] := by
      rw [List.filterMap_eq_nil_iff]
      intro on hon
      obtain ⟨o, n⟩ := on
      simp only
      split
      · rename_i e; exact hdups (o, n) hon e
      · rfl
    simp only [hex, hd, Option.toList_some, List.append_nil, List.map_cons, List.map_nil, List.foldl_cons,
      List.foldl_nil, List.any_nil, Bool.false_eq_true, if_false, List.nil_append]
  have hsrcmem : "source".toList ∈ gffCols.filter (fun k => !cfg.forceMergeFields.contains k) := by
    rw [List.mem_filter]
    refine ⟨by decide, ?_⟩
    simpa using hfm
  have hfilter : ([ex.toFeature cfg.dialect].filter (fun e =>
      (gffCols.filter (fun k => !cfg.forceMergeFields.contains k)).all (fun k => colText e k == colText f k))) = [] := by
    rw [List.filter_eq_nil_iff]
    intro e he
    simp only [List.mem_singleton] at he
    subst he
    rw [Bool.not_eq_true, List.all_eq_false]
    refine ⟨"source".toList, hsrcmem, ?_⟩
    rw [colText_source, colText_source]
    simpa [Row.toFeature] using hsrc
  unfold doMerge
  simp only [hcand, hfilter, List.getLast?_nil]


/-! ### one step of the second pass -/

theorem step2_fresh (cfg : Cfg) (db : Db) (auto : Dict Nat) (f : Feature) (k : Str)
    (hid : idHandler cfg.idSpec auto f = .ok (k, auto)) (hfresh : k ∉ db.features.map (·.id)) :
    step2 cfg (db, auto) f = .ok ({ db with features := db.features ++ [lineRow f k] }, auto) := by
  have hins := insert_fresh db (lineRow f k) hfresh
  simp only [step2, hid, ofFeature_lineRow, hins, bind, Except.bind, pure, Except.pure]

theorem step2_collide (cfg : Cfg) (db : Db) (auto : Dict Nat) (f : Feature) (k : Str) (ex : Row)
    (hid : idHandler cfg.idSpec auto f = .ok (k, auto))
    (hex : db.getRow? k = some ex) (hsrc : ex.source ≠ f.source)
    (hfm : "source".toList ∉ cfg.forceMergeFields)
    (hdups : ∀ on ∈ db.duplicates, on.1 = k → db.getRow? on.2 = none)
    (_hnid : ∀ r ∈ db.features, r.id ≠ (incr auto k).1) :
    step2 cfg (db, auto) f =
      .ok ({ db with duplicates := db.duplicates ++ [(k, (incr auto k).1)] }, (incr auto k).2) := by
  have hins : db.insert (lineRow f k) = .error .integrity :=
    GffProofs.C04.insert_dup_rejected db (lineRow f k) (hasId_of_getRow hex)
  have hm := doMerge_collide cfg db auto { f with id := some k } k ex hex hsrc hfm hdups
  simp only [step2, hid, ofFeature_lineRow, hins, hm, bind, Except.bind, pure, Except.pure]

/-! ### the whole second pass -/

/-- the table during the second pass: the populated table plus new rows; only `duplicates` changes besides -/
def st2 (db0 : Db) (N : List Row) (dups : List (Str × Str)) : Db :=
  { db0 with features := db0.features ++ N, duplicates := dups }

theorem getRow_st2_of_mem (db0 : Db) (N : List Row) (dups : List (Str × Str)) (k : Str) (ex : Row)
    (h : db0.getRow? k = some ex) : (st2 db0 N dups).getRow? k = some ex := by
  unfold Db.getRow? st2 at *
  simp only [List.find?_append, h, Option.some_or]

/-- `U`: every id that can occur.  `ds`: the derived features with their ids. -/
theorem foldlM_step2 (cfg : Cfg) (db0 : Db) (U : List Str) (ds : List (Str × Feature)) :
    (∀ kf ∈ ds, ∀ auto, idHandler cfg.idSpec auto kf.2 = .ok (kf.1, auto)) →
    (ds.map (·.1)).Nodup →
    (∀ r ∈ db0.features, r.id ∈ U) → (∀ kf ∈ ds, kf.1 ∈ U) →
    (∀ kf ∈ ds, ∀ ex, db0.getRow? kf.1 = some ex →
      ex.source ≠ kf.2.source ∧ "source".toList ∉ cfg.forceMergeFields ∧ ∀ n, autoId kf.1 n ∉ U) →
    ∀ (N : List Row) (dups : List (Str × Str)) (auto : Dict Nat),
      (∀ r ∈ N, r.id ∈ U ∧ r.id ∉ ds.map (·.1)) → (∀ on ∈ dups, on.2 ∉ U) →
      ∃ dups' auto', (ds.map (·.2)).foldlM (step2 cfg) (st2 db0 N dups, auto) =
        .ok (st2 db0 (N ++ (ds.filter (fun kf => !(db0.features.map (·.id)).contains kf.1)).map
                (fun kf => lineRow kf.2 kf.1)) dups', auto') := by
  induction ds with
  | nil =>
    intro _ _ _ _ _ N dups auto _ _
    exact ⟨dups, auto, by simp [pure, Except.pure]⟩
  | cons kf ds ih =>
    intro hid hnd hU0 hUd hcoll N dups auto hN hdups
    obtain ⟨k, f⟩ := kf
    simp only [List.map_cons, List.nodup_cons] at hnd
    have hidk := hid (k, f) (by simp) auto
    simp only at hidk
    have ih' := ih (fun kf hkf => hid kf (by simp [hkf])) hnd.2 hU0 (fun kf hkf => hUd kf (by simp [hkf]))
      (fun kf hkf => hcoll kf (by simp [hkf]))
    have hallU : ∀ r ∈ (st2 db0 N dups).features, r.id ∈ U := by
      intro r hr
      simp only [st2, List.mem_append] at hr
      rcases hr with hr | hr
      · exact hU0 r hr
      · exact (hN r hr).1
    by_cases hk0 : k ∈ db0.features.map (·.id)
    · -- collision with a row of the populated table
      obtain ⟨ex, hexm, hexid⟩ := List.mem_map.mp hk0
      have hsome : ∃ ex, db0.getRow? k = some ex := by
        cases hgr : db0.getRow? k with
        | some ex => exact ⟨ex, rfl⟩
        | none =>
          unfold Db.getRow? at hgr
          rw [List.find?_eq_none] at hgr
          exact absurd (by simpa using hexid) (hgr ex hexm)
      obtain ⟨ex, hex⟩ := hsome
      obtain ⟨hsrc, hfm, hnU⟩ := hcoll (k, f) (by simp) ex hex
      have hstep := step2_collide cfg (st2 db0 N dups) auto f k ex hidk (getRow_st2_of_mem db0 N dups k ex hex) hsrc hfm
        (by
          intro on hon _
          apply getRow_none_of_absent
          intro r hr e
          exact hdups on hon (e ▸ hallU r hr))
        (by
          intro r hr e
          rw [incr_spec] at e
          exact hnU _ (e ▸ hallU r hr))
      obtain ⟨dups', auto', hfold⟩ := ih' N (dups ++ [(k, (incr auto k).1)]) (incr auto k).2
        (fun r hr => ⟨(hN r hr).1, fun hin => (hN r hr).2 (by simp [hin])⟩)
        (by
          intro on hon
          rcases List.mem_append.mp hon with hon | hon
          · exact hdups on hon
          · simp only [List.mem_singleton] at hon
            subst hon
            rw [incr_spec]
            exact hnU _)
      refine ⟨dups', auto', ?_⟩
      simp only [List.map_cons, List.foldlM_cons, hstep, bind, Except.bind]
      have hflt : (List.filter (fun kf => !(db0.features.map (·.id)).contains kf.1) ((k, f) :: ds)) =
          List.filter (fun kf => !(db0.features.map (·.id)).contains kf.1) ds := by
        have hc : (db0.features.map (·.id)).contains k = true := by
          rw [List.contains_iff_mem]; exact hk0
        rw [List.filter_cons]
        simp only [hc, Bool.not_true, Bool.false_eq_true, if_false]
      rw [hflt]
      exact hfold
    · -- a new id
      have hfresh : k ∉ (st2 db0 N dups).features.map (·.id) := by
        intro hin
        obtain ⟨r, hr, hre⟩ := List.mem_map.mp hin
        simp only [st2, List.mem_append] at hr
        rcases hr with hr | hr
        · exact hk0 (List.mem_map.mpr ⟨r, hr, hre⟩)
        · exact (hN r hr).2 (by simp [hre])
      have hstep := step2_fresh cfg (st2 db0 N dups) auto f k hidk hfresh
      obtain ⟨dups', auto', hfold⟩ := ih' (N ++ [lineRow f k]) dups auto
        (by
          intro r hr
          rcases List.mem_append.mp hr with hr | hr
          · exact ⟨(hN r hr).1, fun hin => (hN r hr).2 (by simp [hin])⟩
          · simp only [List.mem_singleton] at hr
            subst hr
            exact ⟨hUd (k, f) (by simp), hnd.1⟩)
        hdups
      refine ⟨dups', auto', ?_⟩
      simp only [List.map_cons, List.foldlM_cons, hstep, bind, Except.bind]
      have hflt : (List.filter (fun kf => !(db0.features.map (·.id)).contains kf.1) ((k, f) :: ds)) =
          (k, f) :: List.filter (fun kf => !(db0.features.map (·.id)).contains kf.1) ds := by
        have hc : (db0.features.map (·.id)).contains k = false := by
          rw [← Bool.not_eq_true, List.contains_iff_mem]; exact hk0
        rw [List.filter_cons]
        simp only [hc, Bool.not_false, if_true]
      rw [hflt]
      have hst : ({ st2 db0 N dups with features := (st2 db0 N dups).features ++ [lineRow f k] } : Db) =
          st2 db0 (N ++ [lineRow f k]) dups := by
        simp [st2, List.append_assoc]
      rw [hst]
      simpa [List.append_assoc] using hfold

end GffProofs.C03
