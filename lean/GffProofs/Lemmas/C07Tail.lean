/-
  Evaluation of `tailStage` once the key/value style is known; the loop over all items.
-/
import GffProofs.Lemmas.C07Front

namespace GffProofs.C07
open GffModel GffModel.Parser GffModel.Grammar

theorem tailStage_eq_style (p : Str) (ps : List Str) (d : Dialect) (ie : Bool)
    (h : matchesKw p = true) (pairs : List (Str × Str))
    (hkv : (p :: ps).map (Str.split ['=']) = pairs.map gItem) :
    tailStage (p :: ps) d ie =
      .ok (finishStage (pairs.foldl stepPure ([], eqD d)).1 (pairs.foldl stepPure ([], eqD d)).2 ie) := by
  unfold tailStage
  simp only [pure, Except.pure, bind, Except.bind, h, if_true]
  rw [hkv, foldlM_stepO pairs gItem (fun kv _ sep => keyVal_gItem kv sep)]

theorem tailStage_space_style (p : Str) (ps : List Str) (d : Dialect) (ie : Bool)
    (h : matchesKw p = false) (pairs : List (Str × Str))
    (hkv : (spacePieces (p :: ps)).mapM headRest = .ok (pairs.map (fun kv => [kv.1, kv.2]))) :
    tailStage (p :: ps) d ie =
      .ok (finishStage (pairs.foldl stepPure ([], spaceD (p :: ps) d)).1
        (pairs.foldl stepPure ([], spaceD (p :: ps) d)).2 ie) := by
  unfold tailStage
  simp only [pure, Except.pure, bind, Except.bind, h, Bool.false_eq_true, if_false]
  rw [hkv]
  simp only []
  rw [foldlM_stepO pairs (fun kv => [kv.1, kv.2]) (fun kv _ sep => keyVal_pair kv sep)]

/-! ### the loop over all items -/

theorem dAfter_rep (s : LineSpec) (d : Dialect) (it : AttrItem)
    (h : s.repeated = false → d.repeatedKeys = false) :
    s.repeated = false → (dAfter s d it).repeatedKeys = false := by
  intro hs; simp [dAfter, h hs, hs]

theorem attrs_fold (s : LineSpec) (items : List AttrItem) (ok : ∀ it ∈ items, ItemOk s it)
    (hn : (items.map (·.key)).Nodup) (quals : Attrs) (d : Dialect)
    (hq : ∀ it ∈ items, ∀ p ∈ quals, p.1 ≠ it.key)
    (hrep : s.repeated = false → d.repeatedKeys = false) :
    (items.flatMap (itemPairs s)).foldl stepPure (quals, d) =
      (quals ++ items.map (fun it => (it.key, it.vals.map s.encVal)), items.foldl (dAfter s) d) := by
  induction items generalizing quals d with
  | nil => simp
  | cons it rest ih =>
    simp only [List.map_cons, List.nodup_cons] at hn
    simp only [List.flatMap_cons, List.foldl_append, List.map_cons, List.foldl_cons]
    rw [item_fold s it (ok it (by simp)) quals d (hq it (by simp)) hrep]
    rw [ih (fun it' h => ok it' (by simp [h])) hn.2 _ _ ?_ (dAfter_rep s d it hrep)]
    · simp
    · intro it' hit' p hp
      rcases List.mem_append.mp hp with hp | hp
      · exact hq it' (by simp [hit']) p hp
      · simp only [List.mem_cons, List.not_mem_nil, or_false] at hp
        subst hp
        intro e
        exact hn.1 (List.mem_map.mpr ⟨it', hit', e.symm⟩)

theorem foldl_dAfter (s : LineSpec) (items : List AttrItem) (d : Dialect) :
    items.foldl (dAfter s) d =
      { d with
        repeatedKeys := d.repeatedKeys || (s.repeated && items.any (fun it => decide (it.vals.length > 1))),
        quoted := d.quoted || items.any (fun it => if it.vals.isEmpty then decide (s.fmt = gtf) else s.quoted),
        order := d.order ++ items.flatMap (blockKeys s) } := by
  induction items generalizing d with
  | nil => obtain ⟨ls, ts, q, fs, kv, ms, fmt, rk, ord⟩ := d; simp
  | cons it rest ih =>
    rw [List.foldl_cons, ih]
    obtain ⟨ls, ts, q, fs, kv, ms, fmt, rk, ord⟩ := d
    simp only [dAfter, List.any_cons, List.flatMap_cons, List.append_assoc, Bool.or_assoc, Bool.and_or_distrib_left]

end GffProofs.C07
