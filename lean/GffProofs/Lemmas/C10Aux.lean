/-
  Helper lemmas for C10 / C19: the insertion-ordered dict, the counter order, rendering of
  auto-increment keys, `delete` as a filter, and "only the relations column changes" facts.
-/
import GffModel.World
import GffProofs.Props.C04
import GffProofs.Lemmas.C02Db
import Std.Data.String.ToNat

namespace GffProofs.C10
open GffModel GffModel.Create GffModel.Interface
open GffProofs.C04 (Dict.get?_set_self Dict.get?_set_ne autoId incr_spec)

/-! ### `Dict` -/

section dict
variable {α : Type}

theorem keys_set (d : Dict α) (k : Str) (v : α) :
    Dict.keys (Dict.set d k v) = if k ∈ Dict.keys d then Dict.keys d else Dict.keys d ++ [k] := by
  induction d with
  | nil => simp [Dict.set, Dict.keys]
  | cons p rest ih =>
    obtain ⟨k', v'⟩ := p
    by_cases h : k' = k
    · subst h; simp [Dict.set, Dict.keys]
    · have h' : ¬ k = k' := fun e => h e.symm
      simp only [Dict.keys] at ih
      simp only [Dict.set, h, if_false, Dict.keys, List.map_cons, List.mem_cons, h', false_or, ih]
      split <;> rename_i hm <;> simp [hm]

theorem keys_set_nodup (d : Dict α) (k : Str) (v : α) (h : (Dict.keys d).Nodup) :
    (Dict.keys (Dict.set d k v)).Nodup := by
  rw [keys_set]
  split
  · exact h
  · rename_i hk
    rw [List.nodup_append]
    refine ⟨h, by simp, ?_⟩
    intro a ha b hb
    simp only [List.mem_singleton] at hb
    subst hb
    intro e; subst e; exact hk ha

theorem mem_keys_set (d : Dict α) (k k' : Str) (v : α) :
    k' ∈ Dict.keys (Dict.set d k v) ↔ k' ∈ Dict.keys d ∨ k' = k := by
  rw [keys_set]
  split
  · rename_i h
    constructor
    · exact Or.inl
    · rintro (h' | rfl)
      · exact h'
      · exact h
  · simp

theorem get?_eq_none_iff (d : Dict α) (k : Str) : Dict.get? d k = none ↔ k ∉ Dict.keys d := by
  induction d with
  | nil => simp [Dict.get?, Dict.keys]
  | cons p rest ih =>
    obtain ⟨k', v'⟩ := p
    simp only [Dict.keys] at ih
    by_cases h : k' = k
    · subst h; simp [Dict.get?, Dict.keys]
    · have h' : ¬ k = k' := fun e => h e.symm
      simp [Dict.get?, Dict.keys, h, h', ih]

theorem get?_isSome_iff (d : Dict α) (k : Str) : (Dict.get? d k).isSome ↔ k ∈ Dict.keys d := by
  cases hg : Dict.get? d k with
  | none => simp [(get?_eq_none_iff d k).mp hg]
  | some v =>
    simp only [Option.isSome_some, true_iff]
    apply Classical.byContradiction
    intro hn
    rw [(get?_eq_none_iff d k).mpr hn] at hg
    cases hg

/-- the fold of `INSERT OR REPLACE` used by `_finalize` -/
def setAll (a d : Dict α) : Dict α := a.foldl (fun acc (p : Str × α) => Dict.set acc p.1 p.2) d

theorem setAll_keys_nodup (a d : Dict α) (h : (Dict.keys d).Nodup) : (Dict.keys (setAll a d)).Nodup := by
  unfold setAll
  induction a generalizing d with
  | nil => exact h
  | cons p rest ih => simp only [List.foldl_cons]; exact ih _ (keys_set_nodup _ _ _ h)

theorem get?_setAll_not_mem (a d : Dict α) (k : Str) (h : k ∉ Dict.keys a) :
    Dict.get? (setAll a d) k = Dict.get? d k := by
  unfold setAll
  induction a generalizing d with
  | nil => rfl
  | cons p rest ih =>
    obtain ⟨k0, v0⟩ := p
    simp only [Dict.keys, List.map_cons, List.mem_cons, not_or] at h
    simp only [List.foldl_cons]
    rw [ih _ h.2, Dict.get?_set_ne _ _ _ _ h.1]

theorem get?_setAll_mem (a d : Dict α) (k : Str) (v : α) (hnd : (Dict.keys a).Nodup)
    (h : Dict.get? a k = some v) : Dict.get? (setAll a d) k = some v := by
  induction a generalizing d with
  | nil => cases h
  | cons p rest ih =>
    obtain ⟨k0, v0⟩ := p
    simp only [Dict.keys, List.map_cons, List.nodup_cons] at hnd
    by_cases hk : k0 = k
    · subst hk
      simp only [Dict.get?, if_true, Option.some.injEq] at h
      subst h
      have := get?_setAll_not_mem rest (Dict.set d k0 v0) k0 hnd.1
      unfold setAll at this ⊢
      simp only [List.foldl_cons]
      rw [this, Dict.get?_set_self]
    · simp only [Dict.get?, hk, if_false] at h
      have := ih (Dict.set d k0 v0) hnd.2 h
      unfold setAll at this ⊢
      simp only [List.foldl_cons]
      exact this

end dict

/-! ### the counter order -/

/-- every counter of `a` is still present in `b`, with a value at least as large -/
def CountersLe (a b : Dict Nat) : Prop :=
  ∀ k n, Dict.get? a k = some n → ∃ m, n ≤ m ∧ Dict.get? b k = some m

theorem CountersLe.refl (a : Dict Nat) : CountersLe a a := fun _ n h => ⟨n, Nat.le_refl n, h⟩

theorem CountersLe.trans {a b c : Dict Nat} (h1 : CountersLe a b) (h2 : CountersLe b c) : CountersLe a c := by
  intro k n h
  obtain ⟨m, hm, hb⟩ := h1 k n h
  obtain ⟨l, hl, hc⟩ := h2 k m hb
  exact ⟨l, Nat.le_trans hm hl, hc⟩

theorem CountersLe.getD {a b : Dict Nat} (h : CountersLe a b) (k : Str) :
    (Dict.get? a k).getD 0 ≤ (Dict.get? b k).getD 0 := by
  cases ha : Dict.get? a k with
  | none => simp
  | some n =>
    obtain ⟨m, hm, hb⟩ := h k n ha
    simp [hb, hm]

theorem CountersLe.keys {a b : Dict Nat} (h : CountersLe a b) (k : Str) (hk : k ∈ Dict.keys a) :
    k ∈ Dict.keys b := by
  rw [← get?_isSome_iff] at hk ⊢
  cases ha : Dict.get? a k with
  | none => rw [ha] at hk; cases hk
  | some n =>
    obtain ⟨m, _, hb⟩ := h k n ha
    simp [hb]

/-- the order together with "no key is listed twice" (a model artefact: a `Dict` is a list) -/
structure Ext (a b : Dict Nat) : Prop where
  le : CountersLe a b
  nodup : (Dict.keys a).Nodup → (Dict.keys b).Nodup

theorem Ext.refl (a : Dict Nat) : Ext a a := ⟨CountersLe.refl a, id⟩

theorem Ext.trans {a b c : Dict Nat} (h1 : Ext a b) (h2 : Ext b c) : Ext a c :=
  ⟨h1.le.trans h2.le, fun h => h2.nodup (h1.nodup h)⟩

theorem incr_snd_get? (auto : Dict Nat) (k : Str) :
    Dict.get? (incr auto k).2 k = some ((Dict.get? auto k).getD 0 + 1) := by
  rw [incr_spec]; exact Dict.get?_set_self _ _ _

theorem incr_ext (auto : Dict Nat) (k : Str) : Ext auto (incr auto k).2 := by
  rw [incr_spec]
  refine ⟨?_, keys_set_nodup _ _ _⟩
  intro k' n h
  by_cases hk : k' = k
  · subst hk
    refine ⟨_, ?_, Dict.get?_set_self _ _ _⟩
    rw [h]; simp
  · exact ⟨n, Nat.le_refl n, by rw [Dict.get?_set_ne _ _ _ _ hk]; exact h⟩

/-! ### rendering of auto-increment keys -/

theorem natToStr_eq (n : Nat) : Str.natToStr n = Nat.toDigits 10 n := by
  unfold Str.natToStr
  show (Nat.repr n).toList = _
  exact Nat.toList_repr

/-- decimal rendering is injective -/
theorem natToStr_injective {m n : Nat} (h : Str.natToStr m = Str.natToStr n) : m = n := by
  unfold Str.natToStr at h
  have h' : (Nat.repr m).toList = (Nat.repr n).toList := h
  exact Nat.repr_injective (String.toList_inj.mp h')

theorem underscore_not_mem_natToStr (n : Nat) : '_' ∉ Str.natToStr n := by
  rw [natToStr_eq]; exact Nat.underscore_not_in_toDigits

/-- splitting at the LAST underscore: `k ++ "_" ++ ds` determines `k` and `ds` when `ds` has none -/
theorem append_underscore_inj (k k' ds ds' : Str) (h1 : '_' ∉ ds) (h2 : '_' ∉ ds')
    (h : k ++ '_' :: ds = k' ++ '_' :: ds') : k = k' ∧ ds = ds' := by
  rcases List.append_eq_append_iff.mp h with ⟨a, rfl, ha⟩ | ⟨a, rfl, ha⟩
  · cases a with
    | nil =>
      simp only [List.nil_append, List.cons.injEq, true_and] at ha
      exact ⟨by simp, ha⟩
    | cons c cs =>
      simp only [List.cons_append, List.cons.injEq] at ha
      exfalso; apply h1; rw [ha.2]; simp
  · cases a with
    | nil =>
      simp only [List.nil_append, List.cons.injEq, true_and] at ha
      exact ⟨by simp, ha.symm⟩
    | cons c cs =>
      simp only [List.cons_append, List.cons.injEq] at ha
      exfalso; apply h2; rw [ha.2]; simp

/-- `'<base>_<n>'` determines both the base and the number -/
theorem autoId_inj (k k' : Str) (n n' : Nat) : autoId k n = autoId k' n' ↔ k = k' ∧ n = n' := by
  constructor
  · intro h
    unfold autoId at h
    simp only [List.append_assoc, List.cons_append, List.nil_append] at h
    obtain ⟨hk, hd⟩ := append_underscore_inj _ _ _ _ (underscore_not_mem_natToStr n)
      (underscore_not_mem_natToStr n') h
    exact ⟨hk, natToStr_injective hd⟩
  · rintro ⟨rfl, rfl⟩; rfl

/-! ### `delete` -/

theorem foldl_deleteId (ids : List Str) (db : Db) :
    ids.foldl (fun db id => db.deleteId id) db =
      { db with features := db.features.filter (fun r => !ids.contains r.id),
                relations := db.relations.filter (fun r => !ids.contains r.parent && !ids.contains r.child) } := by
  induction ids generalizing db with
  | nil =>
    have e : ∀ {β : Type} (l : List β), l.filter (fun _ => true) = l :=
      fun l => List.filter_eq_self.mpr (fun _ _ => rfl)
    simp [e]
  | cons id ids ih =>
    simp only [List.foldl_cons]
    rw [ih]
    simp only [Db.deleteId, List.filter_filter]
    congr 1
    · apply List.filter_congr
      intro r _
      by_cases h : r.id = id <;> simp [h]
    · apply List.filter_congr
      intro r _
      by_cases h1 : r.parent = id <;> by_cases h2 : r.child = id <;> simp [h1, h2]

/-! ### "only the relations column changes" -/

/-- `db'` differs from `db` at most in `relations`, which it extends at the end -/
structure RelExt (db db' : Db) : Prop where
  eq : db' = { db with relations := db'.relations }
  pre : db.relations <+: db'.relations

theorem RelExt.refl (db : Db) : RelExt db db := ⟨rfl, List.prefix_refl _⟩

theorem RelExt.trans {a b c : Db} (h1 : RelExt a b) (h2 : RelExt b c) : RelExt a c := by
  refine ⟨?_, h1.pre.trans h2.pre⟩
  have e1 := h1.eq
  have e2 := h2.eq
  rw [e2]
  simp only
  rw [e1]

theorem insertRelIgnore_relExt (db : Db) (r : Rel) : RelExt db (db.insertRelIgnore r) := by
  unfold Db.insertRelIgnore
  split
  · exact RelExt.refl db
  · exact ⟨rfl, List.prefix_append _ _⟩

theorem foldl_insertRel_relExt {α : Type} (g : α → Rel) (l : List α) (db : Db) :
    RelExt db (l.foldl (fun db a => db.insertRelIgnore (g a)) db) := by
  induction l generalizing db with
  | nil => exact RelExt.refl db
  | cons a l ih => simp only [List.foldl_cons]; exact (insertRelIgnore_relExt db _).trans (ih _)

theorem foldl2_insertRel_relExt {α β : Type} (G : α → List β) (g : α → β → Rel) (l : List α) (db : Db) :
    RelExt db (l.foldl (fun acc x => (G x).foldl (fun acc b => acc.insertRelIgnore (g x b)) acc) db) := by
  induction l generalizing db with
  | nil => exact RelExt.refl db
  | cons a l ih => simp only [List.foldl_cons]; exact (foldl_insertRel_relExt _ _ _).trans (ih _)

theorem updateRelationsGff_relExt (db : Db) : RelExt db (updateRelationsGff db) := by
  unfold updateRelationsGff
  exact foldl2_insertRel_relExt _ (fun (parent : Row) g => (⟨parent.id, g, 2⟩ : Rel)) _ _

end GffProofs.C10
