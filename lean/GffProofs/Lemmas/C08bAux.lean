/-
  Helper lemmas for C08 (part b): `Except` plumbing, `join`/`split`/`strip` facts, `Dict` facts and the
  character set of `Quote.quoteStr`.
-/
import GffModel.Parser
import GffProofs.Lemmas.SplitJoin

namespace GffProofs.C08bAux
open GffModel GffModel.Str GffModel.Parser

/-! ### `Except` plumbing -/

theorem mapM_map_ok {α β γ : Type} (g : γ → Py β) (h : α → γ) (f : α → β) (l : List α)
    (hg : ∀ x ∈ l, g (h x) = .ok (f x)) : (l.map h).mapM g = .ok (l.map f) := by
  induction l with
  | nil => rfl
  | cons a l ih =>
    have h1 := hg a (by simp)
    have h2 := ih (fun x hx => hg x (by simp [hx]))
    simp only [List.map_cons, List.mapM_cons, h1, h2, bind, Except.bind, pure, Except.pure]

theorem foldlM_map_ok {α β γ : Type} (g : β → γ → Py β) (h : α → γ) (f : β → α → β) (l : List α)
    (acc : β) (hg : ∀ acc, ∀ x ∈ l, g acc (h x) = .ok (f acc x)) :
    (l.map h).foldlM g acc = .ok (l.foldl f acc) := by
  induction l generalizing acc with
  | nil => rfl
  | cons a l ih =>
    have h1 := hg acc a (by simp)
    have h2 := ih (f acc a) (fun acc x hx => hg acc x (by simp [hx]))
    simp only [List.map_cons, List.foldlM_cons, h1, bind, Except.bind, List.foldl_cons, h2]

theorem zipIdx_mapM_map_ok {α β γ : Type} (G : γ × Nat → Py β) (h : α → γ) (f : α → β) (l : List α)
    (n : Nat) (hg : ∀ x ∈ l, ∀ i, G (h x, i) = .ok (f x)) :
    ((l.map h).zipIdx n).mapM G = .ok (l.map f) := by
  induction l generalizing n with
  | nil => rfl
  | cons a l ih =>
    have h1 := hg a (by simp) n
    have h2 := ih (n + 1) (fun x hx i => hg x (by simp [hx]) i)
    simp only [List.map_cons, List.zipIdx_cons, List.mapM_cons, h1, h2, bind, Except.bind, pure,
      Except.pure]

theorem pySplit_ok (sep s : Str) (h : sep ≠ []) : pySplit sep s = .ok (split sep s) := by
  cases sep with
  | nil => exact absurd rfl h
  | cons a b => rfl

/-! ### `join` -/

theorem join_cons_ne (sep p : Str) (l : List Str) (h : l ≠ []) :
    join sep (p :: l) = p ++ sep ++ join sep l := by
  cases l with
  | nil => exact absurd rfl h
  | cons q r => rfl

theorem mem_join (sep : Str) (parts : List Str) (c : Char) (h : c ∈ join sep parts) :
    c ∈ sep ∨ ∃ p ∈ parts, c ∈ p := by
  induction parts with
  | nil => simp [join] at h
  | cons p l ih =>
    cases l with
    | nil => right; exact ⟨p, by simp, by simpa [join] using h⟩
    | cons q r =>
      rw [join_cons_ne _ _ _ (by simp)] at h
      simp only [List.mem_append] at h
      rcases h with (h | h) | h
      · right; exact ⟨p, by simp, h⟩
      · left; exact h
      · rcases ih h with h | ⟨p', hp', hc⟩
        · left; exact h
        · right; exact ⟨p', by simp [hp'], hc⟩

theorem join_ne_nil (sep p : Str) (l : List Str) (h : p ≠ []) : join sep (p :: l) ≠ [] := by
  cases l with
  | nil => simpa [join] using h
  | cons q r => rw [join_cons_ne _ _ _ (by simp)]; simp [h]

theorem join_last (sep : Str) (parts : List Str) (hne : parts ≠ []) :
    ∃ u, join sep parts = u ++ parts.getLast hne := by
  induction parts with
  | nil => exact absurd rfl hne
  | cons p l ih =>
    cases l with
    | nil => exact ⟨[], by simp [join]⟩
    | cons q r =>
      obtain ⟨u, hu⟩ := ih (by simp)
      refine ⟨p ++ sep ++ u, ?_⟩
      rw [join_cons_ne _ _ _ (by simp), hu]
      simp

/-! ### single-character `split` -/

theorem splitAux_ne_nil (sep s acc : Str) : splitAux sep s acc ≠ [] := by
  induction s using List.rec generalizing acc with
  | nil => simp [splitAux_nil]
  | cons c cs ih =>
    rw [splitAux_cons]
    split
    · simp
    · exact ih _

theorem join_splitAux_char (c : Char) (t acc : Str) :
    join [c] (splitAux [c] t acc) = acc.reverse ++ t := by
  induction t generalizing acc with
  | nil => simp [splitAux_nil, join]
  | cons x xs ih =>
    rw [splitAux_cons]
    by_cases hx : x = c
    · subst hx
      have : ([x].isPrefixOf (x :: xs) = true ∧ [x] ≠ []) := by simp
      rw [if_pos this, join_cons_ne _ _ _ (splitAux_ne_nil _ _ _)]
      simp only [List.length_cons, List.length_nil, List.drop_succ_cons, List.drop_zero]
      rw [ih]; simp
    · have : ¬ ([c].isPrefixOf (x :: xs) = true ∧ [c] ≠ []) := by
        simp [List.isPrefixOf, Ne.symm hx]
      rw [if_neg this, ih]; simp

theorem join_split_char (c : Char) (t : Str) : join [c] (split [c] t) = t := by
  unfold split; rw [join_splitAux_char]; simp

theorem split_char_cons (c : Char) (k t : Str) (hk : c ∉ k) :
    split [c] (k ++ c :: t) = k :: split [c] t := by
  unfold split
  have := splitAux_part_sep [] [] c (by simp) k t [] hk
  simpa using this

theorem split_char_none (c : Char) (t : Str) (h : c ∉ t) : split [c] t = [t] := by
  unfold split
  have := splitAux_last [] [] c t [] h
  simpa using this

/-! ### `strip` -/

theorem lstrip_id (s : Str) (h : ∀ c, s.head? = some c → isPySpace c = false) : lstrip s = s := by
  cases s with
  | nil => rfl
  | cons c cs => simp [lstrip, List.dropWhile, h c rfl]

theorem strip_id (s : Str) (h1 : ∀ c, s.head? = some c → isPySpace c = false)
    (h2 : ∀ c, s.getLast? = some c → isPySpace c = false) : strip s = s := by
  unfold strip
  rw [lstrip_id s h1]
  unfold rstrip
  rw [lstrip_id, List.reverse_reverse]
  intro c hc
  apply h2
  simpa using hc

theorem rstrip_semicolon (body : Str) (x : Char) (hx : x ≠ ';') :
    rstripChars [';'] (body ++ [x] ++ [';']) = body ++ [x] := by
  simp [rstripChars, lstripChars, List.dropWhile, hx]

theorem rstrip_join (sep : Str) (parts : List Str) (hne : parts ≠ [])
    (h : ∀ p ∈ parts, p ≠ [] ∧ ';' ∉ p) :
    rstripChars [';'] (join sep parts ++ [';']) = join sep parts := by
  obtain ⟨u, hu⟩ := join_last sep parts hne
  have hl := h _ (List.getLast_mem hne)
  have hx : (parts.getLast hne).getLast hl.1 ≠ ';' := by
    intro he; apply hl.2; rw [← he]; exact List.getLast_mem _
  have := rstrip_semicolon (u ++ (parts.getLast hne).dropLast) _ hx
  rw [List.append_assoc u, List.dropLast_concat_getLast] at this
  rw [hu]; exact this

/-! ### `Dict` -/

theorem get?_none_of_not_mem {α : Type} (d : Dict α) (k : Str) (h : k ∉ d.map (·.1)) :
    Dict.get? d k = none := by
  induction d with
  | nil => rfl
  | cons p r ih =>
    obtain ⟨k', v⟩ := p
    simp only [List.map_cons, List.mem_cons, not_or] at h
    simp only [Dict.get?, if_neg (Ne.symm h.1)]
    exact ih h.2

theorem set_of_not_mem {α : Type} (d : Dict α) (k : Str) (v : α) (h : k ∉ d.map (·.1)) :
    Dict.set d k v = d ++ [(k, v)] := by
  induction d with
  | nil => rfl
  | cons p r ih =>
    obtain ⟨k', v'⟩ := p
    simp only [List.map_cons, List.mem_cons, not_or] at h
    simp only [Dict.set, if_neg (Ne.symm h.1), ih h.2, List.cons_append]

theorem get?_append_last {α : Type} (d : Dict α) (k : Str) (v : α) (h : k ∉ d.map (·.1)) :
    Dict.get? (d ++ [(k, v)]) k = some v := by
  induction d with
  | nil => simp [Dict.get?]
  | cons p r ih =>
    obtain ⟨k', v'⟩ := p
    simp only [List.map_cons, List.mem_cons, not_or] at h
    simp only [List.cons_append, Dict.get?, if_neg (Ne.symm h.1)]
    exact ih h.2

theorem set_append_last {α : Type} (d : Dict α) (k : Str) (v w : α) (h : k ∉ d.map (·.1)) :
    Dict.set (d ++ [(k, v)]) k w = d ++ [(k, w)] := by
  induction d with
  | nil => simp [Dict.set]
  | cons p r ih =>
    obtain ⟨k', v'⟩ := p
    simp only [List.map_cons, List.mem_cons, not_or] at h
    simp only [List.cons_append, Dict.set, if_neg (Ne.symm h.1), ih h.2]

theorem mem_set {α : Type} (d : Dict α) (k : Str) (v : α) (p : Str × α) (h : p ∈ Dict.set d k v) :
    p ∈ d ∨ p = (k, v) := by
  induction d with
  | nil => right; simpa [Dict.set] using h
  | cons q r ih =>
    obtain ⟨k', v'⟩ := q
    simp only [Dict.set] at h
    split at h
    · simp only [List.mem_cons] at h
      rcases h with h | h
      · right; exact h
      · left; simp [h]
    · simp only [List.mem_cons] at h
      rcases h with h | h
      · left; simp [h]
      · rcases ih h with h | h
        · left; simp [h]
        · right; exact h

theorem mem_ofList {α : Type} (l : List (Str × α)) (p : Str × α) (h : p ∈ Dict.ofList l) : p ∈ l := by
  unfold Dict.ofList at h
  have gen : ∀ (l : List (Str × α)) (acc : Dict α),
      p ∈ l.foldl (fun d p => Dict.set d p.1 p.2) acc → p ∈ acc ∨ p ∈ l := by
    intro l
    induction l with
    | nil => intro acc h; left; exact h
    | cons q r ih =>
      intro acc h
      rw [List.foldl_cons] at h
      rcases ih _ h with h | h
      · rcases mem_set _ _ _ _ h with h | h
        · left; exact h
        · right; rw [h]; simp
      · right; simp [h]
  rcases gen l [] h with h | h
  · simp at h
  · exact h

theorem ofList_nodup {α : Type} (l : List (Str × α)) (h : (l.map (·.1)).Nodup) : Dict.ofList l = l := by
  unfold Dict.ofList
  have gen : ∀ (l : List (Str × α)) (acc : Dict α), ((acc ++ l).map (·.1)).Nodup →
      l.foldl (fun d p => Dict.set d p.1 p.2) acc = acc ++ l := by
    intro l
    induction l with
    | nil => intro acc _; simp
    | cons q r ih =>
      intro acc h
      rw [List.foldl_cons]
      have hq : q.1 ∉ acc.map (·.1) := by
        simp only [List.map_append, List.map_cons, List.nodup_append, List.mem_cons] at h
        intro hmem
        exact h.2.2 _ hmem q.1 (Or.inl rfl) rfl
      rw [set_of_not_mem _ _ _ hq, ih]
      · simp
      · simpa using h
  simpa using gen l [] (by simpa using h)

/-! ### the character set of `quoteStr` -/

/-- the characters that must not survive encoding -/
def bad (c : Char) : Bool :=
  c == ';' || c == '=' || c == ',' || c == '\t' || c == '\n' || c == '\r'

theorem toQuote_of_bad (c : Char) (h : bad c = true) : Quote.toQuote c = true := by
  simp only [bad, Bool.or_eq_true, beq_iff_eq] at h
  rcases h with ((((h | h) | h) | h) | h) | h <;> subst h <;> decide

theorem hexU_not_bad : ∀ n, n < 16 → bad (Quote.hexU n) = false := by decide

theorem toQuote_lt (c : Char) (h : Quote.toQuote c = true) : c.toNat < 128 := by
  simp only [Quote.toQuote, Bool.or_eq_true, decide_eq_true_eq, beq_iff_eq] at h
  rcases h with (((((h | h) | h) | h) | h) | h) | h
  · omega
  · omega
  all_goals (subst h; decide)

theorem quoteChar_not_bad (c x : Char) (h : x ∈ Quote.quoteChar c) : bad x = false := by
  unfold Quote.quoteChar at h
  split at h
  · rename_i hq
    have := toQuote_lt c hq
    simp only [List.mem_cons, List.not_mem_nil, or_false] at h
    rcases h with h | h | h
    · subst h; decide
    · subst h; exact hexU_not_bad _ (by omega)
    · subst h; exact hexU_not_bad _ (by omega)
  · rename_i hq
    simp only [List.mem_cons, List.not_mem_nil, or_false] at h
    subst h
    cases hb : bad x with
    | false => rfl
    | true => exact absurd (toQuote_of_bad x hb) hq

theorem quoteStr_not_bad (s : Str) (x : Char) (h : x ∈ Quote.quoteStr s) : bad x = false := by
  unfold Quote.quoteStr at h
  obtain ⟨c, _, hc⟩ := List.mem_flatMap.mp h
  exact quoteChar_not_bad c x hc

theorem quoteChar_ne_nil (c : Char) : Quote.quoteChar c ≠ [] := by
  unfold Quote.quoteChar; split <;> simp

theorem quoteStr_ne_nil (s : Str) (h : s ≠ []) : Quote.quoteStr s ≠ [] := by
  cases s with
  | nil => exact absurd rfl h
  | cons c cs =>
    unfold Quote.quoteStr
    simp [quoteChar_ne_nil]

end GffProofs.C08bAux
