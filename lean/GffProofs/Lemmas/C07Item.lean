/-
  Stage (v) of `splitInfer` for all the parts of one attribute item.
-/
import GffProofs.Lemmas.C07Fold
import GffProofs.Lemmas.C07Rec2
import GffProofs.Lemmas.SplitJoin

namespace GffProofs.C07
open GffModel GffModel.Parser GffModel.Grammar

/-- value texts of a valued item before quoting, one per part -/
def rawTexts (s : LineSpec) (it : AttrItem) : List Str :=
  if s.repeated ∧ it.vals.length > 1 then it.vals.map s.encVal
  else [Str.join [','] (it.vals.map s.encVal)]

/-- the text after the key/value separator, one per part (`[]`: no separator at all) -/
def itemTexts (s : LineSpec) (it : AttrItem) : List Str :=
  if it.vals.isEmpty then (if s.fmt = gtf then [['"', '"']] else [[]])
  else (rawTexts s it).map (wrapQ s)

def itemPairs (s : LineSpec) (it : AttrItem) : List (Str × Str) :=
  (itemTexts s it).map (fun t => (it.key, t))

def dAfter (s : LineSpec) (d : Dialect) (it : AttrItem) : Dialect :=
  { d with
    repeatedKeys := d.repeatedKeys || (s.repeated && decide (it.vals.length > 1)),
    quoted := d.quoted || (if it.vals.isEmpty then decide (s.fmt = gtf) else s.quoted),
    order := d.order ++ blockKeys s it }

structure ItemOk (s : LineSpec) (it : AttrItem) : Prop where
  ne : ∀ v ∈ it.vals, s.encVal v ≠ []
  comma : ∀ v ∈ it.vals, ',' ∉ s.encVal v
  head : ∀ v ∈ it.vals, (s.encVal v).head? ≠ some ' '
  unq : s.quoted = false → ∀ t ∈ rawTexts s it, isQuotedVal t = false

theorem inner_fold (s : LineSpec) (quals : Attrs) (key : Str) (h : ∀ p ∈ quals, p.1 ≠ key)
    (vs : List Str) (hne : ∀ v ∈ vs, s.encVal v ≠ [])
    (hq : s.quoted = false → ∀ v ∈ vs, isQuotedVal (s.encVal v) = false)
    (cur : List Str) (d : Dialect) :
    (vs.map (fun v => (key, wrapQ s (s.encVal v)))).foldl stepPure (quals ++ [(key, cur)], d) =
      (quals ++ [(key, cur ++ vs.map s.encVal)],
        { d with repeatedKeys := d.repeatedKeys || !vs.isEmpty, quoted := d.quoted || (s.quoted && !vs.isEmpty),
                 order := d.order ++ vs.map (fun _ => key) }) := by
  induction vs generalizing cur d with
  | nil => obtain ⟨ls, ts, q, fs, kv, ms, fmt, rk, ord⟩ := d; simp
  | cons v vs ih =>
    simp only [List.map_cons, List.foldl_cons]
    rw [step_seen s quals d key (s.encVal v) cur h (hne v (by simp))
      (fun hs => hq hs v (by simp))]
    rw [ih (fun w hw => hne w (by simp [hw])) (fun hs w hw => hq hs w (by simp [hw]))]
    obtain ⟨ls, ts, q, fs, kv, ms, fmt, rk, ord⟩ := d
    simp [Bool.or_assoc]
    cases q <;> cases s.quoted <;> simp

theorem item_fold (s : LineSpec) (it : AttrItem) (ok : ItemOk s it) (quals : Attrs) (d : Dialect)
    (h : ∀ p ∈ quals, p.1 ≠ it.key) (hrep : s.repeated = false → d.repeatedKeys = false) :
    (itemPairs s it).foldl stepPure (quals, d) =
      (quals ++ [(it.key, it.vals.map s.encVal)], dAfter s d it) := by
  unfold itemPairs itemTexts dAfter blockKeys
  cases hv : it.vals with
  | nil =>
    obtain ⟨ls, ts, q, fs, kv, ms, fmt, rk, ord⟩ := d
    by_cases hg : s.fmt = gtf
    · simp [hg, step_flag_gtf _ _ _ h]
    · simp [hg, step_flag_plain _ _ _ h]
  | cons v vs =>
    have okne := ok.ne; have okc := ok.comma; have okh := ok.head; have oku := ok.unq
    unfold rawTexts at oku ⊢
    rw [hv] at okne okc okh oku ⊢
    simp only [List.isEmpty_cons, Bool.false_eq_true, if_false]
    by_cases hm : s.repeated = true ∧ (v :: vs).length > 1
    · simp only [hm, and_self, if_true] at oku ⊢
      simp only [List.map_cons, List.foldl_cons, List.map_map]
      rw [step_fresh s quals d it.key (s.encVal v) [s.encVal v] h (okne v (by simp))
        (fun hs => oku hs _ (by simp))
        (GffProofs.split_join [] [] ',' (by simp) [s.encVal v] (by simp) (by simpa using okc v (by simp)))
        (by simpa using okh v (by simp)) (fun _ => rfl)]
      have := inner_fold s quals it.key h vs (fun w hw => okne w (by simp [hw]))
        (fun hs w hw => oku hs _ (List.mem_map.mpr ⟨w, by simp [hw], rfl⟩)) [s.encVal v]
        { d with quoted := d.quoted || s.quoted, order := d.order ++ [it.key] }
      simp only [Function.comp_def]
      rw [this]
      have hvs : vs.isEmpty = false := by
        cases vs with
        | nil => simp at hm
        | cons _ _ => rfl
      obtain ⟨ls, ts, q, fs, kv, ms, fmt, rk, ord⟩ := d
      simp [hvs]
    · simp only [hm, if_false] at oku ⊢
      simp only [List.map_cons, List.map_nil, List.foldl_cons, List.foldl_nil]
      have hj : Str.join [','] (s.encVal v :: vs.map s.encVal) ≠ [] := by
        have := okne v (by simp)
        cases vs with
        | nil => simpa [Str.join]
        | cons w ws => simp [Str.join, this]
      rw [step_fresh s quals d it.key _ (s.encVal v :: vs.map s.encVal) h hj
        (fun hs => oku hs _ (by simp))
        (GffProofs.split_join [] [] ',' (by simp) (s.encVal v :: vs.map s.encVal) (by simp)
          (by intro p hp
              have : p ∈ (v :: vs).map s.encVal := by simpa using hp
              obtain ⟨w, hw, rfl⟩ := List.mem_map.mp this
              exact okc w hw))
        (by intro p hp
            have : p ∈ (v :: vs).map s.encVal := by simpa using hp
            obtain ⟨w, hw, rfl⟩ := List.mem_map.mp this
            exact okh w hw)
        (by intro hrk
            have hsr : s.repeated = true := by
              cases hs : s.repeated with
              | true => rfl
              | false => rw [hrep hs] at hrk; exact absurd hrk (by simp)
            have : vs = [] := by
              cases vs with
              | nil => rfl
              | cons _ _ => exact absurd ⟨hsr, by simp⟩ hm
            subst this; simp [Str.join])]
      obtain ⟨ls, ts, q, fs, kv, ms, fmt, rk, ord⟩ := d
      have : (s.repeated && decide ((v :: vs).length > 1)) = false := by
        cases hs : s.repeated with
        | false => rfl
        | true => simp [hs] at hm; simp [hm]
      simp only [this, Bool.or_false]

end GffProofs.C07
