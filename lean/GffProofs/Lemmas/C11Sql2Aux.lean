/-
  C11Sql2 — lemmas: the rendered statements start with `SELECT ` and contain no `;`.
-/
import GffProofs.Lemmas.C11SqlCount

namespace GffProofs.C11Sql
open GffModel GffModel.Sql GffModel.Interface

/-! ### no `;` in the pieces of a statement -/

theorem noSemi_intToStr (i : Int) : ';' ∉ Str.intToStr i := not_mem_intToStr ';' (by decide) (by decide) i

theorem noSemi_join (sep : Str) (l : List Str) (hs : ';' ∉ sep) (hl : ∀ p ∈ l, ';' ∉ p) : ';' ∉ Str.join sep l := by
  intro h
  rcases mem_join _ _ _ h with h | ⟨p, hp, hc⟩
  · exact hs h
  · exact hl p hp hc

theorem noSemi_placeholders (n : Nat) : ';' ∉ placeholders n := by
  apply noSemi_join
  · decide
  · intro p hp
    rw [List.eq_of_mem_replicate hp]
    decide

theorem noSemi_fcol (c : FCol) : ';' ∉ c.name := by cases c <;> decide
theorem noSemi_rcol (c : RCol) : ';' ∉ c.name := by cases c <;> decide

theorem noSemi_colRef (c : ColRef) : ';' ∉ c.render := by
  cases c with
  | feat q c =>
    cases q
    · exact noSemi_fcol c
    · show ';' ∉ "features.".toList ++ c.name
      simp only [List.mem_append, not_or]
      exact ⟨by decide, noSemi_fcol c⟩
  | rel c =>
    show ';' ∉ "relations.".toList ++ c.name
    simp only [List.mem_append, not_or]
    exact ⟨by decide, noSemi_rcol c⟩

theorem noSemi_cmp (op : Cmp) : ';' ∉ op.render := by cases op <;> decide

theorem noSemi_cond (c : Cond) : ';' ∉ c.render := by
  cases c with
  | eqP c =>
    show ';' ∉ c.render ++ " = ?".toList
    simp only [List.mem_append, not_or]
    exact ⟨noSemi_colRef c, by decide⟩
  | inP c n =>
    show ';' ∉ c.render ++ " IN  (".toList ++ placeholders n ++ [')']
    simp only [List.mem_append, not_or]
    exact ⟨⟨⟨noSemi_colRef c, by decide⟩, noSemi_placeholders n⟩, by decide⟩
  | cmpP c op =>
    show ';' ∉ c.render ++ [' '] ++ op.render ++ " ?".toList
    simp only [List.mem_append, not_or]
    exact ⟨⟨⟨noSemi_colRef c, by decide⟩, noSemi_cmp op⟩, by decide⟩
  | inLits c lits =>
    show ';' ∉ c.render ++ " IN (".toList ++ Str.join [','] (lits.map Str.intToStr) ++ [')']
    simp only [List.mem_append, not_or]
    refine ⟨⟨⟨noSemi_colRef c, by decide⟩, ?_⟩, by decide⟩
    apply noSemi_join _ _ (by decide)
    intro p hp
    rcases List.mem_map.mp hp with ⟨i, _, rfl⟩
    exact noSemi_intToStr i
  | overlapLits hi lo =>
    show ';' ∉ "(start <= ".toList ++ Str.intToStr hi ++ " AND end >= ".toList ++ Str.intToStr lo ++ [')']
    simp only [List.mem_append, not_or]
    exact ⟨⟨⟨⟨by decide, noSemi_intToStr hi⟩, by decide⟩, noSemi_intToStr lo⟩, by decide⟩
  | orEqP c n spaced =>
    have hb : ';' ∉ Str.join " or ".toList (List.replicate n (c.render ++ " = ?".toList)) := by
      apply noSemi_join _ _ (by decide)
      intro p hp
      rw [List.eq_of_mem_replicate hp]
      simp only [List.mem_append, not_or]
      exact ⟨noSemi_colRef c, by decide⟩
    cases spaced
    · show ';' ∉ ['('] ++ Str.join " or ".toList (List.replicate n (c.render ++ " = ?".toList)) ++ [')']
      simp only [List.mem_append, not_or]
      exact ⟨⟨by decide, hb⟩, by decide⟩
    · show ';' ∉ "( ".toList ++ Str.join " or ".toList (List.replicate n (c.render ++ " = ?".toList)) ++ " )".toList
      simp only [List.mem_append, not_or]
      exact ⟨⟨by decide, hb⟩, by decide⟩

theorem noSemi_optRender (c : Option Cond) : ';' ∉ optRender c := by
  cases c with
  | none => simp [optRender]
  | some c => exact noSemi_cond c

theorem noSemi_conjRender (cs : List Cond) : ';' ∉ conjRender cs := by
  apply noSemi_join _ _ (by decide)
  intro p hp
  rcases List.mem_map.mp hp with ⟨c, _, rfl⟩
  exact noSemi_cond c

theorem noSemi_prefixSlot (w : Bool) (s : Str) (h : ';' ∉ s) : ';' ∉ (prefixSlot w s).1 := by
  unfold prefixSlot
  split
  · exact h
  · split
    · show ';' ∉ "AND ".toList ++ s
      simp only [List.mem_append, not_or]; exact ⟨by decide, h⟩
    · show ';' ∉ "WHERE ".toList ++ s
      simp only [List.mem_append, not_or]; exact ⟨by decide, h⟩

theorem noSemi_otherText (on to : RCol) : ';' ∉ otherText on to := by
  cases on <;> cases to <;> decide +kernel

theorem noSemi_orderKey (k : OrderKey) : ';' ∉ k.render := by
  cases k with
  | col c => exact noSemi_fcol c
  | fileOrder => decide
  | length => decide

theorem noSemi_orderText (ts : List OrderTerm) (d : Bool) (h : AllKeys ts) :
    ';' ∉ orderText (ts.map OrderTerm.render) d := by
  unfold orderText
  simp only [List.mem_append, not_or]
  refine ⟨⟨⟨by decide, ?_⟩, by decide⟩, by cases d <;> decide⟩
  apply noSemi_join _ _ (by decide)
  intro p hp
  rcases List.mem_map.mp hp with ⟨t, ht, rfl⟩
  obtain ⟨k, rfl⟩ := h t ht
  exact noSemi_orderKey k


theorem noSemi_orderText' (terms : List Str) (d : Bool) (h : ∀ t ∈ terms, ';' ∉ t) : ';' ∉ orderText terms d := by
  unfold orderText
  simp only [List.mem_append, not_or]
  exact ⟨⟨⟨by decide, noSemi_join _ _ (by decide) h⟩, by decide⟩, by cases d <;> decide⟩

theorem noSemi_selectText : ';' ∉ selectText := by decide +kernel
theorem noSemi_selectDistinctText : ';' ∉ selectDistinctText := by decide +kernel

/-! ### AST renderings -/

theorem noSemi_renderRest (s : Select) (h : ∀ ts d, s.order = some (ts, d) → AllKeys ts) : ';' ∉ Select.renderRest s := by
  unfold Select.renderRest
  simp only [List.mem_append, not_or]
  refine ⟨⟨⟨⟨⟨⟨⟨⟨⟨⟨⟨by decide, ?_⟩, by decide⟩, ?_⟩, by decide⟩, ?_⟩, by decide⟩, ?_⟩, by decide⟩, ?_⟩, by decide⟩, ?_⟩
  · cases s.join with
    | none => simp
    | some p => exact noSemi_otherText p.1 p.2
  · exact noSemi_prefixSlot _ _ (noSemi_optRender _)
  · exact noSemi_prefixSlot _ _ (noSemi_optRender _)
  · exact noSemi_prefixSlot _ _ (noSemi_conjRender _)
  · exact noSemi_prefixSlot _ _ (noSemi_optRender _)
  · cases ho : s.order with
    | none => simp [renderOrder]
    | some o =>
      obtain ⟨ts, d⟩ := o
      exact noSemi_orderText ts d (h ts d ho)

theorem noSemi_select (s : Select) (h : NoRaw (.select s)) : ';' ∉ s.render := by
  rw [Select.render_eq]
  simp only [List.mem_append, not_or]
  refine ⟨?_, noSemi_renderRest s (fun ts d hs => h ts d hs)⟩
  cases s.distinct
  · exact noSemi_selectText
  · exact noSemi_selectDistinctText

theorem noSemi_region (r : RegionStmt) : ';' ∉ r.render := by
  rw [RegionStmt.render_eq]
  simp only [List.mem_append, not_or]
  refine ⟨⟨?_, ?_⟩, ?_⟩
  · apply noSemi_join _ _ (by decide)
    intro p hp
    simp only [List.mem_cons, List.not_mem_nil, or_false] at hp
    rcases hp with h | h | h | h <;> rw [h]
    · exact noSemi_selectText
    · decide
    · exact noSemi_conjRender _
    · cases r.bin with
      | none => simp [binTextOf]
      | some c =>
        show ';' ∉ "AND ".toList ++ c.render
        simp only [List.mem_append, not_or]
        exact ⟨by decide, noSemi_cond c⟩
  · cases r.ft with
    | none => simp [ftTextOf]
    | some c =>
      show ';' ∉ " AND ".toList ++ c.render ++ [' ']
      simp only [List.mem_append, not_or]
      exact ⟨⟨by decide, noSemi_cond c⟩, by decide⟩
  · cases r.strand with
    | none => simp [strandTextOf]
    | some c =>
      show ';' ∉ " and ".toList ++ c.render ++ [' ']
      simp only [List.mem_append, not_or]
      exact ⟨⟨by decide, noSemi_cond c⟩, by decide⟩

theorem noSemi_render (q : SqlQuery) (h : NoRaw q) : ';' ∉ render q := by
  cases q with
  | select s => exact noSemi_select s h
  | region r => exact noSemi_region r
  | count b => cases b <;> decide +kernel
  | distinctCol c => cases c <;> decide +kernel

/-! ### the first keyword -/

def kwSelectSp : Str := "SELECT ".toList

/-- the text starts with `SELECT ` -/
abbrev StartsSelect (t : Str) : Prop := kwSelectSp.isPrefixOf t = true

/-- … after leading whitespace (the count / DISTINCT-column statements are indented triple-quoted strings) -/
abbrev StartsSelectWs (t : Str) : Prop := kwSelectSp.isPrefixOf (Str.lstrip t) = true

theorem startsSelect_append (a b : Str) (h : StartsSelect a) : StartsSelect (a ++ b) := by
  unfold StartsSelect at *
  rw [List.isPrefixOf_iff_prefix] at *
  exact h.trans (List.prefix_append a b)

theorem startsSelect_ws (t : Str) (h : StartsSelect t) : StartsSelectWs t := by
  unfold StartsSelect StartsSelectWs at *
  rw [List.isPrefixOf_iff_prefix] at h
  obtain ⟨r, rfl⟩ := h
  have : Str.lstrip (kwSelectSp ++ r) = kwSelectSp ++ r := by
    show Str.lstrip ('S' :: ("ELECT ".toList ++ r)) = _
    unfold Str.lstrip
    rw [List.dropWhile_cons_of_neg (by decide)]
    rfl
  rw [this, List.isPrefixOf_iff_prefix]
  exact List.prefix_append _ _

theorem startsSelect_selectText : StartsSelect selectText := by decide +kernel
theorem startsSelect_selectDistinctText : StartsSelect selectDistinctText := by decide +kernel

theorem startsSelect_formatQuery (other extra ft lim st ob : Str) :
    StartsSelect (formatQuery selectText other extra ft lim st ob) := by
  unfold formatQuery
  simp only [List.append_assoc]
  exact startsSelect_append _ _ startsSelect_selectText

theorem startsSelect_select (s : Select) : StartsSelect s.render := by
  rw [Select.render_eq]
  apply startsSelect_append
  cases s.distinct
  · exact startsSelect_selectText
  · exact startsSelect_selectDistinctText

theorem startsSelect_region (r : RegionStmt) : StartsSelect r.render := by
  rw [RegionStmt.render_eq, join_cons_cons]
  simp only [List.append_assoc]
  exact startsSelect_append _ _ startsSelect_selectText

theorem startsSelectWs_render (q : SqlQuery) : StartsSelectWs (render q) := by
  cases q with
  | select s => exact startsSelect_ws _ (startsSelect_select s)
  | region r => exact startsSelect_ws _ (startsSelect_region r)
  | count b => cases b <;> decide +kernel
  | distinctCol c => cases c <;> decide +kernel

/-! ### `make_query` over arbitrary strings -/

theorem noSemi_lengthSubst_valid : ∀ k ∈ validOrderBy, ';' ∉ lengthSubst k := by decide

/-- a bare-string `order_by` (pasted into the text unvalidated) contains no `;` -/
def OrderBy.noSemi : OrderBy → Prop
  | .str s => ';' ∉ s
  | _ => True

theorem noSemi_orderSlot (ob : OrderBy) (rev : Bool) (t : Str)
    (hn : OrderBy.noSemi ob) (h : orderSlot ob rev = .ok t) : ';' ∉ t := by
  cases ob with
  | none => simp only [orderSlot, Except.ok.injEq] at h; subst h; simp
  | str s =>
    simp only [orderSlot] at h
    split at h
    · simp only [Except.ok.injEq] at h; subst h; simp
    · simp only [Except.ok.injEq] at h
      rw [← h]
      apply noSemi_orderText'
      intro t ht
      simp only [List.mem_singleton] at ht
      subst ht
      unfold lengthSubst
      split
      · decide
      · exact hn
  | tuple l =>
    simp only [orderSlot] at h
    split at h
    · simp only [Except.ok.injEq] at h; subst h; simp
    · split at h
      · rename_i hall
        simp only [Except.ok.injEq] at h
        rw [← h]
        apply noSemi_orderText'
        intro t ht
        rcases List.mem_map.mp ht with ⟨k, hk, rfl⟩
        have := List.all_eq_true.mp hall k hk
        exact noSemi_lengthSubst_valid k (by simpa using this)
      · cases h

theorem noSemi_ftSlot (ft : Ft) : ';' ∉ (ftSlot ft).1 := by
  rw [ftSlot_eq]; exact noSemi_optRender _

theorem noSemi_strandSlot (st : Option Str) : ';' ∉ (strandSlot st).1 := by
  rw [strandSlot_eq]; exact noSemi_optRender _

theorem noSemi_limitSlot (lim : Limit) (w : Bool) (t : Str) (as : List SqlArg) (h : limitSlot lim w = .ok (t, as)) :
    ';' ∉ t := by
  rw [limitSlot_eq] at h
  cases hc : limitConds lim w with
  | error e => rw [hc] at h; cases h
  | ok p =>
    rw [hc] at h
    simp only [Except.map, renderLimit, Except.ok.injEq, Prod.mk.injEq] at h
    rw [← h.1]
    exact noSemi_conjRender _

theorem makeQueryCore_select (other extra : Str) (args : List SqlArg) (limit : Limit) (strand : Option Str)
    (ft : Ft) (ob : OrderBy) (rev within : Bool) (t : Str) (as : List SqlArg)
    (h : makeQueryCore other extra args limit strand ft ob rev within = .ok (t, as)) :
    StartsSelect t ∧
    (';' ∉ other → ';' ∉ extra → OrderBy.noSemi ob → ';' ∉ t) := by
  unfold makeQueryCore at h
  simp only [Bind.bind, Except.bind, pure, Except.pure] at h
  split at h
  · cases h
  · cases hl : limitSlot limit within with
    | error e => rw [hl] at h; cases h
    | ok la =>
      obtain ⟨lim, a2⟩ := la
      rw [hl] at h
      cases ho : orderSlot ob rev with
      | error e => rw [ho] at h; cases h
      | ok obt =>
        rw [ho] at h
        simp only [Except.ok.injEq, Prod.mk.injEq] at h
        rw [← h.1]
        refine ⟨startsSelect_formatQuery _ _ _ _ _ _, ?_⟩
        intro h1 h2 h3
        unfold formatQuery
        simp only [List.mem_append, not_or]
        exact ⟨⟨⟨⟨⟨⟨⟨⟨⟨⟨⟨⟨noSemi_selectText, by decide⟩, h1⟩, by decide⟩, noSemi_prefixSlot _ _ h2⟩, by decide⟩,
          noSemi_prefixSlot _ _ (noSemi_ftSlot ft)⟩, by decide⟩, noSemi_prefixSlot _ _ (noSemi_limitSlot _ _ _ _ hl)⟩,
          by decide⟩, noSemi_prefixSlot _ _ (noSemi_strandSlot strand)⟩, by decide⟩, noSemi_orderSlot ob rev obt h3 ho⟩

/-- `.replace("SELECT", "SELECT DISTINCT")` of a text that starts with `SELECT ` starts with `SELECT DISTINCT ` -/
theorem replaceAll_startsSelect (t : Str) (h : StartsSelect t) :
    ("SELECT DISTINCT ".toList).isPrefixOf (replaceAll kwSelect kwSelectDistinct t) = true := by
  unfold StartsSelect at h
  rw [List.isPrefixOf_iff_prefix] at h
  obtain ⟨r, rfl⟩ := h
  unfold replaceAll
  show ("SELECT DISTINCT ".toList).isPrefixOf (replaceGo kwSelect kwSelectDistinct 0 ('S' :: ("ELECT ".toList ++ r))) = true
  rw [replaceGo]
  have hp : kwSelect.isPrefixOf ('S' :: ("ELECT ".toList ++ r)) = true := by
    rw [List.isPrefixOf_iff_prefix]
    exact ⟨' ' :: r, rfl⟩
  rw [hp]
  simp only [if_true]
  have e : "ELECT ".toList ++ r = "ELECT".toList ++ (' ' :: r) := rfl
  have e2 : kwSelect.length - 1 = "ELECT".toList.length := by decide
  rw [e, e2, replaceGo_skip]
  show ("SELECT DISTINCT ".toList).isPrefixOf (kwSelectDistinct ++ (' ' :: replaceGo kwSelect kwSelectDistinct 0 r)) = true
  rw [List.isPrefixOf_iff_prefix]
  exact ⟨replaceGo kwSelect kwSelectDistinct 0 r, rfl⟩

end GffProofs.C11Sql
