/-
  Assembly of `infer_render` from the stage lemmas.
-/
import GffProofs.Lemmas.C07Tail
import GffProofs.Lemmas.C07Rec4

namespace GffProofs.C07
open GffModel GffModel.Parser GffModel.Grammar

def allPairs (s : LineSpec) : List (Str × Str) := s.attrs.flatMap (itemPairs s)

section
variable (s : LineSpec) (W : WFacts s)
include W

theorem enc_facts : ∀ it ∈ s.attrs, ∀ v ∈ it.vals, EncOk s v :=
  fun it hit v hv => encOk s v (W.val it hit v hv)

theorem key_facts : ∀ it ∈ s.attrs, KeyOk it.key :=
  fun it hit => keyOk_facts s it.key (W.key it hit)

theorem parts_eq :
    s.attrs.flatMap (renderItem s) = (allPairs s).map (fun kv => mkPart s kv.1 kv.2) := by
  unfold allPairs itemPairs
  rw [List.map_flatMap, List.flatMap_def, List.flatMap_def]; congr 1
  apply List.map_congr_left
  intro it hit
  rw [renderItem_eq s it (fun v hv => (enc_facts s W it hit v hv).ne), List.map_map]
  rfl

theorem pair_facts : ∀ kv ∈ allPairs s, KeyOk kv.1 ∧ TextOk s kv.2 := by
  intro kv hkv
  obtain ⟨it, hit, hkv⟩ := List.mem_flatMap.mp hkv
  obtain ⟨t, ht, rfl⟩ := List.mem_map.mp hkv
  exact ⟨key_facts s W it hit, textOk s it (enc_facts s W it hit) t ht⟩

theorem parts_ok : ∀ p ∈ s.attrs.flatMap (renderItem s), PartOk p := by
  rw [parts_eq s W]
  intro p hp
  obtain ⟨kv, hkv, rfl⟩ := List.mem_map.mp hp
  have := pair_facts s W kv hkv
  exact partOk s kv.1 kv.2 this.1 this.2

theorem with_unquoted (h : s.quoted = false) : { s with quoted := false } = s := by
  obtain ⟨a, b, c, d, e, f, g, i⟩ := s
  simp only [] at h; subst h; rfl

omit W in
theorem isQuotedVal_of (X : Str) (h : (!(X.head? == some '"' && X.getLast? == some '"')) = true) :
    isQuotedVal X = false := by
  cases X with
  | nil => rfl
  | cons c cs =>
    unfold isQuotedVal
    simp only [List.head?_cons, Bool.not_eq_true', Bool.and_eq_false_iff] at h
    simp only [Bool.and_eq_false_iff]
    rcases h with h | h
    · left; simpa using h
    · right; simpa using h

theorem item_ok (it : AttrItem) (hit : it ∈ s.attrs) : ItemOk s it := by
  have E := enc_facts s W it hit
  refine ⟨fun v hv => (E v hv).ne, fun v hv => (E v hv).comma, fun v hv => (E v hv).head, ?_⟩
  intro hq X hX
  have hT := W.text it hit
  unfold itemTextOk at hT
  rw [with_unquoted s W hq, hq, Bool.false_or, List.all_eq_true] at hT
  by_cases hne : it.vals = []
  · unfold rawTexts at hX
    simp [hne, Str.join] at hX
    subst hX; rfl
  · have R := rawOk s it E hne X hX
    have hmem : mkPart s it.key X ∈ renderItem s it := by
      rw [renderItem_eq s it (fun v hv => (E v hv).ne)]
      apply List.mem_map.mpr
      refine ⟨X, ?_, rfl⟩
      unfold itemTexts
      have : it.vals.isEmpty = false := by simpa using hne
      simp only [this, Bool.false_eq_true, if_false]
      apply List.mem_map.mpr
      exact ⟨X, hX, by unfold wrapQ; simp [hq]⟩
    have := hT _ hmem
    have hd : (mkPart s it.key X).drop (it.key.length + s.kvSep.length) = X := by
      unfold mkPart
      rw [if_neg R.ne, ← List.length_append, List.drop_left]
    simp only [hd] at this
    exact isQuotedVal_of X this

omit W in
theorem mapM_ok_map {α β γ} (f : β → Py γ) (h : α → β) (g : α → γ) (l : List α)
    (hh : ∀ x ∈ l, f (h x) = .ok (g x)) : (l.map h).mapM f = .ok (l.map g) := by
  induction l with
  | nil => rfl
  | cons x l ih =>
    rw [List.map_cons, List.mapM_cons, hh x (by simp), ih (fun y hy => hh y (by simp [hy]))]
    rfl

omit W in
theorem itemTexts_shape (it : AttrItem) (hne : ∀ v ∈ it.vals, s.encVal v ≠ []) :
    ∃ t0 ts, itemTexts s it = t0 :: ts ∧ (it.vals ≠ [] → t0 ≠ []) := by
  unfold itemTexts rawTexts
  cases hv : it.vals with
  | nil =>
    by_cases hg : s.fmt = gtf
    · exact ⟨['"', '"'], [], by simp [hg], fun h => absurd rfl h⟩
    · exact ⟨[], [], by simp [hg], fun h => absurd rfl h⟩
  | cons v vs =>
    rw [hv] at hne
    simp only [List.isEmpty_cons, Bool.false_eq_true, if_false]
    split
    · exact ⟨_, _, by simp only [List.map_cons, List.map_map]; rfl, fun _ => wrapQ_ne_nil s _ (hne v (by simp))⟩
    · exact ⟨_, [], rfl, fun _ => wrapQ_ne_nil s _ (join_enc_ne_nil s v vs (hne v (by simp)))⟩

theorem first_pair (it0 : AttrItem) (tl : List AttrItem) (ha : s.attrs = it0 :: tl) :
    ∃ t0 rest, allPairs s = (it0.key, t0) :: rest ∧ (it0.vals ≠ [] → t0 ≠ []) := by
  obtain ⟨t0, ts, hts, hne⟩ := itemTexts_shape s it0
    (fun v hv => (enc_facts s W it0 (by simp [ha]) v hv).ne)
  refine ⟨t0, ts.map (fun t => (it0.key, t)) ++ tl.flatMap (itemPairs s), ?_, hne⟩
  unfold allPairs itemPairs
  rw [ha, List.flatMap_cons, hts]
  rfl

theorem rep_eq : (s.repeated && s.attrs.any (fun it => decide (it.vals.length > 1))) = s.repeated := by
  cases h : s.repeated with
  | false => rfl
  | true =>
    obtain ⟨it, hit, hl⟩ := W.rep h
    simp only [Bool.true_and, List.any_eq_true, decide_eq_true_eq]
    exact ⟨it, hit, hl⟩

theorem quo_eq (hne : s.attrs ≠ []) :
    s.attrs.any (fun it => if it.vals.isEmpty then decide (s.fmt = gtf) else s.quoted) = s.quoted := by
  cases h : s.quoted with
  | false =>
    rw [List.any_eq_false]
    intro it _
    have := fmt_unquoted s h
    split
    · simp [this, gtf_ne_gff3.symm]
    · simp
  | true =>
    rw [List.any_eq_true]
    rcases W.quo h with ⟨it, hit, hv⟩ | hst
    · refine ⟨it, hit, ?_⟩
      have : it.vals.isEmpty = false := by simpa using hv
      simp [this]
    · obtain ⟨it, tl, ha⟩ : ∃ it tl, s.attrs = it :: tl := by
        cases h : s.attrs with
        | nil => exact absurd h hne
        | cons a b => exact ⟨a, b, rfl⟩
      refine ⟨it, by simp [ha], ?_⟩
      have : s.fmt = gtf := by unfold LineSpec.fmt; simp [hst, h]
      split <;> simp [this]

omit W in
theorem finish_eq (huq : ∀ t, Quote.unquote (Quote.quoteStr t) = t) :
    finishStage (s.attrs.map (fun it => (it.key, it.vals.map s.encVal)))
      { leadingSemicolon := false, trailingSemicolon := s.trailing, quoted := s.quoted, fieldSep := s.sep,
        kvSep := s.kvSep, multiSep := [','], fmt := gff3, repeatedKeys := s.repeated,
        order := s.attrs.flatMap (blockKeys s) } false = (s.mapping, dialect' s) := by
  unfold finishStage dialect' LineSpec.mapping unquoteQuals
  rcases kvSep_cases s with ⟨hst, hsep⟩ | ⟨hst, hsep⟩
  · have hf : s.fmt = gff3 := fmt_eq_style s hst
    have henc : s.encVal = Quote.quoteStr := by funext v; unfold LineSpec.encVal; simp [hf]
    simp [hsep, hf, henc, List.map_map, Function.comp_def, huq]
  · cases hq : s.quoted with
    | false =>
      have hf : s.fmt = gff3 := fmt_unquoted s hq
      have henc : s.encVal = Quote.quoteStr := by funext v; unfold LineSpec.encVal; simp [hf]
      simp [hsep, hf, henc, List.map_map, Function.comp_def, huq]
    | true =>
      have hf : s.fmt = gtf := by unfold LineSpec.fmt; simp [hst, hq]
      have henc : s.encVal = id := by funext v; unfold LineSpec.encVal; simp [hf, gtf_ne_gff3]
      simp [hsep, hf, henc, gtf_ne_gff3]

theorem infer_render_aux (huq : ∀ t, Quote.unquote (Quote.quoteStr t) = t) :
    splitKeyvals (renderAttrs s) none = .ok (s.mapping, s.dialect) := by
  by_cases he : s.attrs = []
  · simp [splitKeyvals, renderAttrs, LineSpec.mapping, LineSpec.dialect, he]
  · have he' : s.attrs.isEmpty = false := by simpa using he
    obtain ⟨it0, tl, ha⟩ : ∃ it tl, s.attrs = it :: tl := by
      cases h : s.attrs with
      | nil => exact absurd h he
      | cons a b => exact ⟨a, b, rfl⟩
    obtain ⟨t0, rest, hpairs, ht0⟩ := first_pair s W it0 tl ha
    have hK0 := (pair_facts s W (it0.key, t0) (by rw [hpairs]; simp))
    have hparts := parts_eq s W
    have hparts_ne : s.attrs.flatMap (renderItem s) ≠ [] := by rw [hparts, hpairs]; simp
    have hrender : renderAttrs s = if s.trailing then Str.join s.sep (s.attrs.flatMap (renderItem s)) ++ [';']
        else Str.join s.sep (s.attrs.flatMap (renderItem s)) := by
      unfold renderAttrs; simp [he']
    have hnonempty : (renderAttrs s).isEmpty = false := by
      rw [hrender]
      have : Str.join s.sep (s.attrs.flatMap (renderItem s)) ≠ [] := by
        rw [hparts, hpairs, List.map_cons]
        exact join_ne_nil _ _ _ (partOk s _ _ hK0.1 hK0.2).1
      split <;> simp [this]
    unfold splitKeyvals
    simp only [hnonempty, Bool.false_eq_true, if_false]
    rw [splitInfer_eq, hrender,
      front_render s.sep _ s.trailing W.sep hparts_ne (parts_ok s W) W.lt2]
    simp only []
    rw [dialect_eq s he]
    have hfold : ∀ d : Dialect, d.repeatedKeys = false →
        (allPairs s).foldl stepPure ([], d) =
          (s.attrs.map (fun it => (it.key, it.vals.map s.encVal)), s.attrs.foldl (dAfter s) d) := by
      intro d hd
      have := attrs_fold s s.attrs (item_ok s W) W.nodup [] d (by simp) (fun _ => hd)
      simpa [allPairs] using this
    rcases kvSep_cases s with ⟨hst, hsep⟩ | ⟨hst, hsep⟩
    · -- `key=value`
      obtain ⟨hw, hv0⟩ := W.first it0 tl hst ha
      have hp0 : mkPart s it0.key t0 = it0.key ++ '=' :: t0 := by
        unfold mkPart; rw [if_neg (ht0 hv0), hsep]; simp
      have hkv : (s.attrs.flatMap (renderItem s)).map (Str.split ['=']) = (allPairs s).map gItem := by
        rw [hparts, List.map_map]
        apply List.map_congr_left
        intro kv hkv
        have := pair_facts s W kv hkv
        exact part_eq_split s kv.1 kv.2 this.1 this.2 hst
      have hmk : matchesKw (mkPart s it0.key t0) = true := by
        rw [hp0]; exact matchesKw_eq _ _ hK0.1.ne hw
      have hshape : s.attrs.flatMap (renderItem s) =
          mkPart s it0.key t0 :: rest.map (fun kv => mkPart s kv.1 kv.2) := by
        rw [hparts, hpairs]; rfl
      rw [hshape] at hkv ⊢
      rw [tailStage_eq_style _ _ _ _ hmk (allPairs s) hkv, hfold _ rfl, foldl_dAfter]
      simp only [eqD, dInit, Bool.false_or, List.nil_append, rep_eq s W, quo_eq s W he]
      rw [← hsep, finish_eq s huq]
    · -- `key value`
      have hmk : matchesKw (mkPart s it0.key t0) = false := matchesKw_space s _ _ hK0.1 hst
      have hshape : s.attrs.flatMap (renderItem s) =
          mkPart s it0.key t0 :: rest.map (fun kv => mkPart s kv.1 kv.2) := by
        rw [hparts, hpairs]; rfl
      have hkv : (spacePieces (s.attrs.flatMap (renderItem s))).mapM headRest =
          .ok ((allPairs s).map (fun kv => [kv.1, kv.2])) := by
        unfold spacePieces
        rw [hparts, List.map_map]
        apply mapM_ok_map
        intro kv hkv
        have := pair_facts s W kv hkv
        exact part_space_split s kv.1 kv.2 this.1 this.2 hst
      have hlead : (s.attrs.flatMap (renderItem s)).any (fun p => p.head? == some ';') = false := by
        rw [List.any_eq_false]
        intro p hp
        have := (parts_ok s W p hp).2.1
        simpa using head_ne_of_not_mem p ';' this
      have hsd : spaceD (s.attrs.flatMap (renderItem s)) ({ dInit s.trailing with fieldSep := s.sep }) =
          { dInit s.trailing with fieldSep := s.sep, kvSep := [' '] } := by
        unfold spaceD; simp only [hlead]; rfl
      rw [hshape] at hkv hsd ⊢
      rw [tailStage_space_style _ _ _ _ hmk (allPairs s) hkv, hsd, hfold _ rfl, foldl_dAfter]
      simp only [dInit, Bool.false_or, List.nil_append, rep_eq s W, quo_eq s W he]
      rw [← hsep, finish_eq s huq]
end

end GffProofs.C07
