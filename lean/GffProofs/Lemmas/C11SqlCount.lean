/-
  C11Sql — the number of `?` of a rendered statement is the number of arguments its conditions take, so
  sqlite's "Incorrect number of bindings" is exactly `bind = none`.
-/
import GffProofs.Lemmas.C11SqlEval

namespace GffProofs.C11Sql
open GffModel GffModel.Sql GffModel.Interface

theorem qcount_fcol (c : FCol) : qcount c.name = 0 := by cases c <;> decide
theorem qcount_rcol (c : RCol) : qcount c.name = 0 := by cases c <;> decide

theorem qcount_colRef (c : ColRef) : qcount c.render = 0 := by
  cases c with
  | feat q c =>
    cases q
    · exact qcount_fcol c
    · show qcount ("features.".toList ++ c.name) = 0
      rw [qcount_append, qcount_fcol]; decide
  | rel c =>
    show qcount ("relations.".toList ++ c.name) = 0
    rw [qcount_append, qcount_rcol]; decide

theorem qcount_cmp (op : Cmp) : qcount op.render = 0 := by cases op <;> decide

theorem qcount_cond (c : Cond) : qcount c.render = c.arity := by
  cases c with
  | eqP c =>
    show qcount (c.render ++ " = ?".toList) = 1
    rw [qcount_append, qcount_colRef]; decide
  | inP c n =>
    show qcount (c.render ++ " IN  (".toList ++ placeholders n ++ [')']) = n
    simp only [qcount_append, qcount_colRef, qcount_placeholders]
    have e1 : qcount " IN  (".toList = 0 := by decide
    have e2 : qcount [')'] = 0 := by decide
    omega
  | cmpP c op =>
    show qcount (c.render ++ [' '] ++ op.render ++ " ?".toList) = 1
    simp only [qcount_append, qcount_colRef, qcount_cmp]
    decide
  | inLits c lits =>
    show qcount (c.render ++ " IN (".toList ++ Str.join [','] (lits.map Str.intToStr) ++ [')']) = 0
    simp only [qcount_append, qcount_colRef, qcount_join_ints]
    decide
  | overlapLits hi lo =>
    show qcount ("(start <= ".toList ++ Str.intToStr hi ++ " AND end >= ".toList ++ Str.intToStr lo ++ [')']) = 0
    simp only [qcount_append, qcount_intToStr]
    decide
  | orEqP c n spaced =>
    have hb : qcount (Str.join " or ".toList (List.replicate n (c.render ++ " = ?".toList))) = n := by
      unfold qcount
      rw [count_join_replicate]
      have e1 : List.count '?' (c.render ++ " = ?".toList) = 1 := by
        have := qcount_colRef c
        unfold qcount at this
        rw [List.count_append, this]; decide
      have e2 : List.count '?' " or ".toList = 0 := by decide
      rw [e1, e2]; omega
    cases spaced
    · show qcount (['('] ++ Str.join " or ".toList (List.replicate n (c.render ++ " = ?".toList)) ++ [')']) = n
      simp only [qcount_append, hb]
      have e1 : qcount ['('] = 0 := by decide
      have e2 : qcount [')'] = 0 := by decide
      omega
    · show qcount ("( ".toList ++ Str.join " or ".toList (List.replicate n (c.render ++ " = ?".toList)) ++ " )".toList) = n
      simp only [qcount_append, hb]
      have e1 : qcount "( ".toList = 0 := by decide
      have e2 : qcount " )".toList = 0 := by decide
      omega

def aritySum (cs : List Cond) : Nat := (cs.map Cond.arity).sum

theorem aritySum_append (a b : List Cond) : aritySum (a ++ b) = aritySum a + aritySum b := by
  simp [aritySum]

theorem qcount_optRender (c : Option Cond) : qcount (optRender c) = aritySum c.toList := by
  cases c with
  | none => rfl
  | some c => simp [optRender, qcount_cond, aritySum]

theorem qcount_conjRender (cs : List Cond) : qcount (conjRender cs) = aritySum cs := by
  unfold conjRender qcount aritySum
  rw [count_join]
  have e : List.count '?' " AND ".toList = 0 := by decide
  rw [e, Nat.mul_zero, Nat.add_zero, List.map_map]
  congr 1
  apply List.map_congr_left
  intro c _
  exact qcount_cond c

/-! ### binding succeeds exactly when the number of arguments is the total arity -/

theorem bindCond_some (c : Cond) (args : List SqlArg) (b : BCond) (rest : List SqlArg)
    (h : bindCond c args = some (b, rest)) : args.length = c.arity + rest.length := by
  cases c with
  | eqP col =>
    cases args with
    | nil => simp [bindCond] at h
    | cons v t =>
      simp only [bindCond, Option.some.injEq, Prod.mk.injEq] at h
      obtain ⟨_, rfl⟩ := h
      simp [Cond.arity]; omega
  | cmpP col op =>
    cases args with
    | nil => simp [bindCond] at h
    | cons v t =>
      simp only [bindCond, Option.some.injEq, Prod.mk.injEq] at h
      obtain ⟨_, rfl⟩ := h
      simp [Cond.arity]; omega
  | inLits col lits =>
    simp only [bindCond, Option.some.injEq, Prod.mk.injEq] at h
    obtain ⟨_, rfl⟩ := h
    simp [Cond.arity]
  | overlapLits hi lo =>
    simp only [bindCond, Option.some.injEq, Prod.mk.injEq] at h
    obtain ⟨_, rfl⟩ := h
    simp [Cond.arity]
  | inP col n =>
    simp only [bindCond] at h
    split at h
    · simp only [Option.some.injEq, Prod.mk.injEq] at h
      obtain ⟨_, rfl⟩ := h
      simp only [Cond.arity, List.length_drop]; omega
    · cases h
  | orEqP col n sp =>
    simp only [bindCond] at h
    split at h
    · simp only [Option.some.injEq, Prod.mk.injEq] at h
      obtain ⟨_, rfl⟩ := h
      simp only [Cond.arity, List.length_drop]; omega
    · cases h

theorem bindCond_isSome (c : Cond) (args : List SqlArg) (h : c.arity ≤ args.length) : (bindCond c args).isSome = true := by
  cases c with
  | eqP col => cases args with | nil => simp [Cond.arity] at h | cons _ _ => rfl
  | cmpP col op => cases args with | nil => simp [Cond.arity] at h | cons _ _ => rfl
  | inLits col lits => rfl
  | overlapLits hi lo => rfl
  | inP col n => simp only [Cond.arity] at h; simp [bindCond, h]
  | orEqP col n sp => simp only [Cond.arity] at h; simp [bindCond, h]

theorem bindConds_isSome_iff (cs : List Cond) (args : List SqlArg) :
    (bindConds cs args).isSome = true ↔ args.length = aritySum cs := by
  induction cs generalizing args with
  | nil => cases args <;> simp [bindConds, aritySum]
  | cons c cs ih =>
    rw [bindConds_cons]
    have hsum : aritySum (c :: cs) = c.arity + aritySum cs := by simp [aritySum]
    constructor
    · intro h
      cases hc : bindCond c args with
      | none => rw [hc] at h; cases h
      | some p =>
        obtain ⟨b, rest⟩ := p
        rw [hc] at h
        simp only [Option.isSome_map] at h
        have h1 := bindCond_some c args b rest hc
        have h2 := (ih rest).mp h
        omega
    · intro h
      have hle : c.arity ≤ args.length := by omega
      cases hc : bindCond c args with
      | none =>
        have := bindCond_isSome c args hle
        rw [hc] at this; cases this
      | some p =>
        obtain ⟨b, rest⟩ := p
        simp only [Option.isSome_map]
        have h1 := bindCond_some c args b rest hc
        exact (ih rest).mpr (by omega)

/-! ### `?` count of a whole statement -/

/-- no unvalidated ORDER BY text -/
def NoRaw (q : SqlQuery) : Prop := ∀ ts d, q.core.order = some (ts, d) → AllKeys ts

theorem qcount_orderKey (k : OrderKey) : qcount k.render = 0 := by
  cases k with
  | col c => exact qcount_fcol c
  | fileOrder => decide
  | length => decide

theorem qcount_renderOrder (o : Option (List OrderTerm × Bool)) (h : ∀ ts d, o = some (ts, d) → AllKeys ts) :
    qcount (renderOrder o) = 0 := by
  cases o with
  | none => rfl
  | some p =>
    obtain ⟨ts, d⟩ := p
    apply qcount_orderText
    intro t ht
    rcases List.mem_map.mp ht with ⟨x, hx, rfl⟩
    obtain ⟨k, rfl⟩ := h ts d rfl x hx
    exact qcount_orderKey k

theorem qcount_selectDistinctText : qcount selectDistinctText = 0 := by decide +kernel

theorem qcount_select (s : Select) (h : NoRaw (.select s)) :
    qcount s.render = aritySum (SqlQuery.select s).core.conds := by
  rw [Select.render_eq, core_select]
  unfold Select.renderRest
  simp only [qcount_append, qcount_prefixSlot, qcount_optRender, qcount_conjRender, aritySum_append]
  have e0 : qcount (if s.distinct = true then selectDistinctText else selectText) = 0 := by
    cases s.distinct
    · exact qcount_selectText
    · exact qcount_selectDistinctText
  have e1 : qcount [' '] = 0 := by decide
  have e2 : qcount (renderOrder s.order) = 0 := qcount_renderOrder s.order (fun ts d hs => h ts d hs)
  rw [e0, e1, e2]
  cases s.join with
  | none => simp [aritySum, qcount_nil]
  | some p =>
    obtain ⟨on, to⟩ := p
    simp only [qcount_otherText]
    simp [aritySum, Cond.arity]

theorem qcount_region (r : RegionStmt) : qcount r.render = aritySum (SqlQuery.region r).core.conds := by
  rw [RegionStmt.render_eq]
  show _ = aritySum (r.position ++ r.bin.toList ++ r.ft.toList ++ r.strand.toList)
  simp only [qcount_append, aritySum_append]
  have e1 : qcount (Str.join [' '] [selectText, "WHERE ".toList, conjRender r.position, binTextOf r.bin]) =
      aritySum r.position + aritySum r.bin.toList := by
    unfold qcount
    rw [count_join]
    simp only [List.map_cons, List.map_nil, List.sum_cons, List.sum_nil, List.length_cons, List.length_nil]
    have a1 := qcount_selectText
    have a2 : qcount "WHERE ".toList = 0 := by decide
    have a3 := qcount_conjRender r.position
    have a4 : qcount (binTextOf r.bin) = aritySum r.bin.toList := by
      cases r.bin with
      | none => rfl
      | some c =>
        show qcount ("AND ".toList ++ c.render) = _
        rw [qcount_append, qcount_cond]
        simp [aritySum]; decide
    have a5 : List.count '?' [' '] = 0 := by decide
    unfold qcount at a1 a2 a3 a4
    rw [a1, a2, a3, a4, a5]; omega
  have e2 : qcount (ftTextOf r.ft) = aritySum r.ft.toList := by
    cases r.ft with
    | none => rfl
    | some c =>
      show qcount (" AND ".toList ++ c.render ++ [' ']) = _
      simp only [qcount_append, qcount_cond]
      have a1 : qcount " AND ".toList = 0 := by decide
      have a2 : qcount [' '] = 0 := by decide
      rw [a1, a2]
      simp [aritySum]
  have e3 : qcount (strandTextOf r.strand) = aritySum r.strand.toList := by
    cases r.strand with
    | none => rfl
    | some c =>
      show qcount (" and ".toList ++ c.render ++ [' ']) = _
      simp only [qcount_append, qcount_cond]
      have a1 : qcount " and ".toList = 0 := by decide
      have a2 : qcount [' '] = 0 := by decide
      rw [a1, a2]
      simp [aritySum]
  rw [e1, e2, e3]

/-- **general lock-step**: for every statement of the AST (without unvalidated ORDER BY text), the number of `?`
in its text is the total arity of its conditions … -/
theorem qcount_render (q : SqlQuery) (h : NoRaw q) : qcount (render q) = aritySum q.core.conds := by
  cases q with
  | select s => exact qcount_select s h
  | region r => exact qcount_region r
  | count b => cases b <;> decide +kernel
  | distinctCol c => cases c <;> decide +kernel

/-- … hence sqlite accepts the argument list (`bind` succeeds) exactly when its length is the number of `?` -/
theorem bind_isSome_iff (q : SqlQuery) (args : List SqlArg) (h : NoRaw q) :
    (Sql.bind q args).isSome = true ↔ qcount (render q) = args.length := by
  unfold Sql.bind
  rw [Option.isSome_map, bindConds_isSome_iff, qcount_render q h]
  exact eq_comm

end GffProofs.C11Sql
