/-
  Lemmas about Python's `split`/`join` (GffModel.Str): the leftmost split of a join returns the parts
  when the separator has a "mark" character that occurs in no part and not before the mark inside the
  separator itself.  All three field separators (`;`, `; `, ` ; `) have mark `;`; `=`, ` `, `,` and
  tab are their own marks.
-/
import GffModel.Str

namespace GffProofs
open GffModel GffModel.Str

theorem splitAux_nil (sep acc : Str) : splitAux sep [] acc = [acc.reverse] := by
  unfold splitAux; rfl

theorem splitAux_cons (sep : Str) (c : Char) (cs acc : Str) :
    splitAux sep (c :: cs) acc =
      if sep.isPrefixOf (c :: cs) ∧ sep ≠ [] then
        acc.reverse :: splitAux sep ((c :: cs).drop sep.length) []
      else splitAux sep cs (c :: acc) := by
  rw [splitAux]

section
variable (pre post : Str) (c : Char) (npre : c ∉ pre)

theorem mark_of_prefix {t : Str}
    (h : (pre ++ c :: post).isPrefixOf t = true) : t[pre.length]? = some c := by
  obtain ⟨u, rfl⟩ := List.isPrefixOf_iff_prefix.mp h
  simp

include npre in
theorem no_match_in_part (x : Char) (p t : Str)
    (hx : x ≠ c) (hp : c ∉ p) : (pre ++ c :: post).isPrefixOf (x :: p ++ (pre ++ c :: post) ++ t) = false := by
  cases hcon : (pre ++ c :: post).isPrefixOf (x :: p ++ (pre ++ c :: post) ++ t) with
  | false => rfl
  | true =>
    exfalso
    have h := mark_of_prefix pre post c hcon
    have hxp : c ∉ (x :: p) := by simp [hp, Ne.symm hx]
    rw [List.append_assoc] at h
    by_cases hl : pre.length < (x :: p).length
    · rw [List.getElem?_append_left hl] at h
      exact hxp (List.mem_of_getElem? h)
    · rw [List.getElem?_append_right (by omega)] at h
      have hlt : pre.length - (x :: p).length < pre.length := by
        simp only [List.length_cons]; simp only [List.length_cons] at hl; omega
      rw [List.append_assoc, List.getElem?_append_left hlt] at h
      exact npre (List.mem_of_getElem? h)

theorem no_match_last (p : Str) (hp : c ∉ p) : (pre ++ c :: post).isPrefixOf p = false := by
  cases hcon : (pre ++ c :: post).isPrefixOf p with
  | false => rfl
  | true => exact absurd (List.mem_of_getElem? (mark_of_prefix pre post c hcon)) hp

include npre in
theorem splitAux_part_sep (p t acc : Str) (hp : c ∉ p) :
    splitAux (pre ++ c :: post) (p ++ (pre ++ c :: post) ++ t) acc
      = (acc.reverse ++ p) :: splitAux (pre ++ c :: post) t [] := by
  induction p generalizing acc with
  | nil =>
    have hne : (pre ++ c :: post) ≠ [] := by simp
    obtain ⟨s0, ss, hs⟩ : ∃ s0 ss, (pre ++ c :: post) = s0 :: ss := by
      cases h : (pre ++ c :: post) with
      | nil => exact absurd h hne
      | cons a b => exact ⟨a, b, rfl⟩
    have hpre : (pre ++ c :: post).isPrefixOf ((pre ++ c :: post) ++ t) = true :=
      List.isPrefixOf_iff_prefix.mpr (List.prefix_append _ _)
    simp only [List.nil_append, List.append_nil]
    generalize hS : (pre ++ c :: post) = S at *
    subst hs
    rw [List.cons_append, splitAux_cons, ← List.cons_append]
    simp
  | cons x p ih =>
    have hx : x ≠ c := by intro h; apply hp; simp [h]
    have hp' : c ∉ p := by intro h; apply hp; simp [h]
    have hno := no_match_in_part pre post c npre x p t hx hp'
    rw [List.cons_append, List.cons_append, splitAux_cons]
    rw [← List.cons_append, ← List.cons_append]
    simp only [hno, Bool.false_eq_true, false_and, if_false]
    rw [ih (x :: acc) hp']
    simp

theorem splitAux_last (p acc : Str) (hp : c ∉ p) :
    splitAux (pre ++ c :: post) p acc = [acc.reverse ++ p] := by
  induction p generalizing acc with
  | nil => simp [splitAux_nil]
  | cons x p ih =>
    have hp' : c ∉ p := by intro h; apply hp; simp [h]
    have hno := no_match_last pre post c (x :: p) hp
    rw [splitAux_cons]
    simp only [hno, Bool.false_eq_true, false_and, if_false]
    rw [ih (x :: acc) hp']; simp

include npre in
/-- Python: `sep.join(parts).split(sep) == parts` when no part contains the separator's mark. -/
theorem split_join (parts : List Str)
    (hne : parts ≠ []) (hp : ∀ p ∈ parts, c ∉ p) :
    split (pre ++ c :: post) (join (pre ++ c :: post) parts) = parts := by
  unfold split
  induction parts with
  | nil => exact absurd rfl hne
  | cons p rest ih =>
    cases rest with
    | nil => simp [join, splitAux_last pre post c p [] (hp p (by simp))]
    | cons q rest =>
      have := splitAux_part_sep pre post c npre p (join (pre ++ c :: post) (q :: rest)) [] (hp p (by simp))
      simp only [join]
      rw [this, ih (by simp) (fun p' h => hp p' (by simp [h]))]
      simp
end

example : split "; ".toList (join "; ".toList ["a=1".toList, " b ".toList, []]) = ["a=1".toList, " b ".toList, []] :=
  split_join [] [' '] ';' (by simp) _ (by simp) (by decide)

end GffProofs
