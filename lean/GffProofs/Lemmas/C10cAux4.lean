/-
  C10c — helper lemmas, part 4: histories (lists of batches), first boundaries.
-/
import GffProofs.Lemmas.C10cAux3

namespace GffProofs.C10c
open GffModel GffModel.Create GffModel.Interface
open GffProofs.C03 GffProofs.C10
open GffProofs.C04 (autoId incr_spec)

theorem snoc_induction {α : Type} {P : List α → Prop} (hnil : P []) (hsnoc : ∀ l a, P l → P (l ++ [a])) :
    ∀ l, P l := by
  intro l
  have : ∀ r : List α, P r.reverse := by
    intro r
    induction r with
    | nil => exact hnil
    | cons a r ih => rw [List.reverse_cons]; exact hsnoc _ _ ih
  simpa using this l.reverse

theorem snoc_split {α : Type} (bs : List α) (b : α) (B1 : List α) (x : α) (B2 : List α)
    (h : bs ++ [b] = B1 ++ x :: B2) :
    (B2 = [] ∧ B1 = bs ∧ x = b) ∨ ∃ B2', B2 = B2' ++ [b] ∧ bs = B1 ++ x :: B2' := by
  rcases List.eq_nil_or_concat B2 with rfl | ⟨B2', y, rfl⟩
  · left
    have := List.append_inj' h rfl
    simp only [List.cons.injEq, and_true] at this
    exact ⟨rfl, this.1.symm, this.2.symm⟩
  · right
    have h' : bs ++ [b] = (B1 ++ x :: B2') ++ [y] := by simpa using h
    have := List.append_inj' h' rfl
    simp only [List.cons.injEq, and_true] at this
    exact ⟨B2', by rw [this.2]; simp, this.1⟩

theorem flatten_snoc {α : Type} (bs : List (List α)) (b : List α) : (bs ++ [b]).flatten = bs.flatten ++ b := by
  simp

/-- a first boundary is a prefix of the whole history -/
theorem bornAt_prefix {b0 : List Feature} {bs : List (List Feature)} {own : List Feature → Prop} {P : List Feature}
    (h : BornAt b0 bs own P) : P <+: b0 ++ bs.flatten := by
  rcases h.2 with rfl | ⟨B1, b, B2, rfl, rfl, _⟩
  · exact List.prefix_append _ _
  · refine ⟨B2.flatten, ?_⟩
    simp [List.append_assoc]

/-- first boundaries of a history extended by one batch -/
theorem bornAt_snoc {b0 : List Feature} {bs : List (List Feature)} {b : List Feature} {own : List Feature → Prop}
    {P : List Feature} (h : BornAt b0 (bs ++ [b]) own P) :
    BornAt b0 bs own P ∨ (P = b0 ++ bs.flatten ++ b ∧ ¬ own (b0 ++ bs.flatten)) := by
  obtain ⟨hown, hP⟩ := h
  rcases hP with rfl | ⟨B1, x, B2, hsplit, rfl, hnot⟩
  · exact Or.inl ⟨hown, Or.inl rfl⟩
  · rcases snoc_split bs b B1 x B2 hsplit with ⟨_, rfl, rfl⟩ | ⟨B2', _, rfl⟩
    · exact Or.inr ⟨rfl, hnot⟩
    · exact Or.inl ⟨hown, Or.inr ⟨B1, x, B2', rfl, rfl, hnot⟩⟩

theorem bornAt_extend {b0 : List Feature} {bs : List (List Feature)} (b : List Feature) {own : List Feature → Prop}
    {P : List Feature} (h : BornAt b0 bs own P) : BornAt b0 (bs ++ [b]) own P := by
  obtain ⟨hown, hP⟩ := h
  refine ⟨hown, ?_⟩
  rcases hP with rfl | ⟨B1, x, B2, rfl, rfl, hnot⟩
  · exact Or.inl rfl
  · exact Or.inr ⟨B1, x, B2 ++ [b], by simp, rfl, hnot⟩

/-- whoever owns at the end of the history was born at some boundary -/
theorem bornAt_exists (b0 : List Feature) (own : List Feature → Prop) : ∀ (bs : List (List Feature)),
    own (b0 ++ bs.flatten) → ∃ P, BornAt b0 bs own P := by
  apply snoc_induction
  · intro h
    exact ⟨b0, by simpa using h, Or.inl rfl⟩
  · intro bs b ih h
    by_cases hprev : own (b0 ++ bs.flatten)
    · obtain ⟨P, hP⟩ := ih hprev
      exact ⟨P, bornAt_extend b hP⟩
    · refine ⟨b0 ++ bs.flatten ++ b, ?_, Or.inr ⟨bs, b, [], rfl, rfl, hprev⟩⟩
      rw [flatten_snoc, ← List.append_assoc] at h
      exact h

/-! ### `updates` -/

theorem updates_snoc (cfg : Cfg) : ∀ (bs : List (List Feature)) (s : Session) (b : List Feature),
    updates cfg s (bs ++ [b]) = updates cfg s bs >>= fun s' => update s' cfg b := by
  intro bs
  induction bs with
  | nil =>
    intro s b
    simp only [List.nil_append, updates, bind, Except.bind]
    cases update s cfg b <;> rfl
  | cons x bs ih =>
    intro s b
    simp only [List.cons_append, updates, bind, Except.bind]
    cases update s cfg x with
    | error e => rfl
    | ok s1 => exact ih s1 b

/-- counters only grow along any sequence of updates (any configuration, any input) -/
theorem updates_counters (cfg : Cfg) : ∀ (bs : List (List Feature)) (s s' : Session),
    updates cfg s bs = .ok s' → CountersLe s.auto s'.auto := by
  intro bs
  induction bs with
  | nil => intro s s' h; cases h; exact CountersLe.refl _
  | cons b bs ih =>
    intro s s' h
    simp only [updates, bind, Except.bind] at h
    cases h1 : update s cfg b with
    | error e => rw [h1] at h; cases h
    | ok s1 =>
      rw [h1] at h
      exact (counters_monotone s s1 cfg b h1).1.trans (ih s1 s' h)

/-! ### ownership and derived rows along prefixes -/

theorem ownsId_mono {cfg : Cfg} {a b : List Feature} (h : a <+: b) {id : Str} (ho : OwnsId cfg a id) : OwnsId cfg b id := by
  rcases ho with ⟨g, ho⟩ | ho
  · exact Or.inl ⟨g, tOwns_mono (fun x hx => mem_of_prefix h hx) ho⟩
  · exact Or.inr (gOwns_mono (fun x hx => mem_of_prefix h hx) ho)

theorem derivedAt_id {cfg : Cfg} {F : List Feature} {row : Row} (h : DerivedAt cfg F row) : OwnsId cfg F row.id := by
  rcases h with ⟨t, g, ho, hr⟩ | ⟨g, ho, hr⟩
  · rw [hr.id]; exact Or.inl ⟨g, ho⟩
  · rw [hr.id]; exact Or.inr ho

theorem staleDerived_iff {cfg : Cfg} {fs : List Feature} {row : Row} :
    StaleDerived cfg fs row ↔ ∃ fs', fs' <+: fs ∧ DerivedAt cfg fs' row := by
  constructor
  · rintro (⟨t, g, fs', hp, ho, hr⟩ | ⟨g, fs', hp, ho, hr⟩)
    · exact ⟨fs', hp, Or.inl ⟨t, g, ho, hr⟩⟩
    · exact ⟨fs', hp, Or.inr ⟨g, ho, hr⟩⟩
  · rintro ⟨fs', hp, (⟨t, g, ho, hr⟩ | ⟨g, ho, hr⟩)⟩
    · exact Or.inl ⟨t, g, fs', hp, ho, hr⟩
    · exact Or.inr ⟨g, fs', hp, ho, hr⟩

theorem derivedSpec_at {cfg : Cfg} {F : List Feature} {row : Row} (h : DerivedSpec cfg F row) : DerivedAt cfg F row := by
  rcases h with ⟨_, t, g, ho, _, hr⟩ | ⟨_, g, ho, _, hr⟩
  · exact Or.inl ⟨t, g, ho, hr⟩
  · exact Or.inr ⟨g, ho, hr⟩

theorem hasExplicit_mono {cfg : Cfg} {a b : List Feature} {id : Str} (h : HasExplicit cfg a id) :
    HasExplicit cfg (a ++ b) id := by
  obtain ⟨fk, hfk, hex, hid⟩ := h
  exact ⟨fk, mem_keyed_append_left hfk, hex, hid⟩

theorem ownsId_ids {cfg : Cfg} {F : List Feature} {id : Str} (h : OwnsId cfg F id) :
    id ∈ tids cfg F ∨ id ∈ gids cfg F := by
  rcases h with ⟨g, f, hf, _, htid, _⟩ | ⟨t, f, hf, _, _, hgid⟩
  · exact Or.inl (mem_tids hf htid)
  · exact Or.inr (mem_gids hf hgid)

/-- an id that owns an exon and has no explicit line has a derived row in the specification, when the
inference of its kind is enabled -/
theorem derivedSpec_exists {cfg : Cfg} {F : List Feature} (hc : CfgOk cfg) (h : GtfOk cfg F) (he : ExtOk cfg F)
    {db : Db} {auto : Dict Nat} (inv : GtfDbInv cfg F db auto) {id : Str} (hne : ¬ HasExplicit cfg F id) :
    (cfg.disableTranscripts = false → ∀ g, TOwns cfg F id g → ∃ row, DerivedSpec cfg F row ∧ row.id = id) ∧
    (cfg.disableGenes = false → GOwns cfg F id → ∃ row, DerivedSpec cfg F row ∧ row.id = id) := by
  constructor
  · intro hd g ho
    exact ⟨_, Or.inl ⟨hd, id, g, ho, hne, isTranscriptRow_mkTG hc h he inv ho⟩, rfl⟩
  · intro hd ho
    exact ⟨_, Or.inr ⟨hd, id, ho, hne, isGeneRow_mkGG hc h he inv ho⟩, rfl⟩

end GffProofs.C10c
