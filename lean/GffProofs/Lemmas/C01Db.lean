/-
  Helper lemmas for C01, parts B and C: the row ↔ Feature conversion and the GFF importer's feature
  table, row by row (C02 tracks only the ids; here the whole rows and the side tables are tracked).
-/
import GffProofs.Props.C02
import GffProofs.Props.C11
import GffProofs.Props.C01Spec

namespace GffProofs.C01
open GffModel GffModel.Create GffModel.Interface
open GffProofs.C02 (idOf GraphOk gffCfg)

/-! ### part B: `Feature.astuple()` and `Feature(dialect=…, **row)` -/

theorem ofFeature_eq (f : Feature) (id : Str) (hid : f.id = some id) : Row.ofFeature f = .ok (rowOf f id) := by
  unfold Row.ofFeature
  rw [hid]
  simp only
  split
  · rename_i bs hb
    exact absurd hb (C02.calcBin_ne_set _ _ _)
  · rfl

theorem binCol_int (f : Feature) : (binCol f).map (fun b => Bins.BinResult.int b) = Feature.calcBin f.start f.stop := by
  unfold binCol
  cases h : Feature.calcBin f.start f.stop with
  | none => rfl
  | some b =>
    cases b with
    | int i => rfl
    | set bs => exact absurd h (C02.calcBin_ne_set _ _ _)

theorem toFeature_rowOf (f : Feature) (id : Str) (d : Dialect) (ko sv : Bool) :
    (rowOf f id).toFeature d ko sv =
      { f with bin := Feature.calcBin f.start f.stop, id := some id, dialect := d, fileOrder := none,
               keepOrder := ko, sortVals := sv } := by
  unfold Row.toFeature rowOf
  simp only [binCol_int]

/-! ### part C: `_populate_from_lines`, row by row -/

/-- the tables other than `features` and `relations` -/
def side (db : Db) : List Dialect × List Str × Dict Nat × List (Str × Str) :=
  (db.metaRows, db.directives, db.autoinc, db.duplicates)

theorem insertRelIgnore_side (db : Db) (r : Rel) : side (db.insertRelIgnore r) = side db := by
  unfold Db.insertRelIgnore; split <;> rfl

theorem foldl_keeps {α β : Type} (g : Db → β) (f : Db → α → Db) (hf : ∀ db a, g (f db a) = g db)
    (l : List α) (db : Db) : g (l.foldl f db) = g db := by
  induction l generalizing db with
  | nil => rfl
  | cons a l ih => rw [List.foldl_cons, ih, hf]

theorem updateRelationsGff_side (db : Db) : side (updateRelationsGff db) = side db := by
  unfold updateRelationsGff
  apply foldl_keeps side
  intro acc parent
  apply foldl_keeps side
  intro acc' g
  exact insertRelIgnore_side _ _

theorem gffStep_eq (strategy : Strategy) (d : Dialect) (db : Db) (auto : Dict Nat) (f : Feature) (id : Str)
    (hid : idOf f = some id) (hfresh : id ∉ db.features.map (·.id)) :
    gffStep (gffCfg strategy d) (db, auto) f =
      .ok (((f.attrs.get? parentKey).getD []).foldl (fun db p => db.insertRelIgnore ⟨p, id, 1⟩)
            { db with features := db.features ++ [storedRow f] }, auto) := by
  have hrow : Row.ofFeature { f with id := some id } = .ok (storedRow f) := by
    rw [ofFeature_eq { f with id := some id } id rfl]
    unfold storedRow; rw [hid]; rfl
  have hins := C02.insert_fresh db (storedRow f) (by
    have : (storedRow f).id = id := by unfold storedRow; rw [hid]; rfl
    rw [this]; exact hfresh)
  simp only [gffStep, gffCfg, C02.idHandler_default auto f id hid, fileFeature, hrow, hins, bind, Except.bind,
    pure, Except.pure]

theorem storedRow_id (f : Feature) (id : Str) (hid : idOf f = some id) : (storedRow f).id = id := by
  unfold storedRow; rw [hid]; rfl

theorem map_storedRow_id (fs : List Feature) (h : ∀ f ∈ fs, ∃ id, idOf f = some id) :
    (fs.map storedRow).map (·.id) = fs.filterMap idOf := by
  induction fs with
  | nil => rfl
  | cons f fs ih =>
    obtain ⟨id, hid⟩ := h f (by simp)
    simp only [List.map_cons, List.filterMap_cons, hid, storedRow_id f id hid]
    rw [ih (fun g hg => h g (by simp [hg]))]

theorem foldlM_rows (strategy : Strategy) (d : Dialect) (auto : Dict Nat) (post : List Feature) :
    ∀ (db : Db), (∀ f ∈ post, ∃ id, idOf f = some id) →
      (db.features.map (·.id) ++ post.filterMap idOf).Nodup →
      ∃ db', post.foldlM (gffStep (gffCfg strategy d)) (db, auto) = .ok (db', auto) ∧
        db'.features = db.features ++ post.map storedRow ∧ side db' = side db := by
  induction post with
  | nil => intro db _ _; exact ⟨db, rfl, by simp, rfl⟩
  | cons f post ih =>
    intro db hids hnd
    obtain ⟨id, hid⟩ := hids f (by simp)
    have hfresh : id ∉ db.features.map (·.id) := by
      intro hmem
      rw [List.filterMap_cons, hid, List.nodup_append] at hnd
      exact hnd.2.2 id hmem id (by simp) rfl
    have hstep := gffStep_eq strategy d db auto f id hid hfresh
    generalize hdb1 : (((f.attrs.get? parentKey).getD []).foldl (fun db p => db.insertRelIgnore ⟨p, id, 1⟩)
            { db with features := db.features ++ [storedRow f] }) = db1 at hstep
    have hf1 : db1.features = db.features ++ [storedRow f] := by
      rw [← hdb1, C02.foldl_insertRel_features]
    have hs1 : side db1 = side db := by
      rw [← hdb1]
      exact foldl_keeps side _ (fun db p => insertRelIgnore_side db _) _ _
    obtain ⟨db2, h2, hf2, hs2⟩ := ih db1 (fun g hg => hids g (by simp [hg])) (by
      rw [hf1]
      simp only [List.map_append, List.map_cons, List.map_nil, storedRow_id f id hid]
      rw [List.filterMap_cons, hid] at hnd
      simpa using hnd)
    refine ⟨db2, ?_, ?_, ?_⟩
    · simp only [List.foldlM_cons, hstep, bind, Except.bind]
      exact h2
    · rw [hf2, hf1]; simp
    · rw [hs2, hs1]

/-- the database `create_db` returns for a GFF3 file with unique single-valued IDs: its feature table
is the input, row by row, in order; one meta row; the directives; no counters -/
theorem createDb_rows (strategy : Strategy) (d : Dialect) (dirs : List Str) (fs : List Feature) (h : GraphOk fs) :
    ∃ db, createDb .gff (gffCfg strategy d) dirs fs = .ok db ∧ db.features = fs.map storedRow ∧
      db.metaRows = [d] ∧ db.directives = dirs ∧ db.autoinc = [] := by
  have hne : fs.isEmpty = false := by
    cases fs with
    | nil => exact absurd rfl h.nonempty
    | cons a l => rfl
  obtain ⟨db0, h0, hf0, hs0⟩ := foldlM_rows strategy d [] fs {} h.ids (by simpa using h.nodup)
  have hpop : populateGff (gffCfg strategy d) {} [] fs = .ok (db0, []) := by
    unfold populateGff; rw [hne]; exact h0
  have hside := updateRelationsGff_side db0
  rw [hs0] at hside
  simp only [side, Prod.mk.injEq] at hside
  obtain ⟨hm, hdir, hau, _⟩ := hside
  refine ⟨finalize (updateRelationsGff db0) d dirs [], ?_, ?_, ?_, ?_, ?_⟩
  · simp only [createDb, hpop, bind, Except.bind, pure, Except.pure]
    rfl
  · rw [C02.finalize_features, C02.updateRelationsGff_features, hf0]; simp
  · show (updateRelationsGff db0).metaRows ++ [d] = [d]
    rw [hm]; rfl
  · show (updateRelationsGff db0).directives ++ dirs = dirs
    rw [hdir]; rfl
  · simp only [finalize, hau]; rfl

/-- the directives passed to `create_db` influence only the `directives` table -/
theorem createDb_gff_dirs (cfg : Cfg) (dirs dirs' : List Str) (fs : List Feature) (db : Db)
    (h : createDb .gff cfg dirs fs = .ok db) :
    ∃ db', createDb .gff cfg dirs' fs = .ok db' ∧ db'.features = db.features ∧ db'.relations = db.relations ∧
      db'.metaRows = db.metaRows ∧ db'.autoinc = db.autoinc ∧ db'.duplicates = db.duplicates := by
  unfold createDb at h ⊢
  simp only [bind, Except.bind, pure, Except.pure] at h ⊢
  cases hp : populateGff cfg {} [] fs with
  | error e => rw [hp] at h; cases h
  | ok r =>
    obtain ⟨db0, auto⟩ := r
    rw [hp] at h
    simp only at h ⊢
    cases h
    exact ⟨_, rfl, rfl, rfl, rfl, rfl, rfl⟩

end GffProofs.C01
