/-
  Helper lemmas for C05 (duplicate keys follow merge_strategy).  Generic facts about model functions:
  `Dict`, `unionAttrs`, the `setCol` / `modifyRow` folds over `force_merge_fields`, `candidates`,
  `doMerge` with the `merge` strategy, the unfolding of `gffStep` / `gtfStep`, folds in `Except`,
  generated ids `<key>_<n>`.  Named sub-expressions of the model (`candRows`, `dedupPrint`, `agreesB`,
  `matched`, `mergedAttrs`, `exemptText`, `colCopy`, `attachParents`, `attachGtf`) are introduced here so
  that the property file can speak about them; they are characterised by theorems in `Props/C05.lean`.
-/
import GffModel.Interface
import GffProofs.Props.C02
import GffProofs.Props.C04
import GffProofs.Props.C11

namespace GffProofs.C05
open GffModel GffModel.Create GffModel.Interface
open GffProofs.C04 (autoId incr_spec IdsNodup)
open GffProofs.C02 (idOf parentsOf gffCfg)

/-! ### `Dict` -/

theorem get?_eq_none_iff {α : Type} (d : Dict α) (k : Str) : Dict.get? d k = none ↔ k ∉ Dict.keys d := by
  induction d with
  | nil => simp [Dict.get?, Dict.keys]
  | cons p rest ih =>
    obtain ⟨k', v'⟩ := p
    by_cases h : k' = k
    · simp [Dict.get?, Dict.keys, h]
    · have h' : ¬ k = k' := fun e => h e.symm
      simp only [Dict.get?, h, if_false, ih, Dict.keys, List.map_cons, List.mem_cons, h', false_or]

theorem get?_mem {α : Type} (d : Dict α) (k : Str) (v : α) (h : Dict.get? d k = some v) : (k, v) ∈ d := by
  induction d with
  | nil => simp [Dict.get?] at h
  | cons p rest ih =>
    obtain ⟨k', v'⟩ := p
    by_cases hk : k' = k
    · simp only [Dict.get?, hk, if_true, Option.some.injEq] at h
      subst h; subst hk; simp
    · simp only [Dict.get?, hk, if_false] at h
      exact List.mem_cons_of_mem _ (ih h)

theorem keys_set {α : Type} (d : Dict α) (k : Str) (v : α) :
    Dict.keys (Dict.set d k v) = if k ∈ Dict.keys d then Dict.keys d else Dict.keys d ++ [k] := by
  induction d with
  | nil => simp [Dict.set, Dict.keys]
  | cons p rest ih =>
    obtain ⟨k', v'⟩ := p
    by_cases h : k' = k
    · subst h; simp [Dict.set, Dict.keys]
    · have h' : ¬ k = k' := fun e => h e.symm
      simp only [Dict.keys] at ih
      simp only [Dict.set, h, if_false, Dict.keys, List.map_cons, ih, List.mem_cons, h', false_or]
      by_cases hm : k ∈ List.map (fun x => x.fst) rest
      · simp only [hm, if_true]
      · simp only [hm, if_false, List.cons_append]

theorem get?_map_vals {α β : Type} (d : Dict α) (g : α → β) (k : Str) :
    Dict.get? (d.map (fun p => (p.1, g p.2))) k = (Dict.get? d k).map g := by
  induction d with
  | nil => rfl
  | cons p rest ih =>
    obtain ⟨k', v'⟩ := p
    by_cases h : k' = k
    · simp [Dict.get?, h]
    · simp only [List.map_cons, Dict.get?, h, if_false, ih]

theorem keys_map_vals {α β : Type} (d : Dict α) (g : α → β) :
    Dict.keys (d.map (fun p => (p.1, g p.2))) = Dict.keys d := by
  simp [Dict.keys, List.map_map, Function.comp_def]

/-! ### `unionAttrs` -/

/-- values after `unionAttrs`: those already there followed by every value list `ex` has for the key -/
theorem unionAttrs_get (m ex : Attrs) (k : Str) :
    (Dict.get? (unionAttrs m ex) k).getD [] =
      (Dict.get? m k).getD [] ++ (ex.filter (fun p => p.1 = k)).flatMap (·.2) := by
  unfold unionAttrs
  induction ex generalizing m with
  | nil => simp
  | cons p rest ih =>
    obtain ⟨k', vs⟩ := p
    simp only [List.foldl_cons]
    rw [ih]
    by_cases h : k' = k
    · subst h
      simp [C04.Dict.get?_set_self]
    · have h' : k ≠ k' := fun e => h e.symm
      simp [C04.Dict.get?_set_ne _ _ _ _ h', h]

theorem unionAttrs_keys_prefix (m ex : Attrs) : Dict.keys m <+: Dict.keys (unionAttrs m ex) := by
  unfold unionAttrs
  induction ex generalizing m with
  | nil => exact List.prefix_refl _
  | cons p rest ih =>
    simp only [List.foldl_cons]
    refine List.IsPrefix.trans ?_ (ih _)
    rw [keys_set]
    split
    · exact List.prefix_refl _
    · exact List.prefix_append _ _

theorem unionAttrs_mem_keys (m ex : Attrs) (k : Str) :
    k ∈ Dict.keys (unionAttrs m ex) ↔ k ∈ Dict.keys m ∨ k ∈ Dict.keys ex := by
  unfold unionAttrs
  induction ex generalizing m with
  | nil => simp [Dict.keys]
  | cons p rest ih =>
    simp only [List.foldl_cons]
    rw [ih, keys_set]
    have hk : Dict.keys (p :: rest) = p.1 :: Dict.keys rest := rfl
    rw [hk, List.mem_cons]
    by_cases hm : p.fst ∈ Dict.keys m
    · rw [if_pos hm]
      constructor
      · rintro (h | h)
        · exact Or.inl h
        · exact Or.inr (Or.inr h)
      · rintro (h | rfl | h)
        · exact Or.inl h
        · exact Or.inl hm
        · exact Or.inr h
    · rw [if_neg hm]
      simp only [List.mem_append, List.mem_singleton]
      constructor
      · rintro ((h | h) | h)
        · exact Or.inl h
        · exact Or.inr (Or.inl h)
        · exact Or.inr (Or.inr h)
      · rintro (h | h | h)
        · exact Or.inl (Or.inl h)
        · exact Or.inl (Or.inr h)
        · exact Or.inr h

theorem unionAttrs_keys_nodup (m ex : Attrs) (h : (Dict.keys m).Nodup) : (Dict.keys (unionAttrs m ex)).Nodup := by
  unfold unionAttrs
  induction ex generalizing m with
  | nil => exact h
  | cons p rest ih =>
    simp only [List.foldl_cons]
    apply ih
    rw [keys_set]
    split
    · exact h
    · rename_i hn
      rw [List.nodup_append]
      refine ⟨h, by simp, ?_⟩
      intro a ha b hb
      simp only [List.mem_singleton] at hb
      subst hb
      intro e; subst e; exact hn ha

/-! ### `setCol` / `modifyRow` folds over `force_merge_fields` -/

set_option linter.unusedSimpArgs false in
theorem foldl_setCol (fmf : List Str) (T : Str → Str) (ex : Feature) :
    fmf.foldl (fun ex k => setCol ex k (T k)) ex =
      { ex with
        seqid := if "seqid".toList ∈ fmf then T "seqid".toList else ex.seqid
        source := if "source".toList ∈ fmf then T "source".toList else ex.source
        ftype := if "featuretype".toList ∈ fmf then T "featuretype".toList else ex.ftype
        score := if "score".toList ∈ fmf then T "score".toList else ex.score
        strand := if "strand".toList ∈ fmf then T "strand".toList else ex.strand
        frame := if "frame".toList ∈ fmf then T "frame".toList else ex.frame } := by
  have n12 : "seqid".toList ≠ "source".toList := by decide
  have n13 : "seqid".toList ≠ "featuretype".toList := by decide
  have n14 : "seqid".toList ≠ "score".toList := by decide
  have n15 : "seqid".toList ≠ "strand".toList := by decide
  have n16 : "seqid".toList ≠ "frame".toList := by decide
  have n23 : "source".toList ≠ "featuretype".toList := by decide
  have n24 : "source".toList ≠ "score".toList := by decide
  have n25 : "source".toList ≠ "strand".toList := by decide
  have n26 : "source".toList ≠ "frame".toList := by decide
  have n34 : "featuretype".toList ≠ "score".toList := by decide
  have n35 : "featuretype".toList ≠ "strand".toList := by decide
  have n36 : "featuretype".toList ≠ "frame".toList := by decide
  have n45 : "score".toList ≠ "strand".toList := by decide
  have n46 : "score".toList ≠ "frame".toList := by decide
  have n56 : "strand".toList ≠ "frame".toList := by decide
  unfold setCol
  generalize "seqid".toList = c1 at *
  generalize "source".toList = c2 at *
  generalize "featuretype".toList = c3 at *
  generalize "score".toList = c4 at *
  generalize "strand".toList = c5 at *
  generalize "frame".toList = c6 at *
  induction fmf generalizing ex with
  | nil => simp
  | cons k ks ih =>
    simp only [List.foldl_cons]
    rw [ih]
    by_cases h1 : k = c1
    · subst h1; simp [n12, n13, n14, n15, n16, Ne.symm n12, Ne.symm n13, Ne.symm n14, Ne.symm n15, Ne.symm n16]
    by_cases h2 : k = c2
    · subst h2; simp [n12, n23, n24, n25, n26, Ne.symm n12, Ne.symm n23, Ne.symm n24, Ne.symm n25, Ne.symm n26]
    by_cases h3 : k = c3
    · subst h3; simp [n13, n23, n34, n35, n36, Ne.symm n13, Ne.symm n23, Ne.symm n34, Ne.symm n35, Ne.symm n36]
    by_cases h4 : k = c4
    · subst h4; simp [n14, n24, n34, n45, n46, Ne.symm n14, Ne.symm n24, Ne.symm n34, Ne.symm n45, Ne.symm n46]
    by_cases h5 : k = c5
    · subst h5; simp [n15, n25, n35, n45, n56, Ne.symm n15, Ne.symm n25, Ne.symm n35, Ne.symm n45, Ne.symm n56]
    by_cases h6 : k = c6
    · subst h6; simp [n16, n26, n36, n46, n56, Ne.symm n16, Ne.symm n26, Ne.symm n36, Ne.symm n46, Ne.symm n56]
    · have h1' : ¬ c1 = k := fun e => h1 e.symm
      have h2' : ¬ c2 = k := fun e => h2 e.symm
      have h3' : ¬ c3 = k := fun e => h3 e.symm
      have h4' : ¬ c4 = k := fun e => h4 e.symm
      have h5' : ¬ c5 = k := fun e => h5 e.symm
      have h6' : ¬ c6 = k := fun e => h6 e.symm
      simp [h1, h2, h3, h4, h5, h6, h1', h2', h3', h4', h5', h6']

theorem modifyRow_id (db : Db) (fid : Str) : db.modifyRow fid (fun r => r) = db := by
  cases db
  simp [Db.modifyRow]

theorem modifyRow_comp (db : Db) (fid : Str) (g1 g2 : Row → Row) (h1 : ∀ r, (g1 r).id = r.id) :
    (db.modifyRow fid g1).modifyRow fid g2 = db.modifyRow fid (fun r => g2 (g1 r)) := by
  simp only [Db.modifyRow, List.map_map]
  congr 1
  apply List.map_congr_left
  intro x _
  simp only [Function.comp]
  by_cases h : x.id = fid
  · simp [h, h1]
  · simp [h]

theorem foldl_modifyRow {α : Type} (l : List α) (db : Db) (fid : Str) (g : α → Row → Row)
    (hg : ∀ a r, (g a r).id = r.id) :
    l.foldl (fun db a => db.modifyRow fid (g a)) db = db.modifyRow fid (fun r => l.foldl (fun r a => g a r) r) := by
  induction l generalizing db with
  | nil => simp [modifyRow_id]
  | cons a l ih =>
    simp only [List.foldl_cons]
    rw [ih, modifyRow_comp _ _ _ _ (hg a)]

/-- the column copy `fileFeature` performs for one exempt column -/
def colCopy (fx : Feature) (k : Str) (r : Row) : Row :=
  if k = "seqid".toList then { r with seqid := fx.seqid } else if k = "source".toList then { r with source := fx.source }
  else if k = "featuretype".toList then { r with ftype := fx.ftype }
  else if k = "score".toList then { r with score := fx.score }
  else if k = "strand".toList then { r with strand := fx.strand }
  else if k = "frame".toList then { r with frame := fx.frame } else r

theorem colCopy_id (fx : Feature) (k : Str) (r : Row) : (colCopy fx k r).id = r.id := by
  unfold colCopy; (repeat' split) <;> rfl

set_option linter.unusedSimpArgs false in
theorem foldl_colCopy (fmf : List Str) (fx : Feature) (r : Row) :
    fmf.foldl (fun r k => colCopy fx k r) r =
      { r with
        seqid := if "seqid".toList ∈ fmf then fx.seqid else r.seqid
        source := if "source".toList ∈ fmf then fx.source else r.source
        ftype := if "featuretype".toList ∈ fmf then fx.ftype else r.ftype
        score := if "score".toList ∈ fmf then fx.score else r.score
        strand := if "strand".toList ∈ fmf then fx.strand else r.strand
        frame := if "frame".toList ∈ fmf then fx.frame else r.frame } := by
  have n12 : "seqid".toList ≠ "source".toList := by decide
  have n13 : "seqid".toList ≠ "featuretype".toList := by decide
  have n14 : "seqid".toList ≠ "score".toList := by decide
  have n15 : "seqid".toList ≠ "strand".toList := by decide
  have n16 : "seqid".toList ≠ "frame".toList := by decide
  have n23 : "source".toList ≠ "featuretype".toList := by decide
  have n24 : "source".toList ≠ "score".toList := by decide
  have n25 : "source".toList ≠ "strand".toList := by decide
  have n26 : "source".toList ≠ "frame".toList := by decide
  have n34 : "featuretype".toList ≠ "score".toList := by decide
  have n35 : "featuretype".toList ≠ "strand".toList := by decide
  have n36 : "featuretype".toList ≠ "frame".toList := by decide
  have n45 : "score".toList ≠ "strand".toList := by decide
  have n46 : "score".toList ≠ "frame".toList := by decide
  have n56 : "strand".toList ≠ "frame".toList := by decide
  unfold colCopy
  generalize "seqid".toList = c1 at *
  generalize "source".toList = c2 at *
  generalize "featuretype".toList = c3 at *
  generalize "score".toList = c4 at *
  generalize "strand".toList = c5 at *
  generalize "frame".toList = c6 at *
  induction fmf generalizing r with
  | nil => simp
  | cons k ks ih =>
    simp only [List.foldl_cons]
    rw [ih]
    by_cases h1 : k = c1
    · subst h1; simp [n12, n13, n14, n15, n16, Ne.symm n12, Ne.symm n13, Ne.symm n14, Ne.symm n15, Ne.symm n16]
    by_cases h2 : k = c2
    · subst h2; simp [n12, n23, n24, n25, n26, Ne.symm n12, Ne.symm n23, Ne.symm n24, Ne.symm n25, Ne.symm n26]
    by_cases h3 : k = c3
    · subst h3; simp [n13, n23, n34, n35, n36, Ne.symm n13, Ne.symm n23, Ne.symm n34, Ne.symm n35, Ne.symm n36]
    by_cases h4 : k = c4
    · subst h4; simp [n14, n24, n34, n45, n46, Ne.symm n14, Ne.symm n24, Ne.symm n34, Ne.symm n45, Ne.symm n46]
    by_cases h5 : k = c5
    · subst h5; simp [n15, n25, n35, n45, n56, Ne.symm n15, Ne.symm n25, Ne.symm n35, Ne.symm n45, Ne.symm n56]
    by_cases h6 : k = c6
    · subst h6; simp [n16, n26, n36, n46, n56, Ne.symm n16, Ne.symm n26, Ne.symm n36, Ne.symm n46, Ne.symm n56]
    · have h1' : ¬ c1 = k := fun e => h1 e.symm
      have h2' : ¬ c2 = k := fun e => h2 e.symm
      have h3' : ¬ c3 = k := fun e => h3 e.symm
      have h4' : ¬ c4 = k := fun e => h4 e.symm
      have h5' : ¬ c5 = k := fun e => h5 e.symm
      have h6' : ¬ c6 = k := fun e => h6 e.symm
      simp [h1, h2, h3, h4, h5, h6, h1', h2', h3', h4', h5', h6']

/-! ### `candidates` -/

theorem getRow?_some (db : Db) (x : Str) (r : Row) (h : db.getRow? x = some r) :
    r ∈ db.features ∧ r.id = x ∧ db.getRow? r.id = some r := by
  unfold Db.getRow? at h
  have h1 := List.mem_of_find?_eq_some h
  have h2 := List.find?_some h
  simp only [decide_eq_true_eq] at h2
  refine ⟨h1, h2, ?_⟩
  unfold Db.getRow?
  rw [h2]; exact h

/-- the rows `_candidate_merges` looks at: the one stored under `id`, then those recorded in `duplicates` -/
def candRows (db : Db) (id : Str) : List Row :=
  (db.getRow? id).toList ++
    db.duplicates.filterMap (fun (p : Str × Str) => if p.1 = id then db.getRow? p.2 else none)

theorem mem_candRows (db : Db) (id : Str) (r : Row) :
    r ∈ candRows db id ↔
      db.getRow? id = some r ∨ ∃ nid, (id, nid) ∈ db.duplicates ∧ db.getRow? nid = some r := by
  unfold candRows
  simp only [List.mem_append, Option.mem_toList, List.mem_filterMap, Prod.exists]
  constructor
  · rintro (h | ⟨a, b, hab, h⟩)
    · exact Or.inl h
    · split at h
      · rename_i he; subst he; exact Or.inr ⟨b, hab, h⟩
      · cases h
  · rintro (h | ⟨nid, hn, h⟩)
    · exact Or.inl h
    · exact Or.inr ⟨id, nid, hn, by simpa using h⟩

/-- `list(set(...))` on candidates: keep the first of those that print alike -/
def dedupPrint (l : List Feature) : List Feature :=
  l.foldl (fun acc c =>
    if acc.any (fun a => (a.print).toOption == (c.print).toOption) then acc else acc ++ [c]) []

theorem candidates_eq (cfg : Cfg) (db : Db) (id : Str) :
    candidates cfg db id = dedupPrint ((candRows db id).map (fun r => r.toFeature cfg.dialect)) := rfl

theorem dedupPrint_aux (l acc : List Feature) :
    let res := l.foldl (fun acc c =>
      if acc.any (fun a => (a.print).toOption == (c.print).toOption) then acc else acc ++ [c]) acc
    (∀ x, x ∈ res → x ∈ acc ∨ x ∈ l) ∧ (∀ x, x ∈ acc → x ∈ res) ∧
    (∀ c ∈ l, ∃ a ∈ res, (a.print).toOption = (c.print).toOption) := by
  induction l generalizing acc with
  | nil => simp
  | cons c l ih =>
    simp only [List.foldl_cons]
    by_cases hc : acc.any (fun a => (a.print).toOption == (c.print).toOption) = true
    · simp only [hc, if_true]
      obtain ⟨h1, h2, h3⟩ := ih acc
      refine ⟨fun x hx => ?_, h2, fun c' hc' => ?_⟩
      · rcases h1 x hx with h | h
        · exact Or.inl h
        · exact Or.inr (List.mem_cons_of_mem _ h)
      · rcases List.mem_cons.mp hc' with rfl | hc'
        · obtain ⟨a, ha, hae⟩ := List.any_eq_true.mp hc
          exact ⟨a, h2 a ha, by simpa using hae⟩
        · exact h3 c' hc'
    · simp only [hc]
      obtain ⟨h1, h2, h3⟩ := ih (acc ++ [c])
      refine ⟨fun x hx => ?_, fun x hx => h2 x (List.mem_append_left _ hx), fun c' hc' => ?_⟩
      · rcases h1 x hx with h | h
        · rcases List.mem_append.mp h with h | h
          · exact Or.inl h
          · simp only [List.mem_singleton] at h; subst h; exact Or.inr (by simp)
        · exact Or.inr (List.mem_cons_of_mem _ h)
      · rcases List.mem_cons.mp hc' with rfl | hc'
        · exact ⟨c', h2 c' (by simp), rfl⟩
        · exact h3 c' hc'

theorem mem_dedupPrint (l : List Feature) (x : Feature) (h : x ∈ dedupPrint l) : x ∈ l := by
  have := (dedupPrint_aux l []).1 x h
  simpa using this

theorem dedupPrint_cover (l : List Feature) (c : Feature) (h : c ∈ l) :
    ∃ a ∈ dedupPrint l, (a.print).toOption = (c.print).toOption :=
  (dedupPrint_aux l []).2.2 c h

/-- no two listed features print alike ⇒ nothing is dropped -/
theorem dedupPrint_self_aux (l acc : List Feature)
    (h : (acc ++ l).Pairwise (fun a b => (a.print).toOption ≠ (b.print).toOption)) :
    l.foldl (fun acc c =>
      if acc.any (fun a => (a.print).toOption == (c.print).toOption) then acc else acc ++ [c]) acc = acc ++ l := by
  induction l generalizing acc with
  | nil => simp
  | cons c l ih =>
    simp only [List.foldl_cons]
    have hc : acc.any (fun a => (a.print).toOption == (c.print).toOption) = false := by
      rw [List.any_eq_false]
      intro a ha
      have := (List.pairwise_append.mp h).2.2 a ha c (by simp)
      simpa using this
    simp only [hc, Bool.false_eq_true, if_false]
    rw [ih (acc ++ [c]) (by simpa using h)]
    simp

theorem dedupPrint_self (l : List Feature)
    (h : l.Pairwise (fun a b => (a.print).toOption ≠ (b.print).toOption)) : dedupPrint l = l := by
  have := dedupPrint_self_aux l [] (by simpa using h)
  rw [List.nil_append] at this
  exact this

/-- **every merge candidate is a stored row**, namely the row under the key or one recorded for it -/
theorem mem_candidates (cfg : Cfg) (db : Db) (id : Str) (ex : Feature) (h : ex ∈ candidates cfg db id) :
    ∃ r, ex = r.toFeature cfg.dialect ∧ r ∈ db.features ∧ db.getRow? r.id = some r ∧
      (r.id = id ∨ (id, r.id) ∈ db.duplicates) := by
  rw [candidates_eq] at h
  have h := mem_dedupPrint _ _ h
  obtain ⟨r, hr, rfl⟩ := List.mem_map.mp h
  refine ⟨r, rfl, ?_⟩
  rcases (mem_candRows db id r).mp hr with h | ⟨nid, hn, h⟩
  · obtain ⟨h1, h2, h3⟩ := getRow?_some db id r h
    exact ⟨h1, h3, Or.inl h2⟩
  · obtain ⟨h1, h2, h3⟩ := getRow?_some db nid r h
    exact ⟨h1, h3, Or.inr (by rw [h2]; exact hn)⟩

/-- the test `_do_merge` applies to a candidate: equal text in every column not exempted -/
def agreesB (cfg : Cfg) (f ex : Feature) : Bool :=
  (gffCols.filter (fun k => !cfg.forceMergeFields.contains k)).all (fun k => colText ex k == colText f k)

/-- the candidates that pass the test, in candidate order -/
def matched (cfg : Cfg) (db : Db) (id : Str) (f : Feature) : List Feature :=
  (candidates cfg db id).filter (agreesB cfg f)

/-- the attribute dictionary `_do_merge` computes from the arrival and the matched candidates -/
def mergedAttrs (f : Feature) (M : List Feature) : Attrs :=
  (M.foldl (fun m ex => unionAttrs m ex.attrs) f.attrs).map (fun p => (p.1, dedup p.2))

/-- the text `_do_merge` writes into an exempt column -/
def exemptText (f : Feature) (M : List Feature) (k : Str) : Str :=
  Str.join [','] (sortStrs (dedup ((colText f k :: M.map (fun e => colText e k)).flatMap (Str.split [',']))))

theorem doMerge_merge_miss (cfg : Cfg) (db : Db) (auto : Dict Nat) (f : Feature) (id : Str) (o : Option Str)
    (h : matched cfg db id f = []) :
    doMerge cfg db auto { f with id := o } id .merge =
      .ok (some { f with id := some (autoId id ((auto.get? id).getD 0 + 1)) }, .createUnique,
           { db with duplicates := db.duplicates ++ [(id, autoId id ((auto.get? id).getD 0 + 1))] },
           Dict.set auto id ((auto.get? id).getD 0 + 1)) := by
  have h' : (candidates cfg db id).filter (fun ex =>
      (gffCols.filter (fun k => !cfg.forceMergeFields.contains k)).all
        (fun k => colText ex k == colText { f with id := o } k)) = [] := h
  simp only [doMerge, h', List.getLast?_nil, incr_spec]

theorem doMerge_merge_hit (cfg : Cfg) (db : Db) (auto : Dict Nat) (f : Feature) (id : Str) (o : Option Str)
    (ex : Feature) (h : (matched cfg db id f).getLast? = some ex) :
    doMerge cfg db auto { f with id := o } id .merge =
      .ok (some (cfg.forceMergeFields.foldl (fun e k => setCol e k (exemptText f (matched cfg db id f) k))
              { ex with attrs := mergedAttrs f (matched cfg db id f) }), .merge, db, auto) := by
  have h' : ((candidates cfg db id).filter (fun ex =>
      (gffCols.filter (fun k => !cfg.forceMergeFields.contains k)).all
        (fun k => colText ex k == colText { f with id := o } k))).getLast? = some ex := h
  simp only [doMerge, h']
  rfl

/-- the relation rows `_populate_from_lines` (GFF3) adds for an arrival filed under `filed` -/
def attachParents (db : Db) (filed : Option Str) (f : Feature) : Db :=
  match filed with
  | some fid => (parentsOf f).foldl (fun db p => db.insertRelIgnore ⟨p, fid, 1⟩) db
  | none => db

theorem gffStep_eq (cfg : Cfg) (db : Db) (auto auto1 : Dict Nat) (f : Feature) (id : Str)
    (hid : idHandler cfg.idSpec auto f = .ok (id, auto1)) :
    gffStep cfg (db, auto) f =
      match fileFeature cfg db auto1 f id with
      | .error e => .error e
      | .ok (db1, auto2, filed) => .ok (attachParents db1 filed f, auto2) := by
  cases h : fileFeature cfg db auto1 f id with
  | error e => simp only [gffStep, hid, h, bind, Except.bind]
  | ok r =>
    obtain ⟨db1, auto2, filed⟩ := r
    simp only [gffStep, hid, h, bind, Except.bind, pure, Except.pure]
    rfl

theorem gffStep_idErr (cfg : Cfg) (db : Db) (auto : Dict Nat) (f : Feature) (e : PyErr)
    (hid : idHandler cfg.idSpec auto f = .error e) : gffStep cfg (db, auto) f = .error e := by
  simp only [gffStep, hid, bind, Except.bind]

/-- first value of an attribute, if any (`f.attributes[k][0]`) -/
def firstVal (f : Feature) (k : Str) : Option Str :=
  match f.attrs.get? k with
  | some (t :: _) => some t
  | _ => none

/-- the relation rows `_populate_from_lines` (GTF) adds for an arrival filed under `filed` -/
def attachGtf (cfg : Cfg) (db : Db) (filed : Option Str) (f : Feature) : Db :=
  match filed with
    | none => db
    | some fid =>
      let db := match firstVal f cfg.transcriptKey with
        | some p => if p ≠ fid then db.insertRelIgnore ⟨p, fid, 1⟩ else db
        | none => db
      match firstVal f cfg.geneKey with
      | some g =>
        let db := if fid ≠ g ∧ firstVal f cfg.transcriptKey ≠ some fid then db.insertRelIgnore ⟨g, fid, 2⟩ else db
        match firstVal f cfg.transcriptKey with
        | some p => if p ≠ g then db.insertRelIgnore ⟨g, p, 1⟩ else db
        | none => db
      | none => db

theorem gtfStep_eq (cfg : Cfg) (db : Db) (auto auto1 : Dict Nat) (f : Feature) (id : Str)
    (hid : idHandler cfg.idSpec auto f = .ok (id, auto1)) :
    gtfStep cfg (db, auto) f =
      match fileFeature cfg db auto1 f id with
      | .error e => .error e
      | .ok (db1, auto2, filed) => .ok (attachGtf cfg db1 filed f, auto2) := by
  cases h : fileFeature cfg db auto1 f id with
  | error e => simp only [gtfStep, hid, h, bind, Except.bind]
  | ok r =>
    obtain ⟨db1, auto2, filed⟩ := r
    simp only [gtfStep, hid, h, bind, Except.bind, pure, Except.pure]
    rfl

/-! ### folds in `Except` -/

theorem foldlM_append_error {σ α ε : Type} (step : σ → α → Except ε σ) (pre post : List α) (a : α) (s s1 : σ) (e : ε)
    (hpre : pre.foldlM step s = .ok s1) (ha : step s1 a = .error e) :
    (pre ++ a :: post).foldlM step s = .error e := by
  rw [List.foldlM_append, hpre]
  simp only [bind, Except.bind, List.foldlM_cons, ha]

theorem foldlM_snoc {σ α ε : Type} (step : σ → α → Except ε σ) (pre : List α) (a : α) (s s1 : σ)
    (hpre : pre.foldlM step s = .ok s1) :
    (pre ++ [a]).foldlM step s = step s1 a := by
  rw [List.foldlM_append, hpre]
  simp only [bind, Except.bind, List.foldlM_cons, List.foldlM_nil, pure, Except.pure]
  cases step s1 a <;> rfl

theorem foldlM_cons_ok {σ α ε : Type} (step : σ → α → Except ε σ) (l : List α) (a : α) (s s1 : σ)
    (ha : step s a = .ok s1) : (a :: l).foldlM step s = l.foldlM step s1 := by
  simp only [List.foldlM_cons, ha, bind, Except.bind]

theorem foldlM_cons_error {σ α ε : Type} (step : σ → α → Except ε σ) (l : List α) (a : α) (s : σ) (e : ε)
    (ha : step s a = .error e) : (a :: l).foldlM step s = .error e := by
  simp only [List.foldlM_cons, ha, bind, Except.bind]

theorem snoc_induction {α : Type} {P : List α → Prop} (h0 : P []) (hs : ∀ l a, P l → P (l ++ [a])) :
    ∀ l, P l := by
  intro l
  rw [← List.reverse_reverse l]
  induction l.reverse with
  | nil => exact h0
  | cons a t ih => rw [List.reverse_cons]; exact hs _ _ ih

/-! ### generated ids `<key>_<n>` -/

theorem natToStr_no_underscore (n : Nat) : '_' ∉ Str.natToStr n := by
  unfold Str.natToStr
  rw [Nat.toString_eq_repr, Nat.toList_repr]
  exact Nat.underscore_not_in_toDigits

theorem natToStr_inj (n m : Nat) (h : Str.natToStr n = Str.natToStr m) : n = m := by
  unfold Str.natToStr at h
  rw [Nat.toString_eq_repr, Nat.toString_eq_repr, Nat.toList_repr, Nat.toList_repr] at h
  have := congrArg (fun l => Nat.ofDigitChars 10 l 0) h
  simpa [Nat.ofDigitChars_ten_toDigits] using this

theorem append_sep_inj (a : Char) (k k' d d' : Str) (hd : a ∉ d) (hd' : a ∉ d')
    (h : k ++ a :: d = k' ++ a :: d') : k = k' ∧ d = d' := by
  induction k generalizing k' with
  | nil =>
    cases k' with
    | nil => simpa using h
    | cons c cs =>
      simp only [List.nil_append, List.cons_append, List.cons.injEq] at h
      obtain ⟨rfl, h⟩ := h
      exact absurd (by rw [h]; simp) hd
  | cons c cs ih =>
    cases k' with
    | nil =>
      simp only [List.nil_append, List.cons_append, List.cons.injEq] at h
      obtain ⟨rfl, h⟩ := h
      exact absurd (by rw [← h]; simp) hd'
    | cons c' cs' =>
      simp only [List.cons_append, List.cons.injEq] at h
      obtain ⟨rfl, h⟩ := h
      obtain ⟨rfl, rfl⟩ := ih cs' h
      exact ⟨rfl, rfl⟩

/-- **generated ids are unambiguous**: `k_n = k'_m` only for `k = k'` and `n = m` -/
theorem autoId_inj (k k' : Str) (n m : Nat) (h : autoId k n = autoId k' m) : k = k' ∧ n = m := by
  unfold autoId at h
  simp only [List.append_assoc, List.singleton_append] at h
  obtain ⟨h1, h2⟩ := append_sep_inj '_' k k' _ _ (natToStr_no_underscore n) (natToStr_no_underscore m) h
  exact ⟨h1, natToStr_inj _ _ h2⟩

theorem underscore_mem_autoId (k : Str) (n : Nat) : '_' ∈ autoId k n := by
  unfold autoId; simp

/-! ### the relation rows attached to an arrival -/

/-- two databases differing at most in the `relations` table -/
def SameButRels (db db' : Db) : Prop :=
  db'.features = db.features ∧ db'.metaRows = db.metaRows ∧ db'.directives = db.directives ∧
  db'.autoinc = db.autoinc ∧ db'.duplicates = db.duplicates

theorem SameButRels.refl (db : Db) : SameButRels db db := ⟨rfl, rfl, rfl, rfl, rfl⟩

theorem SameButRels.trans {a b c : Db} (h1 : SameButRels a b) (h2 : SameButRels b c) : SameButRels a c := by
  obtain ⟨a1, a2, a3, a4, a5⟩ := h1
  obtain ⟨b1, b2, b3, b4, b5⟩ := h2
  exact ⟨b1.trans a1, b2.trans a2, b3.trans a3, b4.trans a4, b5.trans a5⟩

theorem insertRelIgnore_same (db : Db) (r : Rel) : SameButRels db (db.insertRelIgnore r) := by
  unfold Db.insertRelIgnore; split <;> exact ⟨rfl, rfl, rfl, rfl, rfl⟩

theorem foldl_insertRel_same {α : Type} (g : α → Rel) (l : List α) (db : Db) :
    SameButRels db (l.foldl (fun db a => db.insertRelIgnore (g a)) db) := by
  induction l generalizing db with
  | nil => exact SameButRels.refl db
  | cons a l ih => simp only [List.foldl_cons]; exact (insertRelIgnore_same db _).trans (ih _)

theorem attachParents_same (db : Db) (filed : Option Str) (f : Feature) :
    SameButRels db (attachParents db filed f) := by
  unfold attachParents
  split
  · exact foldl_insertRel_same _ _ _
  · exact SameButRels.refl db

/-- **GFF3: exactly the arrival's Parent links, attached to the id it was filed under** -/
theorem mem_attachParents (db : Db) (filed : Option Str) (f : Feature) (r : Rel) :
    r ∈ (attachParents db filed f).relations ↔
      r ∈ db.relations ∨ ∃ fid, filed = some fid ∧ ∃ p ∈ parentsOf f, r = ⟨p, fid, 1⟩ := by
  unfold attachParents
  split
  · rename_i fid
    rw [C02.foldl_insertRel_mem]
    simp
  · simp

theorem attachGtf_same (cfg : Cfg) (db : Db) (filed : Option Str) (f : Feature) :
    SameButRels db (attachGtf cfg db filed f) := by
  unfold attachGtf
  simp only
  repeat' split
  all_goals
    first
    | exact SameButRels.refl db
    | exact insertRelIgnore_same _ _
    | exact (insertRelIgnore_same _ _).trans (insertRelIgnore_same _ _)
    | exact ((insertRelIgnore_same _ _).trans (insertRelIgnore_same _ _)).trans (insertRelIgnore_same _ _)

/-- **GTF: exactly the transcript / gene links of the arrival, attached to the id it was filed under** -/
theorem mem_attachGtf (cfg : Cfg) (db : Db) (filed : Option Str) (f : Feature) (r : Rel) :
    r ∈ (attachGtf cfg db filed f).relations ↔
      r ∈ db.relations ∨ ∃ fid, filed = some fid ∧
        ((∃ t, firstVal f cfg.transcriptKey = some t ∧ t ≠ fid ∧ r = ⟨t, fid, 1⟩) ∨
         (∃ g, firstVal f cfg.geneKey = some g ∧ fid ≠ g ∧ firstVal f cfg.transcriptKey ≠ some fid ∧
            r = ⟨g, fid, 2⟩) ∨
         (∃ g t, firstVal f cfg.geneKey = some g ∧ firstVal f cfg.transcriptKey = some t ∧ t ≠ g ∧
            r = ⟨g, t, 1⟩)) := by
  unfold attachGtf
  cases filed with
  | none => simp
  | some fid =>
    cases hp : firstVal f cfg.transcriptKey with
    | none =>
      cases hg : firstVal f cfg.geneKey with
      | none => simp
      | some g =>
        by_cases h1 : fid = g <;> simp [h1, C02.mem_insertRelIgnore]
    | some t =>
      cases hg : firstVal f cfg.geneKey with
      | none => by_cases h0 : t = fid <;> simp [h0, C02.mem_insertRelIgnore]
      | some g =>
        by_cases h2 : t = g
        · subst h2
          by_cases h0 : t = fid
          · subst h0; simp
          · have h1 : ¬ fid = t := fun e => h0 e.symm
            simp [h0, h1, C02.mem_insertRelIgnore, or_assoc]
        · have h2' : ¬ g = t := fun e => h2 e.symm
          by_cases h0 : t = fid
          · subst h0
            simp [h2, C02.mem_insertRelIgnore]
          · by_cases h1 : fid = g
            · subst h1
              simp [h0, C02.mem_insertRelIgnore, or_assoc]
            · simp [h0, h1, h2, C02.mem_insertRelIgnore, or_assoc]

/-! ### the merged attribute dictionary -/

theorem mem_unionAttrs_get (m ex : Attrs) (k v : Str) :
    v ∈ (Dict.get? (unionAttrs m ex) k).getD [] ↔
      v ∈ (Dict.get? m k).getD [] ∨ ∃ vs, (k, vs) ∈ ex ∧ v ∈ vs := by
  rw [unionAttrs_get]
  simp only [List.mem_append, List.mem_flatMap, List.mem_filter, decide_eq_true_eq]
  constructor
  · rintro (h | ⟨p, ⟨hp, rfl⟩, hv⟩)
    · exact Or.inl h
    · exact Or.inr ⟨p.2, hp, hv⟩
  · rintro (h | ⟨vs, hp, hv⟩)
    · exact Or.inl h
    · exact Or.inr ⟨(k, vs), ⟨hp, rfl⟩, hv⟩

theorem foldl_union_get (M : List Feature) (a : Attrs) (k v : Str) :
    v ∈ (Dict.get? (M.foldl (fun m ex => unionAttrs m ex.attrs) a) k).getD [] ↔
      v ∈ (Dict.get? a k).getD [] ∨ ∃ ex ∈ M, ∃ vs, (k, vs) ∈ ex.attrs ∧ v ∈ vs := by
  induction M generalizing a with
  | nil => simp
  | cons c M ih =>
    simp only [List.foldl_cons]
    rw [ih, mem_unionAttrs_get]
    simp only [List.mem_cons, exists_eq_or_imp]
    exact or_assoc

theorem foldl_union_keys_prefix (M : List Feature) (a : Attrs) :
    Dict.keys a <+: Dict.keys (M.foldl (fun m ex => unionAttrs m ex.attrs) a) := by
  induction M generalizing a with
  | nil => exact List.prefix_refl _
  | cons c M ih =>
    simp only [List.foldl_cons]
    exact (unionAttrs_keys_prefix a c.attrs).trans (ih _)

theorem foldl_union_mem_keys (M : List Feature) (a : Attrs) (k : Str) :
    k ∈ Dict.keys (M.foldl (fun m ex => unionAttrs m ex.attrs) a) ↔
      k ∈ Dict.keys a ∨ ∃ ex ∈ M, k ∈ Dict.keys ex.attrs := by
  induction M generalizing a with
  | nil => simp
  | cons c M ih =>
    simp only [List.foldl_cons]
    rw [ih, unionAttrs_mem_keys]
    simp only [List.mem_cons, exists_eq_or_imp]
    exact or_assoc

theorem foldl_union_keys_nodup (M : List Feature) (a : Attrs) (h : (Dict.keys a).Nodup) :
    (Dict.keys (M.foldl (fun m ex => unionAttrs m ex.attrs) a)).Nodup := by
  induction M generalizing a with
  | nil => exact h
  | cons c M ih =>
    simp only [List.foldl_cons]
    exact ih _ (unionAttrs_keys_nodup a c.attrs h)

theorem mergedAttrs_get (f : Feature) (M : List Feature) (k : Str) :
    Dict.get? (mergedAttrs f M) k =
      (Dict.get? (M.foldl (fun m ex => unionAttrs m ex.attrs) f.attrs) k).map dedup := by
  unfold mergedAttrs
  exact get?_map_vals _ dedup k

theorem mergedAttrs_keys (f : Feature) (M : List Feature) :
    Dict.keys (mergedAttrs f M) = Dict.keys (M.foldl (fun m ex => unionAttrs m ex.attrs) f.attrs) := by
  unfold mergedAttrs
  exact keys_map_vals _ dedup

/-! ### `sortStrs` -/

theorem sortStrs_perm (l : List Str) : (sortStrs l).Perm l := List.mergeSort_perm l strLe

theorem sortStrs_sorted (l : List Str) : (sortStrs l).Pairwise (fun a b => a ≤ b) := by
  have := List.pairwise_mergeSort (le := strLe)
    (fun a b c hab hbc => by
      simp only [strLe, decide_eq_true_eq] at *
      exact List.le_trans hab hbc)
    (fun a b => by
      simp only [strLe, Bool.or_eq_true, decide_eq_true_eq]
      exact List.le_total a b) l
  exact this.imp (fun h => by simpa [strLe] using h)

end GffProofs.C05
