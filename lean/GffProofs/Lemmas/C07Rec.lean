/-
  Helper lemmas for C07 `reconstruct_render`: dictionaries with distinct keys, the `sort_key` order.
-/
import GffModel.Grammar

namespace GffProofs.C07
open GffModel GffModel.Parser GffModel.Grammar

/-! ### `Dict` with a fresh key -/

theorem Dict.set_fresh {α : Type} (d : Dict α) (k : Str) (v : α) (h : ∀ p ∈ d, p.1 ≠ k) :
    Dict.set d k v = d ++ [(k, v)] := by
  induction d with
  | nil => rfl
  | cons p d ih =>
    obtain ⟨k', v'⟩ := p
    have h1 : k' ≠ k := h (k', v') (by simp)
    simp only [Dict.set, h1, if_false, List.cons_append]
    rw [ih (fun p hp => h p (by simp [hp]))]

theorem Dict.get?_fresh {α : Type} (d : Dict α) (k : Str) (h : ∀ p ∈ d, p.1 ≠ k) :
    Dict.get? d k = none := by
  induction d with
  | nil => rfl
  | cons p d ih =>
    obtain ⟨k', v'⟩ := p
    have h1 : k' ≠ k := h (k', v') (by simp)
    simp only [Dict.get?, h1, if_false]
    exact ih (fun p hp => h p (by simp [hp]))

theorem Dict.get?_last {α : Type} (d : Dict α) (k : Str) (v : α) (h : ∀ p ∈ d, p.1 ≠ k) :
    Dict.get? (d ++ [(k, v)]) k = some v := by
  induction d with
  | nil => simp [Dict.get?]
  | cons p d ih =>
    obtain ⟨k', v'⟩ := p
    have h1 : k' ≠ k := h (k', v') (by simp)
    simp only [List.cons_append, Dict.get?, h1, if_false]
    exact ih (fun p hp => h p (by simp [hp]))

theorem Dict.set_last {α : Type} (d : Dict α) (k : Str) (v w : α) (h : ∀ p ∈ d, p.1 ≠ k) :
    Dict.set (d ++ [(k, v)]) k w = d ++ [(k, w)] := by
  induction d with
  | nil => simp [Dict.set]
  | cons p d ih =>
    obtain ⟨k', v'⟩ := p
    have h1 : k' ≠ k := h (k', v') (by simp)
    simp only [List.cons_append, Dict.set, h1, if_false]
    rw [ih (fun p hp => h p (by simp [hp]))]

theorem Dict.foldl_set_nodup {α : Type} (l acc : Dict α)
    (h : ((acc ++ l).map (·.1)).Nodup) :
    l.foldl (fun d p => Dict.set d p.1 p.2) acc = acc ++ l := by
  induction l generalizing acc with
  | nil => simp
  | cons p l ih =>
    have hf : ∀ q ∈ acc, q.1 ≠ p.1 := by
      intro q hq heq
      simp only [List.map_append, List.map_cons, List.nodup_append, List.nodup_cons] at h
      exact h.2.2 q.1 (List.mem_map.mpr ⟨q, hq, rfl⟩) p.1 (by simp) heq
    simp only [List.foldl_cons]
    rw [Dict.set_fresh acc p.1 p.2 hf, ih]
    · simp
    · simpa using h

theorem Dict.ofList_nodup {α : Type} (l : Dict α) (h : (l.map (·.1)).Nodup) : Dict.ofList l = l := by
  unfold Dict.ofList
  rw [Dict.foldl_set_nodup l [] (by simpa using h)]; simp

/-! ### the sort key -/

theorem sortKeyLe_eq (order : List Str) (a b : Str × List Str) :
    sortKeyLe order a b = decide (order.findIdx (· = a.1) ≤ order.findIdx (· = b.1)) := by
  have ha := @List.findIdx_le_length _ (fun x => decide (x = a.1)) order
  have hb := @List.findIdx_le_length _ (fun x => decide (x = b.1)) order
  unfold sortKeyLe orderIndex
  simp only []
  by_cases h1 : List.findIdx (fun x => decide (x = a.1)) order < order.length <;>
  by_cases h2 : List.findIdx (fun x => decide (x = b.1)) order < order.length <;>
  simp only [h1, h2, if_true, if_false]
  · symm; rw [decide_eq_true_iff]; omega
  · symm; rw [decide_eq_false_iff_not]; omega
  · symm; rw [decide_eq_true_iff]; omega

end GffProofs.C07
