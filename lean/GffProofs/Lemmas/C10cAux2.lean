/-
  C10c — helper lemmas, part 2:
  * the first pass of `_update_relations` does not see the derived rows already stored (they are not
    subfeatures): everything C03 proves about it on the table of lines transfers (`lineView`);
  * the second pass with a collision between a re-derived feature and its stored (stale) row.
-/
import GffProofs.Lemmas.C10cAux

namespace GffProofs.C10c
open GffModel GffModel.Create GffModel.Interface
open GffProofs.C03
open GffProofs.C04 (autoId incr_spec Dict.get?_set_self Dict.get?_set_ne)
open GffProofs.C02 (insert_fresh)

/-! ### the table of lines inside an open database -/

theorem filterMap_congr' {α β : Type} {f g : α → Option β} : ∀ {l : List α}, (∀ x ∈ l, f x = g x) →
    l.filterMap f = l.filterMap g := by
  intro l
  induction l with
  | nil => intro _; rfl
  | cons a l ih =>
    intro h
    rw [List.filterMap_cons, List.filterMap_cons, h a (by simp), ih (fun x hx => h x (by simp [hx]))]

/-- the database with the derived rows (and the `duplicates` table) removed -/
def lineView (cfg : Cfg) (fs : List Feature) (db : Db) : Db :=
  { db with features := (keyed cfg fs).map (fun fk => lineRow fk.1 fk.2), duplicates := [] }

theorem lineView_popInv {cfg : Cfg} {fs : List Feature} (hc : CfgOk cfg) (h : GtfOk cfg fs) {db : Db} {auto : Dict Nat}
    (inv : GtfDbInv cfg fs db auto) : ∃ auto0, PopInv cfg fs (lineView cfg fs db) auto0 := by
  obtain ⟨db0, auto0, _, inv0⟩ := populateGtf_inv cfg hc fs h
  exact ⟨auto0, rfl, inv.rels, inv.relsNodup, rfl, inv0.cnt⟩

section view
variable {cfg : Cfg} {fs : List Feature} (hc : CfgOk cfg) (h : GtfOk cfg fs) {db : Db} {auto : Dict Nat}
  (inv : GtfDbInv cfg fs db auto)
include hc h inv

omit hc h in
theorem getRow_line {fk : Feature × Str} (hfk : fk ∈ keyed cfg fs) : db.getRow? fk.2 = some (lineRow fk.1 fk.2) :=
  GffProofs.C04.getRow?_of_nodup db.features inv.idsNodup (lineRow fk.1 fk.2) (inv.linesIn fk hfk)

omit hc h inv in
theorem getRow_mem {db : Db} {k : Str} {row : Row} (hr : db.getRow? k = some row) : row ∈ db.features ∧ row.id = k := by
  unfold Db.getRow? at hr
  exact ⟨List.mem_of_find?_eq_some hr, by simpa using List.find?_some hr⟩

/-- a look-up in the open database gives what the table of lines gives, or a derived row (not a subfeature) -/
theorem getRow_cases (k : Str) :
    db.getRow? k = (lineView cfg fs db).getRow? k ∨
    ((lineView cfg fs db).getRow? k = none ∧ ∃ row, db.getRow? k = some row ∧ row.ftype ≠ cfg.subfeature) := by
  obtain ⟨auto0, invL⟩ := lineView_popInv hc h inv
  cases hv : (lineView cfg fs db).getRow? k with
  | some row =>
    left
    obtain ⟨f, hf, rfl⟩ := getRow_some invL hv
    exact getRow_line inv hf
  | none =>
    cases hd : db.getRow? k with
    | none => exact Or.inl rfl
    | some row =>
      right
      refine ⟨rfl, row, rfl, ?_⟩
      obtain ⟨hmem, hid⟩ := getRow_mem hd
      rcases inv.rows row hmem with ⟨fk, hfk, rfl⟩ | hst
      · exfalso
        have := getRow_keyed h invL hfk
        simp only [lineRow_id] at hid
        rw [hid, hv] at this
        cases this
      · rcases staleDerived_ftype hst with e | e
        · rw [e]; exact Ne.symm hc.subNeTr
        · rw [e]; exact Ne.symm hc.subNeGene

theorem extRows_view (p : Str) : extRows db cfg.subfeature p = extRows (lineView cfg fs db) cfg.subfeature p := by
  unfold extRows
  show List.filterMap _ (db.relations.filter _) = List.filterMap _ (db.relations.filter _)
  apply filterMap_congr'
  intro r _
  rcases getRow_cases hc h inv r.child with e | ⟨e1, row, e2, hne⟩
  · rw [e]
  · rw [e1, e2]
    simp [hne]

omit hc h inv in
/-- the extent query is a function of the joined rows -/
theorem extent_of_extRows (db db' : Db) (sub p : Str) (he : extRows db sub p = extRows db' sub p) :
    extent db sub p = extent db' sub p := by
  have hx : ∀ d : Db, extent d sub p = (match extRows d sub p with
      | [] => none
      | r0 :: _ =>
        some (((extRows d sub p).filterMap (·.start)).foldl
                (fun m x => match m with | none => some x | some y => some (min x y)) none,
              ((extRows d sub p).filterMap (·.stop)).foldl
                (fun m x => match m with | none => some x | some y => some (max x y)) none,
              (pickRow (extRows d sub p) r0 (((extRows d sub p).filterMap (·.stop)).foldl
                (fun m x => match m with | none => some x | some y => some (max x y)) none)).strand,
              (pickRow (extRows d sub p) r0 (((extRows d sub p).filterMap (·.stop)).foldl
                (fun m x => match m with | none => some x | some y => some (max x y)) none)).seqid)) :=
    fun _ => rfl
  rw [hx db, hx db', he]

theorem extent_view (p : Str) : extent db cfg.subfeature p = extent (lineView cfg fs db) cfg.subfeature p :=
  extent_of_extRows _ _ _ _ (extRows_view hc h inv p)

theorem firstlevel_view : firstlevel cfg db = firstlevel cfg (lineView cfg fs db) := by
  unfold firstlevel
  show dedup ((db.relations.filter _).map _) = dedup ((db.relations.filter _).map _)
  congr 2
  apply List.filter_congr
  intro r _
  rcases getRow_cases hc h inv r.child with e | ⟨e1, row, e2, hne⟩
  · rw [e]
  · rw [e1, e2]
    simp [hne]

theorem pairsOf_view : pairsOf cfg db = pairsOf cfg (lineView cfg fs db) := by
  unfold pairsOf
  rw [firstlevel_view hc h inv]
  rfl

theorem sortedPairs_view : sortedPairs cfg db = sortedPairs cfg (lineView cfg fs db) := by
  unfold sortedPairs
  rw [pairsOf_view hc h inv]

theorem mkT_view (t g : Str) : mkT cfg db t g = mkT cfg (lineView cfg fs db) t g := by
  unfold mkT extOr
  rw [extent_view hc h inv]

theorem mkG_view (g : Str) : mkG cfg db g = mkG cfg (lineView cfg fs db) g := by
  unfold mkG extOr
  rw [extent_view hc h inv]

theorem derivedList_view : derivedList cfg db = derivedList cfg (lineView cfg fs db) := by
  unfold derivedList
  rw [sortedPairs_view hc h inv]
  have e1 : mkT cfg db = mkT cfg (lineView cfg fs db) := by funext t g; exact mkT_view hc h inv t g
  have e2 : mkG cfg db = mkG cfg (lineView cfg fs db) := by funext g; exact mkG_view hc h inv g
  rw [e1, e2]

end view

/-! ### `_do_merge(f, 'merge')` with exactly one candidate -/

theorem setCol_id_attrs (e : Feature) (k v : Str) : (setCol e k v).id = e.id ∧ (setCol e k v).attrs = e.attrs := by
  unfold setCol
  repeat' split
  all_goals exact ⟨rfl, rfl⟩

theorem foldl_setCol_id_attrs (g : Str → Str) (l : List Str) : ∀ e : Feature,
    (l.foldl (fun ex k => setCol ex k (g k)) e).id = e.id ∧ (l.foldl (fun ex k => setCol ex k (g k)) e).attrs = e.attrs := by
  induction l with
  | nil => intro e; exact ⟨rfl, rfl⟩
  | cons k l ih =>
    intro e
    obtain ⟨h1, h2⟩ := ih (setCol e k (g k))
    obtain ⟨h3, h4⟩ := setCol_id_attrs e k (g k)
    exact ⟨h1.trans h3, h2.trans h4⟩

/-- the attributes `_do_merge` writes when the only candidate is `ex` -/
def mergedWith (f : Feature) (ex : Row) : Attrs :=
  (unionAttrs f.attrs ex.attrs).map (fun (kv : Str × List Str) => (kv.1, dedup kv.2))

theorem candidates_single (cfg : Cfg) (db : Db) (k : Str) (ex : Row) (hex : db.getRow? k = some ex)
    (hdups : ∀ on ∈ db.duplicates, on.1 = k → db.getRow? on.2 = none) :
    candidates cfg db k = [ex.toFeature cfg.dialect] := by
  unfold candidates
  have hd : db.duplicates.filterMap (fun (x : Str × Str) =>
      match x with | (orig, new) => if orig = k then db.getRow? new else none) = [] := by
    rw [List.filterMap_eq_nil_iff]
    intro on hon
    obtain ⟨o, n⟩ := on
    simp only
    split
    · rename_i e; exact hdups (o, n) hon e
    · rfl
  simp only [hex, hd, Option.toList_some, List.append_nil, List.map_cons, List.map_nil, List.foldl_cons,
    List.foldl_nil, List.any_nil, Bool.false_eq_true, if_false, List.nil_append]

/-- the compared columns -/
def agrees (cfg : Cfg) (f : Feature) (e : Feature) : Bool :=
  (gffCols.filter (fun k => !cfg.forceMergeFields.contains k)).all (fun k => colText e k == colText f k)

theorem doMerge_single_ne (cfg : Cfg) (db : Db) (auto : Dict Nat) (f : Feature) (k : Str) (ex : Row)
    (hex : db.getRow? k = some ex) (hdups : ∀ on ∈ db.duplicates, on.1 = k → db.getRow? on.2 = none)
    (hag : agrees cfg f (ex.toFeature cfg.dialect) = false) :
    doMerge cfg db auto f k .merge =
      .ok (some { f with id := some (incr auto k).1 }, .createUnique,
           { db with duplicates := db.duplicates ++ [(k, (incr auto k).1)] }, (incr auto k).2) := by
  have hcand := candidates_single cfg db k ex hex hdups
  have hfilter : ([ex.toFeature cfg.dialect].filter (fun e =>
      (gffCols.filter (fun k => !cfg.forceMergeFields.contains k)).all (fun k => colText e k == colText f k))) = [] := by
    rw [List.filter_eq_nil_iff]
    intro e he
    simp only [List.mem_singleton] at he
    subst he
    rw [Bool.not_eq_true]
    exact hag
  unfold doMerge
  simp only [hcand, hfilter, List.getLast?_nil]

theorem doMerge_single_eq (cfg : Cfg) (db : Db) (auto : Dict Nat) (f : Feature) (k : Str) (ex : Row)
    (hex : db.getRow? k = some ex) (hdups : ∀ on ∈ db.duplicates, on.1 = k → db.getRow? on.2 = none)
    (hag : agrees cfg f (ex.toFeature cfg.dialect) = true) :
    ∃ fx, doMerge cfg db auto f k .merge = .ok (some fx, .merge, db, auto) ∧
      fx.id = some k ∧ fx.attrs = mergedWith f ex := by
  have hcand := candidates_single cfg db k ex hex hdups
  have hfilter : ([ex.toFeature cfg.dialect].filter (fun e =>
      (gffCols.filter (fun k => !cfg.forceMergeFields.contains k)).all (fun k => colText e k == colText f k))) =
      [ex.toFeature cfg.dialect] := by
    rw [List.filter_cons]
    have : (gffCols.filter (fun k => !cfg.forceMergeFields.contains k)).all
        (fun k => colText (ex.toFeature cfg.dialect) k == colText f k) = true := hag
    rw [this]
    rfl
  have hid : ex.id = k := (getRow_mem hex).2
  unfold doMerge
  simp only [hcand, hfilter, List.getLast?_singleton, List.foldl_cons, List.foldl_nil]
  refine ⟨_, rfl, ?_, ?_⟩
  · rw [(foldl_setCol_id_attrs _ _ _).1]
    show some ex.id = some k
    rw [hid]
  · rw [(foldl_setCol_id_attrs _ _ _).2]
    rfl

/-! ### one step of the second pass, stored row under the same id -/

theorem modifyRow_self (db : Db) (k : Str) (ex : Row) (h : ∀ x ∈ db.features, x.id = k → x = ex) :
    db.modifyRow k (fun r => { r with attrs := ex.attrs }) = db := by
  unfold Db.modifyRow
  have : db.features.map (fun x => if x.id = k then { x with attrs := ex.attrs } else x) = db.features := by
    conv => rhs; rw [← List.map_id db.features]
    apply List.map_congr_left
    intro x hx
    by_cases e : x.id = k
    · rw [if_pos e, h x hx e]; rfl
    · rw [if_neg e]; rfl
  rw [this]

/-- a re-derived feature meets a stored row under its id: either the stored row is of another `source` (an
explicit line) or the merged attributes are those the row already has.  In both cases no row changes; the
feature is dropped — silently, or after being renamed `<id>_<n>` (counter bumped, pair recorded). -/
theorem step2_stored (cfg : Cfg) (db : Db) (auto : Dict Nat) (f : Feature) (k : Str) (ex : Row)
    (hid : idHandler cfg.idSpec auto f = .ok (k, auto))
    (hex : db.getRow? k = some ex) (hone : ∀ x ∈ db.features, x.id = k → x = ex)
    (hdups : ∀ on ∈ db.duplicates, on.1 = k → db.getRow? on.2 = none)
    (hcase : (ex.source ≠ f.source ∧ "source".toList ∉ cfg.forceMergeFields) ∨ mergedWith f ex = ex.attrs) :
    step2 cfg (db, auto) f = .ok (db, auto) ∨
    step2 cfg (db, auto) f =
      .ok ({ db with duplicates := db.duplicates ++ [(k, (incr auto k).1)] }, (incr auto k).2) := by
  have hins : db.insert (lineRow f k) = .error .integrity :=
    GffProofs.C04.insert_dup_rejected db (lineRow f k) (hasId_of_getRow hex)
  have hne : ∀ (hag : agrees cfg { f with id := some k } (ex.toFeature cfg.dialect) = false),
      step2 cfg (db, auto) f =
        .ok ({ db with duplicates := db.duplicates ++ [(k, (incr auto k).1)] }, (incr auto k).2) := by
    intro hag
    have hm := doMerge_single_ne cfg db auto { f with id := some k } k ex hex hdups hag
    simp only [step2, hid, ofFeature_lineRow, hins, hm, bind, Except.bind, pure, Except.pure]
  cases hag : agrees cfg { f with id := some k } (ex.toFeature cfg.dialect) with
  | false => exact Or.inr (hne hag)
  | true =>
    rcases hcase with ⟨hsrc, hfm⟩ | hattrs
    · -- impossible: `source` is compared
      exfalso
      have hsrcmem : "source".toList ∈ gffCols.filter (fun k => !cfg.forceMergeFields.contains k) := by
        rw [List.mem_filter]
        exact ⟨by decide, by simpa using hfm⟩
      unfold agrees at hag
      rw [List.all_eq_true] at hag
      have := hag _ hsrcmem
      rw [colText_source, colText_source] at this
      exact hsrc (by simpa [Row.toFeature] using this)
    · left
      obtain ⟨fx, hm, hfid, hfa⟩ := doMerge_single_eq cfg db auto { f with id := some k } k ex hex hdups hag
      simp only [step2, hid, ofFeature_lineRow, hins, hm, bind, Except.bind, pure, Except.pure]
      rw [hfid, hfa]
      show Except.ok (db.modifyRow k (fun r => { r with attrs := mergedWith { f with id := some k } ex }), auto) = _
      have : mergedWith { f with id := some k } ex = ex.attrs := hattrs
      rw [this, modifyRow_self db k ex hone]

/-! ### the merged attributes of a derived feature and its own stored row -/

theorem dedup_pair (x : Str) : dedup [x, x] = [x] := by
  simp [dedup]

theorem mergedWith_self2 (f : Feature) (ex : Row) (a b x y : Str) (hab : a ≠ b)
    (hf : f.attrs = [(a, [x]), (b, [y])]) (he : ex.attrs = [(a, [x]), (b, [y])]) : mergedWith f ex = ex.attrs := by
  unfold mergedWith unionAttrs
  rw [hf, he]
  simp [Dict.set, Dict.get?, hab, dedup_pair]

theorem mergedWith_self1 (f : Feature) (ex : Row) (a x : Str)
    (hf : f.attrs = [(a, [x])]) (he : ex.attrs = [(a, [x])]) : mergedWith f ex = ex.attrs := by
  unfold mergedWith unionAttrs
  rw [hf, he]
  simp [Dict.set, Dict.get?, dedup_pair]

/-! ### the whole second pass -/

theorem incr_get?_ne (auto : Dict Nat) (k ft : Str) (hne : ft ≠ k) :
    Dict.get? (incr auto k).2 ft = Dict.get? auto ft := by
  rw [incr_spec]
  exact Dict.get?_set_ne _ _ _ _ hne

/-- as C03's `foldlM_step2`, with stored rows that may be the feature's own (stale) derived row.
`U`: every id that can occur. -/
theorem foldlM_step2G (cfg : Cfg) (db0 : Db) (U : List Str) (hnd0 : (db0.features.map (·.id)).Nodup)
    (ds : List (Str × Feature)) :
    (∀ kf ∈ ds, ∀ auto, idHandler cfg.idSpec auto kf.2 = .ok (kf.1, auto)) →
    (ds.map (·.1)).Nodup →
    (∀ r ∈ db0.features, r.id ∈ U) → (∀ kf ∈ ds, kf.1 ∈ U) →
    (∀ kf ∈ ds, ∀ ex, db0.getRow? kf.1 = some ex →
      ((ex.source ≠ kf.2.source ∧ "source".toList ∉ cfg.forceMergeFields) ∨ mergedWith kf.2 ex = ex.attrs) ∧
      ∀ n, autoId kf.1 n ∉ U) →
    ∀ (N : List Row) (dups : List (Str × Str)) (auto : Dict Nat),
      (∀ r ∈ N, r.id ∈ U ∧ r.id ∉ ds.map (·.1)) → (∀ on ∈ dups, on.2 ∉ U) →
      ∃ dups' auto', (ds.map (·.2)).foldlM (step2 cfg) (st2 db0 N dups, auto) =
        .ok (st2 db0 (N ++ (ds.filter (fun kf => !(db0.features.map (·.id)).contains kf.1)).map
                (fun kf => lineRow kf.2 kf.1)) dups', auto') ∧
        (∀ on ∈ dups', on ∈ dups ∨ ∃ kf ∈ ds, ∃ n, on = (kf.1, autoId kf.1 n)) ∧
        (∀ ft, ft ∉ ds.map (·.1) → Dict.get? auto' ft = Dict.get? auto ft) := by
  induction ds with
  | nil =>
    intro _ _ _ _ _ N dups auto _ _
    exact ⟨dups, auto, by simp [pure, Except.pure], fun on hon => Or.inl hon, fun _ _ => rfl⟩
  | cons kf ds ih =>
    intro hid hnd hU0 hUd hcoll N dups auto hN hdups
    obtain ⟨k, f⟩ := kf
    simp only [List.map_cons, List.nodup_cons] at hnd
    have hidk := hid (k, f) (by simp) auto
    simp only at hidk
    have ih' := ih (fun kf hkf => hid kf (by simp [hkf])) hnd.2 hU0 (fun kf hkf => hUd kf (by simp [hkf]))
      (fun kf hkf => hcoll kf (by simp [hkf]))
    have hallU : ∀ r ∈ (st2 db0 N dups).features, r.id ∈ U := by
      intro r hr
      simp only [st2, List.mem_append] at hr
      rcases hr with hr | hr
      · exact hU0 r hr
      · exact (hN r hr).1
    by_cases hk0 : k ∈ db0.features.map (·.id)
    · -- a stored row has the id
      obtain ⟨ex0, hexm, hexid⟩ := List.mem_map.mp hk0
      have hex : db0.getRow? k = some ex0 := by
        have := GffProofs.C04.getRow?_of_nodup db0.features hnd0 ex0 hexm
        unfold Db.getRow?
        rw [← hexid]; exact this
      obtain ⟨hcase, hnU⟩ := hcoll (k, f) (by simp) ex0 hex
      have hone : ∀ x ∈ (st2 db0 N dups).features, x.id = k → x = ex0 := by
        intro x hx hxk
        simp only [st2, List.mem_append] at hx
        rcases hx with hx | hx
        · exact eq_of_nodup_map hnd0 hx hexm (hxk.trans hexid.symm)
        · exact absurd (by simp [hxk]) (hN x hx).2
      have hdupsAbs : ∀ on ∈ (st2 db0 N dups).duplicates, on.1 = k → (st2 db0 N dups).getRow? on.2 = none := by
        intro on hon _
        apply getRow_none_of_absent
        intro r hr e
        exact hdups on hon (e ▸ hallU r hr)
      have hflt : (List.filter (fun kf => !(db0.features.map (·.id)).contains kf.1) ((k, f) :: ds)) =
          List.filter (fun kf => !(db0.features.map (·.id)).contains kf.1) ds := by
        have hc : (db0.features.map (·.id)).contains k = true := by
          rw [List.contains_iff_mem]; exact hk0
        rw [List.filter_cons]
        simp only [hc, Bool.not_true, Bool.false_eq_true, if_false]
      have hN' : ∀ r ∈ N, r.id ∈ U ∧ r.id ∉ ds.map (·.1) :=
        fun r hr => ⟨(hN r hr).1, fun hin => (hN r hr).2 (by simp [hin])⟩
      rcases step2_stored cfg (st2 db0 N dups) auto f k ex0 hidk (getRow_st2_of_mem db0 N dups k ex0 hex) hone
        hdupsAbs hcase with hstep | hstep
      · obtain ⟨dups', auto', hfold, hd', ha'⟩ := ih' N dups auto hN' hdups
        refine ⟨dups', auto', ?_, ?_, ?_⟩
        · simp only [List.map_cons, List.foldlM_cons, hstep, bind, Except.bind]
          rw [hflt]; exact hfold
        · intro on hon
          rcases hd' on hon with h1 | ⟨kf, hkf, n, e⟩
          · exact Or.inl h1
          · exact Or.inr ⟨kf, by simp [hkf], n, e⟩
        · intro ft hft
          exact ha' ft (fun hin => hft (by simp [hin]))
      · obtain ⟨dups', auto', hfold, hd', ha'⟩ := ih' N (dups ++ [(k, (incr auto k).1)]) (incr auto k).2 hN'
          (by
            intro on hon
            rcases List.mem_append.mp hon with hon | hon
            · exact hdups on hon
            · simp only [List.mem_singleton] at hon
              subst hon
              rw [incr_spec]
              exact hnU _)
        refine ⟨dups', auto', ?_, ?_, ?_⟩
        · simp only [List.map_cons, List.foldlM_cons, hstep, bind, Except.bind]
          rw [hflt]; exact hfold
        · intro on hon
          rcases hd' on hon with h1 | ⟨kf, hkf, n, e⟩
          · rcases List.mem_append.mp h1 with h1 | h1
            · exact Or.inl h1
            · simp only [List.mem_singleton] at h1
              exact Or.inr ⟨(k, f), by simp, _, by rw [h1, incr_spec]⟩
          · exact Or.inr ⟨kf, by simp [hkf], n, e⟩
        · intro ft hft
          have hftk : ft ≠ k := fun e => hft (by simp [e])
          rw [ha' ft (fun hin => hft (by simp [hin])), incr_get?_ne _ _ _ hftk]
    · -- a new id
      have hfresh : k ∉ (st2 db0 N dups).features.map (·.id) := by
        intro hin
        obtain ⟨r, hr, hre⟩ := List.mem_map.mp hin
        simp only [st2, List.mem_append] at hr
        rcases hr with hr | hr
        · exact hk0 (List.mem_map.mpr ⟨r, hr, hre⟩)
        · exact (hN r hr).2 (by simp [hre])
      have hstep := step2_fresh cfg (st2 db0 N dups) auto f k hidk hfresh
      obtain ⟨dups', auto', hfold, hd', ha'⟩ := ih' (N ++ [lineRow f k]) dups auto
        (by
          intro r hr
          rcases List.mem_append.mp hr with hr | hr
          · exact ⟨(hN r hr).1, fun hin => (hN r hr).2 (by simp [hin])⟩
          · simp only [List.mem_singleton] at hr
            subst hr
            exact ⟨hUd (k, f) (by simp), hnd.1⟩)
        hdups
      refine ⟨dups', auto', ?_, ?_, ?_⟩
      · simp only [List.map_cons, List.foldlM_cons, hstep, bind, Except.bind]
        have hflt : (List.filter (fun kf => !(db0.features.map (·.id)).contains kf.1) ((k, f) :: ds)) =
            (k, f) :: List.filter (fun kf => !(db0.features.map (·.id)).contains kf.1) ds := by
          have hc : (db0.features.map (·.id)).contains k = false := by
            rw [← Bool.not_eq_true, List.contains_iff_mem]; exact hk0
          rw [List.filter_cons]
          simp only [hc, Bool.not_false, if_true]
        rw [hflt]
        have hst : ({ st2 db0 N dups with features := (st2 db0 N dups).features ++ [lineRow f k] } : Db) =
            st2 db0 (N ++ [lineRow f k]) dups := by
          simp [st2, List.append_assoc]
        rw [hst]
        simpa [List.append_assoc] using hfold
      · intro on hon
        rcases hd' on hon with h1 | ⟨kf, hkf, n, e⟩
        · exact Or.inl h1
        · exact Or.inr ⟨kf, by simp [hkf], n, e⟩
      · intro ft hft
        exact ha' ft (fun hin => hft (by simp [hin]))

end GffProofs.C10c
