/-
  String lemmas for C07 `infer_render`: absence of a separator, `join ∘ split`, last characters.
-/
import GffProofs.Lemmas.SplitJoin

namespace GffProofs.C07
open GffModel GffModel.Str GffProofs

/-- `sep` occurs somewhere in `s` (at a position of `s`) -/
def occurs (sep : Str) : Str → Bool
  | [] => false
  | c :: cs => sep.isPrefixOf (c :: cs) || occurs sep cs

theorem splitAux_no_occ (sep s acc : Str) (h : occurs sep s = false) :
    splitAux sep s acc = [acc.reverse ++ s] := by
  induction s generalizing acc with
  | nil => simp [splitAux_nil]
  | cons c cs ih =>
    simp only [occurs, Bool.or_eq_false_iff] at h
    rw [splitAux_cons]
    simp only [h.1, Bool.false_eq_true, false_and, if_false]
    rw [ih _ h.2]; simp

theorem split_no_occ (sep s : Str) (h : occurs sep s = false) : split sep s = [s] := by
  unfold split; rw [splitAux_no_occ sep s [] h]; simp

/-- a string without the mark of the separator does not contain the separator -/
theorem occurs_no_mark (pre post : Str) (c : Char) (p : Str) (hp : c ∉ p) :
    occurs (pre ++ c :: post) p = false := by
  induction p with
  | nil => rfl
  | cons x p ih =>
    simp only [occurs, Bool.or_eq_false_iff]
    exact ⟨no_match_last pre post c (x :: p) hp, ih (fun h => hp (by simp [h]))⟩

/-- ` ; ` does not start inside a part that does not end with a blank, nor at the `;` after it -/
theorem occurs_sp_semi_sp (p t : Str) (hne : p ≠ []) (hp : ';' ∉ p) (hl : p.getLast? ≠ some ' ') :
    occurs [' ', ';', ' '] (p ++ ';' :: t) = occurs [' ', ';', ' '] t := by
  induction p with
  | nil => exact absurd rfl hne
  | cons x p ih =>
    cases p with
    | nil =>
      have hx : x ≠ ' ' := by simpa using hl
      have hx' : (' ' == x) = false := by simpa using Ne.symm hx
      simp [occurs, List.isPrefixOf, hx']
    | cons y p =>
      have hy : y ≠ ';' := by intro e; apply hp; simp [e]
      have hy' : (';' == y) = false := by simpa using Ne.symm hy
      have := ih (by simp) (fun h => hp (by simp [h])) (by simpa [List.getLast?_cons_cons] using hl)
      simp only [List.cons_append] at this ⊢
      rw [occurs, this]
      simp [List.isPrefixOf, hy']

/-- `; ` does not start inside a part, nor at a `;` that is not followed by a blank -/
theorem occurs_semi_sp (p t : Str) (hp : ';' ∉ p) (ht : t.head? ≠ some ' ') :
    occurs [';', ' '] (p ++ ';' :: t) = occurs [';', ' '] t := by
  induction p with
  | nil =>
    cases t with
    | nil => simp [occurs, List.isPrefixOf]
    | cons y t =>
      have hy : y ≠ ' ' := by simpa using ht
      have hy' : (' ' == y) = false := by simpa using Ne.symm hy
      simp [occurs, List.isPrefixOf, hy']
  | cons x p ih =>
    have hx : x ≠ ';' := by intro e; apply hp; simp [e]
    have hx' : (';' == x) = false := by simpa using Ne.symm hx
    have := ih (fun h => hp (by simp [h]))
    simp only [List.cons_append]
    rw [occurs, this]
    simp [List.isPrefixOf, hx']

/-! ### `join` -/

theorem join_cons_cons (sep p q : Str) (rest : List Str) :
    join sep (p :: q :: rest) = p ++ sep ++ join sep (q :: rest) := rfl

theorem join_getLast? (sep : Str) (parts : List Str) (hne : parts ≠ [])
    (hp : ∀ p ∈ parts, p ≠ []) :
    (join sep parts).getLast? = (parts.getLast hne).getLast? := by
  induction parts with
  | nil => exact absurd rfl hne
  | cons p rest ih =>
    cases rest with
    | nil => simp [join]
    | cons q rest =>
      rw [join_cons_cons, List.getLast_cons (by simp)]
      have hj : join sep (q :: rest) ≠ [] := by
        cases rest with
        | nil => simpa [join] using hp q (by simp)
        | cons r rest => simp [join_cons_cons, hp q (by simp)]
      rw [List.getLast?_append]
      obtain ⟨z, hz⟩ : ∃ z, (join sep (q :: rest)).getLast? = some z := by
        cases hh : (join sep (q :: rest)).getLast? with
        | none => exact absurd (List.getLast?_eq_none_iff.mp hh) hj
        | some z => exact ⟨z, rfl⟩
      rw [hz, Option.some_or, ← hz]
      exact ih (by simp) (fun p' h => hp p' (by simp [h]))

theorem join_head? (sep : Str) (p : Str) (rest : List Str) (hp : p ≠ []) :
    (join sep (p :: rest)).head? = p.head? := by
  cases rest with
  | nil => simp [join]
  | cons q rest =>
    rw [join_cons_cons]
    cases p with
    | nil => exact absurd rfl hp
    | cons x p => simp

/-- `c.join(s.split(c)) == s` for a one-character separator -/
theorem join_splitAux1 (c : Char) (s acc : Str) :
    join [c] (splitAux [c] s acc) = acc.reverse ++ s := by
  induction s generalizing acc with
  | nil => simp [splitAux_nil, join]
  | cons x xs ih =>
    rw [splitAux_cons]
    by_cases hx : c = x
    · subst hx
      have : ([c].isPrefixOf (c :: xs) ∧ [c] ≠ []) := by simp [List.isPrefixOf]
      rw [if_pos this]
      have hd : (c :: xs).drop [c].length = xs := by simp
      rw [hd]
      have hi := ih []
      cases hs : splitAux [c] xs [] with
      | nil => rw [hs] at hi; simp [join] at hi; subst hi; simp [splitAux_nil] at hs
      | cons q r => rw [hs] at hi; rw [join_cons_cons, hi]; simp
    · have : ¬ ([c].isPrefixOf (x :: xs) ∧ [c] ≠ []) := by simp [List.isPrefixOf, hx]
      rw [if_neg this, ih]; simp

theorem join_split1 (c : Char) (s : Str) : join [c] (split [c] s) = s := by
  unfold split; rw [join_splitAux1]; simp

/-- splitting at a one-character separator after a first piece free of it -/
theorem split1_cons (c : Char) (k t : Str) (hk : c ∉ k) :
    split [c] (k ++ c :: t) = k :: split [c] t := by
  unfold split
  have := splitAux_part_sep [] [] c (by simp) k t [] hk
  simpa using this

theorem split1_none (c : Char) (k : Str) (hk : c ∉ k) : split [c] k = [k] := by
  unfold split
  have := splitAux_last [] [] c k [] hk
  simpa using this

/-! ### `strip` -/

theorem lstrip_id (p : Str) (h : (p.head?.map isPySpace).getD false = false) : lstrip p = p := by
  cases p with
  | nil => rfl
  | cons x p => simp at h; simp [lstrip, List.dropWhile, h]

theorem strip_id (p : Str) (h1 : (p.head?.map isPySpace).getD false = false)
    (h2 : (p.getLast?.map isPySpace).getD false = false) : strip p = p := by
  unfold strip rstrip
  rw [lstrip_id p h1, lstrip_id p.reverse (by simpa [List.head?_reverse] using h2)]
  simp


/-! ### the three field separators on a rendered attribute column -/

/-- what the field-separator stage needs of a rendered part -/
def PartOk (p : Str) : Prop := p ≠ [] ∧ ';' ∉ p ∧ p.head? ≠ some ' ' ∧ p.getLast? ≠ some ' '

theorem nosplit1 (parts : List Str) (h : ∀ p ∈ parts, PartOk p) :
    occurs [' ', ';', ' '] (join [';'] parts) = false := by
  induction parts with
  | nil => rfl
  | cons p rest ih =>
    cases rest with
    | nil => exact occurs_no_mark [' '] [' '] ';' p (h p (by simp)).2.1
    | cons q rest =>
      obtain ⟨h1, h2, _, h4⟩ := h p (by simp)
      rw [join_cons_cons, List.append_assoc]
      simp only [List.cons_append, List.nil_append]
      rw [occurs_sp_semi_sp p _ h1 h2 h4]
      exact ih (fun p' hp' => h p' (by simp [hp']))

theorem nosplit2 (parts : List Str) (h : ∀ p ∈ parts, PartOk p) :
    occurs [';', ' '] (join [';'] parts) = false := by
  induction parts with
  | nil => rfl
  | cons p rest ih =>
    cases rest with
    | nil => exact occurs_no_mark [] [' '] ';' p (h p (by simp)).2.1
    | cons q rest =>
      obtain ⟨h1, h2, _, h4⟩ := h p (by simp)
      obtain ⟨q1, _, q3, _⟩ := h q (by simp)
      rw [join_cons_cons, List.append_assoc]
      simp only [List.cons_append, List.nil_append]
      rw [occurs_semi_sp p _ h2 (by rw [join_head? _ _ _ q1]; exact q3)]
      exact ih (fun p' hp' => h p' (by simp [hp']))

theorem nosplit3 (parts : List Str) (h : ∀ p ∈ parts, PartOk p) :
    occurs [' ', ';', ' '] (join [';', ' '] parts) = false := by
  induction parts with
  | nil => rfl
  | cons p rest ih =>
    cases rest with
    | nil => exact occurs_no_mark [' '] [' '] ';' p (h p (by simp)).2.1
    | cons q rest =>
      obtain ⟨h1, h2, _, h4⟩ := h p (by simp)
      obtain ⟨q1, q2, _, _⟩ := h q (by simp)
      rw [join_cons_cons, List.append_assoc]
      simp only [List.cons_append, List.nil_append]
      rw [occurs_sp_semi_sp p _ h1 h2 h4]
      have ih' := ih (fun p' hp' => h p' (by simp [hp']))
      rw [occurs, ih', Bool.or_false]
      have hh := join_head? [';', ' '] q rest q1
      cases hj : join [';', ' '] (q :: rest) with
      | nil => simp [List.isPrefixOf]
      | cons y ys =>
        rw [hj] at hh
        have hy : y ≠ ';' := by
          intro e; apply q2; subst e
          cases q with
          | nil => exact absurd rfl q1
          | cons a b => simp at hh; exact List.mem_cons.mpr (Or.inl hh)
        have hy' : (';' == y) = false := by simpa using Ne.symm hy
        simp [List.isPrefixOf, hy']

end GffProofs.C07
