/-
  Helper lemmas for C05b (whole-import form of the `merge` strategy): pieces of a comma split, the
  sorted duplicate-free list of a set, the eight printed columns of `Feature.print`, a generic
  "first element of each class" function, and facts about `placements`.
-/
import GffProofs.Props.C05
import GffProofs.Lemmas.C08bAux

namespace GffProofs.C05
open GffModel GffModel.Create GffModel.Interface
open GffProofs.C04 (autoId incr_spec IdsNodup)
open GffProofs.C02 (idOf parentsOf gffCfg)

/-! ### pieces of `split ","` -/

theorem splitAux_comma_cons (c : Char) (cs acc : Str) :
    Str.splitAux [','] (c :: cs) acc =
      if c = ',' then acc.reverse :: Str.splitAux [','] cs [] else Str.splitAux [','] cs (c :: acc) := by
  rw [splitAux_cons]
  by_cases h : c = ','
  · subst h; simp
  · have : ¬ ([','].isPrefixOf (c :: cs) = true ∧ [','] ≠ []) := by
      simp [List.isPrefixOf, Ne.symm h]
    rw [if_neg this, if_neg h]

theorem splitAux_comma_pieces (s : Str) : ∀ (acc : Str), ∀ x ∈ Str.splitAux [','] s acc, ∀ ch ∈ x,
    ch ∈ acc ∨ (ch ∈ s ∧ ch ≠ ',') := by
  induction s with
  | nil =>
    intro acc x hx ch hch
    rw [splitAux_nil] at hx
    simp only [List.mem_singleton] at hx
    subst hx
    exact Or.inl (by simpa using hch)
  | cons c cs ih =>
    intro acc x hx ch hch
    rw [splitAux_comma_cons] at hx
    by_cases h : c = ','
    · rw [if_pos h] at hx
      rcases List.mem_cons.mp hx with rfl | hx
      · exact Or.inl (by simpa using hch)
      · rcases ih [] x hx ch hch with h1 | ⟨h1, h2⟩
        · cases h1
        · exact Or.inr ⟨List.mem_cons_of_mem _ h1, h2⟩
    · rw [if_neg h] at hx
      rcases ih (c :: acc) x hx ch hch with h1 | ⟨h1, h2⟩
      · rcases List.mem_cons.mp h1 with rfl | h1
        · exact Or.inr ⟨by simp, h⟩
        · exact Or.inl h1
      · exact Or.inr ⟨List.mem_cons_of_mem _ h1, h2⟩

/-- a piece of `s.split(",")` consists of characters of `s` and contains no comma -/
theorem split_piece (s x : Str) (hx : x ∈ Str.split [','] s) : (∀ ch ∈ x, ch ∈ s) ∧ ',' ∉ x := by
  unfold Str.split at hx
  refine ⟨fun ch hch => ?_, fun hc => ?_⟩
  · rcases splitAux_comma_pieces s [] x hx ch hch with h | ⟨h, _⟩
    · cases h
    · exact h
  · rcases splitAux_comma_pieces s [] x hx ',' hc with h | ⟨_, h⟩
    · cases h
    · exact h rfl

theorem split_ne_nil (s : Str) : Str.split [','] s ≠ [] := C08bAux.splitAux_ne_nil _ _ _

/-- `",".join(parts).split(",") == parts` for a non-empty list of comma-free parts -/
theorem split_join_comma (vs : List Str) (hne : vs ≠ []) (h : ∀ v ∈ vs, ',' ∉ v) :
    Str.split [','] (Str.join [','] vs) = vs := by
  have := split_join [] [] ',' (by simp) vs hne h
  simpa using this

theorem mem_join (sep : Str) (l : List Str) (ch : Char) (h : ch ∈ Str.join sep l) :
    ch ∈ sep ∨ ∃ x ∈ l, ch ∈ x := by
  induction l with
  | nil => simp [Str.join] at h
  | cons p rest ih =>
    cases rest with
    | nil => exact Or.inr ⟨p, by simp, by simpa [Str.join] using h⟩
    | cons q rest =>
      simp only [Str.join, List.mem_append] at h
      rcases h with (h | h) | h
      · exact Or.inr ⟨p, by simp, h⟩
      · exact Or.inl h
      · rcases ih h with h | ⟨x, hx, hc⟩
        · exact Or.inl h
        · exact Or.inr ⟨x, List.mem_cons_of_mem _ hx, hc⟩

/-! ### the sorted duplicate-free list of a set of strings is unique -/

theorem sorted_nodup_unique (a b : List Str) (ha : a.Pairwise (fun x y => x ≤ y)) (hb : b.Pairwise (fun x y => x ≤ y))
    (hna : a.Nodup) (hnb : b.Nodup) (h : ∀ x, x ∈ a ↔ x ∈ b) : a = b := by
  have hp : a.Perm b := (List.perm_ext_iff_of_nodup hna hnb).mpr h
  exact List.Perm.eq_of_pairwise (le := fun x y => x ≤ y)
    (fun x y _ _ h1 h2 => List.le_antisymm h1 h2) ha hb hp

theorem sortDedup_congr (A B : List Str) (h : ∀ x, x ∈ A ↔ x ∈ B) : sortStrs (dedup A) = sortStrs (dedup B) := by
  apply sorted_nodup_unique _ _ (sortStrs_sorted _) (sortStrs_sorted _)
  · exact (sortStrs_perm _).nodup_iff.mpr (C11.dedup_exact _).1
  · exact (sortStrs_perm _).nodup_iff.mpr (C11.dedup_exact _).1
  · intro x
    rw [(sortStrs_perm _).mem_iff, (sortStrs_perm _).mem_iff, (C11.dedup_exact _).2, (C11.dedup_exact _).2]
    exact h x

theorem mem_sortDedup (A : List Str) (x : Str) : x ∈ sortStrs (dedup A) ↔ x ∈ A := by
  rw [(sortStrs_perm _).mem_iff, (C11.dedup_exact _).2]

/-! ### `Feature.print`: the eight columns come first, tab-separated -/

/-- `c1 \t c2 \t … cn \t rest` -/
def tabbed : List Str → Str → Str
  | [], r => r
  | c :: cs, r => c ++ '\t' :: tabbed cs r

theorem join_tab_append (cs : List Str) (tl : List Str) (h : tl ≠ []) :
    Str.join ['\t'] (cs ++ tl) = tabbed cs (Str.join ['\t'] tl) := by
  induction cs with
  | nil => rfl
  | cons c cs ih =>
    cases hcs : cs ++ tl with
    | nil => simp at hcs; exact absurd hcs.2 h
    | cons x xs =>
      simp only [List.cons_append, hcs, Str.join, tabbed]
      rw [← hcs, ih]
      simp

theorem tab_prefix_inj (a b r r' : Str) (ha : '\t' ∉ a) (hb : '\t' ∉ b) (h : a ++ '\t' :: r = b ++ '\t' :: r') :
    a = b ∧ r = r' := by
  induction a generalizing b with
  | nil =>
    cases b with
    | nil => simpa using h
    | cons c cs =>
      simp only [List.nil_append, List.cons_append, List.cons.injEq] at h
      exact absurd (by rw [← h.1]; simp) hb
  | cons c cs ih =>
    cases b with
    | nil =>
      simp only [List.nil_append, List.cons_append, List.cons.injEq] at h
      exact absurd (by rw [h.1]; simp) ha
    | cons c' cs' =>
      simp only [List.cons_append, List.cons.injEq] at h
      obtain ⟨rfl, h⟩ := h
      obtain ⟨rfl, rfl⟩ := ih cs' (fun hm => ha (List.mem_cons_of_mem _ hm)) (fun hm => hb (List.mem_cons_of_mem _ hm)) h
      exact ⟨rfl, rfl⟩

theorem tabbed_inj (cs cs' : List Str) (r r' : Str) (hl : cs.length = cs'.length)
    (h1 : ∀ c ∈ cs, '\t' ∉ c) (h2 : ∀ c ∈ cs', '\t' ∉ c) (h : tabbed cs r = tabbed cs' r') : cs = cs' := by
  induction cs generalizing cs' with
  | nil =>
    cases cs' with
    | nil => rfl
    | cons _ _ => cases hl
  | cons c cs ih =>
    cases cs' with
    | nil => cases hl
    | cons c' cs' =>
      simp only [tabbed] at h
      obtain ⟨hc, h'⟩ := tab_prefix_inj c c' _ _ (h1 c (by simp)) (h2 c' (by simp)) h
      rw [hc, ih cs' (by simpa using hl) (fun x hx => h1 x (List.mem_cons_of_mem _ hx))
        (fun x hx => h2 x (List.mem_cons_of_mem _ hx)) h']

/-- `str(feature)` always succeeds, and starts with the eight columns, each followed by a tab -/
theorem print_cols (a : Feature) : ∃ rest, a.print = .ok (tabbed (gffCols.map (colText a)) rest) := by
  have hrec : ∃ r, Parser.reconstruct a.attrs (some a.dialect) a.keepOrder a.sortVals false = .ok r := by
    unfold Parser.reconstruct
    simp only
    split
    · exact ⟨_, rfl⟩
    · exact ⟨_, rfl⟩
  obtain ⟨r, hr⟩ := hrec
  have hcols : [a.seqid, a.source, a.ftype, Feature.coordStr a.start, Feature.coordStr a.stop, a.score, a.strand,
      a.frame] = gffCols.map (colText a) := by
    simp [gffCols, colText]
  by_cases he : a.extra.isEmpty = true
  · refine ⟨Str.join ['\t'] [r], ?_⟩
    rw [← join_tab_append _ _ (by simp), ← hcols]
    simp only [Feature.print, hr, he, bind, Except.bind, pure, Except.pure, if_true]
    rfl
  · refine ⟨Str.join ['\t'] [r, Str.join ['\t'] a.extra], ?_⟩
    rw [← join_tab_append _ _ (by simp), ← hcols]
    simp only [Feature.print, hr, he, bind, Except.bind, pure, Except.pure]
    rfl

/-- two features whose columns contain no tab and which print alike agree on all eight columns -/
theorem print_separates (a b : Feature) (ha : ∀ k ∈ gffCols, '\t' ∉ colText a k) (hb : ∀ k ∈ gffCols, '\t' ∉ colText b k)
    (h : (a.print).toOption = (b.print).toOption) : ∀ k ∈ gffCols, colText a k = colText b k := by
  obtain ⟨ra, hpa⟩ := print_cols a
  obtain ⟨rb, hpb⟩ := print_cols b
  rw [hpa, hpb] at h
  simp only [Except.toOption, Option.some.injEq] at h
  have := tabbed_inj _ _ _ _ (by simp) (by simpa using ha) (by simpa using hb) h
  intro k hk
  exact List.map_inj_left.mp this k hk

/-! ### the first element of each class, in order -/

/-- the first element of every class of `key` not listed in `seen`, in order of appearance -/
def firstsBy {α β : Type} [DecidableEq β] (key : α → β) (seen : List β) : List α → List α
  | [] => []
  | a :: as => if key a ∈ seen then firstsBy key seen as else a :: firstsBy key (key a :: seen) as

section firstsBy
variable {α β : Type} [DecidableEq β] (key : α → β)

theorem firstsBy_sublist (seen : List β) (l : List α) : (firstsBy key seen l).Sublist l := by
  induction l generalizing seen with
  | nil => exact List.Sublist.slnil
  | cons a l ih =>
    simp only [firstsBy]
    split
    · exact (ih seen).cons a
    · exact (ih _).cons_cons a

theorem firstsBy_snoc (seen : List β) (l : List α) (a : α) :
    firstsBy key seen (l ++ [a]) =
      firstsBy key seen l ++ (if key a ∈ seen ∨ key a ∈ l.map key then [] else [a]) := by
  induction l generalizing seen with
  | nil => simp [firstsBy]
  | cons b l ih =>
    simp only [List.cons_append, firstsBy, List.map_cons, List.mem_cons]
    by_cases hb : key b ∈ seen
    · rw [if_pos hb, if_pos hb, ih seen]
      congr 1
      by_cases h1 : key a ∈ seen ∨ key a ∈ l.map key
      · rw [if_pos h1, if_pos (by rcases h1 with h | h; exact Or.inl h; exact Or.inr (Or.inr h))]
      · rw [if_neg h1, if_neg]
        rintro (h | h | h)
        · exact h1 (Or.inl h)
        · exact h1 (Or.inl (h ▸ hb))
        · exact h1 (Or.inr h)
    · rw [if_neg hb, if_neg hb, ih (key b :: seen), List.cons_append]
      congr 2
      simp only [List.mem_cons]
      by_cases h1 : (key a = key b ∨ key a ∈ seen) ∨ key a ∈ l.map key
      · rw [if_pos h1, if_pos (by
          rcases h1 with (h | h) | h
          · exact Or.inr (Or.inl h)
          · exact Or.inl h
          · exact Or.inr (Or.inr h))]
      · rw [if_neg h1, if_neg]
        rintro (h | h | h)
        · exact h1 (Or.inl (Or.inr h))
        · exact h1 (Or.inl (Or.inl h))
        · exact h1 (Or.inr h)

theorem firstsBy_keys (seen : List β) (l : List α) :
    ((firstsBy key seen l).map key).Nodup ∧ ∀ a ∈ firstsBy key seen l, key a ∉ seen := by
  induction l generalizing seen with
  | nil => simp [firstsBy]
  | cons a l ih =>
    simp only [firstsBy]
    by_cases hk : key a ∈ seen
    · rw [if_pos hk]; exact ih seen
    · rw [if_neg hk]
      obtain ⟨h1, h2⟩ := ih (key a :: seen)
      refine ⟨?_, ?_⟩
      · rw [List.map_cons, List.nodup_cons]
        refine ⟨?_, h1⟩
        intro hmem
        obtain ⟨g, hg, hgk⟩ := List.mem_map.mp hmem
        exact h2 g hg (by rw [hgk]; simp)
      · intro g hg
        rcases List.mem_cons.mp hg with rfl | hg
        · exact hk
        · exact fun hm => h2 g hg (List.mem_cons_of_mem _ hm)

/-- a class is represented iff it is not in `seen` and occurs -/
theorem mem_firstsBy_key (seen : List β) (l : List α) (k : β) :
    (∃ a ∈ firstsBy key seen l, key a = k) ↔ k ∉ seen ∧ ∃ a ∈ l, key a = k := by
  induction l generalizing seen with
  | nil => simp [firstsBy]
  | cons f fs ih =>
    simp only [firstsBy]
    by_cases hk : key f ∈ seen
    · rw [if_pos hk, ih seen]
      constructor
      · rintro ⟨h1, g, hg, hgk⟩; exact ⟨h1, g, List.mem_cons_of_mem _ hg, hgk⟩
      · rintro ⟨h1, g, hg, hgk⟩
        refine ⟨h1, ?_⟩
        rcases List.mem_cons.mp hg with rfl | hg
        · rw [hgk] at hk; exact absurd hk h1
        · exact ⟨g, hg, hgk⟩
    · rw [if_neg hk]
      simp only [List.mem_cons, exists_eq_or_imp]
      rw [ih (key f :: seen)]
      simp only [List.mem_cons, not_or]
      constructor
      · rintro (h | ⟨⟨h1, h2⟩, g, hg, hgk⟩)
        · exact ⟨by rw [← h]; exact hk, Or.inl h⟩
        · exact ⟨h2, Or.inr ⟨g, hg, hgk⟩⟩
      · rintro ⟨h1, h | ⟨g, hg, hgk⟩⟩
        · exact Or.inl h
        · by_cases he : key f = k
          · exact Or.inl he
          · exact Or.inr ⟨⟨fun e => he e.symm, h1⟩, g, hg, hgk⟩

/-- the representative of a class is its FIRST element -/
theorem firstsBy_find (seen : List β) (l : List α) (k : β) (hk : k ∉ seen) :
    (firstsBy key seen l).find? (fun a => key a = k) = l.find? (fun a => key a = k) := by
  induction l generalizing seen with
  | nil => rfl
  | cons f fs ih =>
    simp only [firstsBy]
    by_cases hf : key f ∈ seen
    · rw [if_pos hf]
      have : key f ≠ k := fun e => hk (e ▸ hf)
      rw [List.find?_cons_of_neg (by simpa using this)]
      exact ih seen hk
    · rw [if_neg hf]
      by_cases he : key f = k
      · rw [List.find?_cons_of_pos (by simpa using he), List.find?_cons_of_pos (by simpa using he)]
      · rw [List.find?_cons_of_neg (by simpa using he), List.find?_cons_of_neg (by simpa using he)]
        exact ih _ (by simp only [List.mem_cons, not_or]; exact ⟨fun e => he e.symm, hk⟩)

end firstsBy

/-! ### lists with distinct keys -/

theorem find?_of_nodup_key {α β : Type} [DecidableEq β] (g : α → β) (l : List α) (hnd : (l.map g).Nodup) (a : α)
    (ha : a ∈ l) : l.find? (fun x => g x = g a) = some a := by
  induction l with
  | nil => cases ha
  | cons b l ih =>
    rw [List.map_cons, List.nodup_cons] at hnd
    rcases List.mem_cons.mp ha with rfl | ha
    · rw [List.find?_cons_of_pos (by simp)]
    · have : g b ≠ g a := fun e => hnd.1 (e ▸ List.mem_map.mpr ⟨a, ha, rfl⟩)
      rw [List.find?_cons_of_neg (by simpa using this)]
      exact ih hnd.2 ha

theorem find?_toList_eq_filter {α β : Type} [DecidableEq β] (g : α → β) (l : List α) (hnd : (l.map g).Nodup) (k : β) :
    (l.find? (fun x => g x = k)).toList = l.filter (fun x => g x = k) := by
  induction l with
  | nil => rfl
  | cons b l ih =>
    rw [List.map_cons, List.nodup_cons] at hnd
    by_cases hb : g b = k
    · rw [List.find?_cons_of_pos (by simpa using hb), List.filter_cons_of_pos (by simpa using hb)]
      have : l.filter (fun x => decide (g x = k)) = [] := by
        rw [List.filter_eq_nil_iff]
        intro x hx hxk
        exact hnd.1 (by rw [hb, ← of_decide_eq_true hxk]; exact List.mem_map.mpr ⟨x, hx, rfl⟩)
      rw [this]; rfl
    · rw [List.find?_cons_of_neg (by simpa using hb), List.filter_cons_of_neg (by simpa using hb)]
      exact ih hnd.2

/-- filtering a list with distinct keys for one key gives at most that element -/
theorem filter_key_eq {α β : Type} [DecidableEq β] (g : α → β) (l : List α) (hnd : (l.map g).Nodup) (k : β) :
    (∃ pre a post, l = pre ++ a :: post ∧ g a = k ∧ (∀ x ∈ pre, g x ≠ k) ∧ (∀ x ∈ post, g x ≠ k) ∧
      l.filter (fun x => g x = k) = [a]) ∨
    ((∀ x ∈ l, g x ≠ k) ∧ l.filter (fun x => g x = k) = []) := by
  induction l with
  | nil => exact Or.inr ⟨by simp, rfl⟩
  | cons b l ih =>
    rw [List.map_cons, List.nodup_cons] at hnd
    by_cases hb : g b = k
    · have hrest : ∀ x ∈ l, g x ≠ k := fun x hx e => hnd.1 (by rw [hb, ← e]; exact List.mem_map.mpr ⟨x, hx, rfl⟩)
      refine Or.inl ⟨[], b, l, rfl, hb, by simp, hrest, ?_⟩
      rw [List.filter_cons_of_pos (by simpa using hb)]
      congr 1
      rw [List.filter_eq_nil_iff]
      intro x hx; simpa using hrest x hx
    · rcases ih hnd.2 with ⟨pre, a, post, rfl, ha, h1, h2, h3⟩ | ⟨h1, h2⟩
      · refine Or.inl ⟨b :: pre, a, post, rfl, ha, ?_, h2, ?_⟩
        · intro x hx
          rcases List.mem_cons.mp hx with rfl | hx
          · exact hb
          · exact h1 x hx
        · rw [List.filter_cons_of_neg (by simpa using hb)]; exact h3
      · refine Or.inr ⟨?_, ?_⟩
        · intro x hx
          rcases List.mem_cons.mp hx with rfl | hx
          · exact hb
          · exact h1 x hx
        · rw [List.filter_cons_of_neg (by simpa using hb)]; exact h2

/-! ### `placements` from the empty database -/

/-- how many features of `l` carry key `k` -/
def cntKey (k : Str) (l : List Feature) : Nat := (l.filter (fun f => keyOf f = k)).length

theorem cntKey_append (k : Str) (a b : List Feature) : cntKey k (a ++ b) = cntKey k a + cntKey k b := by
  simp [cntKey, List.filter_append]

theorem cntKey_cons (k : Str) (f : Feature) (l : List Feature) :
    cntKey k (f :: l) = (if keyOf f = k then 1 else 0) + cntKey k l := by
  unfold cntKey
  by_cases h : keyOf f = k
  · rw [List.filter_cons_of_pos (by simpa using h), if_pos h]; simp only [List.length_cons]; omega
  · rw [List.filter_cons_of_neg (by simpa using h), if_neg h]; omega

theorem cntKey_pos_of_mem (k : Str) (l : List Feature) (f : Feature) (hf : f ∈ l) (hk : keyOf f = k) :
    0 < cntKey k l := by
  unfold cntKey
  exact List.length_pos_of_mem (List.mem_filter.mpr ⟨hf, by simpa using hk⟩)

theorem cntKey_zero_iff (k : Str) (l : List Feature) : cntKey k l = 0 ↔ ∀ f ∈ l, keyOf f ≠ k := by
  unfold cntKey
  rw [List.length_eq_zero_iff, List.filter_eq_nil_iff]
  simp

/-- the id of a group whose key `k` was held by the groups `pre` before: `k`, or `k_<number of holders>` -/
theorem uid_eq (pre : List Feature) (k : Str) :
    uniqueId [] [] pre k = if cntKey k pre = 0 then k else autoId k (cntKey k pre) := uniqueId_create pre k

theorem autoId_ne_self (k : Str) (n : Nat) : autoId k n ≠ k := by
  intro h
  have := congrArg List.length h
  simp [autoId] at this

theorem placements_snoc (ids0 : List Str) (auto0 : Dict Nat) (pre rest : List Feature) (x : Feature) :
    placements ids0 auto0 pre (rest ++ [x]) =
      placements ids0 auto0 pre rest ++ [(x, uniqueId ids0 auto0 (pre ++ rest) (keyOf x))] := by
  induction rest generalizing pre with
  | nil => simp [placements]
  | cons r rest ih => simp [placements, ih]

theorem placements_map_fst (ids0 : List Str) (auto0 : Dict Nat) (pre rest : List Feature) :
    (placements ids0 auto0 pre rest).map (·.1) = rest := by
  induction rest generalizing pre with
  | nil => rfl
  | cons r rest ih => simp [placements, ih]

/-- the id given to a placed group: with `c` = the number of earlier holders of its key,
`key` if `c = 0`, `key_c` otherwise -/
theorem places_id_cases (before reps : List Feature) (p : Feature × Str) (hp : p ∈ placements [] [] before reps) :
    p.1 ∈ reps ∧ ∃ c, cntKey (keyOf p.1) before ≤ c ∧ c < cntKey (keyOf p.1) (before ++ reps) ∧
      p.2 = if c = 0 then keyOf p.1 else autoId (keyOf p.1) c := by
  induction reps generalizing before with
  | nil => cases hp
  | cons r rest ih =>
    simp only [placements, List.mem_cons] at hp
    rcases hp with rfl | hp
    · refine ⟨by simp, cntKey (keyOf r) before, Nat.le_refl _, ?_, uid_eq before (keyOf r)⟩
      show cntKey (keyOf r) before < cntKey (keyOf r) (before ++ r :: rest)
      rw [cntKey_append, cntKey_cons, if_pos rfl]; omega
    · obtain ⟨hm, c, h1, h2, h3⟩ := ih (before ++ [r]) hp
      refine ⟨List.mem_cons_of_mem _ hm, c, ?_, ?_, h3⟩
      · rw [cntKey_append] at h1; omega
      · rw [List.append_assoc] at h2; exact h2

/-- **keys and generated ids never clash**: no key is of the form `<key'>_<n>` -/
def FreshKeys (l : List Feature) : Prop := ∀ r ∈ l, ∀ r' ∈ l, ∀ n, 0 < n → keyOf r' ≠ autoId (keyOf r) n

theorem freshKeys_of_fresh (fs : List Feature) (h : Fresh [] [] fs) : FreshKeys fs := by
  intro r hr r' hr' n hn
  exact (h r hr n (by simpa [Dict.get?] using hn)).2 r' hr'

theorem FreshKeys.sub {l l' : List Feature} (h : FreshKeys l) (hs : ∀ x ∈ l', x ∈ l) : FreshKeys l' :=
  fun r hr r' hr' n hn => h r (hs r hr) r' (hs r' hr') n hn

/-- the id of a new group is not among the ids given so far -/
theorem newId_not_mem (reps : List Feature) (x : Feature) (hF : FreshKeys (reps ++ [x])) :
    uniqueId [] [] reps (keyOf x) ∉ (placements [] [] [] reps).map (·.2) := by
  intro hmem
  obtain ⟨p, hp, he⟩ := List.mem_map.mp hmem
  obtain ⟨hp1, c, _, hc, hid⟩ := places_id_cases [] reps p hp
  rw [List.nil_append] at hc
  rw [uid_eq] at he
  have hx : x ∈ reps ++ [x] := by simp
  have hp1' : p.1 ∈ reps ++ [x] := List.mem_append_left _ hp1
  by_cases hc0 : c = 0
  · rw [if_pos hc0] at hid
    by_cases hn0 : cntKey (keyOf x) reps = 0
    · rw [if_pos hn0] at he
      have := (cntKey_zero_iff _ _).mp hn0 p.1 hp1
      exact this (by rw [← hid, he])
    · rw [if_neg hn0] at he
      exact hF x hx p.1 hp1' _ (Nat.pos_of_ne_zero hn0) (by rw [← hid, he])
  · rw [if_neg hc0] at hid
    by_cases hn0 : cntKey (keyOf x) reps = 0
    · rw [if_pos hn0] at he
      exact hF p.1 hp1' x hx c (Nat.pos_of_ne_zero hc0) (by rw [← he, hid])
    · rw [if_neg hn0] at he
      rw [hid] at he
      obtain ⟨hk, hn⟩ := autoId_inj _ _ _ _ he
      rw [hk] at hc
      omega

/-- **the ids given to the groups are pairwise different** -/
theorem places_ids_nodup (reps : List Feature) (hF : FreshKeys reps) :
    ((placements [] [] [] reps).map (·.2)).Nodup := by
  induction reps using snoc_induction with
  | h0 => simp [placements]
  | hs reps x ih =>
    rw [placements_snoc, List.map_append, List.nodup_append]
    refine ⟨ih (hF.sub (fun y hy => List.mem_append_left _ hy)), by simp, ?_⟩
    intro a ha b hb
    simp only [List.map_cons, List.map_nil, List.mem_singleton, List.nil_append] at hb
    subst hb
    intro e
    exact newId_not_mem reps x hF (e ▸ ha)

/-- an id equals the (ungenerated) key `k` only for the group stored under its own key `k` -/
theorem places_id_eq_key (reps : List Feature) (p : Feature × Str) (hp : p ∈ placements [] [] [] reps) (k : Str)
    (hk : ∀ r ∈ reps, ∀ n, 0 < n → k ≠ autoId (keyOf r) n) :
    p.2 = k ↔ (keyOf p.1 = k ∧ p.2 = keyOf p.1) := by
  obtain ⟨hp1, c, _, _, hid⟩ := places_id_cases [] reps p hp
  constructor
  · intro h
    by_cases hc0 : c = 0
    · rw [if_pos hc0] at hid; exact ⟨by rw [← hid, h], hid⟩
    · rw [if_neg hc0] at hid
      exact absurd (by rw [← h, hid]) (hk p.1 hp1 c (Nat.pos_of_ne_zero hc0))
  · rintro ⟨h1, h2⟩; rw [h2, h1]

/-- a group stored under a generated id: the id is `key_c` with `1 ≤ c <` the number of groups of that key -/
theorem places_later (reps : List Feature) (p : Feature × Str) (hp : p ∈ placements [] [] [] reps)
    (hl : p.2 ≠ keyOf p.1) : ∃ c, 0 < c ∧ c < cntKey (keyOf p.1) reps ∧ p.2 = autoId (keyOf p.1) c := by
  obtain ⟨_, c, _, hc, hid⟩ := places_id_cases [] reps p hp
  rw [List.nil_append] at hc
  by_cases hc0 : c = 0
  · rw [if_pos hc0] at hid; exact absurd hid hl
  · rw [if_neg hc0] at hid; exact ⟨c, Nat.pos_of_ne_zero hc0, hc, hid⟩

/-- a key that is held by some group has a group stored under the key itself (the first one) -/
theorem places_has_key (before reps : List Feature) (k : Str) (h0 : cntKey k before = 0) (h : 0 < cntKey k reps) :
    ∃ p ∈ placements [] [] before reps, keyOf p.1 = k ∧ p.2 = k := by
  induction reps generalizing before with
  | nil => simp [cntKey] at h
  | cons r rest ih =>
    by_cases hr : keyOf r = k
    · refine ⟨(r, uniqueId [] [] before (keyOf r)), by simp [placements], hr, ?_⟩
      show uniqueId [] [] before (keyOf r) = k
      rw [uid_eq, hr, if_pos h0]
    · rw [cntKey_cons, if_neg hr, Nat.zero_add] at h
      have h0' : cntKey k (before ++ [r]) = 0 := by
        rw [cntKey_append, h0, cntKey_cons, if_neg hr]; rfl
      obtain ⟨p, hp, h1, h2⟩ := ih (before ++ [r]) h0' h
      exact ⟨p, by simp only [placements, List.mem_cons]; exact Or.inr hp, h1, h2⟩

end GffProofs.C05
