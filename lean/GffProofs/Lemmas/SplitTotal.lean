/-
  Totality of the attribute parser `_split_keyvals` (both paths) and the `ValueError` of an empty separator.
-/
import GffModel.Parser
import GffProofs.Lemmas.ExceptList

namespace GffProofs.C08
open GffModel GffModel.Parser

theorem keyVal_ok (sep : Str) (item : List Str) (h : item ≠ []) : ∃ k v, keyVal sep item = .ok (k, v) := by
  unfold keyVal
  split
  · exact absurd rfl h
  · exact ⟨_, _, rfl⟩
  · exact ⟨_, _, rfl⟩
  · exact ⟨_, _, rfl⟩

theorem headRest_ok (p : List Str) (h : p ≠ []) : ∃ y, headRest p = .ok y ∧ y ≠ [] := by
  cases p with
  | nil => exact absurd rfl h
  | cons a b => exact ⟨_, rfl, by simp⟩

theorem bind_ok {ε α β : Type} (P : α → Prop) {x : Except ε α} {f : α → Except ε β}
    (hx : ∃ a, x = .ok a ∧ P a) (hf : ∀ a, P a → ∃ r, f a = .ok r) : ∃ r, x >>= f = .ok r := by
  obtain ⟨a, rfl, ha⟩ := hx
  exact hf a ha

theorem fold_keyVal_ok {σ : Type} (sep : σ → Str) (f : σ → Str × Str → Py σ)
    (hf : ∀ a x, ∃ r, f a x = .ok r) (l : List (List Str)) (h : ∀ x ∈ l, x ≠ []) (init : σ) :
    ∃ r, List.foldlM (fun acc item => keyVal (sep acc) item >>= f acc) init l = .ok r := by
  apply foldlM_ok_of_forall
  intro acc x hx
  obtain ⟨k, v, hk⟩ := keyVal_ok (sep acc) x (h x hx)
  rw [hk]
  exact hf acc (k, v)

theorem bind_ok' {ε α β : Type} {x : Except ε α} {f : α → Except ε β}
    (hx : ∃ a, x = .ok a) (hf : ∀ a, ∃ r, f a = .ok r) : ∃ r, x >>= f = .ok r := by
  obtain ⟨a, rfl⟩ := hx
  exact hf a

theorem splitInfer_total (s : Str) (ie : Bool) : ∃ r, splitInfer s ie = .ok r := by
  unfold splitInfer
  conv => zeta
  generalize (ite (s.getLast? == some ';') _ _ : Str × Dialect) = sd
  obtain ⟨s', d0⟩ := sd
  dsimp only
  generalize hpd : (ite ((Str.split " ; ".toList s').length > 1) _ _ : List Str × Dialect) = pd
  have hparts : pd.1 ≠ [] := by
    rw [← hpd]
    repeat' split
    all_goals exact split_ne_nil _ _
  clear hpd
  obtain ⟨parts, d1⟩ := pd
  cases parts with
  | nil => exact absurd rfl hparts
  | cons p0 rest =>
  clear hparts
  dsimp only
  simp only [pure_bind]
  split
  · refine bind_ok' (fold_keyVal_ok _ _ ?_ _ ?_ _) (fun a => ⟨_, rfl⟩)
    · exact fun a x => ⟨_, rfl⟩
    · intro x hx; obtain ⟨y, _, rfl⟩ := List.mem_map.mp hx; exact split_ne_nil _ _
  · refine bind_ok (fun kv => ∀ x ∈ kv, x ≠ []) ?_ ?_
    · apply mapM_ok_of_forall
      intro x hx
      obtain ⟨y, _, rfl⟩ := List.mem_map.mp hx
      exact headRest_ok _ (split_ne_nil _ _)
    · intro kv hkv
      refine bind_ok' (fold_keyVal_ok _ _ ?_ _ hkv _) (fun a => ⟨_, rfl⟩)
      exact fun a x => ⟨_, rfl⟩

theorem splitProvided_total (s : Str) (d : Dialect) (ie : Bool)
    (h1 : d.fieldSep ≠ []) (h2 : d.kvSep ≠ []) : ∃ r, splitProvided s d ie = .ok r := by
  unfold splitProvided
  conv => zeta
  refine bind_ok' ⟨_, pySplit_ok _ _ h1⟩ (fun parts => ?_)
  have hfold : ∀ (kv : List (List Str)), (∀ x ∈ kv, x ≠ []) → ∀ init, ∃ r,
      List.foldlM (fun (quals : Attrs) item => do
        let __x ← keyVal d.kvSep item
        match __x with
          | (key, val) =>
            if (!List.isEmpty (if (d.quoted && isQuotedVal val) = true then stripQuotes val else val)) = true then
              pure (Dict.set (if Dict.contains quals key = true then quals else Dict.set quals key []) key
                  ((Dict.get? (if Dict.contains quals key = true then quals else Dict.set quals key []) key).getD [] ++
                    Str.split [','] (if (d.quoted && isQuotedVal val) = true then stripQuotes val else val)))
            else pure (if Dict.contains quals key = true then quals else Dict.set quals key [])) init kv = .ok r := by
    intro kv hkv init
    refine fold_keyVal_ok (fun _ => d.kvSep) _ ?_ _ hkv _
    intro a x; dsimp only; repeat' split
    all_goals exact ⟨_, rfl⟩
  split
  case' isTrue =>
    refine bind_ok' (mapM_ok _ _ (fun x _ => ⟨_, pySplit_ok d.kvSep _ h2⟩)) (fun _ => ?_)
  all_goals
    split
    · refine bind_ok (fun kv => ∀ x ∈ kv, x ≠ []) (mapM_ok_of_forall _ _ _ ?_) ?_
      · intro x _; exact ⟨_, pySplit_ok _ _ h2, split_ne_nil _ _⟩
      · intro kv hkv
        exact bind_ok' (hfold kv hkv _) (fun a => ⟨_, rfl⟩)
    · refine bind_ok (fun ps => ∀ x ∈ ps, x ≠ []) (mapM_ok_of_forall _ _ _ ?_) ?_
      · intro x _; exact ⟨_, pySplit_ok _ _ h2, split_ne_nil _ _⟩
      · intro ps hps
        refine bind_ok (fun kv => ∀ x ∈ kv, x ≠ []) (mapM_ok_of_forall _ _ _ ?_) ?_
        · intro x hx; exact headRest_ok _ (hps x hx)
        · intro kv hkv
          exact bind_ok' (hfold kv hkv _) (fun a => ⟨_, rfl⟩)

theorem ok_bind {ε α β : Type} (a : α) (f : α → Except ε β) : (Except.ok a >>= f) = f a := rfl
theorem error_bind {ε α β : Type} (e : ε) (f : α → Except ε β) : ((Except.error e : Except ε α) >>= f) = .error e := rfl

theorem splitProvided_empty (s : Str) (d : Dialect) (ie : Bool)
    (h : d.fieldSep = [] ∨ d.kvSep = []) : splitProvided s d ie = .error .value := by
  unfold splitProvided
  conv => zeta
  by_cases hf : d.fieldSep = []
  · rw [hf, pySplit_nil]; rfl
  · have hk : d.kvSep = [] := h.resolve_left hf
    rw [pySplit_ok _ _ hf, ok_bind, hk]
    have hz : ∀ (l : List Str), l ≠ [] → l.zipIdx ≠ [] := by
      intro l hl; cases l with
      | nil => exact absurd rfl hl
      | cons a b => simp [List.zipIdx_cons]
    split
    · rw [mapM_error_of_forall _ .value _ (split_ne_nil _ _) (fun _ => pySplit_nil _)]; rfl
    · split
      · rw [mapM_error_of_forall _ .value _ (split_ne_nil _ _) (fun _ => pySplit_nil _)]; rfl
      · rw [mapM_error_of_forall _ .value _ (hz _ (split_ne_nil _ _)) (fun ⟨_, _⟩ => pySplit_nil _)]; rfl

end GffProofs.C08
