/-
  Character-level facts about percent-encoded values (`Quote.quoteStr`) and `valOk` values.
-/
import GffProofs.Lemmas.C07WF

namespace GffProofs.C07
open GffModel GffModel.Parser GffModel.Grammar GffModel.Quote

theorem hexU_facts : ∀ n, n < 16 →
    hexU n ≠ ';' ∧ hexU n ≠ '=' ∧ hexU n ≠ ',' ∧ hexU n ≠ ' ' ∧ Str.isPySpace (hexU n) = false := by
  decide

theorem toQuote_lt (c : Char) (h : toQuote c = true) : c.toNat < 128 := by
  unfold toQuote at h
  simp only [Bool.or_eq_true, decide_eq_true_eq, beq_iff_eq] at h
  rcases h with (((((h | h) | h) | h) | h) | h) | h
  · omega
  · omega
  all_goals (subst h; decide)

theorem mem_quoteChar (x c : Char) (h : c ∈ quoteChar x) :
    (c = x ∧ toQuote x = false) ∨ c = '%' ∨ ∃ n, n < 16 ∧ c = hexU n := by
  unfold quoteChar at h
  split at h
  · rename_i hq
    have := toQuote_lt x hq
    simp only [List.mem_cons, List.not_mem_nil, or_false] at h
    rcases h with h | h | h
    · exact Or.inr (Or.inl h)
    · exact Or.inr (Or.inr ⟨_, by omega, h⟩)
    · exact Or.inr (Or.inr ⟨_, by omega, h⟩)
  · rename_i hq
    simp only [List.mem_cons, List.not_mem_nil, or_false] at h
    exact Or.inl ⟨h, by simpa using hq⟩

theorem mem_quoteStr (v : Str) (c : Char) (h : c ∈ quoteStr v) :
    (c ∈ v ∧ toQuote c = false) ∨ c = '%' ∨ ∃ n, n < 16 ∧ c = hexU n := by
  unfold quoteStr at h
  obtain ⟨x, hx, hc⟩ := List.mem_flatMap.mp h
  rcases mem_quoteChar x c hc with ⟨rfl, h2⟩ | h | h
  · exact Or.inl ⟨hx, h2⟩
  · exact Or.inr (Or.inl h)
  · exact Or.inr (Or.inr h)

theorem quoteStr_not_mem (v : Str) (c : Char) (hq : toQuote c = true) (hp : c ≠ '%')
    (hh : ∀ n, n < 16 → hexU n ≠ c) : c ∉ quoteStr v := by
  intro h
  rcases mem_quoteStr v c h with ⟨_, h2⟩ | h | ⟨n, hn, h⟩
  · rw [hq] at h2; exact absurd h2 (by simp)
  · exact hp h
  · exact hh n hn h.symm

theorem semi_not_mem_quoteStr (v : Str) : ';' ∉ quoteStr v :=
  quoteStr_not_mem v ';' (by decide) (by decide) (fun n hn => (hexU_facts n hn).1)

theorem eq_not_mem_quoteStr (v : Str) : '=' ∉ quoteStr v :=
  quoteStr_not_mem v '=' (by decide) (by decide) (fun n hn => (hexU_facts n hn).2.1)

theorem comma_not_mem_quoteStr (v : Str) : ',' ∉ quoteStr v :=
  quoteStr_not_mem v ',' (by decide) (by decide) (fun n hn => (hexU_facts n hn).2.2.1)

theorem quoteChar_ne_nil (c : Char) : quoteChar c ≠ [] := by
  unfold quoteChar; split <;> simp

theorem quoteStr_head (c : Char) (cs : Str) :
    (quoteStr (c :: cs)).head? = some (if toQuote c then '%' else c) := by
  unfold quoteStr quoteChar
  simp only [List.flatMap_cons]
  split <;> simp

theorem quoteStr_last (v : Str) (c : Char) (h : v.getLast? = some c) :
    (quoteStr v).getLast? = some (if toQuote c then hexU (c.toNat % 16) else c) := by
  obtain ⟨a, rfl⟩ : ∃ a, v = a ++ [c] := by
    rw [List.getLast?_eq_some_iff] at h; exact h
  unfold quoteStr
  rw [List.flatMap_append, List.getLast?_append]
  simp only [List.flatMap_cons, List.flatMap_nil, List.append_nil]
  unfold quoteChar
  split <;> simp

/-- what the parser stages need of one written value -/
structure EncOk (s : LineSpec) (v : Str) : Prop where
  ne : s.encVal v ≠ []
  semi : ';' ∉ s.encVal v
  comma : ',' ∉ s.encVal v
  head : (s.encVal v).head? ≠ some ' '
  last : (s.encVal v).getLast? ≠ some ' '
  eqs : s.style = .eq → '=' ∉ s.encVal v
  lastsp : s.style = .space → s.quoted = false →
    ((s.encVal v).getLast?.map Str.isPySpace).getD false = false

theorem fmt_eq_style (s : LineSpec) (h : s.style = .eq) : s.fmt = gff3 := by
  unfold LineSpec.fmt; simp [h]

theorem fmt_unquoted (s : LineSpec) (h : s.quoted = false) : s.fmt = gff3 := by
  unfold LineSpec.fmt; simp [h]

theorem fmt_cases (s : LineSpec) : s.fmt = gff3 ∨ (s.fmt = gtf ∧ s.style = .space ∧ s.quoted = true) := by
  unfold LineSpec.fmt
  by_cases h : s.style = .space ∧ s.quoted = true
  · right; simp [h]
  · left; simp [h]

theorem gtf_ne_gff3 : gtf ≠ gff3 := by decide

theorem noneOf_not_mem (bad : List Char) (v : Str) (h : noneOf bad v = true) (c : Char) (hc : c ∈ bad) :
    c ∉ v := by
  intro hv
  unfold noneOf at h
  rw [List.all_eq_true] at h
  have := h c hv
  simp [hc] at this

theorem encOk (s : LineSpec) (v : Str) (h : valOk s v = true) : EncOk s v := by
  unfold valOk at h
  simp only [Bool.and_eq_true] at h
  obtain ⟨⟨⟨⟨⟨h1, h2⟩, h3⟩, _⟩, h5⟩, h6⟩ := h
  have hne : v ≠ [] := by intro e; rw [e] at h1; simp at h1
  have h2' : v.head? ≠ some ' ' := by simpa using h2
  have h3' : v.getLast? ≠ some ' ' := by simpa using h3
  obtain ⟨c0, cs, rfl⟩ : ∃ c0 cs, v = c0 :: cs := by
    cases v with
    | nil => exact absurd rfl hne
    | cons a b => exact ⟨a, b, rfl⟩
  obtain ⟨cl, hcl⟩ : ∃ cl, (c0 :: cs).getLast? = some cl := ⟨_, List.getLast?_cons⟩
  rcases fmt_cases s with hf | ⟨hf, hst, hsq⟩
  · -- percent-encoded
    have he : s.encVal (c0 :: cs) = quoteStr (c0 :: cs) := by unfold LineSpec.encVal; simp [hf]
    have hlast := quoteStr_last _ cl hcl
    have hcl' : cl ≠ ' ' := by intro e; rw [hcl, e] at h3'; exact h3' rfl
    refine ⟨?_, ?_, ?_, ?_, ?_, ?_, ?_⟩ <;> rw [he]
    · exact quoteStr_ne_nil _ hne
    · exact semi_not_mem_quoteStr _
    · exact comma_not_mem_quoteStr _
    · rw [quoteStr_head]
      split
      · decide
      · simpa using h2'
    · rw [hlast]
      split
      · rename_i hq
        have := toQuote_lt cl hq
        have := (hexU_facts (cl.toNat % 16) (by omega)).2.2.2.1
        simpa using this
      · simpa using hcl'
    · exact fun _ => eq_not_mem_quoteStr _
    · intro hst hsq
      rw [hlast]
      split
      · rename_i hq
        have := toQuote_lt cl hq
        have := (hexU_facts (cl.toNat % 16) (by omega)).2.2.2.2
        simpa using this
      · have hc : s.style = .space ∧ ¬ s.quoted = true := ⟨hst, by simp [hsq]⟩
        rw [if_pos hc, hcl] at h6
        simpa using h6
  · -- GTF: written as is
    have he : s.encVal (c0 :: cs) = c0 :: cs := by unfold LineSpec.encVal; simp [hf, gtf_ne_gff3]
    rw [if_neg (by rw [hf]; exact gtf_ne_gff3)] at h5
    refine ⟨?_, ?_, ?_, ?_, ?_, ?_, ?_⟩ <;> rw [he]
    · exact hne
    · exact noneOf_not_mem _ _ h5 ';' (by simp)
    · exact noneOf_not_mem _ _ h5 ',' (by simp)
    · exact h2'
    · exact h3'
    · intro h; rw [hst] at h; exact absurd h (by decide)
    · intro _ h; rw [hsq] at h; exact absurd h (by simp)

end GffProofs.C07
