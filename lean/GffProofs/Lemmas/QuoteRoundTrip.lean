/-
  Lemmas for `unquote (quoteStr s) = s` (GffModel.Quote).
-/
import GffModel.Quote

namespace GffProofs.QuoteRT
open GffModel GffModel.Quote

/-! ### hex digits -/

theorem hexVal_hexU : ∀ n, n < 16 → Str.hexVal? (hexU n) = some n := by
  decide

/-! ### reserved characters are ASCII -/

theorem toQuote_lt (c : Char) (h : toQuote c = true) : c.toNat < 128 := by
  unfold toQuote at h
  simp only [Bool.or_eq_true, decide_eq_true_eq, beq_iff_eq] at h
  rcases h with (((((h | h) | h) | h) | h) | h) | h
  · omega
  · omega
  all_goals (subst h; decide)

theorem not_toQuote_ne_percent (c : Char) (h : toQuote c = false) : c ≠ '%' := by
  intro hc; subst hc; revert h; decide

theorem quoteStr_nil : quoteStr [] = [] := rfl

theorem quoteStr_cons (c : Char) (s : Str) : quoteStr (c :: s) = quoteChar c ++ quoteStr s := by
  simp [quoteStr]

theorem quoteStr_append (a b : Str) : quoteStr (a ++ b) = quoteStr a ++ quoteStr b := by
  simp [quoteStr]

theorem quoteChar_of_toQuote (c : Char) (h : toQuote c = true) :
    quoteChar c = ['%', hexU (c.toNat / 16), hexU (c.toNat % 16)] := by
  simp [quoteChar, h]

theorem quoteChar_of_not (c : Char) (h : toQuote c = false) : quoteChar c = [c] := by
  simp [quoteChar, h]

/-! ### `unquoteBytes ∘ quoteStr` -/

theorem unquoteBytes_cons_ne (c : Char) (hc : c ≠ '%') (X : Str) :
    unquoteBytes (c :: X) = c.toNat :: unquoteBytes X := by
  match X with
  | [] => simp [unquoteBytes]
  | [a] => simp [unquoteBytes]
  | a :: b :: rest => simp [unquoteBytes, hc]

theorem unquoteBytes_quoteStr (r : Str) : unquoteBytes (quoteStr r) = r.map Char.toNat := by
  induction r with
  | nil => simp [quoteStr_nil, unquoteBytes]
  | cons c r ih =>
    rw [quoteStr_cons]
    cases hq : toQuote c with
    | true =>
      have hlt := toQuote_lt c hq
      rw [quoteChar_of_toQuote c hq]
      have h1 := hexVal_hexU (c.toNat / 16) (by omega)
      have h2 := hexVal_hexU (c.toNat % 16) (by omega)
      simp only [List.cons_append, List.nil_append, unquoteBytes, h1, h2, if_true, ih, List.map_cons]
      congr 1
      omega
    | false =>
      rw [quoteChar_of_not c hq]
      simp only [List.cons_append, List.nil_append]
      rw [unquoteBytes_cons_ne c (not_toQuote_ne_percent c hq), ih, List.map_cons]

/-! ### UTF-8 decoding of ASCII bytes -/

theorem utf8DecodeAux_ascii (fuel : Nat) (bs : List Nat) (hf : bs.length < fuel)
    (h : ∀ b ∈ bs, b < 128) : utf8DecodeAux fuel bs = bs.map Char.ofNat := by
  induction bs generalizing fuel with
  | nil => cases fuel <;> simp [utf8DecodeAux]
  | cons b bs ih =>
    cases fuel with
    | zero => simp at hf
    | succ fuel =>
      have hb : b < 128 := h b (by simp)
      simp only [utf8DecodeAux, hb, if_true, List.map_cons]
      rw [ih fuel (by simp at hf; omega) (fun x hx => h x (by simp [hx]))]

theorem utf8Decode_ascii (r : Str) (h : ∀ c ∈ r, isAscii c = true) :
    utf8Decode (r.map Char.toNat) = r := by
  unfold utf8Decode
  rw [utf8DecodeAux_ascii _ _ (by simp)]
  · simp [Function.comp_def]
  · intro b hb
    obtain ⟨c, hc, rfl⟩ := List.mem_map.mp hb
    have := h c hc
    simpa [isAscii] using this

theorem decode_run (r : Str) (h : ∀ c ∈ r, isAscii c = true) :
    utf8Decode (unquoteBytes (quoteStr r)) = r := by
  rw [unquoteBytes_quoteStr, utf8Decode_ascii r h]

/-! ### runs -/

theorem quoteChar_ascii (c : Char) (h : isAscii c = true) : ∀ x ∈ quoteChar c, isAscii x = true := by
  have key : ∀ n, n < 16 → isAscii (hexU n) = true := by decide
  cases hq : toQuote c with
  | true =>
    have hlt := toQuote_lt c hq
    rw [quoteChar_of_toQuote c hq]
    intro x hx
    simp only [List.mem_cons, List.not_mem_nil, or_false] at hx
    rcases hx with rfl | rfl | rfl
    · decide
    · exact key _ (by omega)
    · exact key _ (by omega)
  | false =>
    rw [quoteChar_of_not c hq]
    intro x hx
    simp only [List.mem_cons, List.not_mem_nil, or_false] at hx
    subst hx; exact h

theorem quoteChar_nonascii (c : Char) (h : isAscii c = false) : quoteChar c = [c] := by
  apply quoteChar_of_not
  cases hq : toQuote c with
  | false => rfl
  | true =>
    have := toQuote_lt c hq
    simp [isAscii] at h
    omega

theorem mem_takeWhile_imp {α : Type} (p : α → Bool) (l : List α) (x : α) (h : x ∈ l.takeWhile p) :
    p x = true := by
  induction l with
  | nil => simp at h
  | cons y l ih =>
    rw [List.takeWhile_cons] at h
    cases hy : p y with
    | true =>
      rw [hy] at h
      simp only [if_true, List.mem_cons] at h
      rcases h with rfl | h
      · exact hy
      · exact ih h
    | false =>
      rw [hy] at h
      simp at h

theorem takeWhile_append_all {α : Type} (p : α → Bool) (a b : List α) (h : ∀ x ∈ a, p x = true) :
    (a ++ b).takeWhile p = a ++ b.takeWhile p := by
  induction a with
  | nil => rfl
  | cons x a ih =>
    simp only [List.cons_append, List.takeWhile_cons, h x (by simp), if_true]
    rw [ih (fun y hy => h y (by simp [hy]))]

theorem dropWhile_append_all {α : Type} (p : α → Bool) (a b : List α) (h : ∀ x ∈ a, p x = true) :
    (a ++ b).dropWhile p = b.dropWhile p := by
  induction a with
  | nil => rfl
  | cons x a ih =>
    simp only [List.cons_append, List.dropWhile_cons, h x (by simp), if_true]
    rw [ih (fun y hy => h y (by simp [hy]))]

theorem takeWhile_ascii_quoteStr (s : Str) :
    (quoteStr s).takeWhile isAscii = quoteStr (s.takeWhile isAscii) := by
  induction s with
  | nil => rfl
  | cons c s ih =>
    rw [quoteStr_cons]
    cases hc : isAscii c with
    | true =>
      rw [takeWhile_append_all _ _ _ (quoteChar_ascii c hc), ih]
      simp only [List.takeWhile_cons, hc, if_true, quoteStr_cons]
    | false =>
      rw [quoteChar_nonascii c hc]
      simp [hc, quoteStr_nil]

theorem dropWhile_ascii_quoteStr (s : Str) :
    (quoteStr s).dropWhile isAscii = quoteStr (s.dropWhile isAscii) := by
  induction s with
  | nil => rfl
  | cons c s ih =>
    rw [quoteStr_cons]
    cases hc : isAscii c with
    | true =>
      rw [dropWhile_append_all _ _ _ (quoteChar_ascii c hc), ih]
      simp only [List.dropWhile_cons, hc, if_true]
    | false =>
      rw [quoteChar_nonascii c hc]
      simp [hc, quoteStr_cons, quoteChar_nonascii c hc]

/-- the head of a quoted ASCII character is ASCII -/
theorem quoteChar_head (c : Char) : ∃ h tl, quoteChar c = h :: tl ∧ isAscii h = isAscii c := by
  cases hq : toQuote c with
  | true =>
    rw [quoteChar_of_toQuote c hq]
    refine ⟨_, _, rfl, ?_⟩
    have := toQuote_lt c hq
    simp [isAscii, this]
  | false =>
    rw [quoteChar_of_not c hq]
    exact ⟨_, _, rfl, rfl⟩

theorem takeWhile_nonascii_quoteStr (s : Str) :
    (quoteStr s).takeWhile (fun c => !isAscii c) = s.takeWhile (fun c => !isAscii c) := by
  induction s with
  | nil => rfl
  | cons c s ih =>
    rw [quoteStr_cons]
    cases hc : isAscii c with
    | true =>
      obtain ⟨h, tl, he, hh⟩ := quoteChar_head c
      rw [he]
      simp [hc, hh]
    | false =>
      rw [quoteChar_nonascii c hc]
      simp [hc, ih]

theorem dropWhile_nonascii_quoteStr (s : Str) :
    (quoteStr s).dropWhile (fun c => !isAscii c) = quoteStr (s.dropWhile (fun c => !isAscii c)) := by
  induction s with
  | nil => rfl
  | cons c s ih =>
    rw [quoteStr_cons]
    cases hc : isAscii c with
    | true =>
      obtain ⟨h, tl, he, hh⟩ := quoteChar_head c
      rw [he]
      simp [hc, hh, quoteStr_cons, he]
    | false =>
      rw [quoteChar_nonascii c hc]
      simp [hc, ih]

theorem unquoteRuns_cons (fuel : Nat) (c : Char) (t : Str) :
    unquoteRuns (fuel + 1) (c :: t) =
      if isAscii c then
        utf8Decode (unquoteBytes ((c :: t).takeWhile isAscii)) ++ unquoteRuns fuel ((c :: t).dropWhile isAscii)
      else
        (c :: t).takeWhile (fun c => !isAscii c) ++ unquoteRuns fuel ((c :: t).dropWhile (fun c => !isAscii c)) := by
  rfl

theorem unquoteRuns_nil (fuel : Nat) : unquoteRuns fuel [] = [] := by
  cases fuel <;> rfl

theorem unquoteRuns_quoteStr (fuel : Nat) (s : Str) (hf : s.length < fuel) :
    unquoteRuns fuel (quoteStr s) = s := by
  induction fuel generalizing s with
  | zero => simp at hf
  | succ fuel ih =>
    cases s with
    | nil => rw [quoteStr_nil, unquoteRuns_nil]
    | cons c s =>
      obtain ⟨h, tl, he, hh⟩ := quoteChar_head c
      have hcons : quoteStr (c :: s) = h :: (tl ++ quoteStr s) := by
        rw [quoteStr_cons, he]; rfl
      rw [hcons, unquoteRuns_cons, ← hcons, hh]
      cases hc : isAscii c with
      | true =>
        simp only [if_true]
        rw [takeWhile_ascii_quoteStr, dropWhile_ascii_quoteStr,
          decode_run _ (fun x hx => (mem_takeWhile_imp _ _ _ hx)), ih]
        · exact List.takeWhile_append_dropWhile
        · have : ((c :: s).dropWhile isAscii).length ≤ s.length := by
            simp only [List.dropWhile_cons, hc, if_true]
            exact (List.dropWhile_sublist _).length_le
          simp only [List.length_cons] at hf
          omega
      | false =>
        simp only [Bool.false_eq_true, if_false]
        rw [takeWhile_nonascii_quoteStr, dropWhile_nonascii_quoteStr, ih]
        · exact List.takeWhile_append_dropWhile
        · have : ((c :: s).dropWhile (fun c => !isAscii c)).length ≤ s.length := by
            simp only [List.dropWhile_cons, hc, Bool.not_false, if_true]
            exact (List.dropWhile_sublist _).length_le
          simp only [List.length_cons] at hf
          omega

/-! ### the `'%' ∉` shortcut -/

theorem quoteStr_no_percent (s : Str) (h : '%' ∉ quoteStr s) : quoteStr s = s := by
  induction s with
  | nil => rfl
  | cons c s ih =>
    rw [quoteStr_cons] at h ⊢
    cases hq : toQuote c with
    | true =>
      rw [quoteChar_of_toQuote c hq] at h
      simp at h
    | false =>
      rw [quoteChar_of_not c hq] at h ⊢
      simp only [List.cons_append, List.nil_append, List.mem_cons, not_or] at h
      rw [List.cons_append, List.nil_append, ih h.2]

theorem unquote_quoteStr (s : Str) : unquote (quoteStr s) = s := by
  unfold unquote
  split
  · rename_i h
    apply quoteStr_no_percent
    simpa using h
  · apply unquoteRuns_quoteStr
    have : ∀ (s : Str), s.length ≤ (quoteStr s).length := by
      intro s
      induction s with
      | nil => simp
      | cons c s ih =>
        obtain ⟨h, tl, he, _⟩ := quoteChar_head c
        rw [quoteStr_cons, he]
        simp only [List.length_cons, List.length_append]
        omega
    have := this s
    omega

end GffProofs.QuoteRT
