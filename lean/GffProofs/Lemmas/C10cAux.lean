/-
  C10c — helper lemmas, part 1: `_populate_from_lines` continued on a database that already holds rows
  (lines of earlier batches and derived rows), with counters that also count renamed duplicates.
-/
import GffProofs.Lemmas.C10cSpec
import GffProofs.Props.C10b

namespace GffProofs.C10c
open GffModel GffModel.Create GffModel.Interface
open GffProofs.C03
open GffProofs.C04 (autoId incr_spec Dict.get?_set_self Dict.get?_set_ne)
open GffProofs.C02 (insert_fresh)

/-! ### `_id_handler` with counters known only on the featuretypes satisfying `P` -/

theorem lineKey_specP (cfg : Cfg) (hc : CfgOk cfg) (fs : List Feature) (h : GtfOk cfg fs) (pre : List Feature)
    (f : Feature) (hf : f ∈ fs) (auto : Dict Nat) (P : Str → Prop) (hP : explicit f = false → P f.ftype)
    (hcnt : ∀ ft, ft ≠ geneT → ft ≠ transcriptT → P ft →
      (auto.get? ft).getD 0 = (pre.filter (fun g => g.ftype = ft)).length) :
    ∃ auto', idHandler cfg.idSpec auto f = .ok (lineKey cfg pre f, auto') ∧
      (∀ ft, ft ≠ geneT → ft ≠ transcriptT → P ft →
        (auto'.get? ft).getD 0 = ((pre ++ [f]).filter (fun g => g.ftype = ft)).length) ∧
      (f.ftype = geneT → some (lineKey cfg pre f) = gidOf cfg f) ∧
      (f.ftype = transcriptT → some (lineKey cfg pre f) = tidOf cfg f) := by
  by_cases hG : f.ftype = geneT
  · obtain ⟨⟨g, hg⟩, _⟩ := h.geneLines f hf hG
    have hk : lineKey cfg pre f = g := by simp [lineKey, hG, gidOf, firstVal_single hg]
    refine ⟨auto, ?_, ?_, ?_, ?_⟩
    · rw [hk]; exact idHandler_gene cfg hc auto f g hG hg
    · intro ft h1 h2 h3
      have : ¬ f.ftype = ft := by rw [hG]; exact Ne.symm h1
      simp [List.filter_append, this, hcnt ft h1 h2 h3]
    · intro _; rw [hk, gidOf, firstVal_single hg]
    · intro e; rw [hG] at e; exact absurd e geneT_ne_transcriptT
  · by_cases hT : f.ftype = transcriptT
    · obtain ⟨t, ht⟩ := h.trLines f hf hT
      have hk : lineKey cfg pre f = t := by
        simp [lineKey, hT, tidOf, firstVal_single ht, Ne.symm geneT_ne_transcriptT]
      refine ⟨auto, ?_, ?_, ?_, ?_⟩
      · rw [hk]; exact idHandler_tr cfg hc auto f t hT ht
      · intro ft h1 h2 h3
        have : ¬ f.ftype = ft := by rw [hT]; exact Ne.symm h2
        simp [List.filter_append, this, hcnt ft h1 h2 h3]
      · intro e; exact absurd e hG
      · intro _; rw [hk, tidOf, firstVal_single ht]
    · have hPf : P f.ftype := hP ((explicit_false_iff f).mpr ⟨hG, hT⟩)
      refine ⟨(incr auto f.ftype).2, ?_, ?_, fun e => absurd e hG, fun e => absurd e hT⟩
      · rw [idHandler_other cfg hc auto f hG hT, incr_spec, hcnt f.ftype hG hT hPf]
        simp [lineKey, hG, hT]
      · intro ft h1 h2 h3
        rw [incr_spec]
        simp only
        by_cases e : f.ftype = ft
        · subst e
          rw [Dict.get?_set_self, hcnt f.ftype h1 h2 h3]
          simp [List.filter_append]
        · rw [Dict.get?_set_ne _ _ _ _ (Ne.symm e), hcnt ft h1 h2 h3]
          simp [List.filter_append, e]

/-! ### the loop invariant, relative to the rows `R0` stored before the loop -/

/-- after the lines `done` of the batch (the lines `pre0` were imported earlier): the table is `R0` followed by
the rows of `done`; the relation table is the one of `pre0 ++ done`; `duplicates` untouched; the counters of
the featuretypes in `P` count lines -/
structure PopFrom (cfg : Cfg) (R0 : List Row) (dups0 : List (Str × Str)) (P : Str → Prop)
    (pre0 done : List Feature) (db : Db) (auto : Dict Nat) : Prop where
  feats : db.features = R0 ++ (keyedAux cfg pre0 done).map (fun fk => lineRow fk.1 fk.2)
  rels : ∀ r, r ∈ db.relations ↔ RelSpec cfg (pre0 ++ done) r
  nodup : db.relations.Nodup
  dups : db.duplicates = dups0
  cnt : ∀ ft, ft ≠ geneT → ft ≠ transcriptT → P ft →
    (auto.get? ft).getD 0 = ((pre0 ++ done).filter (fun g => g.ftype = ft)).length

theorem keyed_append (cfg : Cfg) (a b : List Feature) : keyed cfg (a ++ b) = keyed cfg a ++ keyedAux cfg a b := by
  unfold keyed
  rw [keyedAux_append]
  simp

theorem gtfStep_from (cfg : Cfg) (hc : CfgOk cfg) (total : List Feature) (h : GtfOk cfg total)
    (P : Str → Prop) (hP : ∀ f ∈ total, explicit f = false → P f.ftype)
    (R0 : List Row) (dups0 : List (Str × Str)) (pre0 done : List Feature) (f : Feature) (rest : List Feature)
    (htot : total = pre0 ++ done ++ f :: rest) (db : Db) (auto : Dict Nat)
    (inv : PopFrom cfg R0 dups0 P pre0 done db auto)
    (hfresh : lineKey cfg (pre0 ++ done) f ∉ R0.map (·.id)) :
    ∃ db' auto', gtfStep cfg (db, auto) f = .ok (db', auto') ∧
      PopFrom cfg R0 dups0 P pre0 (done ++ [f]) db' auto' := by
  have hf : f ∈ total := by rw [htot]; simp
  obtain ⟨auto', hid, hcnt', hkg, hkt⟩ :=
    lineKey_specP cfg hc total h (pre0 ++ done) f hf auto P (hP f hf) inv.cnt
  have hmem : (f, lineKey cfg (pre0 ++ done) f) ∈ keyed cfg total := by rw [htot, keyed_append_cons]; simp
  have hfresh' : lineKey cfg (pre0 ++ done) f ∉ db.features.map (·.id) := by
    have hn := h.keysNodup
    rw [htot, keyed_append_cons, List.map_append, List.map_cons, List.nodup_append] at hn
    intro hin
    rw [inv.feats, List.map_append, List.mem_append] at hin
    rcases hin with hin | hin
    · exact hfresh hin
    · rw [List.map_map] at hin
      obtain ⟨fk, hfk, hfke⟩ := List.mem_map.mp hin
      have hfk' : fk ∈ keyed cfg (pre0 ++ done) := by rw [keyed_append]; exact List.mem_append_right _ hfk
      exact hn.2.2 fk.2 (List.mem_map.mpr ⟨fk, hfk', rfl⟩) (lineKey cfg (pre0 ++ done) f) (by simp) hfke
  refine ⟨_, auto', gtfStep_fresh cfg db auto auto' f _ hid hfresh', ?_, ?_, ?_, ?_, ?_⟩
  · rw [addRels_features, keyedAux_append, inv.feats]
    simp [keyedAux]
  · intro r
    rw [mem_addRels, stepRel_iff_lineRel cfg total h (f, lineKey cfg (pre0 ++ done) f) hmem hkg hkt]
    show (r ∈ db.relations ∨ _) ↔ _
    rw [inv.rels]
    unfold RelSpec
    rw [← List.append_assoc, keyed_snoc]
    constructor
    · rintro (⟨fk, hfk, hr⟩ | hr)
      · exact ⟨fk, List.mem_append_left _ hfk, hr⟩
      · exact ⟨_, by simp, hr⟩
    · rintro ⟨fk, hfk, hr⟩
      rcases List.mem_append.mp hfk with hfk | hfk
      · exact Or.inl ⟨fk, hfk, hr⟩
      · simp only [List.mem_singleton] at hfk; subst hfk; exact Or.inr hr
  · exact addRels_nodup _ _ _ _ inv.nodup
  · rw [addRels_duplicates]; exact inv.dups
  · intro ft h1 h2 h3
    rw [← List.append_assoc]
    exact hcnt' ft h1 h2 h3

theorem foldlM_gtfStep_from (cfg : Cfg) (hc : CfgOk cfg) (total : List Feature) (h : GtfOk cfg total)
    (P : Str → Prop) (hP : ∀ f ∈ total, explicit f = false → P f.ftype)
    (R0 : List Row) (dups0 : List (Str × Str)) (pre0 : List Feature) (rest : List Feature) :
    ∀ (done : List Feature) (db : Db) (auto : Dict Nat), total = pre0 ++ done ++ rest →
      (∀ fk ∈ keyedAux cfg (pre0 ++ done) rest, fk.2 ∉ R0.map (·.id)) →
      PopFrom cfg R0 dups0 P pre0 done db auto →
      ∃ db' auto', rest.foldlM (gtfStep cfg) (db, auto) = .ok (db', auto') ∧
        PopFrom cfg R0 dups0 P pre0 (done ++ rest) db' auto' := by
  induction rest with
  | nil =>
    intro done db auto _ _ inv
    exact ⟨db, auto, rfl, by simpa using inv⟩
  | cons f rest ih =>
    intro done db auto htot hfr inv
    obtain ⟨db1, auto1, h1, inv1⟩ := gtfStep_from cfg hc total h P hP R0 dups0 pre0 done f rest htot db auto inv
      (hfr (f, lineKey cfg (pre0 ++ done) f) (by simp [keyedAux]))
    obtain ⟨db2, auto2, h2, inv2⟩ := ih (done ++ [f]) db1 auto1 (by simpa using htot)
      (by
        intro fk hfk
        apply hfr fk
        simp only [keyedAux, List.mem_cons]
        right
        simpa [List.append_assoc] using hfk)
      inv1
    refine ⟨db2, auto2, ?_, by simpa using inv2⟩
    simp only [List.foldlM_cons, h1, bind, Except.bind]
    exact h2

/-! ### the whole loop, from a database satisfying the invariant -/

theorem mem_of_prefix {α : Type} {a b : List α} (h : a <+: b) {x : α} (hx : x ∈ a) : x ∈ b := by
  obtain ⟨c, rfl⟩ := h
  exact List.mem_append_left _ hx

theorem tOwns_mono {cfg : Cfg} {a b : List Feature} (h : ∀ x ∈ a, x ∈ b) {t g : Str} (ho : TOwns cfg a t g) :
    TOwns cfg b t g := by
  obtain ⟨f, hf, h1, h2, h3⟩ := ho
  exact ⟨f, h f hf, h1, h2, h3⟩

theorem gOwns_mono {cfg : Cfg} {a b : List Feature} (h : ∀ x ∈ a, x ∈ b) {g : Str} (ho : GOwns cfg a g) :
    GOwns cfg b g := by
  obtain ⟨t, ho⟩ := ho
  exact ⟨t, tOwns_mono h ho⟩

/-- the id of a (stale) derived row is a transcript id or a gene id of the history -/
theorem staleDerived_id {cfg : Cfg} {fs : List Feature} {row : Row} (h : StaleDerived cfg fs row) :
    row.id ∈ tids cfg fs ∨ row.id ∈ gids cfg fs := by
  rcases h with ⟨t, g, fs', hp, ⟨f, hf, _, htid, _⟩, hr⟩ | ⟨g, fs', hp, ⟨t, f, hf, _, _, hgid⟩, hr⟩
  · left; rw [hr.id]; exact mem_tids (mem_of_prefix hp hf) htid
  · right; rw [hr.id]; exact mem_gids (mem_of_prefix hp hf) hgid

theorem staleDerived_ftype {cfg : Cfg} {fs : List Feature} {row : Row} (h : StaleDerived cfg fs row) :
    row.ftype = transcriptT ∨ row.ftype = geneT := by
  rcases h with ⟨t, g, fs', _, _, hr⟩ | ⟨g, fs', _, _, hr⟩
  · exact Or.inl hr.ftype
  · exact Or.inr hr.ftype

theorem staleDerived_mono {cfg : Cfg} {a b : List Feature} (hab : a <+: b) {row : Row}
    (h : StaleDerived cfg a row) : StaleDerived cfg b row := by
  rcases h with ⟨t, g, fs', hp, ho, hr⟩ | ⟨g, fs', hp, ho, hr⟩
  · exact Or.inl ⟨t, g, fs', hp.trans hab, ho, hr⟩
  · exact Or.inr ⟨g, fs', hp.trans hab, ho, hr⟩

/-- under `SuffixOk` no line featuretype (of a non-gene, non-transcript line) is a transcript / gene id -/
theorem ftype_not_id {cfg : Cfg} {fs : List Feature} (h : GtfOk cfg fs) (hs : SuffixOk cfg fs)
    {f : Feature} (hf : f ∈ fs) (hex : explicit f = false) : f.ftype ∉ tids cfg fs ∧ f.ftype ∉ gids cfg fs := by
  obtain ⟨k, hk⟩ := exists_key_of_mem (cfg := cfg) hf
  obtain ⟨n, hn⟩ := (key_shape cfg fs h (f, k) hk).2.2 hex
  simp only at hn
  have hkm : k ∈ (keyed cfg fs).map (·.2) := List.mem_map.mpr ⟨(f, k), hk, rfl⟩
  constructor
  · intro hin
    exact (hs f.ftype (Or.inl hin) n).1 (hn ▸ hkm)
  · intro hin
    exact (hs f.ftype (Or.inr hin) n).1 (hn ▸ hkm)

theorem tids_append (cfg : Cfg) (a b : List Feature) : tids cfg (a ++ b) = tids cfg a ++ tids cfg b := by
  simp [tids, List.filterMap_append]
theorem gids_append (cfg : Cfg) (a b : List Feature) : gids cfg (a ++ b) = gids cfg a ++ gids cfg b := by
  simp [gids, List.filterMap_append]

/-- **`_populate_from_lines` of an `update`**: on a database satisfying the invariant for the lines `pre`, the
lines `post` are appended under their keys (numbering continued), nothing else moves, and the invariant
holds for `pre ++ post` -/
theorem populateGtf_gInv (cfg : Cfg) (hc : CfgOk cfg) (pre post : List Feature) (hpost : post ≠ [])
    (hok : GtfOk cfg (pre ++ post)) (hs : SuffixOk cfg (pre ++ post)) (db : Db) (auto : Dict Nat)
    (inv : GtfDbInv cfg pre db auto)
    (hnew : ∀ fk ∈ keyedAux cfg pre post, explicit fk.1 = true → fk.2 ∉ db.features.map (·.id)) :
    ∃ db1 auto1, populateGtf cfg db auto post = .ok (db1, auto1) ∧
      db1.features = db.features ++ (keyedAux cfg pre post).map (fun fk => lineRow fk.1 fk.2) ∧
      db1.duplicates = db.duplicates ∧
      GtfDbInv cfg (pre ++ post) db1 auto1 := by
  have hkeys : keyed cfg (pre ++ post) = keyed cfg pre ++ keyedAux cfg pre post := keyed_append cfg pre post
  have hnd := hok.keysNodup
  rw [hkeys, List.map_append, List.nodup_append] at hnd
  -- freshness of every new key
  have hfr : ∀ fk ∈ keyedAux cfg pre post, fk.2 ∉ db.features.map (·.id) := by
    intro fk hfk
    cases hex : explicit fk.1 with
    | true => exact hnew fk hfk hex
    | false =>
      intro hin
      obtain ⟨r, hr, hre⟩ := List.mem_map.mp hin
      have hfk' : fk ∈ keyed cfg (pre ++ post) := by rw [hkeys]; exact List.mem_append_right _ hfk
      rcases inv.rows r hr with ⟨fk0, hfk0, rfl⟩ | hst
      · exact hnd.2.2 fk0.2 (List.mem_map.mpr ⟨fk0, hfk0, rfl⟩) fk.2 (List.mem_map.mpr ⟨fk, hfk, rfl⟩) hre
      · have := hok.idsNotAuto fk hfk' hex
        rw [tids_append, gids_append] at this
        rcases staleDerived_id hst with h1 | h1
        · exact this.1 (List.mem_append_left _ (hre ▸ h1))
        · exact this.2 (List.mem_append_left _ (hre ▸ h1))
  obtain ⟨db1, auto1, hrun, inv1⟩ := foldlM_gtfStep_from cfg hc (pre ++ post) hok
    (fun ft => ft ∉ tids cfg (pre ++ post) ∧ ft ∉ gids cfg (pre ++ post))
    (fun f hf hex => ftype_not_id hok hs hf hex) db.features db.duplicates pre post [] db auto (by simp)
    (by simpa using hfr)
    ⟨by simp [keyedAux], by simpa using inv.rels, inv.relsNodup, rfl, by
      intro ft h1 h2 h3
      rw [List.append_nil]
      rw [tids_append, gids_append] at h3
      exact inv.cnt ft h1 h2 (fun hin => h3.1 (List.mem_append_left _ hin))
        (fun hin => h3.2 (List.mem_append_left _ hin))⟩
  simp only [List.nil_append] at inv1
  refine ⟨db1, auto1, by rw [GffProofs.C10.populateGtf_ne _ _ _ _ hpost]; exact hrun, inv1.feats, inv1.dups, ?_⟩
  refine ⟨?_, ?_, ?_, inv1.rels, inv1.nodup, ?_, ?_⟩
  · intro fk hfk
    rw [hkeys] at hfk
    rw [inv1.feats]
    rcases List.mem_append.mp hfk with hfk | hfk
    · exact List.mem_append_left _ (inv.linesIn fk hfk)
    · exact List.mem_append_right _ (List.mem_map.mpr ⟨fk, hfk, rfl⟩)
  · intro row hrow
    rw [inv1.feats] at hrow
    rcases List.mem_append.mp hrow with hrow | hrow
    · rcases inv.rows row hrow with ⟨fk, hfk, rfl⟩ | hst
      · exact Or.inl ⟨fk, by rw [hkeys]; exact List.mem_append_left _ hfk, rfl⟩
      · exact Or.inr (staleDerived_mono (List.prefix_append pre post) hst)
    · obtain ⟨fk, hfk, rfl⟩ := List.mem_map.mp hrow
      exact Or.inl ⟨fk, by rw [hkeys]; exact List.mem_append_right _ hfk, rfl⟩
  · rw [inv1.feats, List.map_append, List.nodup_append]
    refine ⟨inv.idsNodup, ?_, ?_⟩
    · rw [List.map_map]
      exact hnd.2.1
    · intro a ha b hb e
      rw [List.map_map] at hb
      obtain ⟨fk, hfk, rfl⟩ := List.mem_map.mp hb
      exact hfr fk hfk (by rw [e] at ha; exact ha)
  · intro on hon
    rw [inv1.dups] at hon
    obtain ⟨h1, h2⟩ := inv.dups on hon
    rw [tids_append, gids_append]
    exact ⟨h1.imp (List.mem_append_left _) (List.mem_append_left _), h2⟩
  · intro ft h1 h2 h3 h4
    exact inv1.cnt ft h1 h2 ⟨h3, h4⟩

end GffProofs.C10c
